(* Proofs/StreamTotal.v — property C08: [strands] is total on reachable states.

   [strands] (Model/Stream.v) follows a reader down through forwarder goroutines and copy
   parents with a fuel.  By the rank of Proofs/StreamRank.v that recursion is well founded in
   every reachable state: there is a fuel for which it returns a value (for every [w]), and more
   fuel does not change the value.  The tree theorems of Props/C08.v ("for every N for which
   strands returns a value") therefore speak about every reader of every reachable state. *)
From Eino Require Import Base.Util Model.Stream Proofs.Stream Proofs.StreamRel Proofs.StreamWf Proofs.StreamClose Proofs.StreamLink Proofs.StreamSem Proofs.StreamEof Proofs.StreamRank Proofs.StreamTrace.
From Coq Require Import Lia Permutation.

Lemma opt_concat_mono : forall A B (f g : B -> option (list A)) l r,
  (forall b x, In b l -> f b = Some x -> g b = Some x) ->
  opt_concat (map f l) = Some r -> opt_concat (map g l) = Some r.
Proof.
  intros A B f g. induction l as [|b l IH]; intros r Hfg H; simpl in *; auto.
  destruct (f b) as [x|] eqn:Ef; [|discriminate].
  rewrite (Hfg b x (or_introl eq_refl) Ef).
  destruct (opt_concat (map f l)) as [y|] eqn:Ey; [|discriminate].
  rewrite (IH y); auto.
Qed.

Lemma strands_mono : forall N G w t l, strands N G w t = Some l -> strands (S N) G w t = Some l.
Proof.
  induction N as [|N IH]; intros G w t l H; [discriminate|].
  rewrite strands_unfold in H. rewrite strands_unfold.
  assert (Hos : forall sid x, of_stream N G w sid = Some x -> of_stream (S N) G w sid = Some x).
  { intros sid x. unfold of_stream. destruct (find_fwd_to G sid) as [F|]; auto. }
  destruct t as [d rest | sid | sts ch | f src cin cout | p i]; auto.
  - eapply opt_concat_mono; [|exact H]. intros b x _. apply Hos.
  - destruct (strands N G w src) as [l0|] eqn:E; [|discriminate]. rewrite (IH _ _ _ _ E). exact H.
  - destruct (nth_error (parents (st_store G)) p) as [P|]; auto.
Qed.

Lemma strands_mono_le : forall N M G w t l, N <= M -> strands N G w t = Some l -> strands M G w t = Some l.
Proof. intros N M G w t l Hle. induction Hle; auto. intros H. apply strands_mono. auto. Qed.

Lemma of_stream_mono_le : forall N M G w sid x, N <= M -> of_stream N G w sid = Some x -> of_stream M G w sid = Some x.
Proof.
  intros N M G w sid x Hle. unfold of_stream. destruct (find_fwd_to G sid) as [F|]; auto.
  apply strands_mono_le. exact Hle.
Qed.

Definition total_at (G : state) (t : rd) : Prop := exists N, forall w, exists l, strands N G w t = Some l.
Definition total_os (G : state) (sid : nat) : Prop := exists N, forall w, exists l, of_stream N G w sid = Some l.

Lemma total_os_list : forall G sts, (forall sid, In sid sts -> total_os G sid) ->
  exists N, forall w, exists r, opt_concat (map (of_stream N G w) sts) = Some r.
Proof.
  intros G. induction sts as [|sid sts IH]; intros H.
  - exists 0. intros w. exists []. reflexivity.
  - destruct (H sid (or_introl eq_refl)) as (N1 & H1). destruct IH as (N2 & H2).
    { intros s Hs. apply H. right. exact Hs. }
    exists (Nat.max N1 N2). intros w. destruct (H1 w) as (l1 & E1). destruct (H2 w) as (r2 & E2).
    exists (l1 ++ r2). simpl.
    rewrite (of_stream_mono_le N1 (Nat.max N1 N2) G w sid l1 (Nat.le_max_l _ _) E1).
    rewrite (opt_concat_mono _ _ (of_stream N2 G w) (of_stream (Nat.max N1 N2) G w) sts r2); auto.
    intros b x _. apply of_stream_mono_le. apply Nat.le_max_r.
Qed.

Lemma find_fwd_to_none_or : forall G sid, find_fwd_to G sid = None \/ exists F, find_fwd_to G sid = Some F.
Proof. intros G sid. destruct (find_fwd_to G sid); eauto. Qed.

Lemma strands_total_rk : forall G rs rp, wf G -> RK rs rp G ->
  forall n t, Forall (fun r => rkr rs rp r < n) (refs t) -> Forall (ref_ok (st_store G)) (refs t) -> total_at G t.
Proof.
  intros G rs rp HW [K1 K2]. induction n as [|n IHn]; intros t.
  - (* no reference can have a rank below 0 *)
    induction t as [d rest | sid | sts ch | f src IHs cin cout | p i]; intros Hr Hok; simpl in *.
    + exists 1. intros w. eexists. reflexivity.
    + inversion Hr; subst. lia.
    + destruct sts as [|s sts]; [|inversion Hr; subst; simpl in *; lia].
      exists 1. intros w. exists []. reflexivity.
    + destruct (IHs Hr Hok) as (N & HN). exists (S N). intros w. destruct (HN w) as (l & E).
      rewrite strands_unfold, E. eexists. reflexivity.
    + inversion Hr; subst. simpl in *. lia.
  - assert (Hstream : forall sid, rs sid < S n -> sid < List.length (streams (st_store G)) -> total_os G sid).
    { intros sid Hlt Hin. unfold total_os, of_stream.
      destruct (find_fwd_to G sid) as [F|] eqn:Ef.
      - destruct (find_fwd_to_spec _ _ _ Ef) as (k & Hk & Hd). pose proof (nth_error_In _ _ Hk) as HinF.
        destruct (IHn (f_src F)) as (N & HN).
        + specialize (K1 F HinF). rewrite Hd in K1. eapply Forall_impl; [|exact K1]. simpl. intros r Hr. lia.
        + destruct HW as (_ & W2 & _). rewrite Forall_forall in *. intros r Hr. apply W2.
          unfold all_refs. apply in_or_app. right. apply in_or_app. right. unfold frefs. apply in_flat_map. eauto.
        + exists N. exact HN.
      - apply nth_error_Some in Hin. destruct (nth_error (streams (st_store G)) sid) as [s|]; [|congruence].
        exists 0. intros w. destruct (s_user s); eexists; reflexivity. }
    induction t as [d rest | sid | sts ch | f src IHs cin cout | p i]; intros Hr Hok; simpl in *.
    + exists 1. intros w. eexists. reflexivity.
    + inversion Hr; subst. inversion Hok; subst. simpl in *.
      destruct (Hstream sid) as (N & HN); auto. exists (S N). intros w. rewrite strands_unfold. apply HN.
    + destruct (total_os_list G sts) as (N & HN).
      { intros sid Hin. rewrite Forall_forall in Hr, Hok. apply Hstream.
        - apply (Hr (RS sid)). apply in_map. exact Hin.
        - apply (Hok (RS sid)). apply in_map. exact Hin. }
      exists (S N). intros w. rewrite strands_unfold. apply HN.
    + destruct (IHs Hr Hok) as (N & HN). exists (S N). intros w. destruct (HN w) as (l & E).
      rewrite strands_unfold, E. eexists. reflexivity.
    + inversion Hr; subst. inversion Hok; subst. simpl in *. destruct H3 as (P & HP & _).
      destruct (IHn (p_src P)) as (N & HN).
      * specialize (K2 _ _ HP). eapply Forall_impl; [|exact K2]. simpl. intros r Hr0. lia.
      * destruct HW as (_ & W2 & _). rewrite Forall_forall in *. intros r Hr0. apply W2.
        unfold all_refs. apply in_or_app. right. apply in_or_app. left. unfold prefs. apply in_flat_map.
        exists P. split; auto. eapply nth_error_In; eauto.
      * exists (S N). intros w. rewrite strands_unfold, HP. apply HN.
Qed.

(* every reader held by a live handle, a copy parent or a forwarder of a reachable state has
   strands, for a fuel that does not depend on what the pipes accepted *)
Lemma run_strands_total : forall fuel ops bs G, run fuel init_state ops = (bs, G) ->
  forall h H, nth_error (st_handles G) h = Some H -> h_live H = true ->
    exists N, forall w, exists strs, forall M, N <= M -> strands M G w (h_rd H) = Some strs.
Proof.
  intros fuel ops bs G Hrun h H Hn Hlv.
  pose proof (reachable_wf _ _ _ _ Hrun) as HW. destruct (reachable_ranked _ _ _ _ Hrun) as (rs & rp & HK).
  assert (Hok : Forall (ref_ok (st_store G)) (refs (h_rd H))).
  { destruct HW as (_ & W2 & _). rewrite Forall_forall in *. intros r Hr. apply W2.
    unfold all_refs. apply in_or_app. left. apply in_flat_map. exists H. split; [eapply nth_error_In; eauto|].
    unfold hrefs. rewrite Hlv. exact Hr. }
  destruct (strands_total_rk G rs rp HW HK (S (list_max (map (rkr rs rp) (refs (h_rd H))))) (h_rd H)) as (N & HN); auto.
  { rewrite Forall_forall. intros r Hr. apply Nat.lt_succ_r. apply list_max_ge. apply in_map. exact Hr. }
  exists N. intros w. destruct (HN w) as (l & E). exists l. intros M HM. eapply strands_mono_le; eauto.
Qed.

(* the tree theorems without a fuel: every live reader of a legal run HAS strands, what it
   received is an interleaving of prefixes of them, a complete one once it has seen io.EOF *)
Lemma run_tree_delivery_total : forall fuel ops bs G,
  run fuel init_state ops = (bs, G) -> legal_run fuel ops ->
  forall h H, nth_error (st_handles G) h = Some H -> h_live H = true ->
  exists strs,
    (exists N, forall M, N <= M -> strands M G (cur_w G) (h_rd H) = Some strs)
    /\ Shuf false (h_got H) strs /\ is_interleaving_of false (h_got H) strs = true
    /\ (h_eof H = true -> Shuf true (h_got H) strs /\ is_interleaving_of true (h_got H) strs = true).
Proof.
  intros fuel ops bs G Hrun Hleg h H Hn Hlv.
  destruct (run_strands_total _ _ _ _ Hrun h H Hn Hlv) as (N & HN). destruct (HN (cur_w G)) as (strs & Hs).
  exists strs. split; [exists N; exact Hs|].
  pose proof (Hs N (le_n _)) as HsN.
  destruct (run_tree_delivery _ _ _ _ Hrun Hleg h H Hn Hlv N strs HsN) as [A B]. split; auto. split; auto.
  intros He. exact (run_tree_delivery_full _ _ _ _ Hrun Hleg h H Hn Hlv He N strs HsN).
Qed.

(* [strands] reads [w] at user pipes only *)
Lemma strands_w_ext : forall N G w w' t,
  (forall sid s, nth_error (streams (st_store G)) sid = Some s -> s_user s = true -> w sid = w' sid) ->
  strands N G w t = strands N G w' t.
Proof.
  induction N as [|N IH]; intros G w w' t Hw; [reflexivity|].
  rewrite !strands_unfold.
  assert (Hos : forall sid, of_stream N G w sid = of_stream N G w' sid).
  { intros sid. unfold of_stream. destruct (find_fwd_to G sid) as [F|]; [apply IH; exact Hw|].
    destruct (nth_error (streams (st_store G)) sid) as [s|] eqn:Es; auto.
    destruct (s_user s) eqn:Eu; auto. rewrite (Hw sid s Es Eu). reflexivity. }
  destruct t as [d rest | sid | sts ch | f src cin cout | p i]; auto.
  - f_equal. apply map_ext. exact Hos.
  - rewrite (IH G w w' src Hw). reflexivity.
  - destruct (nth_error (parents (st_store G)) p) as [P|]; auto.
Qed.

(* the tree theorem stated on the observable trace alone: what the Recv calls on a handle
   returned is an order-preserving interleaving of (prefixes of) the strands computed from what
   the Send calls accepted — the predicate the correspondence check evaluates on the
   implementation's histories ([leaf_ok] of Corr/C08.v) *)
Lemma run_tree_delivery_trace : forall fuel ops bs G,
  run fuel init_state ops = (bs, G) -> legal_run fuel ops ->
  forall h H, nth_error (st_handles G) h = Some H -> h_live H = true ->
  exists strs,
    (exists N, forall M, N <= M -> strands M G (fun sid => sent_trace sid ops bs) (h_rd H) = Some strs)
    /\ is_interleaving_of false (recv_trace h ops bs) strs = true
    /\ (eof_trace h ops bs = true -> is_interleaving_of true (recv_trace h ops bs) strs = true).
Proof.
  intros fuel ops bs G Hrun Hleg h H Hn Hlv.
  destruct (run_tree_delivery_total _ _ _ _ Hrun Hleg h H Hn Hlv) as (strs & (N & HN) & _ & A & B).
  destruct (run_recv_log_is_trace _ _ _ _ Hrun h H Hn) as [Eg Ee].
  exists strs. split; [|split].
  - exists N. intros M HM. rewrite <- (HN M HM). apply strands_w_ext.
    intros sid s Hs Hu. unfold cur_w. rewrite Hs. symmetry. eapply run_sent_log_is_trace; eauto.
  - rewrite <- Eg. exact A.
  - intros He. rewrite <- Eg. apply B. rewrite Ee. exact He.
Qed.
