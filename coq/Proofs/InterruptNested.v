(* Proofs/InterruptNested.v — interrupts raised INSIDE nested graphs (and nodes asking for a rerun, at any
   nesting level) are transparent in the model the correspondence evaluates (owner: C05).

   [node_exec d F g] — the node bodies of graph g of the forest F: lambdas with rerun tables, nested graphs
   with their own interrupt points, nested to any depth — follows the body protocol of
   Proofs/RunLoopSusp.v relative to the uninterrupted bodies [ubody d F g] (a nested graph = its run without
   any interrupt configuration, to completion): by induction on the nesting depth, the step being the
   generic segment theorems [seg_fresh_ok] / [seg_resumed_ok]. *)
From Eino Require Import Base.Util Model.Graph Model.RunLoop Model.Interrupt
     Proofs.RunLoop Proofs.RunLoopSusp Proofs.InterruptChan Proofs.InterruptChanPregel Proofs.Interrupt
     Proofs.InterruptRerun.
From Coq Require Import Permutation.
Open Scope N_scope.

(* ---------- what the bodies emit: the completed lambda executions (node, input) of every level ---------- *)
Definition xev := (N * value)%type.
Definition live1 (en : lentry) : list xev :=
  match en with LExec k v false => [(k, v)] | _ => [] end.
Definition live (l : list lentry) : list xev := flat_map live1 l.
Definition trE (e : env) : list xev := live (e_log e).
(* every environment (calls with and without state modifier) *)
Definition EOKe (e : env) : Prop := True.

(* what a state modifier of the harness may change: the counter the handlers never read *)
Definition geqN (a b : gst) : Prop :=
  match a, b with
  | Some x, Some y => st_seen x = st_seen y /\ st_saved x = st_saved y
  | None, None => True
  | _, _ => False
  end.

Lemma geqN_refl : forall g, geqN g g.
Proof. intros [x|]; simpl; auto. Qed.

Lemma geqN_trans : forall a b c, geqN a b -> geqN b c -> geqN a c.
Proof. intros [x|] [y|] [z|]; simpl; try tauto. intros [? ?] [? ?]. split; congruence. Qed.

Lemma geqN_bump : forall g, geqN (bump g) g.
Proof. intros [x|]; simpl; auto. Qed.

Lemma pre_fn_geq : forall g k v a b, geqN a b ->
  fst (pre_fn g k v a) = fst (pre_fn g k v b) /\ geqN (snd (pre_fn g k v a)) (snd (pre_fn g k v b)).
Proof.
  intros g k v [x|] [y|] H; simpl in H; try (exfalso; exact H).
  - destruct H as [H1 H2]. unfold pre_fn.
    destruct (gs_state g && memN k (gs_st g))%bool; [|simpl; auto].
    destruct (is_empty v); simpl.
    + rewrite H2. auto.
    + rewrite H1, H2. auto.
  - simpl. auto.
Qed.

Lemma live_app : forall a b, live (a ++ b) = live a ++ live b.
Proof. intros; unfold live; apply flat_map_app. Qed.

Lemma live_pres : forall l : list N, live (map LPre l) = [].
Proof. induction l; simpl; auto. Qed.

(* ---------- the state layer of the model ---------- *)
Definition rerunN (g : gspec) (k : N) : Prop := gs_state g = true /\ memN k (gs_st g) = true.
Definition GOKN (g : gspec) (s : gst) : Prop := gs_state g = true -> has_state s.
(* every node with a rerun table has the stamping / rebuilding pre-handler (the property's proviso) *)
Definition rerun_ok' (g : gspec) : Prop :=
  forall k l, nlist_get k (gs_rerun g) = Some l -> gs_state g = true /\ memN k (gs_st g) = true.

Lemma state_layer_model : forall g, rerun_ok' g -> state_layer (SCP := ncp) VNil (pre_fn g) (rerunN g) (GOKN g) geqN.
Proof.
  intros g Hok. constructor.
  - exact geqN_refl.
  - exact geqN_trans.
  - apply pre_fn_geq.
  - intros k v gs Hg Hst. apply pre_fn_has_state. auto.
  - intros ts gs Hg Hn Hf t' Hin [Hst Hm].
    assert (Hrok : rerun_ok g) by (split; [exact Hst|]; intros k l Hl; destruct (Hok k l Hl); auto).
    apply (pre_fn_rebuild g Hrok); auto.
Qed.

Lemma GOKN_gs0 : forall g, GOKN g (gs0 g).
Proof. intros g Hst. unfold gs0. rewrite Hst. eexists; reflexivity. Qed.

(* ---------- the channel layer: any-predecessor mode ---------- *)
Lemma chan_layer_pregel : forall gr, g_mode gr = Pregel -> chan_layer (ifold gr) (igetr gr) (fun cs _ => pinv cs).
Proof.
  intros gr Hm. constructor.
  - auto.
  - intros; eapply ifold_pinv; eauto.
  - intros; eapply igetr_pinv; eauto.
  - intros; apply ifold_nil.
  - intros cs cs' r _ Hg. eapply igetr_idem; eauto. unfold chan_inv. rewrite Hm. exact I.
  - intros; eapply igetr_nodup; eauto.
  - intros cs A B Q cs1 r _ HA HAB. rewrite <- HAB. symmetry. apply ifold_app_pregel; auto.
  - intros; eapply ifold_prefix_pregel; eauto.
  - intros; eapply ifold_perm_pregel; eauto.
Qed.

(* ---------- the uninterrupted bodies ---------- *)
Definition ubT := N -> value -> option (value * list xev).
Definition bodyOf (ub : ubT) (k : N) (v : value) : option value := option_map fst (ub k v).
Definition traceOf (ub : ubT) (k : N) (v : value) : list xev := match ub k v with Some (_, L) => L | None => [] end.

(* the run of a nested graph without any interrupt configuration, to completion: output and what was emitted *)
Definition usub (ub : ubT) (sub : gspec) (v : value) : option (value * list xev) :=
  match init_chans value (gs_graph sub) with
  | Ok cs0 =>
    match start VNil (ifold (gs_graph sub)) (igetr (gs_graph sub)) (pre_fn sub)
                (execU (SCP := ncp) (SINFO := ninfo) (bodyOf ub)) [] [] (seg_fuel (gs_graph sub)) cs0 (gs0 sub) v tt with
    | (ODone r, lU, _) => Some (r, TU (traceOf ub) lU)
    | _ => None
    end
  | _ => None
  end.

Fixpoint ubody (d : nat) (F : list gspec) (g : gspec) (k : N) (v : value) {struct d} : option (value * list xev) :=
  match find_node (gs_graph g) k, key_input g k None v with
  | Some n, Ok v' =>
    match n_kind n with
    | KSub j =>
      match d with
      | O => None
      | S d' =>
        match nth_error F j with
        | None => None
        | Some sub =>
          match usub (ubody d' F sub) sub v' with
          | Some (r, L) => Some (VMap [(k, r)], L)
          | None => None
          end
        end
      end
    | _ => Some (lam_body g k v', [(k, v')])
    end
  | _, _ => None
  end.

Section Nested.
  Variable F : list gspec.
  (* the joint invariant of the channel layer of every graph of the forest *)
  Variable chanJ : gspec -> chans value -> list N -> Prop.

  Definition good_graph (g : gspec) : Prop :=
    g_eager (gs_graph g) = false /\ rerun_ok' g /\
    chan_layer (ifold (gs_graph g)) (igetr (gs_graph g)) (chanJ g) /\
    (forall cs0, init_chans value (gs_graph g) = Ok cs0 -> chanJ g cs0 [kStart]).

  Hypothesis H_F : Forall good_graph F.

  (* [c] is a residual of the nested graph node k of g, started on v *)
  Fixpoint SuspN (d : nat) (g : gspec) (k : N) (v : value) (c : ncp) (L : list xev) {struct d} : Prop :=
    match d with
    | O => False
    | S d' =>
      exists n j sub v' cs0 vU lU c0 E,
        find_node (gs_graph g) k = Some n /\ n_kind n = KSub j /\ nth_error F j = Some sub /\
        key_input g k None v = Ok v' /\ c = NCP c0 /\ init_chans value (gs_graph sub) = Ok cs0 /\
        start VNil (ifold (gs_graph sub)) (igetr (gs_graph sub)) (pre_fn sub)
              (execU (SCP := ncp) (SINFO := ninfo) (bodyOf (ubody d' F sub))) [] [] (seg_fuel (gs_graph sub))
              cs0 (gs0 sub) v' tt = (ODone vU, lU, tt) /\
        GSusp (SINFO := ninfo) VNil (ifold (gs_graph sub)) (igetr (gs_graph sub)) (pre_fn sub)
              (bodyOf (ubody d' F sub)) (rerunN sub) (traceOf (ubody d' F sub)) (SuspN d' sub) (chanJ sub) (GOKN sub) geqN
              (seg_fuel (gs_graph sub)) vU lU c0 L E
    end.

  (* ---------- lambdas ---------- *)
  Lemma lambda_protocol : forall g k v e r e', rerun_ok' g -> EOKe e -> lambda_exec g k v e = (r, e') ->
    EOKe e' /\ exists L, trE e' = trE e ++ L /\
      match r with
      | TDone o' => o' = lam_body g k v /\ L = [(k, v)]
      | TRerun => rerunN g k /\ L = []
      | _ => False
      end.
  Proof.
    intros g k v e r e' Hok He H. unfold lambda_exec in H.
    destruct (nlist_get k (gs_rerun g)) as [l|] eqn:Hl.
    - destruct (memN _ l) eqn:Hm; inversion H; subst; clear H; (split; [exact He|]); unfold trE; cbn [e_log];
        rewrite live_app; eexists; (split; [reflexivity|]); simpl; auto.
      split; auto. destruct (Hok k l Hl). split; auto.
    - inversion H; subst; clear H. split; [exact He|]. unfold trE; cbn [e_log]. rewrite live_app.
      eexists; split; [reflexivity|]. simpl; auto.
  Qed.

  Lemma log_pres_tr : forall sub l e, trE (log_pres sub l e) = trE e /\ (EOKe e -> EOKe (log_pres sub l e)).
  Proof.
    intros sub l e. unfold trE, log_pres, EOKe. cbn [e_log e_mod]. rewrite live_app, live_pres, app_nil_r. auto.
  Qed.

  (* ---------- the protocol, by induction on the nesting depth ---------- *)
  Lemma node_protocol : forall d g, In g F ->
    body_protocol (bodyOf (ubody d F g)) (rerunN g) (node_exec d F g) trE (traceOf (ubody d F g)) EOKe (SuspN d g).
  Proof.
    induction d as [|d' IH]; intros g Hg.
    - (* depth 0: every node that completes is a lambda *)
      rewrite Forall_forall in H_F. destruct (H_F g Hg) as (_ & Hrok & _).
      constructor.
      + intros k v o e r e' He Hb Hx. unfold bodyOf, traceOf in *. cbn [ubody node_exec] in *.
        destruct (find_node (gs_graph g) k) as [n|]; [|discriminate].
        destruct (key_input g k None v) as [v'| |]; try discriminate.
        destruct (n_kind n) eqn:Hk; try discriminate; simpl in Hb; inversion Hb; subst o;
          destruct (lambda_protocol g k v' e r e' Hrok He Hx) as (He' & L & Htr & Hm);
          (split; [exact He'|]); exists L; (split; [exact Htr|]);
          destruct r; try contradiction; destruct Hm as [? ->]; auto.
      + intros k v o c L0 z e r e' He Hb Hs. destruct Hs.
    - rewrite Forall_forall in H_F. destruct (H_F g Hg) as (_ & Hrok & _).
      constructor.
      + intros k v o e r e' He Hb Hx. unfold bodyOf, traceOf in *. cbn [ubody node_exec] in *.
        destruct (find_node (gs_graph g) k) as [n|] eqn:Hfn; [|discriminate].
        destruct (key_input g k None v) as [v'| |] eqn:Hki; try discriminate.
        destruct (n_kind n) as [| |j] eqn:Hk.
        * simpl in Hb; inversion Hb; subst o.
          destruct (lambda_protocol g k v' e r e' Hrok He Hx) as (He' & L & Htr & Hm).
          split; [exact He'|]. exists L. split; [exact Htr|].
          destruct r; try contradiction; destruct Hm as [? ->]; auto.
        * simpl in Hb; inversion Hb; subst o.
          destruct (lambda_protocol g k v' e r e' Hrok He Hx) as (He' & L & Htr & Hm).
          split; [exact He'|]. exists L. split; [exact Htr|].
          destruct r; try contradiction; destruct Hm as [? ->]; auto.
        * (* a nested graph, started fresh *)
          destruct (nth_error F j) as [sub|] eqn:Hnth; [|discriminate].
          assert (Hsub : In sub F) by (eapply nth_error_In; eauto).
          destruct (H_F sub Hsub) as (Heag & Hrok_s & Hcl & Hj0).
          unfold usub in Hb.
          destruct (init_chans value (gs_graph sub)) as [cs0| |] eqn:Hic; try discriminate.
          destruct (start VNil (ifold (gs_graph sub)) (igetr (gs_graph sub)) (pre_fn sub)
                      (execU (bodyOf (ubody d' F sub))) [] [] (seg_fuel (gs_graph sub)) cs0 (gs0 sub) v' tt)
            as [[oU lU] eU] eqn:HU.
          destruct oU as [vU| | |]; try discriminate. destruct eU.
          simpl in Hb. inversion Hb; subst o. clear Hb.
          rewrite (seg_fresh_batch (node_exec d' F sub) (N.of_nat j) sub cs0 v' e Heag Hic) in Hx.
          pose proof (seg_fresh_ok VNil (ifold (gs_graph sub)) (igetr (gs_graph sub)) (pre_fn sub)
                        (bodyOf (ubody d' F sub)) (rerunN sub) (node_exec d' F sub) (gs_before sub) (gs_after sub)
                        trE (traceOf (ubody d' F sub)) EOKe (SuspN d' sub) (IH sub Hsub) (chanJ sub) Hcl
                        (GOKN sub) geqN (state_layer_model sub Hrok_s) (seg_fuel (gs_graph sub)) vU lU cs0 (gs0 sub) v'
                        (Hj0 cs0 eq_refl) (GOKN_gs0 sub) (seg_fuel (gs_graph sub)) HU (le_n _) e He) as Hseg.
          destruct (start VNil (ifold (gs_graph sub)) (igetr (gs_graph sub)) (pre_fn sub) (node_exec d' F sub)
                      (gs_before sub) (gs_after sub) (seg_fuel (gs_graph sub)) cs0 (gs0 sub) v' e) as [[o1 l1] e1].
          unfold seg_res in Hseg. destruct Hseg as (He1 & Lnew & Htr & Hcase).
          destruct (log_pres_tr sub l1 e1) as [Htr' He''].
          inversion Hx; subst r e'. clear Hx.
          split; [auto|]. exists Lnew. split; [rewrite Htr'; exact Htr|].
          destruct Hcase as [(-> & _ & Hpt)|(i & c & -> & Hgs)].
          -- split; [reflexivity|]. simpl in Hpt. unfold usub. rewrite Hic, HU. exact Hpt.
          -- simpl in Hgs. cbn [SuspN]. exists n, j, sub, v', cs0, vU, lU, c. eexists.
             repeat (split; [first [eassumption|reflexivity]|]). exact Hgs.
      + (* a nested graph, continued from its residual *)
        intros k v o c L0 z e r e' He Hb Hs Hx. cbn [SuspN] in Hs.
        destruct Hs as (n & j & sub & v' & cs0 & vU & lU & c0 & E & Hfn & Hk & Hnth & Hki & -> & Hic & HU & Hgs).
        assert (Hsub : In sub F) by (eapply nth_error_In; eauto).
        destruct (H_F sub Hsub) as (Heag & Hrok_s & Hcl & Hj0).
        unfold bodyOf, traceOf in Hb |- *. cbn [ubody node_exec] in Hb, Hx |- *.
        rewrite Hfn, Hki, Hk, Hnth in Hb. unfold usub in Hb. rewrite Hic, HU in Hb. simpl in Hb. inversion Hb; subst o. clear Hb.
        rewrite Hfn, Hki, Hk, Hnth. unfold usub. rewrite Hic, HU.
        rewrite Hfn in Hx.
        assert (Hkz : exists z', key_input g k (Some (NCP c0)) z = Ok z').
        { unfold key_input. destruct (nlist_get k (gs_inkey g)); [|eauto].
          destruct (match z with VMap kvs => nlist_get n0 kvs | _ => None end); eauto. }
        destruct Hkz as (z' & Hkz). rewrite Hkz, Hk, Hnth in Hx.
        assert (Hsm : forall s0, geqN (sm_of e s0) s0).
        { intros s0. unfold sm_of. destruct (e_mod e); [apply geqN_bump|apply geqN_refl]. }
        rewrite (seg_resumed_batch (node_exec d' F sub) (N.of_nat j) sub (sm_of e) c0 e Heag) in Hx.
        pose proof (seg_resumed_ok VNil (ifold (gs_graph sub)) (igetr (gs_graph sub)) (pre_fn sub)
                      (bodyOf (ubody d' F sub)) (rerunN sub) (node_exec d' F sub) (gs_before sub) (gs_after sub)
                      trE (traceOf (ubody d' F sub)) EOKe (SuspN d' sub) (IH sub Hsub) (chanJ sub) Hcl
                      (GOKN sub) geqN (state_layer_model sub Hrok_s) (seg_fuel (gs_graph sub)) vU lU (sm_of e) c0 L0 E e Hsm Hgs He) as Hseg.
        destruct (resume VNil (ifold (gs_graph sub)) (igetr (gs_graph sub)) (pre_fn sub) (node_exec d' F sub)
                    (gs_before sub) (gs_after sub) (seg_fuel (gs_graph sub)) (sm_of e) c0 e) as [[o1 l1] e1].
        unfold seg_res in Hseg. destruct Hseg as (He1 & Lnew & Htr & Hcase).
        destruct (log_pres_tr sub l1 e1) as [Htr' He''].
        inversion Hx; subst r e'. clear Hx.
        split; [auto|]. exists Lnew. split; [rewrite Htr'; exact Htr|].
        destruct Hcase as [(-> & _ & Hpt)|(i & c & -> & Hgs2)].
        * split; [reflexivity|]. exact Hpt.
        * cbn [SuspN]. exists n, j, sub, v', cs0, vU, lU, c. eexists.
          repeat (split; [first [eassumption|reflexivity]|]). exact Hgs2.
  Qed.

  (* ---------- the reference run: the same forest without any interrupt configuration ---------- *)
  Lemma lambda_strip : forall g k v e,
    lambda_exec (strip g) k v e =
    (TDone (lam_body g k v),
     {| e_att := ainsert k (match nlist_get k (e_att e) with Some a => a + 1 | None => 1 end) (e_att e);
        e_log := e_log e ++ [LExec k v false]; e_mod := e_mod e; e_sched := e_sched e |}).
  Proof. reflexivity. Qed.

  Lemma pure_model : forall d g, In g F ->
    forall k v e r e', EOKe e -> node_exec d (map strip F) (strip g) k None v e = (r, e') ->
      EOKe e' /\ match bodyOf (ubody d F g) k v with
                 | Some o => r = TDone o /\ trE e' = trE e ++ traceOf (ubody d F g) k v
                 | None => exists x, r = TFail x
                 end.
  Proof.
    induction d as [|d' IH]; intros g Hg k v e r e' He Hx; unfold bodyOf, traceOf; cbn [ubody node_exec] in *;
      change (gs_graph (strip g)) with (gs_graph g) in Hx;
      change (key_input (strip g) k None v) with (key_input g k None v) in Hx;
      destruct (find_node (gs_graph g) k) as [n|] eqn:Hfn; try (inversion Hx; subst; simpl; eauto; fail);
      destruct (key_input g k None v) as [v'|x0|] eqn:Hki; try (inversion Hx; subst; simpl; eauto; fail);
      destruct (n_kind n) as [| |j] eqn:Hk;
      try (rewrite lambda_strip in Hx; inversion Hx; subst; simpl; split; [exact He|]; split; [reflexivity|];
           unfold trE; cbn [e_log]; rewrite live_app; reflexivity).
    - inversion Hx; subst; simpl; eauto.
    - rewrite nth_error_map in Hx. destruct (nth_error F j) as [sub|] eqn:Hnth; cbn [option_map] in Hx.
      2:{ inversion Hx; subst; simpl; eauto. }
      assert (Hsub : In sub F) by (eapply nth_error_In; eauto).
      rewrite Forall_forall in H_F. destruct (H_F sub Hsub) as (Heag & _).
      unfold usub.
      destruct (init_chans value (gs_graph sub)) as [cs0|x0|] eqn:Hic.
      2:{ unfold seg_fresh in Hx. change (gs_graph (strip sub)) with (gs_graph sub) in Hx. rewrite Hic in Hx.
          inversion Hx; subst. destruct (log_pres_tr (strip sub) [] e) as [_ H2]. simpl. split; eauto. }
      2:{ unfold seg_fresh in Hx. change (gs_graph (strip sub)) with (gs_graph sub) in Hx. rewrite Hic in Hx.
          inversion Hx; subst. destruct (log_pres_tr (strip sub) [] e) as [_ H2]. simpl. split; eauto. }
      assert (Hseg : seg_fresh (node_exec d' (map strip F) (strip sub)) (N.of_nat j) (strip sub) v' e =
                     start VNil (ifold (gs_graph sub)) (igetr (gs_graph sub)) (pre_fn sub)
                           (node_exec d' (map strip F) (strip sub)) [] [] (seg_fuel (gs_graph sub)) cs0 (gs0 sub) v' e)
        by (exact (seg_fresh_batch (node_exec d' (map strip F) (strip sub)) (N.of_nat j) (strip sub) cs0 v' e Heag Hic)).
      rewrite Hseg in Hx. clear Hseg.
      pose proof (pure_start VNil (ifold (gs_graph sub)) (igetr (gs_graph sub)) (pre_fn sub)
                    (bodyOf (ubody d' F sub)) (node_exec d' (map strip F) (strip sub)) trE (traceOf (ubody d' F sub)) EOKe
                    (IH sub Hsub) (seg_fuel (gs_graph sub)) cs0 (gs0 sub) v' e He) as Hp.
      destruct (start VNil (ifold (gs_graph sub)) (igetr (gs_graph sub)) (pre_fn sub)
                  (execU (bodyOf (ubody d' F sub))) [] [] (seg_fuel (gs_graph sub)) cs0 (gs0 sub) v' tt) as [[oU lU] eU].
      destruct oU as [vU|i c|x1|].
      + destruct Hp as (eP & HP & HeP & HtP). rewrite HP in Hx. inversion Hx; subst.
        destruct (log_pres_tr (strip sub) lU eP) as [H1 H2]. simpl. split; [auto|]. split; [reflexivity|].
        rewrite H1. exact HtP.
      + destruct Hp.
      + destruct Hp as (x' & lP & eP & HP & HeP). rewrite HP in Hx. inversion Hx; subst.
        destruct (log_pres_tr (strip sub) lP eP) as [_ H2]. simpl. split; eauto.
      + destruct Hp as (lP & eP & HP & HeP). rewrite HP in Hx. inversion Hx; subst.
        destruct (log_pres_tr (strip sub) lP eP) as [_ H2]. simpl. split; eauto.
  Qed.

  Lemma tick_ok : forall mods k e, EOKe e -> EOKe (tick_of mods k e) /\ trE (tick_of mods k e) = trE e.
  Proof.
    intros mods k e He. unfold tick_of, EOKe, trE. cbn [e_mod e_log]. split; [exact I|].
    rewrite live_app. simpl. apply app_nil_r.
  Qed.

  Lemma mods_ok : forall mods k g, geqN (mods_of mods k g) g.
  Proof. intros mods k g. unfold mods_of. destruct (mod_at mods k); [apply geqN_bump|apply geqN_refl]. Qed.

  (* ---------- the theorem ---------- *)
  Notation callobsM := (@call_obs value (chans value) gst ncp ninfo).

  Lemma nested_equiv_l : forall g0 rest, F = g0 :: rest ->
    forall mods x eU0 coU eU' vU n e cos e' cos' co,
      run_drive (map strip F) false [] x eU0 = ([coU], eU') -> co_out coU = ODone vU ->
      drive (fun c : cpt => c) (fun c => Some c)
            (seg_fresh (node_exec (List.length F) F g0) 0 g0 x) (seg_resumed (node_exec (List.length F) F g0) 0 g0)
            (tick_of mods) true n O (mods_of mods) None e = (cos, e') ->
      cos = cos' ++ [co] ->
      is_interrupt (co_out co) \/
      (co_out co = ODone vU /\
       Permutation (good (all_logs cos)) (co_log coU) /\
       exists LU LI, trE eU' = trE eU0 ++ LU /\ trE e' = trE e ++ LI /\ Permutation LI LU).
  Proof.
    intros g0 rest HF mods x eU0 coU eU' vU n e cos e' cos' co Href HvU Hd Hcos.
    assert (HeU : EOKe eU0) by exact I. assert (He : EOKe e) by exact I.
    assert (Hg0 : In g0 F) by (rewrite HF; left; reflexivity).
    pose proof H_F as HFa. rewrite Forall_forall in HFa. destruct (HFa g0 Hg0) as (Heag & Hrok & Hcl & Hj0).
    (* the reference run is one fresh segment of the stripped forest *)
    unfold run_drive in Href. rewrite HF in Href. cbn [map] in Href.
    change (strip g0 :: map strip rest) with (map strip (g0 :: rest)) in Href. rewrite <- HF in Href.
    rewrite map_length in Href.
    cbn [drive max_resumes] in Href. unfold call in Href.
    destruct (tick_ok [] 0%nat eU0 HeU) as [HeT HtT].
    destruct (seg_fresh (node_exec (List.length F) (map strip F) (strip g0)) 0 (strip g0) x (tick_of [] 0%nat eU0))
      as [[oR lR] eR] eqn:HsegR.
    assert (HcoU : oR = ODone vU /\ co_log coU = lR /\ eU' = eR).
    { destruct oR; inversion Href; subst; simpl in HvU; try discriminate. inversion HvU; subst. auto. }
    destruct HcoU as (-> & HlR & ->). clear Href.
    destruct (init_chans value (gs_graph g0)) as [cs0|x0|] eqn:Hic;
      try (unfold seg_fresh in HsegR; change (gs_graph (strip g0)) with (gs_graph g0) in HsegR; rewrite Hic in HsegR;
           discriminate).
    assert (Hseg : seg_fresh (node_exec (List.length F) (map strip F) (strip g0)) 0 (strip g0) x (tick_of [] 0%nat eU0) =
                   start VNil (ifold (gs_graph g0)) (igetr (gs_graph g0)) (pre_fn g0)
                         (node_exec (List.length F) (map strip F) (strip g0)) [] [] (seg_fuel (gs_graph g0)) cs0 (gs0 g0) x
                         (tick_of [] 0%nat eU0))
      by (exact (seg_fresh_batch (node_exec (List.length F) (map strip F) (strip g0)) 0 (strip g0) cs0 x _ Heag Hic)).
    rewrite Hseg in HsegR. clear Hseg.
    pose proof (pure_start VNil (ifold (gs_graph g0)) (igetr (gs_graph g0)) (pre_fn g0)
                  (bodyOf (ubody (List.length F) F g0)) (node_exec (List.length F) (map strip F) (strip g0)) trE
                  (traceOf (ubody (List.length F) F g0)) EOKe
                  (pure_model (List.length F) g0 Hg0) (seg_fuel (gs_graph g0)) cs0 (gs0 g0) x _ HeT) as Hp.
    destruct (start VNil (ifold (gs_graph g0)) (igetr (gs_graph g0)) (pre_fn g0)
                (execU (bodyOf (ubody (List.length F) F g0))) [] [] (seg_fuel (gs_graph g0)) cs0 (gs0 g0) x tt)
      as [[oU lU] eU] eqn:HU.
    destruct oU as [v|i c|x1|];
      try (destruct Hp as (? & ? & ? & HP & _); rewrite HP in HsegR; discriminate);
      try (destruct Hp as (? & ? & HP & _); rewrite HP in HsegR; discriminate);
      try (destruct Hp; fail).
    destruct Hp as (eP & HP & HeP & HtP). rewrite HP in HsegR. injection HsegR as Hv Hl HeR. subst v lR eR.
    destruct eU.
    (* the interrupted run *)
    rewrite (drive_ext (fun c : cpt => c) (fun c => Some c) (seg_fresh (node_exec (List.length F) F g0) 0 g0 x)
               (start VNil (ifold (gs_graph g0)) (igetr (gs_graph g0)) (pre_fn g0) (node_exec (List.length F) F g0)
                      (gs_before g0) (gs_after g0) (seg_fuel (gs_graph g0)) cs0 (gs0 g0) x)
               (seg_resumed (node_exec (List.length F) F g0) 0 g0)
               (resume VNil (ifold (gs_graph g0)) (igetr (gs_graph g0)) (pre_fn g0) (node_exec (List.length F) F g0)
                       (gs_before g0) (gs_after g0) (seg_fuel (gs_graph g0)))) in Hd.
    2:{ intros e0. apply (seg_fresh_batch (node_exec (List.length F) F g0) 0 g0 cs0 x e0 Heag Hic). }
    2:{ intros sm c e0. apply (seg_resumed_batch (node_exec (List.length F) F g0) 0 g0 sm c e0 Heag). }
    pose proof (susp_equiv_l VNil (ifold (gs_graph g0)) (igetr (gs_graph g0)) (pre_fn g0)
                  (bodyOf (ubody (List.length F) F g0)) (rerunN g0) (node_exec (List.length F) F g0)
                  (gs_before g0) (gs_after g0) trE (traceOf (ubody (List.length F) F g0)) EOKe (SuspN (List.length F) g0)
                  (node_protocol (List.length F) g0 Hg0) (chanJ g0) Hcl (GOKN g0) geqN (state_layer_model g0 Hrok)
                  (seg_fuel (gs_graph g0)) vU lU cs0 (gs0 g0) x (Hj0 cs0 eq_refl) (GOKN_gs0 g0) (seg_fuel (gs_graph g0)) HU (le_n _)
                  (fun c : cpt => c) (fun c => Some c) (fun c => eq_refl) (tick_of mods) (tick_ok mods) (mods_of mods) (mods_ok mods)
                  n e cos e' cos' co He Hd Hcos) as Hres.
    destruct Hres as [Hi|(Hdone & Hpe & Lnew & Htr & Hpt)].
    - left. exact Hi.
    - right. split; [exact Hdone|]. split; [rewrite HlR; exact Hpe|].
      exists (TUP (traceOf (ubody (List.length F) F g0)) lU), Lnew.
      split; [rewrite HtP, HtT; reflexivity|]. split; [exact Htr|exact Hpt].
  Qed.
End Nested.

(* ---------- forests of Graphs in any-predecessor mode ---------- *)
Definition pregel_graph (g : gspec) : Prop :=
  g_eager (gs_graph g) = false /\ g_mode (gs_graph g) = Pregel /\ rerun_ok' g.

Definition pregelJ (g : gspec) (cs : chans value) (P : list N) : Prop := pinv cs.

Lemma pregel_good : forall g, pregel_graph g -> good_graph pregelJ g.
Proof.
  intros g (He & Hm & Hr). split; [exact He|]. split; [exact Hr|]. split.
  - apply chan_layer_pregel. exact Hm.
  - intros cs0 Hi. eapply init_chans_pinv; eauto.
Qed.

(* resume_equiv_nested (any-predecessor forests): the run of the forest F with its interrupt-before/after
   sets and rerun tables at EVERY nesting level, driven through the store with any number of resume calls,
   against the reference run of the same forest without any interrupt configuration (one call). Whenever
   the driven run completes, it completes with the output of the reference run; its top-level executions
   (first attempts that were not aborted) are those of the reference run, and the lambda executions of all
   nesting levels (node, input) are, as a multiset, those of the reference run: nothing completed before an
   interrupt — inside a nested graph or not — is executed again, nothing is lost. *)
Lemma nested_equiv_pregel_l : forall F, Forall pregel_graph F ->
  forall mods x eU0 coU eU' vU e cos e' cos' co,
    run_drive (map strip F) false [] x eU0 = ([coU], eU') -> co_out coU = ODone vU ->
    run_drive F true mods x e = (cos, e') -> cos = cos' ++ [co] ->
    is_interrupt (co_out co) \/
    (co_out co = ODone vU /\
     Permutation (good (all_logs cos)) (co_log coU) /\
     exists LU LI, trE eU' = trE eU0 ++ LU /\ trE e' = trE e ++ LI /\ Permutation LI LU).
Proof.
  intros F HF mods x eU0 coU eU' vU e cos e' cos' co Href HvU Hd Hcos.
  destruct F as [|g0 rest].
  { simpl in Href. inversion Href. }
  assert (HF' : Forall (good_graph pregelJ) (g0 :: rest)).
  { eapply Forall_impl; [|exact HF]. intros g Hg. apply pregel_good. exact Hg. }
  unfold run_drive in Hd.
  exact (nested_equiv_l (g0 :: rest) pregelJ HF' g0 rest eq_refl mods x eU0 coU eU' vU max_resumes e cos e' cos' co
           Href HvU Hd Hcos).
Qed.

(* ---------- non-vacuity: START -> 2 (nested graph) -> 3 -> END; the nested graph START -> 4 -> 5 -> END has
   interrupt-after 4; node 3 asks for a rerun on its first attempt. Three calls: the nested graph interrupts
   inside, the run is resumed, node 3 aborts, the run is resumed and completes. ---------- *)
Definition wn_top : gspec :=
  Build_gspec (Build_graph [Build_node 0 KLambda None [2] [2] [] [];
                            Build_node 2 (KSub 1%nat) None [3] [3] [] [];
                            Build_node 3 KLambda None [1] [1] [] []] Pregel false 0%nat)
              true [3] [(3, [1])] [] [] [] [].
Definition wn_sub : gspec :=
  Build_gspec (Build_graph [Build_node 0 KLambda None [4] [4] [] [];
                            Build_node 4 KLambda None [5] [5] [] [];
                            Build_node 5 KLambda None [1] [1] [] []] Pregel false 0%nat)
              false [] [] [] [4] [] [].
Definition wn_F := [wn_top; wn_sub].
Definition wn_x : value := VMap [(0, VAtom 1)].

Lemma wn_pregel : Forall pregel_graph wn_F.
Proof.
  constructor; [|constructor; [|constructor]].
  - split; [reflexivity|]. split; [reflexivity|]. intros k l H. simpl in H.
    destruct (N.eqb k 3) eqn:E3; [apply N.eqb_eq in E3; subst; split; reflexivity|discriminate].
  - split; [reflexivity|]. split; [reflexivity|]. intros k l H. simpl in H. discriminate.
Qed.

Lemma wn_reference : exists coU eU v,
  run_drive (map strip wn_F) false [] wn_x (env0 []) = ([coU], eU) /\ co_out coU = ODone v /\
  List.length (trE eU) = 3%nat.
Proof. do 3 eexists. split; [vm_compute; reflexivity|]. split; vm_compute; reflexivity. Qed.

Lemma wn_interrupted : exists co1 co2 co3 e i1 c1 v,
  run_drive wn_F true [] wn_x (env0 []) = ([co1; co2; co3], e) /\
  co_out co1 = OInterrupted i1 c1 /\ map fst (ii_subs i1) = [2] /\
  (exists i2 c2, co_out co2 = OInterrupted i2 c2 /\ ii_rerun i2 = [3]) /\
  co_out co3 = ODone v /\ List.length (trE e) = 3%nat.
Proof.
  do 7 eexists. split; [vm_compute; reflexivity|]. split; [reflexivity|]. split; [reflexivity|].
  split; [do 2 eexists; split; reflexivity|]. split; vm_compute; reflexivity.
Qed.

(* the same run, every call carrying the state modifier: the modifier bumps the counter of the top-level state
   and of the state of the resumed nested graph; the run still takes three calls and completes alike *)
Lemma wn_interrupted_mod : exists co1 co2 co3 e v st,
  run_drive wn_F true [true] wn_x (env0 []) = ([co1; co2; co3], e) /\
  (exists i2 c2, co_out co2 = OInterrupted i2 c2 /\ ii_gs i2 = Some st /\ st_mods st = 1) /\
  co_out co3 = ODone v /\ List.length (trE e) = 3%nat.
Proof.
  do 6 eexists. split; [vm_compute; reflexivity|]. split; [do 2 eexists; split; [reflexivity|split; reflexivity]|].
  split; vm_compute; reflexivity.
Qed.
