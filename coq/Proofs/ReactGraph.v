(* Proofs/ReactGraph.v — compose's run loop (Model/Graph.v) on the graph react.NewAgent builds
   (Model/ReactGraph.v) computes exactly the dedicated superstep loop [agent_loop] of
   Model/React.v: [engine_refines_agent].  Between supersteps all channels are empty and exactly
   one task is pending. *)
From Eino Require Import Base.Util Model.Tools Model.Graph Model.React Model.ReactGraph Proofs.React.
Local Open Scope string_scope.

Section RG.
  Variable tn : list call -> res (list tmsg).
  Variable tns : list call -> res (list string * list emitted * option N).
  Variable rd : string -> bool.
  Variable rd_nonempty : bool.
  Variable modifier : list msg -> list msg.
  Variable visible : call -> bool.
  Variable checker : list chunk -> bool.
  Variable md : React.mode.
  Variable max_step : nat.

  Notation ops := (react_ops checker).
  Notation g := (react_graph rd_nonempty max_step).
  Notation rexec := (react_exec tn tns rd rd_nonempty modifier visible md).

  Definition E : chans rval := init_chans_v0 rval g.

  Lemma calc_start : forall x, calc_next rval ops g E [(kSTART, x)] = Ok (E, [(kChat, x)]).
  Proof. intros. unfold E. destruct rd_nonempty; vm_compute; reflexivity. Qed.

  Lemma calc_chat_tools : forall chunks m, checker chunks = true ->
    calc_next rval ops g E [(kChat, RModel chunks m)] = Ok (E, [(kTools, RModel chunks m)]).
  Proof.
    intros chunks m Hc. unfold E.
    destruct rd_nonempty; cbv -[N.modulo]; rewrite Hc; vm_compute; reflexivity.
  Qed.

  Lemma calc_chat_end : forall chunks m, checker chunks = false ->
    calc_next rval ops g E [(kChat, RModel chunks m)] = Ok (E, [(kEND, RModel chunks m)]).
  Proof.
    intros chunks m Hc. unfold E.
    destruct rd_nonempty; cbv -[N.modulo]; rewrite Hc; vm_compute; reflexivity.
  Qed.

  Lemma calc_tools_edge : forall o rs d, rd_nonempty = false ->
    calc_next rval ops g E [(kTools, RTools o rs d)] = Ok (E, [(kChat, RTools o rs d)]).
  Proof. intros o rs d Hr. unfold E. rewrite Hr. vm_compute. reflexivity. Qed.

  Lemma calc_tools_branch : forall o rs d, rd_nonempty = true ->
    calc_next rval ops g E [(kTools, RTools o rs d)] = Ok (E, [(if d then kDirect else kChat, RTools o rs d)]).
  Proof. intros o rs d Hr. unfold E. rewrite Hr. destruct d; vm_compute; reflexivity. Qed.

  Lemma calc_direct : forall m, rd_nonempty = true ->
    calc_next rval ops g E [(kDirect, RFinal m)] = Ok (E, [(kEND, RFinal m)]).
  Proof. intros m Hr. unfold E. rewrite Hr. vm_compute. reflexivity. Qed.

  Lemma calc_direct_late : forall e, rd_nonempty = true ->
    calc_next rval ops g E [(kDirect, RLate e)] = Ok (E, [(kEND, RLate e)]).
  Proof. intros e Hr. unfold E. rewrite Hr. vm_compute. reflexivity. Qed.

  Definition ls_of (n : nat) (k : key) (v : rval) (s : rstate) (lg : log rval) : loopstate rval rstate :=
    {| ls_step := n; ls_chans := E; ls_next := [(k, v)]; ls_running := []; ls_st := s; ls_log := lg |}.

  Notation sub0 := (fun (i : nat) (p' : path) (v : rval) (s' : rstate) => (Fail [mkerr eUnknownNode] [], s')).

  Definition is_react_node (k : key) : bool :=
    N.eqb k kChat || N.eqb k kTools || (rd_nonempty && N.eqb k kDirect).

  Lemma find_react_node : forall k, is_react_node k = true ->
    exists nd, find_node g k = Some nd /\ n_key nd = k /\ n_kind nd = KLambda /\ n_outkey nd = None.
  Proof.
    intros k Hk. unfold is_react_node in Hk.
    apply orb_true_iff in Hk. destruct Hk as [Hk|Hk].
    - apply orb_true_iff in Hk. destruct Hk as [Hk|Hk]; apply N.eqb_eq in Hk; subst k;
        destruct rd_nonempty; eexists; (split; [vm_compute; reflexivity|repeat split]).
    - apply andb_true_iff in Hk. destruct Hk as [Hr Hk]. apply N.eqb_eq in Hk. subst k. rewrite Hr.
      eexists; (split; [vm_compute; reflexivity|repeat split]).
  Qed.

  Definition tres_of (k : key) (r : res rval) : Graph.tres rval :=
    match r with
    | Ok o => TOk o
    | Err c => TErr [ {| e_class := eNode c; e_path := [k] |} ]
    | Panic => TErr [ {| e_class := ePanic; e_path := [k] |} ]
    end.

  Lemma submit_one : forall sub k v s,
    is_react_node k = true ->
    submit rval rstate ops rexec sub [] g [(k, v)] s
    = ([(k, tres_of k (fst (rexec s [k] v)))], [], snd (rexec s [k] v)).
  Proof.
    intros sub k v s Hk. destruct (find_react_node k Hk) as [nd [Hf [Hkey [Hkind Hout]]]].
    cbn [submit]. rewrite Hf. unfold run_task, wrap_out. rewrite Hkind, Hout, Hkey. cbn [app].
    destruct (rexec s [k] v) as [[o|c|] s']; reflexivity.
  Qed.

  Lemma step_node : forall sub n k v s lg,
    is_react_node k = true ->
    Nat.leb (max_steps g) n = false ->
    Graph.step rval rstate ops rexec sub sched_first [] g (ls_of n k v s lg) =
    let lg' := (lg ++ [step_entry rval [] [(k, v)]])%list in
    let s' := snd (rexec s [k] v) in
    match fst (rexec s [k] v) with
    | Ok o =>
        match calc_next rval ops g E [(k, o)] with
        | Ok (cs', ready) =>
            match nlist_get kEND ready with
            | Some r => Finish (Done r lg') s'
            | None => Continue {| ls_step := S n; ls_chans := cs'; ls_next := ready; ls_running := [];
                                  ls_st := s'; ls_log := lg' |}
            end
        | Err e => Finish (Fail [mkerr e] lg') s'
        | Panic => Finish (Fail [mkerr ePanic] lg') s'
        end
    | Err c => Finish (Fail [ {| e_class := eNode c; e_path := [k] |} ] lg') s'
    | Panic => Finish (Fail [ {| e_class := ePanic; e_path := [k] |} ] lg') s'
    end.
  Proof.
    intros sub n k v s lg Hk Hn.
    unfold Graph.step, step_limit_hit. unfold ls_of.
    cbn [ls_next ls_st ls_log ls_running ls_step ls_chans g_mode react_graph]. rewrite Hn.
    rewrite submit_one by auto. cbv zeta. cbn [app g_eager wait_tasks].
    unfold wait_tasks. cbn [g_eager react_graph].
    destruct (fst (rexec s [k] v)) as [o|c|]; reflexivity.
  Qed.

  (* ---- the refinement ---- *)
  Definition tr_pre (ins : list (list msg)) (rnds : list (list call)) (ems : list msg) (t : trace) : trace :=
    mkTrace (ins ++ t_inputs t) (rnds ++ t_rounds t) (ems ++ t_emits t) (t_out t).

  Lemma tr_pre_input : forall ins rnds ems h t,
    tr_pre ins rnds ems (tr_input h t) = tr_pre (ins ++ [h]) rnds ems t.
  Proof. intros. unfold tr_pre, tr_input. simpl. rewrite <- app_assoc. reflexivity. Qed.
  Lemma tr_pre_round : forall ins rnds ems c t,
    tr_pre ins rnds ems (tr_round c t) = tr_pre ins (rnds ++ [c]) ems t.
  Proof. intros. unfold tr_pre, tr_round. simpl. rewrite <- app_assoc. reflexivity. Qed.
  Lemma tr_pre_emit : forall ins rnds ems ms t,
    tr_pre ins rnds ems (tr_emit ms t) = tr_pre ins rnds (ems ++ ms) t.
  Proof. intros. unfold tr_pre, tr_emit. simpl. rewrite <- app_assoc. reflexivity. Qed.
  Lemma tr_pre_fail : forall ins rnds ems e, tr_pre ins rnds ems (tr_fail e) = mkTrace ins rnds ems (Failed e).
  Proof. intros. unfold tr_pre, tr_fail. simpl. rewrite !app_nil_r. reflexivity. Qed.
  Lemma tr_pre_final : forall ins rnds ems m, tr_pre ins rnds ems (tr_final m) = mkTrace ins rnds ems (Final m).
  Proof. intros. unfold tr_pre, tr_final. simpl. rewrite !app_nil_r. reflexivity. Qed.

  Lemma out_of_tools_err : forall e p,
    out_of_err {| e_class := eNode (cToolsBase + e); e_path := p |} = Some (ETools e).
  Proof.
    intros e p. unfold out_of_err. cbn [e_class].
    unfold eNode, eNodeBase, cToolsBase, cModel, cConcat, cNoDirect, eMaxSteps, ePanic.
    repeat match goal with
           | |- context [N.eqb ?a ?b] => destruct (N.eqb a b) eqn:?H; [apply N.eqb_eq in H; lia|clear H]
           end.
    replace (N.leb (100 + 16) (100 + (16 + e))) with true by (symmetry; apply N.leb_le; lia).
    f_equal. f_equal. lia.
  Qed.

  Inductive task_rel : React.task -> key -> rval -> Prop :=
  | rel_chat_in : forall ms, task_rel (TChat (Ok ms)) kChat (RIn ms)
  | rel_chat_tools : forall o rr d, task_rel (TChat (res_map (map tool_msg) rr)) kChat (RTools o rr d)
  | rel_tools : forall chunks m, task_rel (TTools m) kTools (RModel chunks (Some m))
  | rel_tools_bad : forall chunks, task_rel TToolsBad kTools (RModel chunks None)
  | rel_direct : forall o rs d, rd_nonempty = true -> task_rel (TDirect o) kDirect (RTools o rs d).

  Lemma task_rel_node : forall t k v, task_rel t k v -> is_react_node k = true.
  Proof.
    intros t k v H. unfold is_react_node. inversion H; subst; try reflexivity.
    rewrite H0. reflexivity.
  Qed.

End RG.

(* ---- the main refinement: rd_nonempty is an ordinary variable here (case analysis on it) ---- *)
Section Refine.
  Variable tn : list call -> res (list tmsg).
  Variable tns : list call -> res (list string * list emitted * option N).
  Variable rd : string -> bool.
  Variable modifier : list msg -> list msg.
  Variable visible : call -> bool.
  Variable checker : list chunk -> bool.
  Variable md : React.mode.
  Variable max_step : nat.
  Variable sub : nat -> path -> rval -> rstate -> Graph.outcome rval * rstate.

  Notation ops := (react_ops checker).
  Notation g rdn := (react_graph rdn max_step).
  Notation rexec rdn := (react_exec tn tns rd rdn modifier visible md).
  Notation aloop rdn := (agent_loop tn tns rd rdn modifier visible checker md).
  Notation iter rdn := (iterate rval rstate ops (rexec rdn) sub sched_first [] (g rdn)).

  Lemma iter_S : forall rdn f ls,
    iter rdn (S f) ls = match Graph.step rval rstate ops (rexec rdn) sub sched_first [] (g rdn) ls with
                        | Finish o s => (o, s)
                        | Continue ls' => iter rdn f ls'
                        end.
  Proof. reflexivity. Qed.

  Ltac fin := cbn [fst snd]; unfold trace_of, out_of; cbn [fst snd out_of_err e_class option_map];
              rewrite ?tr_pre_input, ?tr_pre_round, ?tr_pre_emit, ?tr_pre_fail, ?tr_pre_final; try reflexivity.

  Lemma iterate_refines : forall rdn af n t k v sc msgs (rdid : option nat) ins rnds ems lg,
    (n + af = max_steps (g rdn))%nat ->
    task_rel rdn t k v ->
    trace_of (iter rdn (S af) (ls_of rdn max_step n k v (mkRS sc msgs rdid ins rnds ems) lg))
    = Some (tr_pre ins rnds ems (aloop rdn af sc t (mkState msgs rdid))).
  Proof.
    intros rdn af. induction af as [|af IH]; intros n t k v sc msgs rdid ins rnds ems lg Hn Hrel.
    - (* the step limit *)
      rewrite iter_S. unfold Graph.step, step_limit_hit, ls_of.
      cbn [ls_next ls_st ls_log ls_running ls_step ls_chans g_mode react_graph].
      replace (Nat.leb (max_steps (g rdn)) n) with true by (symmetry; apply Nat.leb_le; lia).
      cbn [agent_loop]. rewrite tr_pre_fail. reflexivity.
    - assert (Hlim : Nat.leb (max_steps (g rdn)) n = false) by (apply Nat.leb_gt; lia).
      assert (Hn' : (S n + af = max_steps (g rdn))%nat) by lia.
      rewrite iter_S. rewrite step_node by (eauto using task_rel_node).
      cbv zeta.
      inversion Hrel; subst.
      + (* chat, the caller's input *)
        change (rexec rdn ?s [kChat] (RIn ms)) with (exec_chat modifier md ms s).
        unfold exec_chat. cbn [rs_script rs_messages rs_rd rs_inputs rs_rounds rs_emits].
        cbn [agent_loop s_messages s_rd].
        destruct sc as [|[|content calls chunks] sc']; try (fin; fail).
        destruct (delivered md content calls chunks) as [m|] eqn:Hd.
        2:{ (* the chunks do not concatenate: routed all the same *)
            cbn [fst snd].
            destruct (checker (emitted_chunks md content calls chunks)) eqn:Hc.
            - rewrite calc_chat_tools by exact Hc. cbn [nlist_get N.eqb kEND kTools Pos.eqb].
              pose proof (IH (S n) TToolsBad kTools (RModel (emitted_chunks md content calls chunks) None)
                             sc' (msgs ++ ms)%list rdid (ins ++ [modifier (msgs ++ ms)])%list rnds ems
                             (lg ++ [step_entry rval [] [(kChat, RIn ms)]])%list Hn' (rel_tools_bad rdn _)) as H1.
              unfold ls_of in H1. rewrite H1. fin.
            - rewrite calc_chat_end by exact Hc. cbn [nlist_get N.eqb kEND Pos.eqb]. fin. }
        cbn [fst snd].
        destruct (checker (emitted_chunks md content calls chunks)) eqn:Hc.
        * rewrite calc_chat_tools by exact Hc. cbn [nlist_get N.eqb kEND kTools Pos.eqb].
          pose proof (IH (S n) (TTools m) kTools (RModel (emitted_chunks md content calls chunks) (Some m))
                         sc' (msgs ++ ms)%list rdid (ins ++ [modifier (msgs ++ ms)])%list rnds (ems ++ [m])%list
                         (lg ++ [step_entry rval [] [(kChat, RIn ms)]])%list Hn' (rel_tools rdn _ _)) as H1.
          unfold ls_of in H1. rewrite H1. fin.
        * rewrite calc_chat_end by exact Hc. cbn [nlist_get N.eqb kEND Pos.eqb]. fin.
      + (* chat, the tool messages of the previous round *)
        destruct rr as [rs|e|].
        2:{ change (rexec rdn ?s [kChat] (RTools o (Err e) d)) with ((@Err rval (cToolsBase + e)), s).
            cbn [fst snd res_map agent_loop]. unfold trace_of, out_of. cbn [fst snd option_map].
            rewrite out_of_tools_err. fin. }
        2:{ change (rexec rdn ?s [kChat] (RTools o Panic d)) with ((@Panic rval), s).
            cbn [fst snd res_map agent_loop]. fin. }
        change (rexec rdn ?s [kChat] (RTools o (Ok rs) d)) with (exec_chat modifier md (map tool_msg rs) s).
        unfold exec_chat. cbn [rs_script rs_messages rs_rd rs_inputs rs_rounds rs_emits].
        cbn [res_map agent_loop s_messages s_rd].
        destruct sc as [|[|content calls chunks] sc']; try (fin; fail).
        destruct (delivered md content calls chunks) as [m|] eqn:Hd.
        2:{ cbn [fst snd].
            destruct (checker (emitted_chunks md content calls chunks)) eqn:Hc.
            - rewrite calc_chat_tools by exact Hc. cbn [nlist_get N.eqb kEND kTools Pos.eqb].
              pose proof (IH (S n) TToolsBad kTools (RModel (emitted_chunks md content calls chunks) None)
                             sc' (msgs ++ map tool_msg rs)%list rdid (ins ++ [modifier (msgs ++ map tool_msg rs)])%list rnds ems
                             (lg ++ [step_entry rval [] [(kChat, RTools o (Ok rs) d)]])%list Hn' (rel_tools_bad rdn _)) as H1.
              unfold ls_of in H1. rewrite H1. fin.
            - rewrite calc_chat_end by exact Hc. cbn [nlist_get N.eqb kEND Pos.eqb]. fin. }
        cbn [fst snd].
        destruct (checker (emitted_chunks md content calls chunks)) eqn:Hc.
        * rewrite calc_chat_tools by exact Hc. cbn [nlist_get N.eqb kEND kTools Pos.eqb].
          pose proof (IH (S n) (TTools m) kTools (RModel (emitted_chunks md content calls chunks) (Some m))
                         sc' (msgs ++ map tool_msg rs)%list rdid (ins ++ [modifier (msgs ++ map tool_msg rs)])%list rnds (ems ++ [m])%list
                         (lg ++ [step_entry rval [] [(kChat, RTools o (Ok rs) d)]])%list Hn' (rel_tools rdn _ _)) as H1.
          unfold ls_of in H1. rewrite H1. fin.
        * rewrite calc_chat_end by exact Hc. cbn [nlist_get N.eqb kEND Pos.eqb]. fin.
      + (* tools *)
        change (rexec rdn ?s [kTools] (RModel chunks (Some m))) with (exec_tools tn tns rd rdn visible md m s).
        unfold exec_tools. cbn [rs_script rs_messages rs_rd rs_inputs rs_rounds rs_emits].
        cbn [agent_loop s_messages s_rd].
        destruct (tools_out tn tns md (m_calls m)) as [o|e|] eqn:Et;
          [| cbn [fst snd]; unfold trace_of, out_of; cbn [fst snd option_map]; rewrite out_of_tools_err; fin; fail | fin; fail].
        cbv zeta. cbn [fst snd].
        set (rr := tout_results o).
        set (em := match rr with Ok results => emitted_results visible (m_calls m) results | _ => [] end).
        destruct rdn.
        * rewrite calc_tools_branch by reflexivity.
          destruct (rd_call_index rd (m_calls m)) as [ix|] eqn:Eid; cbn [is_some].
          -- cbn [nlist_get N.eqb kEND kDirect Pos.eqb].
             pose proof (IH (S n) (TDirect o) kDirect (RTools o rr true)
                         sc (msgs ++ [m])%list (Some ix) ins (rnds ++ [m_calls m])%list
                         (ems ++ em)%list
                         (lg ++ [step_entry rval [] [(kTools, RModel chunks (Some m))]])%list Hn' (rel_direct true _ _ _ eq_refl)) as H1.
             unfold ls_of in H1. rewrite H1. fin.
          -- cbn [nlist_get N.eqb kEND kChat Pos.eqb].
             pose proof (IH (S n) (TChat (res_map (map tool_msg) rr)) kChat (RTools o rr false)
                         sc (msgs ++ [m])%list None ins (rnds ++ [m_calls m])%list
                         (ems ++ em)%list
                         (lg ++ [step_entry rval [] [(kTools, RModel chunks (Some m))]])%list Hn' (rel_chat_tools true _ _ _)) as H1.
             unfold ls_of in H1. rewrite H1. fin.
        * rewrite calc_tools_edge by reflexivity. cbn [nlist_get N.eqb kEND kChat Pos.eqb is_some].
          pose proof (IH (S n) (TChat (res_map (map tool_msg) rr)) kChat (RTools o rr false)
                         sc (msgs ++ [m])%list None ins (rnds ++ [m_calls m])%list
                         (ems ++ em)%list
                         (lg ++ [step_entry rval [] [(kTools, RModel chunks (Some m))]])%list Hn' (rel_chat_tools false _ _ _)) as H1.
          unfold ls_of in H1. rewrite H1. fin.
      + (* tools on a model output that cannot be concatenated *)
        change (rexec rdn ?s [kTools] (RModel chunks None)) with ((@Err rval cConcat), s).
        cbn [fst snd agent_loop]. fin.
      + (* direct_return *)
        change (rexec true ?s [kDirect] (RTools o rs d)) with (exec_direct o s).
        unfold exec_direct. cbn [rs_script rs_messages rs_rd rs_inputs rs_rounds rs_emits].
        cbn [agent_loop s_messages s_rd].
        destruct rdid as [ix|]; [|fin; fail].
        destruct (tout_direct ix o) as [[r|]|e|]; [| fin; fail | |].
        * cbn [fst snd]. rewrite calc_direct by auto. cbn [nlist_get N.eqb kEND Pos.eqb]. fin.
        * cbn [fst snd]. rewrite calc_direct_late by auto. cbn [nlist_get N.eqb kEND Pos.eqb]. fin.
        * cbn [fst snd]. rewrite calc_direct_late by auto. cbn [nlist_get N.eqb kEND Pos.eqb]. fin.
  Qed.
End Refine.

(* ---- compose's runner on the ReAct graph = the dedicated superstep loop ------------------ *)
Lemma max_steps_react : forall rdn max_step,
  max_steps (react_graph rdn max_step) = effective_max_steps max_step rdn.
Proof. intros [|] [|n]; reflexivity. Qed.

Lemma tr_pre_nil : forall t, tr_pre [] [] [] t = t.
Proof. intros [i r e o]. reflexivity. Qed.

Theorem engine_refines_agent : forall tn tns rd rdn modifier visible checker md max_step script input,
  engine_trace tn tns rd rdn modifier visible checker md max_step script input
  = Some (agent_run tn tns rd rdn modifier visible checker md (effective_max_steps max_step rdn) script input).
Proof.
  intros. unfold engine_trace, engine_run, Graph.run, run_nest, run_flat.
  assert (Hi : init_chans rval (react_graph rdn max_step) = Ok (E rdn max_step)) by reflexivity.
  rewrite Hi. rewrite calc_start. cbn [nlist_get N.eqb kEND kChat Pos.eqb].
  unfold loop_fuel. cbn [g_mode react_graph]. unfold init_state, init_rstate.
  match goal with
  | |- trace_of (iterate _ _ _ _ ?sub _ _ _ _ _) = _ =>
      pose proof (iterate_refines tn tns rd modifier visible checker md max_step sub
                    rdn (max_steps (react_graph rdn max_step)) 0 (TChat (Ok input)) kChat (RIn input)
                    script [] None [] [] [] [run_marker rval []] eq_refl (rel_chat_in rdn input)) as H
  end.
  unfold ls_of in H. rewrite tr_pre_nil in H. rewrite max_steps_react in H at 2.
  unfold agent_run. rewrite <- H. reflexivity.
Qed.

Local Open Scope nat_scope.
Local Open Scope string_scope.

(* ---- the supersteps of the run: one node each, chat and tools alternating ------------------ *)
Section Supersteps.
  Variable tn : list call -> res (list tmsg).
  Variable tns : list call -> res (list string * list emitted * option N).
  Variable rd : string -> bool.
  Variable rdn : bool.
  Variable modifier : list msg -> list msg.
  Variable visible : call -> bool.
  Variable checker : list chunk -> bool.
  Variable md : React.mode.
  Variable max_step : nat.
  Variable sub : nat -> path -> rval -> rstate -> Graph.outcome rval * rstate.

  Notation ops := (react_ops checker).
  Notation g := (react_graph rdn max_step).
  Notation rexec := (react_exec tn tns rd rdn modifier visible md).
  Notation iter := (iterate rval rstate ops rexec sub sched_first [] g).
  Notation E := (E rdn max_step).

  (* which node can follow which *)
  Definition follows (k k' : key) : Prop :=
    (k = kChat /\ k' = kTools)
    \/ (k = kTools /\ k' = kChat)
    \/ (rdn = true /\ k = kTools /\ k' = kDirect).

  (* routing a single finished task of the ReAct graph never fails and yields END or exactly one
     next task, whatever value the node returned *)
  Lemma calc_single : forall k o,
    is_react_node rdn k = true ->
    exists k', calc_next rval ops g E [(k, o)] = Ok (E, [(k', o)]) /\ (k' = kEND \/ follows k k').
  Proof.
    intros k o Hk. unfold is_react_node in Hk.
    assert (Hcases : k = kChat \/ k = kTools \/ (rdn = true /\ k = kDirect)).
    { apply orb_true_iff in Hk. destruct Hk as [Hk|Hk].
      - apply orb_true_iff in Hk. destruct Hk as [Hk|Hk]; apply N.eqb_eq in Hk; auto.
      - apply andb_true_iff in Hk. destruct Hk as [Hr Hk]. apply N.eqb_eq in Hk. auto. }
    unfold follows. unfold Proofs.ReactGraph.E.
    destruct Hcases as [Hk1|[Hk1|[Hr Hk1]]]; subst k.
    - destruct o as [ms|chunks mo|o rs d|m|e]; try destruct (checker chunks) eqn:Hc; try destruct d; destruct rdn;
        eexists; (split; [cbv -[N.modulo]; try rewrite Hc; vm_compute; reflexivity|]); vm_compute; auto.
    - destruct o as [ms|chunks mo|o rs d|m|e]; try destruct (checker chunks) eqn:Hc; try destruct d; destruct rdn;
        eexists; (split; [cbv -[N.modulo]; try rewrite Hc; vm_compute; reflexivity|]); auto 10.
    - rewrite Hr. destruct o as [ms|chunks mo|o rs d|m|e]; try destruct (checker chunks) eqn:Hc; try destruct d;
        eexists; (split; [cbv -[N.modulo]; try rewrite Hc; vm_compute; reflexivity|]); auto.
  Qed.

  Fixpoint chain_ok (k : key) (ks : list key) : Prop :=
    match ks with
    | [] => True
    | k0 :: rest => k0 = k /\ (rest = [] \/ exists k1, follows k k1 /\ chain_ok k1 rest)
    end.

  Lemma nodes_log_step : forall (lg : log rval) k (v : rval),
    nodes_log (lg ++ [step_entry rval [] [(k, v)]])%list = (nodes_log lg ++ [[k]])%list.
  Proof. intros. unfold nodes_log. rewrite map_app. reflexivity. Qed.

  Lemma follows_node : forall k k', follows k k' -> is_react_node rdn k' = true /\ N.eqb kEND k' = false.
  Proof.
    intros k k' [[_ H]|[[_ H]|[Hr [_ H]]]]; subst k'; unfold is_react_node; rewrite ?Hr; split; reflexivity.
  Qed.

  Lemma iter_S' : forall f ls,
    iter (S f) ls = match Graph.step rval rstate ops rexec sub sched_first [] g ls with
                    | Finish o s => (o, s)
                    | Continue ls' => iter f ls'
                    end.
  Proof. reflexivity. Qed.

  Lemma iterate_log : forall af n k v s lg,
    is_react_node rdn k = true ->
    (n + af = max_steps g)%nat ->
    exists ks,
      nodes_log (outcome_log rval (fst (iter (S af) (ls_of rdn max_step n k v s lg))))
      = (nodes_log lg ++ map (fun k => [k]) ks)%list
      /\ chain_ok k ks.
  Proof.
    induction af as [|af IH]; intros n k v s lg Hk Hn.
    - rewrite iter_S'. unfold Graph.step, step_limit_hit, ls_of.
      cbn [ls_next ls_st ls_log ls_running ls_step ls_chans g_mode react_graph].
      replace (Nat.leb (max_steps g) n) with true by (symmetry; apply Nat.leb_le; lia).
      exists []. cbn [fst outcome_log map]. rewrite app_nil_r. split; [reflexivity|exact I].
    - assert (Hlim : Nat.leb (max_steps g) n = false) by (apply Nat.leb_gt; lia).
      rewrite iter_S'. rewrite step_node by auto. cbv zeta.
      destruct (fst (rexec s [k] v)) as [o|c|].
      + destruct (calc_single k o Hk) as [k' [Hc Hnext]]. rewrite Hc.
        destruct Hnext as [He|Hf].
        * subst k'. cbn [nlist_get N.eqb kEND Pos.eqb fst outcome_log].
          exists [k]. rewrite nodes_log_step. split; [reflexivity|]. simpl. auto.
        * destruct (follows_node _ _ Hf) as [Hk' Hne].
          cbn [nlist_get]. rewrite Hne.
          destruct (IH (S n) k' o (snd (rexec s [k] v)) (lg ++ [step_entry rval [] [(k, v)]])%list Hk' ltac:(lia))
            as [ks [Hl Hch]].
          unfold ls_of in Hl. exists (k :: ks). split.
          -- rewrite Hl. rewrite nodes_log_step. rewrite <- app_assoc. reflexivity.
          -- simpl. split; auto. right. exists k'. auto.
      + exists [k]. cbn [fst outcome_log]. rewrite nodes_log_step. split; [reflexivity|]. simpl. auto.
      + exists [k]. cbn [fst outcome_log]. rewrite nodes_log_step. split; [reflexivity|]. simpl. auto.
  Qed.
End Supersteps.

(* every superstep of the engine's run of the ReAct graph executes exactly one node; the first is
   chat, after chat comes tools (or the run ends), after tools comes chat — or direct_return, only
   with a return-directly set, after which the run ends *)
Theorem engine_supersteps_alternate : forall tn tns rd rdn modifier visible checker md max_step script input,
  exists ks,
    engine_supersteps tn tns rd rdn modifier visible checker md max_step script input
    = [] :: map (fun k => [k]) ks
    /\ chain_ok rdn kChat ks.
Proof.
  intros. unfold engine_supersteps, engine_run, Graph.run, run_nest, run_flat.
  assert (Hi : init_chans rval (react_graph rdn max_step) = Ok (E rdn max_step)) by reflexivity.
  rewrite Hi. rewrite calc_start. cbn [nlist_get N.eqb kEND kChat Pos.eqb].
  unfold loop_fuel. cbn [g_mode react_graph]. unfold init_state.
  match goal with
  | |- exists ks, nodes_log (outcome_log _ (fst (iterate _ _ _ _ ?sub _ _ _ _ _))) = _ /\ _ =>
      destruct (iterate_log tn tns rd rdn modifier visible checker md max_step sub
                  (max_steps (react_graph rdn max_step)) 0 kChat (RIn input) (init_rstate script)
                  [run_marker rval []] eq_refl eq_refl) as [ks [Hl Hc]]
  end.
  exists ks. split; [|exact Hc]. unfold ls_of in Hl. rewrite Hl. reflexivity.
Qed.
