(* Proofs/GenAgreeCallbacksTables.v — property C10: the tables tools/go2v (extractor "c10_tables")
   re-reads from the callback dispatch code on every run — Gen/CallbacksTables.v — say what
   Model/Callbacks.v says:

     gen_timing_consts_agree       the values of the CallbackTiming constants are the model's [timing_code]
     gen_dispatch_agrees           every caller of On (compose's wrappers, the public callbacks.OnStart … OnError)
                                   passes a handle function that invokes the Handler method belonging to the timing it
                                   passes, takes the handlers in reverse order exactly for the two start timings
                                   ([invoke_order]) and copies a stream payload exactly for the two stream timings
     gen_stream_copies_agree       OnWithStreamHandle = [stream_copies]: one copy per handler in the order of the
                                   call, one more for the flow, none when no handler is selected
     gen_unit_timings_agree        the start / end / error timings of a component called in native paradigm p are
                                   [start_timing_of p] / [end_timing_of p] / TError
     gen_graph_timings_agree       graph level: [graph_start] / [graph_end] / TError
     gen_lambda_ops_agree,         the operations of a lambda node resp. a tool call in [node_ops] / [call_ops] are the
     gen_call_ops_agree            context creation followed by what runWithCallbacks fires - whether the execution
                                   returns a result, returns an error or panics (F-C10d) -, and their payloads
                                   ([annot]) are the closure's input, output resp. error
     gen_graph_bookkeeping_agrees, runner.run reduced to what bears on the graph-level callbacks: on every control-flow path
     gen_graph_ops_agree           exactly one start, then exactly one end (nil error) or error callback, deferred
                                   bookkeeping included; they are the first and last operation of [graph_body]
   A changed timing constant, a handle function iterating in the other direction, a wrapper wired to
   another timing, a callback dropped from or added to runWithCallbacks makes these fail. *)
From Eino Require Import Base.Util Base.GoSlice Model.Callbacks Model.CallbacksSched Model.CallbacksPayload
  Model.CallbacksGenLib.
From Eino Require Gen.CallbacksTables.

Module T := Gen.CallbacksTables.

Definition t_dispatch := on_dispatch T.timing_consts T.handle_table T.on_table.
Definition t_role_timing := role_timing T.timing_consts T.handle_table T.on_table T.wrap_table T.packer_table.
Definition t_graph_timing := graph_timing T.timing_consts T.handle_table T.on_table T.graph_cb_table.
Definition t_pops := pops_of_calls T.timing_consts T.handle_table T.on_table T.wrap_table T.packer_table.

Theorem gen_timing_consts_agree :
  List.length T.timing_consts = 5 /\
  forall t, nth_error T.timing_consts (N.to_nat (timing_code t)) = Some (timing_const_name t).
Proof. split; [reflexivity|]. intros []; reflexivity. Qed.

(* what the dispatch of one caller of On must be *)
Definition dispatch_ok (name : string) : Prop :=
  match t_dispatch name with
  | Some (t, m, rv, st) => m = handler_method t /\ rv = is_start t /\ st = is_stream_timing t
  | None => False
  end.

Theorem gen_dispatch_agrees : Forall dispatch_ok (map fst T.on_table).
Proof. repeat constructor. Qed.

(* hence the order in which a caller's handle function invokes the selected handlers is the model's *)
Corollary gen_invocation_order_agrees : forall name t m rv st (l : list handler),
  In name (map fst T.on_table) -> t_dispatch name = Some (t, m, rv, st) ->
  (if rv then rev l else l) = invoke_order t l.
Proof.
  intros name t m rv st l Hin Hd.
  pose proof (proj1 (Forall_forall _ _) gen_dispatch_agrees name Hin) as Hok.
  unfold dispatch_ok in Hok. rewrite Hd in Hok. destruct Hok as (_ & -> & _). reflexivity.
Qed.

(* the timings the callers named in the wrapper tables pass *)
Theorem gen_on_table_complete :
  forall t, exists name, In name (map fst T.on_table) /\
    match t_dispatch name with Some (t', _, _, _) => t' = t | None => False end.
Proof.
  intros [].
  - exists "compose.onStart"%string. split; [cbn; tauto|reflexivity].
  - exists "compose.onEnd"%string. split; [cbn; tauto|reflexivity].
  - exists "compose.onError"%string. split; [cbn; tauto|reflexivity].
  - exists "compose.onStartWithStreamInput"%string. split; [cbn; tauto|reflexivity].
  - exists "compose.onEndWithStreamOutput"%string. split; [cbn; tauto|reflexivity].
Qed.

(* OnWithStreamHandle *)
Lemma map_seq_handlers (l : list handler) : forall k,
  map (fun i : nat => ((k + i)%nat, RHandler (nth i l 0%N))) (seq 0 (List.length l)) =
  combine (seq k (List.length l)) (map RHandler l).
Proof.
  induction l as [|x l IH]; intros k; [reflexivity|].
  cbn [List.length seq map combine nth]. rewrite Nat.add_0_r. f_equal.
  rewrite <- seq_shift, map_map.
  rewrite <- (IH (S k)). apply map_ext. intros i. now rewrite Nat.add_succ_r.
Qed.

Lemma combine_app' {A B} : forall (l1 l1' : list A) (l2 l2' : list B), List.length l1 = List.length l2 ->
  combine (l1 ++ l1') (l2 ++ l2') = combine l1 l2 ++ combine l1' l2'.
Proof.
  induction l1 as [|a l1 IH]; intros l1' [|b l2] l2' Hl; try discriminate; [reflexivity|].
  cbn. f_equal. apply IH. now injection Hl.
Qed.

Theorem gen_stream_copies_agree : forall l, T.on_with_stream_handle l = stream_copies l.
Proof.
  intros l. unfold T.on_with_stream_handle, stream_copies.
  destruct l as [|x l]; [reflexivity|].
  cbn [Nat.eqb List.length].
  set (l' := x :: l).
  change (S (List.length l)) with (List.length l').
  rewrite (map_ext _ (fun i : nat => ((0 + i)%nat, RHandler (nth i l' 0%N)))) by reflexivity.
  rewrite map_seq_handlers.
  replace (List.length l' + 1 - 1) with (List.length l') by lia.
  rewrite seq_S, Nat.add_0_l.
  rewrite combine_app' by (now rewrite seq_length, map_length).
  reflexivity.
Qed.

Lemma native_cases (p : N) : (p < 4)%N -> p = 0%N \/ p = 1%N \/ p = 2%N \/ p = 3%N.
Proof. lia. Qed.

Theorem gen_unit_timings_agree : forall p, (p < 4)%N ->
  t_role_timing p CbStart = Some (start_timing_of p) /\
  t_role_timing p CbEnd = Some (end_timing_of p) /\
  t_role_timing p CbError = Some TError.
Proof. intros p Hp. destruct (native_cases p Hp) as [->|[->|[->| ->]]]; repeat split; reflexivity. Qed.

Theorem gen_graph_timings_agree : forall is_stream,
  t_graph_timing "onGraphStart" is_stream = Some (graph_start is_stream) /\
  t_graph_timing "onGraphEnd" is_stream = Some (graph_end is_stream) /\
  t_graph_timing "onGraphError" is_stream = Some TError.
Proof. intros []; repeat split; reflexivity. Qed.

Lemma pick_native_lt4 is_stream natives : (pick_native is_stream natives < 4)%N.
Proof.
  unfold pick_native. destruct is_stream;
    repeat match goal with |- context [if ?c then _ else _] => destruct c end; lia.
Qed.

(* what runWithCallbacks fires around a unit called in paradigm p, as operations with payloads: the
   start with what the unit is run on; then, whether the execution returns a result, returns an error
   or panics, exactly one end: the end callback with the result, resp. the error callback with the
   error (the error made of the panic) *)
Lemma run_with_callbacks_pops unk u p o : (p < 4)%N ->
  t_pops u p (T.run_with_callbacks unk o) =
  [(OOn u (start_timing_of p), pin u);
   (OOn u (if fails_of o then TError else end_timing_of p), if fails_of o then perr u else pout u)].
Proof.
  intros Hp. destruct (native_cases p Hp) as [->|[->|[->| ->]]]; destruct o; reflexivity.
Qed.

Theorem gen_lambda_ops_agree : forall unk is_stream parent opts uid key inf natives o,
  map annot (fst (node_ops is_stream parent opts (GLambda uid key inf natives (fails_of o)))) =
  annot (OAppend (Some parent) uid inf (designated key opts))
  :: t_pops uid (pick_native is_stream natives) (T.run_with_callbacks unk o).
Proof.
  intros. rewrite (run_with_callbacks_pops unk) by apply pick_native_lt4.
  cbn [node_ops fst map]. f_equal. unfold annot, payload_of.
  set (p := pick_native is_stream natives).
  assert (Hs : start_timing_of p = TStart \/ start_timing_of p = TStartStream)
    by (unfold start_timing_of; destruct (N.eqb p 0 || N.eqb p 1); auto).
  assert (He : end_timing_of p = TEnd \/ end_timing_of p = TEndStream)
    by (unfold end_timing_of; destruct (N.eqb p 0 || N.eqb p 2); auto).
  destruct Hs as [-> | ->]; destruct (fails_of o); try reflexivity; destruct He as [-> | ->]; reflexivity.
Qed.

Theorem gen_call_ops_agree : forall unk is_stream tn cu cinf natives o,
  map annot (call_ops is_stream tn (cu, cinf, natives, fails_of o)) =
  annot (OReuse tn cu cinf) :: t_pops cu (pick_native is_stream natives) (T.run_with_callbacks unk o).
Proof.
  intros. rewrite (run_with_callbacks_pops unk) by apply pick_native_lt4.
  cbn [call_ops map]. f_equal. unfold annot, payload_of.
  set (p := pick_native is_stream natives).
  assert (Hs : start_timing_of p = TStart \/ start_timing_of p = TStartStream)
    by (unfold start_timing_of; destruct (N.eqb p 0 || N.eqb p 1); auto).
  assert (He : end_timing_of p = TEnd \/ end_timing_of p = TEndStream)
    by (unfold end_timing_of; destruct (N.eqb p 0 || N.eqb p 2); auto).
  destruct Hs as [-> | ->]; destruct (fails_of o); try reflexivity; destruct He as [-> | ->]; reflexivity.
Qed.

(* ---------------------------------------------------------------- runner.run: graph-level bookkeeping *)

(* compose/graph_run.go, func (r *runner) run, reduced to what bears on the graph-level callbacks
   (T.run_flag_init, T.run_deferred, T.run_body; semantics in Model/CallbacksGenLib.v: opaque
   conditions go both ways, loops that fire no callback are left in the state they were entered):
   on EVERY control-flow path from the entry to a return, the deferred function included, the graph
   level callbacks fired are exactly the start followed by exactly one end - the end callback when the
   function returns a nil error, the error callback otherwise; no path falls off the end, no loop
   fires a callback; and the main loop (the last statement) is only ever entered after the start *)
Theorem gen_graph_bookkeeping_agrees :
  let r := run_outcomes T.run_flag_init T.run_deferred T.run_body in
  snd r = true /\
  Forall (fun o : list cbrole * bool => fst o = [CbStart; if snd o then CbError else CbEnd]) (fst r) /\
  (exists o, In o (fst r) /\ snd o = true) /\ (exists o, In o (fst r) /\ snd o = false) /\
  states_before_last T.run_flag_init T.run_body = [(true, [CbStart])].
Proof.
  vm_compute. split; [reflexivity|]. split; [repeat constructor|].
  split; [exists ([CbStart; CbError], true); split; [simpl; repeat first [left; reflexivity | right]|reflexivity]|].
  split; [|reflexivity].
  exists ([CbStart; CbEnd], false); split; [simpl; repeat first [left; reflexivity | right]|reflexivity].
Qed.

(* the model's graph level: the operations of a graph run on its own context are the start, what the
   stages do, and one end-or-error *)
Lemma graph_body_shape is_stream g ok rs :
  fst (graph_body is_stream g ok rs) =
  OOn g (graph_start is_stream) :: (if ok then fst (stages_body rs) else []) ++
  [OOn g (if snd (graph_body is_stream g ok rs) then TError else graph_end is_stream)].
Proof. unfold graph_body. destruct ok; reflexivity. Qed.

Definition graph_role_timing (is_stream : bool) (r : cbrole) : option timing :=
  t_graph_timing (match r with CbStart => "onGraphStart" | CbEnd => "onGraphEnd" | CbError => "onGraphError" end)%string is_stream.

(* hence: whatever path runner.run takes, the callbacks it fires on the graph's context are the first and
   the last operation of the model's [graph_body] with the same outcome *)
Theorem gen_graph_ops_agree : forall is_stream g ok rs o,
  In o (fst (run_outcomes T.run_flag_init T.run_deferred T.run_body)) ->
  snd o = snd (graph_body is_stream g ok rs) ->
  exists s e, map (graph_role_timing is_stream) (fst o) = [Some s; Some e] /\
    fst (graph_body is_stream g ok rs) = OOn g s :: (if ok then fst (stages_body rs) else []) ++ [OOn g e].
Proof.
  intros is_stream g ok rs o Hin Ho.
  destruct gen_graph_bookkeeping_agrees as (_ & Hall & _).
  rewrite Forall_forall in Hall. specialize (Hall o Hin). rewrite Hall.
  exists (graph_start is_stream), (if snd o then TError else graph_end is_stream).
  split.
  - destruct (gen_graph_timings_agree is_stream) as (Hs & He & Hx).
    cbn [map]. unfold graph_role_timing. rewrite Hs. destruct (snd o); [rewrite Hx|rewrite He]; reflexivity.
  - rewrite Ho. apply graph_body_shape.
Qed.

(* non-vacuity: the tables distinguish the paradigms *)
Example gen_tables_distinguish :
  t_role_timing 0 CbStart = Some TStart /\ t_role_timing 3 CbStart = Some TStartStream /\
  t_role_timing 1 CbEnd = Some TEndStream /\ t_role_timing 2 CbEnd = Some TEnd /\
  T.on_with_stream_handle [7%N; 8%N] = [(0, RHandler 7%N); (1, RHandler 8%N); (2, RFlow)].
Proof. repeat split; reflexivity. Qed.
