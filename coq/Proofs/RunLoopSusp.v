(* Proofs/RunLoopSusp.v — nodes that suspend (a nested graph interrupted inside) and nodes that ask for
   InterruptAndRerun are transparent (owner: C05).

   Setting (batch mode): the uninterrupted run is the loop in which the body of node k on input v
   completes at once with [body k v] (partial: None = the body fails) and emits the trace [trU k v]
   (the executions inside a nested graph); it has no interrupt points. In the interrupted run a body
   follows a protocol: started on v it completes with the same output, or — if [rerunnable] — aborts
   the attempt, or SUSPENDS with a residual c ([TSub c i], [Susp k v c L]: L = what it has emitted so
   far); continued from c (whatever placeholder input it is handed) it completes with the output of the
   uninterrupted body or suspends again; when it completes, everything it emitted over all its
   segments is, as a multiset, the trace of the uninterrupted body.
   Asked of the channel layer, relative to a JOINT invariant [J cs P] of the channel table and the
   keys P of the tasks that have been handed out and not yet folded in: folding completed tasks is
   compositional and independent of their order.
   Result, for one run segment ([seg_fresh_ok], [seg_resumed_ok]) — the protocol again, one level up,
   which is what the induction over the nesting depth needs — and for the run driven through a store
   ([susp_equiv_l]): whenever the driven run completes it completes with the output of the uninterrupted
   run, its own completed executions are those of the uninterrupted run (multiset of (node, input)) and
   so is everything the bodies emitted. *)
From Eino Require Import Base.Util Model.RunLoop Proofs.RunLoop.
From Coq Require Import Permutation.
Open Scope N_scope.

Lemma perm_swap_mid : forall {A} (a b c : list A), Permutation (a ++ b ++ c) (b ++ a ++ c).
Proof. intros. rewrite !app_assoc. apply Permutation_app_tail. apply Permutation_app_comm. Qed.

Lemma perm_4 : forall {A} (a b c d : list A), Permutation ((a ++ b) ++ (c ++ d)) ((a ++ c) ++ (b ++ d)).
Proof.
  intros. rewrite <- !app_assoc. apply Permutation_app_head. apply perm_swap_mid.
Qed.

Lemma perm_acc : forall {A} (a b c d x y : list A),
  Permutation (a ++ c) x -> Permutation (b ++ d) y -> Permutation ((a ++ b) ++ c ++ d) (x ++ y).
Proof. intros. eapply Permutation_trans; [apply perm_4|]. apply Permutation_app; auto. Qed.

Lemma perm_acc_r : forall {A} (a b c d x y : list A),
  Permutation (a ++ c) x -> Permutation (b ++ d) y -> Permutation (a ++ b ++ c ++ d) (x ++ y).
Proof. intros. rewrite app_assoc. apply perm_acc; auto. Qed.

(* what is asked of the channel layer, relative to a joint invariant [J cs P] of the channel table and the
   keys P of the tasks that have been handed out (by [getr]) and not yet folded in *)
Record chan_layer {V CS : Type} (fold : CS -> list (N * V) -> res CS) (getr : CS -> res (CS * list (N * V)))
       (J : CS -> list N -> Prop) : Prop := {
  cl_J_perm : forall cs P Q, Permutation P Q -> J cs P -> J cs Q;
  cl_fold_J : forall cs A Q cs1, J cs (map fst A ++ Q) -> fold cs A = Ok cs1 -> J cs1 Q;
  cl_getr_J : forall cs cs2 r, J cs [] -> getr cs = Ok (cs2, r) -> J cs2 (map fst r);
  (* folding no completed task changes nothing *)
  cl_fold_nil : forall cs P, J cs P -> fold cs [] = Ok cs;
  (* channels that have just been read are not ready again *)
  cl_getr_idem : forall cs cs' r, J cs [] -> getr cs = Ok (cs', r) -> getr cs' = Ok (cs', []);
  cl_getr_nodup : forall cs cs' r, J cs [] -> getr cs = Ok (cs', r) -> NoDup (map fst r);
  (* folding completed tasks is compositional ... *)
  cl_fold_app : forall cs A B Q cs1 r, J cs (map fst A ++ map fst B ++ Q) ->
    fold cs A = Ok cs1 -> fold cs (A ++ B) = Ok r -> fold cs1 B = Ok r;
  cl_fold_prefix : forall cs A B Q r, J cs (map fst A ++ map fst B ++ Q) ->
    fold cs (A ++ B) = Ok r -> exists cs1, fold cs A = Ok cs1;
  (* ... and, for the tasks of one step (distinct nodes), independent of their order *)
  cl_fold_perm : forall cs A B Q r, J cs (map fst A ++ Q) -> NoDup (map fst A) -> Permutation A B ->
    fold cs A = Ok r -> fold cs B = Ok r;
}.

(* the state pre-handlers: the pre-handler of a node that may ask for a rerun rebuilds, from the state it
   left behind, the input it handed to the aborted attempt, and leaves the state alone *)
Record state_layer {V GS SCP : Type} (zero : V) (pre : N -> V -> GS -> V * GS) (rerunnable : N -> Prop)
       (GOK : GS -> Prop) (geq : GS -> GS -> Prop) : Prop := {
  (* [geq]: the states the pre-handlers cannot tell apart (what a state modifier may change) *)
  sl_geq_refl : forall g, geq g g;
  sl_geq_trans : forall a b c, geq a b -> geq b c -> geq a c;
  sl_pre_geq : forall k v a b, geq a b ->
    fst (pre k v a) = fst (pre k v b) /\ geq (snd (pre k v a)) (snd (pre k v b));
  sl_pre_ok : forall k v gs, GOK gs -> GOK (snd (pre k v gs));
  sl_rebuild : forall (ts : list (@task V SCP)) gs,
    GOK gs -> NoDup (map t_key ts) -> Forall fresh_task ts ->
    forall t', In t' (fst (run_pres pre ts gs)) -> rerunnable (t_key t') ->
      pre (t_key t') zero (snd (run_pres pre ts gs)) = (t_in t', snd (run_pres pre ts gs));
}.

(* the protocol of the node bodies of the interrupted run *)
Record body_protocol {V ENV SCP SINFO X : Type} (body : N -> V -> option V) (rerunnable : N -> Prop)
       (execR : N -> option SCP -> V -> ENV -> @texec V SCP SINFO * ENV)
       (tr : ENV -> list X) (trU : N -> V -> list X) (EOK : ENV -> Prop)
       (Susp : N -> V -> SCP -> list X -> Prop) : Prop := {
  bp_start : forall k v o e r e', EOK e -> body k v = Some o -> execR k None v e = (r, e') ->
    EOK e' /\ exists L, tr e' = tr e ++ L /\
      match r with
      | TDone o' => o' = o /\ Permutation L (trU k v)
      | TRerun => rerunnable k /\ L = []
      | TSub c i => Susp k v c L
      | TFail _ => False
      end;
  bp_cont : forall k v o c L0 z e r e', EOK e -> body k v = Some o -> Susp k v c L0 ->
    execR k (Some c) z e = (r, e') ->
    EOK e' /\ exists L, tr e' = tr e ++ L /\
      match r with
      | TDone o' => o' = o /\ Permutation (L0 ++ L) (trU k v)
      | TSub c' i => Susp k v c' (L0 ++ L)
      | TRerun => False
      | TFail _ => False
      end;
}.

Section Susp.
  Context {V CS GS ENV SCP SINFO X : Type}.
  Variable zero : V.
  Variable fold : CS -> list (N * V) -> res CS.
  Variable getr : CS -> res (CS * list (N * V)).
  Variable pre : N -> V -> GS -> V * GS.
  Variable body : N -> V -> option V.
  Variable rerunnable : N -> Prop.
  Variable execR : N -> option SCP -> V -> ENV -> @texec V SCP SINFO * ENV.
  Variable before after : list N.
  Variable tr : ENV -> list X.                      (* what the bodies have emitted so far *)
  Variable trU : N -> V -> list X.                  (* what the uninterrupted body of k emits on v *)
  Variable EOK : ENV -> Prop.                       (* the environments the protocol is stated for *)
  Variable Susp : N -> V -> SCP -> list X -> Prop.  (* c is a residual of body k on v, L emitted so far *)

  Notation taskT := (@task V SCP).
  Notation lstateT := (@lstate V CS GS SCP).
  Notation texecT := (@texec V SCP SINFO).
  Notation cptT := (@checkpoint V CS GS SCP).
  Notation infT := (@iinfo GS SINFO).
  Notation eventT := (@event V).
  Notation outcomeT := (@outcome V CS GS SCP SINFO).

  Hypothesis H_proto : body_protocol body rerunnable execR tr trU EOK Susp.
  Definition H_start := bp_start _ _ _ _ _ _ _ H_proto.
  Definition H_cont := bp_cont _ _ _ _ _ _ _ H_proto.

  (* the uninterrupted run: every body completes (or fails) at once; it has no environment *)
  Definition eBody : N := 40.
  Definition execU (k : N) (cp : option SCP) (v : V) (e : unit) : texecT * unit :=
    (match body k v with Some o => TDone o | None => TFail eBody end, tt).

  Variable J : CS -> list N -> Prop.
  Hypothesis H_chan : chan_layer fold getr J.
  Definition H_J_perm := cl_J_perm _ _ _ H_chan.
  Definition H_fold_J := cl_fold_J _ _ _ H_chan.
  Definition H_getr_J := cl_getr_J _ _ _ H_chan.
  Definition H_fold_nil := cl_fold_nil _ _ _ H_chan.
  Definition H_getr_idem := cl_getr_idem _ _ _ H_chan.
  Definition H_getr_nodup := cl_getr_nodup _ _ _ H_chan.
  Definition H_fold_app := cl_fold_app _ _ _ H_chan.
  Definition H_fold_prefix := cl_fold_prefix _ _ _ H_chan.
  Definition H_fold_perm := cl_fold_perm _ _ _ H_chan.
  Variable GOK : GS -> Prop.
  Variable geq : GS -> GS -> Prop.
  Hypothesis H_state : state_layer (SCP := SCP) zero pre rerunnable GOK geq.
  Definition H_pre_ok := sl_pre_ok _ _ _ _ _ H_state.
  Definition H_rebuild := sl_rebuild _ _ _ _ _ H_state.
  Definition H_geq_refl := sl_geq_refl _ _ _ _ _ H_state.
  Definition H_geq_trans := sl_geq_trans _ _ _ _ _ H_state.
  Definition H_pre_geq := sl_pre_geq _ _ _ _ _ H_state.

  Notation decideR := (decide zero fold getr before after).
  Notation iterR := (iterate zero fold getr pre execR before after).
  Notation iterU := (iterate zero fold getr pre execU [] []).
  Notation resumeR := (resume zero fold getr pre execR before after).

  (* ---------------------------------------------------------------- *)
  (* tasks, their outputs, events and traces                            *)
  (* ---------------------------------------------------------------- *)
  Definition bodyd (k : N) (v : V) : V := match body k v with Some o => o | None => zero end.
  Definition defined (t : taskT) : Prop := exists o, body (t_key t) (t_in t) = Some o.
  Definition out_of_task (t : taskT) : N * V := (t_key t, bodyd (t_key t) (t_in t)).
  Definition outs_of (D : list taskT) : list (N * V) := map out_of_task D.
  Definition ev_of (t : taskT) : eventT :=
    {| ev_key := t_key t; ev_in := t_in t; ev_abort := false; ev_skip := false |}.
  Definition evs (D : list taskT) : list eventT := map ev_of D.
  Definition ttr (t : taskT) : list X := trU (t_key t) (t_in t).
  Definition TU (l : list eventT) : list X := flat_map (fun ev => trU (ev_key ev) (ev_in ev)) l.
  (* the completed first attempts: not aborted, and not the continuation of a suspended body *)
  Definition good (l : list eventT) : list eventT := filter (fun ev => negb (ev_abort ev) && negb (ev_skip ev)) l.

  Lemma good_app : forall a b : list eventT, good (a ++ b) = good a ++ good b.
  Proof. intros; unfold good; apply filter_app. Qed.
  Lemma good_evs : forall D, good (evs D) = evs D.
  Proof. induction D; simpl; auto. f_equal; auto. Qed.
  Lemma TU_app : forall a b, TU (a ++ b) = TU a ++ TU b.
  Proof. intros; unfold TU; apply flat_map_app. Qed.
  Lemma TU_evs : forall D, TU (evs D) = flat_map ttr D.
  Proof. induction D; simpl; auto. unfold TU in *; simpl. rewrite IHD. reflexivity. Qed.
  Lemma evs_app : forall A B, evs (A ++ B) = evs A ++ evs B.
  Proof. intros; unfold evs; apply map_app. Qed.
  Lemma outs_of_app : forall A B, outs_of (A ++ B) = outs_of A ++ outs_of B.
  Proof. intros; unfold outs_of; apply map_app. Qed.
  Lemma outs_of_keys : forall D, map fst (outs_of D) = map t_key D.
  Proof. induction D; simpl; auto. f_equal; auto. Qed.
  Lemma perm_outs_of : forall A B, Permutation A B -> Permutation (outs_of A) (outs_of B).
  Proof. intros; unfold outs_of; apply Permutation_map; auto. Qed.
  Lemma perm_evs : forall A B, Permutation A B -> Permutation (evs A) (evs B).
  Proof. intros; unfold evs; apply Permutation_map; auto. Qed.
  Lemma perm_flat_map : forall {A B} (f : A -> list B) l l', Permutation l l' -> Permutation (flat_map f l) (flat_map f l').
  Proof.
    intros A B f l l' H. induction H; simpl; auto.
    - apply Permutation_app_head; auto.
    - apply perm_swap_mid.
    - eapply Permutation_trans; eauto.
  Qed.

  (* ---------------------------------------------------------------- *)
  (* what is pending in a step: fresh tasks and suspended bodies        *)
  (* ---------------------------------------------------------------- *)
  Inductive item :=
  | IFresh (t : taskT)
  | ICont (t : taskT) (c : SCP) (L : list X).    (* t: the task as first submitted (pre-handled input) *)

  Definition it_task (it : item) : taskT := match it with IFresh t => t | ICont t _ _ => t end.
  Definition it_sub (it : item) : taskT :=       (* the task handed to the body *)
    match it with
    | IFresh t => t
    | ICont t c _ => {| t_key := t_key t; t_in := zero; t_skip := true; t_cp := Some c |}
    end.
  Definition it_old (it : item) : list X := match it with IFresh _ => [] | ICont _ _ L => L end.
  Definition it_oldev (it : item) : list eventT := match it with IFresh _ => [] | ICont t _ _ => [ev_of t] end.
  Definition it_ok (it : item) : Prop :=
    defined (it_task it) /\ fresh_task (it_task it) /\
    match it with IFresh _ => True | ICont t c L => Susp (t_key t) (t_in t) c L end.

  Record sitem := { si_t : taskT; si_c : SCP; si_L : list X }.
  Definition si_item (s : sitem) : item := ICont (si_t s) (si_c s) (si_L s).
  Definition si_key (s : sitem) : N := t_key (si_t s).

  (* [xres items rs D Sr Ss]: the results [rs] of the pending items split them into the completed D, the
     ones that asked for a rerun Sr and the suspended ones Ss (all in task order) *)
  Inductive xres : list item -> list (N * texecT) -> list taskT -> list taskT -> list sitem -> Prop :=
  | x_nil : xres [] [] [] [] []
  | x_done : forall it its rs D Sr Ss, xres its rs D Sr Ss -> defined (it_task it) ->
      xres (it :: its) ((t_key (it_task it), TDone (bodyd (t_key (it_task it)) (t_in (it_task it)))) :: rs)
           (it_task it :: D) Sr Ss
  | x_rerun : forall t its rs D Sr Ss, xres its rs D Sr Ss -> rerunnable (t_key t) ->
      xres (IFresh t :: its) ((t_key t, TRerun) :: rs) D (t :: Sr) Ss
  | x_sub : forall it its rs D Sr Ss c i L, xres its rs D Sr Ss ->
      Susp (t_key (it_task it)) (t_in (it_task it)) c L ->
      xres (it :: its) ((t_key (it_task it), TSub c i) :: rs) D Sr ({| si_t := it_task it; si_c := c; si_L := L |} :: Ss).

  Lemma it_sub_key : forall it, t_key (it_sub it) = t_key (it_task it).
  Proof. destruct it; reflexivity. Qed.

  (* executing the pending items *)
  Lemma exec_items : forall items e, EOK e -> Forall it_ok items ->
    exists D Sr Ss Lnew,
      xres items (fst (exec_all execR (map it_sub items) e)) D Sr Ss /\
      EOK (snd (exec_all execR (map it_sub items) e)) /\
      tr (snd (exec_all execR (map it_sub items) e)) = tr e ++ Lnew /\
      Permutation (flat_map it_old items ++ Lnew) (flat_map ttr D ++ flat_map si_L Ss).
  Proof.
    induction items as [|it items IH]; intros e He Hok.
    - exists [], [], [], []. simpl. split; [constructor|]. split; [exact He|]. split; [rewrite app_nil_r; reflexivity|constructor].
    - inversion Hok as [|? ? Hit Hok']; subst.
      destruct Hit as ([o Ho] & [Hsk Hcp] & Hs).
      cbn [map exec_all].
      destruct (execR (t_key (it_sub it)) (t_cp (it_sub it)) (t_in (it_sub it)) e) as [r e1] eqn:Hx.
      assert (Hr : EOK e1 /\ exists L, tr e1 = tr e ++ L /\
                match r with
                | TDone o' => o' = o /\ Permutation (it_old it ++ L) (ttr (it_task it))
                | TRerun => (exists t, it = IFresh t) /\ rerunnable (t_key (it_task it)) /\ L = []
                | TSub c i => Susp (t_key (it_task it)) (t_in (it_task it)) c (it_old it ++ L)
                | TFail _ => False
                end).
      { destruct it as [t|t c L0]; cbn [it_sub it_task it_old t_key t_in t_cp] in *.
        - rewrite Hcp in Hx. destruct (H_start _ _ _ _ _ _ He Ho Hx) as (He1 & L & Htr & Hm).
          split; auto. exists L. split; auto. destruct r; auto.
          destruct Hm as [? ?]. split; eauto.
        - destruct (H_cont _ _ _ _ _ _ _ _ _ He Ho Hs Hx) as (He1 & L & Htr & Hm).
          split; auto. exists L. split; auto. destruct r; auto; destruct Hm. }
      destruct Hr as (He1 & L & Htr & Hm).
      destruct (IH e1 He1 Hok') as (D & Sr & Ss & Lnew & Hxr & He2 & Htr2 & Hperm).
      destruct (exec_all execR (map it_sub items) e1) as [rest e2] eqn:Hrest. cbn [fst snd] in *.
      rewrite it_sub_key.
      destruct r as [o'| |c i|x]; try contradiction.
      + destruct Hm as [Eo Hp]. subst o'.
        exists (it_task it :: D), Sr, Ss, (L ++ Lnew). split; [|split; [auto|split]].
        * assert (Eo : o = bodyd (t_key (it_task it)) (t_in (it_task it))) by (unfold bodyd; rewrite Ho; reflexivity).
          rewrite Eo. constructor; auto. exists o. exact Ho.
        * rewrite Htr2, Htr, app_assoc. reflexivity.
        * cbn [flat_map]. rewrite <- (app_assoc (ttr (it_task it))). apply perm_acc; auto.
      + destruct Hm as ([t ->] & Hrr & ->). cbn [it_task it_old] in *.
        exists D, (t :: Sr), Ss, Lnew. split; [|split; [auto|split]].
        * constructor; auto.
        * rewrite Htr2, Htr, app_nil_r. reflexivity.
        * exact Hperm.
      + exists D, Sr, ({| si_t := it_task it; si_c := c; si_L := it_old it ++ L |} :: Ss), (L ++ Lnew).
        split; [|split; [auto|split]].
        * constructor; auto.
        * rewrite Htr2, Htr, app_assoc. reflexivity.
        * cbn [flat_map si_L].
          eapply Permutation_trans; [|apply perm_swap_mid]. apply perm_acc; auto.
  Qed.

  (* ---------------------------------------------------------------- *)
  (* facts about [xres]                                                 *)
  (* ---------------------------------------------------------------- *)
  Definition sub_cps (Ss : list sitem) : list (N * SCP) := map (fun s => (si_key s, si_c s)) Ss.

  Lemma xres_outs : forall items rs D Sr Ss, xres items rs D Sr Ss -> outs rs = outs_of D.
  Proof. induction 1; simpl; auto. unfold outs in *; simpl. f_equal; auto. Qed.
  Lemma xres_reruns : forall items rs D Sr Ss, xres items rs D Sr Ss -> reruns rs = map t_key Sr.
  Proof. induction 1; simpl; auto. unfold reruns in *; simpl. f_equal; auto. Qed.
  Lemma xres_subcps : forall items rs D Sr Ss, xres items rs D Sr Ss -> subcps rs = sub_cps Ss.
  Proof. induction 1; simpl; auto. unfold subcps in *; simpl. f_equal; auto. Qed.
  Lemma xres_no_fail : forall items rs D Sr Ss, xres items rs D Sr Ss -> first_fail rs = None.
  Proof. unfold first_fail. induction 1; simpl; auto. Qed.
  Lemma xres_perm : forall items rs D Sr Ss, xres items rs D Sr Ss ->
    Permutation (D ++ Sr ++ map si_t Ss) (map it_task items).
  Proof.
    induction 1; simpl; auto.
    - apply Permutation_sym. apply Permutation_cons_app. apply Permutation_sym. exact IHxres.
    - apply Permutation_sym. rewrite app_assoc. apply Permutation_cons_app. rewrite <- app_assoc.
      apply Permutation_sym. exact IHxres.
  Qed.
  Lemma xres_rerunnable : forall items rs D Sr Ss, xres items rs D Sr Ss -> Forall (fun t => rerunnable (t_key t)) Sr.
  Proof. induction 1; auto. Qed.
  Lemma xres_susp : forall items rs D Sr Ss, xres items rs D Sr Ss ->
    Forall (fun s => Susp (si_key s) (t_in (si_t s)) (si_c s) (si_L s)) Ss.
  Proof. induction 1; auto. Qed.
  Lemma xres_length : forall items rs D Sr Ss, xres items rs D Sr Ss -> List.length rs = List.length items.
  Proof. induction 1; simpl; auto. Qed.

  Definition rsU_of (ts' : list taskT) : list (N * texecT) :=
    map (fun t => (t_key t, TDone (bodyd (t_key t) (t_in t)))) ts'.

  Lemma xres_all_done_gen : forall items rs D Sr Ss, xres items rs D Sr Ss -> Sr = [] -> Ss = [] ->
    D = map it_task items /\ rs = rsU_of D.
  Proof.
    induction 1; intros H1 H2; simpl; auto; try discriminate.
    destruct (IHxres H1 H2) as [-> ->]. auto.
  Qed.

  Definition head_ev (it : item) (r : texecT) : eventT :=
    {| ev_key := t_key (it_sub it); ev_in := t_in (it_sub it); ev_abort := is_rerun r; ev_skip := t_skip (it_sub it) |}.

  Lemma head_ev_good : forall it r, fresh_task (it_task it) -> is_rerun r = false ->
    Permutation (it_oldev it ++ good [head_ev it r]) [ev_of (it_task it)].
  Proof.
    intros it r [Hsk _] Hr. destruct it as [t|t c L]; cbn [it_oldev it_task it_sub] in *.
    - unfold good, head_ev, ev_of. simpl. rewrite Hr, Hsk. simpl. apply Permutation_refl.
    - unfold good, head_ev. simpl. rewrite Hr. simpl. apply Permutation_refl.
  Qed.

  Lemma events_of_cons : forall (t : taskT) ts (r : N * texecT) rs,
    events_of (t :: ts) (r :: rs) =
    {| ev_key := t_key t; ev_in := t_in t; ev_abort := is_rerun (snd r); ev_skip := t_skip t |} :: events_of ts rs.
  Proof. reflexivity. Qed.

  Lemma xres_events : forall items rs D Sr Ss, xres items rs D Sr Ss ->
    Forall (fun it => fresh_task (it_task it)) items ->
    Permutation (flat_map it_oldev items ++ good (events_of (map it_sub items) rs)) (evs D ++ evs (map si_t Ss)).
  Proof.
    induction 1; intros Hf; cbn [map flat_map]; try rewrite events_of_cons; cbn [snd].
    - simpl. constructor.
    - inversion Hf as [|? ? Hf1 Hf2]; subst.
      change (good (?e :: ?l)) with (good ([e] ++ l)). rewrite good_app.
      change (evs (it_task it :: D)) with ([ev_of (it_task it)] ++ evs D). rewrite <- !app_assoc.
      apply perm_acc_r; auto. apply (head_ev_good it (TDone (bodyd (t_key (it_task it)) (t_in (it_task it))))); auto.
    - inversion Hf as [|? ? Hf1 Hf2]; subst. cbn [it_oldev app].
      change (good (?e :: ?l)) with (good ([e] ++ l)). rewrite good_app.
      unfold good at 1. cbn [filter ev_abort is_rerun negb andb app]. auto.
    - inversion Hf as [|? ? Hf1 Hf2]; subst.
      change (good (?e :: ?l)) with (good ([e] ++ l)). rewrite good_app.
      cbn [map si_t]. change (evs (it_task it :: ?l)) with ([ev_of (it_task it)] ++ evs l).
      rewrite <- !app_assoc.
      eapply Permutation_trans; [|apply perm_swap_mid].
      apply perm_acc_r; auto. apply (head_ev_good it (TSub c i)); auto.
  Qed.

  (* ---------------------------------------------------------------- *)
  (* what a step decides                                                *)
  (* ---------------------------------------------------------------- *)
  Definition finish (bf ha : list N) (gs1 : GS) (r : res (CS * list (N * V))) : @sres V CS GS SCP SINFO :=
    match r with
    | Ok (cs2, ready) =>
      match nlist_get kEnd ready with
      | Some v => Done v
      | None =>
        if is_nil (hits bf ready) && is_nil ha then
          Continue {| ls_cs := cs2; ls_next := map mk_task ready; ls_gs := gs1 |}
        else
          match calc fold getr cs2 [] with
          | Ok (cs4, ready2) =>
            match nlist_get kEnd ready2 with
            | Some v => Done v
            | None => plain_interrupt cs4 gs1 (ready ++ ready2) (hits bf ready ++ hits bf ready2) ha
            end
          | r' => Failed (chan_err r')
          end
      end
    | r' => Failed (chan_err r')
    end.

  Lemma decide_all_done : forall bf af cs (gs1 : GS) (rs : list (N * texecT)),
    first_fail rs = None -> subcps rs = [] -> reruns rs = [] -> rs <> [] ->
    decide zero fold getr bf af cs gs1 rs = finish bf (afters af rs) gs1 (calc fold getr cs (outs rs)).
  Proof.
    intros bf af cs gs1 rs Hf Hs Hr Hn. unfold decide, finish. rewrite Hf, Hs, Hr.
    assert (is_nil rs = false) as Hnil by (destruct rs; [congruence|reflexivity]).
    cbn [is_nil negb andb]. rewrite Hnil.
    destruct (calc fold getr cs (outs rs)) as [[cs2 ready]| |]; reflexivity.
  Qed.

  (* the checkpoint of a step in which some bodies have not completed *)
  Definition mid_cp (csD : CS) (gs1 : GS) (Sr : list taskT) (Ss : list sitem) : cptT :=
    {| cp_cs := csD;
       cp_inputs := map (fun s => (si_key s, zero)) Ss ++ map (fun t => (t_key t, zero)) Sr;
       cp_gs := gs1; cp_skip := map si_key Ss; cp_subs := sub_cps Ss |}.

  Lemma decide_susp : forall cs (gs1 : GS) items rs D Sr Ss csD,
    xres items rs D Sr Ss -> (Sr <> [] \/ Ss <> []) -> fold cs (outs_of D) = Ok csD ->
    exists i, decideR cs gs1 rs = Interrupted i (mid_cp csD gs1 Sr Ss).
  Proof.
    intros cs gs1 items rs D Sr Ss csD Hx HS Hf. unfold decide.
    rewrite (xres_no_fail _ _ _ _ _ Hx), (xres_subcps _ _ _ _ _ Hx), (xres_reruns _ _ _ _ _ Hx).
    assert (Hnil : negb (is_nil (sub_cps Ss) && is_nil (map t_key Sr)) = true).
    { destruct HS as [HS|HS]; [destruct Sr|destruct Ss]; try congruence; simpl; auto.
      destruct (is_nil (sub_cps Ss)); reflexivity. }
    rewrite Hnil.
    unfold rerun_interrupt. rewrite (xres_outs _ _ _ _ _ Hx), Hf.
    rewrite (xres_subcps _ _ _ _ _ Hx), (xres_reruns _ _ _ _ _ Hx).
    eexists. unfold mid_cp, sub_cps. simpl. rewrite !map_map. simpl. reflexivity.
  Qed.

  (* ---------------------------------------------------------------- *)
  (* the channel layer                                                  *)
  (* ---------------------------------------------------------------- *)
  Lemma calc_facts : forall cs l cs2 ready,
    J cs (map fst l) -> calc fold getr cs l = Ok (cs2, ready) ->
    J cs2 (map fst ready) /\ calc fold getr cs2 [] = Ok (cs2, []) /\ NoDup (map fst ready).
  Proof.
    unfold calc; intros cs l cs2 ready Hj H.
    destruct (fold cs l) as [cs1| |] eqn:Hf; simpl in H; try discriminate.
    assert (Hj1 : J cs1 []) by (apply (H_fold_J cs l [] cs1); [rewrite app_nil_r; exact Hj|exact Hf]).
    pose proof (H_getr_J _ _ _ Hj1 H) as Hj2. split; [exact Hj2|]. split.
    - rewrite (H_fold_nil _ _ Hj2). simpl. exact (H_getr_idem _ _ _ Hj1 H).
    - exact (H_getr_nodup _ _ _ Hj1 H).
  Qed.

  Definition WF (s : lstateT) : Prop :=
    J (ls_cs s) (map t_key (ls_next s)) /\ fresh_state s /\ NoDup (map t_key (ls_next s)) /\ GOK (ls_gs s).

  Lemma hits_nil' : forall ready : list (N * V), hits [] ready = [].
  Proof. unfold hits; intros; induction (map fst ready); simpl; auto. Qed.

  Lemma save_mk : forall (cs : CS) (gs : GS) (ready : list (N * V)),
    ({| cp_cs := cs; cp_inputs := ready; cp_gs := gs; cp_skip := []; cp_subs := [] |} : cptT)
    = save {| ls_cs := cs; ls_next := map (@mk_task V SCP) ready; ls_gs := gs |}.
  Proof.
    intros; unfold save; simpl. rewrite map_map; simpl. f_equal.
    induction ready as [|[k v] l IH]; simpl; congruence.
  Qed.

  Lemma mk_task_keys : forall ready : list (N * V), map t_key (map (@mk_task V SCP) ready) = map fst ready.
  Proof. intros; rewrite map_map; reflexivity. Qed.

  (* the loop states of the interrupted run: the state of the uninterrupted run up to [geq] *)
  Definition seqv (sR sU : lstateT) : Prop :=
    ls_cs sR = ls_cs sU /\ ls_next sR = ls_next sU /\ geq (ls_gs sR) (ls_gs sU).

  Lemma finish_sim : forall cs l (gU gR : GS) ha,
    J cs (map fst l) -> GOK gU -> geq gR gU ->
    match finish [] [] gU (calc fold getr cs l) with
    | Continue s' =>
        WF s' /\ exists sR', seqv sR' s' /\ fresh_state sR' /\
        (finish before ha gR (calc fold getr cs l) = Continue sR' \/
         exists hb, finish before ha gR (calc fold getr cs l) = Interrupted (plain_info gR hb ha) (save sR'))
    | Done v => finish before ha gR (calc fold getr cs l) = Done v
    | Failed e => finish before ha gR (calc fold getr cs l) = Failed e
    | Interrupted _ _ => False
    end.
  Proof.
    intros cs l gU gR ha Hj Hg Hge. unfold finish.
    destruct (calc fold getr cs l) as [[cs2 ready]| |] eqn:Hc; auto.
    destruct (nlist_get kEnd ready) eqn:He; auto.
    rewrite hits_nil'. simpl.
    destruct (calc_facts _ _ _ _ Hj Hc) as (Hj2 & Hc2 & Hnd).
    split.
    { split; [simpl; rewrite mk_task_keys; exact Hj2|]. split; [apply map_mk_task_fresh|]. split; [|exact Hg].
      simpl. rewrite mk_task_keys. exact Hnd. }
    exists {| ls_cs := cs2; ls_next := map mk_task ready; ls_gs := gR |}.
    split; [split; [reflexivity|split; [reflexivity|exact Hge]]|]. split; [apply map_mk_task_fresh|].
    destruct (is_nil (hits before ready) && is_nil ha); auto.
    right. rewrite Hc2. simpl. rewrite !app_nil_r.
    exists (hits before ready). unfold plain_interrupt, plain_info. rewrite save_mk. reflexivity.
  Qed.

  Lemma run_pres_geq : forall (ts : list taskT) a b, geq a b ->
    fst (run_pres pre ts a) = fst (run_pres pre ts b) /\ geq (snd (run_pres pre ts a)) (snd (run_pres pre ts b)).
  Proof.
    induction ts as [|t ts IH]; intros a b Hab; simpl; auto.
    destruct (t_skip t).
    - destruct (IH a b Hab) as [E1 E2].
      destruct (run_pres pre ts a) as [ra ga]; destruct (run_pres pre ts b) as [rb gb]; simpl in *. split; [congruence|exact E2].
    - destruct (H_pre_geq (t_key t) (t_in t) a b Hab) as [Ev Eg].
      destruct (pre (t_key t) (t_in t) a) as [va ga]; destruct (pre (t_key t) (t_in t) b) as [vb gb]; simpl in *.
      destruct (IH ga gb Eg) as [E1 E2].
      destruct (run_pres pre ts ga) as [ra ga']; destruct (run_pres pre ts gb) as [rb gb']; simpl in *. split; [congruence|exact E2].
  Qed.

  (* ---------------------------------------------------------------- *)
  (* one step of the uninterrupted run                                  *)
  (* ---------------------------------------------------------------- *)
  Definition subm (s : lstateT) : list taskT * GS := run_pres pre (ls_next s) (ls_gs s).

  Lemma run_pres_skips : forall ts gs, map t_skip (fst (run_pres pre ts gs)) = map (@t_skip V SCP) ts.
  Proof.
    induction ts as [|t ts IH]; intros gs; simpl; auto.
    destruct (if t_skip t then (t_in t, gs) else pre (t_key t) (t_in t) gs) as [v gs1].
    specialize (IH gs1). destruct (run_pres pre ts gs1) as [rest gs2]; simpl in *. f_equal; auto.
  Qed.

  Lemma Forall_map_eq : forall {A B} (f : A -> B) (b : B) (l l' : list A),
    map f l' = map f l -> Forall (fun a => f a = b) l -> Forall (fun a => f a = b) l'.
  Proof.
    intros A B f b l l'. revert l. induction l' as [|a l' IH]; intros [|a0 l] Hm Hf; simpl in *; try discriminate; auto.
    inversion Hm as [[Ha Hl]]. inversion Hf as [|? ? Hb Hf']; subst. constructor; [congruence|eauto].
  Qed.

  Lemma subm_fresh : forall s, fresh_state s -> Forall fresh_task (fst (subm s)).
  Proof.
    intros s Hf. unfold subm, fresh_state, fresh_task in *.
    pose proof (run_pres_skips (ls_next s) (ls_gs s)) as Hs.
    pose proof (run_pres_cps pre (ls_next s) (ls_gs s)) as Hc.
    assert (H1 : Forall (fun t : taskT => t_skip t = false) (fst (run_pres pre (ls_next s) (ls_gs s)))).
    { eapply Forall_map_eq; eauto. eapply Forall_impl; [|exact Hf]. intros a [? ?]; auto. }
    assert (H2 : Forall (fun t : taskT => t_cp t = None) (fst (run_pres pre (ls_next s) (ls_gs s)))).
    { eapply Forall_map_eq; eauto. eapply Forall_impl; [|exact Hf]. intros a [? ?]; auto. }
    rewrite Forall_forall in *. intros t Ht; split; auto.
  Qed.

  Lemma subm_keys : forall s, map t_key (fst (subm s)) = map t_key (ls_next s).
  Proof. intros; apply run_pres_keys. Qed.

  Lemma run_pres_ok : forall (ts : list taskT) gs, GOK gs -> GOK (snd (run_pres pre ts gs)).
  Proof.
    induction ts as [|t ts IH]; intros gs Hg; simpl; auto.
    destruct (t_skip t).
    - specialize (IH gs Hg). destruct (run_pres pre ts gs); simpl in *; auto.
    - pose proof (H_pre_ok (t_key t) (t_in t) gs Hg) as Hg1.
      destruct (pre (t_key t) (t_in t) gs) as [v gs1]; simpl in *.
      specialize (IH gs1 Hg1). destruct (run_pres pre ts gs1); simpl in *; auto.
  Qed.

  Lemma first_fail_done : forall k o (rs : list (N * texecT)), first_fail ((k, TDone o) :: rs) = first_fail rs.
  Proof. reflexivity. Qed.

  Lemma exec_all_U_cases : forall (ts : list taskT) e,
    (Forall defined ts /\ exec_all execU ts e = (rsU_of ts, tt)) \/
    first_fail (fst (exec_all execU ts e)) = Some eBody.
  Proof.
    induction ts as [|t ts IH]; intros e.
    - left. split; [constructor|]. destruct e; reflexivity.
    - assert (Hx0 : exec_all execU (t :: ts) e =
                    (let '(rest, e2) := exec_all execU ts tt in
                     ((t_key t, match body (t_key t) (t_in t) with Some o => TDone o | None => TFail eBody end) :: rest, e2)))
        by reflexivity.
      rewrite Hx0. clear Hx0.
      destruct (IH tt) as [[Hd Hx]|Hff].
      + rewrite Hx. destruct (body (t_key t) (t_in t)) as [o|] eqn:Hb.
        * left. split; [constructor; [exists o; exact Hb|exact Hd]|].
          cbn [rsU_of map]. unfold bodyd. rewrite Hb. reflexivity.
        * right. reflexivity.
      + right. destruct (exec_all execU ts tt) as [rest e2]. cbn [fst] in *.
        destruct (body (t_key t) (t_in t)); [rewrite first_fail_done; exact Hff|reflexivity].
  Qed.

  Lemma rsU_facts : forall ts' : list taskT,
    first_fail (rsU_of ts') = None /\ subcps (rsU_of ts') = [] /\ reruns (rsU_of ts') = [] /\
    outs (rsU_of ts') = outs_of ts'.
  Proof.
    induction ts' as [|t ts IH]; simpl; auto.
    destruct IH as (H1 & H2 & H3 & H4). unfold first_fail, subcps, reruns, outs in *; simpl.
    repeat split; auto. rewrite H4; reflexivity.
  Qed.

  Lemma events_U : forall ts' : list taskT, Forall fresh_task ts' -> events_of ts' (rsU_of ts') = evs ts'.
  Proof.
    induction ts' as [|t ts IH]; intros Hf; simpl; auto. inversion Hf as [|? ? [Hsk _] Hf']; subst.
    rewrite IH by assumption. unfold ev_of at 1. rewrite Hsk. reflexivity.
  Qed.

  Lemma afters_nil' : forall rs : list (N * texecT), afters [] rs = [].
  Proof. unfold afters; intros; induction (map fst (outs rs)); simpl; auto. Qed.

  (* the step of the uninterrupted run at a state from which it goes on to complete *)
  Lemma stepU_done : forall f (sU : lstateT) vU lU,
    fresh_state sU -> iterU (S f) sU tt [] = (ODone vU, lU, tt) ->
    Forall defined (fst (subm sU)) /\ fst (subm sU) <> [] /\
    match finish [] [] (snd (subm sU)) (calc fold getr (ls_cs sU) (outs_of (fst (subm sU)))) with
    | Continue s' => exists l', iterU f s' tt [] = (ODone vU, l', tt) /\ lU = evs (fst (subm sU)) ++ l'
    | Done v => v = vU /\ lU = evs (fst (subm sU))
    | _ => False
    end.
  Proof.
    intros f sU vU lU Hfr HU. pose proof (subm_fresh sU Hfr) as Hfs.
    cbn [iterate] in HU. unfold step in HU. fold (subm sU) in HU.
    destruct (subm sU) as [ts' gs1] eqn:Esub. cbn [fst snd] in *.
    destruct (exec_all_U_cases ts' tt) as [[Hd Hx]|Hff].
    - rewrite Hx in HU. split; [exact Hd|].
      destruct (rsU_facts ts') as (H1 & H2 & H3 & H4). rewrite (events_U ts' Hfs) in HU.
      destruct ts' as [|t0 ts0] eqn:Ets.
      + exfalso. cbn in HU. discriminate.
      + rewrite <- Ets in *. split; [rewrite Ets; discriminate|].
        rewrite decide_all_done in HU; auto; [|rewrite Ets; simpl; discriminate].
        rewrite H4, afters_nil' in HU.
        destruct (finish [] [] gs1 (calc fold getr (ls_cs sU) (outs_of ts'))) as [s'|v|i c|e]; cbn in HU.
        * rewrite iterate_log0 in HU. destruct (iterU f s' tt []) as [[o l'] e]. destruct e.
          inversion HU; subst. eauto.
        * inversion HU; subst; auto.
        * discriminate.
        * discriminate.
    - exfalso. destruct (exec_all execU ts' tt) as [rs e1]. cbn [fst] in Hff.
      unfold decide in HU. rewrite Hff in HU. cbn in HU. discriminate.
  Qed.

  (* ---------------------------------------------------------------- *)
  (* the mid-step checkpoint                                            *)
  (* ---------------------------------------------------------------- *)
  Definition S_tasks (Sr : list taskT) (Ss : list sitem) : list taskT := map si_t Ss ++ Sr.
  Definition S_items (Sr : list taskT) (Ss : list sitem) : list item := map si_item Ss ++ map IFresh Sr.

  Record mid (c : cptT) (sU : lstateT) (D Sr : list taskT) (Ss : list sitem) : Prop := {
    mid_perm : Permutation (D ++ S_tasks Sr Ss) (fst (subm sU));
    mid_S : Sr <> [] \/ Ss <> [];
    mid_rr : Forall (fun t => rerunnable (t_key t)) Sr;
    mid_ss : Forall (fun s => Susp (si_key s) (t_in (si_t s)) (si_c s) (si_L s)) Ss;
    mid_cs : exists csD gR, fold (ls_cs sU) (outs_of D) = Ok csD /\ geq gR (snd (subm sU)) /\ c = mid_cp csD gR Sr Ss;
  }.

  (* what the store holds w.r.t. the uninterrupted run, the completed executions already logged and
     what has already been emitted for the step of the uninterrupted run that is under way *)
  Inductive rel (c : cptT) (sU : lstateT) : list eventT -> list X -> Prop :=
  | rel_plain : forall sR, seqv sR sU -> fresh_state sR -> c = save sR -> rel c sU [] []
  | rel_mid : forall D Sr Ss, mid c sU D Sr Ss ->
      rel c sU (evs D ++ evs (map si_t Ss)) (flat_map ttr D ++ flat_map si_L Ss).

  Definition seg_ok (vU : V) (lU : list eventT) (fuelU : nat) (credit : list eventT) (tcredit : list X) (e0 : ENV)
             (r : outcomeT * list eventT * ENV) : Prop :=
    let '(o, l, e1) := r in
    EOK e1 /\ exists Lnew, tr e1 = tr e0 ++ Lnew /\
    ((o = ODone vU /\ Permutation (credit ++ good l) lU /\ Permutation (tcredit ++ Lnew) (TU lU)) \/
     (exists i c sU' fuelU' lU1 lU2 credit' tcredit',
        o = OInterrupted i c /\ rel c sU' credit' tcredit' /\ WF sU' /\ (fuelU' <= fuelU)%nat /\
        iterU fuelU' sU' tt [] = (ODone vU, lU2, tt) /\ lU = lU1 ++ lU2 /\
        Permutation (credit ++ good l) (lU1 ++ credit') /\
        Permutation (tcredit ++ Lnew) (TU lU1 ++ tcredit'))).

  (* prefixing a step: the uninterrupted run made the step with events [uevs]; the interrupted run, with
     the credits it had, logged [pevs] and emitted [Lp] for it *)
  Lemma seg_ok_prefix : forall vU l' f credit tcredit uevs pevs Lp e0 em o l e,
    seg_ok vU l' f [] [] em (o, l, e) ->
    tr em = tr e0 ++ Lp ->
    Permutation (credit ++ good pevs) uevs ->
    Permutation (tcredit ++ Lp) (TU uevs) ->
    seg_ok vU (uevs ++ l') (S f) credit tcredit e0 (o, pevs ++ l, e).
  Proof.
    intros vU l' f credit tcredit uevs pevs Lp e0 em o l e H Htr Hp Htp. unfold seg_ok in *.
    destruct H as (He & Lnew & Htr2 & H). split; [exact He|].
    exists (Lp ++ Lnew). split; [rewrite Htr2, Htr, app_assoc; reflexivity|].
    rewrite good_app, TU_app.
    destruct H as [(Ho & Hl & Ht)|(i & c & sU' & fU' & lU1 & lU2 & cr' & tcr' & Ho & Hr & Hw & Hle & HU & Hl & Hpm & Htm)].
    - left. split; [exact Ho|]. simpl in Hl, Ht. split.
      + rewrite app_assoc. apply Permutation_app; auto.
      + rewrite app_assoc. apply Permutation_app; auto.
    - right. exists i, c, sU', fU', (uevs ++ lU1), lU2, cr', tcr'.
      split; [exact Ho|]. split; [exact Hr|]. split; [exact Hw|]. split; [lia|]. split; [exact HU|]. split.
      + subst l'. rewrite app_assoc. reflexivity.
      + simpl in Hpm, Htm. rewrite TU_app. split.
        * rewrite app_assoc, <- (app_assoc uevs). apply Permutation_app; auto.
        * rewrite app_assoc, <- (app_assoc (TU uevs)). apply Permutation_app; auto.
  Qed.

  Lemma nodup_perm_keys : forall A B : list taskT,
    Permutation A B -> NoDup (map t_key B) -> NoDup (map t_key A).
  Proof.
    intros A B Hp Hn. eapply Permutation_NoDup; [|exact Hn].
    apply Permutation_map. apply Permutation_sym. exact Hp.
  Qed.

  (* the whole fold of the step of the uninterrupted run, given a completed part D already folded *)
  Lemma fold_rest : forall cs ts' D S csD call,
    J cs (map t_key ts') -> NoDup (map t_key ts') -> Permutation (D ++ S) ts' ->
    fold cs (outs_of D) = Ok csD -> fold cs (outs_of ts') = Ok call ->
    fold csD (outs_of S) = Ok call.
  Proof.
    intros cs ts' D S csD call Hj Hn Hp Hf Hall.
    assert (Hj' : J cs (map fst (outs_of D) ++ map fst (outs_of S) ++ [])).
    { rewrite !outs_of_keys, app_nil_r, <- map_app. eapply H_J_perm; [|exact Hj].
      apply Permutation_map. apply Permutation_sym. exact Hp. }
    apply (H_fold_app cs (outs_of D) (outs_of S) [] csD call Hj' Hf). rewrite <- outs_of_app.
    apply (H_fold_perm cs (outs_of ts') (outs_of (D ++ S)) []); auto.
    - rewrite outs_of_keys, app_nil_r. exact Hj.
    - rewrite outs_of_keys. exact Hn.
    - apply perm_outs_of. apply Permutation_sym. exact Hp.
  Qed.

  Lemma fold_part : forall cs ts' D S call,
    J cs (map t_key ts') -> NoDup (map t_key ts') -> Permutation (D ++ S) ts' ->
    fold cs (outs_of ts') = Ok call -> exists csD, fold cs (outs_of D) = Ok csD.
  Proof.
    intros cs ts' D S call Hj Hn Hp Hall.
    assert (Hj' : J cs (map fst (outs_of D) ++ map fst (outs_of S) ++ [])).
    { rewrite !outs_of_keys, app_nil_r, <- map_app. eapply H_J_perm; [|exact Hj].
      apply Permutation_map. apply Permutation_sym. exact Hp. }
    apply (H_fold_prefix cs (outs_of D) (outs_of S) [] call Hj').
    rewrite <- outs_of_app.
    apply (H_fold_perm cs (outs_of ts') (outs_of (D ++ S)) []); auto.
    - rewrite outs_of_keys, app_nil_r. exact Hj.
    - rewrite outs_of_keys. exact Hn.
    - apply perm_outs_of. apply Permutation_sym. exact Hp.
  Qed.

  Lemma flat_old_fresh : forall ts : list taskT, flat_map it_old (map IFresh ts) = [].
  Proof. induction ts; simpl; auto. Qed.
  Lemma flat_oldev_fresh : forall ts : list taskT, flat_map it_oldev (map IFresh ts) = [].
  Proof. induction ts; simpl; auto. Qed.
  Lemma flat_old_cont : forall Ss, flat_map it_old (map si_item Ss) = flat_map si_L Ss.
  Proof. induction Ss; simpl; auto. f_equal; auto. Qed.
  Lemma flat_oldev_cont : forall Ss, flat_map it_oldev (map si_item Ss) = evs (map si_t Ss).
  Proof. induction Ss; simpl; auto. f_equal; auto. Qed.
  Lemma it_task_fresh : forall ts : list taskT, map it_task (map IFresh ts) = ts.
  Proof. induction ts; simpl; auto. f_equal; auto. Qed.
  Lemma it_sub_fresh : forall ts : list taskT, map it_sub (map IFresh ts) = ts.
  Proof. induction ts; simpl; auto. f_equal; auto. Qed.
  Lemma it_task_cont : forall Ss, map it_task (map si_item Ss) = map si_t Ss.
  Proof. induction Ss; simpl; auto. f_equal; auto. Qed.
  Lemma S_items_tasks : forall Sr Ss, map it_task (S_items Sr Ss) = S_tasks Sr Ss.
  Proof. intros; unfold S_items, S_tasks. rewrite map_app, it_task_cont, it_task_fresh. reflexivity. Qed.

  (* ---------------------------------------------------------------- *)
  (* the core: one step of the interrupted run on the pending items     *)
  (* ---------------------------------------------------------------- *)
  Lemma seg_core : forall f vU lU (sU sR : lstateT) D0 items cs1 gR1,
    (forall sU' sR' l', seqv sR' sU' -> WF sU' -> iterU f sU' tt [] = (ODone vU, l', tt) ->
       forall fR env, (f <= fR)%nat -> EOK env -> seg_ok vU l' f [] [] env (iterR fR sR' env [])) ->
    WF sU -> iterU (S f) sU tt [] = (ODone vU, lU, tt) ->
    Permutation (D0 ++ map it_task items) (fst (subm sU)) ->
    items <> [] -> Forall it_ok items ->
    fold (ls_cs sU) (outs_of D0) = Ok cs1 -> ls_cs sR = cs1 ->
    run_pres pre (ls_next sR) (ls_gs sR) = (map it_sub items, gR1) -> geq gR1 (snd (subm sU)) ->
    forall fR env, (f <= fR)%nat -> EOK env ->
      seg_ok vU lU (S f) (evs D0 ++ flat_map it_oldev items) (flat_map ttr D0 ++ flat_map it_old items) env
             (iterR (S fR) sR env []).
  Proof.
    intros f vU lU sU sR D0 items cs1 gR1 IH Hwf HU Hperm Hne Hok Hf0 Hcs Hsub HgR fR env Hle He.
    pose proof Hwf as (Hj & Hfr & Hnd & Hg).
    pose proof (subm_fresh sU Hfr) as Hfs.
    pose proof (run_pres_ok (ls_next sU) (ls_gs sU) Hg) as Hg1. fold (subm sU) in Hg1.
    destruct (stepU_done f sU vU lU Hfr HU) as (Hdef & Hnn & HfinU).
    set (ts' := fst (subm sU)) in *. set (gs1 := snd (subm sU)) in *.
    assert (Hnd' : NoDup (map t_key ts')) by (unfold ts'; rewrite subm_keys; exact Hnd).
    assert (Hj' : J (ls_cs sU) (map t_key ts')) by (unfold ts'; rewrite subm_keys; exact Hj).
    (* the uninterrupted step does not fail: the fold of all outputs succeeds *)
    assert (Hcalc : exists cs2 ready, calc fold getr (ls_cs sU) (outs_of ts') = Ok (cs2, ready)).
    { destruct (calc fold getr (ls_cs sU) (outs_of ts')) as [[cs2 ready]| |]; eauto; simpl in HfinU; destruct HfinU. }
    destruct Hcalc as (cs2 & ready & Hcalc).
    assert (Hfall : exists call, fold (ls_cs sU) (outs_of ts') = Ok call).
    { unfold calc in Hcalc. destruct (fold (ls_cs sU) (outs_of ts')); try discriminate. eauto. }
    destruct Hfall as (call & Hfall).
    (* the step of the interrupted run *)
    cbn [iterate]. unfold step. rewrite Hsub.
    destruct (exec_items items env He Hok) as (D & Sr & Ss & Lnew & Hx & He1 & Htr & Htp).
    destruct (exec_all execR (map it_sub items) env) as [rs env1]. cbn [fst snd] in *.
    rewrite Hcs.
    assert (Hfresh_items : Forall (fun it => fresh_task (it_task it)) items).
    { eapply Forall_impl; [|exact Hok]. intros it (_ & Hfi & _). exact Hfi. }
    pose proof (xres_events _ _ _ _ _ Hx Hfresh_items) as Hev.
    pose proof (xres_perm _ _ _ _ _ Hx) as Hpx.
    assert (HpD : Permutation ((D0 ++ D) ++ (Sr ++ map si_t Ss)) ts').
    { eapply Permutation_trans; [|exact Hperm]. rewrite <- app_assoc. apply Permutation_app_head. exact Hpx. }
    destruct (fold_part (ls_cs sU) ts' (D0 ++ D) (Sr ++ map si_t Ss) call Hj' Hnd' HpD Hfall) as (csD & HfD).
    assert (HfD1 : fold cs1 (outs_of D) = Ok csD).
    { apply (H_fold_app (ls_cs sU) (outs_of D0) (outs_of D) (map t_key (Sr ++ map si_t Ss)) cs1 csD); auto.
      - rewrite !outs_of_keys, app_assoc, <- !map_app. eapply H_J_perm; [|exact Hj'].
        apply Permutation_map. apply Permutation_sym. exact HpD.
      - rewrite <- outs_of_app. exact HfD. }
    destruct Sr as [|sr0 Sr0] eqn:ESr; [destruct Ss as [|ss0 Ss0] eqn:ESs|].
    - (* every pending body completed: the step of the uninterrupted run is complete *)
      destruct (xres_all_done_gen _ _ _ _ _ Hx eq_refl eq_refl) as [HD Hrs].
      destruct (rsU_facts D) as (H1 & H2 & H3 & H4).
      assert (HDne : D <> []) by (rewrite HD; destruct items; [congruence|simpl; discriminate]).
      rewrite Hrs. rewrite decide_all_done; auto; [|destruct D; [congruence|simpl; discriminate]].
      rewrite H4.
      simpl in HpD. rewrite app_nil_r in HpD.
      assert (Hcall : fold cs1 (outs_of D) = Ok call).
      { apply (fold_rest (ls_cs sU) ts' D0 D cs1 call); auto. }
      assert (Hceq : calc fold getr cs1 (outs_of D) = calc fold getr (ls_cs sU) (outs_of ts'))
        by (unfold calc; rewrite Hcall, Hfall; reflexivity).
      rewrite Hceq.
      assert (Hjl : J (ls_cs sU) (map fst (outs_of ts'))) by (rewrite outs_of_keys; exact Hj').
      pose proof (finish_sim (ls_cs sU) (outs_of ts') gs1 gR1 (afters after (rsU_of D)) Hjl Hg1 HgR) as Hsim.
      simpl in Hev, Htp. rewrite app_nil_r in Hev, Htp.
      assert (Hpe : Permutation ((evs D0 ++ flat_map it_oldev items) ++ good (events_of (map it_sub items) (rsU_of D))) (evs ts')).
      { rewrite <- Hrs. rewrite <- app_assoc. eapply Permutation_trans; [apply Permutation_app_head; exact Hev|].
        rewrite <- evs_app. apply perm_evs. exact HpD. }
      assert (Hpt : Permutation ((flat_map ttr D0 ++ flat_map it_old items) ++ Lnew) (TU (evs ts'))).
      { rewrite <- app_assoc. eapply Permutation_trans; [apply Permutation_app_head; exact Htp|].
        rewrite TU_evs, <- flat_map_app. apply perm_flat_map. exact HpD. }
      destruct (finish [] [] gs1 (calc fold getr (ls_cs sU) (outs_of ts'))) as [s'|v|i c0|e] eqn:HfU;
        try (destruct HfinU; fail).
      + destruct HfinU as (l' & HU' & ->).
        destruct Hsim as (Hwf' & sR' & Hsq & HfrR & [HR|[hb HR]]); rewrite HR; cbn [app].
        * rewrite iterate_log0.
          pose proof (IH s' sR' l' Hsq Hwf' HU' fR env1 Hle He1) as Hseg.
          destruct (iterR fR sR' env1 []) as [[o l] e].
          eapply seg_ok_prefix; eauto.
        * split; [exact He1|]. exists Lnew. split; [exact Htr|].
          right. exists (plain_info gR1 hb (afters after (rsU_of D))), (save sR'), s', f, (evs ts'), l', [], [].
          split; [reflexivity|]. split; [apply (rel_plain _ _ sR'); auto|]. split; [exact Hwf'|].
          split; [lia|]. split; [exact HU'|]. split; [reflexivity|].
          rewrite !app_nil_r. split; [exact Hpe|exact Hpt].
      + destruct HfinU as (-> & ->). rewrite Hsim. cbn [app].
        split; [exact He1|]. exists Lnew. split; [exact Htr|]. left. split; [reflexivity|]. split; [exact Hpe|exact Hpt].
    - (* some bodies are suspended: mid-step checkpoint *)
      rewrite <- ESs in *. assert (HS : @nil taskT <> [] \/ Ss <> []) by (right; rewrite ESs; discriminate).
      destruct (decide_susp cs1 gR1 items rs D [] Ss csD Hx HS HfD1) as (i & Hd).
      rewrite Hd. cbn [app].
      split; [exact He1|]. exists Lnew. split; [exact Htr|].
      right. exists i, (mid_cp csD gR1 [] Ss), sU, (Datatypes.S f), [], lU, (evs (D0 ++ D) ++ evs (map si_t Ss)),
               (flat_map ttr (D0 ++ D) ++ flat_map si_L Ss).
      split; [reflexivity|]. split.
      { apply (rel_mid _ _ (D0 ++ D) [] Ss). constructor; auto.
        - unfold S_tasks. rewrite app_nil_r. simpl in HpD. exact HpD.
        - eapply xres_susp; eauto.
        - exists csD, gR1. split; [exact HfD|]. split; [exact HgR|reflexivity]. }
      split; [exact Hwf|]. split; [lia|]. split; [exact HU|]. split; [reflexivity|].
      cbn [app TU flat_map]. split.
      + rewrite <- app_assoc. rewrite evs_app, <- app_assoc. apply Permutation_app_head. exact Hev.
      + rewrite <- app_assoc. rewrite flat_map_app, <- app_assoc. apply Permutation_app_head. exact Htp.
    - (* some bodies ask for a rerun (and maybe some are suspended) *)
      rewrite <- ESr in *. assert (HS : Sr <> [] \/ Ss <> []) by (left; rewrite ESr; discriminate).
      destruct (decide_susp cs1 gR1 items rs D Sr Ss csD Hx HS HfD1) as (i & Hd).
      rewrite Hd. cbn [app].
      split; [exact He1|]. exists Lnew. split; [exact Htr|].
      right. exists i, (mid_cp csD gR1 Sr Ss), sU, (Datatypes.S f), [], lU, (evs (D0 ++ D) ++ evs (map si_t Ss)),
               (flat_map ttr (D0 ++ D) ++ flat_map si_L Ss).
      split; [reflexivity|]. split.
      { apply (rel_mid _ _ (D0 ++ D) Sr Ss). constructor; auto.
        - unfold S_tasks. eapply Permutation_trans; [|exact HpD]. apply Permutation_app_head. apply Permutation_app_comm.
        - eapply xres_rerunnable; eauto.
        - eapply xres_susp; eauto.
        - exists csD, gR1. split; [exact HfD|]. split; [exact HgR|reflexivity]. }
      split; [exact Hwf|]. split; [lia|]. split; [exact HU|]. split; [reflexivity|].
      cbn [app TU flat_map]. split.
      + rewrite <- app_assoc. rewrite evs_app, <- app_assoc. apply Permutation_app_head. exact Hev.
      + rewrite <- app_assoc. rewrite flat_map_app, <- app_assoc. apply Permutation_app_head. exact Htp.
  Qed.

  Lemma fresh_items_ok : forall ts : list taskT, Forall defined ts -> Forall fresh_task ts -> Forall it_ok (map IFresh ts).
  Proof.
    induction ts as [|t ts IH]; intros Hd Hf; simpl; constructor.
    - inversion Hd; inversion Hf; subst. split; [assumption|]. split; [assumption|exact I].
    - inversion Hd; inversion Hf; subst. apply IH; auto.
  Qed.

  (* ---------------------------------------------------------------- *)
  (* a segment that starts at a loop state of the uninterrupted run     *)
  (* ---------------------------------------------------------------- *)
  Lemma seg_plain : forall fuelU (sU sR : lstateT) vU lU,
    seqv sR sU -> WF sU -> iterU fuelU sU tt [] = (ODone vU, lU, tt) ->
    forall fuelR env, (fuelU <= fuelR)%nat -> EOK env -> seg_ok vU lU fuelU [] [] env (iterR fuelR sR env []).
  Proof.
    induction fuelU as [|f IH]; intros sU sR vU lU Hsq Hwf HU fuelR env Hle He.
    { simpl in HU. discriminate. }
    destruct fuelR as [|fR]; [lia|].
    pose proof Hwf as (Hj & Hfr & Hnd & Hg).
    pose proof (subm_fresh sU Hfr) as Hfs.
    destruct (stepU_done f sU vU lU Hfr HU) as (Hdef & Hnn & _).
    destruct Hsq as (Ecs & Enext & Egs).
    destruct (run_pres_geq (ls_next sU) (ls_gs sR) (ls_gs sU) Egs) as [Ets Eg1].
    pose proof (seg_core f vU lU sU sR [] (map IFresh (fst (subm sU))) (ls_cs sU)
                  (snd (run_pres pre (ls_next sU) (ls_gs sR)))) as Hc.
    rewrite flat_old_fresh, flat_oldev_fresh in Hc. cbn [app evs map flat_map] in Hc.
    apply Hc; auto.
    - intros sU' sR' l' Hsq' Hwf' HU' fR' env' Hle' He'. eapply IH; eauto.
    - rewrite it_task_fresh. apply Permutation_refl.
    - destruct (fst (subm sU)); [congruence|simpl; discriminate].
    - apply fresh_items_ok; auto.
    - eapply H_fold_nil; eauto.
    - rewrite it_sub_fresh, Enext. unfold subm. rewrite <- Ets.
      destruct (run_pres pre (ls_next sU) (ls_gs sR)); reflexivity.
    - lia.
  Qed.

  (* ---------------------------------------------------------------- *)
  (* a segment resumed from a mid-step checkpoint                       *)
  (* ---------------------------------------------------------------- *)
  Lemma run_pres_app : forall (a b : list taskT) gs,
    run_pres pre (a ++ b) gs =
    let '(ra, g1) := run_pres pre a gs in let '(rb, g2) := run_pres pre b g1 in (ra ++ rb, g2).
  Proof.
    induction a as [|t a IH]; intros b gs; simpl.
    - destruct (run_pres pre b gs); reflexivity.
    - destruct (if t_skip t then (t_in t, gs) else pre (t_key t) (t_in t) gs) as [v gs1].
      rewrite IH. destruct (run_pres pre a gs1) as [ra g1]. destruct (run_pres pre b g1) as [rb g2]. reflexivity.
  Qed.

  Definition restored (c : cptT) (kv : N * V) : taskT :=
    {| t_key := fst kv; t_in := snd kv; t_skip := memN (fst kv) (cp_skip c); t_cp := nlist_get (fst kv) (cp_subs c) |}.

  Lemma memN_in : forall k l, memN k l = true <-> In k l.
  Proof.
    intros k l. unfold memN. rewrite existsb_exists. split.
    - intros (x & Hx & He). apply N.eqb_eq in He. subst. exact Hx.
    - intros H. exists k. split; auto. apply N.eqb_refl.
  Qed.

  Lemma memN_notin : forall k l, ~ In k l -> memN k l = false.
  Proof. intros k l H. destruct (memN k l) eqn:E; auto. apply memN_in in E. contradiction. Qed.

  Lemma nlist_get_notin : forall {A} k (l : list (N * A)), ~ In k (map fst l) -> nlist_get k l = None.
  Proof.
    induction l as [|[k0 a] l IH]; simpl; intros H; auto.
    destruct (N.eqb k k0) eqn:E; [apply N.eqb_eq in E; subst; tauto|]. apply IH. tauto.
  Qed.

  (* the suspended bodies of a checkpoint are handed their residual and skip their pre-handler *)
  Lemma run_pres_cont : forall c (Ss : list sitem) gs,
    (forall s, In s Ss -> memN (si_key s) (cp_skip c) = true /\ nlist_get (si_key s) (cp_subs c) = Some (si_c s)) ->
    run_pres pre (map (restored c) (map (fun s => (si_key s, zero)) Ss)) gs = (map it_sub (map si_item Ss), gs).
  Proof.
    induction Ss as [|s Ss IH]; intros gs H; simpl; auto.
    destruct (H s (or_introl eq_refl)) as [H1 H2]. rewrite H1. rewrite IH by (intros; apply H; right; auto).
    rewrite H2. reflexivity.
  Qed.

  (* the nodes that asked for a rerun run their pre-handler again, which rebuilds their input *)
  Lemma run_pres_rerun : forall c (Sr : list taskT) gs1 g,
    (forall t, In t Sr -> memN (t_key t) (cp_skip c) = false /\ nlist_get (t_key t) (cp_subs c) = None) ->
    (forall t, In t Sr -> pre (t_key t) zero gs1 = (t_in t, gs1)) -> Forall fresh_task Sr -> geq g gs1 ->
    exists g', run_pres pre (map (restored c) (map (fun t => (t_key t, zero)) Sr)) g = (Sr, g') /\ geq g' gs1.
  Proof.
    induction Sr as [|t Sr IH]; intros gs1 g H Hp Hf Hg; simpl.
    - exists g. auto.
    - inversion Hf as [|? ? [Hs Hc] Hf']; subst.
      destruct (H t (or_introl eq_refl)) as [H1 H2]. rewrite H1, H2.
      destruct (H_pre_geq (t_key t) zero g gs1 Hg) as [Ev Eg]. rewrite (Hp t (or_introl eq_refl)) in Ev, Eg. simpl in Ev, Eg.
      destruct (pre (t_key t) zero g) as [v g1]. simpl in Ev, Eg. subst v.
      destruct (IH gs1 g1) as (g' & Hr & Hg'); auto.
      + intros; apply H; right; auto.
      + intros; apply Hp; right; auto.
      + rewrite Hr. exists g'. split; [|exact Hg']. f_equal. f_equal.
        destruct t as [k i sk cp]; simpl in *; subst; reflexivity.
  Qed.

  Lemma sub_cps_get : forall Ss s, NoDup (map si_key Ss) -> In s Ss -> nlist_get (si_key s) (sub_cps Ss) = Some (si_c s).
  Proof.
    induction Ss as [|s0 Ss IH]; intros s Hn Hin; [destruct Hin|].
    inversion Hn as [|? ? Hnot Hn']; subst. simpl.
    destruct Hin as [->|Hin].
    - rewrite N.eqb_refl. reflexivity.
    - destruct (N.eqb (si_key s) (si_key s0)) eqn:E.
      + apply N.eqb_eq in E. exfalso. apply Hnot. rewrite <- E. apply in_map. exact Hin.
      + apply IH; auto.
  Qed.

  Lemma sub_cps_keys : forall Ss, map fst (sub_cps Ss) = map si_key Ss.
  Proof. intros; unfold sub_cps; rewrite map_map; reflexivity. Qed.

  Lemma nodup_app_parts : forall {A} (a b : list A), NoDup (a ++ b) ->
    NoDup a /\ NoDup b /\ (forall x, In x a -> ~ In x b).
  Proof.
    induction a as [|x a IH]; simpl; intros b H.
    - split; [constructor|]. split; auto.
    - inversion H as [|? ? Hnot Hn]; subst. destruct (IH b Hn) as (Ha & Hb & Hd).
      split; [constructor; auto; intro Hi; apply Hnot; apply in_or_app; auto|]. split; auto.
      intros y [<-|Hy]; [intro Hi; apply Hnot; apply in_or_app; auto|auto].
  Qed.

  Lemma seg_mid : forall fuelU (sU : lstateT) vU lU c D Sr Ss sm,
    (forall g, geq (sm g) g) ->
    WF sU -> mid c sU D Sr Ss -> iterU fuelU sU tt [] = (ODone vU, lU, tt) ->
    forall fuelR env, (fuelU <= fuelR)%nat -> EOK env ->
      seg_ok vU lU fuelU (evs D ++ evs (map si_t Ss)) (flat_map ttr D ++ flat_map si_L Ss) env
             (resumeR fuelR sm c env).
  Proof.
    intros fuelU sU vU lU c D Sr Ss sm Hsm Hwf Hm HU fuelR env Hle He.
    destruct fuelU as [|f]; [simpl in HU; discriminate|].
    destruct fuelR as [|fR]; [lia|].
    pose proof Hwf as (Hj & Hfr & Hnd & Hg).
    pose proof (subm_fresh sU Hfr) as Hfs.
    destruct (stepU_done f sU vU lU Hfr HU) as (Hdef & Hnn & _).
    destruct Hm as [Hperm HS Hrr Hss (csD & gR & HfD & HgR & ->)].
    set (ts' := fst (subm sU)) in *. set (gs1 := snd (subm sU)) in *.
    assert (Hnd' : NoDup (map t_key ts')) by (unfold ts'; rewrite subm_keys; exact Hnd).
    assert (HndS : NoDup (map si_key Ss ++ map t_key Sr)).
    { pose proof (nodup_perm_keys _ _ Hperm Hnd') as H0. rewrite map_app in H0.
      apply nodup_app_parts in H0 as (_ & H0 & _). unfold S_tasks in H0. rewrite map_app, map_map in H0. exact H0. }
    destruct (nodup_app_parts _ _ HndS) as (HndSs & HndSr & Hdisj).
    assert (HinS : forall t, In t (S_tasks Sr Ss) -> In t ts').
    { intros t Ht. eapply Permutation_in; [exact Hperm|]. apply in_or_app; auto. }
    assert (HfS : Forall fresh_task (S_tasks Sr Ss)).
    { rewrite Forall_forall in *. intros t Ht. apply Hfs. auto. }
    assert (HdS : Forall defined (S_tasks Sr Ss)).
    { rewrite Forall_forall in *. intros t Ht. apply Hdef. auto. }
    assert (Hreb : forall t, In t Sr -> pre (t_key t) zero gs1 = (t_in t, gs1)).
    { intros t Ht. unfold gs1, subm. apply H_rebuild; auto.
      - apply HinS. unfold S_tasks. apply in_or_app; auto.
      - rewrite Forall_forall in Hrr. auto. }
    unfold resume. cbv beta zeta.
    set (sR := with_gs (restore (mid_cp csD gR Sr Ss)) (sm (ls_gs (restore (mid_cp csD gR Sr Ss))))).
    assert (Hsmg : geq (sm gR) gs1) by (eapply H_geq_trans; [apply Hsm|exact HgR]).
    assert (Hsub : exists gR1, run_pres pre (ls_next sR) (ls_gs sR) = (map it_sub (S_items Sr Ss), gR1) /\ geq gR1 gs1).
    { unfold sR, restore, with_gs, mid_cp. cbn [ls_next ls_gs cp_inputs cp_gs cp_skip cp_subs].
      rewrite map_app.
      change (fun kv : N * V => {| t_key := fst kv; t_in := snd kv; t_skip := memN (fst kv) (map si_key Ss);
                                   t_cp := nlist_get (fst kv) (sub_cps Ss) |})
        with (restored (mid_cp csD gR Sr Ss)).
      rewrite run_pres_app.
      rewrite (run_pres_cont (mid_cp csD gR Sr Ss) Ss (sm gR)).
      - destruct (run_pres_rerun (mid_cp csD gR Sr Ss) Sr gs1 (sm gR)) as (g' & Hr & Hg'); auto.
        + intros t Ht. cbn [mid_cp cp_skip cp_subs]. split.
          * apply memN_notin. intro Hi. apply (Hdisj _ Hi). apply in_map. exact Ht.
          * apply nlist_get_notin. rewrite sub_cps_keys. intro Hi. apply (Hdisj _ Hi). apply in_map. exact Ht.
        + rewrite Forall_forall in *. intros t Ht. apply HfS. unfold S_tasks. apply in_or_app; auto.
        + rewrite Hr. exists g'. split; [|exact Hg']. unfold S_items. rewrite map_app, it_sub_fresh. reflexivity.
      - intros s Hs. cbn [mid_cp cp_skip cp_subs]. split.
        + apply memN_in. apply in_map. exact Hs.
        + apply sub_cps_get; auto. }
    destruct Hsub as (gR1 & Hsub & HgR1).
    assert (Hok : Forall it_ok (S_items Sr Ss)).
    { unfold S_items. apply Forall_app. split.
      - rewrite Forall_forall in *. intros it Hit. apply in_map_iff in Hit as (s & <- & Hs).
        unfold it_ok, si_item. cbn [it_task].
        assert (Hin : In (si_t s) (S_tasks Sr Ss)) by (unfold S_tasks; apply in_or_app; left; apply in_map; auto).
        split; [apply HdS; auto|]. split; [apply HfS; auto|]. apply (Hss s Hs).
      - apply fresh_items_ok.
        + rewrite Forall_forall in *. intros t Ht. apply HdS. unfold S_tasks. apply in_or_app; auto.
        + rewrite Forall_forall in *. intros t Ht. apply HfS. unfold S_tasks. apply in_or_app; auto. }
    pose proof (seg_core f vU lU sU sR D (S_items Sr Ss) csD gR1) as Hc.
    assert (E1 : flat_map it_oldev (S_items Sr Ss) = evs (map si_t Ss))
      by (unfold S_items; rewrite flat_map_app, flat_oldev_fresh, flat_oldev_cont, app_nil_r; reflexivity).
    assert (E2 : flat_map it_old (S_items Sr Ss) = flat_map si_L Ss)
      by (unfold S_items; rewrite flat_map_app, flat_old_fresh, flat_old_cont, app_nil_r; reflexivity).
    rewrite E1, E2 in Hc.
    apply Hc; auto.
    - intros sU' sR' l' Hsq' Hwf' HU' fR' env' Hle' He'. eapply seg_plain; eauto.
    - rewrite S_items_tasks. exact Hperm.
    - unfold S_items. destruct HS as [HS|HS]; [destruct Sr|destruct Ss]; try congruence; simpl.
      + destruct (map si_item Ss); simpl; discriminate.
      + discriminate.
    - lia.
  Qed.

  (* one resumed call, whatever the store holds *)
  Lemma call_rel : forall fuelU (sU : lstateT) vU lU c credit tcredit sm,
    (forall g, geq (sm g) g) ->
    rel c sU credit tcredit -> WF sU -> iterU fuelU sU tt [] = (ODone vU, lU, tt) ->
    forall fuelR env, (fuelU <= fuelR)%nat -> EOK env ->
      seg_ok vU lU fuelU credit tcredit env (resumeR fuelR sm c env).
  Proof.
    intros fuelU sU vU lU c credit tcredit sm Hsm Hr Hwf HU fuelR env Hle He. destruct Hr as [sR Hsq HfrR Hc|D Sr Ss Hm].
    - subst c. rewrite (resume_save zero fold getr pre execR before after fuelR sm sR env HfrR).
      eapply seg_plain; eauto. destruct Hsq as (E1 & E2 & E3). split; [exact E1|]. split; [exact E2|].
      simpl. eapply H_geq_trans; [apply Hsm|exact E3].
    - eapply seg_mid; eauto.
  Qed.

  (* ---------------------------------------------------------------- *)
  (* run segments of one graph: the protocol, one level up              *)
  (* ---------------------------------------------------------------- *)
  Section Graph.
    Variable fuelR : nat.                                    (* step limit of every segment *)
    Variable vU : V.                                         (* the output ... *)
    Variable lU : list eventT.                               (* ... and the executions of the uninterrupted run *)

    (* [c] is a residual of the run: the uninterrupted run has made the steps [lU1] and, from the loop state
       the checkpoint stands for, goes on to complete; L / E = what the bodies have emitted / the executions
       completed so far *)
    Definition GSusp (c : cptT) (L : list X) (E : list eventT) : Prop :=
      exists sU fuelU' lU1 lU2 credit tcredit,
        rel c sU credit tcredit /\ WF sU /\ (fuelU' <= fuelR)%nat /\
        iterU fuelU' sU tt [] = (ODone vU, lU2, tt) /\ lU = lU1 ++ lU2 /\
        Permutation L (TU lU1 ++ tcredit) /\ Permutation E (lU1 ++ credit).

    Definition seg_res (L0 : list X) (E0 : list eventT) (e0 : ENV) (r : outcomeT * list eventT * ENV) : Prop :=
      let '(o, l, e1) := r in
      EOK e1 /\ exists Lnew, tr e1 = tr e0 ++ Lnew /\
        ((o = ODone vU /\ Permutation (E0 ++ good l) lU /\ Permutation (L0 ++ Lnew) (TU lU)) \/
         (exists i c, o = OInterrupted i c /\ GSusp c (L0 ++ Lnew) (E0 ++ good l))).

    (* a segment continued from a residual *)
    Lemma seg_resumed_ok : forall sm c L0 E0 env, (forall g, geq (sm g) g) ->
      GSusp c L0 E0 -> EOK env -> seg_res L0 E0 env (resumeR fuelR sm c env).
    Proof.
      intros sm c L0 E0 env Hsm (sU & fU' & lU1 & lU2 & cr & tcr & Hr & Hwf & Hle & HU & Hl & HpL & HpE) He.
      pose proof (call_rel fU' sU vU lU2 c cr tcr sm Hsm Hr Hwf HU fuelR env Hle He) as Hseg.
      destruct (resumeR fuelR sm c env) as [[o l] e1]. unfold seg_ok in Hseg. unfold seg_res.
      destruct Hseg as (He1 & Lnew & Htr & Hseg). split; [exact He1|]. exists Lnew. split; [exact Htr|].
      destruct Hseg as [(Ho & Hpe & Hpt)|(i & c2 & sU' & fU2 & l1 & l2 & cr' & tcr' & Ho & Hr' & Hwf' & Hle' & HU' & Hl' & Hpe & Hpt)].
      - left. split; [exact Ho|]. subst lU. rewrite TU_app. split.
        + eapply Permutation_trans; [apply Permutation_app_tail; exact HpE|].
          rewrite <- app_assoc. apply Permutation_app_head. exact Hpe.
        + eapply Permutation_trans; [apply Permutation_app_tail; exact HpL|].
          rewrite <- app_assoc. apply Permutation_app_head. exact Hpt.
      - right. exists i, c2. split; [exact Ho|].
        exists sU', fU2, (lU1 ++ l1), l2, cr', tcr'.
        split; [exact Hr'|]. split; [exact Hwf'|]. split; [lia|]. split; [exact HU'|]. split.
        + subst lU lU2. rewrite app_assoc. reflexivity.
        + rewrite TU_app. split.
          * eapply Permutation_trans; [apply Permutation_app_tail; exact HpL|].
            rewrite <- !app_assoc. apply Permutation_app_head. exact Hpt.
          * eapply Permutation_trans; [apply Permutation_app_tail; exact HpE|].
            rewrite <- !app_assoc. apply Permutation_app_head. exact Hpe.
    Qed.

    Variable cs0 : CS.
    Variable gs0 : GS.
    Variable x : V.
    Hypothesis H_J0 : J cs0 [kStart].
    Hypothesis H_G0 : GOK gs0.
    Variable fuelU : nat.
    Hypothesis H_U : start zero fold getr pre execU [] [] fuelU cs0 gs0 x tt = (ODone vU, lU, tt).
    Hypothesis H_fuel : (fuelU <= fuelR)%nat.

    (* a fresh segment *)
    Lemma seg_fresh_ok : forall env, EOK env ->
      seg_res [] [] env (start zero fold getr pre execR before after fuelR cs0 gs0 x env).
    Proof.
      intros env He. pose proof H_U as HU.
      unfold start, start_gen, init_gen in HU |- *.
      assert (Hj0 : J cs0 (map fst [(kStart, x)])) by exact H_J0.
      destruct (calc fold getr cs0 [(kStart, x)]) as [[cs1 ready]| |] eqn:Hc; simpl in HU; try discriminate.
      destruct (nlist_get kEnd ready) eqn:Hend.
      { simpl in HU |- *. inversion HU; subst. split; [exact He|]. exists []. split; [rewrite app_nil_r; reflexivity|].
        left. split; [reflexivity|]. split; constructor. }
      rewrite hits_nil' in HU. simpl in HU.
      destruct (calc_facts _ _ _ _ Hj0 Hc) as (Hj1 & _ & Hnd).
      set (s0 := {| ls_cs := cs1; ls_next := map mk_task ready; ls_gs := gs0 |}) in *.
      assert (Hwf0 : WF s0).
      { split; [simpl; rewrite mk_task_keys; exact Hj1|]. split; [apply map_mk_task_fresh|]. split; [|exact H_G0].
        simpl. rewrite mk_task_keys; exact Hnd. }
      cbn [orb]. destruct (is_nil (hits before ready)) eqn:Hh.
      - assert (Hsq0 : seqv s0 s0) by (split; [reflexivity|split; [reflexivity|apply H_geq_refl]]).
        pose proof (seg_plain fuelU s0 s0 vU lU Hsq0 Hwf0 HU fuelR env H_fuel He) as Hseg.
        destruct (iterR fuelR s0 env []) as [[o l] e1]. unfold seg_ok in Hseg. unfold seg_res.
        destruct Hseg as (He1 & Lnew & Htr & Hseg). split; [exact He1|]. exists Lnew. split; [exact Htr|].
        destruct Hseg as [(Ho & Hpe & Hpt)|(i & c2 & sU' & fU2 & l1 & l2 & cr' & tcr' & Ho & Hr' & Hwf' & Hle' & HU' & Hl' & Hpe & Hpt)].
        + left. auto.
        + right. exists i, c2. split; [exact Ho|]. exists sU', fU2, l1, l2, cr', tcr'.
          split; [exact Hr'|]. split; [exact Hwf'|]. split; [lia|]. split; [exact HU'|]. split; [exact Hl'|].
          split; [exact Hpt|exact Hpe].
      - unfold plain_interrupt. rewrite save_mk. fold s0. cbn [out_of].
        split; [exact He|]. exists []. split; [rewrite app_nil_r; reflexivity|].
        right. eexists _, (save s0). split; [reflexivity|].
        exists s0, fuelU, [], lU, [], []. split.
        { apply (rel_plain _ _ s0); [split; [reflexivity|split; [reflexivity|apply H_geq_refl]]|apply map_mk_task_fresh|reflexivity]. }
        split; [exact Hwf0|].
        split; [exact H_fuel|]. split; [exact HU|]. split; [reflexivity|]. split; constructor.
    Qed.

    (* ---------------------------------------------------------------- *)
    (* the run driven through a store                                     *)
    (* ---------------------------------------------------------------- *)
    Section DriveSusp.
      Context {B : Type}.
      Variable ser : cptT -> B.
      Variable deser : B -> option cptT.
      Hypothesis H_ser : forall c, deser (ser c) = Some c.
      Variable tick : nat -> ENV -> ENV.      (* what the options of a call change in the environment *)
      Hypothesis H_tick : forall k e, EOK e -> EOK (tick k e) /\ tr (tick k e) = tr e.
      Variable smods : nat -> GS -> GS.       (* the state modifier of the k-th call *)
      Hypothesis H_mods : forall k g, geq (smods k g) g.

      Notation call_obsT := (@call_obs V CS GS SCP SINFO).
      Notation freshT := (ENV -> outcomeT * list eventT * ENV)%type.

      Definition all_logs (cos : list call_obsT) : list eventT := List.concat (map co_log cos).
      Definition is_interrupt (o : outcomeT) : Prop := exists i c, o = OInterrupted i c.

      Lemma drive_nonempty : forall (fresh : freshT) resumed tk with_id n k mods (store : option B) env cos env',
        drive ser deser fresh resumed tk with_id n k mods store env = (cos, env') -> cos <> [].
      Proof.
        intros fresh resumed tk with_id n k mods store env cos env' H.
        rewrite (drive_unfold ser deser) in H.
        destruct (call ser deser fresh resumed with_id store (mods k) (tk k env)) as [[co st] e1].
        destruct (co_out co); try (inversion H; discriminate).
        destruct n; try (inversion H; discriminate).
        destruct with_id; try (inversion H; discriminate).
        destruct (drive ser deser fresh resumed tk true n (S k) mods st e1) as [rest e2].
        inversion H; discriminate.
      Qed.

      Definition done_ok (L : list X) (E : list eventT) (env env' : ENV) (cos : list call_obsT) (co : call_obsT) : Prop :=
        is_interrupt (co_out co) \/
        (co_out co = ODone vU /\ Permutation (E ++ good (all_logs cos)) lU /\
         exists Lnew, tr env' = tr env ++ Lnew /\ Permutation (L ++ Lnew) (TU lU)).

      Lemma last_single : forall (co co' : call_obsT) cos', [co] = cos' ++ [co'] -> co' = co.
      Proof. intros co co' [|? [|? ?]] H; inversion H; auto. Qed.

      Lemma drive_rel : forall (fresh : freshT) n k c L E env cos env' cos' co,
        GSusp c L E -> EOK env ->
        drive ser deser fresh (resumeR fuelR) tick true n k smods (Some (ser c)) env = (cos, env') ->
        cos = cos' ++ [co] -> done_ok L E env env' cos co.
      Proof.
        intros fresh. induction n as [|n IH]; intros k c L E env cos env' cos' co Hg He Hd Hcos;
          rewrite (drive_unfold ser deser) in Hd; unfold call in Hd; rewrite H_ser in Hd;
          destruct (H_tick k env He) as [Het Htt];
          pose proof (seg_resumed_ok (smods k) c L E (tick k env) (H_mods k) Hg Het) as Hseg;
          destruct (resumeR fuelR (smods k) c (tick k env)) as [[o l] e1]; unfold seg_res in Hseg;
          destruct Hseg as (He1 & Lnew & Htr & [(Ho & Hpe & Hpt)|(i & c2 & Ho & Hg2)]); subst o; simpl in Hd.
        - inversion Hd; subst. apply last_single in H0. subst co.
          right. split; auto. unfold all_logs; simpl. rewrite app_nil_r. split; [exact Hpe|].
          exists Lnew. rewrite Htr, Htt. auto.
        - inversion Hd; subst. apply last_single in H0. subst co. left. red; simpl; eauto.
        - inversion Hd; subst. apply last_single in H0. subst co.
          right. split; auto. unfold all_logs; simpl. rewrite app_nil_r. split; [exact Hpe|].
          exists Lnew. rewrite Htr, Htt. auto.
        - destruct (drive ser deser fresh (resumeR fuelR) tick true n (S k) smods (Some (ser c2)) e1)
            as [rest e2] eqn:Hrest.
          injection Hd as Hd1 Hd2. subst env'. rewrite <- Hd1 in Hcos |- *. clear Hd1.
          pose proof (drive_nonempty _ _ _ _ _ _ _ _ _ _ _ Hrest) as Hne.
          destruct cos' as [|co0 cos'']; simpl in Hcos.
          { inversion Hcos; subst. congruence. }
          inversion Hcos as [[Hco0 Hrest']]. subst co0.
          destruct (IH (S k) c2 _ _ e1 rest e2 cos'' co Hg2 He1 Hrest Hrest') as [Hi|(Hdone & Hp2 & L2 & Htr2 & Hpt2)].
          + left; exact Hi.
          + right. split; auto. unfold all_logs in *; simpl. rewrite good_app. split.
            * rewrite app_assoc. rewrite <- Hrest'. exact Hp2.
            * exists (Lnew ++ L2). rewrite Htr2, Htr, Htt, <- !app_assoc. split; [reflexivity|].
              rewrite <- app_assoc in Hpt2. exact Hpt2.
      Qed.

      (* whenever the run with suspending / rerunning nodes and interrupt points, driven through the store,
         completes, it completes like the uninterrupted run: same output; its completed executions are, as a
         multiset, the executions of the uninterrupted run; and so is everything the bodies emitted *)
      Lemma susp_equiv_l : forall n env cos env' cos' co, EOK env ->
        drive ser deser (start zero fold getr pre execR before after fuelR cs0 gs0 x) (resumeR fuelR)
              tick true n 0 smods None env = (cos, env') ->
        cos = cos' ++ [co] -> done_ok [] [] env env' cos co.
      Proof.
        intros n env cos env' cos' co He Hd Hcos.
        rewrite (drive_unfold ser deser) in Hd. unfold call in Hd.
        destruct (H_tick 0%nat env He) as [Het Htt].
        pose proof (seg_fresh_ok (tick 0%nat env) Het) as Hseg.
        destruct (start zero fold getr pre execR before after fuelR cs0 gs0 x (tick 0%nat env)) as [[o l] e1].
        unfold seg_res in Hseg.
        destruct Hseg as (He1 & Lnew & Htr & [(Ho & Hpe & Hpt)|(i & c2 & Ho & Hg2)]); subst o; simpl in Hd.
        - inversion Hd; subst. apply last_single in H0. subst co.
          right. split; auto. unfold all_logs; simpl. rewrite app_nil_r. split; [exact Hpe|].
          exists Lnew. rewrite Htr, Htt. auto.
        - destruct n as [|n].
          { inversion Hd; subst. apply last_single in H0. subst co. left; red; simpl; eauto. }
          match type of Hd with context[drive ser deser ?f _ _ true n 1%nat] =>
            destruct (drive ser deser f (resumeR fuelR) tick true n 1%nat smods (Some (ser c2)) e1)
              as [rest e2] eqn:Hrest end.
          injection Hd as Hd1 Hd2. subst env'. rewrite <- Hd1 in Hcos |- *. clear Hd1.
          pose proof (drive_nonempty _ _ _ _ _ _ _ _ _ _ _ Hrest) as Hne.
          destruct cos' as [|co0 cos'']; simpl in Hcos.
          { inversion Hcos; subst. congruence. }
          inversion Hcos as [[Hco0 Hrest']]. subst co0.
          destruct (drive_rel _ n 1%nat c2 _ _ e1 rest e2 cos'' co Hg2 He1 Hrest Hrest') as [Hi|(Hdone & Hp2 & L2 & Htr2 & Hpt2)].
          + left; exact Hi.
          + right. split; auto. unfold all_logs in *; simpl. rewrite good_app. split.
            * rewrite <- Hrest'. exact Hp2.
            * exists (Lnew ++ L2). rewrite Htr2, Htr, Htt, <- !app_assoc. split; [reflexivity|]. exact Hpt2.
      Qed.
    End DriveSusp.
  End Graph.
End Susp.

(* ---------------------------------------------------------------------------------------------
   The uninterrupted run with node bodies that thread an environment (the model's reference run) is
   the pure uninterrupted run [execU body]: when every body behaves like [body] (completes with its
   output and emits [trU], or fails), the two loops make the same steps; in particular they complete
   together, with the same output and the same executions, and the environment has collected exactly
   the traces of the executions, in order. *)
Section Pure.
  Context {V CS GS ENV SCP SINFO X : Type}.
  Variable zero : V.
  Variable fold : CS -> list (N * V) -> res CS.
  Variable getr : CS -> res (CS * list (N * V)).
  Variable pre : N -> V -> GS -> V * GS.
  Variable body : N -> V -> option V.
  Variable execP : N -> option SCP -> V -> ENV -> @texec V SCP SINFO * ENV.
  Variable tr : ENV -> list X.
  Variable trU : N -> V -> list X.
  Variable EOK : ENV -> Prop.

  Notation taskT := (@task V SCP).
  Notation lstateT := (@lstate V CS GS SCP).
  Notation texecT := (@texec V SCP SINFO).
  Notation eventT := (@event V).
  Notation outcomeT := (@outcome V CS GS SCP SINFO).

  Hypothesis H_pure : forall k v e r e', EOK e -> execP k None v e = (r, e') ->
    EOK e' /\ match body k v with
              | Some o => r = TDone o /\ tr e' = tr e ++ trU k v
              | None => exists x, r = TFail x
              end.

  Notation iterP := (iterate zero fold getr pre execP [] []).
  Notation iterUU := (iterate zero fold getr pre (execU (SCP := SCP) (SINFO := SINFO) body) [] []).

  Definition ttrP (t : taskT) : list X := trU (t_key t) (t_in t).

  Lemma exec_all_pure : forall (ts : list taskT) e, EOK e -> Forall (fun t => t_cp t = None) ts ->
    EOK (snd (exec_all execP ts e)) /\
    ((Forall (defined body) ts /\ fst (exec_all execP ts e) = rsU_of (SCP := SCP) (SINFO := SINFO) zero body ts /\
      tr (snd (exec_all execP ts e)) = tr e ++ flat_map ttrP ts) \/
     (~ Forall (defined body) ts /\ first_fail (fst (exec_all execP ts e)) <> None)).
  Proof.
    induction ts as [|t ts IH]; intros e He Hcp.
    - simpl. split; auto. left. split; [constructor|]. split; [reflexivity|rewrite app_nil_r; reflexivity].
    - inversion Hcp as [|? ? Hcp1 Hcp2]; subst.
      cbn [exec_all]. rewrite Hcp1. destruct (execP (t_key t) None (t_in t) e) as [r e1] eqn:Hx.
      destruct (H_pure _ _ _ _ _ He Hx) as [He1 Hb].
      destruct (IH e1 He1 Hcp2) as [He2 Hc]. destruct (exec_all execP ts e1) as [rest e2]. cbn [fst snd] in *.
      split; [exact He2|].
      destruct (body (t_key t) (t_in t)) as [o|] eqn:Eb.
      + destruct Hb as [-> Htr]. destruct Hc as [(Hd & Hr & Ht)|(Hnd & Hff)].
        * left. split; [constructor; [exists o; exact Eb|exact Hd]|]. split.
          -- cbn [rsU_of map]. unfold bodyd. rewrite Eb. rewrite Hr. reflexivity.
          -- rewrite Ht, Htr. cbn [flat_map]. unfold ttrP at 2. rewrite app_assoc. reflexivity.
        * right. split; [intro Hf; inversion Hf; auto|]. exact Hff.
      + destruct Hb as [x0 ->]. right. split.
        * intro Hf. inversion Hf as [|? ? [o Ho] _]; subst. congruence.
        * unfold first_fail. simpl. discriminate.
  Qed.

  Lemma exec_all_U_fail : forall (ts : list taskT) e,
    ~ Forall (defined body) ts -> first_fail (fst (exec_all (execU (SCP := SCP) (SINFO := SINFO) body) ts e)) <> None.
  Proof.
    intros ts e Hn. destruct (exec_all_U_cases (SINFO := SINFO) zero body ts e) as [[Hd _]|Hff]; [contradiction|].
    rewrite Hff. discriminate.
  Qed.

  Lemma decide_fail : forall bf af cs (gs : GS) (rs : list (N * texecT)),
    first_fail rs <> None -> exists x, decide zero fold getr bf af cs gs rs = Failed x.
  Proof. intros bf af cs gs rs H. unfold decide. destruct (first_fail rs); [eauto|congruence]. Qed.

  Definition TUP (l : list eventT) : list X := flat_map (fun ev => trU (ev_key ev) (ev_in ev)) l.

  Lemma events_U_trace : forall ts' : list taskT,
    TUP (events_of ts' (rsU_of (SCP := SCP) (SINFO := SINFO) zero body ts')) = flat_map ttrP ts'.
  Proof. induction ts' as [|t ts IH]; simpl; auto. unfold TUP in *. simpl. rewrite IH. reflexivity. Qed.

  Lemma pure_sim : forall fuel (s : lstateT) e, fresh_state s -> EOK e ->
    match iterUU fuel s tt [] with
    | (ODone v, lU, _) => exists eP, iterP fuel s e [] = (ODone v, lU, eP) /\ EOK eP /\ tr eP = tr e ++ TUP lU
    | (OFailed _, _, _) => exists x lP eP, iterP fuel s e [] = (OFailed x, lP, eP) /\ EOK eP
    | (OLimit, _, _) => exists lP eP, iterP fuel s e [] = (OLimit, lP, eP) /\ EOK eP
    | (OInterrupted i c, _, _) => False
    end.
  Proof.
    induction fuel as [|f IH]; intros s e Hfr He.
    { simpl. eauto. }
    cbn [iterate]. unfold step.
    assert (Hcps : Forall (fun t : taskT => t_cp t = None) (fst (run_pres pre (ls_next s) (ls_gs s)))).
    { pose proof (run_pres_cps pre (ls_next s) (ls_gs s)) as Hc.
      assert (Hn : Forall (fun t : taskT => t_cp t = None) (ls_next s)).
      { eapply Forall_impl; [|exact Hfr]. intros a [_ ?]; auto. }
      revert Hc Hn. generalize (fst (run_pres pre (ls_next s) (ls_gs s))). generalize (ls_next s).
      induction l as [|a l IHl]; intros [|b l0] Hm Hn; simpl in *; try discriminate; auto.
      inversion Hm. inversion Hn; subst. constructor; [congruence|eauto]. }
    destruct (run_pres pre (ls_next s) (ls_gs s)) as [ts gs1]. cbn [fst] in Hcps.
    destruct (exec_all_pure ts e He Hcps) as [He1 Hc].
    destruct (exec_all execP ts e) as [rsP e1] eqn:HxP. cbn [fst snd] in *.
    destruct Hc as [(Hd & Hr & Ht)|(Hnd & Hff)].
    - destruct (exec_all_U_cases (SINFO := SINFO) zero body ts tt) as [[_ HxU]|Hf].
      2:{ exfalso. destruct (rsU_facts (SCP := SCP) (SINFO := SINFO) zero body ts) as (H1 & _).
          assert (HxU : exec_all (execU body) ts tt = (rsU_of (SCP := SCP) (SINFO := SINFO) zero body ts, tt)).
          { clear - Hd. induction ts as [|t ts IH]; [reflexivity|]. inversion Hd as [|? ? [o Ho] Hd']; subst.
            cbn [exec_all]. unfold execU at 1. rewrite Ho. rewrite (IH Hd'). cbn [rsU_of map]. unfold bodyd. rewrite Ho. reflexivity. }
          rewrite HxU in Hf. cbn [fst] in Hf. congruence. }
      rewrite HxU. subst rsP.
      destruct (rsU_facts (SCP := SCP) (SINFO := SINFO) zero body ts) as (H1 & H2 & H3 & H4).
      destruct ts as [|t0 ts0] eqn:Ets.
      { cbn. exists eNoTasks, [], e1. auto. }
      rewrite <- Ets in *.
      assert (Hne : rsU_of (SCP := SCP) (SINFO := SINFO) zero body ts <> []) by (rewrite Ets; simpl; discriminate).
      rewrite (decide_all_done zero fold getr [] [] (ls_cs s) gs1 _ H1 H2 H3 Hne).
      rewrite afters_nil'. unfold finish.
      destruct (calc fold getr (ls_cs s) (outs (rsU_of (SCP := SCP) (SINFO := SINFO) zero body ts))) as [[cs2 ready]|x|] eqn:Hcalc;
        cbn [app chan_err].
      + destruct (nlist_get kEnd ready) as [v|] eqn:Hend; cbn [app].
        * exists e1. split; [reflexivity|]. split; [exact He1|]. rewrite Ht, events_U_trace. reflexivity.
        * rewrite hits_nil'. cbn [is_nil andb].
          rewrite (iterate_log0 zero fold getr pre (execU body)), (iterate_log0 zero fold getr pre execP).
          assert (Hfr' : fresh_state {| ls_cs := cs2; ls_next := map (@mk_task V SCP) ready; ls_gs := gs1 |})
            by (apply map_mk_task_fresh).
          specialize (IH _ e1 Hfr' He1).
          destruct (iterUU f {| ls_cs := cs2; ls_next := map mk_task ready; ls_gs := gs1 |} tt []) as [[oU lU] eU].
          destruct oU as [v|i c|x|].
          -- destruct IH as (eP & HP & HeP & HtP). rewrite HP. exists eP. split; [reflexivity|]. split; [exact HeP|].
             rewrite HtP, Ht. unfold TUP. rewrite flat_map_app. fold (TUP (events_of ts (rsU_of (SCP := SCP) (SINFO := SINFO) zero body ts))).
             rewrite events_U_trace, app_assoc. reflexivity.
          -- exact IH.
          -- destruct IH as (x' & lP & eP & HP & HeP). rewrite HP. eauto 6.
          -- destruct IH as (lP & eP & HP & HeP). rewrite HP. eauto.
      + eauto 6.
      + eauto 6.
    - pose proof (exec_all_U_fail ts tt Hnd) as HfU.
      destruct (exec_all (execU body) ts tt) as [rsU eU]. cbn [fst] in HfU.
      destruct (decide_fail [] [] (ls_cs s) gs1 rsU HfU) as [xU HdU].
      destruct (decide_fail [] [] (ls_cs s) gs1 rsP Hff) as [xP HdP].
      rewrite HdU, HdP. eauto 6.
  Qed.

  Lemma pure_start : forall fuel cs0 (gs0 : GS) x e, EOK e ->
    match start zero fold getr pre (execU (SCP := SCP) (SINFO := SINFO) body) [] [] fuel cs0 gs0 x tt with
    | (ODone v, lU, _) => exists eP, start zero fold getr pre execP [] [] fuel cs0 gs0 x e = (ODone v, lU, eP) /\
                                     EOK eP /\ tr eP = tr e ++ TUP lU
    | (OFailed _, _, _) => exists x' lP eP, start zero fold getr pre execP [] [] fuel cs0 gs0 x e = (OFailed x', lP, eP) /\ EOK eP
    | (OLimit, _, _) => exists lP eP, start zero fold getr pre execP [] [] fuel cs0 gs0 x e = (OLimit, lP, eP) /\ EOK eP
    | (OInterrupted i c, _, _) => False
    end.
  Proof.
    intros fuel cs0 gs0 x e He. unfold start, start_gen, init_gen.
    destruct (calc fold getr cs0 [(kStart, x)]) as [[cs1 ready]|x0|]; cbn [out_of chan_err].
    - destruct (nlist_get kEnd ready) as [v|]; cbn [out_of].
      + exists e. split; [reflexivity|]. split; [exact He|]. simpl. rewrite app_nil_r. reflexivity.
      + rewrite hits_nil'. cbn [is_nil orb].
        apply pure_sim; auto. apply map_mk_task_fresh.
    - eauto 6.
    - eauto 6.
  Qed.
End Pure.
