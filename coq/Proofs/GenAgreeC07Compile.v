(* Proofs/GenAgreeC07Compile.v — property C07, translator tie for the type-related part of
   compose/graph.go compile (tools/go2v extractor "c07_compile", Gen/CompileCode.v, translated
   statement by statement):
     compile_checks   "start node not set", "end node not set", the loop that refuses a graph with a
                      pending entry in toValidateMap, the loop that refuses a node without a type;
     handler_convs    the converters put behind the state pre / post handler of a passthrough node
                      (withResultConverter with the node's inputConverter / outputConverter; repair
                      F-C07f).
   They are the conditions of the model's [compile] and the converter types [run_handler] is called
   with ([pre_res] / [post_res] of Model/TypeBuilder.v: the node's inferred input / output type for a
   passthrough node, none for any other node) -- the second for every state whose helpers are in
   step with the types ([gh_inv]).  A source that compiles a graph with pending entries or an
   untyped node, converts only one of the two handlers' results, takes the converter of the other
   side, or restricts the conversion to some passthrough nodes makes this stop compiling. *)
From Eino Require Import Base.Util Model.Types Model.TypesGenLib Model.TypeBuilder Model.TypeBuilderGenLib Model.TypeBuilderGenLib2.
From Eino Require Import Proofs.TypesBuilder Proofs.GenAgreeC07Validate.
From Eino Require Gen.ValidateCode Gen.CompileCode.
Module V := Gen.ValidateCode.
Module C := Gen.CompileCode.

Lemma existsb_ext_in : forall {A} (f g : A -> bool) l, (forall x, In x l -> f x = g x) -> existsb f l = existsb g l.
Proof.
  intros A f g l; induction l as [|a l IH]; intro H; simpl; [reflexivity|].
  rewrite (H a (or_introl eq_refl)), IH; [reflexivity|]. intros x Hx. apply H. right. exact Hx.
Qed.

Lemma In_get_node : forall (l : list (key * node)) k n, In (k, n) l -> exists n', nlist_get k l = Some n' /\ In (k, n') l.
Proof.
  induction l as [|[k0 n0] l IH]; intros k n H; [destruct H|]. simpl.
  destruct (N.eqb_spec k k0) as [E|E].
  - subst k0. exists n0. split; [reflexivity | left; reflexivity].
  - destruct H as [H|H]; [inversion H; subst; congruence|].
    destruct (IH k n H) as [n' [A B]]. exists n'. split; [exact A | right; exact B].
Qed.

Lemma existsb_false_forall : forall {A} (f : A -> bool) l, existsb f l = false -> forall x, In x l -> f x = false.
Proof.
  intros A f l; induction l as [|a l IH]; intros H x Hx; [destruct Hx|]. simpl in H.
  apply Bool.orb_false_iff in H. destruct H as [H1 H2]. destruct Hx as [Hx|Hx]; [subst; exact H1 | exact (IH H2 x Hx)].
Qed.

(* a node without helper has no type (repair 0136457: compile asks for the helper of a passthrough node as well):
   where the helpers are in step with the types, a node stored under [k] whose helper is nil means that the node
   found under [k] is untyped *)
Lemma nil_helper_untyped : forall xs k n, gh_inv xs -> In (k, n) (g_nodes (x_st xs)) -> gh_is_nil (x_node_cr_gh xs k) = true ->
  exists q, In q (g_nodes (x_st xs)) /\ n_in (snd q) = None.
Proof.
  intros xs k n I Hin Hnil. unfold x_node_cr_gh in Hnil.
  destruct (N.eqb k kSTART) eqn:Es; [discriminate|]. destruct (N.eqb k kEND) eqn:Ee; [discriminate|].
  destruct (In_get_node _ _ _ Hin) as [n' [G Hin']].
  destruct (n_in n') as [t|] eqn:Ht.
  - exfalso. destruct (I k) as [I1 _].
    assert (A : in_ty (x_st xs) k = Some t) by (unfold in_ty, get_node; rewrite Es, Ee, G; exact Ht).
    specialize (I1 t A). rewrite gen_get_node_generic_helper_agrees, Es, Ee in I1.
    destruct (x_node_gh xs k); [discriminate Hnil | discriminate I1].
  - exists (k, n'). split; [exact Hin' | exact Ht].
Qed.

(* [known_together]: a node's input type is known iff its output type is (a lambda is declared with
   both, a passthrough node gets both at once: [nodes_ok] of Proofs/TypesBuilder.v for every
   reachable state); [gh_inv]: the helpers are in step with the types, so the test on the helper of a
   passthrough node (repair 0136457) refuses nothing that the test on the types does not refuse *)
Theorem gen_compile_checks_agrees : forall xs,
  (forall p, In p (g_nodes (x_st xs)) -> (n_in (snd p) = None <-> n_out (snd p) = None)) ->
  gh_inv xs ->
  g_err (x_st xs) = false ->
  compile (x_st xs) = ((if C.compile_checks xs then set_compiled (x_st xs) else x_st xs), C.compile_checks xs).
Proof.
  intros xs K I E. unfold compile, C.compile_checks, x_any_pending, x_any_node, x_any_node_k. rewrite E.
  destruct (g_has_start (x_st xs)); destruct (g_has_end (x_st xs)); cbn [negb andb orb]; try reflexivity.
  destruct (g_tvm (x_st xs)); [|reflexivity].
  (* whatever way the untyped-node test is spelled, on these states it is "some node's input type is unknown" *)
  match goal with |- context [existsb ?f (g_nodes (x_st xs))] =>
    match f with
    | (fun p : key * node => match n_in (snd p) with None => true | Some _ => false end) => fail 1
    | _ =>
      assert (X : existsb f (g_nodes (x_st xs)) =
                  existsb (fun p : key * node => match n_in (snd p) with None => true | Some _ => false end) (g_nodes (x_st xs)));
      [|rewrite X]
    end
  end.
  2: match goal with |- context [existsb ?f ?l] => destruct (existsb f l) end; reflexivity.
  match goal with |- existsb ?f ?l = existsb ?g ?l =>
    destruct (existsb g l) eqn:Eg
  end.
  - (* some node is untyped: the translated test sees it *)
    apply existsb_exists in Eg. destruct Eg as [p [Hp Hu]]. apply existsb_exists. exists p. split; [exact Hp|].
    destruct (K p Hp) as [K1 K2]. destruct (n_in (snd p)); [discriminate|]. rewrite (K1 eq_refl). reflexivity.
  - (* every node is typed: neither test fires *)
    apply Bool.not_true_is_false. intro Ht. apply existsb_exists in Ht. destruct Ht as [p [Hp Hf]].
    pose proof (existsb_false_forall _ _ Eg) as All.
    assert (U : n_in (snd p) <> None) by (intro U; specialize (All p Hp); simpl in All; rewrite U in All; discriminate).
    destruct (K p Hp) as [K1 K2].
    destruct (n_in (snd p)) as [a|] eqn:Ea; [|congruence].
    destruct (n_out (snd p)) as [b|] eqn:Eb; [|specialize (K2 eq_refl); discriminate].
    cbn [rt_is_nil orb] in Hf.
    try (destruct p as [k n]; cbn [fst snd] in *;
         repeat match type of Hf with
                | context [rt_is_nil (Some _)] => cbn [rt_is_nil] in Hf
                end;
         cbn [orb andb] in Hf;
         apply Bool.andb_true_iff in Hf; destruct Hf as [_ Hn];
         destruct (nil_helper_untyped xs k n I Hp Hn) as [q [Hq Uq]];
         specialize (All q Hq); simpl in All; rewrite Uq in All; discriminate).
    all: try discriminate.
Qed.

Theorem gen_handler_convs_agrees : forall xs k n ti to,
  gh_inv xs -> get_node (x_st xs) k = Some n -> N.eqb k kSTART = false -> N.eqb k kEND = false ->
  n_in n = Some ti -> n_out n = Some to ->
  C.handler_convs xs k = ((if n_pass n then n_in n else None), (if n_pass n then n_out n else None)).
Proof.
  intros xs k n ti to I G S E Hi Ho. unfold C.handler_convs, x_is_pass, is_pass. rewrite G.
  destruct (n_pass n); [|reflexivity].
  destruct (I k) as [I1 I2].
  assert (A : in_ty (x_st xs) k = Some ti) by (unfold in_ty; rewrite S, E, G; exact Hi).
  assert (B : out_ty (x_st xs) k = Some to) by (unfold out_ty; rewrite S, E, G; exact Ho).
  rewrite (I1 ti A), (I2 to B), Hi, Ho. reflexivity.
Qed.

(* non-vacuity, on the state of GenAgreeC07Validate (node 2 = untyped passthrough node): compile is
   refused; once node 2 is typed I2 and START / END are connected the checks pass, and the handlers
   of node 2 would be followed by the converters for I2 *)
Example gen_compile_examples :
  C.compile_checks ex_xs = false /\
  (let r := fst (x_run_ops (V.validate_entry ex_u) (fun xs _ _ _ _ _ _ => AOk xs)
                   (fun upd xs s e _ _ => match upd (x_add_tvm (let xs1 := if N.eqb s kSTART then x_mark_start xs else xs in if N.eqb e kEND then x_mark_end xs1 else xs1) s e) with Some xs' => AOk (x_add_data xs' s e) | None => AFailSticky end)
                   (fun _ xs _ _ _ _ _ _ => AOk xs) (fun _ => true)
                   (fun _ _ _ => []) 0 ex_xs [OpEdge 2 3; OpEdge 0 2; OpEdge 3 1; OpEdge 4 1; OpEdge 0 4]%N) in
   C.compile_checks r = true /\ C.handler_convs r 2%N = (Some (TIface 1), Some (TIface 1)) /\
   C.handler_convs r 3%N = (None, None)).
Proof. split; [reflexivity|]. vm_compute. repeat split. Qed.
