(* Proofs/GenAgreeC05.v — property C05, translator tie: what tools/go2v (extractor "cpcode") re-reads from
   compose/checkpoint.go, dag.go, pregel.go, graph_manager.go and graph_run.go on every run
   (Gen/CheckpointCode.v) IS what Model/RunLoop.v assumes about a checkpoint and the restore path:

     - which fields a checkpoint and the two channel kinds persist (tables of Model/CheckpointTable.v);
     - dagChannel.load / pregelChannel.load / channelManager.loadChannels, translated statement by statement:
       the run continues on the checkpoint's channels ([restore]: ls_cs := cp_cs c), held by the
       objects Compile built (the unexported zeroValue / emptyStream of a channel are not part of a checkpoint);
     - forwardCheckPoint / clearCheckPoint and the task literals of restoreTasks / createTasks, translated
       field by field: the tasks of [restore c] (key, input, skip flag from SkipPreHandler, the nested
       checkpoint stored under the task's key) and [mk_task] (fresh: no nested checkpoint, pre-handler runs);
     - the if / else-if chain of runner.run that decides where a run starts from: [call] reads the store only
       when an id is given, a nested graph continues iff a nested checkpoint was handed down;
     - the steps of the two restore blocks, in order.

   An edit of one of these functions that changes its meaning makes a theorem here stop compiling even when
   no generated case reaches the difference. *)
From Eino Require Import Base.Util Model.Graph Model.ChanGenLib Model.RunLoop Model.CheckpointGenLib Model.CheckpointTable.
From Eino Require Gen.CheckpointCode.
Open Scope N_scope.

(* (When the extractor does not recognise the source, Gen/CheckpointCode.v re-exports the model's own definitions
   and says tie_available = false; the theorems below then hold trivially and the evidence records the tie as
   unavailable: an unrecognised shape is not an alarm.) *)

(* ---------------------------------------------------------------- what is persisted *)
Theorem gen_checkpoint_fields_agree :
  Gen.CheckpointCode.checkpoint_fields = Model.CheckpointTable.checkpoint_fields.
Proof. reflexivity. Qed.

Theorem gen_dag_channel_fields_agree :
  Gen.CheckpointCode.dag_channel_persisted = Model.CheckpointTable.dag_channel_persisted /\
  Gen.CheckpointCode.dag_channel_rebuilt = Model.CheckpointTable.dag_channel_rebuilt.
Proof. split; reflexivity. Qed.

Theorem gen_pregel_channel_fields_agree :
  Gen.CheckpointCode.pregel_channel_persisted = Model.CheckpointTable.pregel_channel_persisted /\
  Gen.CheckpointCode.pregel_channel_rebuilt = Model.CheckpointTable.pregel_channel_rebuilt.
Proof. split; reflexivity. Qed.

Theorem gen_restore_steps_agree :
  Gen.CheckpointCode.restore_steps_ctx = Model.CheckpointTable.restore_steps_ctx /\
  Gen.CheckpointCode.restore_steps_store = Model.CheckpointTable.restore_steps_store.
Proof. split; reflexivity. Qed.

(* ---------------------------------------------------------------- load *)
Lemma chan_eta_c05 : forall V (c : chan V),
  {| c_ctrl := c_ctrl V c; c_data := c_data V c; c_skipped := c_skipped V c; c_vals := c_vals V c |} = c.
Proof. intros V []; reflexivity. Qed.

(* dagChannel.load: whatever the compiled channel held, it is the checkpoint's channel afterwards *)
Theorem gen_dag_load_agrees : forall V (ch dc : chan V),
  Gen.CheckpointCode.dag_load V ch dc = model_load ch dc.
Proof.
  intros V ch dc. first [ reflexivity |
  unfold Gen.CheckpointCode.dag_load, model_load,
    ch_set_ctrl, ch_set_data, ch_set_skipped, ch_set_vals, ch_ctrl, ch_data, ch_skipped, ch_vals; simpl;
  apply chan_eta_c05 ].
Qed.

(* pregelChannel.load: a pregel channel is its Values (the other fields never leave their initial value) *)
Theorem gen_pregel_load_agrees : forall V (ch dc : chan V),
  c_ctrl V ch = c_ctrl V dc -> c_data V ch = c_data V dc -> c_skipped V ch = c_skipped V dc ->
  Gen.CheckpointCode.pregel_load V ch dc = model_load ch dc.
Proof.
  intros V ch dc H1 H2 H3. first [ reflexivity |
  unfold Gen.CheckpointCode.pregel_load, model_load, ch_set_vals, ch_vals; simpl;
  rewrite H1, H2, H3; apply chan_eta_c05 ].
Qed.

Lemma nodup_lookup_c05 : forall {A} (l : list (N * A)) k a,
  NoDup (map fst l) -> In (k, a) l -> nlist_get k l = Some a.
Proof.
  intros A l; induction l as [|[k' a'] l IH]; intros k a Hnd Hin; simpl in *; [contradiction|].
  inversion Hnd as [|x xs Hni Hnd']; subst.
  destruct Hin as [E|Hin].
  - inversion E; subst. rewrite N.eqb_refl. reflexivity.
  - destruct (N.eqb k k') eqn:Ek.
    + apply N.eqb_eq in Ek; subst. exfalso. apply Hni. change k' with (fst (k', a)). apply in_map, Hin.
    + apply IH; assumption.
Qed.

(* channelManager.loadChannels: a checkpoint written by a run of the same compiled graph has a channel for
   every channel of the graph (same keys); every channel is loaded *)
Theorem gen_load_channels_agrees : forall V (load : chan V -> chan V -> chan V) (own cp : chans V),
  map fst own = map fst cp -> NoDup (map fst cp) ->
  (forall k ch dc, In (k, ch) own -> In (k, dc) cp -> load ch dc = dc) ->
  Gen.CheckpointCode.load_channels V load own cp = model_load_channels own cp.
Proof.
  intros V load own cp Hk Hnd Hload.
  first [ reflexivity | idtac ].
  all: unfold Gen.CheckpointCode.load_channels, model_load_channels, m_get.
  all: assert (G : forall (l own' : chans V), map fst own' = map fst l ->
             (forall k c, In (k, c) l -> nlist_get k cp = Some c) ->
             (forall k ch dc, In (k, ch) own' -> In (k, dc) l -> load ch dc = dc) ->
             map (fun kc : key * chan V => let key := fst kc in let ch := snd kc in
                    match nlist_get key cp with
                    | Some nCh => (key, compiled_object (load ch nCh))
                    | None => (key, compiled_object ch)
                    end) own' = map (fun kc : key * chan V => (fst kc, compiled_object (snd kc))) l)
    by (intros l; induction l as [|[k c] l IH]; intros own' Hm Hget Hl; destruct own' as [|[k0 c0] own']; simpl in *;
        try discriminate; [reflexivity|];
        inversion Hm; subst; rewrite (Hget k c (or_introl eq_refl));
        rewrite (Hl k c0 c (or_introl eq_refl) (or_introl eq_refl));
        f_equal; apply IH; auto; intros k' ch dc Hi1 Hi2; apply (Hl k' ch dc); auto).
  all: apply G; auto; intros k c Hin; apply nodup_lookup_c05; assumption.
Qed.

(* ---------------------------------------------------------------- the tasks *)
Theorem gen_forward_checkpoint_agrees : forall SCP (cp : option (list (N * SCP))) k,
  Gen.CheckpointCode.forward_checkpoint cp k = model_forward cp k.
Proof.
  intros SCP cp k. first [ reflexivity |
  destruct cp as [subs|]; unfold Gen.CheckpointCode.forward_checkpoint, model_forward, sub_get, subs_of, fwd_of; simpl;
    [destruct (nlist_get k subs); reflexivity | reflexivity] ].
Qed.

(* a task the run creates itself never finds a checkpoint in its context *)
Theorem gen_clear_checkpoint_agrees : forall SCP (cp : option (list (N * SCP))),
  Gen.CheckpointCode.clear_checkpoint cp = FNone.
Proof. intros SCP [subs|]; reflexivity. Qed.

Theorem gen_restore_task_agrees : forall V SCP (cp : option (list (N * SCP))) skip (kv : N * V),
  Gen.CheckpointCode.restore_task V SCP cp skip kv = model_restore_task cp skip kv.
Proof.
  intros V SCP cp skip [k v]. first [ reflexivity |
  unfold Gen.CheckpointCode.restore_task, model_restore_task, set_has; simpl;
  rewrite gen_forward_checkpoint_agrees; reflexivity ].
Qed.

(* restoreTasks: the tasks [restore c] submits *)
Theorem gen_restore_tasks_agree : forall V CS GS SCP (c : @checkpoint V CS GS SCP),
  map (Gen.CheckpointCode.restore_task V SCP (Some (cp_subs c)) (cp_skip c)) (cp_inputs c)
  = map gtask_of (ls_next (restore c)).
Proof.
  intros V CS GS SCP c. unfold restore. simpl. rewrite map_map. apply map_ext. intros [k v].
  rewrite gen_restore_task_agrees. reflexivity.
Qed.

(* createTasks: [mk_task], whatever checkpoint the run was resumed from *)
Theorem gen_create_task_agrees : forall V SCP (cp : option (list (N * SCP))) (kv : N * V),
  Gen.CheckpointCode.create_task V SCP cp kv = gtask_of (@mk_task V SCP kv).
Proof.
  intros V SCP cp [k v]. first [ reflexivity |
  unfold Gen.CheckpointCode.create_task, gtask_of, mk_task; simpl;
  rewrite gen_clear_checkpoint_agrees; reflexivity ].
Qed.

(* ---------------------------------------------------------------- where a run starts from *)
Theorem gen_restore_source_agrees : forall isSubGraph ctxCp hasID storeCp,
  Gen.CheckpointCode.restore_source isSubGraph ctxCp hasID storeCp = model_restore_source isSubGraph ctxCp hasID storeCp.
Proof. intros [] [] [] []; reflexivity. Qed.

Section CallSource.
  Context {V CS GS ENV SCP SINFO B : Type}.
  Variable ser : @checkpoint V CS GS SCP -> B.
  Variable deser : B -> option (@checkpoint V CS GS SCP).
  Variable fresh : ENV -> @outcome V CS GS SCP SINFO * list (@event V) * ENV.
  Variable resumed : (GS -> GS) -> @checkpoint V CS GS SCP -> ENV -> @outcome V CS GS SCP SINFO * list (@event V) * ENV.

  (* what [call] does with the outcome of the segment *)
  Definition finish_call (with_id : bool) (store : option B)
             (r : @outcome V CS GS SCP SINFO * list (@event V) * ENV) :=
    let '(o, l, env') := r in
    match o with
    | OInterrupted _ c =>
        if with_id then ({| co_out := o; co_log := l; co_written := true |}, Some (ser c), env')
        else ({| co_out := o; co_log := l; co_written := false |}, store, env')
    | _ => ({| co_out := o; co_log := l; co_written := false |}, store, env')
    end.

  (* the top-level call of the model starts where the translated decision says (a top-level run is not a
     sub graph; what its context carries does not matter) *)
  Theorem call_follows_restore_source : forall with_id store sm env ctxCp,
    call ser deser fresh resumed with_id store sm env =
    finish_call with_id store
      (match Gen.CheckpointCode.restore_source false ctxCp with_id (is_some store), store with
       | RFromStore, Some b => match deser b with
                               | Some c => resumed sm c env
                               | None => (OFailed eChan, [], env)
                               end
       | _, _ => fresh env
       end).
  Proof.
    intros with_id store sm env ctxCp. rewrite gen_restore_source_agrees.
    unfold call, finish_call, model_restore_source, is_some, is_none.
    destruct with_id, store as [b|]; simpl; reflexivity.
  Qed.
End CallSource.

(* ---------------------------------------------------------------- nested graphs *)
From Eino Require Import Model.Interrupt.

(* what [node_exec] makes of the outcome of a nested segment *)
Definition wrap_sub (k : N) (sub : gspec) (r : outc * list evt * env) : tex * env :=
  let '(o, l, e1) := r in
  let e' := log_pres sub l e1 in
  (match o with
   | ODone r => TDone (VMap [(k, r)])
   | OInterrupted i c => TSub (NCP c) (NInfo i)
   | OFailed x => TFail x
   | OLimit => TFail (match g_mode (gs_graph sub) with Pregel => eMaxSteps | Dag => eLoopFuel end)
   end, e').

(* a graph node of the model starts its nested graph where the translated decision says: from the nested
   checkpoint its parent handed down if there is one, from its input otherwise — whatever id the call carries
   and whatever the store holds (a nested graph never reads the store) *)
Theorem nested_follows_restore_source : forall d F g k cpo v e n v' j sub hasID storeCp,
  find_node (gs_graph g) k = Some n -> key_input g k cpo v = Ok v' -> n_kind n = KSub j ->
  nth_error F j = Some sub ->
  node_exec (S d) F g k cpo v e =
  wrap_sub k sub
    (match Gen.CheckpointCode.restore_source true (is_some cpo) hasID storeCp, cpo with
     | RFromCtx, Some (NCP c) => seg_resumed (node_exec d F sub) (N.of_nat j) sub (sm_of e) c e
     | _, _ => seg_fresh (node_exec d F sub) (N.of_nat j) sub v' e
     end).
Proof.
  intros d F g k cpo v e n v' j sub hasID storeCp Hf Hk Hn Hs.
  rewrite gen_restore_source_agrees. simpl node_exec. rewrite Hf, Hk, Hn, Hs.
  unfold wrap_sub, model_restore_source, is_some, is_none.
  destruct cpo as [[c]|]; simpl; reflexivity.
Qed.
