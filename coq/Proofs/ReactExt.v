(* Proofs/ReactExt.v — further lemmas about Model/React.v (property C18): strict alternation,
   the shape of the history (tool messages carry the ids of the round's calls, in call order),
   the messages handed out by the message future, and the tools node of the correspondence. *)
From Eino Require Import Base.Util Model.Tools Model.React Proofs.React.
Local Open Scope string_scope.

Section ReactExt.
  Variable tn : list call -> res (list tmsg).
  Variable rd : string -> bool.
  Variable rd_nonempty : bool.
  Variable modifier : list msg -> list msg.
  Variable visible : call -> bool.

  Notation react_spec := (react_spec tn rd rd_nonempty modifier visible).
  Notation rd_index_of := (rd_index_of rd rd_nonempty).

  (* ---- strict alternation ---- *)

  (* the k-th tool round runs the calls of the k-th reply of the model (which has some) *)
  Theorem kth_round : forall script budget hist k cs,
    nth_error (t_rounds (react_spec script budget hist)) k = Some cs ->
    cs <> [] /\ exists content chunks, nth_error script k = Some (SMsg content cs chunks).
  Proof.
    induction script as [|s script IH]; intros budget hist k cs H.
    - destruct budget; simpl in H; destruct k; discriminate.
    - destruct budget as [|b1]; [destruct k; discriminate|].
      destruct s as [|content calls chunks]; [simpl in H; destruct k; discriminate|].
      destruct calls as [|c0 calls']; [simpl in H; destruct k; discriminate|].
      remember (c0 :: calls') as calls. assert (Hne : calls <> []) by (subst; discriminate).
      destruct b1 as [|b2]; [rewrite spec_unfold_calls_1 in H by auto; destruct k; discriminate|].
      rewrite spec_unfold_calls in H by auto.
      rewrite rounds_tr_input, rounds_tr_emit, rounds_tr_round in H.
      destruct k as [|k'].
      + simpl in H. inversion H; subst cs. split; auto. exists content, chunks. reflexivity.
      + simpl in H. destruct (tn calls) as [results| |]; try (destruct k'; discriminate).
        rewrite rounds_tr_emit in H.
        destruct (rd_index_of calls) as [ix|]; revgoals.
        * simpl. eapply IH; eauto.
        * destruct b2; [destruct k'; discriminate|].
          destruct (nth_error results ix); destruct k'; discriminate.
  Qed.

  (* a tool round only after a model call, a model call only after the previous round:
     #rounds <= #model calls <= #rounds + 1 *)
  Theorem alternation : forall script budget hist,
    let t := react_spec script budget hist in
    List.length (t_rounds t) <= List.length (t_inputs t) <= S (List.length (t_rounds t)).
  Proof.
    induction script as [|s script IH]; intros budget hist.
    - destruct budget; simpl; lia.
    - destruct budget as [|b1]; [simpl; lia|].
      destruct s as [|content calls chunks]; [simpl; lia|].
      destruct calls as [|c0 calls']; [simpl; lia|].
      remember (c0 :: calls') as calls. assert (Hne : calls <> []) by (subst; discriminate).
      destruct b1 as [|b2]; [rewrite spec_unfold_calls_1 by auto; simpl; lia|].
      cbv zeta. rewrite spec_unfold_calls by auto.
      rewrite inputs_tr_input, rounds_tr_input, inputs_tr_emit, rounds_tr_emit, inputs_tr_round, rounds_tr_round.
      destruct (tn calls) as [results| |]; try (simpl; lia).
      rewrite inputs_tr_emit, rounds_tr_emit.
      destruct (rd_index_of calls) as [ix|]; revgoals.
      + specialize (IH b2 (hist ++ assistant content calls :: map tool_msg results)%list).
        cbv zeta in IH. simpl. lia.
      + destruct b2; [simpl; lia|]. destruct (nth_error results ix); simpl; lia.
  Qed.

  (* ---- the shape of the history ---- *)

  (* the messages one completed round adds to the history *)
  Definition round_msgs (s : step) (results : list tmsg) : list msg :=
    match s with
    | SMsg content calls _ => assistant content calls :: map tool_msg results
    | SFail => []
    end.

  (* [history script k hist] = hist followed, for each of the first k replies, by the reply and the
     tool messages the tools node returned for its calls *)
  Theorem history_shape : forall script k hist h,
    history tn script k hist = Some h ->
    exists rounds,
      List.length rounds = k
      /\ Forall2 (fun s rs => match s with SMsg _ calls _ => tn calls = Ok rs | SFail => False end)
                 (firstn k script) rounds
      /\ h = (hist ++ flat_map (fun p => round_msgs (fst p) (snd p)) (combine (firstn k script) rounds))%list.
  Proof.
    induction script as [|s script IH]; intros k hist h H.
    - destruct k; simpl in H; [|discriminate]. inversion H; subst.
      exists []. simpl. rewrite app_nil_r. repeat split; constructor.
    - destruct k as [|k'].
      + simpl in H. inversion H; subst. exists []. simpl. rewrite app_nil_r. repeat split; constructor.
      + simpl in H. destruct s as [|content calls chunks]; [discriminate|].
        destruct (tn calls) as [results| |] eqn:Et; try discriminate.
        destruct (IH _ _ _ H) as [rounds [Hl [Hf Hh]]].
        exists (results :: rounds). simpl. split; [lia|]. split.
        * constructor; auto.
        * rewrite Hh. rewrite <- app_assoc. reflexivity.
  Qed.

  (* a tools node that answers every call, in call order, with that call's id (C17:
     tools_invoke_spec; [tools_invoke_ids] below for the tools node of the correspondence) *)
  Definition tn_in_order : Prop :=
    forall calls results, tn calls = Ok results -> map snd results = map c_id calls.

  Theorem round_results_in_call_order : forall calls results,
    tn_in_order -> tn calls = Ok results ->
    map m_tcid (map tool_msg results) = map c_id calls
    /\ Forall (fun m => m_role m = RTool /\ m_calls m = []) (map tool_msg results).
  Proof.
    intros calls results Hin Ht. split.
    - rewrite map_map. simpl. apply Hin. auto.
    - apply Forall_forall. intros m Hm. apply in_map_iff in Hm. destruct Hm as [r [Hr _]]. subst. auto.
  Qed.

  (* ---- the messages of the future ---- *)
  Hypothesis all_visible : forall c, visible c = true.

  Lemma emitted_all : forall calls results,
    List.length results = List.length calls ->
    emitted_results visible calls results = map tool_msg results.
  Proof.
    intros calls results Hl. unfold emitted_results.
    assert (F : forall l : list (call * tmsg), filter (fun p => visible (fst p)) l = l).
    { induction l as [|x l IHl]; simpl; auto. rewrite all_visible, IHl. reflexivity. }
    rewrite F. clear F.
    revert calls Hl. induction results as [|r rs IH]; intros calls Hl.
    - destruct calls; reflexivity.
    - destruct calls as [|c calls]; [discriminate|]. simpl. f_equal. apply IH. simpl in Hl. lia.
  Qed.

  (* every model input is the modifier applied to the original messages followed by a prefix of
     what the future hands out: the future IS the growing history *)
  Theorem emits_are_history : forall script budget hist k h,
    tn_in_order ->
    nth_error (t_inputs (react_spec script budget hist)) k = Some h ->
    exists n, h = modifier (hist ++ firstn n (t_emits (react_spec script budget hist))).
  Proof.
    intros script budget hist k h Hin. revert budget hist k h.
    induction script as [|s script IH]; intros budget hist k h H.
    - destruct budget; simpl in H.
      + destruct k; discriminate.
      + destruct k as [|[|]]; simpl in H; try discriminate. inversion H. exists 0. simpl. rewrite app_nil_r. auto.
    - destruct budget as [|b1]; [destruct k; discriminate|].
      destruct k as [|k'].
      + simpl in H. inversion H. exists 0. simpl. rewrite app_nil_r. auto.
      + destruct s as [|content calls chunks]; [simpl in H; destruct k'; discriminate|].
        destruct calls as [|c0 calls']; [simpl in H; destruct k'; discriminate|].
        remember (c0 :: calls') as calls. assert (Hne : calls <> []) by (subst; discriminate).
        destruct b1 as [|b2]; [rewrite spec_unfold_calls_1 in H by auto; simpl in H; destruct k'; discriminate|].
        rewrite spec_unfold_calls in * by auto.
        rewrite inputs_tr_input in H. cbn [nth_error] in H. rewrite inputs_tr_emit, inputs_tr_round in H.
        rewrite emits_tr_input, emits_tr_emit, emits_tr_round.
        destruct (tn calls) as [results| |] eqn:Et; try (destruct k'; discriminate).
        rewrite inputs_tr_emit in H. rewrite emits_tr_emit.
        assert (Hl : List.length results = List.length calls).
        { apply Hin in Et. apply (f_equal (@List.length string)) in Et. rewrite !map_length in Et. exact Et. }
        rewrite emitted_all by auto.
        destruct (rd_index_of calls) as [ix|]; revgoals.
        * destruct (IH _ _ _ _ H) as [n Hn].
          exists (S (List.length results) + n). rewrite Hn. f_equal.
          rewrite <- app_assoc. f_equal. simpl. f_equal.
          rewrite firstn_app. rewrite map_length.
          replace (List.length results + n - List.length results) with n by lia.
          rewrite (firstn_all2 (map tool_msg results)) by (rewrite map_length; lia). reflexivity.
        * destruct b2; [destruct k'; discriminate|].
          destruct (nth_error results ix); destruct k'; discriminate.
  Qed.

  (* an answer that is a model reply is the last message the future hands out *)
  Theorem emits_end_with_plain_answer : forall script budget hist m,
    t_out (react_spec script budget hist) = Final m -> m_role m = RAssistant ->
    exists pre, t_emits (react_spec script budget hist) = (pre ++ [m])%list.
  Proof.
    induction script as [|s script IH]; intros budget hist m H Hr.
    - destruct budget; simpl in H; discriminate.
    - destruct budget as [|b1]; [discriminate|].
      destruct s as [|content calls chunks]; [discriminate|].
      destruct calls as [|c0 calls'].
      + simpl in H. inversion H. exists []. reflexivity.
      + remember (c0 :: calls') as calls. assert (Hne : calls <> []) by (subst; discriminate).
        destruct b1 as [|b2]; [rewrite spec_unfold_calls_1 in H by auto; discriminate|].
        rewrite spec_unfold_calls in * by auto.
        rewrite out_tr_input, out_tr_emit, out_tr_round in H.
        rewrite emits_tr_input, emits_tr_emit, emits_tr_round.
        destruct (tn calls) as [results| |]; try discriminate.
        rewrite out_tr_emit in H. rewrite emits_tr_emit.
        destruct (rd_index_of calls) as [ix|]; revgoals.
        * destruct (IH _ _ _ H Hr) as [pre Hp]. rewrite Hp.
          exists ([assistant content calls] ++ emitted_results visible calls results ++ pre)%list.
          rewrite <- !app_assoc. reflexivity.
        * destruct b2; [discriminate|]. destruct (nth_error results ix) as [r|]; [|discriminate].
          simpl in H. inversion H; subst m. discriminate.
  Qed.

  (* the specification never fails "late": every failure of it is a failure of the run itself *)
  Lemma spec_not_late : forall script budget hist e,
    t_out (react_spec script budget hist) <> Failed (ELate e).
  Proof.
    induction script as [|s script IH]; intros budget hist e.
    - destruct budget; simpl; discriminate.
    - destruct budget as [|b1]; [simpl; discriminate|].
      destruct s as [|content calls chunks]; [simpl; discriminate|].
      destruct calls as [|c0 calls']; [simpl; discriminate|].
      remember (c0 :: calls') as calls. assert (Hne : calls <> []) by (subst; discriminate).
      destruct b1 as [|b2]; [rewrite spec_unfold_calls_1 by auto; simpl; discriminate|].
      rewrite spec_unfold_calls by auto.
      rewrite out_tr_input, out_tr_emit, out_tr_round.
      destruct (tn calls) as [results| |]; try (simpl; discriminate).
      rewrite out_tr_emit.
      destruct (rd_index_of calls) as [ix|].
      + destruct b2; [simpl; discriminate|]. destruct (nth_error results ix); simpl; discriminate.
      + apply IH.
  Qed.

  Theorem spec_future_closed_iff_final : forall script budget hist,
    future_closed (react_spec script budget hist) = true
    <-> exists m, t_out (react_spec script budget hist) = Final m.
  Proof.
    intros. unfold future_closed.
    pose proof (spec_not_late script budget hist) as H.
    destruct (t_out (react_spec script budget hist)) as [m|e]; split; intros G; eauto.
    - destruct e; try discriminate. exfalso. eapply H. reflexivity.
    - destruct G as [m G]. discriminate.
  Qed.
End ReactExt.

(* ---- the same statements for the graph-level model ---------------------------------------- *)
Section AgentExt.
  Variable tn : list call -> res (list tmsg).
  Variable tns : list call -> res (list string * list emitted * option N).
  Variable rd : string -> bool.
  Variable rd_nonempty : bool.
  Variable modifier : list msg -> list msg.
  Variable visible : call -> bool.
  Notation agent_run := (agent_run tn tns rd rd_nonempty modifier visible).
  Notation reply_exact := (reply_exact tn tns rd rd_nonempty).

  Theorem agent_kth_round : forall checker md script max_steps input k cs,
    Forall (reply_exact checker md) script ->
    nth_error (t_rounds (agent_run checker md max_steps script input)) k = Some cs ->
    cs <> [] /\ exists content chunks, nth_error script k = Some (SMsg content cs chunks).
  Proof. intros until cs. intros HF. rewrite agent_refines_spec by auto. apply kth_round. Qed.

  Theorem agent_alternation : forall checker md script max_steps input,
    Forall (reply_exact checker md) script ->
    let t := agent_run checker md max_steps script input in
    List.length (t_rounds t) <= List.length (t_inputs t) <= S (List.length (t_rounds t)).
  Proof. intros. subst t. rewrite agent_refines_spec by auto. apply alternation. Qed.

  Theorem agent_emits_are_history : forall checker md script max_steps input k h,
    Forall (reply_exact checker md) script ->
    (forall c, visible c = true) -> tn_in_order tn ->
    nth_error (t_inputs (agent_run checker md max_steps script input)) k = Some h ->
    exists n, h = modifier (input ++ firstn n (t_emits (agent_run checker md max_steps script input))).
  Proof. intros until h. intros HF Hv Hin. rewrite agent_refines_spec by auto. apply emits_are_history; auto. Qed.

  Theorem agent_emits_end_with_plain_answer : forall checker md script max_steps input m,
    Forall (reply_exact checker md) script ->
    t_out (agent_run checker md max_steps script input) = Final m -> m_role m = RAssistant ->
    exists pre, t_emits (agent_run checker md max_steps script input) = (pre ++ [m])%list.
  Proof. intros until m. intros HF. rewrite agent_refines_spec by auto. apply emits_end_with_plain_answer. Qed.

  (* the message future of a run is closed exactly when the run returns an answer (for runs inside
     the refinement's domain: no tool stream failing after it was opened) *)
  Theorem agent_future_closed_iff_final : forall checker md script max_steps input,
    Forall (reply_exact checker md) script ->
    future_closed (agent_run checker md max_steps script input) = true
    <-> exists m, t_out (agent_run checker md max_steps script input) = Final m.
  Proof. intros. rewrite agent_refines_spec by auto. apply spec_future_closed_iff_final. Qed.
End AgentExt.

(* ---- the default checker is exact except on "content before the tool call" --------------- *)
Lemma default_checker_char : forall cs,
  default_checker cs = existsb has_frags cs && negb (content_before_toolcall cs).
Proof.
  induction cs as [|c cs IH]; simpl; auto.
  destruct (has_frags c); simpl; auto.
  destruct (String.eqb (k_content c) ""); auto.
  destruct (existsb has_frags cs); reflexivity.
Qed.

Lemma default_checker_exact_iff : forall cs content calls,
  concat_chunks cs = Some (content, calls) ->
  (default_checker cs = nonempty calls <-> content_before_toolcall cs = false).
Proof.
  intros cs content calls H. rewrite default_checker_char.
  rewrite <- (exact_checker_exact cs content calls H). unfold exact_checker.
  assert (G : content_before_toolcall cs = true -> existsb has_frags cs = true).
  { clear. induction cs as [|c cs IH]; simpl; [discriminate|].
    destruct (has_frags c); [discriminate|]. simpl.
    destruct (String.eqb (k_content c) ""); auto. }
  destruct (content_before_toolcall cs); split; intro H1; auto.
  - rewrite G in H1 by reflexivity. discriminate.
  - discriminate.
  - simpl. apply andb_true_r.
Qed.

(* no reply of the script streams content before its first tool call *)
Definition tool_calls_first (s : step) : Prop :=
  match s with
  | SFail => True
  | SMsg _ _ chunks => content_before_toolcall chunks = false
  end.

Section DefaultChecker.
  Variable tn : list call -> res (list tmsg).
  Variable tns : list call -> res (list string * list emitted * option N).
  Variable rd : string -> bool.
  Variable rd_nonempty : bool.
  Variable modifier : list msg -> list msg.
  Variable visible : call -> bool.

  (* Generate and Stream agree with the DEFAULT checker on every script outside the known finding *)
  Theorem generate_stream_agree_default : forall script max_steps input,
    Forall chunking_valid script ->
    Forall tool_calls_first script ->
    Forall (tools_stream_exact tn tns rd rd_nonempty) script ->
    agent_run tn tns rd rd_nonempty modifier visible default_checker Stream max_steps script input
    = agent_run tn tns rd rd_nonempty modifier visible default_checker Generate max_steps script input.
  Proof.
    intros script max_steps input Hv Hf Ht. apply generate_stream_agree_gen; auto.
    - apply default_checker_whole.
    - rewrite Forall_forall in *. intros s Hs. specialize (Hv s Hs). specialize (Hf s Hs).
      destruct s as [|content calls chunks]; simpl in *; auto.
      apply (default_checker_exact_iff chunks content calls Hv). exact Hf.
  Qed.
End DefaultChecker.

(* ---- the tools node of the correspondence answers in call order ------------------------- *)
Section ToolsIds.
  Variable kind_of : string -> option tkind.
  Variable inv : string -> string -> tres.
  Variable str : string -> string -> sres.
  Variable handler : option (string -> string -> tres).

  Lemma gen_task_call_of : forall c t, gen_task kind_of handler c = Ok t -> task_call t = c.
  Proof.
    intros c t H. unfold gen_task in H. destruct (kind_of (c_name c)).
    - inversion H. reflexivity.
    - destruct handler; inversion H. reflexivity.
  Qed.

  Lemma mapM_task_calls : forall calls tasks,
    res_mapM (gen_task kind_of handler) calls = Ok tasks -> map task_call tasks = calls.
  Proof.
    induction calls as [|c calls IH]; intros tasks H.
    - simpl in H. inversion H. reflexivity.
    - cbn [res_mapM] in H.
      destruct (gen_task kind_of handler c) as [t| |] eqn:Eg; try discriminate.
      destruct (res_mapM (gen_task kind_of handler) calls) as [ts| |] eqn:Em; try discriminate.
      simpl in H. inversion H; subst. simpl. f_equal.
      + apply gen_task_call_of. auto.
      + apply IH. reflexivity.
  Qed.

  Lemma assemble_ids : forall slots tasks results,
    List.length slots = List.length tasks ->
    assemble_invoke slots tasks = Ok results ->
    map snd results = map (fun t => c_id (task_call t)) tasks.
  Proof.
    induction slots as [|s slots IH]; intros tasks results Hl H.
    - destruct tasks; [|discriminate]. simpl in H. inversion H. reflexivity.
    - destruct tasks as [|t tasks]; [discriminate|]. simpl in H.
      destruct s as [[o|e|]|]; try discriminate.
      destruct (assemble_invoke slots tasks) as [r| |] eqn:E; try discriminate.
      simpl in H. inversion H; subst. simpl. f_equal. apply IH; auto.
  Qed.

  Lemma set_nth_len : forall A i (a : A) l, List.length (set_nth i a l) = List.length l.
  Proof. induction i; destruct l; simpl; auto. Qed.

  Lemma run_slots_len : forall R (exec : nat -> Tools.task -> R) pi (tasks : list Tools.task),
    List.length (run_slots exec pi tasks) = List.length tasks.
  Proof.
    intros R exec pi tasks. unfold run_slots.
    assert (G : forall slots, List.length slots = List.length tasks ->
              List.length (fold_left (fun slots i => match nth_error tasks i with
                                                     | Some t => set_nth i (Some (exec i t)) slots
                                                     | None => slots end) pi slots) = List.length tasks).
    { induction pi as [|i pi IH]; intros slots Hs; simpl; auto.
      apply IH. destruct (nth_error tasks i); auto. rewrite set_nth_len. auto. }
    apply G. rewrite map_length. reflexivity.
  Qed.

  (* whatever the completion order, tool and handler behaviour: a successful Invoke of the tools
     node returns one message per call, carrying the calls' ids in call order *)
  Theorem tools_invoke_ids : forall pi role_ok calls results,
    tools_invoke kind_of inv str handler pi role_ok calls = Ok results ->
    map snd results = map c_id calls.
  Proof.
    intros pi role_ok calls results H. unfold tools_invoke in H.
    destruct (gen_tasks kind_of handler role_ok calls) as [tasks| |] eqn:Eg; try discriminate.
    simpl in H. apply assemble_ids in H; [|apply run_slots_len].
    rewrite H. unfold gen_tasks in Eg. destruct (negb role_ok); [discriminate|].
    destruct calls as [|c calls]; [discriminate|].
    apply mapM_task_calls in Eg. rewrite <- Eg. rewrite map_map. reflexivity.
  Qed.

  Corollary in_graph_tools_in_order : forall pi_of,
    tn_in_order (fun calls => in_graph (tools_invoke kind_of inv str handler (pi_of calls) true calls)).
  Proof.
    intros pi_of calls results H. unfold in_graph in H.
    destruct (tools_invoke kind_of inv str handler (pi_of calls) true calls) eqn:E; try discriminate.
    inversion H; subst. eapply tools_invoke_ids; eauto.
  Qed.
End ToolsIds.
