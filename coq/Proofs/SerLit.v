(* Proofs/SerLit.v — a literal the JSON layer refuses makes the encoder return an error, at
   any depth, as a value or as a map key (NaN / Inf / complex numbers fail loudly). *)
From Coq Require Import List Bool Arith NArith ZArith String Ascii Lia.
From Eino Require Import Base.Util Base.Universe Model.Ser Model.SerLits Proofs.Ser Proofs.SerLoud.
Import ListNotations.
Local Open Scope bool_scope.

Section LitLoud.
  Variables J JK : Type.
  Variable jenc : base -> lit -> res J.
  Variable kenc : base -> lit -> res JK.
  Variable fx : fixes.
  Variable reg : registry.
  Hypothesis jenc_np : forall b l, jenc b l <> Panic.
  Hypothesis kenc_np : forall b l, kenc b l <> Panic.

  Notation ENC := (enc_at J JK jenc kenc fx reg).
  Notation NP := (enc_no_panic J JK jenc kenc fx reg jenc_np kenc_np).

  (* an error anywhere below a bind is an error of the whole (nothing panics before it) *)
  Lemma bind_err_r {A B} (r : res A) (f : A -> res B) :
    r <> Panic -> (forall a, r = Ok a -> exists e, f a = Err e) -> exists e, res_bind r f = Err e.
  Proof. intros Hnp H. destruct r; simpl; eauto. congruence. Qed.

  Definition refused (bl : base * lit) : Prop := exists e, jenc (fst bl) (snd bl) = Err e.
  Definition krefused (bl : base * lit) : Prop := exists e, kenc (fst bl) (snd bl) = Err e.

  (* a refused literal inside a key makes the key's encoding fail *)
  Lemma enc_key_err : forall k,
    (exists bl, In bl (key_of k) /\ krefused bl) -> exists e, enc_key JK kenc k = Err e.
  Proof.
    induction k using val_ind'; intros [bl [Hi Hr]]; simpl in Hi; try contradiction.
    - destruct Hi as [<-|[]]. destruct Hr as [e He]. simpl in He. simpl. rewrite He. simpl. eauto.
    - destruct Hi as [<-|[]]. destruct Hr as [e He]. simpl in He. simpl. rewrite He. simpl. eauto.
    - apply in_flat_map in Hi. destruct Hi as [fv [Hfv Hi]].
      rewrite Forall_forall in H. destruct (H _ Hfv (ex_intro _ bl (conj Hi Hr))) as [e He].
      destruct (mapM_err (fun fv => do j <- enc_key JK kenc (snd fv); Ok (fst fv, j)) fs) as [e' He'].
      { intros [g u] _. simpl. destruct (enc_key JK kenc u) eqn:Eu; simpl; try discriminate.
        exfalso. eapply enc_key_np; eauto. }
      { exists fv. split; [exact Hfv|]. rewrite He. simpl. eauto. }
      simpl. rewrite He'. simpl. eauto.
    - apply in_flat_map in Hi. destruct Hi as [x [Hx Hi]].
      rewrite Forall_forall in H. destruct (H _ Hx (ex_intro _ bl (conj Hi Hr))) as [e He].
      destruct (mapM_err (enc_key JK kenc) es) as [e' He'].
      { intros a _. now apply enc_key_np. }
      { exists x. split; eauto. }
      simpl. rewrite He'. simpl. eauto.
  Qed.

  Lemma entry_np : forall kv : val * val,
    (do i <- ENC 0 (snd kv); do jk <- enc_key JK kenc (fst kv); Ok (jk, i)) <> Panic.
  Proof.
    intros [x y]. simpl. destruct (ENC 0 y) eqn:Ey; simpl; try discriminate.
    - destruct (enc_key JK kenc x) eqn:Ex; simpl; try discriminate.
      exfalso. eapply enc_key_np; eauto.
    - exfalso. eapply NP; eauto.
  Qed.
  Lemma field_np : forall fv : string * val, (do i <- ENC 0 (snd fv); Ok (fst fv, i)) <> Panic.
  Proof.
    intros [g u]. simpl. destruct (ENC 0 u) eqn:Eu; simpl; try discriminate.
    exfalso. eapply NP; eauto.
  Qed.

  Lemma lit_err : forall v pn,
    (exists bl, In bl (val_lits v) /\ refused bl) \/ (exists bl, In bl (key_lits v) /\ krefused bl) ->
    exists e, ENC pn v = Err e.
  Proof.
    induction v using val_ind'; intros pn Hin.
    - (* VBase *) destruct Hin as [[bl [[<-|[]] [e He]]]|[bl [[] _]]]. simpl in He. simpl.
      apply bind_err_r; [apply lookup_name_np|]. intros k _. rewrite He. simpl. eauto.
    - destruct Hin as [[bl [[<-|[]] [e He]]]|[bl [[] _]]]. simpl in He. simpl.
      apply bind_err_r; [apply lookup_name_np|]. intros k _. rewrite He. simpl. eauto.
    - (* VStruct *) simpl.
      apply bind_err_r; [apply lookup_name_np|]. intros k _.
      assert (Hf : exists fv, In fv fs /\
                ((exists bl, In bl (val_lits (snd fv)) /\ refused bl) \/
                 (exists bl, In bl (key_lits (snd fv)) /\ krefused bl))).
      { destruct Hin as [[bl [Hi Hr]]|[bl [Hi Hr]]]; simpl in Hi; apply in_flat_map in Hi;
          destruct Hi as [fv [Hfv Hi]]; exists fv; split; eauto. }
      destruct Hf as [fv [Hfv Hsub]].
      rewrite Forall_forall in H. destruct (H _ Hfv 0%nat Hsub) as [e He].
      destruct (mapM_err (fun fv => do i <- ENC 0 (snd fv); Ok (fst fv, i)) fs) as [e' He'].
      { intros a _. apply field_np. }
      { exists fv. split; [exact Hfv|]. rewrite He. simpl. eauto. }
      rewrite He'. simpl. eauto.
    - (* VNilPtr *) destruct Hin as [[bl [[] _]]|[bl [[] _]]].
    - (* VPtr *) simpl. apply IHv. exact Hin.
    - destruct Hin as [[bl [[] _]]|[bl [[] _]]].
    - (* VSlice Some *) simpl.
      apply bind_err_r; [apply elem_key_np|]. intros k _.
      assert (Hf : exists e, In e es /\
                ((exists bl, In bl (val_lits e) /\ refused bl) \/
                 (exists bl, In bl (key_lits e) /\ krefused bl))).
      { destruct Hin as [[bl [Hi Hr]]|[bl [Hi Hr]]]; simpl in Hi; apply in_flat_map in Hi;
          destruct Hi as [x [Hx Hi]]; exists x; split; eauto. }
      destruct Hf as [x [Hx Hsub]].
      rewrite Forall_forall in H. destruct (H _ Hx 0%nat Hsub) as [e He].
      destruct (mapM_err (ENC 0) es) as [e' He'].
      { intros a _. apply NP. }
      { exists x. split; eauto. }
      rewrite He'. simpl. eauto.
    - destruct Hin as [[bl [[] _]]|[bl [[] _]]].
    - (* VMap Some *) simpl.
      apply bind_err_r; [apply elem_key_np|]. intros kk _.
      apply bind_err_r; [apply elem_key_np|]. intros vk _.
      assert (Hf : exists kv, In kv kvs /\
                ((exists bl, In bl (val_lits (snd kv)) /\ refused bl) \/
                 (exists bl, In bl (key_of (fst kv)) /\ krefused bl) \/
                 (exists bl, In bl (key_lits (snd kv)) /\ krefused bl))).
      { destruct Hin as [[bl [Hi Hr]]|[bl [Hi Hr]]]; simpl in Hi; apply in_flat_map in Hi;
          destruct Hi as [kv [Hkv Hi]]; exists kv; split; eauto.
        apply in_app_or in Hi. destruct Hi; eauto. }
      destruct Hf as [[ka vb] [Hkv Hsub]]. simpl in Hsub.
      rewrite Forall_forall in H. destruct (H _ Hkv) as [_ Hb]. simpl in Hb.
      destruct (mapM_err (fun kv => do i <- ENC 0 (snd kv); do jk <- enc_key JK kenc (fst kv); Ok (jk, i)) kvs)
        as [e' He'].
      { intros a _. apply entry_np. }
      { exists (ka, vb). split; [exact Hkv|]. simpl.
        destruct Hsub as [Hv|[Hk|Hv]].
        - destruct (Hb 0%nat (or_introl Hv)) as [e He]. rewrite He. simpl. eauto.
        - apply bind_err_r; [apply NP|]. intros i _.
          destruct (enc_key_err ka Hk) as [e He]. rewrite He. simpl. eauto.
        - destruct (Hb 0%nat (or_intror Hv)) as [e He]. rewrite He. simpl. eauto. }
      rewrite He'. simpl. eauto.
    - destruct Hin as [[bl [[] _]]|[bl [[] _]]].
    - (* VIface Some *) simpl. destruct pn; [apply IHv; exact Hin|eauto].
    - (* VArray *) simpl.
      apply bind_err_r; [apply elem_key_np|]. intros k _.
      assert (Hf : exists e, In e es /\
                ((exists bl, In bl (val_lits e) /\ refused bl) \/
                 (exists bl, In bl (key_lits e) /\ krefused bl))).
      { destruct Hin as [[bl [Hi Hr]]|[bl [Hi Hr]]]; simpl in Hi; apply in_flat_map in Hi;
          destruct Hi as [x [Hx Hi]]; exists x; split; eauto. }
      destruct Hf as [x [Hx Hsub]].
      rewrite Forall_forall in H. destruct (H _ Hx 0%nat Hsub) as [e He].
      destruct (mapM_err (ENC 0) es) as [e' He'].
      { intros a _. apply NP. }
      { exists x. split; eauto. }
      rewrite He'. simpl. eauto.
    - (* VDef *) simpl. destruct (IHv pn Hin) as [e He].
      destruct (_ && _ && _); [eauto|]. rewrite He. simpl. eauto.
  Qed.
End LitLoud.

(* the concrete JSON layer: NaN, Inf and complex numbers are refused, as values and as keys *)
Lemma unencodable_c_jenc : forall b l, unencodable_c b l = true -> exists e, jenc_c b l = Err e.
Proof.
  intros b l H. destruct l; simpl in *; try discriminate H; eauto.
  destruct (float_finite b bits); [discriminate H|eauto].
Qed.
Lemma unencodable_c_kenc : forall b l, unencodable_c b l = true -> exists e, kenc_c b l = Err e.
Proof.
  intros b l H. destruct l; simpl in *; try discriminate H; eauto.
  destruct (float_finite b bits); [discriminate H|eauto].
Qed.

Lemma nonfinite_complex_err : forall fx reg v pn b l,
  In (b, l) (val_lits v) \/ In (b, l) (key_lits v) -> unencodable_c b l = true ->
  exists e, enc_at lit lit jenc_c kenc_c fx reg pn v = Err e.
Proof.
  intros fx reg v pn b l Hin Hu.
  apply (lit_err lit lit jenc_c kenc_c fx reg jenc_c_np kenc_c_np).
  destruct Hin as [Hin|Hin]; [left|right]; exists (b, l); split; try assumption.
  - apply unencodable_c_jenc. exact Hu.
  - apply unencodable_c_kenc. exact Hu.
Qed.

(* witnesses for the non-vacuity examples of Props/C12.v *)
Definition w_inf : val :=
  VPtr (VSlice (TPtr (TBase BFloat32)) (Some [VPtr (VBase BFloat32 (LFloat 1069547520));
                                              VNilPtr (TBase BFloat32);
                                              VPtr (VBase BFloat32 (LFloat 2139095040))])).
Definition w_nankey : val :=
  VSlice TAny (Some [VIface TAny (Some (VStruct 0 [("M"%string,
     VMap (TBase BFloat64) (TBase BInt) (Some [(VBase BFloat64 (LFloat 9221120237041090560), VBase BInt (LInt 1))]))]))]).
