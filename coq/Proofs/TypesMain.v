(* Proofs/TypesMain.v — the theorems of property C07 about whole construction sequences
   (Model/TypeBuilder.v [run_ops] from [init_graph]), assembled from the invariants of
   Proofs/TypesBuilder.v and the run-time safety of Proofs/TypesRun.v. *)
From Eino Require Import Base.Util Model.Types Model.TypeBuilder.
From Eino Require Import Proofs.TypesLattice Proofs.TypesBuilder Proofs.TypesRun Proofs.TypesInv2 Proofs.TypesMay.
From Coq Require Import Lia.
Arguments check_assignable : simpl never.

Section M.
  Variable u : univ.

  (* every state reached by Add* / Compile calls from a new graph satisfies the invariant *)
  Lemma reach_inv : forall orcs i o s ops st oks,
    run_ops u orcs 0 (init_graph i o s) ops = (st, oks) -> inv u st.
  Proof.
    intros orcs i o s ops st oks H.
    destruct (run_ops_spec u ops orcs 0%nat _ _ _ (inv_init u i o s) H) as [I _]. exact I.
  Qed.

  (* ---------------------------------------------------------------- validated_edges_stay_valid *)

  Lemma stay_valid_from : forall orcs j st ops st' oks,
    inv u st -> run_ops u orcs j st ops = (st', oks) ->
    (forall k t, in_ty st k = Some t -> in_ty st' k = Some t) /\
    (forall k t, out_ty st k = Some t -> out_ty st' k = Some t) /\
    (forall p, conn_ok u st p -> conn_ok u st' p).
  Proof.
    intros orcs j st ops st' oks I H.
    destruct (run_ops_spec u ops orcs j _ _ _ I H) as [_ G].
    split; [apply (grow_in _ _ G)|]. split; [apply (grow_out _ _ G)|].
    intros p; apply grow_conn_ok; exact G.
  Qed.

  Theorem stay_valid : forall orcs i o s ops1 ops2 st1 oks1 st2 oks2,
    run_ops u orcs 0 (init_graph i o s) ops1 = (st1, oks1) ->
    run_ops u orcs 0 (init_graph i o s) (ops1 ++ ops2) = (st2, oks2) ->
    (forall k t, in_ty st1 k = Some t -> in_ty st2 k = Some t) /\
    (forall k t, out_ty st1 k = Some t -> out_ty st2 k = Some t) /\
    (forall p, conn_ok u st1 p -> conn_ok u st2 p).
  Proof.
    intros orcs i o s ops1 ops2 st1 oks1 st2 oks2 H1 H2.
    rewrite run_ops_app, H1 in H2. simpl in H2.
    destruct (run_ops u orcs (List.length ops1) st1 ops2) as [st2' oks2'] eqn:R.
    inversion H2; subst st2' oks2; clear H2.
    eapply stay_valid_from; [eapply reach_inv; exact H1 | exact R].
  Qed.

  (* ---------------------------------------------------------------- compile_sound *)

  (* what a connection upstream type [a] -> downstream type [b] guarantees statically;
     [conv]: a run-time converter asserting [b] sits on the connection *)
  Definition link_sound (a b : ty) (conv : Prop) : Prop :=
    (forall x y, a = TConc x -> b = TConc y -> x = y) /\
    (is_iface a = false -> check_assignable u (Some a) (Some b) = Must) /\
    (is_iface a = true ->
       check_assignable u (Some a) (Some b) = Must \/
       (check_assignable u (Some a) (Some b) = May /\ conv)).

  Lemma link_sound_of : forall a b (conv : Prop),
    check_assignable u (Some a) (Some b) <> MustNot ->
    (check_assignable u (Some a) (Some b) = May -> conv) ->
    link_sound a b conv.
  Proof.
    intros a b conv Hc Hm. split; [|split].
    - intros x y Ea Eb; subst. eapply concrete_pair_equal; eauto.
    - intro Ia. destruct a as [x| |]; try discriminate. apply concrete_upstream_static; exact Hc.
    - intros _. destruct (check_assignable u (Some a) (Some b)) eqn:C.
      + exfalso; apply Hc; reflexivity.
      + left; reflexivity.
      + right; split; [reflexivity | apply Hm; reflexivity].
  Qed.

  Definition handler_sound (n : node) : Prop :=
    (forall t, n_pre n = Some t -> if n_pass n then t = TAny else n_in n = Some t) /\
    (forall t, n_post n = Some t -> if n_pass n then t = TAny else n_out n = Some t).

  Definition compiled_sound (st : gstate) : Prop :=
    (* every data edge and every branch end: both types known and compatible *)
    (forall s e, In (s, e) (g_data st ++ branch_pairs st) ->
       exists a b, out_ty st s = Some a /\ in_ty st e = Some b /\
                   link_sound a b (In (s, e, b) (g_hedge st))) /\
    (* every branch condition *)
    (forall s b, In (s, b) (g_branches st) ->
       exists a, out_ty st s = Some a /\ link_sound a (b_ty b) (In (b_ty b) (b_conv b))) /\
    (* every node: typed, in = out for a passthrough node, handlers declared at the node's type *)
    (forall k n, get_node st k = Some n ->
       (exists t, n_in n = Some t) /\ (exists t, n_out n = Some t) /\
       (n_pass n = true -> n_in n = n_out n) /\ handler_sound n) /\
    (* nothing is left to validate *)
    g_tvm st = [].

  Lemma compiled_sound_of_inv : forall st, inv u st -> g_compiled st = true -> compiled_sound st.
  Proof.
    intros st I C. split; [|split; [|split]].
    - intros s e Hp. destruct (compiled_all_validated u st I C (s, e) Hp) as [[a [b [Ha [Hb [Hc Hm]]]]] _].
      simpl in *. exists a, b. split; [exact Ha|]. split; [exact Hb|]. apply link_sound_of; auto.
    - intros s b Hb. destruct (inv_branches _ _ I s b Hb) as [_ [a [Ha [Hc Hm]]]].
      exists a. split; [exact Ha|]. apply link_sound_of; auto.
    - intros k n G. destruct (inv_nodes _ _ I k n G) as [[P [Q [Pr Po]]] _].
      destruct (inv_compiled _ _ I C) as [_ AT]. destruct (AT k n G) as [t Ht].
      split; [eauto|]. split.
      + destruct (n_pass n) eqn:Pn.
        * exists t. rewrite <- (P eq_refl). exact Ht.
        * destruct (Q eq_refl) as [ti [to [_ Ho]]]. eauto.
      + split; [exact P|]. split; [exact Pr | exact Po].
    - apply (inv_compiled _ _ I C).
  Qed.

  Theorem compile_sound_main : forall orcs i o s ops st oks,
    run_ops u orcs 0 (init_graph i o s) ops = (st, oks) ->
    g_compiled st = true -> compiled_sound st.
  Proof.
    intros orcs i o s ops st oks H C. apply compiled_sound_of_inv; [|exact C].
    eapply reach_inv; exact H.
  Qed.

  (* ... in particular right after a Compile call that returned nil *)
  Lemma run_ops_snoc : forall orcs j st ops o st' oks,
    run_ops u orcs j st (ops ++ [o]) = (st', oks) ->
    exists st1 oks1 ok, run_ops u orcs j st ops = (st1, oks1) /\
      step u (orcs (j + List.length ops)%nat) st1 o = (st', ok) /\ oks = oks1 ++ [ok].
  Proof.
    intros orcs j st ops o st' oks H. rewrite run_ops_app in H.
    destruct (run_ops u orcs j st ops) as [st1 oks1].
    exists st1, oks1. unfold run_ops in H; simpl in H. unfold step.
    destruct (step_sel u false false false (orcs (j + List.length ops)%nat) st1 o) as [st2 ok].
    exists ok. inversion H; subst. auto.
  Qed.

  Theorem compile_sound_last : forall orcs i o s ops st oks,
    run_ops u orcs 0 (init_graph i o s) (ops ++ [OpCompile]) = (st, oks) ->
    last oks false = true -> compiled_sound st.
  Proof.
    intros orcs i o s ops st oks H L.
    destruct (run_ops_snoc _ _ _ _ _ _ _ H) as [st1 [oks1 [ok [H1 [H2 E]]]]].
    subst oks. rewrite last_last in L. subst ok. simpl in H2.
    pose proof (reach_inv _ _ _ _ _ _ _ H1) as I1.
    destruct (compile_spec u st1 st true I1 H2) as [I2 [_ C]].
    apply compiled_sound_of_inv; [exact I2 | apply C; reflexivity].
  Qed.
End M.

(* ---------------------------------------------------------------- run_type_safe *)
Section M2.
  Variable u : univ.

  Theorem run_type_safe_main : forall orcs i o s ops st oks emit input,
    run_ops u orcs 0 (init_graph i o s) ops = (st, oks) -> g_compiled st = true ->
    emit_ok u emit st -> hret_ok u st -> has_type u input (g_in st) = true ->
    run u (assert_type u) emit st input <> RPanicRec /\
    run u (assert_type u) emit st input <> RPanicEsc.
  Proof.
    intros orcs i o s ops st oks emit input H C EM HR HI.
    apply run_safe; auto. split; [eapply reach_inv; exact H | exact C].
  Qed.
End M2.

(* ---------------------------------------------------------------- may_edges_error_iff *)
Section M3.
  Variable u : univ.

  (* one superstep *)
  Theorem may_step_main : forall orcs i o s ops st oks done,
    run_ops u orcs 0 (init_graph i o s) ops = (st, oks) -> g_compiled st = true ->
    (forall x, In x done -> done_ok u st x) ->
    (next u (assert_type u) st done = inl RTypeErr -> step_mismatch u st done = true) /\
    (step_mismatch u st done = true ->
       next u (assert_type u) st done = inl RTypeErr \/ next u (assert_type u) st done = inl ROther) /\
    (choices_valid st ->
       (next u (assert_type u) st done = inl RTypeErr <-> step_mismatch u st done = true)).
  Proof.
    intros orcs i o s ops st oks done H C HD.
    apply next_type_error_iff; [split; [eapply reach_inv; exact H | exact C] | eapply reach_inv2; exact H | exact HD].
  Qed.

  (* the whole run *)
  Theorem may_run_main : forall orcs i o s ops st oks emit input,
    run_ops u orcs 0 (init_graph i o s) ops = (st, oks) -> g_compiled st = true ->
    emit_ok u emit st -> hret_ok u st -> has_type u input (g_in st) = true -> choices_valid st ->
    (run u (assert_type u) emit st input = RTypeErr <->
     (exists done, In done (run_dones u emit st input) /\ step_mismatch u st done = true) \/
     (exists tasks, In tasks (run_tasks u emit st input) /\ exec_mismatch u st tasks = true)).
  Proof.
    intros orcs i o s ops st oks emit input H C EM HR HI V.
    apply run_type_error_iff; auto.
    - split; [eapply reach_inv; exact H | exact C].
    - eapply reach_inv2; exact H.
  Qed.

  Theorem concrete_upstream_main : forall orcs i o s ops st oks k d c,
    run_ops u orcs 0 (init_graph i o s) ops = (st, oks) -> g_compiled st = true ->
    choices_valid st -> done_ok u st (k, d) -> out_ty st k = Some (TConc c) ->
    bad_branch u st k d = false /\ bad_target u st k d = false.
  Proof.
    intros orcs i o s ops st oks k d c H C V D O.
    eapply concrete_upstream_no_mismatch; eauto. split; [eapply reach_inv; exact H | exact C].
  Qed.
End M3.
