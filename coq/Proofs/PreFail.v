(* Proofs/PreFail.v — property C03: a node whose state pre-handler fails (behaviour 4; taskManager.submit
   runs the pre-processors of all new tasks before it starts any of them, graph_manager.go:306-317)
   is never executed - in the functional models of Model/Confluence.v, for every completion order /
   schedule, and along every path of the composed system of Model/RunHandoff.v (every interleaving of
   executors, collector and run loop).  The execution log only ever grows by steps none of whose
   tasks has a failing pre-handler. *)
From Eino Require Import Base.Util Model.TaskMgr Model.Confluence Model.EagerSkip Model.RunHandoff.
From Eino Require Import Proofs.Confluence Proofs.Eager Proofs.RunHandoff.

Definition clean_log (g : graph) (log : exec_log) : Prop :=
  forall y i, In (y, i) log -> forall n, In n g -> n_id n = y -> n_fail n <> 4%N.

Definition tasks_in (g : graph) (ts : list (node * val)) : Prop := forall t, In t ts -> In (fst t) g.

Lemma calc_next_tasks_in m g s cs ts s' : calc_next m g s cs = NTasks ts s' -> tasks_in g ts.
Proof.
  unfold calc_next, take_ready.
  destruct (find is_end _) as [[n v]|]; [discriminate|]. intros H; inversion H; subst.
  intros t Ht. apply in_map_iff in Ht. destruct Ht as (n & <- & Hn). simpl.
  apply filter_In in Hn. exact (proj1 Hn).
Qed.

Lemma clean_nil g : clean_log g [].
Proof. intros y i []. Qed.

Lemma clean_app g log ts :
  NoDup (map n_id g) -> clean_log g log -> tasks_in g ts -> existsb prefail ts = false ->
  clean_log g (log ++ log_of ts).
Proof.
  intros Hnd Hc Hin Hpf y i Hy n Hn E. apply in_app_or in Hy. destruct Hy as [Hy|Hy]; [exact (Hc y i Hy n Hn E)|].
  unfold log_of in Hy. apply in_map_iff in Hy. destruct Hy as (t & Et & Ht). inversion Et; subst.
  assert (n = fst t) by (apply (node_eq g Hnd); auto). subst n.
  intros K. assert (P : prefail t = true) by (unfold prefail; rewrite K; reflexivity).
  assert (X : existsb prefail ts = true) by (apply existsb_exists; exists t; auto). congruence.
Qed.

Section Clean.
Variable g : graph.
Hypothesis Hnd : NoDup (map n_id g).

Lemma run_batch_clean ord m : forall fuel s tasks log,
  clean_log g log -> tasks_in g tasks -> clean_log g (snd (run_batch ord m g fuel s tasks log)).
Proof.
  induction fuel as [|f IH]; intros s tasks log Hc Hin; simpl; [exact Hc|].
  destruct (existsb prefail tasks) eqn:Epf; [exact Hc|].
  assert (Hc' : clean_log g (log ++ log_of tasks)) by (apply clean_app; assumption).
  destruct (existsb failed tasks); [exact Hc'|].
  destruct tasks as [|t0 ts0]; [exact Hc'|].
  destruct (calc_next m g s (ord (map run_task (t0 :: ts0)))) as [v|ts s'] eqn:Ec; [exact Hc'|].
  apply IH; [exact Hc'|]. eapply calc_next_tasks_in; exact Ec.
Qed.

Lemma batch_clean ord m fuel : clean_log g (snd (batch ord m g fuel)).
Proof.
  unfold batch. destruct (start_next m g) as [v|ts s] eqn:E; [apply clean_nil|].
  apply run_batch_clean; [apply clean_nil|]. eapply calc_next_tasks_in; exact E.
Qed.

Lemma run_eager_clean pick : forall fuel s running log,
  clean_log g log -> clean_log g (snd (fst (run_eager pick g fuel s running log))).
Proof.
  induction fuel as [|f IH]; intros s running log Hc; simpl; [exact Hc|].
  destruct (nth_error running _) as [t|]; [|exact Hc].
  destruct (failed t); [exact Hc|].
  destruct (calc_next Dag g s [run_task t]) as [v|ts s'] eqn:Ec; [exact Hc|].
  destruct (existsb prefail ts) eqn:Epf; [exact Hc|].
  apply IH. apply clean_app; try assumption. eapply calc_next_tasks_in; exact Ec.
Qed.

Lemma eager_clean pick fuel : clean_log g (snd (fst (eager pick g fuel))).
Proof.
  unfold eager. destruct (start_next Dag g) as [v|ts s] eqn:E; [apply clean_nil|].
  destruct (existsb prefail ts) eqn:Epf; [apply clean_nil|].
  apply run_eager_clean. change (log_of ts) with ([] ++ log_of ts).
  apply clean_app; try assumption; [apply clean_nil|]. eapply calc_next_tasks_in; exact E.
Qed.

(* the composed system *)
Lemma enter_clean na n ch rest ts col log fuel :
  clean_log g log -> tasks_in g ts -> clean_log g (r_log (enter na n ch rest ts col log fuel)).
Proof.
  intros Hc Hin. unfold enter. destruct na.
  - destruct fuel as [|f]; [exact Hc|]. destruct (existsb prefail ts) eqn:Epf; [exact Hc|].
    simpl. apply clean_app; assumption.
  - destruct (existsb prefail ts) eqn:Epf; [exact Hc|]. simpl. apply clean_app; assumption.
Qed.

Lemma cstep_clean na m s r s' r' :
  cstep na m g (s, r) (s', r') -> clean_log g (r_log r) -> clean_log g (r_log r').
Proof.
  intros Hs Hc. inversion Hs; subst; try exact Hc.
  - (* batch resolve *)
    match goal with H : resolve_batch _ _ _ _ = Some _ |- _ => rename H into Hr end.
    unfold resolve_batch in Hr.
    destruct (lookup_all _ _) as [cts|]; [|discriminate].
    destruct (negb _); [discriminate|].
    destruct (existsb failed cts); [inversion Hr; subst; exact Hc|].
    destruct cts as [|c0 cts0]; [inversion Hr; subst; exact Hc|].
    destruct (calc_next m g (r_ch r) _) as [v|ts ch'] eqn:Ec; inversion Hr; subst; [exact Hc|].
    apply (enter_clean true (num s') ch' [] ts (collected s') (r_log r) (r_fuel r)); [exact Hc|].
    eapply calc_next_tasks_in; exact Ec.
  - (* eager resolve *)
    match goal with H : resolve_eager _ _ _ = Some _ |- _ => rename H into Hr end.
    unfold resolve_eager in Hr.
    destruct (new_col s' r) as [|[t e] [|? ?]]; try discriminate.
    destruct (split_task t (r_run r)) as [[x rest]|]; [|discriminate].
    destruct (negb _); [discriminate|].
    destruct (failed x); [inversion Hr; subst; exact Hc|].
    destruct (calc_next Dag g (r_ch r) _) as [v|ts ch'] eqn:Ec; inversion Hr; subst; [exact Hc|].
    apply (enter_clean false (num s') ch' rest ts (collected s') (r_log r) (r_fuel r)); [exact Hc|].
    eapply calc_next_tasks_in; exact Ec.
Qed.

Lemma creach_clean na m F x : creach na m g F x -> clean_log g (r_log (snd x)).
Proof.
  induction 1 as [|[s r] [s' r'] _ IH Hs]; simpl in *.
  - unfold rl_init. destruct (start_next m g) as [v|ts ch] eqn:E; [apply clean_nil|].
    apply enter_clean; [apply clean_nil|]. eapply calc_next_tasks_in; exact E.
  - eapply cstep_clean; eassumption.
Qed.

End Clean.


(* Workflows with branches / control-only / data-only edges (Model/EagerSkip.v): the same *)
Lemma scalc_next_tasks_in fixed G s cv ts s' :
  scalc_next fixed G s cv = STasks ts s' -> tasks_in (sg_nodes G) ts.
Proof.
  unfold scalc_next. destruct (nmem END _); [discriminate|].
  destruct (find is_end _) as [[n v]|]; [discriminate|]. intros H; inversion H; subst.
  intros t Ht. apply in_map_iff in Ht. destruct Ht as (n & <- & Hn). simpl.
  apply filter_In in Hn. exact (proj1 Hn).
Qed.

Lemma srun_eager_clean fixed pick G : NoDup (map n_id (sg_nodes G)) -> forall fuel s running log,
  clean_log (sg_nodes G) log -> clean_log (sg_nodes G) (snd (fst (srun_eager fixed pick G fuel s running log))).
Proof.
  intros Hnd. induction fuel as [|f IH]; intros s running log Hc; simpl; [exact Hc|].
  destruct (nth_error running _) as [t|]; [|exact Hc].
  destruct (failed t); [exact Hc|].
  destruct (scalc_next fixed G s (run_task t)) as [v| |ts s'] eqn:Ec; [exact Hc|exact Hc|].
  destruct (existsb prefail ts) eqn:Epf; [exact Hc|].
  apply IH. apply clean_app; try assumption. eapply scalc_next_tasks_in; exact Ec.
Qed.

Lemma seager_clean fixed pick G fuel : NoDup (map n_id (sg_nodes G)) ->
  clean_log (sg_nodes G) (snd (fst (seager fixed pick G fuel))).
Proof.
  intros Hnd. unfold seager. destruct (scalc_next fixed G sinit (START, input_val)) as [v| |ts s] eqn:E;
    [apply clean_nil|apply clean_nil|].
  destruct (existsb prefail ts) eqn:Epf; [apply clean_nil|].
  apply srun_eager_clean; [exact Hnd|]. change (log_of ts) with ([] ++ log_of ts).
  apply clean_app; try assumption; [apply clean_nil|]. eapply scalc_next_tasks_in; exact E.
Qed.

(* a failing pre-handler in a batch step: the run fails, nothing of the step is started *)
Lemma run_batch_prefail ord m g f s tasks log :
  existsb prefail tasks = true -> run_batch ord m g (S f) s tasks log = (OFail, log).
Proof. intros H. simpl. rewrite H. reflexivity. Qed.
