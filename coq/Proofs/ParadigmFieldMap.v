(* Proofs/ParadigmFieldMap.v — property C04, operation level: Workflow field mappings in
   stream form (chunk-wise, a chunk that lacks a key maps nothing) commute with
   concatenation, when every key the mapping reads is carried by some chunk — for fields that
   hold strings and for fields that hold (nested) maps. *)
From Eino Require Import Base.Util Model.Paradigm Model.StreamOps Proofs.Paradigm Proofs.ParadigmOps.
From Coq Require Import Lia.

Local Infix "+++" := String.append (at level 60, right associativity).

Arguments vsconcat : simpl never.

(* ------------------------------------------------------------------ sorted maps are extensional *)
Lemma sorted_head_notin k v m : sorted ((k, v) :: m) -> ~ In k (mkeys m).
Proof. intros H Hin. pose proof (sorted_head_lt _ _ _ _ H Hin). tord. Qed.

Lemma sorted_ext m1 : forall m2, sorted m1 -> sorted m2 ->
  (forall k, In k (mkeys m1) <-> In k (mkeys m2)) ->
  (forall k, mgather k m1 = mgather k m2) -> m1 = m2.
Proof.
  induction m1 as [|[k1 v1] m1 IH]; intros [|[k2 v2] m2] H1 H2 Hk Hg; auto.
  - exfalso. apply (Hk k2). left. reflexivity.
  - exfalso. apply (Hk k1). left. reflexivity.
  - pose proof (sorted_head_notin _ _ _ H1) as N1. pose proof (sorted_head_notin _ _ _ H2) as N2.
    assert (E : k1 = k2).
    { destruct (proj1 (Hk k1) (or_introl eq_refl)) as [E|Hin]; [simpl in E; congruence|].
      destruct (proj2 (Hk k2) (or_introl eq_refl)) as [E|Hin']; [simpl in E; congruence|].
      pose proof (sorted_head_lt _ _ _ _ H2 Hin). pose proof (sorted_head_lt _ _ _ _ H1 Hin'). tord. }
    subst k2.
    assert (Ev : v1 = v2).
    { specialize (Hg k1). simpl in Hg. rewrite teqb_refl in Hg.
      rewrite (mgather_notin k1 m1 N1), (mgather_notin k1 m2 N2), !app_nil_r_s in Hg. exact Hg. }
    subst v2. f_equal.
    apply IH; [eapply sorted_tail; eauto|eapply sorted_tail; eauto| |].
    + intros k. split; intros Hin.
      * destruct (proj1 (Hk k) (or_intror Hin)) as [E|]; auto. simpl in E. subst. contradiction.
      * destruct (proj2 (Hk k) (or_intror Hin)) as [E|]; auto. simpl in E. subst. contradiction.
    + intros k. specialize (Hg k). simpl in Hg.
      destruct (teqb_spec k k1); auto. subst.
      rewrite (mgather_notin k1 m1 N1), (mgather_notin k1 m2 N2). reflexivity.
Qed.

Lemma ins_all_ext a b : (forall k, In k (mkeys a) <-> In k (mkeys b)) ->
  (forall k, mgather k a = mgather k b) -> ins_all a [] = ins_all b [].
Proof.
  intros Hk Hg. apply sorted_ext; try (apply sorted_ins_all; constructor).
  - intros k. rewrite !keys_ins_all. simpl. rewrite Hk. reflexivity.
  - intros k. rewrite !mgather_ins_all by constructor. simpl. rewrite Hg. reflexivity.
Qed.


Definition all_none (es : list (option N * N)) : bool :=
  forallb (fun e => match fst e with None => true | Some _ => false end) es.

Lemma nodup_N_spec l : nodup_N l = true -> NoDup l.
Proof.
  induction l as [|a l IH]; simpl; intros H; constructor.
  - apply andb_prop in H as (H & _). apply Bool.negb_true_iff in H.
    intros Hin. assert (existsb (N.eqb a) l = true); [|congruence].
    apply existsb_exists. exists a. split; auto. apply N.eqb_refl.
  - apply IH. apply andb_prop in H as (_ & H). exact H.
Qed.

Lemma mgather_concat a ms : mgather a (List.concat ms) = concat_strings (map (mgather a) ms).
Proof. induction ms as [|m ms IH]; [reflexivity|]. simpl. rewrite mgather_app, IH. reflexivity. Qed.

Lemma all_bad (g : item val -> item val) s :
  s <> [] -> (forall it, In it s -> exists e, g it = Bad e) -> has_bad (map g s).
Proof.
  destruct s as [|it s]; [congruence|]. intros _ H.
  destruct (H it (or_introl eq_refl)) as (e & E). exists e. cbn [map]. left. exact E.
Qed.

Lemma all_bad_fails (g : item val -> item val) s :
  s <> [] -> (forall it, In it s -> exists e, g it = Bad e) -> failed (vsconcat (map g s)).
Proof. intros Hn H. apply vsconcat_bad, all_bad; auto. Qed.

(* ------------------------------------------------------------------ nest / unnest and gathering *)
Lemma mgather_map_nk k key m : mgather (nk k key) (map (nestk k) m) = mgather key m.
Proof.
  induction m as [|[k2 v2] m IH]; [reflexivity|]. cbn [map mgather]. unfold nestk at 1. cbn [fst snd].
  change (k, KSub (fst k2) (snd k2)) with (nk k k2). rewrite teqb_nk, IH. reflexivity.
Qed.

Lemma teqb_marker_nk k key : teqb (nk k key) (k, KMap) = false.
Proof. unfold teqb. rewrite (tcmp_antisym (k, KMap) (nk k key)), tcmp_marker. reflexivity. Qed.

Lemma mgather_nest_nk k key m : mgather (nk k key) (nest k m) = mgather key m.
Proof. unfold nest. cbn [mgather]. rewrite teqb_marker_nk. apply mgather_map_nk. Qed.

Lemma keys_nest k m key : In key (mkeys (nest k m)) <-> key = (k, KMap) \/ exists key', key = nk k key' /\ In key' (mkeys m).
Proof.
  rewrite mkeys_nest. simpl. rewrite in_map_iff. split.
  - intros [<-|(key' & <- & H)]; eauto.
  - intros [->|(key' & -> & H)]; eauto.
Qed.

Lemma mgather_marker k m : mgather (k, KMap) (nest k m) = EmptyString.
Proof.
  unfold nest. cbn [mgather]. rewrite teqb_refl. cbn.
  apply mgather_notin. intros H. unfold mkeys in H. rewrite map_map in H.
  apply in_map_iff in H as (e & E & _). unfold nestk in E. cbn in E. discriminate.
Qed.

Lemma mgather_unnest k key m : mgather key (unnest k m) = mgather (nk k key) m.
Proof.
  induction m as [|[k2 v2] m IH]; [reflexivity|].
  change (unnest k ((k2, v2) :: m)) with (sub_of k (k2, v2) ++ unnest k m).
  rewrite mgather_app, IH, sub_of_eq. cbn [fst snd mgather].
  destruct (sub_key k k2) as [key2|] eqn:E.
  - apply sub_key_some in E. subst k2. cbn [mgather]. rewrite teqb_nk.
    destruct (teqb key key2); [rewrite app_nil_r_s|]; reflexivity.
  - cbn [mgather]. destruct (teqb_spec (nk k key) k2) as [<-|]; [|reflexivity].
    rewrite sub_key_nk in E. discriminate.
Qed.

(* ------------------------------------------------------------------ the generic argument *)
Section Gen2.
  Context {X : Type}.
  Variable contrib : X -> option N * N -> amap.
  Hypothesis Hhead : forall x e key, In key (mkeys (contrib x e)) -> fst key = snd e.

  Definition raw2 (es : list (option N * N)) (x : X) : amap := flat_map (contrib x) es.

  Lemma raw2_keys es x key : In key (mkeys (raw2 es x)) <-> exists e, In e es /\ In key (mkeys (contrib x e)).
  Proof.
    unfold raw2, mkeys. rewrite in_map_iff. split.
    - intros (kv & <- & Hin). apply in_flat_map in Hin as (e & He & Hin). exists e. split; auto.
      apply in_map, Hin.
    - intros (e & He & Hin). apply in_map_iff in Hin as (kv & <- & Hin). exists kv. split; auto.
      apply in_flat_map. eauto.
  Qed.

  Lemma mgather_other x e key : fst key <> snd e -> mgather key (contrib x e) = EmptyString.
  Proof. intros H. apply mgather_notin. intros Hin. apply H. eapply Hhead; eauto. Qed.

  (* the mapping that writes under the head h, if any *)
  Definition pick (es : list (option N * N)) (h : N) : option (option N * N) :=
    find (fun e => N.eqb (snd e) h) es.

  Lemma mgather_raw2 es x key : NoDup (map snd es) ->
    mgather key (raw2 es x) = match pick es (fst key) with Some e => mgather key (contrib x e) | None => EmptyString end.
  Proof.
    induction es as [|e es IH]; intros Hnd; [reflexivity|].
    inversion Hnd as [|? ? Hnotin Hnd']; subst.
    unfold raw2, pick in *. cbn [flat_map find]. rewrite mgather_app.
    destruct (N.eqb_spec (snd e) (fst key)) as [E|E].
    - rewrite (mgather_notin key (flat_map (contrib x) es)); [apply app_nil_r_s|].
      intros Hin. apply raw2_keys in Hin as (e' & He' & Hin). apply Hnotin.
      rewrite E, (Hhead _ _ _ Hin). apply in_map, He'.
    - rewrite mgather_other by congruence. cbn. apply IH, Hnd'.
  Qed.

  Variable xs : list X.
  Variable whole : X.
  Hypothesis Hkeys : forall e key, In key (mkeys (contrib whole e)) <-> exists x, In x xs /\ In key (mkeys (contrib x e)).
  Hypothesis Hgather : forall e key, mgather key (contrib whole e) = concat_strings (map (fun x => mgather key (contrib x e)) xs).

  Lemma concat_strings_nil2 (l : list X) : concat_strings (map (fun _ => EmptyString) l) = EmptyString.
  Proof. induction l; simpl; auto. Qed.

  Lemma raw2_commutes es : NoDup (map snd es) ->
    ins_all (List.concat (map (raw2 es) xs)) [] = ins_all (raw2 es whole) [].
  Proof.
    intros Hnd. apply ins_all_ext.
    - intros key. rewrite raw2_keys. split.
      + intros Hin. unfold mkeys in Hin. apply in_map_iff in Hin as (kv & <- & Hin).
        apply in_concat in Hin as (r & Hr & Hin). apply in_map_iff in Hr as (x & <- & Hx).
        assert (Hk : In (fst kv) (mkeys (raw2 es x))) by (unfold mkeys; apply in_map, Hin).
        apply raw2_keys in Hk as (e & He & Hk). exists e. split; auto. apply Hkeys. eauto.
      + intros (e & He & Hin). apply Hkeys in Hin as (x & Hx & Hin).
        apply (keys_concat_in _ (raw2 es x)); [apply in_map, Hx|]. apply raw2_keys. eauto.
    - intros key. rewrite (mgather_raw2 es whole key Hnd).
      assert (E : mgather key (List.concat (map (raw2 es) xs))
                  = concat_strings (map (fun x => mgather key (raw2 es x)) xs)).
      { clear. induction xs as [|x l IH]; [reflexivity|]. cbn [map List.concat].
        rewrite mgather_app, IH. reflexivity. }
      rewrite E. destruct (pick es (fst key)) as [e|] eqn:Ep.
      + rewrite Hgather. f_equal. apply map_ext. intros x. rewrite (mgather_raw2 es x key Hnd), Ep. reflexivity.
      + rewrite <- (concat_strings_nil2 xs). f_equal. apply map_ext. intros x.
        rewrite (mgather_raw2 es x key Hnd), Ep. reflexivity.
  Qed.
End Gen2.

(* ------------------------------------------------------------------ map chunks *)
Lemma mgather_nest_cases k m key :
  mgather key (nest k m) = match sub_key k key with Some key' => mgather key' m | None => EmptyString end.
Proof.
  assert (E : mgather key (nest k m) = mgather key (map (nestk k) m)).
  { unfold nest. cbn [mgather]. destruct (teqb key (k, KMap)); reflexivity. }
  rewrite E. destruct (sub_key k key) as [key'|] eqn:Es.
  - apply sub_key_some in Es. subst key. apply mgather_map_nk.
  - apply mgather_notin. intros H. unfold mkeys in H. rewrite map_map in H.
    apply in_map_iff in H as (e & <- & _). rewrite nestk_fst, sub_key_nk in Es. discriminate.
Qed.

Lemma contribM_head m e key : In key (mkeys (contribM m e)) -> fst key = snd e.
Proof.
  unfold contribM. destruct (fst e) as [a|].
  - destruct (mhas (kstr a) m); [intros [<-|[]]; reflexivity|].
    destruct (hd_has a m); [|intros []].
    intros H. apply keys_nest in H as [->|(key' & -> & _)]; reflexivity.
  - intros H. apply keys_nest in H as [->|(key' & -> & _)]; reflexivity.
Qed.

Section MapChunks.
  Variable ms : list amap.
  Hypothesis Hms : ms <> [].
  Hypothesis Hok : mok ms = true.

  (* a string under a in the whole: every chunk that has something under a has a string there *)
  Lemma chunk_str a m : In m ms -> mhas (kstr a) (mval ms) = true ->
    mhas (kstr a) m = true \/ hd_has a m = false.
  Proof.
    intros Hm Eh. destruct (mhas (kstr a) m) eqn:Em; [left; reflexivity|right].
    destruct (hd_has a m) eqn:Ed; [exfalso|reflexivity].
    apply hd_has_spec in Ed as (key & Hin & Ek).
    destruct ms as [|x [|y ms']]; [congruence| |].
    - destruct Hm as [<-|[]]. simpl in Eh. congruence.
    - assert (Hin' : In key (mkeys (mval (x :: y :: ms')))) by (apply mval_keys; eapply keys_concat_in; eauto).
      pose proof (str_excludes a _ Hok Eh key Hin' Ek) as ->.
      apply mhas_in in Hin. congruence.
  Qed.

  Lemma chunk_nostr a m : In m ms -> mhas (kstr a) (mval ms) = false -> mhas (kstr a) m = false.
  Proof. intros Hm Eh. rewrite mhas_mval in Eh. exact (proj1 (mhas_concat_false _ ms) Eh m Hm). Qed.

  Lemma some_chunk_has key : mhas key (mval ms) = true -> exists m, In m ms /\ mhas key m = true.
  Proof.
    rewrite mhas_mval. intros H. clear Hok Hms. induction ms as [|m l IH]; [discriminate|].
    simpl in H. rewrite mhas_app in H. apply Bool.orb_true_iff in H as [H|H].
    - exists m. split; [left; reflexivity|exact H].
    - destruct (IH H) as (m' & Hm' & E). exists m'. split; [right; exact Hm'|exact E].
  Qed.

  Lemma some_chunk_hd a : hd_has a (mval ms) = true -> exists m, In m ms /\ hd_has a m = true.
  Proof.
    rewrite hd_has_mval, hd_has_concat. intros H. apply existsb_exists in H as (m & Hm & E). eauto.
  Qed.

  Lemma chunk_hd a m : In m ms -> hd_has a m = true -> hd_has a (mval ms) = true.
  Proof.
    intros Hm H. rewrite hd_has_mval, hd_has_concat. apply existsb_exists. eauto.
  Qed.

  Lemma whole_key key : In key (mkeys (mval ms)) <-> exists m, In m ms /\ In key (mkeys m).
  Proof.
    rewrite mval_keys. split.
    - intros H. unfold mkeys in H. apply in_map_iff in H as (e & <- & He).
      apply in_concat in He as (m & Hm & He). exists m. split; auto. unfold mkeys. apply in_map, He.
    - intros (m & Hm & H). eapply keys_concat_in; eauto.
  Qed.

  Lemma whole_gather key : mgather key (mval ms) = concat_strings (map (mgather key) ms).
  Proof. rewrite mgather_mval. apply mgather_concat. Qed.

  Lemma contribM_keys e key :
    In key (mkeys (contribM (mval ms) e)) <-> exists m, In m ms /\ In key (mkeys (contribM m e)).
  Proof.
    unfold contribM. destruct (fst e) as [a|].
    - destruct (mhas (kstr a) (mval ms)) eqn:Eh.
      + split.
        * intros [<-|[]]. destruct (some_chunk_has _ Eh) as (m & Hm & E). exists m. split; auto.
          rewrite E. left. reflexivity.
        * intros (m & Hm & H). destruct (chunk_str a m Hm Eh) as [E|E].
          -- rewrite E in H. destruct H as [<-|[]]. left. reflexivity.
          -- destruct (mhas (kstr a) m); [destruct H as [<-|[]]; left; reflexivity|].
             rewrite E in H. destruct H.
      + destruct (hd_has a (mval ms)) eqn:Ed.
        * split.
          -- intros H. apply keys_nest in H as [->|(key' & -> & H)].
             ++ destruct (some_chunk_hd a Ed) as (m & Hm & E). exists m. split; auto.
                rewrite (chunk_nostr a m Hm Eh), E. apply keys_nest. left. reflexivity.
             ++ apply unnest_keys, whole_key in H as (m & Hm & H). exists m. split; auto.
                rewrite (chunk_nostr a m Hm Eh).
                assert (E : hd_has a m = true) by (apply hd_has_spec; exists (nk a key'); split; auto).
                rewrite E. apply keys_nest. right. exists key'. split; auto. apply unnest_keys, H.
          -- intros (m & Hm & H). rewrite (chunk_nostr a m Hm Eh) in H.
             destruct (hd_has a m) eqn:E; [|destruct H].
             apply keys_nest in H as [->|(key' & -> & H)]; apply keys_nest; [left; reflexivity|right].
             exists key'. split; auto. apply unnest_keys, whole_key. exists m. split; auto. apply unnest_keys, H.
        * split; [intros []|].
          intros (m & Hm & H). rewrite (chunk_nostr a m Hm Eh) in H.
          destruct (hd_has a m) eqn:E; [|destruct H].
          rewrite (chunk_hd a m Hm E) in Ed. discriminate.
    - split.
      + intros H. apply keys_nest in H as [->|(key' & -> & H)].
        * destruct ms as [|m l]; [congruence|]. exists m. split; [left; reflexivity|]. apply keys_nest. left. reflexivity.
        * apply whole_key in H as (m & Hm & H). exists m. split; auto. apply keys_nest. right. eauto.
      + intros (m & Hm & H). apply keys_nest in H as [->|(key' & -> & H)]; apply keys_nest; [left; reflexivity|right].
        exists key'. split; auto. apply whole_key. eauto.
  Qed.

  Lemma concat_strings_empty {Y} (l : list Y) : concat_strings (map (fun _ => EmptyString) l) = EmptyString.
  Proof. induction l; simpl; auto. Qed.

  Lemma concat_strings_ext {Y} (f g : Y -> string) (l : list Y) :
    (forall y, In y l -> f y = g y) -> concat_strings (map f l) = concat_strings (map g l).
  Proof.
    induction l as [|y l IH]; intros H; [reflexivity|]. unfold concat_strings in *. cbn [map fold_right].
    rewrite (H y (or_introl eq_refl)), IH; auto. intros; apply H; right; auto.
  Qed.

  Lemma contribM_gather e key :
    mgather key (contribM (mval ms) e) = concat_strings (map (fun m => mgather key (contribM m e)) ms).
  Proof.
    unfold contribM. destruct (fst e) as [a|].
    - destruct (mhas (kstr a) (mval ms)) eqn:Eh.
      + (* a string *)
        assert (Hc : forall m, In m ms ->
                  mgather key (if mhas (kstr a) m then [(kstr (snd e), mgather (kstr a) m)]
                               else if hd_has a m then nest (snd e) (unnest a m) else [])
                  = if teqb key (kstr (snd e)) then mgather (kstr a) m else EmptyString).
        { intros m Hm. destruct (chunk_str a m Hm Eh) as [E|E].
          - rewrite E. cbn [mgather]. destruct (teqb key (kstr (snd e))); [apply app_nil_r_s|reflexivity].
          - destruct (mhas (kstr a) m) eqn:Em.
            + cbn [mgather]. destruct (teqb key (kstr (snd e))); [apply app_nil_r_s|reflexivity].
            + rewrite E. cbn [mgather]. rewrite (mgather_notin (kstr a) m) by (apply mhas_notin, Em).
              destruct (teqb key (kstr (snd e))); reflexivity. }
        rewrite (concat_strings_ext _ _ ms Hc). cbn [mgather].
        destruct (teqb key (kstr (snd e))).
        * rewrite app_nil_r_s. apply whole_gather.
        * symmetry. apply concat_strings_empty.
      + destruct (hd_has a (mval ms)) eqn:Ed.
        * (* a nested map *)
          assert (Hc : forall m, In m ms ->
                    mgather key (if mhas (kstr a) m then [(kstr (snd e), mgather (kstr a) m)]
                                 else if hd_has a m then nest (snd e) (unnest a m) else [])
                    = match sub_key (snd e) key with Some key' => mgather (nk a key') m | None => EmptyString end).
          { intros m Hm. rewrite (chunk_nostr a m Hm Eh). destruct (hd_has a m) eqn:E.
            - rewrite mgather_nest_cases. destruct (sub_key (snd e) key); [apply mgather_unnest|reflexivity].
            - cbn [mgather]. destruct (sub_key (snd e) key) as [key'|]; [|reflexivity].
              symmetry. apply mgather_notin. intros Hin. rewrite hd_has_false in E. apply (E _ Hin). reflexivity. }
          rewrite (concat_strings_ext _ _ ms Hc), mgather_nest_cases.
          destruct (sub_key (snd e) key) as [key'|].
          -- rewrite mgather_unnest. apply whole_gather.
          -- symmetry. apply concat_strings_empty.
        * (* nothing *)
          assert (Hc : forall m, In m ms ->
                    mgather key (if mhas (kstr a) m then [(kstr (snd e), mgather (kstr a) m)]
                                 else if hd_has a m then nest (snd e) (unnest a m) else [])
                    = EmptyString).
          { intros m Hm. rewrite (chunk_nostr a m Hm Eh). destruct (hd_has a m) eqn:E; [|reflexivity].
            rewrite (chunk_hd a m Hm E) in Ed. discriminate. }
          rewrite (concat_strings_ext _ _ ms Hc). cbn [mgather]. symmetry. apply concat_strings_empty.
    - (* the whole map under the target field *)
      rewrite mgather_nest_cases.
      assert (Hc : forall m, In m ms -> mgather key (nest (snd e) m)
                   = match sub_key (snd e) key with Some key' => mgather key' m | None => EmptyString end).
      { intros m _. apply mgather_nest_cases. }
      rewrite (concat_strings_ext _ _ ms Hc).
      destruct (sub_key (snd e) key) as [key'|]; [apply whole_gather|symmetry; apply concat_strings_empty].
  Qed.

  Lemma rawM_commutes es : NoDup (map snd es) ->
    ins_all (List.concat (map (raw2 contribM es) ms)) [] = ins_all (raw2 contribM es (mval ms)) [].
  Proof.
    apply (raw2_commutes contribM contribM_head ms (mval ms)).
    - intros e key. apply contribM_keys.
    - intros e key. apply contribM_gather.
  Qed.
End MapChunks.

(* ------------------------------------------------------------------ no type conflict in what a mapping list produces *)
Section ConsRaw.
  Context {X : Type}.
  Variable contrib : X -> option N * N -> amap.
  Hypothesis Hhead : forall x e key, In key (mkeys (contrib x e)) -> fst key = snd e.

  Lemma raw2_cons es x : NoDup (map snd es) -> (forall e, In e es -> mcons (contrib x e) = true) ->
    mcons (raw2 contrib es x) = true.
  Proof.
    intros Hnd Hc. apply mcons_spec. intros a b Ha Hb.
    apply raw2_keys in Ha as (ea & Hea & Ha). apply raw2_keys in Hb as (eb & Heb & Hb).
    destruct (N.eqb_spec (snd ea) (snd eb)) as [E|E].
    - assert (ea = eb).
      { clear -Hnd Hea Heb E. induction es as [|e l IH]; [contradiction|].
        inversion Hnd as [|? ? Hn Hnd']; subst.
        destruct Hea as [<-|Hea], Heb as [<-|Heb]; auto.
        - exfalso. apply Hn. rewrite E. apply in_map, Heb.
        - exfalso. apply Hn. rewrite <- E. apply in_map, Hea. }
      subst eb. specialize (Hc ea Hea). apply mcons_spec in Hc. apply Hc; auto.
    - unfold tclash. rewrite (Hhead _ _ _ Ha), (Hhead _ _ _ Hb).
      destruct (N.eqb_spec (snd ea) (snd eb)); [contradiction|reflexivity].
  Qed.
End ConsRaw.

Lemma contribM_cons m e : mcons m = true -> mcons (contribM m e) = true.
Proof.
  intros Hc. unfold contribM. destruct (fst e) as [a|].
  - destruct (mhas (kstr a) m); [apply mcons_single|].
    destruct (hd_has a m); [|reflexivity]. rewrite mcons_nest. apply Cons_unnest, Hc.
  - rewrite mcons_nest. exact Hc.
Qed.

Lemma unnest_mval k ms : ms <> [] -> ins_all (unnest k (mval ms)) [] = ins_all (unnest k (List.concat ms)) [].
Proof.
  destruct ms as [|a [|b ms0]]; intros H; [congruence| |].
  - simpl. rewrite app_nil_r. reflexivity.
  - unfold mval. rewrite unnest_ins_all0, ins_all_canon0. reflexivity.
Qed.

Lemma mok_mcons ms : 2 <= List.length ms -> mok ms = true -> mcons (List.concat ms) = true.
Proof.
  destruct ms as [|a [|b ms]]; simpl; intros Hl H; try lia. unfold mok in H. rewrite mcons_canon in H. exact H.
Qed.

Lemma mok_of_mcons ms : mcons (List.concat ms) = true -> mok ms = true.
Proof. destruct ms as [|a [|b ms]]; intros H; [reflexivity|reflexivity|]. unfold mok. rewrite mcons_canon. exact H. Qed.

Lemma mok_map {Y} (g : Y -> amap) (l : list Y) :
  (2 <= List.length l -> mcons (List.concat (map g l)) = true) -> mok (map g l) = true.
Proof.
  destruct l as [|a [|b l]]; intros H; [reflexivity|reflexivity|].
  apply mok_of_mcons, H. simpl. lia.
Qed.

(* ------------------------------------------------------------------ the two chunk types *)
Definition contribS (c : string) (e : option N * N) : amap := [(kstr (snd e), c)].

Lemma fm_VS2 strict es c :
  fm_entries strict es (VS c) = if all_none es then Ok (raw2 contribS es c) else Err e_type.
Proof.
  induction es as [|[[a|] t] es IH]; [reflexivity| |].
  - reflexivity.
  - cbn [fm_entries fm_one all_none forallb fst snd andb res_bind]. rewrite IH. fold (all_none es).
    destruct (all_none es); reflexivity.
Qed.

Lemma fm_VM_lax2 es m : fm_entries false es (VM m) = Ok (raw2 contribM es m).
Proof.
  induction es as [|[[a|] t] es IH]; [reflexivity| |];
    cbn [fm_entries fm_one fst snd andb res_bind]; rewrite IH; reflexivity.
Qed.

Lemma fm_VM_strict2 es m : forallb (fun a => mhas (kstr a) m || hd_has a m) (fmap_from (FTo es)) = true ->
  fm_entries true es (VM m) = Ok (raw2 contribM es m).
Proof.
  induction es as [|[[a|] t] es IH]; intros H; [reflexivity| |].
  - cbn [fmap_from flat_map fst app forallb] in H. apply andb_prop in H as (Ha & H).
    cbn [fm_entries fm_one fst snd andb]. rewrite Ha. cbn [negb res_bind]. rewrite IH by exact H. reflexivity.
  - cbn [fm_entries fm_one fst snd res_bind]. rewrite IH by exact H. reflexivity.
Qed.

Lemma s_fmap_nonnil f s : s <> [] -> s_fmap f s <> [].
Proof. destruct s; [congruence|discriminate]. Qed.

Lemma fmap_bad f s : has_bad s -> has_bad (s_fmap f s).
Proof. apply has_bad_map. reflexivity. Qed.

Lemma contribS_head c e key : In key (mkeys (contribS c e)) -> fst key = snd e.
Proof. intros [<-|[]]. reflexivity. Qed.

(* the chunks a mapping produces from a stream of maps without type conflict concatenate *)
Lemma mok_rawM es ms : NoDup (map snd es) -> ms <> [] -> mok ms = true ->
  mok (map (fun r => ins_all r []) (map (raw2 contribM es) ms)) = true.
Proof.
  intros Hnd Hms Hok. rewrite map_map. apply mok_map. intros Hl.
  rewrite <- (map_map (raw2 contribM es) (fun r => ins_all r [])).
  rewrite <- mcons_canon, concat_canon.
  rewrite (rawM_commutes ms) by auto. rewrite mcons_canon.
  apply (raw2_cons contribM contribM_head); auto.
  intros e _. apply contribM_cons.
  destruct ms as [|a [|b ms0]]; simpl in Hl; try lia.
  unfold mval. rewrite mcons_canon. apply mok_mcons; auto; simpl; lia.
Qed.

Lemma mok_rawS es ss : mok (map (fun r => ins_all r []) (map (raw2 contribS es) ss)) = true.
Proof.
  apply mok_of_mcons. rewrite <- mcons_canon, concat_canon, mcons_canon.
  apply mcons_spec, flat_Cons. intros key Hk. unfold mkeys in Hk. apply in_map_iff in Hk as (e & <- & He).
  apply in_concat in He as (r & Hr & He). apply in_map_iff in Hr as (c & <- & _).
  assert (Hk : In (fst e) (mkeys (raw2 contribS es c))) by (unfold mkeys; apply in_map, He).
  apply raw2_keys in Hk as (e' & _ & [<-|[]]). reflexivity.
Qed.

Lemma rawS_commutes es ss : ss <> [] -> NoDup (map snd es) ->
  ins_all (List.concat (map (raw2 contribS es) ss)) [] = ins_all (raw2 contribS es (concat_strings ss)) [].
Proof.
  intros Hss. apply (raw2_commutes contribS contribS_head ss (concat_strings ss)).
  - intros e key. unfold contribS. simpl. split.
    + intros [<-|[]]. destruct ss as [|c l]; [congruence|]. exists c. split; [left; reflexivity|left; reflexivity].
    + intros (c & _ & [<-|[]]). left. reflexivity.
  - intros e key. unfold contribS. cbn [mgather]. destruct (teqb key (kstr (snd e))).
    + rewrite app_nil_r_s. rewrite <- (map_id ss) at 1. f_equal. apply map_ext. intros c. symmetry. apply app_nil_r_s.
    + clear. induction ss; simpl; auto.
Qed.

(* ------------------------------------------------------------------ the theorem *)
Theorem concat_fieldMap_lem f s : fmap_wf f = true -> s <> [] -> sound s ->
  (forall x, vsconcat s = Ok x -> fmap_dom f x = true) ->
  agree (vsconcat (s_fmap f s)) (res_bind (vsconcat s) (v_fmap f)) /\ s_fmap f s <> []
  /\ sound (s_fmap f s).
Proof.
  intros Hwf Hn Hs Hd.
  cut (agree (vsconcat (s_fmap f s)) (res_bind (vsconcat s) (v_fmap f)) /\ sound (s_fmap f s)).
  { intros (Ha & Hso). split; [exact Ha|]. split; [apply s_fmap_nonnil, Hn|exact Hso]. }
  apply sound_cases in Hs as [Hb|[(ss & Hss & ->)|(ms & Hms & -> & Hok)]].
  - split; [|apply sound_bad, fmap_bad, Hb].
    apply agree_failed; [apply vsconcat_bad, fmap_bad, Hb|apply failed_bind, vsconcat_bad, Hb].
  - (* a stream of strings *)
    rewrite vsconcat_sVS by exact Hss. cbn [res_bind].
    assert (Hallbad : forall g, (forall c, exists e, g (Val (VS c)) = Bad e) ->
              failed (vsconcat (map g (sVS ss))) /\ sound (map g (sVS ss))).
    { intros g Hg. assert (Hb : has_bad (map g (sVS ss))).
      { apply all_bad; [exact Hn|]. intros it Hit. apply in_sVS in Hit as (c & ->). apply Hg. }
      split; [apply vsconcat_bad, Hb|apply sound_bad, Hb]. }
    destruct f as [es|a [|]].
    + cbn [v_fmap]. rewrite fm_VS2. destruct (all_none es) eqn:En; cbn [res_bind].
      * assert (Es : s_fmap (FTo es) (sVS ss) = sVM (map (fun r => ins_all r []) (map (raw2 contribS es) ss))).
        { unfold s_fmap, sVS, sVM. rewrite !map_map. apply map_ext. intros c. rewrite fm_VS2, En. reflexivity. }
        simpl in Hwf. apply andb_prop in Hwf as (_ & Hnd). apply nodup_N_spec in Hnd.
        assert (E : vsconcat (s_fmap (FTo es) (sVS ss)) = Ok (VM (ins_all (raw2 contribS es (concat_strings ss)) []))).
        { rewrite Es, vsconcat_sVM_ok; [|destruct ss; [congruence|discriminate]|apply mok_rawS].
          rewrite mval_canon by (destruct ss; [congruence|discriminate]).
          rewrite rawS_commutes by auto. reflexivity. }
        rewrite E. split; [reflexivity|eapply sound_ok; eauto].
      * destruct (Hallbad (fun it => match it with
                                     | Bad e => Bad e
                                     | Val x => match fm_entries false es x with Ok r => Val (VM (ins_all r [])) | _ => Bad e_type end
                                     end)) as (Hf & Hso).
        { intros c. rewrite fm_VS2, En. eauto. }
        split; [apply agree_failed; [exact Hf|apply failed_Err]|exact Hso].
    + cbn [v_fmap v_getMap].
      destruct (Hallbad (fun it => match it with
                                   | Bad e => Bad e
                                   | Val (VM m) => if mhas (kstr a) m then Bad e_type else Val (VM (ins_all (unnest a m) []))
                                   | Val (VS _) => Bad e_type
                                   end)) as (Hf & Hso); [eauto|].
      split; [apply agree_failed; [exact Hf|apply failed_Err]|exact Hso].
    + cbn [v_fmap v_getStr].
      destruct (Hallbad (fun it => match it with
                                   | Bad e => Bad e
                                   | Val (VM m) => Val (VS (mgather (kstr a) m))
                                   | Val (VS _) => Bad e_type
                                   end)) as (Hf & Hso); [eauto|].
      split; [apply agree_failed; [exact Hf|apply failed_Err]|exact Hso].
  - (* a stream of maps *)
    specialize (Hd (VM (mval ms))). rewrite vsconcat_sVM_ok in Hd by auto. specialize (Hd eq_refl).
    rewrite vsconcat_sVM_ok by auto. cbn [res_bind].
    destruct f as [es|a [|]].
    + cbn [v_fmap]. cbn [fmap_dom] in Hd. rewrite (fm_VM_strict2 es _ Hd). cbn [res_bind].
      assert (Es : s_fmap (FTo es) (sVM ms) = sVM (map (fun r => ins_all r []) (map (raw2 contribM es) ms))).
      { unfold s_fmap, sVM. rewrite !map_map. apply map_ext. intros m. rewrite fm_VM_lax2. reflexivity. }
      simpl in Hwf. apply andb_prop in Hwf as (_ & Hnd). apply nodup_N_spec in Hnd.
      assert (E : vsconcat (s_fmap (FTo es) (sVM ms)) = Ok (VM (ins_all (raw2 contribM es (mval ms)) []))).
      { rewrite Es, vsconcat_sVM_ok; [|destruct ms; [congruence|discriminate]|apply mok_rawM; auto].
        rewrite mval_canon by (destruct ms; [congruence|discriminate]).
        rewrite rawM_commutes by auto. reflexivity. }
      rewrite E. split; [reflexivity|eapply sound_ok; eauto].
    + (* FromField, the field holds a map *)
      cbn [v_fmap v_getMap]. cbn [fmap_dom] in Hd.
      destruct (mhas (kstr a) (mval ms)) eqn:Eh.
      * destruct (some_chunk_has ms (kstr a) Eh) as (m & Hm & Em).
        assert (Hb : has_bad (s_fmap (FTake a true) (sVM ms))).
        { exists e_type. unfold s_fmap, sVM. rewrite map_map. apply in_map_iff. exists m. rewrite Em. auto. }
        split; [apply agree_failed; [apply vsconcat_bad, Hb|apply failed_Err]|apply sound_bad, Hb].
      * cbn [orb] in Hd. rewrite Hd.
        assert (Es : s_fmap (FTake a true) (sVM ms) = sVM (map (fun r => ins_all r []) (map (unnest a) ms))).
        { unfold s_fmap, sVM. rewrite !map_map. apply map_ext_in. intros m Hm.
          rewrite (chunk_nostr ms a m Hm Eh). reflexivity. }
        assert (Hokc : mok (map (fun r => ins_all r []) (map (unnest a) ms)) = true).
        { rewrite map_map. apply mok_map. intros Hl.
          rewrite <- (map_map (unnest a) (fun r => ins_all r [])).
          rewrite <- mcons_canon, concat_canon, <- unnest_concat, mcons_canon.
          apply Cons_unnest. apply mok_mcons; auto. }
        assert (E : vsconcat (s_fmap (FTake a true) (sVM ms)) = Ok (VM (ins_all (unnest a (mval ms)) []))).
        { rewrite Es, vsconcat_sVM_ok; [|destruct ms; [congruence|discriminate]|exact Hokc].
          rewrite mval_canon by (destruct ms; [congruence|discriminate]).
          rewrite <- unnest_concat, unnest_mval by exact Hms. reflexivity. }
        rewrite E. split; [reflexivity|eapply sound_ok; eauto].
    + (* FromField, the field holds a string *)
      cbn [v_fmap v_getStr]. cbn [fmap_dom] in Hd. unfold mlookup. rewrite Hd.
      assert (Es : s_fmap (FTake a false) (sVM ms) = sVS (map (mgather (kstr a)) ms)).
      { unfold s_fmap, sVM, sVS. rewrite !map_map. reflexivity. }
      assert (E : vsconcat (s_fmap (FTake a false) (sVM ms)) = Ok (VS (mgather (kstr a) (mval ms)))).
      { rewrite Es, vsconcat_sVS by (destruct ms; [congruence|discriminate]).
        rewrite mgather_mval, mgather_concat. reflexivity. }
      rewrite E. split; [reflexivity|eapply sound_ok; eauto].
Qed.

(* mechanism of finding F-C04c: a key the mapping reads and no chunk carries — the value
   form fails, the stream form maps nothing (a stream of empty strings / empty maps) *)
Lemma fieldMap_missing_lem a ms : ms <> [] -> mok ms = true -> mhas (kstr a) (mval ms) = false ->
  res_bind (vsconcat (sVM ms)) (v_fmap (FTake a false)) = Err e_nokey
  /\ vsconcat (s_fmap (FTake a false) (sVM ms)) = Ok (VS EmptyString).
Proof.
  intros Hms Hok Hh. split.
  - rewrite vsconcat_sVM_ok by auto. cbn [res_bind v_fmap v_getStr]. unfold mlookup. rewrite Hh. reflexivity.
  - assert (Es : s_fmap (FTake a false) (sVM ms) = sVS (map (mgather (kstr a)) ms)).
    { unfold s_fmap, sVM, sVS. rewrite !map_map. reflexivity. }
    rewrite Es, vsconcat_sVS by (destruct ms; [congruence|discriminate]).
    rewrite <- mgather_concat, <- mgather_mval.
    rewrite (mgather_notin (kstr a) (mval ms)) by (apply mhas_notin, Hh). reflexivity.
Qed.
