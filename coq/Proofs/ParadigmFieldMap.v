(* Proofs/ParadigmFieldMap.v — property C04, operation level: Workflow field mappings in
   stream form (chunk-wise, a chunk that lacks a key maps nothing) commute with
   concatenation, when every key the mapping reads is carried by some chunk. *)
From Eino Require Import Base.Util Model.Paradigm Model.StreamOps Proofs.Paradigm Proofs.ParadigmOps.
From Coq Require Import Lia.

Local Infix "+++" := String.append (at level 60, right associativity).

Arguments vsconcat : simpl never.

(* ------------------------------------------------------------------ sorted maps are extensional *)
Lemma sorted_head_notin k v m : sorted ((k, v) :: m) -> ~ In k (mkeys m).
Proof. intros H Hin. pose proof (sorted_head_lt _ _ _ _ H Hin). tord. Qed.

Lemma sorted_ext m1 : forall m2, sorted m1 -> sorted m2 ->
  (forall k, In k (mkeys m1) <-> In k (mkeys m2)) ->
  (forall k, mgather k m1 = mgather k m2) -> m1 = m2.
Proof.
  induction m1 as [|[k1 v1] m1 IH]; intros [|[k2 v2] m2] H1 H2 Hk Hg; auto.
  - exfalso. apply (Hk k2). left. reflexivity.
  - exfalso. apply (Hk k1). left. reflexivity.
  - pose proof (sorted_head_notin _ _ _ H1) as N1. pose proof (sorted_head_notin _ _ _ H2) as N2.
    assert (E : k1 = k2).
    { destruct (proj1 (Hk k1) (or_introl eq_refl)) as [E|Hin]; [simpl in E; congruence|].
      destruct (proj2 (Hk k2) (or_introl eq_refl)) as [E|Hin']; [simpl in E; congruence|].
      pose proof (sorted_head_lt _ _ _ _ H2 Hin). pose proof (sorted_head_lt _ _ _ _ H1 Hin'). tord. }
    subst k2.
    assert (Ev : v1 = v2).
    { specialize (Hg k1). simpl in Hg. rewrite teqb_refl in Hg.
      rewrite (mgather_notin k1 m1 N1), (mgather_notin k1 m2 N2), !app_nil_r_s in Hg. exact Hg. }
    subst v2. f_equal.
    apply IH; [eapply sorted_tail; eauto|eapply sorted_tail; eauto| |].
    + intros k. split; intros Hin.
      * destruct (proj1 (Hk k) (or_intror Hin)) as [E|]; auto. simpl in E. subst. contradiction.
      * destruct (proj2 (Hk k) (or_intror Hin)) as [E|]; auto. simpl in E. subst. contradiction.
    + intros k. specialize (Hg k). simpl in Hg.
      destruct (teqb_spec k k1); auto. subst.
      rewrite (mgather_notin k1 m1 N1), (mgather_notin k1 m2 N2). reflexivity.
Qed.

Lemma ins_all_ext a b : (forall k, In k (mkeys a) <-> In k (mkeys b)) ->
  (forall k, mgather k a = mgather k b) -> ins_all a [] = ins_all b [].
Proof.
  intros Hk Hg. apply sorted_ext; try (apply sorted_ins_all; constructor).
  - intros k. rewrite !keys_ins_all. simpl. rewrite Hk. reflexivity.
  - intros k. rewrite !mgather_ins_all by constructor. simpl. rewrite Hg. reflexivity.
Qed.

(* ------------------------------------------------------------------ the generic argument *)
(* a chunk x gives, for the mapping entry e, a string or nothing *)
Section Gen.
  Context {X : Type}.
  Variable get : X -> option N * N -> option string.

  Definition gval (x : X) (e : option N * N) : string := match get x e with Some v => v | None => EmptyString end.

  (* the key an entry writes *)
  Definition tk (e : option N * N) : tkey := kstr (snd e).

  Definition raw (es : list (option N * N)) (x : X) : amap :=
    flat_map (fun e => match get x e with Some v => [(tk e, v)] | None => [] end) es.

  Lemma raw_keys es x k : In k (mkeys (raw es x)) <-> exists e, In e es /\ tk e = k /\ get x e <> None.
  Proof.
    unfold raw, mkeys. rewrite in_map_iff. split.
    - intros ([k' v] & <- & Hin). apply in_flat_map in Hin as (e & He & Hin).
      destruct (get x e) eqn:E; [|destruct Hin]. destruct Hin as [Hin|[]]. inversion Hin; subst.
      exists e. repeat split; auto. congruence.
    - intros (e & He & <- & Hg). destruct (get x e) as [v|] eqn:E; [|congruence].
      exists (tk e, v). split; auto. apply in_flat_map. exists e. split; auto. rewrite E. left. reflexivity.
  Qed.

  Lemma raw_flat es x : flat_keys (mkeys (raw es x)).
  Proof. intros k Hk. apply raw_keys in Hk as (e & _ & <- & _). reflexivity. Qed.

  (* the strings gathered under k: those of the entries that target k *)
  Fixpoint gat (es : list (option N * N)) (k : tkey) (x : X) : string :=
    match es with
    | [] => EmptyString
    | e :: es' => (if teqb k (tk e) then gval x e else EmptyString) +++ gat es' k x
    end.

  Lemma raw_gather es x k : mgather k (raw es x) = gat es k x.
  Proof.
    induction es as [|e es IH]; [reflexivity|].
    unfold raw in *. cbn [flat_map gat]. rewrite mgather_app, IH. f_equal.
    unfold gval. destruct (get x e) as [v|]; simpl.
    - destruct (teqb k (tk e)); [apply app_nil_r_s|reflexivity].
    - destruct (teqb k (tk e)); reflexivity.
  Qed.

  Lemma gat_notin es k x : ~ In k (map tk es) -> gat es k x = EmptyString.
  Proof.
    induction es as [|e es IH]; simpl; intros H; auto.
    destruct (teqb_spec k (tk e)); [exfalso; apply H; auto|]. simpl. apply IH. auto.
  Qed.

  Lemma nodup_N_spec l : nodup_N l = true -> NoDup l.
  Proof.
    induction l as [|a l IH]; simpl; intros H; constructor.
    - apply andb_prop in H as (H & _). apply Bool.negb_true_iff in H.
      intros Hin. assert (existsb (N.eqb a) l = true); [|congruence].
      apply existsb_exists. exists a. split; auto. apply N.eqb_refl.
    - apply IH. apply andb_prop in H as (_ & H). exact H.
  Qed.

  Lemma nodup_tk es : NoDup (map snd es) -> NoDup (map tk es).
  Proof.
    induction es as [|e es IH]; simpl; intros H; constructor; inversion H; subst; auto.
    intros Hin. apply in_map_iff in Hin as (e' & E & He'). unfold tk, kstr in E. inversion E as [E'].
    match goal with H : ~ In _ _ |- _ => apply H end. rewrite <- E'. apply in_map, He'.
  Qed.

  Lemma classic_list (l : list X) e :
    (forall x, In x l -> get x e = None) \/ (exists x, In x l /\ get x e <> None).
  Proof.
    induction l as [|a l IH]; [left; intros ? []|].
    destruct (get a e) eqn:E.
    - right. exists a. split; [left; reflexivity|congruence].
    - destruct IH as [H|(x & Hx & Hg)].
      + left. intros x [<-|Hx]; auto.
      + right. exists x. split; [right; exact Hx|exact Hg].
  Qed.

  Variable xs : list X.
  Variable whole : X.
  Hypothesis Hnone : forall e, get whole e = None <-> forall x, In x xs -> get x e = None.
  Hypothesis Hval : forall e, gval whole e = concat_strings (map (fun x => gval x e) xs).

  Lemma concat_strings_nil (l : list X) : concat_strings (map (fun _ => EmptyString) l) = EmptyString.
  Proof. induction l; simpl; auto. Qed.

  Lemma gat_whole es k : NoDup (map tk es) ->
    gat es k whole = concat_strings (map (fun x => gat es k x) xs).
  Proof.
    induction es as [|e es IH]; intros Hnd.
    - simpl. symmetry. apply concat_strings_nil.
    - inversion Hnd as [|? ? Hnotin Hnd']; subst. cbn [gat].
      destruct (teqb_spec k (tk e)).
      + subst k. rewrite (gat_notin es (tk e) whole Hnotin), app_nil_r_s, Hval.
        f_equal. apply map_ext. intros x. rewrite (gat_notin es (tk e) x Hnotin), app_nil_r_s. reflexivity.
      + simpl. rewrite IH by exact Hnd'. reflexivity.
  Qed.

  Lemma mgather_concat_map (f : X -> amap) k (l : list X) :
    mgather k (List.concat (map f l)) = concat_strings (map (fun x => mgather k (f x)) l).
  Proof.
    induction l as [|x l IH]; [reflexivity|]. cbn [map List.concat].
    rewrite mgather_app, IH. reflexivity.
  Qed.

  Lemma raw_commutes es : NoDup (map tk es) ->
    ins_all (List.concat (map (raw es) xs)) [] = ins_all (raw es whole) [].
  Proof.
    intros Hnd. apply ins_all_ext.
    - intros k. rewrite raw_keys. unfold mkeys. rewrite in_map_iff. split.
      + intros ([k' v] & <- & Hin). apply in_concat in Hin as (r & Hr & Hin).
        apply in_map_iff in Hr as (x & <- & Hx).
        assert (Hk : In k' (mkeys (raw es x))) by (unfold mkeys; apply in_map_iff; exists (k', v); auto).
        apply raw_keys in Hk as (e & He & Et & Hg). exists e. repeat split; auto.
        intros Hn. apply Hg. exact (proj1 (Hnone e) Hn x Hx).
      + intros (e & He & <- & Hg).
        assert (Hex : exists x, In x xs /\ get x e <> None).
        { clear -Hnone Hg. destruct (classic_list xs e) as [H|H]; auto.
          exfalso. apply Hg, Hnone, H. }
        destruct Hex as (x & Hx & Hgx).
        assert (Hk : In (tk e) (mkeys (raw es x))) by (apply raw_keys; exists e; auto).
        unfold mkeys in Hk. apply in_map_iff in Hk as (kv & Ek & Hin).
        exists kv. split; auto. apply in_concat. exists (raw es x). split; auto. apply in_map, Hx.
    - intros k. rewrite mgather_concat_map, raw_gather, (gat_whole es k Hnd).
      f_equal. apply map_ext. intros x. apply raw_gather.
  Qed.

  (* the chunks a mapping produces hold strings only: they concatenate *)
  Lemma mok_raw es (l : list X) : mok (map (fun r => ins_all r []) (map (raw es) l)) = true.
  Proof.
    destruct l as [|a [|b l]]; [reflexivity|reflexivity|].
    change (mok (map (fun r => ins_all r []) (map (raw es) (a :: b :: l))))
      with (mcons (ins_all (List.concat (map (fun r => ins_all r []) (map (raw es) (a :: b :: l)))) [])).
    rewrite concat_canon, mcons_canon. apply mcons_spec, flat_Cons.
    intros k Hk. unfold mkeys in Hk. apply in_map_iff in Hk as (e & <- & He).
    apply in_concat in He as (r & Hr & He). apply in_map_iff in Hr as (x & <- & _).
    apply (raw_flat es x). unfold mkeys. apply in_map, He.
  Qed.
End Gen.

(* ------------------------------------------------------------------ the two chunk types *)
Definition all_none (es : list (option N * N)) : bool :=
  forallb (fun e => match fst e with None => true | Some _ => false end) es.
Definition all_some (es : list (option N * N)) : bool :=
  forallb (fun e => match fst e with Some _ => true | None => false end) es.

Definition getS (c : string) (e : option N * N) : option string := Some c.
Definition getM (m : amap) (e : option N * N) : option string :=
  match fst e with
  | Some a => if mhas (kstr a) m then Some (mgather (kstr a) m) else None
  | None => None
  end.

Lemma fm_VS strict es c :
  fm_entries strict es (VS c) = if all_none es then Ok (raw getS es c) else Err e_type.
Proof.
  induction es as [|[[a|] t] es IH]; [reflexivity| |].
  - reflexivity.
  - cbn [fm_entries all_none forallb fst andb res_bind]. rewrite IH. fold (all_none es).
    destruct (all_none es); reflexivity.
Qed.

Lemma fm_VM_lax es m :
  fm_entries false es (VM m) = if all_some es then Ok (raw getM es m) else Err e_type.
Proof.
  induction es as [|[[a|] t] es IH]; [reflexivity| |].
  - cbn [fm_entries all_some forallb fst andb]. rewrite IH. fold (all_some es).
    unfold raw. cbn [flat_map]. unfold getM at 2. cbn [fst snd].
    destruct (mhas (kstr a) m); cbn [res_bind]; destruct (all_some es); reflexivity.
  - reflexivity.
Qed.

Lemma fm_VM_strict es m : forallb (fun a => mhas (kstr a) m) (fmap_from (FTo es)) = true ->
  fm_entries true es (VM m) = fm_entries false es (VM m).
Proof.
  induction es as [|[[a|] t] es IH]; intros H; [reflexivity| |].
  - cbn [fmap_from flat_map fst app forallb] in H. apply andb_prop in H as (Ha & H).
    cbn [fm_entries]. rewrite Ha, IH by exact H. reflexivity.
  - reflexivity.
Qed.

Lemma all_none_some es : es <> [] -> all_none es = true -> all_some es = true -> False.
Proof. destruct es as [|[[a|] t] es]; simpl; intros; try congruence. Qed.

Lemma mgather_concat a ms : mgather a (List.concat ms) = concat_strings (map (mgather a) ms).
Proof. induction ms as [|m ms IH]; [reflexivity|]. simpl. rewrite mgather_app, IH. reflexivity. Qed.

Lemma gvalM m a t : gval getM m (Some a, t) = mgather (kstr a) m.
Proof.
  unfold gval, getM. cbn [fst]. destruct (mhas (kstr a) m) eqn:E; auto.
  symmetry. apply mgather_notin, mhas_notin, E.
Qed.

Lemma s_fmap_nonnil f s : s <> [] -> s_fmap f s <> [].
Proof. destruct s; [congruence|discriminate]. Qed.

Lemma fmap_bad f s : has_bad s -> has_bad (s_fmap f s).
Proof. apply has_bad_map. reflexivity. Qed.

Lemma all_bad (g : item val -> item val) s :
  s <> [] -> (forall it, In it s -> exists e, g it = Bad e) -> has_bad (map g s).
Proof.
  destruct s as [|it s]; [congruence|]. intros _ H.
  destruct (H it (or_introl eq_refl)) as (e & E). exists e. cbn [map]. left. exact E.
Qed.

Lemma all_bad_fails (g : item val -> item val) s :
  s <> [] -> (forall it, In it s -> exists e, g it = Bad e) -> failed (vsconcat (map g s)).
Proof. intros Hn H. apply vsconcat_bad, all_bad; auto. Qed.

(* ------------------------------------------------------------------ the theorem *)
Theorem concat_fieldMap_lem f s : fmap_wf f = true -> s <> [] -> sound s ->
  (forall x, vsconcat s = Ok x -> fmap_dom f x = true) ->
  agree (vsconcat (s_fmap f s)) (res_bind (vsconcat s) (v_fmap f)) /\ s_fmap f s <> []
  /\ sound (s_fmap f s).
Proof.
  intros Hwf Hn Hs Hd. split; [|split; [apply s_fmap_nonnil, Hn|]].
  2:{ (* soundness: from the agreement below, proved twice to keep the statement flat *)
    apply sound_cases in Hs as [Hb|[(ss & Hss & ->)|(ms & Hms & -> & Hok)]].
    - apply sound_bad, fmap_bad, Hb.
    - destruct f as [es|a].
      + destruct (all_none es) eqn:En.
        * assert (Es : s_fmap (FTo es) (sVS ss) = sVM (map (fun r => ins_all r []) (map (raw getS es) ss))).
          { unfold s_fmap, sVS, sVM. rewrite !map_map. apply map_ext. intros c. rewrite fm_VS, En. reflexivity. }
          rewrite Es. right. eexists. apply vsconcat_sVM_ok; [destruct ss; [congruence|discriminate]|apply mok_raw].
        * apply sound_bad, all_bad; [exact Hn|]. intros it Hit. apply in_sVS in Hit as (c & ->).
          rewrite fm_VS, En. eauto.
      + apply sound_bad, all_bad; [exact Hn|]. intros it Hit. apply in_sVS in Hit as (c & ->). eauto.
    - destruct f as [es|a].
      + destruct (all_some es) eqn:En.
        * assert (Es : s_fmap (FTo es) (sVM ms) = sVM (map (fun r => ins_all r []) (map (raw getM es) ms))).
          { unfold s_fmap, sVM. rewrite !map_map. apply map_ext. intros m. rewrite fm_VM_lax, En. reflexivity. }
          rewrite Es. right. eexists. apply vsconcat_sVM_ok; [destruct ms; [congruence|discriminate]|apply mok_raw].
        * apply sound_bad, all_bad; [exact Hn|]. intros it Hit. apply in_sVM in Hit as (m & ->).
          rewrite fm_VM_lax, En. eauto.
      + assert (Es : s_fmap (FTake a) (sVM ms) = sVS (map (mgather (kstr a)) ms)).
        { unfold s_fmap, sVM, sVS. rewrite !map_map. reflexivity. }
        rewrite Es. right. eexists. apply vsconcat_sVS. destruct ms; [congruence|discriminate]. }
  apply sound_cases in Hs as [Hb|[(ss & Hss & ->)|(ms & Hms & -> & Hok)]].
  - apply agree_failed; [apply vsconcat_bad, fmap_bad, Hb|apply failed_bind, vsconcat_bad, Hb].
  - (* a stream of strings *)
    rewrite vsconcat_sVS by exact Hss. cbn [res_bind].
    destruct f as [es|a].
    + cbn [v_fmap]. rewrite fm_VS. destruct (all_none es) eqn:En; cbn [res_bind].
      * assert (Es : s_fmap (FTo es) (sVS ss) = sVM (map (fun r => ins_all r []) (map (raw getS es) ss))).
        { unfold s_fmap, sVS, sVM. rewrite !map_map. apply map_ext. intros c.
          rewrite fm_VS, En. reflexivity. }
        rewrite Es, vsconcat_sVM_ok; [|destruct ss; [congruence|discriminate]|apply mok_raw].
        rewrite mval_canon by (destruct ss; [congruence|discriminate]).
        simpl in Hwf. apply andb_prop in Hwf as (_ & Hnd). apply nodup_N_spec, nodup_tk in Hnd.
        rewrite (raw_commutes getS ss (concat_strings ss)); [reflexivity| | |exact Hnd].
        -- intros e. unfold getS. split; [discriminate|].
           intros H. destruct ss as [|c ss]; [congruence|]. discriminate (H c (or_introl eq_refl)).
        -- intros e. unfold gval, getS. rewrite map_id. reflexivity.
      * apply agree_failed; [|apply failed_Err].
        apply all_bad_fails; [exact Hn|]. intros it Hit. apply in_sVS in Hit as (c & ->).
        rewrite fm_VS, En. eauto.
    + cbn [v_fmap v_getStr]. apply agree_failed; [|apply failed_Err].
      apply all_bad_fails; [exact Hn|]. intros it Hit. apply in_sVS in Hit as (c & ->). eauto.
  - (* a stream of maps *)
    specialize (Hd (VM (mval ms))). rewrite vsconcat_sVM_ok in Hd by auto. specialize (Hd eq_refl).
    rewrite vsconcat_sVM_ok by auto. cbn [res_bind].
    destruct f as [es|a].
    + cbn [v_fmap]. cbn [fmap_dom] in Hd. rewrite (fm_VM_strict es _ Hd), fm_VM_lax.
      destruct (all_some es) eqn:En; cbn [res_bind].
      * assert (Es : s_fmap (FTo es) (sVM ms) = sVM (map (fun r => ins_all r []) (map (raw getM es) ms))).
        { unfold s_fmap, sVM. rewrite !map_map. apply map_ext. intros m.
          rewrite fm_VM_lax, En. reflexivity. }
        rewrite Es, vsconcat_sVM_ok; [|destruct ms; [congruence|discriminate]|apply mok_raw].
        rewrite mval_canon by (destruct ms; [congruence|discriminate]).
        simpl in Hwf. apply andb_prop in Hwf as (_ & Hnd). apply nodup_N_spec, nodup_tk in Hnd.
        rewrite (raw_commutes getM ms (mval ms)); [reflexivity| | |exact Hnd].
        -- intros [[a|] t]; unfold getM; cbn [fst].
           ++ rewrite mhas_mval.
              destruct (mhas (kstr a) (List.concat ms)) eqn:Eh.
              ** split; [discriminate|]. intros H. exfalso.
                 assert (Hall : forall m, In m ms -> mhas (kstr a) m = false).
                 { intros m Hm. specialize (H m Hm). destruct (mhas (kstr a) m); [discriminate|reflexivity]. }
                 apply mhas_concat_false in Hall. congruence.
              ** split; auto. intros _ m Hm.
                 rewrite (proj1 (mhas_concat_false (kstr a) ms) Eh m Hm). reflexivity.
           ++ split; auto.
        -- intros [[a|] t].
           ++ rewrite gvalM, mgather_mval, mgather_concat. f_equal. apply map_ext. intros m.
              symmetry. apply gvalM.
           ++ unfold gval, getM. cbn [fst]. symmetry. apply concat_strings_nil.
      * apply agree_failed; [|apply failed_Err].
        apply all_bad_fails; [exact Hn|]. intros it Hit. apply in_sVM in Hit as (m & ->).
        rewrite fm_VM_lax, En. eauto.
    + cbn [v_fmap v_getStr]. cbn [fmap_dom fmap_from forallb] in Hd. rewrite Bool.andb_true_r in Hd.
      unfold mlookup. rewrite Hd.
      assert (Es : s_fmap (FTake a) (sVM ms) = sVS (map (mgather (kstr a)) ms)).
      { unfold s_fmap, sVM, sVS. rewrite !map_map. reflexivity. }
      rewrite Es, vsconcat_sVS by (destruct ms; [congruence|discriminate]).
      rewrite mgather_mval, mgather_concat. reflexivity.
Qed.

(* mechanism of finding F-C04c: a key the mapping reads and no chunk carries — the value
   form fails, the stream form maps nothing (a stream of empty strings / empty maps) *)
Lemma fieldMap_missing_lem a ms : ms <> [] -> mok ms = true -> mhas (kstr a) (mval ms) = false ->
  res_bind (vsconcat (sVM ms)) (v_fmap (FTake a)) = Err e_nokey
  /\ vsconcat (s_fmap (FTake a) (sVM ms)) = Ok (VS EmptyString).
Proof.
  intros Hms Hok Hh. split.
  - rewrite vsconcat_sVM_ok by auto. cbn [res_bind v_fmap v_getStr]. unfold mlookup. rewrite Hh. reflexivity.
  - assert (Es : s_fmap (FTake a) (sVM ms) = sVS (map (mgather (kstr a)) ms)).
    { unfold s_fmap, sVM, sVS. rewrite !map_map. reflexivity. }
    rewrite Es, vsconcat_sVS by (destruct ms; [congruence|discriminate]).
    rewrite <- mgather_concat, <- mgather_mval.
    rewrite (mgather_notin (kstr a) (mval ms)) by (apply mhas_notin, Hh). reflexivity.
Qed.
