(* Proofs/ErrorsOrigin.v — property C13, part 5: where the error of a leaf task comes from.
   Whatever a lambda (any native flavour, value or stream mode, any behaviour, any input stream)
   or a ToolsNode hands to the run loop as its error is a value of user code / a recovered panic /
   an error item of its input — the [origins] — under framework wrappers that add no node key.
   With [orig_recoverable_run] this makes errors.Is / errors.As on the error of ANY failing run
   equal to what they are on that origin. *)
From Eino Require Import Base.Util Model.Errors Proofs.Errors Proofs.ErrorsRun.

Definition item_origin (it : item) : err :=
  match it with IErr e => e | ILazy i => PanicErr i end.

Definition tool_origins (t : tool) : list err :=
  match t with
  | TOk => []
  | TFail u => [u]
  | TPanic i => [PanicErr i]
  | TConvPanic i => [PanicErr i]
  end.

(* everything a leaf's failure can originate from *)
Definition origins (items : list item) (n : node) : list err :=
  map item_origin items ++
  match n with
  | NLam _ _ b =>
      match b with
      | BFail u => [u]
      | BPanic i => [PanicErr i]
      | BItem u => [u]
      | BRerun => [Leaf id_rerun]
      | BConvPanic i => [PanicErr i]
      | BPostFail u => [u]
      | BOk | BCancel | BPreFail _ => []
      end
  | NTools _ ts => Leaf id_misc :: flat_map tool_origins ts
  | NSub _ _ => []
  end.

Definition no_keys (ws : list wrapper) : Prop := keys_of ws = [].

Definition from_origin (items : list item) (n : node) (r : err) : Prop :=
  exists ws u, r = apply_ws ws u /\ no_keys ws /\ In u (origins items n).

Lemma In_map_consume : forall a r items, In r (map (consume (concat_fail a)) items) ->
  exists ws u, r = apply_ws ws u /\ no_keys ws /\ In u (map item_origin items).
Proof.
  intros a r items H. apply in_map_iff in H. destruct H as [it [<- Hin]].
  destruct it as [e|i]; cbn [consume].
  - exists [WConcat a], e. repeat split. change e with (item_origin (IErr e)). apply in_map. exact Hin.
  - exists [], (PanicErr i). repeat split. change (PanicErr i) with (item_origin (ILazy i)). apply in_map. exact Hin.
Qed.

Lemma In_map_consume_ws : forall a r items, In r (map (consume (wrap_stream a)) items) ->
  exists ws u, r = apply_ws ws u /\ no_keys ws /\ In u (map item_origin items).
Proof.
  intros a r items H. apply in_map_iff in H. destruct H as [it [<- Hin]].
  destruct it as [e|i]; cbn [consume].
  - exists [WStream a], e. repeat split. change e with (item_origin (IErr e)). apply in_map. exact Hin.
  - exists [], (PanicErr i). repeat split. change (PanicErr i) with (item_origin (ILazy i)). apply in_map. exact Hin.
Qed.

Ltac from_items H :=
  let ws := fresh "ws" in let u := fresh "u" in let E := fresh "E" in let K := fresh "K" in let I := fresh "I" in
  destruct H as [ws [u [E [K I]]]]; exists ws, u; split; [exact E|]; split; [exact K|];
  apply in_or_app; left; exact I.

Ltac fin_origin := repeat split; apply in_or_app; right; left; reflexivity.
Ltac try_ws o := first
  [ exists [], o; fin_origin
  | exists [WStream InvokeByStream], o; fin_origin
  | exists [WStream InvokeByCollect], o; fin_origin
  | exists [WStream InvokeByTransform], o; fin_origin
  | exists [WConcat InvokeByStream], o; fin_origin
  | exists [WStream TransformByInvoke], o; fin_origin
  | exists [WStream TransformByStream], o; fin_origin
  | exists [WStream TransformByCollect], o; fin_origin ].
Ltac own_origin :=
  unfold origins;
  match goal with
  | |- exists ws u, _ = _ /\ _ /\ In u (_ ++ [?o]) => try_ws o
  end.

Lemma lambda_origin : forall stream items k f b es r,
  exec_lambda stream items f b = NErr es -> In r es -> from_origin items (NLam k f b) r.
Proof.
  intros stream items k f b es r Hex Hin. unfold from_origin.
  unfold exec_lambda in Hex.
  destruct stream; cbn [negb] in Hex.
  - (* stream mode *)
    destruct f.
    + destruct items as [|it0 items'].
      * destruct b; cbn in Hex; try discriminate; inversion Hex; subst es; destruct Hin as [<-|[]]; own_origin.
      * remember (it0 :: items') as its eqn:Eits. inversion Hex; subst es. apply In_map_consume in Hin. from_items Hin.
    + destruct items as [|it0 items'].
      * destruct b; cbn in Hex; try discriminate; inversion Hex; subst es; destruct Hin as [<-|[]]; own_origin.
      * remember (it0 :: items') as its eqn:Eits. inversion Hex; subst es. apply In_map_consume in Hin. from_items Hin.
    + destruct items as [|it0 items'].
      * destruct b; cbn in Hex; try discriminate; inversion Hex; subst es; destruct Hin as [<-|[]]; own_origin.
      * remember (it0 :: items') as its eqn:Eits. inversion Hex; subst es. apply In_map_consume_ws in Hin. from_items Hin.
    + destruct b; cbn in Hex; try discriminate; inversion Hex; subst es; destruct Hin as [<-|[]]; own_origin.
  - (* value mode: the input is a value *)
    destruct f; destruct b; cbn in Hex; try discriminate; inversion Hex; subst es; destruct Hin as [<-|[]]; own_origin.
Qed.

Lemma first_tool_error_origin : forall stream (w : list wrapper) ts e,
  first_tool_error stream (apply_ws w) ts = Some e ->
  exists u, In u (flat_map tool_origins ts) /\ (e = Wrapf (apply_ws w u) \/ e = Wrapf u).
Proof.
  intros stream w ts e. induction ts as [|t ts IH]; intros H; cbn in H; [discriminate|].
  destruct t as [|u|i|i].
  - destruct (IH H) as [u [Hu He]]. exists u. split; [exact Hu|exact He].
  - inversion H; subst e. exists u. split; [left; reflexivity|left; reflexivity].
  - inversion H; subst e. exists (PanicErr i). split; [left; reflexivity|right; reflexivity].
  - destruct stream.
    + destruct (IH H) as [u [Hu He]]. exists u. split; [right; exact Hu|exact He].
    + inversion H; subst e. exists (PanicErr i). split; [left; reflexivity|right; reflexivity].
Qed.

Lemma tool0_panics_origin : forall stream t0 i, tool0_panics stream t0 = Some i ->
  In (PanicErr i) (tool_origins t0).
Proof.
  intros stream t0 i H. destruct t0; cbn in H; try discriminate.
  - inversion H; subst. left. reflexivity.
  - destruct stream; [discriminate|]. inversion H; subst. left. reflexivity.
Qed.

Lemma tools_origin : forall stream items k ts es r,
  exec_tools stream items ts = NErr es -> In r es -> from_origin items (NTools k ts) r.
Proof.
  intros stream items k ts es r Hex Hin. unfold from_origin, origins.
  unfold exec_tools in Hex. destruct ts as [|t0 ts'].
  - inversion Hex; subst es. destruct Hin as [<-|[]]. destruct stream.
    + exists [WStream TransformByStream], (Leaf id_misc). repeat split. apply in_or_app. right. left. reflexivity.
    + exists [], (Leaf id_misc). repeat split. apply in_or_app. right. left. reflexivity.
  - destruct (if stream then items else []) as [|it0 its] eqn:Eit.
    + destruct (tool0_panics stream t0) as [i|] eqn:E0.
      * inversion Hex; subst es. destruct Hin as [<-|[]].
        exists [], (PanicErr i). repeat split. apply in_or_app. right. right.
        cbn [flat_map]. apply in_or_app. left. eapply tool0_panics_origin; eauto.
      * destruct stream; cbn [negb] in Hex.
        -- destruct (first_tool_error true (wrap_stream StreamByInvoke) (t0 :: ts')) as [e|] eqn:Ef; [|discriminate].
           inversion Hex; subst es. destruct Hin as [<-|[]].
           change (wrap_stream StreamByInvoke) with (apply_ws [WStream StreamByInvoke]) in Ef.
           destruct (first_tool_error_origin _ _ _ _ Ef) as [u [Hu [->| ->]]].
           ++ exists [WStream TransformByStream; WWrapf; WStream StreamByInvoke], u. repeat split.
              apply in_or_app. right. right. exact Hu.
           ++ exists [WStream TransformByStream; WWrapf], u. repeat split.
              apply in_or_app. right. right. exact Hu.
        -- destruct (first_tool_error false (fun e => e) (t0 :: ts')) as [e|] eqn:Ef; [|discriminate].
           inversion Hex; subst es. destruct Hin as [<-|[]].
           change (fun e : err => e) with (apply_ws []) in Ef.
           destruct (first_tool_error_origin _ _ _ _ Ef) as [u [Hu [->| ->]]];
             exists [WWrapf], u; repeat split; apply in_or_app; right; right; exact Hu.
    + destruct stream; [|discriminate]. subst items. remember (it0 :: its) as its0 eqn:Eits0.
      inversion Hex; subst es. apply In_map_consume in Hin. from_items Hin.
Qed.

(* what a lambda whose body succeeds hands on: nothing, or (a lazy transformer) its input's items *)
Lemma post_fail_output : forall stream items f u its c,
  exec_lambda stream items f (BPostFail u) = NOk its c -> its = [] \/ its = items.
Proof.
  intros stream items f u its c H. unfold exec_lambda in H.
  destruct stream, f; cbn in H; try (destruct items; cbn in H; try discriminate);
    inversion H; subst; auto.
Qed.

Lemma with_post_origin : forall stream items k f b es r,
  with_post stream b (exec_lambda stream items f b) = NErr es -> In r es -> from_origin items (NLam k f b) r.
Proof.
  intros stream items k f b es r Hex Hin.
  destruct b; cbn [with_post] in Hex; try (eapply lambda_origin; eauto; fail).
  destruct (exec_lambda stream items f (BPostFail e)) as [its c|es0|] eqn:Ex.
  - destruct its as [|[e0|i] its'].
    + inversion Hex; subst es. destruct Hin as [<-|[]]. unfold from_origin, origins.
      destruct stream.
      * exists [WWrapf; WStream TransformByInvoke], e. repeat split. apply in_or_app. right. left. reflexivity.
      * exists [WWrapf], e. repeat split. apply in_or_app. right. left. reflexivity.
    + inversion Hex; subst es. destruct Hin as [<-|[]].
      destruct (post_fail_output _ _ _ _ _ _ Ex) as [H|H]; [discriminate|].
      exists [WWrapf; WConcat TransformByInvoke], e0. repeat split.
      unfold origins. apply in_or_app. left. rewrite <- H. left. reflexivity.
    + discriminate.
  - inversion Hex; subst es0. eapply lambda_origin; eauto.
  - discriminate.
Qed.

Lemma leaf_origin_lemma : forall stream items n es r,
  is_leaf n = true -> exec_leaf stream items n = NErr es -> In r es -> from_origin items n r.
Proof.
  intros stream items n es r Hl Hex Hin. destruct n as [k f b|k gi|k ts]; [|discriminate|].
  - eapply with_post_origin; eauto.
  - eapply tools_origin; eauto.
Qed.

(* end to end: what errors.Is / errors.As find in the error a caller gets is what they find in an
   origin, for every error a run returns because a leaf failed *)
Lemma leaf_failure_recoverable_lemma : forall F stream g e p r ws u par,
  reported F stream g e p r -> r = apply_ws ws u ->
  (forall t, leaf_target t -> is_ t (top_error par e) = is_ t u) /\
  (forall ty, as_custom ty (top_error par e) = as_custom ty u) /\
  as_panic (top_error par e) = as_panic u.
Proof.
  intros F stream g e p r ws u par Hrep Hr.
  destruct (recoverable_run_lemma F stream g e p r ws u par Hrep Hr) as [H1 [H2 [H3 _]]].
  repeat split; assumption.
Qed.

Lemma any_leaf_failure_recoverable_lemma : forall F stream g e p r items n es,
  reported F stream g e p r ->
  is_leaf n = true -> exec_leaf stream items n = NErr es -> In r es ->
  exists u, In u (origins items n) /\
    forall par,
      (forall t, leaf_target t -> is_ t (top_error par e) = is_ t u) /\
      (forall ty, as_custom ty (top_error par e) = as_custom ty u) /\
      as_panic (top_error par e) = as_panic u.
Proof.
  intros F stream g e p r items n es Hrep Hl Hex Hin.
  destruct (leaf_origin_lemma stream items n es r Hl Hex Hin) as [ws [u [Hr [_ Hu]]]].
  exists u. split; [exact Hu|]. intros par.
  eapply leaf_failure_recoverable_lemma; eauto.
Qed.
