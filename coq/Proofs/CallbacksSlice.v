(* Proofs/CallbacksSlice.v — lemmas about Base/GoSlice.v (Go's append on a heap of arrays).

   Two facts carry everything that is proved about the callback managers:
   - [append_spec]:  for a well-formed slice, whatever the growth policy, the result of
     append reads  old ++ xs  and is well-formed;
   - [append_frame]: an append through a slice that is nil-like or whose array was allocated
     at or after heap position n leaves every array below n untouched, and its result is
     again such a slice.  *)
From Coq Require Import List Arith Lia Bool NArith.
From Eino Require Import Base.GoSlice.
Import ListNotations.

(* ---------------------------------------------------------------- lists *)

Lemma write_at_nil {A} (l : list A) i : write_at l i [] = l.
Proof.
  revert i; induction l as [|a l IH]; intros [|i]; simpl; auto.
  now rewrite IH.
Qed.

Lemma write_at_spec {A} (l : list A) i xs :
  i + length xs <= length l ->
  write_at l i xs = firstn i l ++ xs ++ skipn (i + length xs) l.
Proof.
  revert l; induction i as [|i IH]; intros l H; simpl.
  - destruct l; reflexivity.
  - destruct l as [|a l]; simpl in *; [lia|].
    rewrite IH by lia. reflexivity.
Qed.

Lemma write_at_length {A} (l : list A) i xs :
  i + length xs <= length l -> length (write_at l i xs) = length l.
Proof.
  intros H. rewrite write_at_spec by auto.
  rewrite !app_length, firstn_length, skipn_length. lia.
Qed.

Lemma set_nth_length {A} (l : list A) i a : length (set_nth l i a) = length l.
Proof. revert i; induction l as [|x l IH]; intros [|i]; simpl; auto. Qed.

Lemma set_nth_same {A} (l : list A) i a d : i < length l -> nth i (set_nth l i a) d = a.
Proof.
  revert i; induction l as [|x l IH]; intros [|i] H; simpl in *; try lia; auto.
  apply IH; lia.
Qed.

Lemma set_nth_other {A} (l : list A) i j a d : i <> j -> nth j (set_nth l i a) d = nth j l d.
Proof.
  revert i j; induction l as [|x l IH]; intros [|i] [|j] H; simpl; auto; try congruence.
Qed.

Lemma set_nth_id {A} (l : list A) i d : set_nth l i (nth i l d) = l.
Proof.
  revert i; induction l as [|x l IH]; intros [|i]; simpl; auto.
  now rewrite IH.
Qed.

Lemma nth_app_last {A} (h : list A) x d : nth (length h) (h ++ [x]) d = x.
Proof. rewrite app_nth2 by lia. now rewrite Nat.sub_diag. Qed.

Lemma firstn_skipn_app {A} (l : list A) o n rest :
  o + n <= length l ->
  firstn n (skipn o (firstn (o + n) l ++ rest)) = firstn n (skipn o l).
Proof.
  intros H.
  rewrite skipn_app, firstn_app.
  rewrite firstn_length, Nat.min_l by lia.
  replace (o - (o + n)) with 0 by lia. simpl.
  rewrite skipn_firstn_comm. replace (o + n - o) with n by lia.
  rewrite firstn_firstn, Nat.min_id.
  assert (L : length (firstn n (skipn o l)) = n) by (rewrite firstn_length, skipn_length; lia).
  rewrite L, Nat.sub_diag. simpl. now rewrite app_nil_r.
Qed.

(* ---------------------------------------------------------------- reading *)

Lemma read_length h s : wf h s -> length (read h s) = len s.
Proof.
  intros [Hl [Hc | [Ha Hb]]]; unfold read.
  - assert (len s = 0) by lia. rewrite H. reflexivity.
  - rewrite firstn_length, skipn_length. lia.
Qed.

(* a read only depends on the slice's own array *)
Lemma read_same_array h h' s : arr_of h' s = arr_of h s -> read h' s = read h s.
Proof. unfold read; intros ->; reflexivity. Qed.

Lemma read_nil_like h s : len s <= cap s -> cap s = 0 -> read h s = [].
Proof. intros H1 H2. unfold read. assert (len s = 0) by lia. rewrite H. reflexivity. Qed.

(* heap extension that keeps the arrays below n *)
Definition keeps (n : nat) (h h' : heap) : Prop :=
  length h <= length h' /\ forall a, a < n -> nth a h' [] = nth a h [].

Lemma keeps_refl n h : keeps n h h.
Proof. split; auto. Qed.

Lemma keeps_trans n h1 h2 h3 : keeps n h1 h2 -> keeps n h2 h3 -> keeps n h1 h3.
Proof. intros [L1 K1] [L2 K2]; split; [lia|]. intros a Ha. rewrite K2, K1; auto. Qed.

Lemma keeps_mono n m h h' : m <= n -> keeps n h h' -> keeps m h h'.
Proof. intros Hm [L K]; split; auto. intros a Ha; apply K; lia. Qed.

Lemma keeps_app n h t : n <= length h -> keeps n h (h ++ t).
Proof.
  intros Hn; split; [rewrite app_length; lia|].
  intros a Ha. apply app_nth1; lia.
Qed.

Lemma keeps_read n h h' s : keeps n h h' -> wf h s -> n = length h -> read h' s = read h s.
Proof.
  intros [L K] [Hl [Hc | [Ha Hb]]] ->.
  - rewrite !read_nil_like; auto.
  - apply read_same_array. unfold arr_of. apply K; auto.
Qed.

Lemma keeps_wf n h h' s : keeps n h h' -> wf h s -> n = length h -> wf h' s.
Proof.
  intros [L K] [Hl [Hc | [Ha Hb]]] ->; split; auto.
  right. split; [lia|]. unfold arr_of in *. rewrite K; auto.
Qed.

(* ---------------------------------------------------------------- append *)

(* Go's specification of append, for every growth policy *)
Lemma append_spec pol h s xs :
  wf h s ->
  read (fst (append pol h s xs)) (snd (append pol h s xs)) = read h s ++ xs /\
  wf (fst (append pol h s xs)) (snd (append pol h s xs)).
Proof.
  intros W. pose proof (read_length h s W) as RL.
  destruct W as [Hl Hw]. unfold append.
  destruct (len s + length xs <=? cap s) eqn:E; simpl.
  - apply Nat.leb_le in E.
    destruct Hw as [Hc | [Ha Hb]].
    + (* nil-like: nothing is appended *)
      assert (length xs = 0) by lia. destruct xs; [|simpl in *; lia].
      rewrite write_at_nil. unfold arr_of. rewrite set_nth_id.
      rewrite app_nil_r. split.
      * unfold read; simpl. now rewrite Nat.add_0_r.
      * split; simpl; [lia | left; auto].
    + set (l := arr_of h s) in *.
      assert (Hfit : off s + len s + length xs <= length l) by lia.
      split.
      * unfold read at 1; simpl. unfold arr_of at 1; simpl.
        rewrite set_nth_same by auto.
        rewrite write_at_spec by auto.
        rewrite <- Nat.add_assoc.
        rewrite skipn_app, firstn_app.
        assert (L1 : length (skipn (off s) (firstn (off s + len s) l)) = len s).
        { rewrite skipn_length, firstn_length. lia. }
        rewrite L1.
        replace (off s - length (firstn (off s + len s) l)) with 0
          by (rewrite firstn_length; lia).
        simpl skipn.
        rewrite firstn_all2 with (n := len s + length xs) by lia.
        replace (len s + length xs - len s) with (length xs) by lia.
        rewrite firstn_app, firstn_all, Nat.sub_diag. simpl. rewrite app_nil_r.
        f_equal. unfold read. fold l.
        rewrite skipn_firstn_comm. replace (off s + len s - off s) with (len s) by lia.
        reflexivity.
      * split; simpl; [lia|]. right. split; [now rewrite set_nth_length|].
        unfold arr_of; simpl. rewrite set_nth_same by auto.
        rewrite write_at_length by auto. exact Hb.
  - apply Nat.leb_gt in E. split.
    + unfold read at 1; simpl. unfold arr_of; simpl. rewrite nth_app_last.
      rewrite app_assoc, firstn_app.
      rewrite app_length, RL, Nat.sub_diag. simpl. rewrite app_nil_r.
      apply firstn_all2. rewrite app_length, RL. lia.
    + split; simpl; [lia|]. right. split; [rewrite app_length; simpl; lia|].
      unfold arr_of; simpl. rewrite nth_app_last.
      rewrite !app_length, RL, repeat_length. lia.
Qed.

(* a slice is [fresh_from n] when an append through it cannot touch the arrays below n *)
Definition fresh_from (n : nat) (s : slice) : Prop := cap s = 0 \/ n <= arr s.

Lemma append_frame pol n h s xs :
  n <= length h -> len s <= cap s -> fresh_from n s ->
  keeps n h (fst (append pol h s xs)) /\ fresh_from n (snd (append pol h s xs)).
Proof.
  intros Hn Hl Hf. unfold append.
  destruct (len s + length xs <=? cap s) eqn:E; simpl.
  - apply Nat.leb_le in E. split; [|exact Hf].
    destruct Hf as [Hc | Ha].
    + assert (length xs = 0) by lia. destruct xs; [|simpl in *; lia].
      rewrite write_at_nil. unfold arr_of. rewrite set_nth_id. apply keeps_refl.
    + split; [now rewrite set_nth_length|].
      intros a Ha'. apply set_nth_other. lia.
  - split; [apply keeps_app; auto|]. right; simpl; lia.
Qed.

Lemma make_spec h l c :
  let r := make h l c in
  keeps (length h) h (fst r) /\ wf (fst r) (snd r) /\ fresh_from (length h) (snd r) /\
  len (snd r) = l /\ l + (c - l) <= cap (snd r).
Proof.
  unfold make; simpl. repeat split; simpl; try lia.
  - rewrite app_length; lia.
  - intros a Ha. apply app_nth1; auto.
  - right. split; [rewrite app_length; simpl; lia|].
    unfold arr_of; simpl. rewrite nth_app_last, repeat_length. lia.
  - right; simpl; lia.
Qed.

Lemma alloc_slice_spec h o xs spare :
  let r := alloc_slice h o xs spare in
  keeps (length h) h (fst r) /\ wf (fst r) (snd r) /\ read (fst r) (snd r) = xs.
Proof.
  unfold alloc_slice; simpl. repeat split; simpl; try lia.
  - rewrite app_length; lia.
  - intros a Ha. apply app_nth1; auto.
  - right. split; [rewrite app_length; simpl; lia|].
    unfold arr_of; simpl. rewrite nth_app_last, !app_length, !repeat_length. lia.
  - unfold read, arr_of; simpl. rewrite nth_app_last.
    rewrite skipn_app, repeat_length, Nat.sub_diag.
    rewrite skipn_all2 by (rewrite repeat_length; lia). simpl.
    rewrite firstn_app, Nat.sub_diag, firstn_all. simpl. now rewrite app_nil_r.
Qed.

(* ---------------------------------------------------------------- reslicing *)

Lemma skipn_add {A} (l : list A) : forall a b, skipn b (skipn a l) = skipn (a + b) l.
Proof.
  induction l as [|x l IH]; intros a b.
  - now rewrite !skipn_nil.
  - destruct a as [|a]; simpl; auto.
Qed.

(* s[lo:hi] with hi <= len s reads the corresponding part of s and shares its array: its
   capacity reaches to the end of s's capacity *)
Lemma reslice_spec h s lo hi :
  wf h s -> lo <= hi -> hi <= len s ->
  wf h (reslice s lo hi) /\ read h (reslice s lo hi) = firstn (hi - lo) (skipn lo (read h s)).
Proof.
  intros [Hl Hw] H1 H2. split.
  - split; simpl; [lia|]. destruct Hw as [Hc|[Ha Hb]]; [left; lia|].
    right. split; auto. unfold arr_of in *. simpl. lia.
  - unfold read, arr_of. simpl.
    rewrite skipn_firstn_comm, firstn_firstn, skipn_add.
    f_equal. lia.
Qed.

