(* Proofs/OptionsSliceScript.v — property C16: a whole script of option constructors run over a heap of
   Go slices (Model/OptionsSlice.v build_go, any growth policy) refines the script over option values
   (Model/Options.v build): every option built along the way reads, in the final heap, as its value. *)
From Coq Require Import List Arith NArith Bool Lia.
Import ListNotations.
From Eino Require Import Base.Util Base.GoSlice Proofs.CallbacksSlice Model.OptionsSlice Proofs.OptionsSlice.
From Eino Require Model.Options.

Module O := Eino.Model.Options.

Section Refine.
Variable dec : elem -> O.path.    (* the path a path pointer points to *)
Variable pol : policy.

Definition bop_of (b : sop) : O.bop :=
  match b with
  | SItems its => O.BItems its
  | SHandlers hs => O.BHandlers hs
  | SDesignate j ps => O.BDesignate j (map dec ps)
  end.

(* the slice-level option [so], read in heap [h], is the value-level option [o] *)
Definition reads_as (h : heap) (so : sopt) (o : O.copt) : Prop :=
  wf h (s_paths so) /\ s_items so = O.o_items o /\ s_handlers so = O.o_handlers o /\
  map dec (read h (s_paths so)) = O.o_paths o.

Lemma reads_as_keeps (h h' : heap) so o :
  keeps (List.length h) h h' -> reads_as h so o -> reads_as h' so o.
Proof.
  intros K [W [Hi [Hh Hp]]]. split; [|split; [exact Hi|split; [exact Hh|]]].
  - exact (keeps_wf (List.length h) h h' _ K W eq_refl).
  - rewrite (keeps_read (List.length h) h h' _ K W eq_refl). exact Hp.
Qed.

Lemma forall2_keeps (h h' : heap) env envv :
  keeps (List.length h) h h' -> Forall2 (reads_as h) env envv -> Forall2 (reads_as h') env envv.
Proof.
  intros K HF. induction HF; constructor; auto. eapply reads_as_keeps; eauto.
Qed.

Lemma forall2_nth {A B} (P : A -> B -> Prop) l l' j a :
  Forall2 P l l' -> nth_error l j = Some a -> exists b, nth_error l' j = Some b /\ P a b.
Proof.
  intros HF. revert j. induction HF as [|x y l l' Hxy HF IH]; intros [|j] Hn; simpl in *; try discriminate.
  - inversion Hn; subst. eauto.
  - eauto.
Qed.

Lemma forall2_nth_none {A B} (P : A -> B -> Prop) l l' j :
  Forall2 P l l' -> nth_error l j = None -> nth_error l' j = None.
Proof.
  intros HF. revert j. induction HF as [|x y l l' Hxy HF IH]; intros [|j] Hn; simpl in *; try discriminate; auto.
Qed.

Lemma forall2_snoc {A B} (P : A -> B -> Prop) l l' a b :
  Forall2 P l l' -> P a b -> Forall2 P (l ++ [a]) (l' ++ [b]).
Proof. intros HF Hab. apply Forall2_app; auto. Qed.

(* one constructor: the new option reads as its value, every older one still reads as it did *)
Lemma build_go_one_refines (h : heap) env envv b :
  Forall2 (reads_as h) env envv ->
  match build_go_one pol h env b with
  | Some (h', so) => exists o, O.build_one envv (bop_of b) = Ok o /\
                               keeps (List.length h) h h' /\ reads_as h' so o
  | None => O.build_one envv (bop_of b) = Err O.E_SCRIPT
  end.
Proof.
  intros HF. destruct b as [its|hs|j ps]; simpl.
  - destruct (make_spec h 0 0) as [K [W [_ [L _]]]].
    exists (O.mkOpt its [] []). split; [reflexivity|]. split; [exact K|].
    split; [exact W|]. simpl. repeat split; reflexivity.
  - exists (O.mkOpt [] hs []). split; [reflexivity|]. split; [apply keeps_refl|].
    split; [|simpl; repeat split].
    unfold wf, nil_slice. simpl. split; [lia|left; reflexivity].
  - destruct (nth_error env j) as [so|] eqn:Hj.
    + destruct (forall2_nth _ _ _ _ _ HF Hj) as [o [Hj' [W [Hi [Hh Hp]]]]].
      rewrite Hj'. destruct (designate_go_spec pol h (s_paths so) ps W) as [R [W' [K _]]].
      exists (O.designate o (map dec ps)). split; [reflexivity|]. split; [exact K|].
      split; [exact W'|]. simpl. repeat split; auto.
      rewrite R, map_app, Hp. reflexivity.
    + rewrite (forall2_nth_none _ _ _ _ HF Hj). reflexivity.
Qed.

(* the whole script: at the end EVERY option built along the way — bases, derivatives, siblings —
   reads in the final heap as the value the value-level script [build] computes for it *)
Lemma build_go_refines : forall script (h : heap) env envv,
  Forall2 (reads_as h) env envv ->
  match build_go pol h script env with
  | Some (h', env') => exists envv', O.build (map bop_of script) envv = Ok envv' /\
                                     Forall2 (reads_as h') env' envv'
  | None => O.build (map bop_of script) envv = Err O.E_SCRIPT
  end.
Proof.
  induction script as [|b script IH]; intros h env envv HF; simpl.
  - exists envv. split; [reflexivity|exact HF].
  - pose proof (build_go_one_refines h env envv b HF) as H1.
    destruct (build_go_one pol h env b) as [[h1 so]|].
    + destruct H1 as [o [Ho [K Hr]]]. rewrite Ho. simpl.
      apply IH. apply forall2_snoc; [|exact Hr]. eapply forall2_keeps; eauto.
    + rewrite H1. reflexivity.
Qed.

Lemma build_go_script_refines script :
  match build_go pol [] script [] with
  | Some (h', env') => exists envv', O.build (map bop_of script) [] = Ok envv' /\
                                     Forall2 (reads_as h') env' envv'
  | None => O.build (map bop_of script) [] = Err O.E_SCRIPT
  end.
Proof. apply build_go_refines. constructor. Qed.

End Refine.
