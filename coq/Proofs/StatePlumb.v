(* Proofs/StatePlumb.v — C11: what the blocks of Model/StatePlumb.v (the statements of graph.go /
   graph_run.go that create, save and restore the holder of the graph state;
   Proofs/GenAgreeStatePlumb.v proves that the source, re-read on every run, is these blocks) compute,
   and that the transition system of Model/StateLockLTS.v does exactly that: [new_inst] is the start
   block, [ChResume] is the save block followed by the resume block. *)
From Eino Require Import Base.Util Model.StateLock Model.StateLockLTS Model.StateLockCode Model.StatePlumb.

Definition mod_fun {S : Type} (om : option (S -> S)) : S -> S :=
  match om with Some m => m | None => fun s => s end.

Section Specs.
  Variable S : Type.
  Variable env : penv S.

  (* a new run: a graph that declares state binds the state key to a NEW holder whose state is what
     the generator returns; a graph without state leaves the context alone *)
  Lemma start_spec : forall st,
    pexec S env start_block st =
    Some (if pe_has_gen S env
          then mkPS (bind (ps_ctx st) KState (List.length (ps_objs st))) (ps_objs st ++ [pe_gen S env])
                    (ps_cp st) (ps_restored st) (ps_modcalls st)
          else st).
  Proof. intros st. unfold pexec, start_block. cbn. destruct (pe_has_gen S env); reflexivity. Qed.

  (* an interrupt: only a graph that declares state saves the state it finds *)
  Lemma save_spec : forall st,
    pexec S env save_block st =
    Some (if pe_has_gen S env
          then match ps_ctx st KState with
               | Some o => mkPS (ps_ctx st) (ps_objs st) (nth_error (ps_objs st) o) (ps_restored st) (ps_modcalls st)
               | None => st
               end
          else st).
  Proof.
    intros st. unfold pexec, save_block. cbn. destruct (pe_has_gen S env); [|reflexivity].
    destruct (ps_ctx st KState); reflexivity.
  Qed.

  (* resume with a saved state v: the caller's modifier is applied to it exactly once (if there is
     one), the result goes into a NEW holder, and the restored tasks are created with that holder *)
  Lemma resume_spec_some : forall st v, ps_cp st = Some v ->
    pexec S env resume_block st =
    Some (let v' := mod_fun (pe_modifier S env) v in
          mkPS (bind (ps_ctx st) KState (List.length (ps_objs st))) (ps_objs st ++ [v']) (Some v')
               (ps_restored st ++ [Some (List.length (ps_objs st))])
               (match pe_modifier S env with Some _ => Datatypes.S (ps_modcalls st) | None => ps_modcalls st end)).
  Proof.
    intros st v Hv. unfold pexec, resume_block. cbn. rewrite Hv.
    destruct (pe_modifier S env) as [m|]; cbn; rewrite ?Hv; cbn; reflexivity.
  Qed.

  (* resume without a saved state (a graph that declares none): no modifier call, the context is
     left alone — the restored tasks see what the enclosing graph put there *)
  Lemma resume_spec_none : forall st, ps_cp st = None ->
    pexec S env resume_block st =
    Some (mkPS (ps_ctx st) (ps_objs st) None (ps_restored st ++ [ps_ctx st KState]) (ps_modcalls st)).
  Proof.
    intros st Hv. unfold pexec, resume_block. cbn. rewrite Hv.
    destruct (pe_modifier S env); cbn; rewrite ?Hv; reflexivity.
  Qed.
End Specs.

Section Link.
  Variables (S X : Type).
  Variable gen : nat -> S.
  Variable hfun : kind -> N -> X -> S -> X * S.
  Variable lout : N -> X -> X.
  Variable mrg : list X -> X.
  Variable f : forest.
  Variable x0 : X.

  (* the plumbing state of a configuration: the context binds the state key to [seen], the holders
     are the objects *)
  Definition st_of (c : config S X) (seen : option nat) : pstate S :=
    mkPS (fun k => match k with KState => seen | KOther _ => None end) (map (@o_val S) (c_objs c)) None [] 0.

  Lemma nth_error_snoc : forall A (l : list A) a, nth_error (l ++ [a]) (List.length l) = Some a.
  Proof. induction l; cbn; auto. Qed.

  (* [new_inst] — start of a run, start of a nested graph — is the start block: same holders, and
     the new instance sees the holder the block leaves in the context *)
  Lemma new_inst_is_start_block : forall c r g G parent inherited x,
    let c' := new_inst S X gen c r g G parent inherited x in
    exists st' J,
      pexec S (mkPE (g_state G) (gen g) None 0) start_block (st_of c inherited) = Some st' /\
      ps_objs st' = map (@o_val S) (c_objs c') /\
      nth_error (c_insts c') (List.length (c_insts c)) = Some J /\
      i_obj J = ps_ctx st' KState /\ i_run J = r /\ i_graph J = g /\ i_parent J = parent.
  Proof.
    intros c r g G parent inherited x. cbn zeta. rewrite start_spec. unfold new_inst. cbn [pe_has_gen pe_gen].
    destruct (g_state G); eexists; eexists; (split; [reflexivity|]); cbn.
    - rewrite map_app, map_length. cbn. rewrite nth_error_snoc. repeat split; reflexivity.
    - rewrite nth_error_snoc. repeat split; reflexivity.
  Qed.

  Lemma nth_error_map_val : forall (l : list (objrec S)) o r,
    nth_error l o = Some r -> nth_error (map (@o_val S) l) o = Some (o_val r).
  Proof. induction l; intros [|o] r H; cbn in *; try discriminate; [now inversion H | auto]. Qed.

  (* [ChResume o m] — interrupt of a graph that declares state and sees holder o, then resume with
     the caller's modifier — is the save block followed by the resume block: the saved value is the
     holder's value, the modifier is applied once, the result is in a NEW holder, the restored tasks
     (and every instance that saw o) see the new holder *)
  Lemma resume_step_is_save_then_resume_block : forall rb c o om c',
    rb = resume_sub_block \/ rb = resume_top_block ->
    pstep S X gen hfun lout mrg f x0 c (ChResume o (mod_fun om)) = Some c' ->
    exists r st',
      nth_error (c_objs c) o = Some r /\
      pexec S (mkPE true (o_val r) om 0) (save_block ++ rb) (st_of c (Some o)) = Some st' /\
      ps_objs st' = map (@o_val S) (c_objs c') /\
      ps_ctx st' KState = Some (List.length (c_objs c)) /\
      ps_restored st' = [Some (List.length (c_objs c))] /\
      ps_modcalls st' = (match om with Some _ => 1 | None => 0 end)%nat /\
      (forall J, i_obj J = Some o -> i_obj (remap S X o (List.length (c_objs c)) J) = ps_ctx st' KState).
  Proof.
    intros rb c o om c' Hrb Hp. cbn [pstep] in Hp.
    destruct (nth_error (c_objs c) o) as [r|] eqn:Hr; [|discriminate].
    destruct (o_holder r); [discriminate|]. inversion Hp; subst c'; clear Hp.
    exists r. destruct Hrb; subst rb; destruct om as [m|]; eexists; (split; [reflexivity|]); (split; [
      unfold pexec, save_block, resume_sub_block, resume_top_block, resume_block, st_of; cbn;
      rewrite (nth_error_map_val _ _ _ Hr); cbn; reflexivity |]);
      cbn; rewrite map_app, map_length; cbn; repeat split; try reflexivity;
        intros J HJ; unfold remap; rewrite HJ, Nat.eqb_refl; reflexivity.
  Qed.

  (* a graph that declares no state saves nothing and, on resume, leaves the context alone: its
     nodes go on seeing what the enclosing graph's context holds (F-C11a) *)
  Lemma stateless_graph_keeps_context : forall rb (g0 : S) om st,
    rb = resume_sub_block \/ rb = resume_top_block ->
    ps_cp st = None ->
    exists st', pexec S (mkPE false g0 om 0) (save_block ++ rb) st = Some st' /\
                ps_ctx st' = ps_ctx st /\ ps_objs st' = ps_objs st /\ ps_cp st' = None /\
                ps_modcalls st' = ps_modcalls st /\ ps_restored st' = ps_restored st ++ [ps_ctx st KState].
  Proof.
    intros rb g0 om st Hrb Hc. destruct Hrb; subst rb;
    unfold pexec, save_block, resume_sub_block, resume_top_block, resume_block; cbn; rewrite Hc;
    destruct om; cbn; rewrite ?Hc; eexists; (split; [reflexivity|]); cbn; repeat split; reflexivity.
  Qed.
End Link.
