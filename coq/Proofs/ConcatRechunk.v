(* Proofs/ConcatRechunk.v — re-chunking invariance of the generic chunk concatenation
   (Model/Concat.v): concatenating a prefix first and then the rest gives the same value
   (exactly, including the first-appearance key order) or fails in the same cases as
   concatenating everything at once. *)
From Eino Require Import Base.Util Model.Concat Proofs.Concat.

Section User.
Context {U : UserFn} {L : UserLaw}.

(* ------------------------------------------------------------------ results *)

(* "equal values or both fail" *)
Definition req {A} (r1 r2 : res A) : Prop :=
  match r1, r2 with
  | Ok a, Ok b => a = b
  | Ok _, _ => False
  | _, Ok _ => False
  | _, _ => True
  end.

(* the same, and neither side is a panic *)
Definition req_strict {A} (r1 r2 : res A) : Prop :=
  match r1, r2 with
  | Ok a, Ok b => a = b
  | Err _, Err _ => True
  | _, _ => False
  end.

Definition fails {A} (r : res A) : Prop := is_ok r = false.

(* F (F! xs :: ys) ~ F (xs ++ ys) *)
Definition rechunk_ok {X} (F : list X -> res X) (xs ys : list X) : Prop :=
  match F xs with
  | Ok c => req (F (c :: ys)) (F (xs ++ ys))
  | _ => fails (F (xs ++ ys))
  end.

Definition rechunk_strict {X} (F : list X -> res X) (xs ys : list X) : Prop :=
  match F xs with
  | Ok c => req_strict (F (c :: ys)) (F (xs ++ ys))
  | Err _ => exists e, F (xs ++ ys) = Err e
  | Panic => False
  end.

Lemma req_refl {A} (r : res A) : req r r.
Proof. destruct r; cbn; auto. Qed.

Lemma req_of_eq {A} (r1 r2 : res A) : r1 = r2 -> req r1 r2.
Proof. intros ->. apply req_refl. Qed.

Lemma req_sym {A} (r1 r2 : res A) : req r1 r2 -> req r2 r1.
Proof. destruct r1, r2; cbn; auto. Qed.

Lemma req_trans {A} (r1 r2 r3 : res A) : req r1 r2 -> req r2 r3 -> req r1 r3.
Proof. destruct r1, r2, r3; cbn; intros; subst; auto; contradiction. Qed.

Lemma req_res_map {A B} (g : A -> B) r1 r2 : req r1 r2 -> req (res_map g r1) (res_map g r2).
Proof. destruct r1, r2; cbn; intros; subst; auto. Qed.

Lemma req_bind {A B} (r1 r2 : res A) (k1 k2 : A -> res B) :
  req r1 r2 -> (forall a, r1 = Ok a -> req (k1 a) (k2 a)) -> req (res_bind r1 k1) (res_bind r2 k2).
Proof.
  destruct r1, r2; cbn; intros H Hk; subst; auto; try contradiction.
Qed.

Lemma req_fails_l {A} (r1 r2 : res A) : req r1 r2 -> fails r1 -> fails r2.
Proof. unfold fails. destruct r1, r2; cbn; auto; try contradiction. Qed.

Lemma req_both_fail {A} (r1 r2 : res A) : fails r1 -> fails r2 -> req r1 r2.
Proof. unfold fails. destruct r1, r2; cbn; auto; discriminate. Qed.

Lemma fails_res_map {A B} (g : A -> B) r : fails r -> fails (res_map g r).
Proof. unfold fails. destruct r; cbn; auto. Qed.

Lemma req_strict_of {A} (r1 r2 : res A) : req r1 r2 -> r1 <> Panic -> r2 <> Panic -> req_strict r1 r2.
Proof. destruct r1, r2; cbn; auto; congruence. Qed.

Lemma rechunk_strict_of {X} (F : list X -> res X) xs ys :
  rechunk_ok F xs ys ->
  F xs <> Panic -> F (xs ++ ys) <> Panic -> (forall c, F xs = Ok c -> F (c :: ys) <> Panic) ->
  rechunk_strict F xs ys.
Proof.
  unfold rechunk_ok, rechunk_strict, fails. intros H H1 H2 H3.
  destruct (F xs) as [c|e|] eqn:E.
  - apply req_strict_of; auto.
  - destruct (F (xs ++ ys)); cbn in H; try discriminate; eauto; congruence.
  - congruence.
Qed.

(* ------------------------------------------------------------------ strings, lists *)

Lemma append_nil_r (s : string) : (s ++ "")%string = s.
Proof. induction s; cbn; congruence. Qed.

Lemma append_assoc (a b c : string) : ((a ++ b) ++ c)%string = (a ++ (b ++ c))%string.
Proof. induction a; cbn; congruence. Qed.

Lemma concat_strings_app l1 l2 :
  concat_strings (l1 ++ l2) = (concat_strings l1 ++ concat_strings l2)%string.
Proof.
  unfold concat_strings. induction l1 as [|a l IH]; cbn; [reflexivity|].
  rewrite IH, append_assoc. reflexivity.
Qed.

Lemma last_cons_ne {A} (x : A) l d : l <> [] -> last (x :: l) d = last l d.
Proof. destruct l; [congruence|reflexivity]. Qed.

Lemma last_app_ne {A} (l1 l2 : list A) d : l2 <> [] -> last (l1 ++ l2) d = last l2 d.
Proof.
  intros H. induction l1 as [|a l IH]; cbn [app]; [reflexivity|].
  rewrite last_cons_ne; [exact IH|]. destruct l; cbn; [exact H|discriminate].
Qed.

Lemma last_In {A} (l : list A) d : l <> [] -> In (last l d) l.
Proof.
  induction l as [|a l IH]; [congruence|]. intros _.
  destruct l as [|b l']; [now left|]. right. apply IH. discriminate.
Qed.

Lemma last_rechunk {A} (vs fr : list A) d : vs <> [] -> last (last vs d :: fr) d = last (vs ++ fr) d.
Proof.
  intros H. destruct fr as [|a fr'].
  - rewrite app_nil_r. reflexivity.
  - rewrite last_cons_ne by discriminate. rewrite last_app_ne by discriminate. reflexivity.
Qed.

(* ------------------------------------------------------------------ res_mapM *)

Lemma res_mapM_req {A B} (f g : A -> res B) l :
  (forall a, In a l -> req (f a) (g a)) -> req (res_mapM f l) (res_mapM g l).
Proof.
  induction l as [|a l IH]; intros H; cbn; [reflexivity|].
  assert (Ha : req (f a) (g a)) by (apply H; now left).
  assert (Hl : req (res_mapM f l) (res_mapM g l)) by (apply IH; intros; apply H; now right).
  destruct (f a), (g a); cbn in *; try contradiction; auto. subst.
  destruct (res_mapM f l), (res_mapM g l); cbn in *; try contradiction; auto. subst. reflexivity.
Qed.

Lemma res_mapM_ext_in {A B} (f g : A -> res B) l :
  (forall a, In a l -> f a = g a) -> res_mapM f l = res_mapM g l.
Proof.
  induction l as [|a l IH]; intros H; cbn; [reflexivity|].
  rewrite (H a) by now left. rewrite IH; [reflexivity|]. intros; apply H; now right.
Qed.

Lemma res_mapM_fails {A B} (f : A -> res B) l a :
  In a l -> fails (f a) -> fails (res_mapM f l).
Proof.
  unfold fails. induction l as [|b l IH]; cbn; [contradiction|].
  intros [->|Hin] Hf.
  - destruct (f a); cbn in *; auto; discriminate.
  - destruct (f b); cbn; auto. specialize (IH Hin Hf). destruct (res_mapM f l); cbn in *; auto.
Qed.

Lemma res_mapM_fails_inv {A B} (f : A -> res B) l :
  fails (res_mapM f l) -> exists a, In a l /\ fails (f a).
Proof.
  unfold fails. induction l as [|b l IH]; cbn; [discriminate|].
  destruct (f b) eqn:E; cbn.
  - destruct (res_mapM f l); cbn; [discriminate| |]; intros _;
      (destruct IH as [a' [Hin Ha]]; [reflexivity|]; exists a'; split; [now right|exact Ha]).
  - intros _. exists b. split; [now left|]. rewrite E. reflexivity.
  - intros _. exists b. split; [now left|]. rewrite E. reflexivity.
Qed.

(* result of a key-wise mapM: one binding per key, in the order of the keys *)
Lemma mapM_pairs_inv (g : string -> res cval) K c :
  res_mapM (fun k => res_map (fun v => (k, v)) (g k)) K = Ok c ->
  map fst c = K /\ (forall k, In k K -> exists v, g k = Ok v /\ alist_get k c = Some v).
Proof.
  revert c. induction K as [|a K IH]; intros c; cbn.
  - intros H. inversion H. split; [reflexivity|]. intros k [].
  - destruct (g a) as [va| |] eqn:Ea; cbn; try discriminate.
    destruct (res_mapM _ K) as [bs| |] eqn:Eb; cbn; try discriminate.
    intros H. inversion H; subst c. destruct (IH bs eq_refl) as [Hfst Hget]. split.
    + cbn. congruence.
    + intros k Hin. cbn [alist_get]. destruct (String.eqb k a) eqn:Ek.
      * apply String.eqb_eq in Ek. subst k. exists va. split; auto.
      * destruct Hin as [->|Hin]; [rewrite String.eqb_refl in Ek; discriminate|]. apply Hget, Hin.
Qed.

(* ------------------------------------------------------------------ keys *)

Definition add_keys (m : list (string * cval)) (ks : list string) : list string :=
  fold_left (fun ks kv => add_key (fst kv) ks) m ks.

Lemma keys_of_fold ms : keys_of ms = fold_left (fun ks m => add_keys m ks) ms [].
Proof. reflexivity. Qed.

Lemma add_key_In k k' ks : In k (add_key k' ks) <-> k = k' \/ In k ks.
Proof.
  induction ks as [|a ks IH]; cbn.
  - intuition.
  - destruct (String.eqb k' a) eqn:E.
    + apply String.eqb_eq in E. subst. cbn. intuition (subst; auto).
    + cbn. rewrite IH. intuition.
Qed.

Lemma add_key_NoDup k ks : NoDup ks -> NoDup (add_key k ks).
Proof.
  induction ks as [|a ks IH]; cbn; intros H.
  - constructor; [intros []|constructor].
  - destruct (String.eqb k a) eqn:E; [exact H|].
    inversion H; subst. constructor; [|auto].
    rewrite add_key_In. intros [->|Hin]; [|contradiction].
    rewrite String.eqb_refl in E. discriminate.
Qed.

Lemma add_key_notin k ks : ~ In k ks -> add_key k ks = ks ++ [k].
Proof.
  induction ks as [|a ks IH]; cbn; intros H; [reflexivity|].
  destruct (String.eqb k a) eqn:E.
  - apply String.eqb_eq in E. subst. exfalso. apply H. now left.
  - rewrite IH; [reflexivity|]. intros Hin. apply H. now right.
Qed.

Lemma add_keys_NoDup m ks : NoDup ks -> NoDup (add_keys m ks).
Proof.
  unfold add_keys. revert ks. induction m as [|kv m IH]; cbn; intros ks H; [exact H|].
  apply IH, add_key_NoDup, H.
Qed.

Lemma add_keys_In k m ks : In k (add_keys m ks) <-> In k ks \/ In k (map fst m).
Proof.
  unfold add_keys. revert ks. induction m as [|kv m IH]; cbn; intros ks.
  - intuition.
  - rewrite IH, add_key_In. intuition.
Qed.

Lemma keys_from_NoDup ms ks : NoDup ks -> NoDup (fold_left (fun ks m => add_keys m ks) ms ks).
Proof.
  revert ks. induction ms as [|m ms IH]; cbn; intros ks H; [exact H|].
  apply IH, add_keys_NoDup, H.
Qed.

Lemma keys_of_NoDup ms : NoDup (keys_of ms).
Proof. rewrite keys_of_fold. apply keys_from_NoDup. constructor. Qed.

Lemma keys_from_In k ms ks :
  In k (fold_left (fun ks m => add_keys m ks) ms ks) <-> In k ks \/ exists m, In m ms /\ In k (map fst m).
Proof.
  revert ks. induction ms as [|m ms IH]; cbn; intros ks.
  - split; [auto|]. intros [H|[m [[] _]]]. exact H.
  - rewrite IH, add_keys_In. split.
    + intros [[H|H]|[m' [H1 H2]]]; eauto 6.
    + intros [H|[m' [[->|H1] H2]]]; eauto 6.
Qed.

Lemma keys_of_In k ms : In k (keys_of ms) <-> exists m, In m ms /\ In k (map fst m).
Proof. rewrite keys_of_fold, keys_from_In. cbn. intuition. Qed.

Lemma add_keys_fresh c ks : NoDup (ks ++ map fst c) -> add_keys c ks = ks ++ map fst c.
Proof.
  unfold add_keys. revert ks. induction c as [|[k v] c IH]; cbn; intros ks H.
  - now rewrite app_nil_r.
  - assert (Hk : ~ In k ks).
    { apply NoDup_remove_2 in H. intros Hin. apply H. apply in_or_app. now left. }
    rewrite add_key_notin by exact Hk. rewrite IH.
    + rewrite <- app_assoc. reflexivity.
    + rewrite <- app_assoc. exact H.
Qed.

Lemma keys_rechunk c xs ys :
  map fst c = keys_of xs -> keys_of (c :: ys) = keys_of (xs ++ ys).
Proof.
  intros H. rewrite !keys_of_fold. rewrite fold_left_app. cbn [fold_left].
  rewrite add_keys_fresh.
  - cbn [app]. rewrite H. reflexivity.
  - cbn [app]. rewrite H. apply keys_of_NoDup.
Qed.

Lemma alist_get_None {A} k (m : list (string * A)) : ~ In k (map fst m) -> alist_get k m = None.
Proof.
  induction m as [|[k' v] m IH]; cbn; intros H; [reflexivity|].
  destruct (String.eqb k k') eqn:E.
  - apply String.eqb_eq in E. subst. exfalso. apply H. now left.
  - apply IH. intros Hin. apply H. now right.
Qed.

Lemma vals_at_app k xs ys : vals_at k (xs ++ ys) = vals_at k xs ++ vals_at k ys.
Proof. unfold vals_at. apply flat_map_app. Qed.

Lemma vals_at_nil k ms : ~ In k (keys_of ms) -> vals_at k ms = [].
Proof.
  intros H. unfold vals_at. induction ms as [|m ms IH]; cbn; [reflexivity|].
  rewrite alist_get_None.
  - cbn. apply IH. intros Hin. apply H. apply keys_of_In in Hin. destruct Hin as [m' [H1 H2]].
    apply keys_of_In. exists m'. split; [now right|exact H2].
  - intros Hin. apply H. apply keys_of_In. exists m. split; [now left|exact Hin].
Qed.

(* ------------------------------------------------------------------ depth *)

Definition bounded (n : nat) (ms : list (list (string * cval))) : Prop :=
  Forall (fun m => depth (CMap 0 m) < n) ms.
Definition vbounded (n : nat) (vs : list cval) : Prop := Forall (fun v => depth v < n) vs.

Lemma depth_alist_get mt k m v : alist_get k m = Some v -> depth v < depth (CMap mt m).
Proof.
  cbn [depth]. induction m as [|[k' v'] m IH]; cbn; [discriminate|].
  destruct (String.eqb k k').
  - intros H. inversion H; subst. lia.
  - intros H. specialize (IH H). lia.
Qed.

Lemma vals_at_bounded n k ms : bounded (S n) ms -> vbounded n (vals_at k ms).
Proof.
  unfold bounded, vbounded, vals_at. induction ms as [|m ms IH]; cbn; intros H; [constructor|].
  inversion H; subst. apply Forall_app. split; [|auto].
  destruct (alist_get k m) eqn:E; [|constructor].
  constructor; [|constructor]. apply (depth_alist_get 0%N) in E. cbn [depth] in *. lia.
Qed.

Lemma maps_bounded n vs : vbounded n vs -> bounded n (maps vs).
Proof.
  unfold bounded, vbounded, maps. induction vs as [|v vs IH]; cbn; intros H; [constructor|].
  inversion H; subst. destruct v; cbn; auto.
Qed.

Lemma vbounded_filter n p vs : vbounded n vs -> vbounded n (filter p vs).
Proof.
  unfold vbounded. rewrite !Forall_forall. intros H v Hin. apply filter_In in Hin. apply H, Hin.
Qed.

Lemma depth_list_ge v vs : In v vs -> depth v <= depth_list vs.
Proof.
  unfold depth_list. induction vs as [|a vs IH]; cbn; [contradiction|].
  intros [->|H]; [lia|]. specialize (IH H). lia.
Qed.

Lemma vbounded_top vs : vbounded (S (depth_list vs)) vs.
Proof.
  unfold vbounded. apply Forall_forall. intros v H. apply depth_list_ge in H. lia.
Qed.

Lemma bounded_top ms : bounded (S (dmaps ms)) ms.
Proof.
  unfold bounded, dmaps. apply Forall_forall. intros m H.
  assert (In (CMap 0 m) (map (CMap 0) ms)) by (apply (in_map (CMap 0)), H).
  apply depth_list_ge in H0. lia.
Qed.

Lemma bounded_pos n m ms : bounded n ms -> In m ms -> 0 < n.
Proof.
  unfold bounded. rewrite Forall_forall. intros H Hin. specialize (H m Hin). cbn in H. lia.
Qed.

(* ------------------------------------------------------------------ fuel independence *)

Lemma maps_filter_nonnil vs : maps (filter (fun v => negb (is_nil v)) vs) = maps vs.
Proof.
  unfold maps. induction vs as [|v vs IH]; cbn; [reflexivity|].
  destruct v; cbn; congruence.
Qed.

Lemma maps_app a b : maps (a ++ b) = maps a ++ maps b.
Proof. unfold maps. apply flat_map_app. Qed.

Lemma concat_key_ext f g vs : f (maps vs) = g (maps vs) -> concat_key f vs = concat_key g vs.
Proof.
  intros H. unfold concat_key.
  destruct (filter _ vs) as [|v0 rest] eqn:E; [reflexivity|].
  destruct (dyn_ty v0) as [t|]; [|reflexivity].
  destruct (same_types t rest); [|reflexivity].
  unfold concat_typed. destruct t; try reflexivity.
  rewrite <- E, maps_filter_nonnil, H. reflexivity.
Qed.

Lemma step_ext f g ms :
  (forall k, In k (keys_of ms) -> f (maps (vals_at k ms)) = g (maps (vals_at k ms))) ->
  concat_maps_step f ms = concat_maps_step g ms.
Proof.
  intros H. unfold concat_maps_step. apply res_mapM_ext_in. intros k Hk.
  rewrite (concat_key_ext f g); [reflexivity|]. apply H, Hk.
Qed.

Lemma fuel_indep f1 : forall f2 ms,
  bounded f1 ms -> bounded f2 ms -> 0 < f1 -> 0 < f2 -> concat_maps f1 ms = concat_maps f2 ms.
Proof.
  induction f1 as [|f1 IH]; intros f2 ms B1 B2 P1 P2; [lia|].
  destruct f2 as [|f2]; [lia|]. cbn [concat_maps]. apply step_ext. intros k Hk.
  apply keys_of_In in Hk. destruct Hk as [m [Hm _]].
  pose proof (Forall_forall (fun m => depth (CMap 0 m) < S f1) ms) as F1.
  pose proof (proj1 F1 B1 m Hm) as D1.
  pose proof (proj1 (Forall_forall (fun m => depth (CMap 0 m) < S f2) ms) B2 m Hm) as D2.
  cbn [depth] in D1, D2.
  apply IH; try lia.
  - apply maps_bounded, vals_at_bounded, B1.
  - apply maps_bounded, vals_at_bounded, B2.
Qed.

Lemma concat_maps_top_unfold ms : concat_maps_top ms = concat_maps_step concat_maps_top ms.
Proof.
  unfold concat_maps_top at 1. cbn [concat_maps]. apply step_ext. intros k Hk.
  unfold concat_maps_top.
  apply keys_of_In in Hk. destruct Hk as [m [Hm _]].
  pose proof (bounded_top ms) as B.
  pose proof (bounded_pos _ _ _ B Hm) as P.
  assert (D : 0 < dmaps ms).
  { pose proof (proj1 (Forall_forall _ _) B m Hm) as D. cbn [depth] in D. lia. }
  apply fuel_indep; try lia.
  - apply maps_bounded, vals_at_bounded, B.
  - apply bounded_top.
Qed.

(* ------------------------------------------------------------------ one key *)

Lemma cty_eqb_refl t : cty_eqb t t = true.
Proof. destruct t; cbn; auto using N.eqb_refl. Qed.

Lemma cty_eqb_eq a b : cty_eqb a b = true -> a = b.
Proof.
  destruct a, b; cbn; try discriminate; auto; intros H; apply N.eqb_eq in H; congruence.
Qed.

Lemma same_types_app t a b : same_types t (a ++ b) = same_types t a && same_types t b.
Proof. unfold same_types. apply forallb_app. Qed.

Lemma same_types_In t vs v : same_types t vs = true -> In v vs -> dyn_ty v = Some t.
Proof.
  unfold same_types. rewrite forallb_forall. intros H Hin. specialize (H v Hin).
  destruct (dyn_ty v) as [t'|]; [|discriminate]. apply cty_eqb_eq in H. congruence.
Qed.

Lemma same_types_of t vs : (forall v, In v vs -> dyn_ty v = Some t) -> same_types t vs = true.
Proof.
  intros H. unfold same_types. apply forallb_forall. intros v Hin. rewrite (H v Hin). apply cty_eqb_refl.
Qed.

Lemma same_types_cons t v l : dyn_ty v = Some t -> same_types t (v :: l) = same_types t l.
Proof. intros H. unfold same_types. cbn [forallb]. rewrite H, cty_eqb_refl. reflexivity. Qed.

Lemma typed_str f vs :
  vs <> [] -> same_types TStr vs = true ->
  concat_typed f TStr vs = Ok (CStr (concat_strings (strs vs))).
Proof.
  intros Hne Hs. destruct vs as [|v [|w l]]; [congruence| |].
  - cbn in Hs. destruct v; cbn in Hs; try discriminate.
    cbn. rewrite append_nil_r. reflexivity.
  - unfold concat_typed. rewrite registered_str. reflexivity.
Qed.

Lemma typed_num f k vs : vs <> [] -> concat_typed f (TNum k) vs = Ok (last vs CNil).
Proof.
  intros Hne. destruct vs as [|v [|w l]]; [congruence|reflexivity|].
  unfold concat_typed. rewrite registered_num. reflexivity.
Qed.

Lemma typed_other f tag vs :
  ufn tag = None ->
  vs <> [] -> same_types (TOther tag) vs = true ->
  concat_typed f (TOther tag) vs = single_nonzero (COther tag 0) vs.
Proof.
  intros Hu Hne Hs. destruct vs as [|v [|w l]]; [congruence| |].
  - cbn in Hs. destruct v; cbn in Hs; try discriminate.
    rewrite andb_true_r in Hs. apply N.eqb_eq in Hs. subst tag0.
    unfold single_nonzero. cbn. destruct (N.eqb_spec payload 0); subst; reflexivity.
  - unfold concat_typed. cbn [registered user_registered]. rewrite Hu. reflexivity.
Qed.

(* a type with a function registered by the application *)
Lemma typed_user f tag g v w l :
  ufn tag = Some g ->
  concat_typed f (TOther tag) (v :: w :: l) = res_map (COther tag) (g (payloads (v :: w :: l))).
Proof. intros Hu. unfold concat_typed. cbn [registered user_registered]. rewrite Hu. reflexivity. Qed.

Lemma payloads_app a b : payloads (a ++ b) = payloads a ++ payloads b.
Proof. unfold payloads. apply flat_map_app. Qed.

Lemma payloads_length tag vs : same_types (TOther tag) vs = true -> List.length (payloads vs) = List.length vs.
Proof.
  unfold payloads. induction vs as [|v vs IH]; cbn; [reflexivity|].
  destruct v; cbn; try discriminate. intros H. apply andb_true_iff in H. destruct H as [_ H].
  rewrite IH by exact H. reflexivity.
Qed.

Lemma strs_app a b : strs (a ++ b) = strs a ++ strs b.
Proof. unfold strs. apply flat_map_app. Qed.

Lemma single_nonzero_rechunk z vs fr :
  is_zero z = true ->
  match single_nonzero z vs with
  | Ok v => (v = z \/ In v vs) /\ single_nonzero z (v :: fr) = single_nonzero z (vs ++ fr)
  | _ => fails (single_nonzero z (vs ++ fr))
  end.
Proof.
  intros Hz. unfold single_nonzero. rewrite filter_app.
  destruct (filter _ vs) as [|a [|b l]] eqn:E.
  - split; [now left|]. cbn [filter]. rewrite Hz. reflexivity.
  - assert (Ha : In a (filter (fun v => negb (is_zero v)) vs)) by (rewrite E; now left).
    apply filter_In in Ha. destruct Ha as [Hin Hnz]. split; [now right|].
    cbn [filter]. rewrite Hnz. reflexivity.
  - reflexivity.
Qed.

Section Key.
  Variable f : list (list (string * cval)) -> res (list (string * cval)).
  Variable n : nat.
  Hypothesis Hf : forall ms1 ms2, bounded n (ms1 ++ ms2) -> rechunk_ok f ms1 ms2.

  Lemma typed_rechunk t vs fr :
    vs <> [] -> same_types t vs = true -> same_types t fr = true -> vbounded n (vs ++ fr) ->
    match concat_typed f t vs with
    | Ok v => dyn_ty v = Some t /\ req (concat_typed f t (v :: fr)) (concat_typed f t (vs ++ fr))
    | _ => fails (concat_typed f t (vs ++ fr))
    end.
  Proof.
    intros Hne Hs Hr Hb.
    assert (Hne' : vs ++ fr <> []) by (destruct vs; [congruence|discriminate]).
    assert (Hs' : same_types t (vs ++ fr) = true) by (rewrite same_types_app, Hs, Hr; reflexivity).
    destruct t as [|k|tag|mt].
    - rewrite (typed_str f vs Hne Hs). split; [reflexivity|].
      rewrite typed_str; [|discriminate|cbn; exact Hr].
      rewrite (typed_str f (vs ++ fr) Hne' Hs').
      cbn [strs flat_map app]. rewrite strs_app, concat_strings_app. apply req_refl.
    - rewrite (typed_num f k vs Hne). split.
      + apply (same_types_In _ vs); [exact Hs|]. apply last_In, Hne.
      + rewrite typed_num by discriminate. rewrite (typed_num f k (vs ++ fr) Hne').
        rewrite last_rechunk by exact Hne. apply req_refl.
    - destruct (ufn tag) as [g|] eqn:Hu.
      { (* registered by the application: the law is the function's own *)
        destruct vs as [|v [|w l]]; [congruence| |].
        - cbn [concat_typed]. split; [apply (same_types_In _ [v]); [exact Hs|now left]|]. apply req_refl.
        - rewrite (typed_user f tag g v w l Hu).
          destruct fr as [|y fr].
          + rewrite app_nil_r. rewrite (typed_user f tag g v w l Hu).
            destruct (g (payloads (v :: w :: l))) as [c| |]; cbn [res_map]; [|reflexivity|reflexivity].
            split; [reflexivity|]. cbn [concat_typed]. reflexivity.
          + change ((v :: w :: l) ++ y :: fr) with (v :: w :: (l ++ y :: fr)).
            rewrite (typed_user f tag g v w (l ++ y :: fr) Hu).
            change (v :: w :: (l ++ y :: fr)) with ((v :: w :: l) ++ y :: fr). rewrite payloads_app.
            assert (Hlen : 2 <= List.length (payloads (v :: w :: l))).
            { rewrite (payloads_length tag) by exact Hs. cbn. lia. }
            assert (Hy : payloads (y :: fr) <> []).
            { cbn in Hr. destruct y; cbn in Hr; discriminate. }
            pose proof (ulaw_rechunk tag g (payloads (v :: w :: l)) (payloads (y :: fr)) Hu Hlen Hy) as H.
            destruct (g (payloads (v :: w :: l))) as [c| |]; cbn [res_map].
            * split; [reflexivity|]. rewrite (typed_user f tag g (COther tag c) y fr Hu).
              apply req_res_map. cbn [payloads flat_map app] in *. exact H.
            * apply fails_res_map. exact H.
            * apply fails_res_map. exact H. }
      rewrite (typed_other f tag vs Hu Hne Hs).
      pose proof (single_nonzero_rechunk (COther tag 0) vs fr eq_refl) as H.
      rewrite (typed_other f tag (vs ++ fr) Hu Hne' Hs').
      destruct (single_nonzero (COther tag 0) vs) as [v| |]; [|exact H|exact H].
      destruct H as [Hv Heq].
      assert (Hty : dyn_ty v = Some (TOther tag)).
      { destruct Hv as [->|Hin]; [reflexivity|]. apply (same_types_In _ vs); assumption. }
      split; [exact Hty|].
      rewrite typed_other; [|exact Hu|discriminate|].
      + rewrite Heq. apply req_refl.
      + rewrite (same_types_cons _ _ _ Hty). exact Hr.
    - unfold concat_typed.
      assert (B : bounded n (maps vs ++ maps fr)) by (rewrite <- maps_app; apply maps_bounded, Hb).
      pose proof (Hf (maps vs) (maps fr) B) as H. unfold rechunk_ok in H.
      rewrite maps_app.
      destruct (f (maps vs)) as [c| |]; cbn [res_map].
      + split; [reflexivity|]. cbn [maps flat_map app]. apply req_res_map.
        change (flat_map (fun v : cval => match v with CMap _ m => [m] | _ => [] end) fr) with (maps fr).
        exact H.
      + apply fails_res_map, H.
      + apply fails_res_map, H.
  Qed.

  Lemma typed_ty t vs v :
    vs <> [] -> same_types t vs = true -> vbounded n vs -> concat_typed f t vs = Ok v -> dyn_ty v = Some t.
  Proof.
    intros Hne Hs Hb E.
    pose proof (typed_rechunk t vs [] Hne Hs eq_refl) as H. rewrite app_nil_r in H.
    specialize (H Hb). rewrite E in H. apply H.
  Qed.

  Lemma dyn_ty_nonnil v t : dyn_ty v = Some t -> is_nil v = false.
  Proof. destruct v; cbn; congruence. Qed.

  Lemma key_rechunk vs rest :
    vbounded n (vs ++ rest) ->
    match concat_key f vs with
    | Ok v => req (concat_key f (v :: rest)) (concat_key f (vs ++ rest))
    | _ => fails (concat_key f (vs ++ rest))
    end.
  Proof.
    intros Hb. unfold concat_key. rewrite filter_app.
    set (nn := filter (fun v => negb (is_nil v))).
    assert (Hbn : vbounded n (nn vs ++ nn rest)).
    { unfold nn. rewrite <- filter_app. apply vbounded_filter, Hb. }
    destruct (nn vs) as [|v0 r] eqn:E.
    - cbn [filter is_nil negb app]. apply req_refl.
    - pose proof (filter_nonnil_head _ _ _ E) as Hty0.
      destruct (dyn_ty v0) as [t|] eqn:Et; [|congruence]. clear Hty0.
      cbn [app]. rewrite Et. rewrite same_types_app.
      assert (Hb0 : vbounded n (v0 :: r)).
      { unfold vbounded in *. apply Forall_app in Hbn. apply Hbn. }
      destruct (same_types t r) eqn:Hs; cbn [andb]; [|reflexivity].
      assert (Hs0 : same_types t (v0 :: r) = true).
      { rewrite (same_types_cons _ _ _ Et). exact Hs. }
      destruct (same_types t (nn rest)) eqn:Hr.
      + pose proof (typed_rechunk t (v0 :: r) (nn rest) ltac:(discriminate) Hs0 Hr Hbn) as H.
        destruct (concat_typed f t (v0 :: r)) as [v| |]; [|exact H|exact H].
        destruct H as [Hty H].
        assert (Hnn : nn (v :: rest) = v :: nn rest)
          by (unfold nn; cbn [filter]; rewrite (dyn_ty_nonnil _ _ Hty); reflexivity).
        rewrite Hnn, Hty, Hr. exact H.
      + destruct (concat_typed f t (v0 :: r)) as [v| |] eqn:Ec; [|reflexivity|reflexivity].
        pose proof (typed_ty t (v0 :: r) v ltac:(discriminate) Hs0 Hb0 Ec) as Hty.
        assert (Hnn : nn (v :: rest) = v :: nn rest)
          by (unfold nn; cbn [filter]; rewrite (dyn_ty_nonnil _ _ Hty); reflexivity).
        rewrite Hnn, Hty, Hr. exact I.
  Qed.

  Lemma step_rechunk xs ys :
    bounded (S n) (xs ++ ys) ->
    match concat_maps_step f xs with
    | Ok c => req (concat_maps_step f (c :: ys)) (concat_maps_step f (xs ++ ys))
    | _ => fails (concat_maps_step f (xs ++ ys))
    end.
  Proof.
    intros Hb.
    assert (Hk : forall k, vbounded n (vals_at k xs ++ vals_at k ys)).
    { intros k. rewrite <- vals_at_app. apply vals_at_bounded, Hb. }
    destruct (concat_maps_step f xs) as [c|e|] eqn:E.
    - unfold concat_maps_step in E. apply mapM_pairs_inv in E. destruct E as [Hfst Hget].
      unfold concat_maps_step. rewrite (keys_rechunk c xs ys Hfst).
      apply res_mapM_req. intros k _. apply req_res_map.
      rewrite vals_at_app. unfold vals_at at 1. cbn [flat_map]. fold (vals_at k ys).
      destruct (in_dec string_dec k (keys_of xs)) as [Hin|Hnin].
      + destruct (Hget k Hin) as [v [Hv Hc]]. rewrite Hc. cbn [app].
        pose proof (key_rechunk (vals_at k xs) (vals_at k ys) (Hk k)) as H.
        rewrite Hv in H. exact H.
      + rewrite alist_get_None by (rewrite Hfst; exact Hnin).
        rewrite (vals_at_nil k xs Hnin). apply req_refl.
    - assert (F : fails (concat_maps_step f xs)) by (rewrite E; reflexivity).
      apply res_mapM_fails_inv in F. destruct F as [k [Hin Hk']].
      unfold concat_maps_step. apply (res_mapM_fails _ _ k).
      + apply keys_of_In in Hin. destruct Hin as [m [H1 H2]]. apply keys_of_In. exists m.
        split; [apply in_or_app; now left|exact H2].
      + pose proof (key_rechunk (vals_at k xs) (vals_at k ys) (Hk k)) as H.
        rewrite vals_at_app.
        destruct (concat_key f (vals_at k xs)); cbn in Hk'; [discriminate| |];
          (unfold fails in *; destruct (concat_key f (vals_at k xs ++ vals_at k ys)); cbn in *; auto).
    - assert (F : fails (concat_maps_step f xs)) by (rewrite E; reflexivity).
      apply res_mapM_fails_inv in F. destruct F as [k [Hin Hk']].
      unfold concat_maps_step. apply (res_mapM_fails _ _ k).
      + apply keys_of_In in Hin. destruct Hin as [m [H1 H2]]. apply keys_of_In. exists m.
        split; [apply in_or_app; now left|exact H2].
      + pose proof (key_rechunk (vals_at k xs) (vals_at k ys) (Hk k)) as H.
        rewrite vals_at_app.
        destruct (concat_key f (vals_at k xs)); cbn in Hk'; [discriminate| |];
          (unfold fails in *; destruct (concat_key f (vals_at k xs ++ vals_at k ys)); cbn in *; auto).
  Qed.
End Key.

(* ------------------------------------------------------------------ maps, any depth *)

Lemma concat_maps_rechunk_n : forall n xs ys,
  bounded n (xs ++ ys) -> rechunk_ok concat_maps_top xs ys.
Proof.
  induction n as [|n IH]; intros xs ys Hb.
  - assert (xs ++ ys = []) as H0.
    { destruct (xs ++ ys) as [|m l]; [reflexivity|]. inversion Hb; subst. cbn in H1. lia. }
    apply app_eq_nil in H0. destruct H0; subst. vm_compute. reflexivity.
  - pose proof (step_rechunk concat_maps_top n IH xs ys Hb) as H.
    unfold rechunk_ok. rewrite (concat_maps_top_unfold xs).
    destruct (concat_maps_step concat_maps_top xs) as [c| |].
    + rewrite (concat_maps_top_unfold (c :: ys)), (concat_maps_top_unfold (xs ++ ys)). exact H.
    + rewrite (concat_maps_top_unfold (xs ++ ys)). exact H.
    + rewrite (concat_maps_top_unfold (xs ++ ys)). exact H.
Qed.

Theorem concat_maps_rechunk xs ys : rechunk_ok concat_maps_top xs ys.
Proof. apply (concat_maps_rechunk_n (S (dmaps (xs ++ ys)))), bounded_top. Qed.

(* ------------------------------------------------------------------ statically typed item lists *)

Lemma maps_of_all_maps mt vs : same_types (TMap mt) vs = true -> map (CMap mt) (maps vs) = vs.
Proof.
  unfold maps. induction vs as [|v vs IH]; cbn; [reflexivity|].
  destruct v; cbn; try discriminate. intros H. apply andb_prop in H. destruct H as [H1 H2].
  apply N.eqb_eq in H1. subst. rewrite IH by exact H2. reflexivity.
Qed.

Lemma dmaps_of_all_maps mt vs : same_types (TMap mt) vs = true -> dmaps (maps vs) = depth_list vs.
Proof.
  unfold dmaps, maps, depth_list. induction vs as [|v vs IH]; cbn; [reflexivity|].
  destruct v; cbn; try discriminate. intros H. apply andb_prop in H. destruct H as [_ H2].
  rewrite IH by exact H2. reflexivity.
Qed.

Lemma concat_items_map mt vs :
  vs <> [] -> same_types (TMap mt) vs = true ->
  concat_items vs = res_map (CMap mt) (concat_maps_top (maps vs)).
Proof.
  intros Hne Hs. destruct vs as [|v0 l]; [congruence|].
  pose proof (same_types_In _ _ v0 Hs ltac:(now left)) as H0.
  unfold concat_items. rewrite H0. unfold concat_maps_top.
  rewrite (dmaps_of_all_maps mt) by exact Hs. reflexivity.
Qed.

Definition not_map (t : cty) : Prop := match t with TMap _ => False | _ => True end.

Lemma concat_items_other t vs :
  vs <> [] -> not_map t -> same_types t vs = true ->
  concat_items vs = concat_typed (fun _ => Err 0%N) t vs.
Proof.
  intros Hne Ht Hs. destruct vs as [|v0 l]; [congruence|].
  pose proof (same_types_In _ _ v0 Hs ltac:(now left)) as H0.
  unfold concat_items. rewrite H0. destruct t; try reflexivity. contradiction.
Qed.

Lemma nonmap_depth t v : dyn_ty v = Some t -> not_map t -> depth v = 0.
Proof. destruct v; cbn; intros H Ht; try reflexivity. inversion H. subst. contradiction. Qed.

Lemma items_rechunk t xs ys :
  xs <> [] -> same_types t (xs ++ ys) = true ->
  match concat_items xs with
  | Ok c => dyn_ty c = Some t /\ req (concat_items (c :: ys)) (concat_items (xs ++ ys))
  | _ => fails (concat_items (xs ++ ys))
  end.
Proof.
  intros Hne Hs.
  assert (Hne' : xs ++ ys <> []) by (destruct xs; [congruence|discriminate]).
  pose proof Hs as Hs'. rewrite same_types_app in Hs'. apply andb_prop in Hs'. destruct Hs' as [Hx Hy].
  assert (Hnm : not_map t ->
    match concat_items xs with
    | Ok c => dyn_ty c = Some t /\ req (concat_items (c :: ys)) (concat_items (xs ++ ys))
    | _ => fails (concat_items (xs ++ ys))
    end).
  { intros Ht.
    rewrite (concat_items_other t xs Hne Ht Hx), (concat_items_other t (xs ++ ys) Hne' Ht Hs).
    assert (Hb : vbounded 1 (xs ++ ys)).
    { unfold vbounded. apply Forall_forall. intros v Hin.
      rewrite (nonmap_depth t v); [lia| |exact Ht]. apply (same_types_In _ _ _ Hs Hin). }
    pose proof (typed_rechunk (fun _ => Err 0%N) 1 (fun _ _ _ => eq_refl) t xs ys Hne Hx Hy Hb) as H.
    destruct (concat_typed _ t xs) as [c| |]; [|exact H|exact H].
    destruct H as [Hty H]. split; [exact Hty|].
    rewrite (concat_items_other t (c :: ys)); [exact H|discriminate|exact Ht|].
    rewrite (same_types_cons _ _ _ Hty). exact Hy. }
  destruct t as [|k|tag|mt]; try (apply Hnm; exact I). clear Hnm.
  rewrite (concat_items_map mt xs Hne Hx), (concat_items_map mt (xs ++ ys) Hne' Hs).
  pose proof (concat_maps_rechunk (maps xs) (maps ys)) as H. unfold rechunk_ok in H.
  rewrite maps_app.
  destruct (concat_maps_top (maps xs)) as [c| |]; cbn [res_map].
  - split; [reflexivity|]. rewrite (concat_items_map mt); [|discriminate|].
    + cbn [maps flat_map app]. apply req_res_map. exact H.
    + rewrite (same_types_cons (TMap mt) (CMap mt c) ys eq_refl). exact Hy.
  - apply fails_res_map, H.
  - apply fails_res_map, H.
Qed.

(* what concatStreamReader computes: single-chunk shortcut, then ConcatItems *)
Theorem concat_stream_rechunk_weak t xs ys :
  xs <> [] -> (forall v, In v (xs ++ ys) -> dyn_ty v = Some t) ->
  rechunk_ok concat_stream xs ys /\ (forall c, concat_stream xs = Ok c -> dyn_ty c = Some t).
Proof.
  intros Hne Hall. pose proof (same_types_of t _ Hall) as Hs.
  unfold rechunk_ok.
  destruct xs as [|x1 [|x2 l]]; [congruence| |].
  - cbn [concat_stream]. split; [apply req_refl|]. intros c H. inversion H; subst. apply Hall. now left.
  - pose proof (items_rechunk t (x1 :: x2 :: l) ys Hne Hs) as H.
    change (concat_stream (x1 :: x2 :: l)) with (concat_items (x1 :: x2 :: l)).
    destruct (concat_items (x1 :: x2 :: l)) as [c| |] eqn:E.
    + destruct H as [Hty H]. split; [|intros c' Hc; inversion Hc; subst; exact Hty].
      destruct ys as [|y ys'].
      * rewrite app_nil_r. cbn [concat_stream]. rewrite E. reflexivity.
      * exact H.
    + split; [exact H|discriminate].
    + split; [exact H|discriminate].
Qed.

Theorem concat_stream_rechunk t xs ys :
  xs <> [] -> (forall v, In v (xs ++ ys) -> dyn_ty v = Some t) ->
  rechunk_strict concat_stream xs ys.
Proof.
  intros Hne Hall. destruct (concat_stream_rechunk_weak t xs ys Hne Hall) as [H Hty].
  assert (Hnn : forall v, In v (xs ++ ys) -> is_nil v = false)
    by (intros v Hin; apply (dyn_ty_nonnil v t), Hall, Hin).
  apply rechunk_strict_of; [exact H| | |].
  - apply concat_stream_total. intros v Hin. apply Hnn, in_or_app. now left.
  - apply concat_stream_total, Hnn.
  - intros c Hc. apply concat_stream_total. intros v [<-|Hin].
    + apply (dyn_ty_nonnil c t), Hty, Hc.
    + apply Hnn, in_or_app. now right.
Qed.

End User.
