(* Proofs/StreamLink.v — the logs of adjacent objects agree (Model/Stream.v, property C08):
   what a consumer (a handle, a conversion, a copy parent, a forwarder) has received from
   its source is exactly what the source has delivered; a multi reader has delivered an
   interleaving of what its streams delivered.  Invariant of every run in which Copy /
   Merge / Convert are applied to unread, unclosed readers and no Recv follows a Close. *)
From Eino Require Import Base.Util Model.Stream Proofs.Stream Proofs.StreamRel Proofs.StreamWf Proofs.StreamClose.
From Coq Require Import Lia Permutation.

Definition sdeliv (st : store) (sid : nat) : list item :=
  match nth_error (streams st) sid with Some s => s_deliv s | None => [] end.
Definition cgot (st : store) (p i : nat) : list item :=
  match nth_error (parents st) p with Some P => nth i (p_got P) [] | None => [] end.

(* [Interleave l strs]: l is a complete order-preserving interleaving of the lists strs *)
Inductive Interleave : list item -> list (list item) -> Prop :=
| IL_nil : forall strs, Forall (fun s => s = []) strs -> Interleave [] strs
| IL_snoc : forall l strs k s x,
    Interleave l strs -> nth_error strs k = Some s -> Interleave (l ++ [x]) (upd strs k (s ++ [x])).

Fixpoint Link (st : store) (t : rd) (L : list item) : Prop :=
  match t with
  | RArr d _ => L = map IVal d
  | RStr sid => L = sdeliv st sid
  | RMul sts _ => Interleave L (map (sdeliv st) sts)
  | RConv f src cin cout => L = cout /\ Link st src cin
  | RChild p i => L = cgot st p i
  end.

Lemma Link_frame : forall st st' t L,
  (forall sid, In (RS sid) (refs t) -> sdeliv st' sid = sdeliv st sid) ->
  (forall p i, In (RC p i) (refs t) -> cgot st' p i = cgot st p i) ->
  Link st t L -> Link st' t L.
Proof.
  intros st st' t. induction t as [d r | sid | sts ch | f src IH cin cout | p i]; intros L Hs Hc H; simpl in *; auto.
  - rewrite Hs; auto.
  - replace (map (sdeliv st') sts) with (map (sdeliv st) sts); auto.
    apply map_ext_in. intros s Hin. symmetry. apply Hs. apply in_map. exact Hin.
  - destruct H as [H1 H2]. split; auto.
  - rewrite Hc; auto.
Qed.

Definition applog (L : list item) (r : pres) : list item :=
  match r with PItem x => L ++ [x] | _ => L end.

(* ------------------------------------------------------------------ Recv keeps the local invariants *)

Lemma Recv_ok : forall st t r st' t', Recv st t r st' t' -> store_ok st -> rd_ok t -> store_ok st' /\ rd_ok t'.
Proof.
  intros st t r st' t' H. induction H; intros Hst Ht; auto.
  - split; auto. apply set_stream_ok; auto. replace s' with (snd (stream_recv s)) by (rewrite H0; auto).
    apply stream_recv_ok. destruct Hst as [Hs _]. eapply Forall_nth_error; eauto.
  - split; auto. apply set_stream_ok; auto. replace s' with (snd (stream_recv s)) by (rewrite H2; auto).
    apply stream_recv_ok. destruct Hst as [Hs _]. eapply Forall_nth_error; eauto.
  - destruct Ht as [Hc Hs]. destruct (IHRecv Hst Hs) as [A B]. split; auto. simpl. split; auto.
    rewrite filter_map_app. simpl. rewrite H0. congruence.
  - destruct Ht as [Hc Hs]. destruct (IHRecv1 Hst Hs) as [A B]. apply IHRecv2; auto. simpl. split; auto.
    rewrite filter_map_app. simpl. rewrite H0. rewrite app_nil_r. exact Hc.
  - destruct Ht as [Hc Hs]. destruct (IHRecv Hst Hs) as [A B]. split; auto. simpl. auto.
  - split; auto. apply set_parent_ok; auto. eapply deliver_ok; eauto. destruct Hst as [_ Hp]. eapply Forall_nth_error; eauto.
  - split; auto. apply set_parent_ok; auto. eapply mark_eof_ok; eauto. destruct Hst as [_ Hp]. eapply Forall_nth_error; eauto.
  - assert (HP : parent_ok P) by (destruct Hst as [_ Hp]; eapply Forall_nth_error; eauto).
    assert (Hsrc : rd_ok (p_src P)) by (destruct HP as (_ & _ & _ & _ & Hs); exact Hs).
    destruct (IHRecv Hst Hsrc) as [A B]. split; auto. apply set_parent_ok; auto.
    assert (HW : parent_ok (with_src P src1)) by (apply with_src_ok; auto).
    apply deliver_ok.
    + apply pulled_item_ok; auto.
    + simpl. exact H0.
    + simpl. apply nth_error_None in H1.
      assert (Hle : c <= List.length (p_items P)).
      { destruct HP as (Hl1 & _ & H3' & _).
        destruct (nth_error (p_got P) i) as [g|] eqn:Eg.
        - destruct (H3' i _ _ H0 Eg) as (_ & Hb & _). destruct (Hb c eq_refl); auto.
        - apply nth_error_None in Eg. assert (i < List.length (p_cur P)) by (apply nth_error_Some; congruence). lia. }
      assert (c = List.length (p_items P)) by lia. subst c.
      rewrite nth_error_app2 by lia. rewrite Nat.sub_diag. reflexivity.
  - assert (HP : parent_ok P) by (destruct Hst as [_ Hp]; eapply Forall_nth_error; eauto).
    assert (Hsrc : rd_ok (p_src P)) by (destruct HP as (_ & _ & _ & _ & Hs); exact Hs).
    destruct (IHRecv Hst Hsrc) as [A B]. split; auto. apply set_parent_ok; auto.
    assert (HW : parent_ok (with_src P src1)) by (apply with_src_ok; auto).
    apply mark_eof_ok with (c := c); simpl; auto. apply pulled_eof_ok; auto.
  - assert (HP : parent_ok P) by (destruct Hst as [_ Hp]; eapply Forall_nth_error; eauto).
    assert (Hsrc : rd_ok (p_src P)) by (destruct HP as (_ & _ & _ & _ & Hs); exact Hs).
    destruct (IHRecv Hst Hsrc) as [A B]. split; auto. apply set_parent_ok; auto. apply with_src_ok; auto.
Qed.

(* ------------------------------------------------------------------ store invariant used by the link proof *)

Definition PK (st : store) : Prop :=
  forall q Q, nth_error (parents st) q = Some Q ->
    forall r, In r (refs (p_src Q)) -> rclosed st r -> all_closed Q.

Definition SI (st : store) : Prop :=
  store_ok st /\ acyclic st /\ pcnt st /\ PK st /\ NoDup (prefs st).

Lemma PK_store_rel : forall st st', store_rel st st' -> PK st -> PK st'.
Proof.
  intros st st' SR HK q Q' HQ' r Hin Hc. pose proof SR as [_ H2].
  destruct (Forall2_nth_r _ _ _ _ _ _ H2 HQ') as (Q & HQ & R).
  apply (all_closed_prel _ _ R). eapply HK; eauto.
  - destruct R as (E & _). rewrite <- E. exact Hin.
  - apply (rclosed_store_rel _ _ _ SR). exact Hc.
Qed.

Lemma SI_Recv : forall st t r st' t', Recv st t r st' t' -> SI st -> rd_ok t -> SI st' /\ rd_ok t'.
Proof.
  intros st t r st' t' H (S1 & S2 & S3 & S4 & S5) Ht.
  destruct (Recv_ok _ _ _ _ _ H S1 Ht) as [A B]. destruct (Recv_static _ _ _ _ _ H) as [SR _].
  split; auto. repeat split; auto; try apply A.
  - eapply acyclic_store_rel; eauto.
  - eapply pcnt_store_rel; eauto.
  - eapply PK_store_rel; eauto.
  - rewrite (prefs_store_rel _ _ SR). exact S5.
Qed.

Definition prefs_below (pb : nat) (st : store) : list ref :=
  flat_map (fun P => refs (p_src P)) (firstn pb (parents st)).

Definition PL_below (pb : nat) (st : store) : Prop :=
  forall q Q, q < pb -> nth_error (parents st) q = Some Q -> Link st (p_src Q) (p_items Q).

Lemma Forall2_firstn : forall A (R : A -> A -> Prop) l l' n, Forall2 R l l' -> Forall2 R (firstn n l) (firstn n l').
Proof. intros A R l l' n H. revert n. induction H; intros [|n]; simpl; constructor; auto. Qed.

Lemma prefs_below_store_rel : forall st st' pb, store_rel st st' -> prefs_below pb st' = prefs_below pb st.
Proof.
  intros st st' pb [_ H2]. unfold prefs_below. eapply Forall2_flat_map; [apply Forall2_firstn; exact H2|].
  intros a b (E & _). exact E.
Qed.

Lemma firstn_split_nth : forall A (l : list A) p pb a,
  nth_error l p = Some a -> p < pb -> exists tl, firstn pb l = firstn p l ++ a :: tl.
Proof.
  induction l as [|x l IH]; intros [|p] [|pb] a H Hlt; simpl in *; try discriminate; try lia.
  - inversion H; subst. eauto.
  - destruct (IH p pb a H ltac:(lia)) as (tl & E). exists tl. rewrite E. reflexivity.
Qed.

Lemma prefs_below_split : forall st p pb P,
  nth_error (parents st) p = Some P -> p < pb ->
  exists tl, prefs_below pb st = prefs_below p st ++ refs (p_src P) ++ tl.
Proof.
  intros st p pb P H Hlt. destruct (firstn_split_nth _ _ _ _ _ H Hlt) as (tl & E).
  exists (flat_map (fun P => refs (p_src P)) tl). unfold prefs_below. rewrite E. rewrite flat_map_app. reflexivity.
Qed.

Lemma prefs_below_all : forall st, prefs_below (List.length (parents st)) st = prefs st.
Proof. intros st. unfold prefs_below, prefs. rewrite firstn_all. reflexivity. Qed.

Lemma prefs_below_in : forall st p pb P r,
  nth_error (parents st) p = Some P -> p < pb -> In r (refs (p_src P)) -> In r (prefs_below pb st).
Proof.
  intros st p pb P r H Hlt Hin. destruct (prefs_below_split _ _ _ _ H Hlt) as (tl & E). rewrite E.
  apply in_or_app. right. apply in_or_app. left. exact Hin.
Qed.

Lemma firstn_In_mono : forall A (l : list A) p pb a, p <= pb -> In a (firstn p l) -> In a (firstn pb l).
Proof.
  induction l as [|x l IH]; intros [|p] [|pb] a Hle Hin; simpl in *; auto; try contradiction; try (exfalso; lia).
  destruct Hin as [->|Hin]; auto. right. apply (IH p pb a); auto. lia.
Qed.

Lemma prefs_below_mono : forall st p pb r, p <= pb -> In r (prefs_below p st) -> In r (prefs_below pb st).
Proof.
  intros st p pb r Hle Hin. unfold prefs_below in *. apply in_flat_map in Hin. destruct Hin as (P & HP & Hr).
  apply in_flat_map. exists P. split; auto. eapply firstn_In_mono; eauto.
Qed.

(* ------------------------------------------------------------------ primitive updates *)

Lemma sdeliv_set_stream_other : forall st sid s' sid', sid <> sid' -> sdeliv (set_stream st sid s') sid' = sdeliv st sid'.
Proof. intros. unfold sdeliv. simpl. rewrite nth_error_upd_neq by auto. reflexivity. Qed.

Lemma sdeliv_set_stream_eq : forall st sid s s', nth_error (streams st) sid = Some s ->
  sdeliv (set_stream st sid s') sid = s_deliv s'.
Proof. intros. unfold sdeliv. simpl. rewrite nth_error_upd_eq by (apply nth_error_Some; congruence). reflexivity. Qed.

Lemma cgot_set_parent_other : forall st p P' p' j, p <> p' -> cgot (set_parent st p P') p' j = cgot st p' j.
Proof. intros. unfold cgot. simpl. rewrite nth_error_upd_neq by auto. reflexivity. Qed.

Lemma cgot_set_parent_eq : forall st p P P' j, nth_error (parents st) p = Some P ->
  cgot (set_parent st p P') p j = nth j (p_got P') [].
Proof. intros. unfold cgot. simpl. rewrite nth_error_upd_eq by (apply nth_error_Some; congruence). reflexivity. Qed.

Lemma stream_recv_item : forall s x s', stream_recv s = (PItem x, s') -> s_deliv s' = s_deliv s ++ [x].
Proof.
  intros s x s' H. unfold stream_recv in H. destruct (s_buf s).
  - destruct (s_sclosed s); inversion H.
  - inversion H; subst. reflexivity.
Qed.

Lemma stream_recv_other : forall s r s', stream_recv s = (r, s') -> not_item r -> s' = s.
Proof.
  intros s r s' H Hn. unfold stream_recv in H. destruct (s_buf s).
  - destruct (s_sclosed s); inversion H; auto.
  - inversion H; subst. exfalso. eapply Hn; eauto.
Qed.

Lemma nth_upd_eq : forall A (l : list A) i a d, i < List.length l -> nth i (upd l i a) d = a.
Proof. induction l as [|b l IH]; intros [|i] a d H; simpl in *; try lia; auto; apply IH; lia. Qed.

Lemma nth_upd_neq : forall A (l : list A) i j a d, i <> j -> nth j (upd l i a) d = nth j l d.
Proof. induction l as [|b l IH]; intros [|i] [|j] a d H; simpl; auto; try congruence. Qed.

Lemma nth_app_at_eq : forall l i x, i < List.length l -> nth i (app_at l i x) [] = nth i l [] ++ [x].
Proof.
  intros l i x H. unfold app_at. destruct (nth_error l i) as [g|] eqn:E.
  - rewrite nth_upd_eq by exact H. rewrite (nth_error_nth _ _ _ E). reflexivity.
  - apply nth_error_None in E. lia.
Qed.

Lemma nth_app_at_neq : forall l i j x, i <> j -> nth j (app_at l i x) [] = nth j l [].
Proof. intros l i j x H. unfold app_at. destruct (nth_error l i); auto. apply nth_upd_neq. exact H. Qed.

Lemma map_upd_nodup : forall (f g : nat -> list item) sts i sid v,
  NoDup sts -> nth_error sts i = Some sid ->
  (forall s, s <> sid -> g s = f s) -> g sid = v ->
  map g sts = upd (map f sts) i v.
Proof.
  intros f g. induction sts as [|a sts IH]; intros [|i] sid v Hnd Hn Ho He; simpl in *; try discriminate.
  - inversion Hn; subst a. inversion Hnd; subst. f_equal; auto.
    apply map_ext_in. intros s Hs. apply Ho. intros ->. contradiction.
  - inversion Hnd; subst. f_equal.
    + apply Ho. intros ->. apply H1. eapply nth_error_In; eauto.
    + eapply IH; eauto.
Qed.

Lemma NoDup_map_RS : forall sts, NoDup (map RS sts) -> NoDup sts.
Proof.
  induction sts as [|a l IH]; intros H; simpl in *; constructor; inversion H; subst; auto.
  intros Hin. apply H2. apply in_map. exact Hin.
Qed.

Lemma Link_set_stream : forall st sid s' t2 L2,
  ~ In (RS sid) (refs t2) -> Link st t2 L2 -> Link (set_stream st sid s') t2 L2.
Proof.
  intros st sid s' t2 L2 Hn H. apply (Link_frame st); [ | intros; reflexivity | exact H].
  intros sid' Hin. apply sdeliv_set_stream_other. intros ->. contradiction.
Qed.

Lemma Link_set_parent : forall st p P P' t2 L2,
  nth_error (parents st) p = Some P ->
  (forall j, In (RC p j) (refs t2) -> nth j (p_got P') [] = nth j (p_got P) []) ->
  Link st t2 L2 -> Link (set_parent st p P') t2 L2.
Proof.
  intros st p P P' t2 L2 HP Hg H. apply (Link_frame st); [intros; reflexivity | | exact H].
  intros p' j Hin. destruct (Nat.eq_dec p p') as [<-|Hne].
  - rewrite (cgot_set_parent_eq _ _ P) by exact HP. unfold cgot. rewrite HP. apply Hg. exact Hin.
  - apply cgot_set_parent_other. exact Hne.
Qed.

Lemma applog_not_item : forall L r, not_item r -> applog L r = L.
Proof. intros L [x| | | |] H; simpl; auto. exfalso. eapply H; eauto. Qed.

Definition FR (fp : list ref) (st st' : store) : Prop :=
  forall t2 L2, (forall r, In r (refs t2) -> ~ In r fp) -> Link st t2 L2 -> Link st' t2 L2.

Lemma FR_refl : forall fp st, FR fp st st.
Proof. intros fp st t2 L2 _ H. exact H. Qed.

Lemma FR_trans : forall fp a b c, FR fp a b -> FR fp b c -> FR fp a c.
Proof. intros fp a b c H1 H2 t2 L2 Hd H. apply H2; auto. Qed.

Lemma parent_open_src : forall st p P i c,
  pcnt st -> PK st -> nth_error (parents st) p = Some P -> nth_error (p_cur P) i = Some (Some c) ->
  forall r0, In r0 (refs (p_src P)) -> ~ rclosed st r0.
Proof.
  intros st p P i c Hp HK HP Hc r0 Hin Hr. pose proof (HK _ _ HP _ Hin Hr) as Ha. unfold all_closed in Ha.
  pose proof (Hp _ _ HP) as Hcnt. pose proof (count_none_some _ _ _ Hc). lia.
Qed.

Lemma NoDup_parent_src : forall st p pb P X,
  NoDup (X ++ prefs_below pb st) -> nth_error (parents st) p = Some P -> p < pb ->
  NoDup (refs (p_src P) ++ prefs_below p st)
  /\ (forall r, In r X -> ~ In r (refs (p_src P)) /\ ~ In r (prefs_below p st)).
Proof.
  intros st p pb P X Hnd HP Hlt. destruct (prefs_below_split _ _ _ _ HP Hlt) as (tl & E). rewrite E in Hnd.
  destruct (NoDup_app_elim _ _ _ Hnd) as (N1 & N2 & N3).
  rewrite app_assoc in N2. destruct (NoDup_app_elim _ _ _ N2) as (N4 & _ & _). split.
  - eapply Permutation_NoDup; [apply Permutation_app_comm | exact N4].
  - intros r Hr. specialize (N3 r Hr). split; intros Hin; apply N3; apply in_or_app; [right; apply in_or_app; left|left]; exact Hin.
Qed.

Lemma nth_error_firstn_lt : forall A (l : list A) n i, i < n -> nth_error (firstn n l) i = nth_error l i.
Proof.
  induction l as [|x l IH]; intros [|n] [|i] H; simpl; auto; try lia.
  apply IH. lia.
Qed.

Lemma prefs_below_inv : forall st p r, In r (prefs_below p st) ->
  exists q Q, q < p /\ nth_error (parents st) q = Some Q /\ In r (refs (p_src Q)).
Proof.
  intros st p r Hin. unfold prefs_below in Hin. apply in_flat_map in Hin. destruct Hin as (Q & HQ & Hr).
  apply In_nth_error in HQ. destruct HQ as (q & Hq).
  assert (Hlt : q < p).
  { assert (X : q < List.length (firstn p (parents st))) by (apply nth_error_Some; congruence).
    rewrite firstn_length in X. lia. }
  exists q, Q. split; auto. split; auto. rewrite nth_error_firstn_lt in Hq by exact Hlt. exact Hq.
Qed.

Lemma parents_below_disjoint : forall st pb p q P Q r,
  NoDup (prefs_below pb st) -> p < pb -> q < pb -> p <> q ->
  nth_error (parents st) p = Some P -> nth_error (parents st) q = Some Q ->
  In r (refs (p_src P)) -> ~ In r (refs (p_src Q)).
Proof.
  intros st pb p q P Q r Hnd Hp Hq Hne HP HQ H1 H2. apply Hne. unfold prefs_below in Hnd.
  eapply (NoDup_flat_map_unique _ _ (fun P => refs (p_src P)) (firstn pb (parents st)) p q P Q r); eauto.
  - rewrite nth_error_firstn_lt; auto.
  - rewrite nth_error_firstn_lt; auto.
Qed.

(* ------------------------------------------------------------------ Recv keeps the links *)

Lemma Recv_link : forall st t r st' t', Recv st t r st' t' ->
  forall pb L, SI st -> rd_ok t ->
    Forall (ref_below pb) (refs t) ->
    NoDup (refs t ++ prefs_below pb st) ->
    (forall r0, In r0 (refs t) -> ~ rclosed st r0) ->
    PL_below pb st -> Link st t L ->
    Link st' t' (applog L r)
    /\ PL_below pb st'
    /\ (forall q, pb <= q -> nth_error (parents st') q = nth_error (parents st) q)
    /\ FR (refs t ++ prefs_below pb st) st st'.
Proof.
  intros st t r st' t' H. induction H; intros pb L HSI Hrd Hbel Hnd Hopen HPL HL.
  - (* arr eof *) repeat split; auto. apply FR_refl.
  - (* arr item *) repeat split; auto; [|apply FR_refl]. simpl in *. rewrite HL. rewrite map_app. reflexivity.
  - (* str *)
    assert (Hother : forall t2 L2, ~ In (RS sid) (refs t2) -> Link st t2 L2 -> Link (set_stream st sid s') t2 L2)
      by (intros; apply Link_set_stream; auto).
    split; [|split; [|split]].
    + simpl in *. rewrite (sdeliv_set_stream_eq _ _ s) by exact H. subst L. unfold sdeliv. rewrite H.
      destruct r as [x| | | |]; simpl;
        try (rewrite (stream_recv_other _ _ _ H0); [reflexivity | intros y; discriminate]).
      symmetry. apply (stream_recv_item _ _ _ H0).
    + intros q Q Hq HQ. simpl in HQ. apply Hother; [|eapply HPL; eauto].
      intros Hin. destruct (NoDup_app_elim _ _ _ Hnd) as (_ & _ & D). apply (D (RS sid)); [left; reflexivity|].
      eapply prefs_below_in; eauto.
    + intros q Hq. reflexivity.
    + intros t2 L2 Hd HL2. apply Hother; auto. intros Hin. apply (Hd _ Hin). left. reflexivity.
  - (* mul eof *) repeat split; auto. apply FR_refl.
  - (* mul block *) repeat split; auto. apply FR_refl.
  - (* mul item *)
    assert (Hsid : In (RS sid) (refs (RMul sts chosen))) by (simpl; apply in_map; eapply nth_error_In; eauto).
    assert (Hother : forall t2 L2, ~ In (RS sid) (refs t2) -> Link st t2 L2 -> Link (set_stream st sid s') t2 L2)
      by (intros; apply Link_set_stream; auto).
    split; [|split; [|split]].
    + simpl in *.
      assert (Hnds : NoDup sts).
      { apply NoDup_map_RS. destruct (NoDup_app_elim _ _ _ Hnd) as (N & _ & _). exact N. }
      rewrite (map_upd_nodup (sdeliv st) (sdeliv (set_stream st sid s')) sts i sid (sdeliv st sid ++ [x]) Hnds H0).
      * eapply IL_snoc; eauto. apply map_nth_error. exact H0.
      * intros s1 Hs1. apply sdeliv_set_stream_other. congruence.
      * rewrite (sdeliv_set_stream_eq _ _ s) by exact H1. unfold sdeliv. rewrite H1. apply (stream_recv_item _ _ _ H2).
    + intros q Q Hq HQ. simpl in HQ. apply Hother; [|eapply HPL; eauto].
      intros Hin. destruct (NoDup_app_elim _ _ _ Hnd) as (_ & _ & D). apply (D (RS sid) Hsid).
      eapply prefs_below_in; eauto.
    + intros q Hq. reflexivity.
    + intros t2 L2 Hd HL2. apply Hother; auto. intros Hin. apply (Hd _ Hin). apply in_or_app. left. exact Hsid.
  - (* mul retire *)
    apply (IHRecv pb L); auto.
  - (* conv item *)
    simpl in HL. destruct HL as [HL1 HL2]. destruct Hrd as [Hc Hrs].
    destruct (IHRecv pb cin HSI Hrs Hbel Hnd Hopen HPL HL2) as (A & B & C & D).
    split; [|split; [|split]]; auto. simpl in *. split; [congruence | exact A].
  - (* conv skip *)
    simpl in HL. destruct HL as [HL1 HL2]. destruct Hrd as [Hc Hrs].
    destruct (IHRecv1 pb cin HSI Hrs Hbel Hnd Hopen HPL HL2) as (A & B & C & D).
    destruct (SI_Recv _ _ _ _ _ H HSI Hrs) as [HSI1 Hrs1].
    destruct (Recv_static _ _ _ _ _ H) as [SR1 Hrefs1].
    assert (Hfp : refs (RConv f src1 (cin ++ [x]) cout) ++ prefs_below pb st1 = refs (RConv f src cin cout) ++ prefs_below pb st).
    { simpl. rewrite Hrefs1. rewrite (prefs_below_store_rel _ _ _ SR1). reflexivity. }
    destruct (IHRecv2 pb L) as (A2 & B2 & C2 & D2); auto.
    + simpl. split; auto. rewrite filter_map_app. simpl. rewrite H0. rewrite app_nil_r. exact Hc.
    + simpl. rewrite Hrefs1. exact Hbel.
    + rewrite Hfp. exact Hnd.
    + intros r0 Hr0 Hc0. simpl in Hr0. rewrite Hrefs1 in Hr0. apply (Hopen r0 Hr0). apply (rclosed_store_rel _ _ _ SR1). exact Hc0.
    + simpl. split; auto.
    + split; [exact A2 | split; [exact B2 | split]].
      * intros q Hq. rewrite C2 by exact Hq. apply C. exact Hq.
      * rewrite Hfp in D2. eapply FR_trans; eauto.
  - (* conv other *)
    simpl in HL. destruct HL as [HL1 HL2]. destruct Hrd as [Hc Hrs].
    destruct (IHRecv pb cin HSI Hrs Hbel Hnd Hopen HPL HL2) as (A & B & C & D).
    rewrite applog_not_item in * by exact H0.
    split; [|split; [|split]]; auto. simpl. split; auto.
  - (* child closed *)
    exfalso. apply (Hopen (RC p i)); [left; reflexivity|]. simpl. eauto.
  - (* child have *)
    destruct HSI as (S1 & S2 & S3 & S4 & S5).
    assert (HPok : parent_ok P) by (destruct S1 as [_ Hp]; eapply Forall_nth_error; eauto).
    assert (Hi : i < List.length (p_got P)).
    { destruct HPok as (Hl & _). rewrite Hl. apply nth_error_Some. congruence. }
    assert (Hpb : p < pb) by (inversion Hbel; subst; auto).
    assert (Hother : forall t2 L2, ~ In (RC p i) (refs t2) -> Link st t2 L2 -> Link (set_parent st p (deliver P i c x)) t2 L2).
    { intros t2 L2 Hn HL2. eapply Link_set_parent; eauto. intros j Hj. simpl. apply nth_app_at_neq. intros ->. contradiction. }
    split; [|split; [|split]].
    + simpl in *. rewrite (cgot_set_parent_eq _ _ P) by exact H. simpl. rewrite nth_app_at_eq by exact Hi.
      subst L. unfold cgot. rewrite H. reflexivity.
    + intros q Q Hq HQ. simpl in HQ.
      assert (Hni : forall Q0, nth_error (parents st) q = Some Q0 -> ~ In (RC p i) (refs (p_src Q0))).
      { intros Q0 HQ0 Hin. destruct (NoDup_app_elim _ _ _ Hnd) as (_ & _ & D). apply (D (RC p i)); [left; reflexivity|].
        eapply prefs_below_in; eauto. }
      destruct (nth_error_upd _ _ _ _ _ _ HQ) as [[-> ->]|[Hne HQ0]].
      * simpl. apply Hother; [apply (Hni P H)|]. eapply HPL; eauto.
      * apply Hother; [apply (Hni Q HQ0)|]. eapply HPL; eauto.
    + intros q Hq. simpl. apply nth_error_upd_neq. lia.
    + intros t2 L2 Hd HL2. apply Hother; auto. intros Hin. apply (Hd _ Hin). left. reflexivity.
  - (* child eof *)
    assert (Hother : forall t2 L2, Link st t2 L2 -> Link (set_parent st p (mark_eof P i)) t2 L2).
    { intros t2 L2 HL2. eapply Link_set_parent; eauto. }
    assert (Hpb : p < pb) by (inversion Hbel; subst; auto).
    split; [|split; [|split]].
    + simpl in *. rewrite (cgot_set_parent_eq _ _ P) by exact H. simpl. subst L. unfold cgot. rewrite H. reflexivity.
    + intros q Q Hq HQ. simpl in HQ.
      destruct (nth_error_upd _ _ _ _ _ _ HQ) as [[-> ->]|[Hne HQ0]].
      * simpl. apply Hother. eapply HPL; eauto.
      * apply Hother. eapply HPL; eauto.
    + intros q Hq. simpl. apply nth_error_upd_neq. lia.
    + intros t2 L2 Hd HL2. apply Hother; auto.
  - (* pull item *)
    pose proof HSI as (S1 & S2 & S3 & S4 & S5).
    assert (HPok : parent_ok P) by (destruct S1 as [_ Hp]; eapply Forall_nth_error; eauto).
    assert (Hi : i < List.length (p_got P)).
    { destruct HPok as (Hl & _). rewrite Hl. apply nth_error_Some. congruence. }
    assert (Hpb : p < pb) by (inversion Hbel; subst; auto).
    destruct (NoDup_parent_src _ _ _ _ _ Hnd H Hpb) as [Hnd1 Hdis].
    assert (Hsrcok : rd_ok (p_src P)) by (destruct HPok as (_ & _ & _ & _ & X); exact X).
    assert (HPLp : PL_below p st) by (intros q Q Hq HQ; apply (HPL q Q); [lia | exact HQ]).
    destruct (IHRecv p (p_items P) HSI Hsrcok (S2 _ _ H) Hnd1 (parent_open_src _ _ _ _ _ S3 S4 H H0) HPLp (HPL _ _ Hpb H))
      as (A & B & C & D).
    simpl in A.
    destruct (Recv_static _ _ _ _ _ H3) as [SR1 Hrefs1].
    assert (HP1 : nth_error (parents st1) p = Some P) by (rewrite C; auto).
    set (P2 := deliver (pulled_item (with_src P src1) x) i c x).
    assert (Hset : forall t2 L2, ~ In (RC p i) (refs t2) -> Link st1 t2 L2 -> Link (set_parent st1 p P2) t2 L2).
    { intros t2 L2 Hn HL2. eapply Link_set_parent; eauto. intros j Hj. simpl. apply nth_app_at_neq. intros ->. contradiction. }
    assert (Hti : ~ In (RC p i) (refs (p_src P)) /\ ~ In (RC p i) (prefs_below p st)) by (apply Hdis; left; reflexivity).
    split; [|split; [|split]].
    + simpl in *. rewrite (cgot_set_parent_eq _ _ P) by exact HP1. simpl. rewrite nth_app_at_eq by exact Hi.
      subst L. unfold cgot. rewrite H. reflexivity.
    + intros q Q Hq HQ. simpl in HQ.
      destruct (nth_error_upd _ _ _ _ _ _ HQ) as [[-> ->]|[Hne HQ0]].
      * simpl. apply Hset; [rewrite Hrefs1; apply Hti | exact A].
      * destruct (Nat.lt_ge_cases q p) as [Hlt|Hge].
        -- apply Hset; [|eapply B; eauto].
           intros Hin. destruct (Forall2_nth_r _ _ _ _ _ _ (proj2 SR1) HQ0) as (Q0 & HQ00 & (Er & _)).
           rewrite Er in Hin. apply (proj2 Hti). eapply prefs_below_in; eauto.
        -- assert (HQs : nth_error (parents st) q = Some Q) by (rewrite <- C by lia; exact HQ0).
           assert (Hqd : forall r0, In r0 (refs (p_src Q)) -> ~ In r0 (refs (p_src P) ++ prefs_below p st)).
           { intros r0 Hr0 Hin0. destruct (NoDup_app_elim _ _ _ Hnd) as (_ & N2 & _).
             apply in_app_or in Hin0. destruct Hin0 as [Hin0|Hin0].
             - eapply (parents_below_disjoint st pb q p Q P r0); eauto.
             - destruct (prefs_below_inv _ _ _ Hin0) as (q1 & Q1 & Hq1 & HQ1 & Hr1).
               eapply (parents_below_disjoint st pb q q1 Q Q1 r0); eauto; lia. }
           apply Hset.
           ++ intros Hin. destruct (NoDup_app_elim _ _ _ Hnd) as (_ & _ & D0). apply (D0 (RC p i)); [left; reflexivity|].
              eapply prefs_below_in; eauto.
           ++ apply D; auto. eapply HPL; eauto.
    + intros q Hq. simpl. rewrite nth_error_upd_neq by lia. apply C. lia.
    + intros t2 L2 Hd HL2. apply Hset.
      * intros Hin. apply (Hd _ Hin). left. reflexivity.
      * apply D; auto. intros r0 Hr0 Hin0. apply (Hd _ Hr0). apply in_or_app. right.
        apply in_app_or in Hin0. destruct Hin0 as [Hin0|Hin0].
        -- eapply prefs_below_in; eauto.
        -- eapply prefs_below_mono; [|exact Hin0]. lia.
  - (* pull eof *)
    pose proof HSI as (S1 & S2 & S3 & S4 & S5).
    assert (HPok : parent_ok P) by (destruct S1 as [_ Hp]; eapply Forall_nth_error; eauto).
    assert (Hpb : p < pb) by (inversion Hbel; subst; auto).
    destruct (NoDup_parent_src _ _ _ _ _ Hnd H Hpb) as [Hnd1 Hdis].
    assert (Hsrcok : rd_ok (p_src P)) by (destruct HPok as (_ & _ & _ & _ & X); exact X).
    assert (HPLp : PL_below p st) by (intros q Q Hq HQ; apply (HPL q Q); [lia | exact HQ]).
    destruct (IHRecv p (p_items P) HSI Hsrcok (S2 _ _ H) Hnd1 (parent_open_src _ _ _ _ _ S3 S4 H H0) HPLp (HPL _ _ Hpb H))
      as (A & B & C & D).
    simpl in A.
    destruct (Recv_static _ _ _ _ _ H3) as [SR1 Hrefs1].
    assert (HP1 : nth_error (parents st1) p = Some P) by (rewrite C; auto).
    set (P2 := mark_eof (pulled_eof (with_src P src1)) i).
    assert (Hset : forall t2 L2, Link st1 t2 L2 -> Link (set_parent st1 p P2) t2 L2).
    { intros t2 L2 HL2. eapply Link_set_parent; eauto. }
    split; [|split; [|split]].
    + simpl in *. rewrite (cgot_set_parent_eq _ _ P) by exact HP1. simpl. subst L. unfold cgot. rewrite H. reflexivity.
    + intros q Q Hq HQ. simpl in HQ.
      destruct (nth_error_upd _ _ _ _ _ _ HQ) as [[-> ->]|[Hne HQ0]].
      * simpl. apply Hset. exact A.
      * destruct (Nat.lt_ge_cases q p) as [Hlt|Hge].
        -- apply Hset. eapply B; eauto.
        -- assert (HQs : nth_error (parents st) q = Some Q) by (rewrite <- C by lia; exact HQ0).
           assert (Hqd : forall r0, In r0 (refs (p_src Q)) -> ~ In r0 (refs (p_src P) ++ prefs_below p st)).
           { intros r0 Hr0 Hin0. destruct (NoDup_app_elim _ _ _ Hnd) as (_ & N2 & _).
             apply in_app_or in Hin0. destruct Hin0 as [Hin0|Hin0].
             - eapply (parents_below_disjoint st pb q p Q P r0); eauto; lia.
             - destruct (prefs_below_inv _ _ _ Hin0) as (q1 & Q1 & Hq1 & HQ1 & Hr1).
               eapply (parents_below_disjoint st pb q q1 Q Q1 r0); eauto; lia. }
           apply Hset. apply D; auto. eapply HPL; eauto.
    + intros q Hq. simpl. rewrite nth_error_upd_neq by lia. apply C. lia.
    + intros t2 L2 Hd HL2. apply Hset.
      apply D; auto. intros r0 Hr0 Hin0. apply (Hd _ Hr0). apply in_or_app. right.
      apply in_app_or in Hin0. destruct Hin0 as [Hin0|Hin0].
      * eapply prefs_below_in; eauto.
      * eapply prefs_below_mono; [|exact Hin0]. lia.
  - (* pull other *)
    pose proof HSI as (S1 & S2 & S3 & S4 & S5).
    assert (HPok : parent_ok P) by (destruct S1 as [_ Hp]; eapply Forall_nth_error; eauto).
    assert (Hpb : p < pb) by (inversion Hbel; subst; auto).
    destruct (NoDup_parent_src _ _ _ _ _ Hnd H Hpb) as [Hnd1 Hdis].
    assert (Hsrcok : rd_ok (p_src P)) by (destruct HPok as (_ & _ & _ & _ & X); exact X).
    assert (HPLp : PL_below p st) by (intros q Q Hq HQ; apply (HPL q Q); [lia | exact HQ]).
    destruct (IHRecv p (p_items P) HSI Hsrcok (S2 _ _ H) Hnd1 (parent_open_src _ _ _ _ _ S3 S4 H H0) HPLp (HPL _ _ Hpb H))
      as (A & B & C & D).
    rewrite applog_not_item in A by exact H4.
    destruct (Recv_static _ _ _ _ _ H3) as [SR1 Hrefs1].
    assert (HP1 : nth_error (parents st1) p = Some P) by (rewrite C; auto).
    set (P2 := with_src P src1).
    assert (Hset : forall t2 L2, Link st1 t2 L2 -> Link (set_parent st1 p P2) t2 L2).
    { intros t2 L2 HL2. eapply Link_set_parent; eauto. }
    split; [|split; [|split]].
    + rewrite applog_not_item by exact H4. simpl in *. rewrite (cgot_set_parent_eq _ _ P) by exact HP1. simpl. subst L. unfold cgot. rewrite H. reflexivity.
    + intros q Q Hq HQ. simpl in HQ.
      destruct (nth_error_upd _ _ _ _ _ _ HQ) as [[-> ->]|[Hne HQ0]].
      * simpl. apply Hset. exact A.
      * destruct (Nat.lt_ge_cases q p) as [Hlt|Hge].
        -- apply Hset. eapply B; eauto.
        -- assert (HQs : nth_error (parents st) q = Some Q) by (rewrite <- C by lia; exact HQ0).
           assert (Hqd : forall r0, In r0 (refs (p_src Q)) -> ~ In r0 (refs (p_src P) ++ prefs_below p st)).
           { intros r0 Hr0 Hin0. destruct (NoDup_app_elim _ _ _ Hnd) as (_ & N2 & _).
             apply in_app_or in Hin0. destruct Hin0 as [Hin0|Hin0].
             - eapply (parents_below_disjoint st pb q p Q P r0); eauto; lia.
             - destruct (prefs_below_inv _ _ _ Hin0) as (q1 & Q1 & Hq1 & HQ1 & Hr1).
               eapply (parents_below_disjoint st pb q q1 Q Q1 r0); eauto; lia. }
           apply Hset. apply D; auto. eapply HPL; eauto.
    + intros q Hq. simpl. rewrite nth_error_upd_neq by lia. apply C. lia.
    + intros t2 L2 Hd HL2. apply Hset.
      apply D; auto. intros r0 Hr0 Hin0. apply (Hd _ Hr0). apply in_or_app. right.
      apply in_app_or in Hin0. destruct Hin0 as [Hin0|Hin0].
      * eapply prefs_below_in; eauto.
      * eapply prefs_below_mono; [|exact Hin0]. lia.
  - (* stuck *)
    destruct H as [-> | ->]; repeat split; auto; apply FR_refl.
Qed.

(* ------------------------------------------------------------------ the invariant on whole states *)

Definition finv (st : store) (F : fwd) (d : stream) : Prop :=
  match f_st F with
  | FRecv => Link st (f_src F) (s_sent d) /\ f_eof F = false
  | FSend x => Link st (f_src F) (s_sent d ++ [x]) /\ f_eof F = false
  | _ => exists dr, Link st (f_src F) (s_sent d ++ dr) /\ (f_eof F = true -> dr = [])
  end.

Definition linv (G : state) : Prop :=
  (forall h H, nth_error (st_handles G) h = Some H -> h_live H = true ->
     Link (st_store G) (h_rd H) (h_got H))
  /\ (forall q Q, nth_error (parents (st_store G)) q = Some Q -> Link (st_store G) (p_src Q) (p_items Q))
  /\ (forall k F d, nth_error (st_fwds G) k = Some F -> nth_error (streams (st_store G)) (f_dst F) = Some d ->
        finv (st_store G) F d).

Definition handle_fresh (G : state) (h : nat) : Prop :=
  forall H, nth_error (st_handles G) h = Some H -> h_closed H = false /\ h_got H = [].

(* legal use of the API: Copy / Merge / Convert take readers that have not been received
   from and are not closed; no Recv after Close *)
Definition op_legal (G : state) (o : op) : Prop :=
  match o with
  | OCopy h n => 2 <= n -> handle_fresh G h
  | OConv h _ => handle_fresh G h
  | OMerge hs => 2 <= List.length hs -> Forall (handle_fresh G) hs
  | ORecv h _ => handle_unclosed G h
  | _ => True
  end.

Lemma op_legal_unclosed : forall G o, op_legal G o -> op_unclosed G o.
Proof.
  intros G [cap | xs | h n | hs | h f | sid x | sid | h ch | h | k ch] H; simpl in *; auto.
  - intros Hn H0 E. apply (H Hn H0 E).
  - intros Hn. eapply Forall_impl; [|apply H; exact Hn]. intros h Hf H0 E. apply (Hf H0 E).
  - intros H0 E. apply (H H0 E).
Qed.

Lemma SI_of_state : forall G, state_ok G -> wf G -> pcnt (st_store G) -> kinv G -> SI (st_store G).
Proof.
  intros G (S1 & _) (W1 & _ & W3 & _) Hp HK. repeat split; auto; try apply S1.
  - intros q Q HQ r Hin Hc. destruct (HK (RtP q) r) as (Q0 & HQ0 & Ha); auto.
    + simpl. rewrite HQ. exact Hin.
    + congruence.
  - unfold all_refs in W1. destruct (NoDup_app_elim _ _ _ W1) as (_ & N & _).
    destruct (NoDup_app_elim _ _ _ N) as (N1 & _ & _). exact N1.
Qed.

Lemma ref_ok_below : forall st r, ref_ok st r -> ref_below (List.length (parents st)) r.
Proof. intros st [s|p i]; simpl; auto. intros (P & HP & _). apply nth_error_Some. congruence. Qed.

(* the references of a root reader are disjoint from the parents' and duplicate-free *)
Lemma root_NoDup : forall G ro, wf G -> (forall q, ro <> RtP q) ->
  NoDup (root_refs G ro ++ prefs (st_store G)).
Proof.
  intros G ro (W1 & _) Hnp. apply NoDup_app_intro.
  - (* NoDup of one block *)
    unfold all_refs in W1. destruct (NoDup_app_elim _ _ _ W1) as (NH & NPF & _).
    destruct (NoDup_app_elim _ _ _ NPF) as (_ & NF & _).
    assert (X : forall A B (f : A -> list B) l i a, NoDup (flat_map f l) -> nth_error l i = Some a -> NoDup (f a)).
    { intros A B f. induction l as [|y l IH]; intros [|i] a Hn Hi; simpl in *; try discriminate.
      - inversion Hi; subst. apply (NoDup_app_elim _ _ _ Hn).
      - eapply IH; eauto. apply (NoDup_app_elim _ _ _ Hn). }
    destruct ro as [h|q|k]; simpl.
    + destruct (nth_error (st_handles G) h) eqn:E; [|constructor]. eapply X; eauto.
    + exfalso. eapply Hnp; eauto.
    + destruct (nth_error (st_fwds G) k) eqn:E; [|constructor]. eapply (X _ _ (fun F => refs (f_src F))); eauto.
  - unfold all_refs in W1. destruct (NoDup_app_elim _ _ _ W1) as (_ & NPF & _).
    destruct (NoDup_app_elim _ _ _ NPF) as (N1 & _ & _). exact N1.
  - intros r Hr Hp. unfold prefs in Hp. apply in_flat_map in Hp. destruct Hp as (Q & HQ & HrQ).
    apply In_nth_error in HQ. destruct HQ as (q & Hq).
    assert (In r (root_refs G (RtP q))) by (simpl; rewrite Hq; exact HrQ).
    apply (Hnp q). eapply owner_unique; eauto.
Qed.

Lemma other_root_disjoint : forall G ro0 ro, wf G -> ro <> ro0 -> (forall q, ro <> RtP q) ->
  forall r, In r (root_refs G ro) -> ~ In r (root_refs G ro0 ++ prefs (st_store G)).
Proof.
  intros G ro0 ro (W1 & _) Hne Hnp r Hr Hin. apply in_app_or in Hin. destruct Hin as [Hin|Hin].
  - apply Hne. eapply owner_unique; eauto.
  - unfold prefs in Hin. apply in_flat_map in Hin. destruct Hin as (Q & HQ & HrQ).
    apply In_nth_error in HQ. destruct HQ as (q & Hq).
    assert (In r (root_refs G (RtP q))) by (simpl; rewrite Hq; exact HrQ).
    apply (Hnp q). eapply owner_unique; eauto.
Qed.

Lemma linv_recv_gen : forall G ro0 t L r st1 t1,
  state_ok G -> wf G -> pcnt (st_store G) -> kinv G -> linv G ->
  (forall q, ro0 <> RtP q) -> root_refs G ro0 = refs t -> rd_ok t ->
  (forall r0, In r0 (refs t) -> ~ rclosed (st_store G) r0) ->
  Link (st_store G) t L ->
  Recv (st_store G) t r st1 t1 ->
  Link st1 t1 (applog L r)
  /\ (forall q Q, nth_error (parents st1) q = Some Q -> Link st1 (p_src Q) (p_items Q))
  /\ (forall ro t2 L2, ro <> ro0 -> (forall q, ro <> RtP q) ->
        (forall r0, In r0 (refs t2) -> In r0 (root_refs G ro)) ->
        Link (st_store G) t2 L2 -> Link st1 t2 L2).
Proof.
  intros G ro0 t L r st1 t1 HS HW Hp HK HL Hnp Hrefs Hrd Hopen HLt HR.
  pose proof (SI_of_state G HS HW Hp HK) as HSI.
  set (pb := List.length (parents (st_store G))).
  assert (Hbel : Forall (ref_below pb) (refs t)).
  { destruct HW as (_ & W2 & _). apply Forall_forall. intros r0 Hr0. apply ref_ok_below.
    rewrite Forall_forall in W2. apply W2. eapply root_refs_in_all. rewrite Hrefs. exact Hr0. }
  assert (Hnd : NoDup (refs t ++ prefs_below pb (st_store G))).
  { unfold pb. rewrite prefs_below_all. rewrite <- Hrefs. apply root_NoDup; auto. }
  assert (HPL : PL_below pb (st_store G)).
  { intros q Q _ HQ. destruct HL as (_ & L2 & _). eapply L2; eauto. }
  destruct (Recv_link _ _ _ _ _ HR pb L HSI Hrd Hbel Hnd Hopen HPL HLt) as (A & B & C & D).
  split; [exact A|]. split.
  - intros q Q HQ. apply (B q Q); auto.
    destruct (Recv_static _ _ _ _ _ HR) as [[_ SR] _]. unfold pb. rewrite (Forall2_length' _ _ _ _ SR).
    apply nth_error_Some. congruence.
  - intros ro t2 L2 Hne Hnp2 Hsub HL2. apply D; auto.
    intros r0 Hr0. unfold pb. rewrite prefs_below_all. rewrite <- Hrefs.
    apply (other_root_disjoint G ro0 ro HW Hne Hnp2). apply Hsub. exact Hr0.
Qed.

(* ------------------------------------------------------------------ stores with the same logs *)

Definition logs_eq (st st' : store) : Prop :=
  (forall sid, sdeliv st' sid = sdeliv st sid) /\ (forall p i, cgot st' p i = cgot st p i).

Lemma Link_logs_eq : forall st st' t L, logs_eq st st' -> Link st t L -> Link st' t L.
Proof. intros st st' t L [H1 H2] H. apply (Link_frame st); auto. Qed.

Lemma logs_eq_refl : forall st, logs_eq st st.
Proof. intros st. split; auto. Qed.

Lemma logs_eq_trans : forall a b c, logs_eq a b -> logs_eq b c -> logs_eq a c.
Proof. intros a b c [A1 A2] [B1 B2]. split; intros; [rewrite B1 | rewrite B2]; auto. Qed.

Lemma nth_error_app_new : forall A (l ns : list A) i a,
  nth_error (l ++ ns) i = Some a -> nth_error l i = Some a \/ (List.length l <= i /\ In a ns).
Proof.
  intros A l ns i a H. destruct (Nat.lt_ge_cases i (List.length l)) as [Hlt|Hge].
  - rewrite nth_error_app1 in H by exact Hlt. auto.
  - rewrite nth_error_app2 in H by exact Hge. right. split; auto. eapply nth_error_In; eauto.
Qed.

Lemma logs_eq_add_streams : forall st ns,
  Forall (fun s => s_deliv s = []) ns -> logs_eq st (mkSt (streams st ++ ns) (parents st)).
Proof.
  intros st ns Hns. split; auto. intros sid. unfold sdeliv. simpl.
  destruct (nth_error (streams st ++ ns) sid) as [s|] eqn:E.
  - destruct (nth_error_app_new _ _ _ _ _ E) as [E1|[Hge Hin]].
    + rewrite E1. reflexivity.
    + rewrite Forall_forall in Hns. rewrite (Hns _ Hin).
      destruct (nth_error (streams st) sid) eqn:E2; auto. assert (sid < List.length (streams st)) by (apply nth_error_Some; congruence). lia.
  - destruct (nth_error (streams st) sid) eqn:E2; auto.
    assert (sid < List.length (streams st)) by (apply nth_error_Some; congruence).
    assert (nth_error (streams st ++ ns) sid <> None) by (apply nth_error_Some; rewrite app_length; lia). congruence.
Qed.

Lemma logs_eq_add_stream : forall st s, s_deliv s = [] -> logs_eq st (add_stream st s).
Proof. intros st s H. apply (logs_eq_add_streams st [s]). repeat constructor. exact H. Qed.

Lemma logs_eq_add_parent : forall st t n, logs_eq st (add_parent st (new_parent t n)).
Proof.
  intros st t n. split; auto. intros p i. unfold cgot. simpl.
  destruct (nth_error (parents st ++ [new_parent t n]) p) as [P|] eqn:E.
  - destruct (nth_error_app_new _ _ _ _ _ E) as [E1|[Hge [<-|[]]]].
    + rewrite E1. reflexivity.
    + simpl. destruct (nth_error (parents st) p) eqn:E2.
      * assert (p < List.length (parents st)) by (apply nth_error_Some; congruence). lia.
      * clear. revert i. induction n; intros [|i]; simpl; auto.
  - destruct (nth_error (parents st) p) eqn:E2; auto.
    assert (p < List.length (parents st)) by (apply nth_error_Some; congruence).
    assert (nth_error (parents st ++ [new_parent t n]) p <> None) by (apply nth_error_Some; rewrite app_length; lia). congruence.
Qed.

Lemma logs_eq_set_stream : forall st sid s s',
  nth_error (streams st) sid = Some s -> s_deliv s' = s_deliv s -> logs_eq st (set_stream st sid s').
Proof.
  intros st sid s s' Hn E. split; auto. intros sid'. destruct (Nat.eq_dec sid sid') as [<-|Hne].
  - rewrite (sdeliv_set_stream_eq _ _ s) by exact Hn. unfold sdeliv. rewrite Hn. exact E.
  - apply sdeliv_set_stream_other. exact Hne.
Qed.

Lemma logs_eq_cstore_rel : forall st st', cstore_rel st st' -> logs_eq st st'.
Proof.
  intros st st' [H1 H2]. split.
  - intros sid. unfold sdeliv. destruct (nth_error (streams st) sid) as [s|] eqn:E.
    + destruct (Forall2_nth _ _ _ _ _ _ H1 E) as (s' & E' & (_ & _ & _ & _ & _ & Ed & _)). rewrite E'. exact Ed.
    + destruct (nth_error (streams st') sid) as [s'|] eqn:E'; auto.
      destruct (Forall2_nth_r _ _ _ _ _ _ H1 E') as (s & Es & _). congruence.
  - intros p i. unfold cgot. destruct (nth_error (parents st) p) as [P|] eqn:E.
    + destruct (Forall2_nth _ _ _ _ _ _ H2 E) as (P' & E' & (_ & _ & _ & _ & Eg & _)). rewrite E', Eg. reflexivity.
    + destruct (nth_error (parents st') p) as [P'|] eqn:E'; auto.
      destruct (Forall2_nth_r _ _ _ _ _ _ H2 E') as (P & EP & _). congruence.
Qed.

Lemma stream_send_deliv : forall s x r s', stream_send s x = (r, s') -> s_deliv s' = s_deliv s.
Proof.
  intros s x r s'. unfold stream_send.
  destruct (Nat.ltb 0 (s_rclosed s)); [intros H; inversion H; subst; auto|].
  destruct (s_sclosed s); [intros H; inversion H; subst; auto|].
  destruct (Nat.ltb _ _); intros H; inversion H; subst; auto.
Qed.

Lemma stream_close_send_deliv : forall s r s', stream_close_send s = (r, s') -> s_deliv s' = s_deliv s /\ s_sent s' = s_sent s.
Proof. intros s r s'. unfold stream_close_send. destruct (s_sclosed s); intros H; inversion H; subst; auto. Qed.

Lemma Interleave_nil_inv : forall strs, Interleave [] strs -> Forall (fun s => s = []) strs.
Proof.
  intros strs H. inversion H; subst; auto. destruct l; discriminate.
Qed.

Lemma finv_Link_impl : forall st st' F F' d d',
  (forall L, Link st (f_src F) L -> Link st' (f_src F') L) ->
  f_st F' = f_st F -> f_eof F' = f_eof F -> s_sent d' = s_sent d ->
  finv st F d -> finv st' F' d'.
Proof.
  intros st st' F F' d d' HL Hst He Hs H. unfold finv in *. rewrite Hst, He, Hs.
  destruct (f_st F).
  - destruct H as [A B]. split; auto.
  - destruct H as [A B]. split; auto.
  - destruct H as (dr & A & B). exists dr. split; auto.
  - destruct H as (dr & A & B). exists dr. split; auto.
Qed.

Lemma linv_constructor_gen : forall G st' hs1 news np nf ns,
  linv G -> wf G ->
  logs_eq (st_store G) st' ->
  streams st' = streams (st_store G) ++ ns ->
  parents st' = parents (st_store G) ++ np ->
  List.length hs1 = List.length (st_handles G) ->
  (forall h0 H', nth_error hs1 h0 = Some H' ->
     exists H, nth_error (st_handles G) h0 = Some H /\ (H' = H \/ h_live H' = false)) ->
  (forall N, In N news -> h_live N = true -> Link st' (h_rd N) (h_got N)) ->
  (forall P, In P np -> Link st' (p_src P) (p_items P)) ->
  (forall F d, In F nf -> nth_error (streams st') (f_dst F) = Some d -> finv st' F d) ->
  linv (mkState st' (st_fwds G ++ nf) (hs1 ++ news)).
Proof.
  intros G st' hs1 news np nf ns (L1 & L2 & L3) HW Hlog Hstr Hpar Hlen Hold HN HP HF.
  split; [|split]; simpl.
  - intros h H' Hn Hlv. destruct (nth_error_app_new _ _ _ _ _ Hn) as [E|[_ Hin]].
    + destruct (Hold _ _ E) as (H & HnG & [->|Hd]); [|congruence].
      eapply Link_logs_eq; eauto.
    + apply HN; auto.
  - intros q Q HQ. rewrite Hpar in HQ. destruct (nth_error_app_new _ _ _ _ _ HQ) as [E|[_ Hin]].
    + eapply Link_logs_eq; eauto.
    + apply HP; auto.
  - intros k F d HF0 Hd. destruct (nth_error_app_new _ _ _ _ _ HF0) as [E|[_ Hin]].
    + destruct HW as (_ & _ & _ & W4 & _). pose proof (Forall_nth_error _ _ _ _ _ W4 E) as (d0 & Hd0 & _).
      assert (d = d0).
      { rewrite Hstr in Hd. rewrite nth_error_app1 in Hd by (apply nth_error_Some; congruence). congruence. }
      subst d0. eapply (finv_Link_impl (st_store G) st' F F d d); eauto.
      intros L. apply Link_logs_eq. exact Hlog.
    + apply HF; auto.
Qed.

Lemma merge_collect_fine : forall ts st fw ss arr st' fw' ss' arr',
  merge_collect st fw ts ss arr = (st', fw', ss', arr') ->
  (exists nf, fw' = fw ++ nf /\
     Forall (fun F => In (f_src F) ts /\ f_st F = FRecv /\ f_eof F = false /\ List.length (streams st) <= f_dst F) nf)
  /\ (forall s, In s ss' ->
        In s ss \/ In (RStr s) ts \/ (exists sts ch, In (RMul sts ch) ts /\ In s sts) \/ List.length (streams st) <= s).
Proof.
  induction ts as [|t r IH]; intros st fw ss arr st' fw' ss' arr' H; simpl in H.
  - inversion H; subst. split; [exists []; rewrite app_nil_r; split; auto | auto].
  - assert (Hfwd : forall t0, t0 = t ->
              merge_collect (add_stream st (new_stream 5 false)) (fw ++ [mkF t0 (List.length (streams st)) FRecv false]) r
                            (ss ++ [List.length (streams st)]) arr = (st', fw', ss', arr') ->
              (exists nf, fw' = fw ++ nf /\
                 Forall (fun F => In (f_src F) (t :: r) /\ f_st F = FRecv /\ f_eof F = false /\ List.length (streams st) <= f_dst F) nf)
              /\ (forall s, In s ss' ->
                    In s ss \/ In (RStr s) (t :: r) \/ (exists sts ch, In (RMul sts ch) (t :: r) /\ In s sts) \/ List.length (streams st) <= s)).
    { intros t0 -> H0. destruct (IH _ _ _ _ _ _ _ _ H0) as ((nf & E & HF) & HS). split.
      - exists (mkF t (List.length (streams st)) FRecv false :: nf). split.
        + rewrite E. rewrite <- app_assoc. reflexivity.
        + constructor; [simpl; auto 6|]. eapply Forall_impl; [|exact HF]. intros F (A & B & C & D). repeat split; auto.
          * right. exact A.
          * simpl in D. rewrite app_length in D. simpl in D. lia.
      - intros s Hs. destruct (HS s Hs) as [Hi|[Hi|[(sts & ch & Hi & Hs')|Hi]]].
        + apply in_app_or in Hi. destruct Hi as [Hi|[<-|[]]]; auto.
        + right. left. right. exact Hi.
        + right. right. left. exists sts, ch. split; auto. right. exact Hi.
        + right. right. right. simpl in Hi. rewrite app_length in Hi. simpl in Hi. lia. }
    assert (Hsame : forall ss0 arr0,
              merge_collect st fw r ss0 arr0 = (st', fw', ss', arr') ->
              (forall s, In s ss0 -> In s ss \/ In (RStr s) (t :: r) \/ (exists sts ch, In (RMul sts ch) (t :: r) /\ In s sts) \/ List.length (streams st) <= s) ->
              (exists nf, fw' = fw ++ nf /\
                 Forall (fun F => In (f_src F) (t :: r) /\ f_st F = FRecv /\ f_eof F = false /\ List.length (streams st) <= f_dst F) nf)
              /\ (forall s, In s ss' ->
                    In s ss \/ In (RStr s) (t :: r) \/ (exists sts ch, In (RMul sts ch) (t :: r) /\ In s sts) \/ List.length (streams st) <= s)).
    { intros ss0 arr0 H0 Hss0. destruct (IH _ _ _ _ _ _ _ _ H0) as ((nf & E & HF) & HS). split.
      - exists nf. split; auto. eapply Forall_impl; [|exact HF]. intros F (A & B & C & D). repeat split; auto. right. exact A.
      - intros s Hs. destruct (HS s Hs) as [Hi|[Hi|[(sts & ch & Hi & Hs')|Hi]]]; auto.
        + right. left. right. exact Hi.
        + right. right. left. exists sts, ch. split; auto. right. exact Hi. }
    destruct t as [d rest | s0 | sts ch | f src cin cout | p i].
    + apply (Hsame _ _ H). auto.
    + apply (Hsame _ _ H). intros s Hs. apply in_app_or in Hs. destruct Hs as [Hs|[<-|[]]]; auto.
      right. left. left. reflexivity.
    + apply (Hsame _ _ H). intros s Hs. apply in_app_or in Hs. destruct Hs as [Hs|Hs]; auto.
      right. right. left. exists sts, ch. split; auto. left. reflexivity.
    + apply Hfwd in H; auto.
    + apply Hfwd in H; auto.
Qed.

Lemma Link_nil_stream : forall st t, Link st t [] ->
  forall s, (t = RStr s \/ exists sts ch, t = RMul sts ch /\ In s sts) -> sdeliv st s = [].
Proof.
  intros st t H s [->|(sts & ch & -> & Hin)]; simpl in H; auto.
  apply Interleave_nil_inv in H. rewrite Forall_forall in H. apply H. apply in_map. exact Hin.
Qed.

Lemma Interleave_all_nil : forall strs, Forall (fun s => s = []) strs -> Interleave [] strs.
Proof. intros. constructor. auto. Qed.

Lemma consume_nth' : forall G h h0 H',
  nth_error (st_handles (consume G h)) h0 = Some H' ->
  exists H, nth_error (st_handles G) h0 = Some H /\ (H' = H \/ h_live H' = false).
Proof. intros. destruct (consume_nth _ _ _ _ H) as (H0 & A & B & _). eauto. Qed.

Lemma consume_all_nth' : forall hs G h0 H',
  nth_error (st_handles (consume_all G hs)) h0 = Some H' ->
  exists H, nth_error (st_handles G) h0 = Some H /\ (H' = H \/ h_live H' = false).
Proof. intros. destruct (consume_all_nth _ _ _ _ H) as (H0 & A & B & _). eauto. Qed.

Lemma identity_nth' : forall G h0 (H' : handle), nth_error (st_handles G) h0 = Some H' ->
  exists H, nth_error (st_handles G) h0 = Some H /\ (H' = H \/ h_live H' = false).
Proof. intros. eauto. Qed.

Lemma fresh_link : forall G h t, linv G -> live_rd G h = Some t -> handle_fresh G h -> Link (st_store G) t [].
Proof.
  intros G h t (L1 & _) Hl Hf. destruct (live_rd_nth _ _ _ Hl) as (H & Hn & Hlv & Hrd).
  destruct (Hf _ Hn) as [_ Hg]. rewrite <- Hg, <- Hrd. eapply L1; eauto.
Qed.

Lemma linv_set_user_stream : forall G sid s s',
  linv G -> wf G -> nth_error (streams (st_store G)) sid = Some s -> s_user s = true ->
  s_deliv s' = s_deliv s ->
  linv (mkState (set_stream (st_store G) sid s') (st_fwds G) (st_handles G)).
Proof.
  intros G sid s s' (L1 & L2 & L3) HW Hn Hu Hd.
  pose proof (logs_eq_set_stream _ _ _ _ Hn Hd) as Hlog.
  split; [|split]; simpl.
  - intros h H Hh Hlv. eapply Link_logs_eq; eauto.
  - intros q Q HQ. eapply Link_logs_eq; eauto.
  - intros k F d HF Hdn.
    destruct HW as (_ & _ & _ & W4 & _). pose proof (Forall_nth_error _ _ _ _ _ W4 HF) as (d0 & Hd0 & Hu0).
    assert (Hne : sid <> f_dst F) by (intros ->; congruence).
    rewrite nth_error_upd_neq in Hdn by exact Hne.
    eapply (finv_Link_impl (st_store G) _ F F d d); eauto.
    intros L0. apply Link_logs_eq. exact Hlog.
Qed.

Lemma do_op_linv : forall fuel G o b G',
  do_op fuel G o = (b, G') ->
  state_ok G -> wf G -> pcnt (st_store G) -> kinv G -> op_legal G o -> linv G -> linv G'.
Proof.
  intros fuel G o b G' H HS HW Hp HK Hpre HL.
  destruct o as [cap | xs | h n | hs | h f | sid x | sid | h ch | h | k ch]; simpl in H.
  - (* OPipe *)
    inversion H; subst; clear H.
    rewrite <- (app_nil_r (st_fwds G)).
    apply (linv_constructor_gen G _ (st_handles G) _ [] [] [new_stream cap true] HL HW).
    + apply logs_eq_add_stream. reflexivity.
    + reflexivity.
    + simpl. rewrite app_nil_r. reflexivity.
    + reflexivity.
    + apply identity_nth'.
    + intros N [<-|[]] _. simpl. unfold sdeliv. simpl. rewrite nth_error_app2 by lia. rewrite Nat.sub_diag. reflexivity.
    + intros P [].
    + intros F d [].
  - (* OArray *)
    inversion H; subst; clear H.
    rewrite <- (app_nil_r (st_fwds G)).
    apply (linv_constructor_gen G _ (st_handles G) _ [] [] [] HL HW).
    + apply logs_eq_refl.
    + rewrite app_nil_r. reflexivity.
    + rewrite app_nil_r. reflexivity.
    + reflexivity.
    + apply identity_nth'.
    + intros N [<-|[]] _. reflexivity.
    + intros P [].
    + intros F d [].
  - (* OCopy *)
    destruct (live_rd G h) as [t|] eqn:El; [|inversion H; subst; auto].
    destruct (Nat.ltb n 2) eqn:En; [inversion H; subst; auto|].
    apply Nat.ltb_ge in En. simpl in Hpre. specialize (Hpre En).
    pose proof (fresh_link G h t HL El Hpre) as Ht.
    assert (Hpar : forall t0, t0 = t ->
      linv (mkState (add_parent (st_store G) (new_parent t0 n)) (st_fwds G)
             (st_handles (consume G h) ++
              map (fun i => mkH (RChild (List.length (parents (st_store G))) i) true false [] false) (seq 0 n)))).
    { intros t0 ->. rewrite <- (app_nil_r (st_fwds G)).
      apply (linv_constructor_gen G _ (st_handles (consume G h)) _ [new_parent t n] [] [] HL HW).
      + apply logs_eq_add_parent.
      + simpl. rewrite app_nil_r. reflexivity.
      + reflexivity.
      + apply consume_handles_len.
      + apply consume_nth'.
      + intros N HN _. apply in_map_iff in HN. destruct HN as (i0 & <- & Hi0). simpl.
        unfold cgot. simpl. rewrite nth_error_app2 by lia. rewrite Nat.sub_diag. simpl.
        clear. revert i0. induction n; intros [|i0]; simpl; auto.
      + intros P [<-|[]]. simpl. eapply Link_logs_eq; [apply logs_eq_add_parent | exact Ht].
      + intros F d []. }
    destruct t as [d rest | s0 | sts ch | f src cin cout | p i]; inversion H; subst; clear H;
      rewrite ?consume_store, ?consume_fwds; try (apply Hpar; reflexivity).
    rewrite <- (app_nil_r (st_fwds G)).
    apply (linv_constructor_gen G _ (st_handles (consume G h)) _ [] [] [] HL HW).
    + apply logs_eq_refl.
    + rewrite app_nil_r. reflexivity.
    + rewrite app_nil_r. reflexivity.
    + apply consume_handles_len.
    + apply consume_nth'.
    + intros N HN _. apply repeat_spec in HN. subst N. reflexivity.
    + intros P [].
    + intros F d0 [].
  - (* OMerge *)
    destruct hs as [|h0 [|h1 hs']]; [inversion H; subst; auto| |].
    { destruct (live_rd G h0); inversion H; subst; auto. }
    destruct (nodupb (h0 :: h1 :: hs')) eqn:End; cbn [negb] in H; [|inversion H; subst; auto].
    destruct (live_rds G (h0 :: h1 :: hs')) as [ts|] eqn:El; [|inversion H; subst; auto].
    rewrite consume_all_store, consume_all_fwds in H.
    destruct (merge_collect _ _ ts [] []) as [[[st1 fw1] ss] arr] eqn:Em.
    destruct (merge_collect_spec _ _ _ _ _ _ _ _ _ Em) as (P1 & k0 & S1 & D1 & Pm).
    destruct (merge_collect_fine _ _ _ _ _ _ _ _ _ Em) as ((nf & Efw & Hnf) & Hss).
    assert (Hpre' : Forall (handle_fresh G) (h0 :: h1 :: hs')) by (apply Hpre; simpl; lia).
    assert (Hts : forall t, In t ts -> Link (st_store G) t []).
    { intros t Ht. destruct (live_rds_in _ _ _ _ El Ht) as (h & Hh & Hl). eapply fresh_link; eauto.
      rewrite Forall_forall in Hpre'. apply Hpre'. exact Hh. }
    assert (Hss' : forall s, In s ss -> sdeliv (st_store G) s = []).
    { intros s Hs. destruct (Hss s Hs) as [[]|[Hi|[(sts & ch & Hi & Hs')|Hi]]].
      - apply (Link_nil_stream _ _ (Hts _ Hi)). left. reflexivity.
      - apply (Link_nil_stream _ _ (Hts _ Hi)). right. eauto.
      - unfold sdeliv. destruct (nth_error (streams (st_store G)) s) eqn:E; auto.
        assert (s < List.length (streams (st_store G))) by (apply nth_error_Some; congruence). lia. }
    assert (Hgen : forall st2 ns2 rdnew,
       streams st2 = streams (st_store G) ++ repeat (new_stream 5 false) k0 ++ ns2 ->
       Forall (fun s => s_deliv s = []) ns2 -> parents st2 = parents st1 ->
       (logs_eq (st_store G) st2 -> Link st2 rdnew []) ->
       linv (mkState st2 fw1 (st_handles (consume_all G (h0 :: h1 :: hs')) ++ [mkH rdnew true false [] false]))).
    { intros st2 ns2 rdnew Hs2 Hns2 Hp2 Hnew.
      assert (Hlog : logs_eq (st_store G) st2).
      { destruct st2 as [s2 p2]. simpl in *. subst. rewrite P1.
        apply logs_eq_add_streams. apply Forall_app. split; auto.
        apply Forall_forall. intros s Hs. apply repeat_spec in Hs. subst. reflexivity. }
      rewrite Efw.
      apply (linv_constructor_gen G st2 _ _ [] nf (repeat (new_stream 5 false) k0 ++ ns2) HL HW).
      + exact Hlog.
      + exact Hs2.
      + rewrite app_nil_r. congruence.
      + apply consume_all_handles_len.
      + apply consume_all_nth'.
      + intros N [<-|[]] _. simpl. apply Hnew. exact Hlog.
      + intros P [].
      + intros F d HF Hd. rewrite Forall_forall in Hnf. destruct (Hnf F HF) as (A & B & C & D).
        unfold finv. rewrite B. split; auto.
        assert (Hsd : s_sent d = []).
        { assert (Hlt : f_dst F < List.length (streams (st_store G)) + k0).
          { assert (Hdst : In (f_dst F) (map f_dst fw1)) by (rewrite Efw, map_app; apply in_or_app; right; apply in_map; exact HF).
            rewrite D1 in Hdst. apply in_app_or in Hdst. destruct Hdst as [Hdst|Hdst].
            - destruct HW as (_ & _ & _ & W4 & _). apply in_map_iff in Hdst. destruct Hdst as (F0 & E0 & HF0).
              rewrite Forall_forall in W4. destruct (W4 _ HF0) as (d0 & Hd0 & _).
              assert (f_dst F0 < List.length (streams (st_store G))) by (apply nth_error_Some; congruence). lia.
            - apply in_seq in Hdst. lia. }
          rewrite Hs2 in Hd. rewrite nth_error_app2 in Hd by exact D.
          rewrite nth_error_app1 in Hd by (rewrite repeat_length; lia).
          apply nth_error_In in Hd. apply repeat_spec in Hd. subst d. reflexivity. }
        rewrite Hsd. simpl. eapply Link_logs_eq; [exact Hlog | apply Hts; exact A]. }
    destruct ss as [|s0 ss']; destruct arr as [|a0 arr']; inversion H; subst b G'; clear H.
    + apply (Hgen st1 []); auto. * rewrite app_nil_r. exact S1. * intros _. simpl. constructor. constructor.
    + apply (Hgen st1 []); auto. * rewrite app_nil_r. exact S1. * intros _. reflexivity.
    + apply (Hgen st1 []); auto. * rewrite app_nil_r. exact S1.
      * intros Hlog. cbn [Link]. apply Interleave_all_nil. apply Forall_forall. intros l Hl.
        apply in_map_iff in Hl. destruct Hl as (s & <- & Hs). destruct Hlog as [Hl1 _]. rewrite Hl1. apply Hss'. exact Hs.
    + apply (Hgen (add_stream st1 (array_stream (a0 :: arr'))) [array_stream (a0 :: arr')]).
      * simpl. rewrite S1. rewrite <- app_assoc. reflexivity.
      * repeat constructor.
      * reflexivity.
      * intros Hlog. cbn [Link]. apply Interleave_all_nil. apply Forall_forall. intros l Hl.
        apply in_map_iff in Hl. destruct Hl as (s & <- & Hs). destruct Hlog as [Hl1 _]. rewrite Hl1.
        change (In s ((s0 :: ss') ++ [List.length (streams st1)])) in Hs.
        apply in_app_or in Hs. destruct Hs as [Hs|[<-|[]]]; [apply Hss'; exact Hs|].
        unfold sdeliv. destruct (nth_error (streams (st_store G)) (List.length (streams st1))) eqn:E; auto.
        assert (List.length (streams st1) < List.length (streams (st_store G))) by (apply nth_error_Some; congruence).
        rewrite S1, app_length in H. lia.
  - (* OConv *)
    destruct (live_rd G h) as [t|] eqn:El; [|inversion H; subst; auto].
    inversion H; subst; clear H. rewrite consume_store, consume_fwds. simpl in Hpre.
    pose proof (fresh_link G h t HL El Hpre) as Ht.
    rewrite <- (app_nil_r (st_fwds G)).
    apply (linv_constructor_gen G _ (st_handles (consume G h)) _ [] [] [] HL HW).
    + apply logs_eq_refl.
    + rewrite app_nil_r. reflexivity.
    + rewrite app_nil_r. reflexivity.
    + apply consume_handles_len.
    + apply consume_nth'.
    + intros N [<-|[]] _. simpl. split; auto.
    + intros P [].
    + intros F d [].
  - (* OSend *)
    destruct (nth_error (streams (st_store G)) sid) as [s|] eqn:Es; [|inversion H; subst; auto].
    destruct (s_user s) eqn:Eu; cbn [negb] in H; [|inversion H; subst; auto].
    destruct (stream_send s x) as [r s'] eqn:E. inversion H; subst; clear H.
    apply (linv_set_user_stream G sid s s'); auto. eapply stream_send_deliv; eauto.
  - (* OCloseSend *)
    destruct (nth_error (streams (st_store G)) sid) as [s|] eqn:Es; [|inversion H; subst; auto].
    destruct (s_user s) eqn:Eu; cbn [negb] in H; [|inversion H; subst; auto].
    destruct (stream_close_send s) as [r s'] eqn:E. inversion H; subst; clear H.
    apply (linv_set_user_stream G sid s s'); auto. apply (stream_close_send_deliv _ _ _ E).
  - (* ORecv *)
    destruct (nth_error (st_handles G) h) as [Hh|] eqn:Eh; [|inversion H; subst; auto].
    destruct (h_live Hh) eqn:Elv; cbn [negb] in H; [|inversion H; subst; auto].
    destruct (recv fuel (st_store G) (h_rd Hh) ch) as [[[r st1] t1] ch1] eqn:Er.
    inversion H; subst; clear H. apply recv_Recv in Er. simpl in Hpre.
    pose proof HL as (L1 & L2 & L3).
    assert (Hrefs : root_refs G (RtH h) = refs (h_rd Hh)) by (simpl; rewrite Eh; unfold hrefs; rewrite Elv; reflexivity).
    assert (Hrd : rd_ok (h_rd Hh)) by (destruct HS as (_ & S2 & _); exact (Forall_nth_error _ _ _ _ _ S2 Eh)).
    assert (Hopen : forall r0, In r0 (refs (h_rd Hh)) -> ~ rclosed (st_store G) r0).
    { intros r0 Hr0 Hc. destruct (HK (RtH h) r0) as (H0 & HE0 & Hc0); [rewrite Hrefs; exact Hr0 | exact Hc |].
      rewrite (Hpre _ HE0) in Hc0. discriminate. }
    destruct (linv_recv_gen G (RtH h) _ _ _ _ _ HS HW Hp HK HL ltac:(intros q; discriminate) Hrefs Hrd Hopen (L1 _ _ Eh Elv) Er)
      as (A & B & C).
    destruct (Recv_static _ _ _ _ _ Er) as [SR _].
    split; [|split]; simpl.
    + intros h2 H2 Hn2 Hlv2. destruct (nth_error_upd _ _ _ _ _ _ Hn2) as [[-> ->]|[Hne Hn0]].
      * simpl. destruct r; exact A.
      * apply (C (RtH h2)); [congruence | intros q; discriminate | | eapply L1; eauto].
        intros r0 Hr0. simpl. rewrite Hn0. unfold hrefs. rewrite Hlv2. exact Hr0.
    + exact B.
    + intros k F d1 HF Hd1. destruct (Forall2_nth_r _ _ _ _ _ _ (proj1 SR) Hd1) as (d & Hd & (_ & _ & _ & _ & Es)).
      eapply (finv_Link_impl (st_store G) st1 F F d d1); eauto.
      intros L0. apply (C (RtF k)); [discriminate | intros q; discriminate |].
      intros r0 Hr0. simpl. rewrite HF. exact Hr0.
  - (* OClose *)
    destruct (nth_error (st_handles G) h) as [Hh|] eqn:Eh; [|inversion H; subst; auto].
    destruct (h_live Hh) eqn:Elv; cbn [negb] in H; [|inversion H; subst; auto].
    destruct (close_rd fuel (st_store G) (h_rd Hh)) as [r st1] eqn:Er.
    inversion H; subst; clear H. apply close_Close in Er. pose proof (Close_static _ _ _ _ Er) as SR.
    pose proof (logs_eq_cstore_rel _ _ SR) as Hlog. pose proof HL as (L1 & L2 & L3).
    split; [|split]; simpl.
    + intros h2 H2 Hn2 Hlv2. destruct (nth_error_upd _ _ _ _ _ _ Hn2) as [[-> ->]|[Hne Hn0]].
      * simpl. eapply Link_logs_eq; eauto.
      * eapply Link_logs_eq; eauto.
    + intros q Q' HQ'. destruct (Forall2_nth_r _ _ _ _ _ _ (proj2 SR) HQ') as (Q & HQ & (E1 & E2 & _)).
      rewrite E1, E2. eapply Link_logs_eq; eauto.
    + intros k F d1 HF Hd1. destruct (Forall2_nth_r _ _ _ _ _ _ (proj1 SR) Hd1) as (d & Hd & (_ & _ & _ & _ & Es & _)).
      eapply (finv_Link_impl (st_store G) st1 F F d d1); eauto.
      intros L0. apply Link_logs_eq. exact Hlog.
  - (* OFwd *)
    destruct (nth_error (st_fwds G) k) as [F|] eqn:EF; [|inversion H; subst; auto].
    pose proof HL as (L1 & L2 & L3).
    pose proof HW as (W1 & W2 & W3 & W4 & W5).
    pose proof (Forall_nth_error _ _ _ _ _ W4 EF) as (d & Hd & Hud).
    pose proof (L3 _ _ _ EF Hd) as HFinv.
    assert (Hdst : forall k2 F2, nth_error (st_fwds G) k2 = Some F2 -> f_dst F2 = f_dst F -> k2 = k).
    { intros k2 F2 HF2 E2. apply (proj1 (NoDup_nth_error (map f_dst (st_fwds G))) W5).
      - rewrite map_length. apply nth_error_Some. congruence.
      - rewrite (map_nth_error f_dst _ _ HF2), (map_nth_error f_dst _ _ EF). congruence. }
    (* a step that changes only forwarder k and, compatibly, the store *)
    assert (Hstep : forall st2 F',
       (forall t2 L2 ro, ro <> RtF k -> (forall q, ro <> RtP q) -> (forall r0, In r0 (refs t2) -> In r0 (root_refs G ro)) ->
          Link (st_store G) t2 L2 -> Link st2 t2 L2) ->
       (forall q Q, nth_error (parents st2) q = Some Q -> Link st2 (p_src Q) (p_items Q)) ->
       (forall sid d2, sid <> f_dst F -> nth_error (streams st2) sid = Some d2 ->
          exists d0, nth_error (streams (st_store G)) sid = Some d0 /\ s_sent d2 = s_sent d0) ->
       f_dst F' = f_dst F ->
       (forall d2, nth_error (streams st2) (f_dst F) = Some d2 -> finv st2 F' d2) ->
       linv (mkState st2 (upd (st_fwds G) k F') (st_handles G))).
    { intros st2 F' Hoth Hpar Hstr HdF HfF. split; [|split]; simpl.
      - intros h2 H2 Hn2 Hlv2. apply (Hoth _ _ (RtH h2)); [discriminate | intros q; discriminate | | eapply L1; eauto].
        intros r0 Hr0. simpl. rewrite Hn2. unfold hrefs. rewrite Hlv2. exact Hr0.
      - exact Hpar.
      - intros k2 F2 d2 HF2 Hd2. destruct (nth_error_upd _ _ _ _ _ _ HF2) as [[-> ->]|[Hne HF20]].
        + apply HfF. rewrite <- HdF. exact Hd2.
        + assert (Hnd : f_dst F2 <> f_dst F) by (intros E2; apply Hne; symmetry; eapply Hdst; eauto).
          destruct (Hstr _ _ Hnd Hd2) as (d0 & Hd0 & Es0).
          eapply (finv_Link_impl (st_store G) st2 F2 F2 d0 d2); eauto.
          intros L0. apply (Hoth _ _ (RtF k2)); [congruence | intros q; discriminate |].
          intros r0 Hr0. simpl. rewrite HF20. exact Hr0. }
    destruct (f_st F) as [|x| |] eqn:Est.
    + (* FRecv *)
      unfold finv in HFinv. rewrite Est in HFinv. destruct HFinv as [HLF HeF].
      destruct (recv fuel (st_store G) (f_src F) ch) as [[[r st1] src1] ch1] eqn:Er.
      apply recv_Recv in Er.
      assert (Hrefs : root_refs G (RtF k) = refs (f_src F)) by (simpl; rewrite EF; reflexivity).
      assert (Hrd : rd_ok (f_src F)) by (destruct HS as (_ & _ & S3); exact (Forall_nth_error _ _ _ _ _ S3 EF)).
      assert (Hopen : forall r0, In r0 (refs (f_src F)) -> ~ rclosed (st_store G) r0).
      { intros r0 Hr0 Hc. destruct (HK (RtF k) r0) as (F0 & HE0 & Hc0); [rewrite Hrefs; exact Hr0 | exact Hc |].
        rewrite EF in HE0. inversion HE0; subst F0. congruence. }
      destruct (linv_recv_gen G (RtF k) _ _ _ _ _ HS HW Hp HK HL ltac:(intros q; discriminate) Hrefs Hrd Hopen HLF Er)
        as (A & B & C).
      destruct (Recv_static _ _ _ _ _ Er) as [SR _].
      assert (Hstr1 : forall sid d2, nth_error (streams st1) sid = Some d2 ->
                 exists d0, nth_error (streams (st_store G)) sid = Some d0 /\ s_sent d2 = s_sent d0).
      { intros sid d2 Hd2. destruct (Forall2_nth_r _ _ _ _ _ _ (proj1 SR) Hd2) as (d0 & Hd0 & (_ & _ & _ & _ & Es)). eauto. }
      assert (Hoth1 : forall t2 L2 ro, ro <> RtF k -> (forall q, ro <> RtP q) -> (forall r0, In r0 (refs t2) -> In r0 (root_refs G ro)) ->
          Link (st_store G) t2 L2 -> Link st1 t2 L2) by (intros; eapply C; eauto).
      destruct r.
      * (* item *)
        inversion H; subst; clear H. apply Hstep; auto.
        -- intros d2 Hd2. destruct (Hstr1 _ _ Hd2) as (d0 & Hd0 & Es0). rewrite Hd in Hd0. inversion Hd0; subst d0.
           unfold finv. simpl. rewrite Es0. split; auto.
      * (* EOF *)
        destruct (nth_error (streams st1) (f_dst F)) as [d1|] eqn:Ed; [|inversion H; subst; auto].
        destruct (stream_close_send d1) as [r0 d'] eqn:Ec. inversion H; subst; clear H.
        destruct (stream_close_send_deliv _ _ _ Ec) as [Ecd Ecs].
        pose proof (logs_eq_set_stream _ _ _ _ Ed Ecd) as Hlog2.
        apply Hstep; auto.
        -- intros. eapply Link_logs_eq; eauto.
        -- intros q Q HQ. eapply Link_logs_eq; eauto.
        -- intros sid d2 Hne Hd2. simpl in Hd2. rewrite nth_error_upd_neq in Hd2 by congruence. apply Hstr1; auto.
        -- intros d2 Hd2. simpl in Hd2. rewrite nth_error_upd_eq in Hd2 by (apply nth_error_Some; congruence).
           inversion Hd2; subst d2. destruct (Hstr1 _ _ Ed) as (d0 & Hd0 & Es0). rewrite Hd in Hd0. inversion Hd0; subst d0.
           unfold finv. simpl. exists []. rewrite app_nil_r. split; auto. rewrite Ecs, Es0. eapply Link_logs_eq; eauto.
      * inversion H; subst; clear H. apply Hstep; auto.
        -- intros d2 Hd2. destruct (Hstr1 _ _ Hd2) as (d0 & Hd0 & Es0). rewrite Hd in Hd0. inversion Hd0; subst d0.
           unfold finv. simpl. rewrite Es0. split; auto.
      * inversion H; subst; clear H. apply Hstep; auto.
        -- intros d2 Hd2. destruct (Hstr1 _ _ Hd2) as (d0 & Hd0 & Es0). rewrite Hd in Hd0. inversion Hd0; subst d0.
           unfold finv. simpl. rewrite Es0. split; auto.
      * inversion H; subst; clear H. apply Hstep; auto.
        -- intros d2 Hd2. destruct (Hstr1 _ _ Hd2) as (d0 & Hd0 & Es0). rewrite Hd in Hd0. inversion Hd0; subst d0.
           unfold finv. simpl. rewrite Es0. split; auto.
    + (* FSend *)
      unfold finv in HFinv. rewrite Est in HFinv. destruct HFinv as [HLF HeF].
      rewrite Hd in H.
      assert (Hset : forall d', s_deliv d' = s_deliv d ->
                (forall d2, nth_error (streams (set_stream (st_store G) (f_dst F) d')) (f_dst F) = Some d2 -> d2 = d')
                /\ logs_eq (st_store G) (set_stream (st_store G) (f_dst F) d')).
      { intros d' Ed'. split.
        - intros d2 Hd2. simpl in Hd2. rewrite nth_error_upd_eq in Hd2 by (apply nth_error_Some; congruence). congruence.
        - eapply logs_eq_set_stream; eauto. }
      assert (Hstep' : forall d' F', s_deliv d' = s_deliv d -> f_dst F' = f_dst F ->
                finv (set_stream (st_store G) (f_dst F) d') F' d' ->
                linv (mkState (set_stream (st_store G) (f_dst F) d') (upd (st_fwds G) k F') (st_handles G))).
      { intros d' F' Ed' EdF HfF. destruct (Hset d' Ed') as [Hu Hlog]. apply Hstep; auto.
        - intros. eapply Link_logs_eq; eauto.
        - intros q Q HQ. eapply Link_logs_eq; eauto.
        - intros sid d2 Hne Hd2. simpl in Hd2. rewrite nth_error_upd_neq in Hd2 by congruence. eauto.
        - intros d2 Hd2. rewrite (Hu _ Hd2). exact HfF. }
      destruct (stream_send d x) as [r d'] eqn:Es.
      destruct r; try (inversion H; subst; auto; fail).
      * inversion H; subst; clear H. apply Hstep'; auto.
        -- eapply stream_send_deliv; eauto.
        -- unfold finv. simpl. destruct (stream_send_sent _ _ _ _ Es) as [[_ E1]|[E1 _]]; [|congruence].
           rewrite E1. split; auto. eapply Link_logs_eq; eauto. apply (Hset d'). eapply stream_send_deliv; eauto.
      * destruct (stream_close_send d) as [r0 d''] eqn:Ec. inversion H; subst; clear H.
        destruct (stream_close_send_deliv _ _ _ Ec) as [Ecd Ecs].
        apply Hstep'; auto.
        unfold finv. simpl. exists [x]. rewrite Ecs. split; [|intros; congruence].
        eapply Link_logs_eq; eauto. apply (Hset d''). exact Ecd.
    + (* FClosing *)
      destruct (close_rd fuel (st_store G) (f_src F)) as [r st1] eqn:Er.
      inversion H; subst; clear H. apply close_Close in Er. pose proof (Close_static _ _ _ _ Er) as SR.
      pose proof (logs_eq_cstore_rel _ _ SR) as Hlog.
      assert (Hstr1 : forall sid d2, nth_error (streams st1) sid = Some d2 ->
                 exists d0, nth_error (streams (st_store G)) sid = Some d0 /\ s_sent d2 = s_sent d0).
      { intros sid d2 Hd2. destruct (Forall2_nth_r _ _ _ _ _ _ (proj1 SR) Hd2) as (d0 & Hd0 & (_ & _ & _ & _ & Es & _)). eauto. }
      apply Hstep; auto.
      * intros. eapply Link_logs_eq; eauto.
      * intros q Q' HQ'. destruct (Forall2_nth_r _ _ _ _ _ _ (proj2 SR) HQ') as (Q & HQ & (E1 & E2 & _)).
        rewrite E1, E2. eapply Link_logs_eq; eauto.
      * intros d2 Hd2. destruct (Hstr1 _ _ Hd2) as (d0 & Hd0 & Es0). rewrite Hd in Hd0. inversion Hd0; subst d0.
        unfold finv in *. simpl. rewrite Est in HFinv. destruct HFinv as (dr & A & B). exists dr. rewrite Es0. split; auto.
        eapply Link_logs_eq; eauto.
    + inversion H; subst; auto.
Qed.

(* ------------------------------------------------------------------ the combined invariant over runs *)

Definition Inv (G : state) : Prop :=
  state_ok G /\ wf G /\ pcnt (st_store G) /\ kinv G /\ linv G.

Lemma init_linv : linv init_state.
Proof.
  split; [|split]; simpl.
  - intros h H Hn. destruct h; discriminate.
  - intros q Q Hn. destruct q; discriminate.
  - intros k F d Hn. destruct k; discriminate.
Qed.

Lemma init_Inv : Inv init_state.
Proof. repeat split; try apply init_ok; try apply init_wf; try apply init_pcnt; try apply init_kinv; apply init_linv. Qed.

Lemma do_op_Inv : forall fuel G o b G', do_op fuel G o = (b, G') -> op_legal G o -> Inv G -> Inv G'.
Proof.
  intros fuel G o b G' H Hpre (I1 & I2 & I3 & I4 & I5).
  split; [eapply do_op_ok; eauto|]. split; [eapply do_op_wf; eauto|]. split; [eapply do_op_pcnt; eauto|].
  split; [eapply do_op_kinv; eauto; apply op_legal_unclosed; exact Hpre|]. eapply do_op_linv; eauto.
Qed.

Lemma run_Inv : forall fuel ops G bs G',
  run fuel G ops = (bs, G') -> run_pre op_legal fuel G ops -> Inv G -> Inv G'.
Proof.
  intros fuel. induction ops as [|o r IH]; intros G bs G' H Hpre HI; simpl in H.
  - inversion H; subst; auto.
  - destruct (do_op fuel G o) as [b G1] eqn:E1. destruct (run fuel G1 r) as [bs2 G2] eqn:E2.
    inversion H; subst. simpl in Hpre. destruct Hpre as [Hpo Hpr]. rewrite E1 in Hpr. simpl in Hpr.
    eapply IH; eauto. eapply do_op_Inv; eauto.
Qed.
