(* Proofs/SerTop.v — the statements of Props/C12.v, assembled from Proofs/Ser.v and
   Proofs/SerLoud.v, and the machine-checked witnesses for the behaviour before the
   repairs F-C12a / F-C12b and for the unrepaired finding F-C12c. *)
From Coq Require Import List Bool Arith NArith ZArith String Ascii Lia.
From Eino Require Import Base.Util Base.Universe Model.Ser Model.SerCheckpoint Proofs.Ser Proofs.SerLoud.
Import ListNotations.
Local Open Scope bool_scope.

(* supported value => the encoder succeeds and the decoder returns an equivalent value *)
Lemma supported_roundtrips_lemma :
  forall (J JK : Type) (jenc : base -> lit -> res J) (jdec : base -> J -> res lit)
         (kenc : base -> lit -> res JK) (kdec : base -> JK -> res lit) (reg : registry) (env : senv),
    (forall b l j, lit_in_base b l = true -> jsafe l = true -> jenc b l = Ok j -> jdec b j = Ok l) ->
    (forall b l j, lit_in_base b l = true -> jsafe l = true -> kenc b l = Ok j -> kdec b j = Ok l) ->
    NoDup (map fst reg) ->
    (forall n ds, struct_fields env n = Some ds -> NoDup (map fst ds)) ->
    forall v,
      wt env v = true -> is_iface (ty_of v) = false -> safe v ->
      registered reg v -> encodable J JK jenc kenc v ->
      exists oi v', marshal J JK jenc kenc fixed reg v = Ok oi /\
                    unmarshal J JK jdec kdec fixed reg env oi = Ok v' /\
                    v' ≅ v /\ dyn_ty v' = dyn_ty v.
Proof.
  intros J JK jenc jdec kenc kdec reg env jrt krt Hreg Henv v Hwt Hi Hs Hr He.
  destruct (enc_succeeds_all J JK jenc kenc reg env v Hwt Hr He 0%nat) as [oi Hoi].
  { intro Hc. congruence. }
  destruct (enc_dec_roundtrip_lemma J JK jenc jdec kenc kdec reg env jrt krt Hreg Henv v oi Hwt Hi Hs Hoi)
    as [v' [Hd [Hv Ht]]].
  exists oi, v'. auto.
Qed.

(* the instance of the model the correspondence check runs *)
Lemma roundtrip_instance_lemma : forall reg env v oi,
  str_nodup (map fst reg) = true -> env_names_ok env = true ->
  wt env v = true -> is_iface (ty_of v) = false -> safe v ->
  enc_c fixed reg v = Ok oi ->
  exists v', dec_c fixed reg env oi = Ok v' /\ v' ≅ v /\ dyn_ty v' = dyn_ty v.
Proof.
  intros reg env v oi Hreg Henv Hwt Hi Hs H.
  eapply (enc_dec_roundtrip_lemma lit lit jenc_c jdec_c kenc_c kdec_c reg env jrt_c krt_c); eauto.
  - now apply str_nodup_ok.
  - now apply env_names_ok_spec.
Qed.

(* checkpoints: the registry compose builds (built-in + checkpoint types + user types) *)
(* [ckpt_reg ureg] / [ckpt_senv uenv] (Model/SerCheckpoint.v): what the correspondence check runs with *)

Lemma checkpoint_roundtrip_lemma :
  forall (J JK : Type) (jenc : base -> lit -> res J) (jdec : base -> J -> res lit)
         (kenc : base -> lit -> res JK) (kdec : base -> JK -> res lit) (ureg : registry) (uenv : senv),
    (forall b l j, lit_in_base b l = true -> jsafe l = true -> jenc b l = Ok j -> jdec b j = Ok l) ->
    (forall b l j, lit_in_base b l = true -> jsafe l = true -> kenc b l = Ok j -> kdec b j = Ok l) ->
    NoDup (map fst (ckpt_reg ureg)) ->
    (forall n ds, struct_fields (ckpt_senv uenv) n = Some ds -> NoDup (map fst ds)) ->
    forall cp oi,
      has_type (ckpt_senv uenv) cp t_checkpoint_ptr = true -> safe cp ->
      marshal J JK jenc kenc fixed (ckpt_reg ureg) cp = Ok oi ->
      exists cp', unmarshal J JK jdec kdec fixed (ckpt_reg ureg) (ckpt_senv uenv) oi = Ok cp' /\
                  cp' ≅ cp /\ ty_of cp' = t_checkpoint_ptr.
Proof.
  intros J JK jenc jdec kenc kdec ureg uenv jrt krt Hreg Henv cp oi Ht Hs H.
  unfold has_type in Ht. apply andb_true_iff in Ht. destruct Ht as [Hwt Hty]. apply ty_eqb_eq in Hty.
  assert (Hi : is_iface (ty_of cp) = false) by (rewrite Hty; reflexivity).
  destruct (enc_dec_roundtrip_lemma J JK jenc jdec kenc kdec _ _ jrt krt Hreg Henv cp oi Hwt Hi Hs H)
    as [cp' [Hd [Hv Hdt]]].
  exists cp'. split; [exact Hd|]. split; [exact Hv|].
  rewrite <- Hty. now apply veq_ty_of.
Qed.

(* ------------------------------------------------------------------ refutations *)
Definition rt_statement (fx : fixes) : Prop :=
  forall reg env v oi,
    str_nodup (map fst reg) = true -> env_names_ok env = true ->
    wt env v = true -> is_iface (ty_of v) = false -> safe v ->
    enc_c fx reg v = Ok oi ->
    exists v', dec_c fx reg env oi = Ok v' /\ v' ≅ v /\ dyn_ty v' = dyn_ty v.

Lemma rt_statement_fixed : rt_statement fixed.
Proof. unfold rt_statement. intros. eapply roundtrip_instance_lemma; eauto. Qed.

(* F-C12a: an interface holding a pointer to []string came back holding []string *)
Definition w_a : val := VPtr (VSlice (TBase BString) (Some [VBase BString (LStr "x")])).
(* F-C12a: a struct field of type pointer-to-map, non-nil: reflect.Set panicked *)
Definition w_a_env : senv := [(0%N, [("F"%string, TPtr (TMap (TBase BString) (TBase BInt)))])].
Definition w_a_reg : registry := (builtin_registry ++ [("s0"%string, TStruct 0)])%list.
Definition w_a2 : val :=
  VStruct 0 [("F"%string, VPtr (VMap (TBase BString) (TBase BInt)
                                  (Some [(VBase BString (LStr "a"), VBase BInt (LInt 1))])))].
(* F-C12b: pointer to pointer to int, outer non-nil, inner nil: came back as nil outer *)
Definition w_b : val := VPtr (VNilPtr (TBase BInt)).
(* F-C12b: nil pointer-to-pointer-to-int came back typed pointer-to-int *)
Definition w_b2 : val := VNilPtr (TPtr (TBase BInt)).

Ltac safe_tac := unfold safe; simpl; repeat constructor.

Lemma rt_v0_refuted_a : ~ rt_statement v0.
Proof.
  intro H. destruct (H builtin_registry [] w_a _ eq_refl eq_refl eq_refl eq_refl ltac:(safe_tac) eq_refl)
    as [v' [Hd [_ Ht]]].
  vm_compute in Hd. inversion Hd; subst. discriminate Ht.
Qed.
Lemma dec_v0_panics_a :
  wt w_a_env w_a2 = true /\ safe w_a2 /\
  exists oi, enc_c v0 w_a_reg w_a2 = Ok oi /\ dec_c v0 w_a_reg w_a_env oi = Panic.
Proof. split; [reflexivity|]. split; [safe_tac|]. eexists. split; reflexivity. Qed.
Lemma rt_v0_refuted_b : ~ rt_statement v0.
Proof.
  intro H. destruct (H builtin_registry [] w_b _ eq_refl eq_refl eq_refl eq_refl ltac:(safe_tac) eq_refl)
    as [v' [Hd [Hv _]]].
  vm_compute in Hd. inversion Hd; subst. inversion Hv.
Qed.
Lemma rt_v0_refuted_b2 : ~ rt_statement v0.
Proof.
  intro H. destruct (H builtin_registry [] w_b2 _ eq_refl eq_refl eq_refl eq_refl ltac:(safe_tac) eq_refl)
    as [v' [Hd [_ Ht]]].
  vm_compute in Hd. inversion Hd; subst. discriminate Ht.
Qed.
(* the current model is correct on the four witnesses *)
Lemma witnesses_fixed :
  dec_c fixed builtin_registry [] (match enc_c fixed builtin_registry w_a with Ok oi => oi | _ => None end) = Ok w_a /\
  (exists oi, enc_c fixed w_a_reg w_a2 = Ok oi /\ dec_c fixed w_a_reg w_a_env oi = Ok w_a2) /\
  dec_c fixed builtin_registry [] (match enc_c fixed builtin_registry w_b with Ok oi => oi | _ => None end) = Ok w_b /\
  dec_c fixed builtin_registry [] (match enc_c fixed builtin_registry w_b2 with Ok oi => oi | _ => None end) = Ok w_b2.
Proof. split; [reflexivity|]. split; [eexists; split; reflexivity|]. split; reflexivity. Qed.

(* F-C12c (known, not repaired): without [safe] the statement is false — a string value
   with invalid UTF-8 is accepted and comes back with U+FFFD substituted *)
Definition w_c : val := VBase BString (LStr (sb [97; 255; 98]%N)).
Lemma invalid_utf8_refuted :
  wt [] w_c = true /\ ~ safe w_c /\
  exists oi v', enc_c fixed builtin_registry w_c = Ok oi /\
                dec_c fixed builtin_registry [] oi = Ok v' /\ ~ (v' ≅ w_c).
Proof.
  split; [reflexivity|]. split.
  - intro H. inversion H as [|? ? Hj _]; subst. vm_compute in Hj. discriminate Hj.
  - eexists. eexists. split; [reflexivity|]. split; [vm_compute; reflexivity|].
    intro Hv. inversion Hv.
Qed.
