(* Proofs/SerTop.v — the statements of Props/C12.v, assembled from Proofs/Ser.v and
   Proofs/SerLoud.v, and the machine-checked witnesses for the behaviour before the
   repairs F-C12a / F-C12b and for the unrepaired finding F-C12c. *)
From Coq Require Import List Bool Arith NArith ZArith String Ascii Lia.
From Eino Require Import Base.Util Base.Universe Model.Ser Model.SerCheckpoint Proofs.Ser Proofs.SerLoud.
Import ListNotations.
Local Open Scope bool_scope.

(* every defined container type of the value registered => those at interface positions are *)
Lemma def_ty_in_defs : forall v t, In t (def_ty v) -> In t (defs_of v).
Proof. destruct v; simpl; try contradiction. intros t [<-|[]]. now left. Qed.
Lemma boxed_in_defs : forall v t, In t (boxed_defs v) -> In t (defs_of v).
Proof.
  induction v using val_ind'; simpl; intros t0 Hin; try contradiction.
  - apply in_flat_map in Hin. destruct Hin as [fv [Hfv Hin]]. apply in_flat_map. exists fv. split; [exact Hfv|].
    rewrite Forall_forall in H. now apply H.
  - now apply IHv.
  - apply in_flat_map in Hin. destruct Hin as [e [He Hin]]. apply in_flat_map. exists e. split; [exact He|].
    rewrite Forall_forall in H. now apply H.
  - apply in_flat_map in Hin. destruct Hin as [kv [Hkv Hin]]. apply in_flat_map. exists kv. split; [exact Hkv|].
    rewrite Forall_forall in H. destruct (H _ Hkv) as [Ha Hb].
    apply in_app_or in Hin. apply in_or_app. destruct Hin as [Hin|Hin]; [left; now apply Ha | right; now apply Hb].
  - apply in_app_or in Hin. destruct Hin as [Hin|Hin]; [now apply def_ty_in_defs | now apply IHv].
  - apply in_flat_map in Hin. destruct Hin as [e [He Hin]]. apply in_flat_map. exists e. split; [exact He|].
    rewrite Forall_forall in H. now apply H.
  - right. now apply IHv.
Qed.
Lemma defs_registered_ok : forall reg v, defs_registered reg v -> defs_ok reg v.
Proof.
  intros reg v H. unfold defs_registered, defs_ok in *. rewrite Forall_forall in *. intros t Hin.
  apply H. apply in_app_or in Hin. destruct Hin; [now apply def_ty_in_defs | now apply boxed_in_defs].
Qed.

(* supported value => the encoder succeeds and the decoder returns an equivalent value *)
Lemma supported_roundtrips_lemma :
  forall (J JK : Type) (jenc : base -> lit -> res J) (jdec : base -> J -> res lit)
         (kenc : base -> lit -> res JK) (kdec : base -> JK -> res lit) (reg : registry) (env : senv),
    (forall b l j, lit_in_base b l = true -> jsafe l = true -> jenc b l = Ok j -> jdec b j = Ok l) ->
    (forall b l j, lit_in_base b l = true -> jsafe l = true -> kenc b l = Ok j -> kdec b j = Ok l) ->
    NoDup (map fst reg) ->
    (forall n ds, struct_fields env n = Some ds -> NoDup (map fst ds)) ->
    forall v,
      wt env v = true -> is_iface (ty_of v) = false -> safe v ->
      registered reg v -> defs_registered reg v -> encodable J JK jenc kenc v ->
      exists oi v', marshal J JK jenc kenc fixed reg v = Ok oi /\
                    unmarshal J JK jdec kdec fixed reg env oi = Ok v' /\
                    v' ≅ v /\ dyn_ty v' = dyn_ty v.
Proof.
  intros J JK jenc jdec kenc kdec reg env jrt krt Hreg Henv v Hwt Hi Hs Hr Hdr He.
  destruct (enc_succeeds_all J JK jenc kenc reg env v Hwt Hr He Hdr 0%nat) as [oi Hoi].
  { intro Hc. congruence. }
  destruct (enc_dec_roundtrip_lemma J JK jenc jdec kenc kdec reg env jrt krt Hreg Henv v oi Hwt Hi Hs
              (defs_registered_ok _ _ Hdr) Hoi)
    as [v' [Hd [Hv Ht]]].
  exists oi, v'. auto.
Qed.

(* the instance of the model the correspondence check runs *)
Lemma roundtrip_instance_lemma : forall reg env v oi,
  str_nodup (map fst reg) = true -> env_names_ok env = true ->
  wt env v = true -> is_iface (ty_of v) = false -> safe v -> defs_ok reg v ->
  enc_c fixed reg v = Ok oi ->
  exists v', dec_c fixed reg env oi = Ok v' /\ v' ≅ v /\ dyn_ty v' = dyn_ty v.
Proof.
  intros reg env v oi Hreg Henv Hwt Hi Hs Hdo H.
  eapply (enc_dec_roundtrip_lemma lit lit jenc_c jdec_c kenc_c kdec_c reg env jrt_c krt_c); eauto.
  - now apply str_nodup_ok.
  - now apply env_names_ok_spec.
Qed.

(* checkpoints: the registry compose builds (built-in + checkpoint types + user types) *)
(* [ckpt_reg ureg] / [ckpt_senv uenv] (Model/SerCheckpoint.v): what the correspondence check runs with *)

Lemma checkpoint_roundtrip_lemma :
  forall (J JK : Type) (jenc : base -> lit -> res J) (jdec : base -> J -> res lit)
         (kenc : base -> lit -> res JK) (kdec : base -> JK -> res lit) (ureg : registry) (uenv : senv),
    (forall b l j, lit_in_base b l = true -> jsafe l = true -> jenc b l = Ok j -> jdec b j = Ok l) ->
    (forall b l j, lit_in_base b l = true -> jsafe l = true -> kenc b l = Ok j -> kdec b j = Ok l) ->
    NoDup (map fst (ckpt_reg ureg)) ->
    (forall n ds, struct_fields (ckpt_senv uenv) n = Some ds -> NoDup (map fst ds)) ->
    forall cp oi,
      has_type (ckpt_senv uenv) cp t_checkpoint_ptr = true -> safe cp -> defs_ok (ckpt_reg ureg) cp ->
      marshal J JK jenc kenc fixed (ckpt_reg ureg) cp = Ok oi ->
      exists cp', unmarshal J JK jdec kdec fixed (ckpt_reg ureg) (ckpt_senv uenv) oi = Ok cp' /\
                  cp' ≅ cp /\ ty_of cp' = t_checkpoint_ptr.
Proof.
  intros J JK jenc jdec kenc kdec ureg uenv jrt krt Hreg Henv cp oi Ht Hs Hdo H.
  unfold has_type in Ht. apply andb_true_iff in Ht. destruct Ht as [Hwt Hty]. apply ty_eqb_eq in Hty.
  assert (Hi : is_iface (ty_of cp) = false) by (rewrite Hty; reflexivity).
  destruct (enc_dec_roundtrip_lemma J JK jenc jdec kenc kdec _ _ jrt krt Hreg Henv cp oi Hwt Hi Hs Hdo H)
    as [cp' [Hd [Hv Hdt]]].
  exists cp'. split; [exact Hd|]. split; [exact Hv|].
  rewrite <- Hty. now apply veq_ty_of.
Qed.

(* ------------------------------------------------------------------ refutations *)
Definition rt_statement (fx : fixes) : Prop :=
  forall reg env v oi,
    str_nodup (map fst reg) = true -> env_names_ok env = true ->
    wt env v = true -> is_iface (ty_of v) = false -> safe v -> defs_ok reg v ->
    enc_c fx reg v = Ok oi ->
    exists v', dec_c fx reg env oi = Ok v' /\ v' ≅ v /\ dyn_ty v' = dyn_ty v.

Lemma rt_statement_fixed : rt_statement fixed.
Proof. unfold rt_statement. intros. eapply roundtrip_instance_lemma; eauto. Qed.

(* F-C12a: an interface holding a pointer to []string came back holding []string *)
Definition w_a : val := VPtr (VSlice (TBase BString) (Some [VBase BString (LStr "x")])).
(* F-C12a: a struct field of type pointer-to-map, non-nil: reflect.Set panicked *)
Definition w_a_env : senv := [(0%N, [("F"%string, TPtr (TMap (TBase BString) (TBase BInt)))])].
Definition w_a_reg : registry := (builtin_registry ++ [("s0"%string, TStruct 0)])%list.
Definition w_a2 : val :=
  VStruct 0 [("F"%string, VPtr (VMap (TBase BString) (TBase BInt)
                                  (Some [(VBase BString (LStr "a"), VBase BInt (LInt 1))])))].
(* F-C12b: pointer to pointer to int, outer non-nil, inner nil: came back as nil outer *)
Definition w_b : val := VPtr (VNilPtr (TBase BInt)).
(* F-C12b: nil pointer-to-pointer-to-int came back typed pointer-to-int *)
Definition w_b2 : val := VNilPtr (TPtr (TBase BInt)).

Ltac safe_tac := unfold safe, defs_ok; simpl; repeat constructor.

Lemma rt_v0_refuted_a : ~ rt_statement v0.
Proof.
  intro H. destruct (H builtin_registry [] w_a _ eq_refl eq_refl eq_refl eq_refl ltac:(safe_tac) ltac:(safe_tac) eq_refl)
    as [v' [Hd [_ Ht]]].
  vm_compute in Hd. inversion Hd; subst. discriminate Ht.
Qed.
Lemma dec_v0_panics_a :
  wt w_a_env w_a2 = true /\ safe w_a2 /\
  exists oi, enc_c v0 w_a_reg w_a2 = Ok oi /\ dec_c v0 w_a_reg w_a_env oi = Panic.
Proof. split; [reflexivity|]. split; [safe_tac|]. eexists. split; reflexivity. Qed.
Lemma rt_v0_refuted_b : ~ rt_statement v0.
Proof.
  intro H. destruct (H builtin_registry [] w_b _ eq_refl eq_refl eq_refl eq_refl ltac:(safe_tac) ltac:(safe_tac) eq_refl)
    as [v' [Hd [Hv _]]].
  vm_compute in Hd. inversion Hd; subst. inversion Hv.
Qed.
Lemma rt_v0_refuted_b2 : ~ rt_statement v0.
Proof.
  intro H. destruct (H builtin_registry [] w_b2 _ eq_refl eq_refl eq_refl eq_refl ltac:(safe_tac) ltac:(safe_tac) eq_refl)
    as [v' [Hd [_ Ht]]].
  vm_compute in Hd. inversion Hd; subst. discriminate Ht.
Qed.
(* the current model is correct on the four witnesses *)
Lemma witnesses_fixed :
  dec_c fixed builtin_registry [] (match enc_c fixed builtin_registry w_a with Ok oi => oi | _ => None end) = Ok w_a /\
  (exists oi, enc_c fixed w_a_reg w_a2 = Ok oi /\ dec_c fixed w_a_reg w_a_env oi = Ok w_a2) /\
  dec_c fixed builtin_registry [] (match enc_c fixed builtin_registry w_b with Ok oi => oi | _ => None end) = Ok w_b /\
  dec_c fixed builtin_registry [] (match enc_c fixed builtin_registry w_b2 with Ok oi => oi | _ => None end) = Ok w_b2.
Proof. split; [reflexivity|]. split; [eexists; split; reflexivity|]. split; reflexivity. Qed.

(* F-C12c (known, not repaired): without [safe] the statement is false — a string value
   with invalid UTF-8 is accepted and comes back with U+FFFD substituted *)
Definition w_c : val := VBase BString (LStr (sb [97; 255; 98]%N)).
Lemma invalid_utf8_refuted :
  wt [] w_c = true /\ ~ safe w_c /\
  exists oi v', enc_c fixed builtin_registry w_c = Ok oi /\
                dec_c fixed builtin_registry [] oi = Ok v' /\ ~ (v' ≅ w_c).
Proof.
  split; [reflexivity|]. split.
  - intro H. inversion H as [|? ? Hj _]; subst. vm_compute in Hj. discriminate Hj.
  - eexists. eexists. split; [reflexivity|]. split; [vm_compute; reflexivity|].
    intro Hv. inversion Hv.
Qed.

(* ------------------------------------------------------------------ round 2 repairs *)
Definition without_e : fixes := {| fix_a := true; fix_b := true; fix_e := false; fix_f := true; fix_i := true |}.
Definition without_f : fixes := {| fix_a := true; fix_b := true; fix_e := true; fix_f := false; fix_i := true |}.
Definition without_i : fixes := {| fix_a := true; fix_b := true; fix_e := true; fix_f := true; fix_i := false |}.

Definition t_int := TBase BInt.
Definition vint (z : Z) : val := VBase BInt (LInt z).
(* F-C12e: a struct field of array type: reflect.Set of the rebuilt slice panicked; an
   array passed to Marshal came back as a slice *)
Definition w_e_env : senv := [(0%N, [("F"%string, TArray 2 t_int)])].
Definition w_e : val := VStruct 0 [("F"%string, VArray t_int [vint 1; vint 2])].
Definition w_e2 : val := VArray t_int [vint 1; vint 2].
(* F-C12f: a value of a registered defined slice type came back as the unnamed slice type *)
Definition w_f_reg : registry := (builtin_registry ++ [("nsl"%string, TDef 1 (TSlice t_int))])%list.
Definition w_f : val := VDef 1 (VSlice t_int (Some [vint 1])).
(* F-C12i: a non-nil pointer to an unregistered defined map type in a struct field *)
Definition t_umap := TMap (TBase BString) t_int.
Definition w_i_env : senv := [(0%N, [("F"%string, TPtr (TDef 2 t_umap))])].
Definition w_i : val :=
  VStruct 0 [("F"%string, VPtr (VDef 2 (VMap (TBase BString) t_int (Some [(VBase BString (LStr "a"), vint 1)]))))].
(* F-C12g (known): an unregistered defined slice type at top level / in an interface *)
Definition w_g : val := VDef 2 (VSlice (TBase BString) (Some [VBase BString (LStr "u")])).
Definition w_g2 : val := VSlice TAny (Some [VIface TAny (Some w_g)]).

Lemma array_field_panicked_before_e :
  wt w_e_env w_e = true /\ safe w_e /\ defs_ok w_a_reg w_e /\
  (exists oi, enc_c without_e w_a_reg w_e = Ok oi /\ dec_c without_e w_a_reg w_e_env oi = Panic) /\
  (exists oi, enc_c fixed w_a_reg w_e = Ok oi /\ dec_c fixed w_a_reg w_e_env oi = Ok w_e).
Proof.
  split; [reflexivity|]. split; [safe_tac|]. split; [safe_tac|].
  split; eexists; split; reflexivity.
Qed.
Lemma array_retyped_before_e :
  wt [] w_e2 = true /\
  (exists oi v', enc_c without_e builtin_registry w_e2 = Ok oi /\
                 dec_c without_e builtin_registry [] oi = Ok v' /\ dyn_ty v' <> dyn_ty w_e2) /\
  (exists oi, enc_c fixed builtin_registry w_e2 = Ok oi /\ dec_c fixed builtin_registry [] oi = Ok w_e2).
Proof.
  split; [reflexivity|]. split.
  - eexists. eexists. split; [reflexivity|]. split; [reflexivity|]. discriminate.
  - eexists. split; reflexivity.
Qed.
Lemma defined_container_retyped_before_f :
  wt [] w_f = true /\ defs_ok w_f_reg w_f /\
  (exists oi v', enc_c without_f w_f_reg w_f = Ok oi /\
                 dec_c without_f w_f_reg [] oi = Ok v' /\ dyn_ty v' <> dyn_ty w_f) /\
  (exists oi, enc_c fixed w_f_reg w_f = Ok oi /\ dec_c fixed w_f_reg [] oi = Ok w_f).
Proof.
  split; [reflexivity|]. split.
  - unfold defs_ok, known. simpl. repeat constructor. discriminate.
  - split.
    + eexists. eexists. split; [reflexivity|]. split; [reflexivity|]. discriminate.
    + eexists. split; reflexivity.
Qed.
Lemma ptr_to_unregistered_def_panicked_before_i :
  wt w_i_env w_i = true /\ safe w_i /\ defs_ok w_a_reg w_i /\
  (exists oi, enc_c without_i w_a_reg w_i = Ok oi /\ dec_c without_i w_a_reg w_i_env oi = Panic) /\
  enc_c fixed w_a_reg w_i = Err E_UNKNOWN_TYPE.
Proof.
  split; [reflexivity|]. split; [safe_tac|]. split; [safe_tac|].
  split; [eexists; split; reflexivity | reflexivity].
Qed.
(* F-C12g: the hypothesis [defs_ok] cannot be dropped *)
Lemma unregistered_def_refuted :
  wt [] w_g = true /\ safe w_g /\ ~ defs_ok builtin_registry w_g /\
  (exists oi v', enc_c fixed builtin_registry w_g = Ok oi /\
                 dec_c fixed builtin_registry [] oi = Ok v' /\ dyn_ty v' <> dyn_ty w_g) /\
  wt [] w_g2 = true /\ safe w_g2 /\ ~ defs_ok builtin_registry w_g2 /\
  (exists oi v', enc_c fixed builtin_registry w_g2 = Ok oi /\
                 dec_c fixed builtin_registry [] oi = Ok v' /\ ~ v' ≅ w_g2).
Proof.
  split; [reflexivity|]. split; [safe_tac|]. split.
  { intro H. unfold defs_ok, known in H. simpl in H. inversion H as [|? ? H1 _]; subst. now apply H1. }
  split.
  { eexists. eexists. split; [reflexivity|]. split; [reflexivity|]. discriminate. }
  split; [reflexivity|]. split; [safe_tac|]. split.
  { intro H. unfold defs_ok, known in H. simpl in H. inversion H as [|? ? H1 _]; subst. now apply H1. }
  eexists. eexists. split; [reflexivity|]. split; [reflexivity|].
  intro Hv. inversion Hv as [| | | | |? ? ? HF| | | | |]; subst. simpl in HF.
  inversion HF as [|? ? ? ? Hx _]; subst. inversion Hx as [| | | | | | | |? ? ? Hy| |]; subst. inversion Hy.
Qed.
