(* Proofs/ErrorsGuard.v — property C13, part 8: panics inside streams are contained END TO END by
   the stream forwarders and the copies.

   [no_panic_escapes] (ErrorsFwd.v) excludes every stream whose own convert function panics.
   Here they are allowed wherever the engine puts the stream behind a forwarding goroutine or a
   copy before anybody outside a task reads it: a node may hand back a self-panicking stream when
   its stage has two or more nodes (their outputs are merged: toStream forwarders) or the next
   stage has two or more nodes (the output is copied: the shared element records the panic,
   F-C13d), and no branch condition reads the stage's output on the run loop.  Under that
   (decidable) condition on the forest, and when no node asks for an interrupt (converting an
   interrupt's checkpoint reads the finished siblings' streams on the run loop's goroutine), no
   panic reaches the caller in any paradigm: every such panic is an error item / the error of
   the run. *)
From Eino Require Import Base.Util Model.Errors Proofs.Errors Proofs.ErrorsRun Proofs.ErrorsFwd Proofs.ErrorsOrigin.

(* ------------------------------------------------------------------ nobody asks for an interrupt *)

Definition plain_err (e : err) : bool := negb (is_interrupt_task e).
Definition plain_behav (b : behav) : bool :=
  match b with BRerun => false | BFail e | BItem e | BPreFail e | BPostFail e => plain_err e | _ => true end.
Definition plain_tool (t : tool) : bool := match t with TFail e => plain_err e | _ => true end.
Definition plain_node (n : node) : bool :=
  match n with
  | NLam _ _ b => plain_behav b
  | NSub _ _ => true
  | NTools _ ts => forallb plain_tool ts
  end.
Definition plain_br (b : brb) : bool := match b with BrFail e => plain_err e | _ => true end.
Definition plain_stages (sts : list (list node)) : bool := forallb (forallb plain_node) sts.
Definition plain_graph (g : graph) : bool := plain_stages (g_stages g) && plain_br (g_br g).
Definition plain_item (it : item) : bool := match it with IErr e => plain_err e | ILazy _ => true end.
Definition plain_items (its : list item) : bool := forallb plain_item its.

Definition quiet_errs (es : list err) : Prop := forall e, In e es -> is_interrupt_task e = false.

Lemma plain_err_false : forall e, plain_err e = true -> is_interrupt_task e = false.
Proof. intros e H. unfold plain_err in H. apply negb_true_iff in H. exact H. Qed.

Lemma panic_err_quiet : forall i, is_interrupt_task (PanicErr i) = false.
Proof. reflexivity. Qed.

Lemma plain_items_app : forall a b, plain_items (a ++ b) = plain_items a && plain_items b.
Proof. intros. unfold plain_items. apply forallb_app. Qed.

Lemma plain_items_In : forall its e, plain_items its = true -> In (IErr e) its -> is_interrupt_task e = false.
Proof.
  intros its e H Hin. unfold plain_items in H. rewrite forallb_forall in H.
  specialize (H _ Hin). apply plain_err_false. exact H.
Qed.

Lemma forwarded_plain : forall it, plain_item it = true -> plain_item (forwarded it) = true.
Proof. intros [e|i] H; [exact H|reflexivity]. Qed.

Lemma map_forwarded_plain : forall its, plain_items its = true -> plain_items (map forwarded its) = true.
Proof.
  induction its as [|it its IH]; intros H; [reflexivity|].
  cbn [plain_items forallb map] in *. apply andb_true_iff in H. destruct H as [H1 H2].
  rewrite (forwarded_plain _ H1). apply IH. exact H2.
Qed.

Lemma fanout_plain : forall n its, plain_items its = true -> plain_items (fanout n its) = true.
Proof. intros n its H. destruct n as [|[|n]]; cbn [fanout]; auto. apply map_forwarded_plain. exact H. Qed.

Lemma fanin_plain : forall m its, plain_items its = true -> plain_items (fanin m its) = true.
Proof. intros m its H. destruct m as [|[|m]]; cbn [fanin]; auto. apply map_forwarded_plain. exact H. Qed.

(* every origin of a leaf's failure is quiet *)
Lemma origins_quiet : forall items n u,
  plain_items items = true -> plain_node n = true -> In u (origins items n) -> is_interrupt_task u = false.
Proof.
  intros items n u Hit Hn Hin. unfold origins in Hin. apply in_app_or in Hin. destruct Hin as [Hin|Hin].
  - apply in_map_iff in Hin. destruct Hin as [it [<- Hi]]. destruct it as [e|i]; cbn [item_origin].
    + eapply plain_items_In; eauto.
    + reflexivity.
  - destruct n as [k f b|k gi|k ts]; cbn [plain_node] in Hn.
    + destruct b; cbn [plain_behav] in Hn; try contradiction; try discriminate;
        destruct Hin as [<-|[]]; try reflexivity; apply plain_err_false; exact Hn.
    + contradiction.
    + destruct Hin as [<-|Hin]; [reflexivity|].
      apply in_flat_map in Hin. destruct Hin as [t [Ht Hu]].
      rewrite forallb_forall in Hn. specialize (Hn _ Ht).
      destruct t; cbn [tool_origins] in Hu; try contradiction; destruct Hu as [<-|[]]; try reflexivity.
      apply plain_err_false. exact Hn.
Qed.

Lemma leaf_errors_quiet : forall stream items n es,
  is_leaf n = true -> plain_items items = true -> plain_node n = true ->
  exec_leaf stream items n = NErr es -> quiet_errs es.
Proof.
  intros stream items n es Hl Hit Hn Hex r Hin.
  destruct (leaf_origin_lemma stream items n es r Hl Hex Hin) as [ws [u [-> [_ Hu]]]].
  rewrite interrupt_task_through_wrappers. eapply origins_quiet; eauto.
Qed.

Lemma tool_conv_panics_plain : forall ts, plain_items (tool_conv_panics ts) = true.
Proof.
  intros ts. unfold plain_items. apply forallb_forall. intros it Hin.
  destruct (In_tool_conv_panics ts it Hin) as [i [_ [->| ->]]]; reflexivity.
Qed.

Lemma lambda_items_plain : forall stream items f b it c,
  plain_items items = true -> plain_behav b = true ->
  exec_lambda stream items f b = NOk it c -> plain_items it = true.
Proof.
  intros stream items f b it c Hit Hb Hex. unfold exec_lambda in Hex.
  destruct stream, f, b; cbn in Hex; try discriminate;
    try (destruct items; cbn in Hex; try discriminate);
    inversion Hex; subst; try reflexivity; try exact Hit;
    try (cbn [plain_items forallb plain_item plain_behav] in *; rewrite Hb; reflexivity).
Qed.

Lemma tools_items_plain : forall stream items ts it c,
  exec_tools stream items ts = NOk it c -> plain_items it = true.
Proof.
  intros stream items ts it c Hex. unfold exec_tools in Hex.
  destruct ts as [|t0 ts']; [discriminate|].
  destruct (if stream then items else []); [|discriminate].
  destruct (tool0_panics stream t0); [discriminate|].
  destruct (negb stream).
  - destruct (first_tool_error false _ _); inversion Hex; reflexivity.
  - destruct (first_tool_error true _ _); inversion Hex. apply tool_conv_panics_plain.
Qed.

Lemma pre_error_quiet : forall stream items u, plain_items items = true -> plain_err u = true ->
  is_interrupt_task (pre_error stream items u) = false.
Proof.
  intros stream items u Hit Hu. unfold pre_error. destruct (negb stream); [apply plain_err_false; exact Hu|].
  destruct items as [|[e0|i] its].
  - change (wrap_stream TransformByInvoke u) with (apply_ws [WStream TransformByInvoke] u).
    rewrite interrupt_task_through_wrappers. apply plain_err_false. exact Hu.
  - cbn [consume]. change (concat_fail TransformByInvoke e0) with (apply_ws [WConcat TransformByInvoke] e0).
    rewrite interrupt_task_through_wrappers. eapply plain_items_In; [exact Hit|left; reflexivity].
  - reflexivity.
Qed.

Lemma pre_fails_quiet : forall stream items st, forallb plain_node st = true -> plain_items items = true ->
  quiet_errs (pre_fails stream items st).
Proof.
  intros stream items st Hst Hit e He. apply in_pre_fails in He. destruct He as [k [f [u [Hn ->]]]].
  rewrite forallb_forall in Hst. specialize (Hst _ Hn). cbn [plain_node plain_behav] in Hst.
  change (wrap_node k (Wrapf (pre_error stream items u))) with (apply_ws [WNode k; WWrapf] (pre_error stream items u)).
  rewrite interrupt_task_through_wrappers. apply pre_error_quiet; assumption.
Qed.

(* ------------------------------------------------------------------ where self-panicking streams are allowed *)

Definition br_none (b : brb) : bool := match b with BrNone => true | _ => false end.

(* a node that never hands back a self-panicking stream: no such behaviour, or a ToolsNode with
   two or more calls (ToolsNode.Stream merges the tools' streams behind forwarders itself) *)
Definition lazy_free_node (n : node) : bool :=
  match n with
  | NTools _ ts => forallb conv_free_tool ts || (2 <=? List.length ts)%nat
  | _ => conv_free_node n
  end.

Lemma conv_free_lazy_free : forall n, conv_free_node n = true -> lazy_free_node n = true.
Proof. intros [k f b|k gi|k ts] H; cbn in *; auto. rewrite H. reflexivity. Qed.

Lemma exec_tools_safe2 : forall stream items ts, (2 <= List.length ts)%nat ->
  nres_safe (exec_tools stream items ts).
Proof.
  intros stream items ts H. unfold exec_tools. destruct ts as [|t0 ts']; [exact I|].
  destruct (if stream then items else []); [|exact I].
  destruct (tool0_panics stream t0); [exact I|].
  destruct (negb stream).
  - destruct (first_tool_error false _ _); cbn; auto. reflexivity.
  - destruct (first_tool_error true _ _); cbn; auto.
    apply (proj1 (tools_forwarder_lemma (t0 :: ts') H)).
Qed.

(* [fw] = width of the first stage (where a cyclic graph goes back to) *)
Fixpoint guarded_stages (fw : nat) (loop : bool) (br : brb) (sts : list (list node)) : bool :=
  match sts with
  | [] => true
  | st :: rest =>
      (forallb lazy_free_node st ||
       match rest with
       | [] => br_none br && ((2 <=? List.length st)%nat || (loop && (2 <=? fw)%nat))
       | nx :: _ => (2 <=? List.length st)%nat || (2 <=? List.length nx)%nat
       end)
      && guarded_stages fw loop br rest
  end.

Definition guarded_graph (g : graph) : bool :=
  guarded_stages (width_of_first (g_stages g)) (g_loop g) (g_br g) (g_stages g).

Definition good_graph (g : graph) : bool := guarded_graph g && plain_graph g.

(* the whole forest, the top graph's branch condition (it runs on the caller's goroutine) and the
   error item of the input stream *)
Definition guarded (F : forest) (in_item : option err) : bool :=
  forallb good_graph F &&
  match F with g :: _ => br_free (g_br g) | [] => true end &&
  match in_item with Some e => plain_err e | None => true end.

Lemma conv_free_guarded_stages : forall fw loop br sts,
  conv_free_stages sts = true -> guarded_stages fw loop br sts = true.
Proof.
  intros fw loop br. induction sts as [|st rest IH]; intros H; [reflexivity|].
  unfold conv_free_stages in H. cbn [forallb] in H. apply andb_true_iff in H. destruct H as [H1 H2].
  cbn [guarded_stages].
  assert (H1' : forallb lazy_free_node st = true).
  { rewrite forallb_forall in *. intros n Hn. apply conv_free_lazy_free. apply H1. exact Hn. }
  rewrite H1'. cbn [orb andb]. apply IH. exact H2.
Qed.

(* what leaves a stage for the next one (or END) holds nothing that panics when read *)
Lemma out_no_lazy : forall m n it,
  no_lazy it \/ (2 <= m)%nat \/ (2 <= n)%nat -> no_lazy (fanin m (fanout n it)).
Proof.
  intros m n it [H|[H|H]].
  - apply fanin_no_lazy, fanout_no_lazy. exact H.
  - apply fanin_contains_lemma. exact H.
  - apply fanin_no_lazy. apply fanout_contains_lemma. exact H.
Qed.

(* ------------------------------------------------------------------ the run *)

Definition gres_good (top : bool) (r : gres) : Prop :=
  match r with
  | GDone its _ => no_lazy its /\ plain_items its = true
  | GFail es => quiet_errs es
  | GInt => False
  | GPanic _ => top = false
  | GFuel => True
  end.

Definition nres_good (cf : bool) (r : nres) : Prop :=
  match r with
  | NOk it _ => plain_items it = true /\ (cf = true -> no_lazy it)
  | NErr es => quiet_errs es
  | NFuel => True
  end.

Section Good.
  Variable F : forest.
  Variable stream : bool.
  Hypothesis HF : forallb good_graph F = true.

  Definition rec_good (rec : graph -> list item -> bool -> gres) : Prop :=
    forall g items canc, good_graph g = true -> no_lazy items -> plain_items items = true ->
      gres_good false (rec g items canc).

  Lemma forest_graph_good : forall gi g, nth_error F gi = Some g -> good_graph g = true.
  Proof.
    intros gi g H. rewrite forallb_forall in HF. apply HF. eapply nth_error_In; eauto.
  Qed.

  Lemma exec_node_good : forall rec items canc n, rec_good rec ->
    plain_node n = true -> no_lazy items -> plain_items items = true ->
    nres_good (lazy_free_node n) (exec_node F stream rec items canc n).
  Proof.
    intros rec items canc n Hrec Hn Hnl Hpl. destruct n as [k f b|k gi|k ts]; cbn [exec_node].
    - destruct (with_post stream b (exec_lambda stream items f b)) as [it c|es|] eqn:Ew; cbn [nres_good]; auto.
      + assert (Ex : exec_lambda stream items f b = NOk it c).
        { destruct b; cbn [with_post] in Ew; auto.
          destruct (exec_lambda stream items f (BPostFail e)) as [[|[e0|i] its] c'|es'|]; discriminate. }
        split; [eapply lambda_items_plain; eauto|].
        intros Hcf. pose proof (exec_lambda_safe stream items f b Hcf Hnl) as Hs.
        rewrite Ex in Hs. exact Hs.
      + eapply (leaf_errors_quiet stream items (NLam k f b)); eauto.
    - destruct (nth_error F gi) as [g|] eqn:Eg; [|exact I].
      specialize (Hrec g items canc (forest_graph_good _ _ Eg) Hnl Hpl).
      destruct (rec g items canc) as [it c|es| |i|]; cbn [gres_good nres_good] in *.
      + destruct Hrec as [H1 H2]. split; auto.
      + exact Hrec.
      + contradiction.
      + intros e [<-|[]]. reflexivity.
      + exact I.
    - destruct (exec_tools stream items ts) as [it c|es|] eqn:Ex; cbn [nres_good]; auto.
      + split; [eapply tools_items_plain; eauto|].
        intros Hcf. cbn [lazy_free_node] in Hcf. apply orb_true_iff in Hcf.
        assert (Hs : nres_safe (exec_tools stream items ts)).
        { destruct Hcf as [Hcf|Hcf]; [apply exec_tools_safe; exact Hcf|].
          apply exec_tools_safe2. apply Nat.leb_le. exact Hcf. }
        rewrite Ex in Hs. exact Hs.
      + eapply (leaf_errors_quiet stream items (NTools k ts)); eauto.
  Qed.

  (* one stage *)
  Lemma stage_good : forall rec items st, rec_good rec ->
    forallb plain_node st = true -> no_lazy items -> plain_items items = true ->
    let rs := map (fun n => (node_key n, exec_node F stream rec items false n)) st in
    any_int rs = false /\ quiet_errs (all_fails rs) /\ plain_items (all_items rs) = true /\
    (forallb lazy_free_node st = true -> no_lazy (all_items rs)).
  Proof.
    intros rec items st Hrec. induction st as [|n st IH]; intros Hst Hnl Hpl rs.
    - repeat split; try reflexivity. intros e [].
    - cbn [forallb] in Hst. apply andb_true_iff in Hst. destruct Hst as [Hn Hst].
      specialize (IH Hst Hnl Hpl). cbv zeta in IH. destruct IH as [I1 [I2 [I3 I4]]].
      pose proof (exec_node_good rec items false n Hrec Hn Hnl Hpl) as Hg.
      unfold rs. cbn [map any_int all_fails all_items existsb flat_map snd fst].
      fold (any_int (map (fun n => (node_key n, exec_node F stream rec items false n)) st)).
      fold (all_fails (map (fun n => (node_key n, exec_node F stream rec items false n)) st)).
      fold (all_items (map (fun n => (node_key n, exec_node F stream rec items false n)) st)).
      destruct (exec_node F stream rec items false n) as [it c|es|]; cbn [nres_good] in Hg.
      + destruct Hg as [G1 G2]. repeat split; auto.
        * rewrite plain_items_app, G1, I3. reflexivity.
        * intros Hcf. cbn [forallb] in Hcf. apply andb_true_iff in Hcf. destruct Hcf as [C1 C2].
          apply no_lazy_app. split; auto.
      + repeat split; auto.
        * cbn [orb]. rewrite I1.
          destruct (existsb is_interrupt_task es) eqn:E; [|reflexivity].
          apply existsb_exists in E. destruct E as [e [He Hi]]. rewrite (Hg e He) in Hi. discriminate.
        * intros e He. apply in_app_or in He. destruct He as [He|He]; [|apply I2; exact He].
          apply in_map_iff in He. destruct He as [e' [<- He']].
          unfold real_errors in He'. apply filter_In in He'. destruct He' as [He' _].
          change (wrap_node (node_key n) e') with (apply_ws [WNode (node_key n)] e').
          rewrite interrupt_task_through_wrappers. apply Hg. exact He'.
        * intros Hcf. cbn [forallb] in Hcf. apply andb_true_iff in Hcf. apply I4. tauto.
      + repeat split; auto.
        intros Hcf. cbn [forallb] in Hcf. apply andb_true_iff in Hcf. apply I4. tauto.
  Qed.

  Lemma branch_error_quiet : forall e, is_interrupt_task e = false -> is_interrupt_task (branch_error e) = false.
  Proof.
    intros e H. change (branch_error e) with (apply_ws [WGraphRun; WWrapf; WWrapf; WWrapf] e).
    rewrite interrupt_task_through_wrappers. exact H.
  Qed.

  Lemma steps_good : forall rec all loop br top, rec_good rec ->
    plain_stages all = true -> plain_br br = true ->
    guarded_stages (width_of_first all) loop br all = true ->
    (top = true -> br_free br = true) ->
    forall k cur items canc,
      plain_stages cur = true -> guarded_stages (width_of_first all) loop br cur = true ->
      no_lazy items -> plain_items items = true ->
      gres_good top (steps F stream rec all loop br k cur items canc).
  Proof.
    intros rec all loop br top Hrec Hpall Hpbr Hgall Hbr.
    induction k as [|k IH]; intros cur items canc Hpcur Hgcur Hnl Hpl.
    - destruct cur; cbn; [split; assumption|]. destruct canc; intros e [<-|[]]; reflexivity.
    - destruct cur as [|st rest]; cbn [steps]; [split; assumption|].
      destruct canc; [intros e [<-|[]]; reflexivity|].
      rewrite stage_fold_spec. cbn [orb app].
      unfold plain_stages in Hpcur. cbn [forallb] in Hpcur. apply andb_true_iff in Hpcur.
      destruct Hpcur as [Hpst Hprest].
      cbn [guarded_stages] in Hgcur. apply andb_true_iff in Hgcur. destruct Hgcur as [Hgst Hgrest].
      destruct (pre_fails stream items st) as [|pf0 pfs] eqn:Epf.
      2:{ cbv beta iota. rewrite (pre_panic_no_lazy stream items Hnl). cbn [gres_good].
          rewrite <- Epf. apply pre_fails_quiet; assumption. }
      destruct (stage_good rec items st Hrec Hpst Hnl Hpl) as [S1 [S2 [S3 S4]]].
      set (rs := map (fun n => (node_key n, exec_node F stream rec items false n)) st) in *.
      destruct (any_fuel rs); [exact I|].
      destruct (all_fails rs) as [|f0 fs] eqn:Ef; [|exact S2].
      rewrite S1.
      destruct rest as [|st' rest'].
      + (* the last stage: the branch, then END or back to the first stage *)
        apply orb_true_iff in Hgst.
        assert (Hbe : forall i, branch_eval stream br (all_items rs) = BPanicI i -> top = false).
        { intros i Hb. destruct Hgst as [Hcf|Hg].
          - destruct top; [|reflexivity]. exfalso.
            exact (branch_eval_safe stream br (all_items rs) i (Hbr eq_refl) (S4 Hcf) Hb).
          - apply andb_true_iff in Hg. destruct Hg as [Hbn _]. destruct br; discriminate. }
        assert (Hout : forall n, (loop = true -> n = width_of_first all) -> (loop = false -> n = 1%nat) ->
                       no_lazy (fanin (List.length st) (fanout n (all_items rs)))).
        { intros n Hl1 Hl2. apply out_no_lazy. destruct Hgst as [Hcf|Hg]; [left; apply S4; exact Hcf|].
          apply andb_true_iff in Hg. destruct Hg as [_ Hg]. apply orb_true_iff in Hg.
          destruct Hg as [Hg|Hg].
          - right. left. apply Nat.leb_le. exact Hg.
          - apply andb_true_iff in Hg. destruct Hg as [Hlo Hw]. right. right.
            rewrite (Hl1 Hlo). apply Nat.leb_le. exact Hw. }
        destruct (branch_eval stream br (all_items rs)) as [|be|bi] eqn:Eb.
        * destruct loop.
          -- apply IH; [exact Hpall|exact Hgall| |].
             ++ apply Hout; [reflexivity|discriminate].
             ++ apply fanin_plain, fanout_plain. exact S3.
          -- cbn [gres_good]. split; [apply Hout; auto; discriminate|].
             apply fanin_plain, fanout_plain. exact S3.
        * cbn [gres_good]. intros e [<-|[]]. apply branch_error_quiet.
          unfold branch_eval in Eb. destruct br as [| |ue|ui]; try discriminate.
          -- destruct (all_items rs) as [|[e0|j] l] eqn:Ei; try discriminate.
             inversion Eb; subst be.
             change (concat_fail CollectByInvoke e0) with (apply_ws [WConcat CollectByInvoke] e0).
             rewrite interrupt_task_through_wrappers.
             eapply plain_items_In; [exact S3|]. left. reflexivity.
          -- destruct (all_items rs) as [|[e0|j] l] eqn:Ei; try discriminate.
             ++ inversion Eb; subst be. cbn [plain_br] in Hpbr.
                destruct stream.
                ** change (wrap_stream CollectByInvoke ue) with (apply_ws [WStream CollectByInvoke] ue).
                   rewrite interrupt_task_through_wrappers. apply plain_err_false. exact Hpbr.
                ** apply plain_err_false. exact Hpbr.
             ++ inversion Eb; subst be.
                change (concat_fail CollectByInvoke e0) with (apply_ws [WConcat CollectByInvoke] e0).
                rewrite interrupt_task_through_wrappers.
                eapply plain_items_In; [exact S3|]. left. reflexivity.
          -- destruct (all_items rs) as [|[e0|j] l] eqn:Ei; try discriminate.
             inversion Eb; subst be.
             change (concat_fail CollectByInvoke e0) with (apply_ws [WConcat CollectByInvoke] e0).
             rewrite interrupt_task_through_wrappers.
             eapply plain_items_In; [exact S3|]. left. reflexivity.
        * cbn [gres_good]. eapply Hbe. reflexivity.
      + apply IH; [exact Hprest|exact Hgrest| |].
        * apply out_no_lazy. apply orb_true_iff in Hgst. destruct Hgst as [Hcf|Hg]; [left; apply S4; exact Hcf|].
          apply orb_true_iff in Hg. destruct Hg as [Hg|Hg].
          -- right. left. apply Nat.leb_le. exact Hg.
          -- right. right. cbn [width_of_first]. apply Nat.leb_le. exact Hg.
        * apply fanin_plain, fanout_plain. exact S3.
  Qed.

  Lemma good_graph_parts : forall g, good_graph g = true ->
    plain_stages (g_stages g) = true /\ plain_br (g_br g) = true /\
    guarded_stages (width_of_first (g_stages g)) (g_loop g) (g_br g) (g_stages g) = true.
  Proof.
    intros g H. unfold good_graph, guarded_graph, plain_graph in H.
    apply andb_true_iff in H. destruct H as [H1 H2]. apply andb_true_iff in H2. tauto.
  Qed.

  Lemma run_graph_good : forall d, rec_good (run_graph F stream d).
  Proof.
    induction d as [|d IH]; intros g items canc Hg Hnl Hpl; cbn [run_graph]; [exact I|].
    destruct (good_graph_parts g Hg) as [P1 [P2 P3]].
    apply steps_good; auto; [discriminate| |].
    - apply fanout_no_lazy. exact Hnl.
    - apply fanout_plain. exact Hpl.
  Qed.

  Lemma run_graph_top_good : forall d g items canc,
    good_graph g = true -> br_free (g_br g) = true -> no_lazy items -> plain_items items = true ->
    gres_good true (run_graph F stream d g items canc).
  Proof.
    intros d g items canc Hg Hb Hnl Hpl. destruct d as [|d]; cbn [run_graph]; [exact I|].
    destruct (good_graph_parts g Hg) as [P1 [P2 P3]].
    apply steps_good; auto; [apply run_graph_good| |].
    - apply fanout_no_lazy. exact Hnl.
    - apply fanout_plain. exact Hpl.
  Qed.
End Good.

(* In every forest in which self-panicking streams occur only where a forwarder or a copy stands
   between them and whoever reads outside a task, and nobody asks for an interrupt: no panic
   reaches the caller, no result stream panics when read — in every paradigm, for every input. *)
Lemma guarded_panics_contained_lemma : forall F p cancel_before in_item,
  guarded F in_item = true -> ~ In APanic (answers F p cancel_before in_item).
Proof.
  intros F p cb ii HG Hin. unfold answers in Hin.
  destruct F as [|g F']; [destruct Hin as [H|[]]; discriminate|].
  unfold guarded in HG. apply andb_true_iff in HG. destruct HG as [HG Hii].
  apply andb_true_iff in HG. destruct HG as [HFs Hbr].
  set (stream := match p with PInvoke => false | _ => true end) in *.
  set (items := match p, ii with (PCollect | PTransform), Some e => [IErr e] | _, _ => [] end) in *.
  assert (Hnl : no_lazy items) by (unfold items; destruct p, ii; reflexivity).
  assert (Hpl : plain_items items = true).
  { unfold items. destruct p, ii; try reflexivity; cbn [plain_items forallb plain_item]; rewrite Hii; reflexivity. }
  assert (Hg : good_graph g = true).
  { cbn [forallb] in HFs. apply andb_true_iff in HFs. tauto. }
  pose proof (run_graph_top_good (g :: F') stream HFs (S (List.length (g :: F'))) g items cb Hg Hbr Hnl Hpl) as Hs.
  destruct (run_graph (g :: F') stream (S (List.length (g :: F'))) g items cb) as [its c|es| |i|]; cbn in Hs.
  - destruct Hs as [Hs _]. destruct its as [|it0 its']; [destruct Hin as [H|[]]; discriminate|].
    apply in_map_iff in Hin. destruct Hin as [it [Heq Hi]].
    pose proof (no_lazy_In _ _ Hs Hi) as Hl. destruct it; [destruct p; discriminate|discriminate].
  - apply in_map_iff in Hin. destruct Hin as [e [Heq _]]. discriminate.
  - contradiction.
  - discriminate.
  - destruct Hin as [H|[]]; discriminate.
Qed.

(* the condition of [no_panic_escapes] is the special case without any self-panicking stream *)
Lemma conv_free_guarded_graph : forall g, conv_free_stages (g_stages g) = true -> guarded_graph g = true.
Proof. intros g H. apply conv_free_guarded_stages. exact H. Qed.
