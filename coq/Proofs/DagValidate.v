(* Proofs/DagValidate.v — C02: validateDAG_sound. If the compile-time check of Model/DagValidate.v accepts an
   all-predecessor graph, the control dependencies among its nodes (control edges and branch end nodes)
   have a topological order: there is a rank that strictly increases along every control dependency. *)
From Eino Require Import Base.Util Model.Graph Model.DagValidate Proofs.DagChan.
From Coq Require Import Lia.
Open Scope N_scope.

Lemma indeg_zero rem t : indeg rem t = O -> forall n, In n rem -> cmult n t = O.
Proof.
  unfold indeg. induction rem as [|m rem IH]; simpl; [intros _ ? []|].
  intros H n [<-|Hin]; [lia|]. apply IH; [lia|assumption].
Qed.

Lemma kahn_rank fuel : forall rem,
  kahn fuel rem = [] ->
  exists rank : key -> nat,
    forall n m, In n rem -> In m rem -> (cmult n (n_key m) > 0)%nat -> (rank (n_key n) < rank (n_key m))%nat.
Proof.
  induction fuel as [|fuel IH]; intros rem; simpl.
  - intros ->. exists (fun _ => O). intros ? ? [].
  - destruct (filter (is_free rem) rem) as [|f0 fr] eqn:Ef.
    + intros ->. exists (fun _ => O). intros ? ? [].
    + intros Hk. destruct (IH _ Hk) as (rank' & Hr').
      exists (fun k => if Nat.eqb (indeg rem k) 0 then O else S (rank' k)).
      intros n m Hn Hm Hc.
      destruct (Nat.eqb (indeg rem (n_key m)) 0) eqn:Em.
      * apply Nat.eqb_eq in Em. pose proof (indeg_zero rem (n_key m) Em n Hn). lia.
      * destruct (Nat.eqb (indeg rem (n_key n)) 0) eqn:En; [lia|].
        apply -> Nat.succ_lt_mono. apply Hr'; [| |assumption]; apply filter_In; (split; [assumption|]);
          unfold is_free; [now rewrite En|now rewrite Em].
Qed.

Lemma is_cpred_cmult n t : is_cpred n t = true -> (cmult n t > 0)%nat.
Proof.
  unfold is_cpred, cmult. intros H. apply orb_true_iff in H. destruct H as [H|H]; apply memb_in in H.
  - apply (count_occ_In N.eq_dec) in H. lia.
  - unfold branch_ends_of in H. apply in_flat_map in H. destruct H as (b & Hb & Ht). simpl in Ht.
    assert (Hin : In b (filter (fun b => memb t (b_ends b)) (n_branches n))).
    { apply filter_In. split; [assumption|now apply memb_in]. }
    destruct (filter (fun b => memb t (b_ends b)) (n_branches n)); [destruct Hin|simpl; lia].
Qed.

Theorem validate_dag_sound g :
  validate_dag g = true ->
  exists rank : key -> nat,
    forall n m, In n (real_nodes g) -> In m (real_nodes g) -> is_cpred n (n_key m) = true ->
                (rank (n_key n) < rank (n_key m))%nat.
Proof.
  unfold validate_dag. destruct (kahn _ _) eqn:E; [|discriminate]. intros _.
  destruct (kahn_rank _ _ E) as (rank & Hr). exists rank.
  intros n m Hn Hm Hc. apply Hr; [assumption..|]. now apply is_cpred_cmult.
Qed.

(* in particular no node of an accepted graph depends on itself through control dependencies *)
Corollary validate_dag_no_self_loop g n :
  validate_dag g = true -> In n (real_nodes g) -> is_cpred n (n_key n) = false.
Proof.
  intros Hv Hn. destruct (is_cpred n (n_key n)) eqn:E; [|reflexivity].
  destruct (validate_dag_sound g Hv) as (rank & Hr). specialize (Hr n n Hn Hn E). lia.
Qed.
