(* Proofs/DagValidate.v — C02: validateDAG_sound. If the compile-time check of Model/DagValidate.v accepts an
   all-predecessor graph, the control dependencies among its nodes (control edges and branch end nodes)
   have a topological order: there is a rank that strictly increases along every control dependency. *)
From Eino Require Import Base.Util Model.Graph Model.DagValidate Proofs.DagChan.
From Coq Require Import Lia.
Open Scope N_scope.

Lemma indeg_zero rem t : indeg rem t = O -> forall n, In n rem -> cmult n t = O.
Proof.
  unfold indeg. induction rem as [|m rem IH]; simpl; [intros _ ? []|].
  intros H n [<-|Hin]; [lia|]. apply IH; [lia|assumption].
Qed.

Lemma kahn_rank fuel : forall rem,
  kahn fuel rem = [] ->
  exists rank : key -> nat,
    forall n m, In n rem -> In m rem -> (cmult n (n_key m) > 0)%nat -> (rank (n_key n) < rank (n_key m))%nat.
Proof.
  induction fuel as [|fuel IH]; intros rem; simpl.
  - intros ->. exists (fun _ => O). intros ? ? [].
  - destruct (filter (is_free rem) rem) as [|f0 fr] eqn:Ef.
    + intros ->. exists (fun _ => O). intros ? ? [].
    + intros Hk. destruct (IH _ Hk) as (rank' & Hr').
      exists (fun k => if Nat.eqb (indeg rem k) 0 then O else S (rank' k)).
      intros n m Hn Hm Hc.
      destruct (Nat.eqb (indeg rem (n_key m)) 0) eqn:Em.
      * apply Nat.eqb_eq in Em. pose proof (indeg_zero rem (n_key m) Em n Hn). lia.
      * destruct (Nat.eqb (indeg rem (n_key n)) 0) eqn:En; [lia|].
        apply -> Nat.succ_lt_mono. apply Hr'; [| |assumption]; apply filter_In; (split; [assumption|]);
          unfold is_free; [now rewrite En|now rewrite Em].
Qed.

Lemma is_cpred_cmult n t : is_cpred n t = true -> (cmult n t > 0)%nat.
Proof.
  unfold is_cpred, cmult. intros H. apply orb_true_iff in H. destruct H as [H|H]; apply memb_in in H.
  - apply (count_occ_In N.eq_dec) in H. lia.
  - unfold branch_ends_of in H. apply in_flat_map in H. destruct H as (b & Hb & Ht). simpl in Ht.
    assert (Hin : In b (filter (fun b => memb t (b_ends b)) (n_branches n))).
    { apply filter_In. split; [assumption|now apply memb_in]. }
    destruct (filter (fun b => memb t (b_ends b)) (n_branches n)); [destruct Hin|simpl; lia].
Qed.

Theorem validate_dag_sound g :
  validate_dag g = true ->
  exists rank : key -> nat,
    forall n m, In n (real_nodes g) -> In m (real_nodes g) -> is_cpred n (n_key m) = true ->
                (rank (n_key n) < rank (n_key m))%nat.
Proof.
  unfold validate_dag. destruct (kahn _ _) eqn:E; [|discriminate]. intros _.
  destruct (kahn_rank _ _ E) as (rank & Hr). exists rank.
  intros n m Hn Hm Hc. apply Hr; [assumption..|]. now apply is_cpred_cmult.
Qed.

(* in particular no node of an accepted graph depends on itself through control dependencies *)
Corollary validate_dag_no_self_loop g n :
  validate_dag g = true -> In n (real_nodes g) -> is_cpred n (n_key n) = false.
Proof.
  intros Hv Hn. destruct (is_cpred n (n_key n)) eqn:E; [|reflexivity].
  destruct (validate_dag_sound g Hv) as (rank & Hr). specialize (Hr n n Hn Hn E). lia.
Qed.

(* ---------- completeness: a graph whose control dependencies have a topological order is accepted ---------- *)
Lemma indeg_all_zero rem t : (forall n, In n rem -> cmult n t = O) -> indeg rem t = O.
Proof.
  unfold indeg. induction rem as [|m rem IH]; simpl; intros H; [reflexivity|].
  rewrite (H m (or_introl eq_refl)), IH; [reflexivity|]. intros n Hn. apply H. now right.
Qed.

Lemma min_rank (rank : key -> nat) (rem : list node) :
  rem <> [] -> exists m, In m rem /\ forall n, In n rem -> (rank (n_key m) <= rank (n_key n))%nat.
Proof.
  induction rem as [|a rem IH]; [congruence|]. intros _.
  destruct rem as [|b rem'].
  - exists a. split; [now left|]. intros n [<-|[]]. lia.
  - destruct (IH ltac:(discriminate)) as (m & Hm & Hmin).
    destruct (Nat.le_gt_cases (rank (n_key a)) (rank (n_key m))) as [Hle|Hgt].
    + exists a. split; [now left|]. intros n [<-|Hn]; [lia|]. specialize (Hmin n Hn). lia.
    + exists m. split; [now right|]. intros n [<-|Hn]; [lia|]. now apply Hmin.
Qed.

Lemma filter_length_lt {A} (f : A -> bool) (l : list A) a :
  In a l -> f a = false -> (List.length (filter f l) < List.length l)%nat.
Proof.
  induction l as [|b l IH]; simpl; [intros []|].
  intros [->|Hin] Hf.
  - rewrite Hf. assert (H : (List.length (filter f l) <= List.length l)%nat).
    { clear. induction l as [|c l IH]; simpl; [lia|]. destruct (f c); simpl; lia. }
    lia.
  - specialize (IH Hin Hf). destruct (f b); simpl; lia.
Qed.

Lemma kahn_complete (rank : key -> nat) fuel : forall rem,
  (forall n m, In n rem -> In m rem -> (cmult n (n_key m) > 0)%nat -> (rank (n_key n) < rank (n_key m))%nat) ->
  (List.length rem < fuel)%nat -> kahn fuel rem = [].
Proof.
  induction fuel as [|fuel IH]; intros rem Hr Hlen; [lia|]. simpl.
  destruct rem as [|a rem'] eqn:Erem; [reflexivity|]. rewrite <- Erem in *.
  assert (Hne : rem <> []) by (rewrite Erem; discriminate).
  destruct (min_rank rank rem Hne) as (m & Hm & Hmin).
  assert (Hfree : is_free rem m = true).
  { unfold is_free. apply Nat.eqb_eq. apply indeg_all_zero. intros n Hn.
    destruct (cmult n (n_key m)) eqn:E; [reflexivity|].
    assert (Hlt : (rank (n_key n) < rank (n_key m))%nat) by (apply Hr; [assumption..|lia]).
    specialize (Hmin n Hn). lia. }
  destruct (filter (is_free rem) rem) as [|f0 fr] eqn:Ef.
  - exfalso. assert (Hin : In m (filter (is_free rem) rem)) by (apply filter_In; auto). rewrite Ef in Hin. destruct Hin.
  - apply IH.
    + intros n k Hn Hk. apply filter_In in Hn. apply filter_In in Hk. apply Hr; tauto.
    + assert (Hlt : (List.length (filter (fun n => negb (is_free rem n)) rem) < List.length rem)%nat).
      { apply filter_length_lt with (a := m); [assumption|]. now rewrite Hfree. }
      lia.
Qed.

Lemma cmult_is_cpred n t : (cmult n t > 0)%nat -> is_cpred n t = true.
Proof.
  unfold cmult, is_cpred. intros H. apply orb_true_iff.
  destruct (count_occ N.eq_dec (n_csucc n) t) eqn:Ec.
  - right. apply memb_in. simpl in H.
    destruct (filter (fun b => memb t (b_ends b)) (n_branches n)) as [|b l] eqn:Ef; [simpl in H; lia|].
    assert (Hb : In b (filter (fun b => memb t (b_ends b)) (n_branches n))) by (rewrite Ef; now left).
    apply filter_In in Hb. destruct Hb as [Hb Ht]. apply memb_in in Ht.
    unfold branch_ends_of. apply in_flat_map. exists b. split; [assumption|]. simpl. exact Ht.
  - left. apply memb_in. apply (count_occ_In N.eq_dec). lia.
Qed.

Theorem validate_dag_complete g (rank : key -> nat) :
  (forall n m, In n (real_nodes g) -> In m (real_nodes g) -> is_cpred n (n_key m) = true ->
               (rank (n_key n) < rank (n_key m))%nat) ->
  validate_dag g = true.
Proof.
  intros Hr. unfold validate_dag.
  rewrite (kahn_complete rank (S (List.length (real_nodes g))) (real_nodes g)); [reflexivity| |lia].
  intros n m Hn Hm Hc. apply Hr; [assumption..|]. now apply cmult_is_cpred.
Qed.

(* validateDAG accepts exactly the graphs whose control dependencies are acyclic *)
Theorem validate_dag_iff g :
  validate_dag g = true <->
  exists rank : key -> nat,
    forall n m, In n (real_nodes g) -> In m (real_nodes g) -> is_cpred n (n_key m) = true ->
                (rank (n_key n) < rank (n_key m))%nat.
Proof.
  split; [apply validate_dag_sound|]. intros (rank & Hr). now apply (validate_dag_complete g rank).
Qed.
