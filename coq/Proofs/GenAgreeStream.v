(* Proofs/GenAgreeStream.v — the tables tools/go2v regenerated from schema/select.go and
   schema/stream.go (Gen/StreamSelTable.v) are the ones Model/Stream.v assumes
   (Model/StreamSelTable.v).  A changed constant, a receiveN entry with a missing / doubled /
   crossed case, or a changed comparison makes one of these stop compiling. *)
From Eino Require Import Base.Util Model.Stream Model.StreamSelTable.
From Eino Require Gen.StreamSelTable.

Theorem gen_max_select_num_agrees : Gen.StreamSelTable.max_select_num = maxSelectNum.
Proof. reflexivity. Qed.

Theorem gen_receive_table_agrees : Gen.StreamSelTable.receive_table = Model.StreamSelTable.receive_table.
Proof. reflexivity. Qed.

Theorem gen_select_threshold_agrees :
  Gen.StreamSelTable.select_threshold_ops = Model.StreamSelTable.select_threshold_ops.
Proof. reflexivity. Qed.

Lemma nth_error_seq_lt : forall n a i, i < n -> nth_error (seq a n) i = Some (a + i).
Proof.
  induction n as [|n IH]; intros a i Hi; [lia|].
  destruct i as [|i]; simpl; [f_equal; lia|]. rewrite IH by lia. f_equal. lia.
Qed.

(* what the diagonal table means: for every arity 1 <= k <= maxSelectNum the entry exists, has
   exactly k cases, and its j-th case receives from chosenList[j] and reports chosenList[j] —
   i.e. receiveN is "select over the chosen sources, report the one received from", which is
   what [recv_reader] does for [RMul] *)
Theorem receive_table_diagonal : forall k, 1 <= k <= Gen.StreamSelTable.max_select_num ->
  exists row, nth_error Gen.StreamSelTable.receive_table (k - 1) = Some row
    /\ List.length row = k
    /\ forall j, j < k -> nth_error row j = Some (j, j).
Proof.
  intros k Hk. rewrite gen_receive_table_agrees, gen_max_select_num_agrees in *.
  unfold Model.StreamSelTable.receive_table, max_select_num.
  exists (receive_row k). split; [|split].
  - rewrite nth_error_map, nth_error_seq_lt by (unfold maxSelectNum in *; lia).
    simpl. f_equal. f_equal. lia.
  - unfold receive_row. rewrite map_length, seq_length. reflexivity.
  - intros j Hj. unfold receive_row. rewrite nth_error_map, nth_error_seq_lt by lia. reflexivity.
Qed.
