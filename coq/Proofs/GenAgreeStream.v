(* Proofs/GenAgreeStream.v — the tables tools/go2v regenerated from schema/select.go and
   schema/stream.go (Gen/StreamSelTable.v) are the ones Model/Stream.v assumes
   (Model/StreamSelTable.v).  A changed constant, a receiveN entry with a missing / doubled /
   crossed case, or a comparison with maxSelectNum under which reflect.Select can run on cases
   that were not built / receiveN can be asked for an arity it has no entry for makes one of these
   stop compiling. *)
From Eino Require Import Base.Util Model.Stream Model.StreamSelTable.
From Eino Require Gen.StreamSelTable.
From Coq Require Import Lia ZifyBool ZifyNat.

Theorem gen_max_select_num_agrees : Gen.StreamSelTable.max_select_num = maxSelectNum.
Proof. reflexivity. Qed.

Theorem gen_receive_table_agrees : Gen.StreamSelTable.receive_table = Model.StreamSelTable.receive_table.
Proof. reflexivity. Qed.

(* The two decisions that depend on maxSelectNum (build the reflect cases or not; reflect.Select or
   receiveN), regenerated as functions of n = len(sts) and k = len(chosenList) from whichever
   function of schema/stream.go takes them: what Model/Stream.v needs of them
   ([select_mechanisms_ok], Model/StreamSelTable.v) holds for every n and k a merged reader can be
   in.  `>=` instead of `>` in recv alone (seeded merge-arity5-hang) fails at n = k = 5:
   reflect.Select on cases that were never built. *)
Theorem gen_select_threshold_agrees :
  select_mechanisms_ok Gen.StreamSelTable.receive_table
    Gen.StreamSelTable.builds_reflect_cases Gen.StreamSelTable.recv_uses_reflect.
Proof.
  unfold select_mechanisms_ok. intros n k Hk.
  rewrite gen_receive_table_agrees.
  assert (HL : List.length Model.StreamSelTable.receive_table = 5) by reflexivity.
  rewrite HL; clear HL.
  (* also on the neutral file, whose definitions unfold to the model's *)
  cbv beta delta [Gen.StreamSelTable.builds_reflect_cases Gen.StreamSelTable.recv_uses_reflect
                  Gen.StreamSelTable.max_select_num
                  Model.StreamSelTable.builds_reflect_cases Model.StreamSelTable.recv_uses_reflect
                  Model.StreamSelTable.max_select_num maxSelectNum].
  lia.
Qed.

(* the model's own reading of the two decisions satisfies the same statement (non-vacuity of
   [select_mechanisms_ok]: it is satisfiable, and by the decisions as the code takes them today) *)
Example model_select_mechanisms_ok :
  select_mechanisms_ok Model.StreamSelTable.receive_table
    Model.StreamSelTable.builds_reflect_cases Model.StreamSelTable.recv_uses_reflect.
Proof.
  unfold select_mechanisms_ok. intros n k Hk.
  unfold Model.StreamSelTable.receive_table, Model.StreamSelTable.builds_reflect_cases,
    Model.StreamSelTable.recv_uses_reflect, Model.StreamSelTable.max_select_num.
  rewrite map_length, seq_length. unfold maxSelectNum. lia.
Qed.

(* and it is not trivially true: a reader that chooses reflect.Select one source earlier than the
   cases are built for is refused *)
Example select_mechanisms_refuse_early_reflect :
  ~ select_mechanisms_ok Model.StreamSelTable.receive_table
      Model.StreamSelTable.builds_reflect_cases (fun n k => Nat.leb maxSelectNum k).
Proof.
  intros H. destruct (H 5 5 ltac:(lia)) as [H1 _]. specialize (H1 eq_refl). discriminate H1.
Qed.

(* nor is a table that is one entry short for the arities left to receiveN *)
Example select_mechanisms_refuse_short_table :
  ~ select_mechanisms_ok (removelast Model.StreamSelTable.receive_table)
      Model.StreamSelTable.builds_reflect_cases Model.StreamSelTable.recv_uses_reflect.
Proof.
  intros H. destruct (H 5 5 ltac:(lia)) as [_ H2]. specialize (H2 eq_refl). vm_compute in H2. lia.
Qed.

Lemma nth_error_seq_lt : forall n a i, i < n -> nth_error (seq a n) i = Some (a + i).
Proof.
  induction n as [|n IH]; intros a i Hi; [lia|].
  destruct i as [|i]; simpl; [f_equal; lia|]. rewrite IH by lia. f_equal. lia.
Qed.

(* what the diagonal table means: for every arity 1 <= k <= maxSelectNum the entry exists, has
   exactly k cases, and its j-th case receives from chosenList[j] and reports chosenList[j] —
   i.e. receiveN is "select over the chosen sources, report the one received from", which is
   what [recv_reader] does for [RMul] *)
Theorem receive_table_diagonal : forall k, 1 <= k <= Gen.StreamSelTable.max_select_num ->
  exists row, nth_error Gen.StreamSelTable.receive_table (k - 1) = Some row
    /\ List.length row = k
    /\ forall j, j < k -> nth_error row j = Some (j, j).
Proof.
  intros k Hk. rewrite gen_receive_table_agrees, gen_max_select_num_agrees in *.
  unfold Model.StreamSelTable.receive_table, max_select_num.
  exists (receive_row k). split; [|split].
  - rewrite nth_error_map, nth_error_seq_lt by (unfold maxSelectNum in *; lia).
    simpl. f_equal. f_equal. lia.
  - unfold receive_row. rewrite map_length, seq_length. reflexivity.
  - intros j Hj. unfold receive_row. rewrite nth_error_map, nth_error_seq_lt by lia. reflexivity.
Qed.
