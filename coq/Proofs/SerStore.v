(* Proofs/SerStore.v — a checkpoint written through checkPointer.set is what
   checkPointer.get reads back from the store (Model/SerStore.v), whatever else was in the
   store before and whatever is written under other ids afterwards. *)
From Coq Require Import List Bool Arith NArith ZArith String Ascii Lia.
From Eino Require Import Base.Util Base.Universe Model.Ser Model.SerCheckpoint Model.SerStore
     Proofs.Ser Proofs.SerLoud Proofs.SerTop Proofs.SerTotal.
Import ListNotations.
Local Open Scope bool_scope.

Lemma veq_field : forall cp cp' f x,
  cp' ≅ cp -> ckpt_field cp f = Some x -> exists x', ckpt_field cp' f = Some x' /\ x' ≅ x.
Proof.
  intros cp cp' f x Hv Hf.
  destruct cp as [| | | |w| | | | |]; simpl in Hf; try discriminate Hf.
  destruct w as [| |n fs| | | | | | |]; try discriminate Hf.
  inversion Hv as [| | | |v0 w0 Hvw| | | | | |]; subst.
  inversion Hvw as [| |n0 fs0 gs0 HF| | | | | | | |]; subst. simpl.
  clear Hv Hvw. revert x Hf. induction HF as [|[g y] [h z] fs' fs'' [Hn Hy] HF IH]; intros x Hf; simpl in *.
  - discriminate Hf.
  - subst g. destruct (String.eqb f h).
    + inversion Hf; subst. eauto.
    + now apply IH.
Qed.

Section StoreRT.
  Variables J JK : Type.
  Variable jenc : base -> lit -> res J.
  Variable jdec : base -> J -> res lit.
  Variable kenc : base -> lit -> res JK.
  Variable kdec : base -> JK -> res lit.
  Variable reg : registry.
  Variable env : senv.

  Notation SET := (cp_set J JK jenc kenc reg).
  Notation SETS := (cp_sets J JK jenc kenc reg).
  Notation GET := (cp_get J JK jdec kdec reg env).

  Lemma cp_set_inv : forall s id cp s', SET s id cp = Ok s' ->
    exists oi, marshal J JK jenc kenc fixed reg cp = Ok oi /\ s' = (id, oi) :: s.
  Proof.
    unfold cp_set. intros s id cp s' H.
    destruct (marshal J JK jenc kenc fixed reg cp) as [oi| |]; simpl in H; inversion H. eauto.
  Qed.

  (* writes under other ids do not disturb what is stored under [id] *)
  Lemma cp_sets_keeps : forall ws s s' id,
    Forall (fun w => fst w <> id) ws -> SETS s ws = Ok s' -> alist_get id s' = alist_get id s.
  Proof.
    induction ws as [|[id' cp] ws IH]; intros s s' id HF H; simpl in H.
    - inversion H. reflexivity.
    - inversion HF as [|? ? Hne HF']; subst. simpl in Hne.
      destruct (SET s id' cp) as [s1| |] eqn:E; simpl in H; try discriminate H.
      rewrite (IH _ _ _ HF' H).
      destruct (cp_set_inv _ _ _ _ E) as [oi [_ ->]]. simpl.
      destruct (String.eqb id id') eqn:Eq; [|reflexivity].
      apply String.eqb_eq in Eq. congruence.
  Qed.

  (* a failed set is loud and stores nothing: the error is Marshal's *)
  Lemma cp_set_err : forall s id cp e,
    marshal J JK jenc kenc fixed reg cp = Err e -> SET s id cp = Err e.
  Proof. intros s id cp e H. unfold cp_set. now rewrite H. Qed.
End StoreRT.

Lemma store_roundtrip_lemma :
  forall (J JK : Type) (jenc : base -> lit -> res J) (jdec : base -> J -> res lit)
         (kenc : base -> lit -> res JK) (kdec : base -> JK -> res lit) (ureg : registry) (uenv : senv),
    (forall b l j, lit_in_base b l = true -> jsafe l = true -> jenc b l = Ok j -> jdec b j = Ok l) ->
    (forall b l j, lit_in_base b l = true -> jsafe l = true -> kenc b l = Ok j -> kdec b j = Ok l) ->
    NoDup (map fst (ckpt_reg ureg)) ->
    (forall n ds, struct_fields (ckpt_senv uenv) n = Some ds -> NoDup (map fst ds)) ->
    forall s id cp s1 later s2,
      has_type (ckpt_senv uenv) cp t_checkpoint_ptr = true -> safe cp -> defs_ok (ckpt_reg ureg) cp ->
      cp_set J JK jenc kenc (ckpt_reg ureg) s id cp = Ok s1 ->
      Forall (fun w => fst w <> id) later ->
      cp_sets J JK jenc kenc (ckpt_reg ureg) s1 later = Ok s2 ->
      exists cp', cp_get J JK jdec kdec (ckpt_reg ureg) (ckpt_senv uenv) s2 id = Ok (Some cp') /\
                  cp' ≅ cp /\ ty_of cp' = t_checkpoint_ptr /\
                  forall f x, ckpt_field cp f = Some x ->
                    exists x', ckpt_field cp' f = Some x' /\ x' ≅ x.
Proof.
  intros J JK jenc jdec kenc kdec ureg uenv jrt krt Hreg Henv s id cp s1 later s2 Ht Hs Hd Hset Hl Hsets.
  destruct (cp_set_inv _ _ _ _ _ _ _ _ _ Hset) as [oi [Hm ->]].
  destruct (checkpoint_roundtrip_lemma J JK jenc jdec kenc kdec ureg uenv jrt krt Hreg Henv cp oi Ht Hs Hd Hm)
    as [cp' [Hu [Hv Hty]]].
  exists cp'. unfold cp_get. rewrite (cp_sets_keeps _ _ _ _ _ _ _ _ _ Hl Hsets). simpl.
  rewrite String.eqb_refl, Hu. simpl. rewrite Hty, ty_eqb_refl.
  repeat split; try assumption. intros f x Hf. eapply veq_field; eauto.
Qed.

(* ... and get never panics on what set wrote, also for the inputs of the known findings
   (no [safe], no [defs_ok]): the type assertion value.( *checkpoint) holds *)
Lemma store_get_total_lemma :
  forall (J JK : Type) (jenc : base -> lit -> res J) (jdec : base -> J -> res lit)
         (kenc : base -> lit -> res JK) (kdec : base -> JK -> res lit) (ureg : registry) (uenv : senv),
    (forall b j, jdec b j <> Panic) -> (forall b j, kdec b j <> Panic) ->
    NoDup (map fst (ckpt_reg ureg)) ->
    (forall n ds, struct_fields (ckpt_senv uenv) n = Some ds -> NoDup (map fst ds)) ->
    forall s id cp s1 later s2,
      has_type (ckpt_senv uenv) cp t_checkpoint_ptr = true ->
      cp_set J JK jenc kenc (ckpt_reg ureg) s id cp = Ok s1 ->
      Forall (fun w => fst w <> id) later ->
      cp_sets J JK jenc kenc (ckpt_reg ureg) s1 later = Ok s2 ->
      cp_get J JK jdec kdec (ckpt_reg ureg) (ckpt_senv uenv) s2 id <> Panic /\
      forall r, cp_get J JK jdec kdec (ckpt_reg ureg) (ckpt_senv uenv) s2 id = Ok r ->
        exists cp', r = Some cp' /\ ty_of cp' = t_checkpoint_ptr.
Proof.
  intros J JK jenc jdec kenc kdec ureg uenv jnp knp Hreg Henv s id cp s1 later s2 Ht Hset Hl Hsets.
  destruct (cp_set_inv _ _ _ _ _ _ _ _ _ Hset) as [oi [Hm ->]].
  unfold has_type in Ht. apply andb_true_iff in Ht. destruct Ht as [Hwt Hty]. apply ty_eqb_eq in Hty.
  assert (Hi : is_iface (ty_of cp) = false) by (rewrite Hty; reflexivity).
  destruct (unmarshal_total_lemma J JK jenc jdec kenc kdec _ _ jnp knp Hreg Henv cp oi Hwt Hi Hm) as [Hnp Hok].
  unfold cp_get. rewrite (cp_sets_keeps _ _ _ _ _ _ _ _ _ Hl Hsets). simpl. rewrite String.eqb_refl.
  destruct (unmarshal J JK jdec kdec fixed (ckpt_reg ureg) (ckpt_senv uenv) oi) as [v'| |] eqn:Eu; simpl.
  - assert (Hv' : ty_of v' = t_checkpoint_ptr).
    { destruct (Hok v' eq_refl) as [H|[d H]]; [congruence|]. rewrite Hty in H. discriminate H. }
    rewrite Hv', ty_eqb_refl. split; [discriminate|]. intros r Hr. inversion Hr. eauto.
  - split; [discriminate|]. intros r Hr. discriminate Hr.
  - congruence.
Qed.
