(* Proofs/TaskMgr.v — invariant of the hand-off LTS (Model/TaskMgr.v) and its consequences:
   exactly-once, no lost wake-up, panic = error. Progress is in Proofs/TaskMgrProgress.v. *)
From Eino Require Import Base.Util Model.TaskMgr.
From Coq Require Import Permutation.

Local Notation length := List.length.

(* ------------------------------------------------------------------ program-counter map *)

Lemma get_pc_set t t' p p0 b m :
  get_pc t m = Some (p0, b) ->
  get_pc t' (set_st t p m) = if N.eqb t' t then Some (p, b) else get_pc t' m.
Proof.
  induction m as [|[t2 [p2 b2]] m IH]; simpl; [discriminate|].
  destruct (N.eqb t t2) eqn:E.
  - intros H; inversion H; subst. apply N.eqb_eq in E; subst t2. simpl.
    destruct (N.eqb t' t); reflexivity.
  - intros H. simpl. destruct (N.eqb t' t2) eqn:E2.
    + apply N.eqb_eq in E2; subst t2. rewrite N.eqb_sym in E. rewrite E. reflexivity.
    + apply IH; assumption.
Qed.

Lemma get_pc_app t' t pb m :
  get_pc t' (m ++ [(t, pb)]) =
  match get_pc t' m with Some x => Some x | None => if N.eqb t' t then Some pb else None end.
Proof.
  induction m as [|[t2 pb2] m IH]; simpl; [reflexivity|].
  destruct (N.eqb t' t2); [reflexivity|apply IH].
Qed.

Lemma map_fst_set t p m : map fst (set_st t p m) = map fst m.
Proof.
  induction m as [|[t2 [p2 b2]] m IH]; simpl; [reflexivity|].
  destruct (N.eqb t t2); simpl; [reflexivity|f_equal; apply IH].
Qed.

Lemma length_set t p m : length (set_st t p m) = length m.
Proof. rewrite <- (map_length fst), map_fst_set, map_length. reflexivity. Qed.

Lemma get_pc_none t m : get_pc t m = None <-> ~ In t (map fst m).
Proof.
  induction m as [|[t2 pb2] m IH]; simpl; [tauto|].
  destruct (N.eqb t t2) eqn:E.
  - apply N.eqb_eq in E; subst. split; [discriminate|intros H; exfalso; apply H; auto].
  - apply N.eqb_neq in E. rewrite IH. split; [intros H [H1|H1]; [congruence|auto]|intros H H1; apply H; auto].
Qed.

(* ------------------------------------------------------------------ where finished tasks live *)

Definition opt_list (o : option entry) : list entry := match o with Some x => [x] | None => [] end.
Definition got_list (c : cpc) : list entry :=
  match c with CGot x | CTop x | CFull x => [x] | _ => [] end.
Definition places (s : st) : list entry := l s ++ opt_list (done s) ++ got_list (cp s) ++ collected s.

Definition holding (p : stage) : bool := match p with ELk | ETop | EOut => true | _ => false end.
Definition pushedb (p : stage) : bool := match p with ETop | EOut | EDone => true | _ => false end.
Definition ctop (c : cpc) : bool := match c with CTop _ | CFull _ => true | _ => false end.
Definition idle (c : cpc) : bool := match c with CIdle | CSync _ | CWait => true | _ => false end.
Definition waiting (c : cpc) : nat := match c with CWait => 1 | _ => 0 end.

Definition pushed (s : st) (t : task) : Prop :=
  exists p b, get_pc t (epcs s) = Some (p, b) /\ pushedb p = true.

Record Inv (s : st) : Prop := mkInv {
  i_nodup : NoDup (map fst (places s));
  i_places : forall t, In t (map fst (places s)) <-> pushed s t;
  i_hold : forall t p b, get_pc t (epcs s) = Some (p, b) -> holding p = true -> lock s = HExec t;
  i_lockE : forall t, lock s = HExec t -> exists p b, get_pc t (epcs s) = Some (p, b) /\ holding p = true;
  i_lockC : lock s = HColl <-> ctop (cp s) = true;
  i_wake : idle (cp s) = true -> done s = None ->
           l s = [] \/ exists x b, lock s = HExec x /\ get_pc x (epcs s) = Some (ETop, b) /\ l s = [(x, err_of b)];
  i_full : forall x, cp s = CFull x -> done s <> None;
  i_out : forall t b, get_pc t (epcs s) = Some (EOut, b) -> idle (cp s) = true -> done s <> None;
  i_count : num s + waiting (cp s) + length (got_list (cp s)) + length (collected s) = length (epcs s);
  i_flag : forall t e, In (t, e) (places s) -> exists p b, get_pc t (epcs s) = Some (p, b) /\ e = err_of b;
  i_sync : forall t, cp s = CSync t -> get_pc t (epcs s) <> None;
  i_keys : NoDup (map fst (epcs s));
}.

Lemma inv_init : Inv init.
Proof.
  constructor; unfold init, places, pushed; simpl; try (intros; discriminate); try tauto; auto.
  - constructor.
  - intros t; split; [tauto|]. intros (p & b & H & _); discriminate.
  - split; discriminate.
  - constructor.
Qed.

(* every step permutes the places of finished tasks or adds exactly the entry that was pushed *)
Ltac psolve := simpl; rewrite <- ?app_assoc; simpl; rewrite ?app_assoc;
  repeat (rewrite <- Permutation_middle; simpl); rewrite <- ?app_assoc; rewrite ?app_nil_r; try reflexivity.

Lemma step_places s s' :
  step s s' ->
  Permutation (places s') (places s) \/
  (exists t b, lock s = HExec t /\ get_pc t (epcs s) = Some (ELk, b) /\
               epcs s' = set_st t ETop (epcs s) /\
               Permutation (places s') ((t, err_of b) :: places s)).
Proof.
  intros Hs; destruct Hs; unfold places; simpl;
    repeat match goal with
           | H : cp s = _ |- _ => rewrite H
           | H : l s = _ |- _ => rewrite H
           | H : done s = _ |- _ => rewrite H
           | H : _ /\ _ \/ _ |- _ => destruct H as [[? ?]|?]
           end; simpl;
    try (left; psolve; fail).
  right. exists t, b. repeat split; auto. psolve.
Qed.

(* ------------------------------------------------------------------ preservation, clause by clause *)

Ltac pcs := repeat match goal with
  | H : get_pc ?t ?m = Some (?p0, ?b) |- context [get_pc ?t' (set_st ?t ?p ?m)] =>
      rewrite (get_pc_set t t' p p0 b m H)
  | H : get_pc ?t ?m = Some (?p0, ?b), H2 : context [get_pc ?t' (set_st ?t ?p ?m)] |- _ =>
      rewrite (get_pc_set t t' p p0 b m H) in H2
  | |- context [get_pc _ (_ ++ [_])] => rewrite get_pc_app
  | H : context [get_pc _ (_ ++ [_])] |- _ => rewrite get_pc_app in H
  end.

Ltac split_or := repeat match goal with
  | H : _ /\ _ \/ _ |- _ => destruct H as [[? ?]|?]
  end.

Ltac rw_state s := repeat match goal with
  | H : cp s = _ |- _ => rewrite H in *
  | H : lock s = _ |- _ => rewrite H in *
  | H : l s = _ :: _ |- _ => rewrite H in *
  | H : l s = [] |- _ => rewrite H in *
  | H : done s = Some _ |- _ => rewrite H in *
  | H : done s = None |- _ => rewrite H in *
  | H : num s = _ |- _ => rewrite H in *
  end.

Lemma NoDup_snoc {A} (m : list A) a : NoDup m -> ~ In a m -> NoDup (m ++ [a]).
Proof.
  intros H1 H2. apply (Permutation_NoDup (l := a :: m)); [apply Permutation_cons_append|].
  constructor; assumption.
Qed.

Lemma pres_keys s s' : Inv s -> step s s' -> NoDup (map fst (epcs s')).
Proof.
  intros I Hs. pose proof (i_keys s I) as K.
  destruct Hs; simpl; rewrite ?map_fst_set; auto;
    rewrite map_app; simpl; apply NoDup_snoc; auto; apply get_pc_none; assumption.
Qed.

Lemma pres_count s s' : Inv s -> step s s' ->
  num s' + waiting (cp s') + length (got_list (cp s')) + length (collected s') = length (epcs s').
Proof.
  intros I Hs. pose proof (i_count s I) as K.
  destruct Hs; simpl; split_or; rw_state s; simpl in *; rewrite ?length_set, ?app_length; simpl; lia.
Qed.

Lemma pres_lockC s s' : Inv s -> step s s' -> (lock s' = HColl <-> ctop (cp s') = true).
Proof.
  intros I Hs. pose proof (i_lockC s I) as K.
  destruct Hs; simpl; split_or; rw_state s; simpl in *; try tauto;
    try (split; intros; discriminate); try (split; intros; reflexivity).
  - (* exec_lock: lock was HNone, cp unchanged *)
    split; [discriminate|]. intros Hc. apply K in Hc. discriminate.
  - (* exec_unlock *) split; [discriminate|]. intros Hc. apply K in Hc. discriminate.
  - split; [discriminate|]. intros Hc. apply K in Hc. discriminate.
Qed.

Lemma pres_full s s' : Inv s -> step s s' -> forall x, cp s' = CFull x -> done s' <> None.
Proof.
  intros I Hs. pose proof (i_full s I) as K.
  destruct Hs; simpl; intros x0 Hc; split_or; try discriminate; try (eapply K; eassumption); try congruence.
Qed.
