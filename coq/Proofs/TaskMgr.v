(* Proofs/TaskMgr.v — invariant of the hand-off LTS (Model/TaskMgr.v) and its consequences:
   exactly-once, no lost wake-up, panic = error. Progress is in Proofs/TaskMgrProgress.v. *)
From Eino Require Import Base.Util Model.TaskMgr.
From Coq Require Import Permutation.

Local Notation length := List.length.

(* ------------------------------------------------------------------ program-counter map *)

Lemma get_pc_set t t' p p0 b m :
  get_pc t m = Some (p0, b) ->
  get_pc t' (set_st t p m) = if N.eqb t' t then Some (p, b) else get_pc t' m.
Proof.
  induction m as [|[t2 [p2 b2]] m IH]; simpl; [discriminate|].
  destruct (N.eqb t t2) eqn:E.
  - intros H; inversion H; subst. apply N.eqb_eq in E; subst t2. simpl.
    destruct (N.eqb t' t); reflexivity.
  - intros H. simpl. destruct (N.eqb t' t2) eqn:E2.
    + apply N.eqb_eq in E2; subst t2. rewrite N.eqb_sym in E. rewrite E. reflexivity.
    + apply IH; assumption.
Qed.

Lemma get_pc_app t' t pb m :
  get_pc t' (m ++ [(t, pb)]) =
  match get_pc t' m with Some x => Some x | None => if N.eqb t' t then Some pb else None end.
Proof.
  induction m as [|[t2 pb2] m IH]; simpl; [reflexivity|].
  destruct (N.eqb t' t2); [reflexivity|apply IH].
Qed.

Lemma map_fst_set t p m : map fst (set_st t p m) = map fst m.
Proof.
  induction m as [|[t2 [p2 b2]] m IH]; simpl; [reflexivity|].
  destruct (N.eqb t t2); simpl; [reflexivity|f_equal; apply IH].
Qed.

Lemma length_set t p m : length (set_st t p m) = length m.
Proof. rewrite <- (map_length fst), map_fst_set, map_length. reflexivity. Qed.

Lemma get_pc_none t m : get_pc t m = None <-> ~ In t (map fst m).
Proof.
  induction m as [|[t2 pb2] m IH]; simpl; [tauto|].
  destruct (N.eqb t t2) eqn:E.
  - apply N.eqb_eq in E; subst. split; [discriminate|intros H; exfalso; apply H; auto].
  - apply N.eqb_neq in E. rewrite IH. split; [intros H [H1|H1]; [congruence|auto]|intros H H1; apply H; auto].
Qed.

(* ------------------------------------------------------------------ where finished tasks live *)

Definition opt_list (o : option entry) : list entry := match o with Some x => [x] | None => [] end.
Definition got_list (c : cpc) : list entry :=
  match c with CGot x | CTop x | CFull x => [x] | _ => [] end.
Definition places (s : st) : list entry := l s ++ opt_list (done s) ++ got_list (cp s) ++ collected s.

Definition holding (p : stage) : bool := match p with ELk | ETop | EOut => true | _ => false end.
Definition pushedb (p : stage) : bool := match p with ETop | EOut | EDone => true | _ => false end.
Definition ctop (c : cpc) : bool := match c with CTop _ | CFull _ => true | _ => false end.
Definition idle (c : cpc) : bool := match c with CIdle | CSync _ | CWait => true | _ => false end.
Definition waiting (c : cpc) : nat := match c with CWait => 1 | _ => 0 end.

Definition pushed (s : st) (t : task) : Prop :=
  exists p b, get_pc t (epcs s) = Some (p, b) /\ pushedb p = true.

Record Inv (s : st) : Prop := mkInv {
  i_nodup : NoDup (map fst (places s));
  i_places : forall t, In t (map fst (places s)) <-> pushed s t;
  i_hold : forall t p b, get_pc t (epcs s) = Some (p, b) -> holding p = true -> lock s = HExec t;
  i_lockE : forall t, lock s = HExec t -> exists p b, get_pc t (epcs s) = Some (p, b) /\ holding p = true;
  i_lockC : lock s = HColl <-> ctop (cp s) = true;
  i_wake : idle (cp s) = true -> done s = None ->
           l s = [] \/ exists x b, lock s = HExec x /\ get_pc x (epcs s) = Some (ETop, b) /\ l s = [(x, err_of b)];
  i_full : forall x, cp s = CFull x -> done s <> None;
  i_out : forall t b, get_pc t (epcs s) = Some (EOut, b) -> idle (cp s) = true -> done s <> None;
  i_count : num s + waiting (cp s) + length (got_list (cp s)) + length (collected s) = length (epcs s);
  i_flag : forall t e, In (t, e) (places s) -> exists p b, get_pc t (epcs s) = Some (p, b) /\ e = err_of b;
  i_sync : forall t, cp s = CSync t -> get_pc t (epcs s) <> None;
  i_keys : NoDup (map fst (epcs s));
}.

Lemma inv_init : Inv init.
Proof.
  constructor; unfold init, places, pushed; simpl; try (intros; discriminate); try tauto; auto.
  - constructor.
  - intros t; split; [tauto|]. intros (p & b & H & _); discriminate.
  - split; discriminate.
  - constructor.
Qed.

(* every step permutes the places of finished tasks or adds exactly the entry that was pushed *)
Ltac psolve := simpl; rewrite <- ?app_assoc; simpl; rewrite ?app_assoc;
  repeat (rewrite <- Permutation_middle; simpl); rewrite <- ?app_assoc; rewrite ?app_nil_r; try reflexivity.

Lemma step_places s s' :
  step s s' ->
  Permutation (places s') (places s) \/
  (exists t b, lock s = HExec t /\ get_pc t (epcs s) = Some (ELk, b) /\
               epcs s' = set_st t ETop (epcs s) /\
               Permutation (places s') ((t, err_of b) :: places s)).
Proof.
  intros Hs; destruct Hs; unfold places; simpl;
    repeat match goal with
           | H : cp s = _ |- _ => rewrite H
           | H : l s = _ |- _ => rewrite H
           | H : done s = _ |- _ => rewrite H
           | H : _ /\ _ \/ _ |- _ => destruct H as [[? ?]|?]
           end; simpl;
    try (left; psolve; fail).
  right. exists t, b. repeat split; auto. psolve.
Qed.

(* ------------------------------------------------------------------ preservation, clause by clause *)

Ltac pcs := repeat match goal with
  | H : get_pc ?t ?m = Some (?p0, ?b) |- context [get_pc ?t' (set_st ?t ?p ?m)] =>
      rewrite (get_pc_set t t' p p0 b m H)
  | H : get_pc ?t ?m = Some (?p0, ?b), H2 : context [get_pc ?t' (set_st ?t ?p ?m)] |- _ =>
      rewrite (get_pc_set t t' p p0 b m H) in H2
  | |- context [get_pc _ (_ ++ [_])] => rewrite get_pc_app
  | H : context [get_pc _ (_ ++ [_])] |- _ => rewrite get_pc_app in H
  end.

Ltac split_or := repeat match goal with
  | H : _ /\ _ \/ _ |- _ => destruct H as [[? ?]|?]
  end.

Ltac rw_state s := repeat match goal with
  | H : cp s = _ |- _ => rewrite H in *
  | H : lock s = _ |- _ => rewrite H in *
  | H : l s = _ :: _ |- _ => rewrite H in *
  | H : l s = [] |- _ => rewrite H in *
  | H : done s = Some _ |- _ => rewrite H in *
  | H : done s = None |- _ => rewrite H in *
  | H : num s = _ |- _ => rewrite H in *
  end.

Lemma NoDup_snoc {A} (m : list A) a : NoDup m -> ~ In a m -> NoDup (m ++ [a]).
Proof.
  intros H1 H2. apply (Permutation_NoDup (l := a :: m)); [apply Permutation_cons_append|].
  constructor; assumption.
Qed.

Lemma pres_keys s s' : Inv s -> step s s' -> NoDup (map fst (epcs s')).
Proof.
  intros I Hs. pose proof (i_keys s I) as K.
  destruct Hs; simpl; rewrite ?map_fst_set; auto;
    rewrite map_app; simpl; apply NoDup_snoc; auto; apply get_pc_none; assumption.
Qed.

Lemma pres_count s s' : Inv s -> step s s' ->
  num s' + waiting (cp s') + length (got_list (cp s')) + length (collected s') = length (epcs s').
Proof.
  intros I Hs. pose proof (i_count s I) as K.
  destruct Hs; simpl; split_or; rw_state s; simpl in *; rewrite ?length_set, ?app_length; simpl; lia.
Qed.

Lemma pres_lockC s s' : Inv s -> step s s' -> (lock s' = HColl <-> ctop (cp s') = true).
Proof.
  intros I Hs. pose proof (i_lockC s I) as K.
  destruct Hs; simpl; split_or; rw_state s; simpl in *; try tauto;
    try (split; intros; discriminate); try (split; intros; reflexivity).
  - (* exec_lock: lock was HNone, cp unchanged *)
    split; [discriminate|]. intros Hc. apply K in Hc. discriminate.
  - (* exec_unlock *) split; [discriminate|]. intros Hc. apply K in Hc. discriminate.
  - split; [discriminate|]. intros Hc. apply K in Hc. discriminate.
Qed.

Lemma pres_full s s' : Inv s -> step s s' -> forall x, cp s' = CFull x -> done s' <> None.
Proof.
  intros I Hs. pose proof (i_full s I) as K.
  destruct Hs; simpl; intros x0 Hc; split_or; try discriminate; try (eapply K; eassumption); try congruence.
Qed.

Ltac eqcase t' t := destruct (N.eqb t' t) eqn:?E;
  [apply N.eqb_eq in E; subst t' | apply N.eqb_neq in E].

Lemma pres_hold s s' : Inv s -> step s s' ->
  forall t p b, get_pc t (epcs s') = Some (p, b) -> holding p = true -> lock s' = HExec t.
Proof.
  intros I Hs. pose proof (i_hold s I) as K. pose proof (i_lockC s I) as KC.
  destruct Hs; simpl; intros t' p' b' Hg Hh; pcs.
  - (* spawn *) destruct (get_pc t' (epcs s)) as [[p1 b1]|] eqn:G.
    + inversion Hg; subst. eapply K; eauto.
    + destruct (N.eqb t' t); inversion Hg; subst; discriminate.
  - destruct (get_pc t' (epcs s)) as [[p1 b1]|] eqn:G.
    + inversion Hg; subst. eapply K; eauto.
    + destruct (N.eqb t' t); inversion Hg; subst; discriminate.
  - eapply K; eauto.
  - eapply K; eauto.
  - (* exec_lock *) eqcase t' t; [reflexivity|]. specialize (K _ _ _ Hg Hh). congruence.
  - (* push *) eqcase t' t; [assumption|]. eapply K; eauto.
  - eapply K; eauto.
  - (* full *) eqcase t' t; [assumption|]. eapply K; eauto.
  - (* unlock *) eqcase t' t.
    + inversion Hg; subst. discriminate.
    + specialize (K _ _ _ Hg Hh). congruence.
  - eapply K; eauto.
  - (* coll_lock *) specialize (K _ _ _ Hg Hh). congruence.
  - eapply K; eauto.
  - eapply K; eauto.
  - (* coll_unlock *) specialize (K _ _ _ Hg Hh).
    assert (lock s = HColl) by (apply KC; split_or; rw_state s; reflexivity). congruence.
Qed.

Lemma pres_lockE s s' : Inv s -> step s s' ->
  forall t, lock s' = HExec t -> exists p b, get_pc t (epcs s') = Some (p, b) /\ holding p = true.
Proof.
  intros I Hs. pose proof (i_lockE s I) as K.
  destruct Hs; simpl; intros t' Hl; try discriminate; pcs.
  - destruct (K _ Hl) as (p1 & b1 & G & Hh). rewrite G. eauto.
  - destruct (K _ Hl) as (p1 & b1 & G & Hh). rewrite G. eauto.
  - eauto.
  - eauto.
  - inversion Hl; subst. rewrite N.eqb_refl. eexists _, _; split; [reflexivity|reflexivity].
  - rewrite H in Hl; inversion Hl; subst. rewrite N.eqb_refl. eexists _, _; split; reflexivity.
  - eauto.
  - rewrite H in Hl; inversion Hl; subst. rewrite N.eqb_refl. eexists _, _; split; reflexivity.
  - eauto.
  - eauto.
  - eauto.
Qed.

Lemma pres_sync s s' : Inv s -> step s s' -> forall t, cp s' = CSync t -> get_pc t (epcs s') <> None.
Proof.
  intros I Hs. pose proof (i_sync s I) as K.
  destruct Hs; simpl; intros t' Hc; try discriminate; pcs;
    try (apply K; congruence);
    try (specialize (K t' Hc); eqcase t' t; [discriminate|assumption]).
  inversion Hc; subst. destruct (get_pc t' (epcs s)); [discriminate|]. rewrite N.eqb_refl. discriminate.
Qed.

Lemma pres_out s s' : Inv s -> step s s' ->
  forall t b, get_pc t (epcs s') = Some (EOut, b) -> idle (cp s') = true -> done s' <> None.
Proof.
  intros I Hs. pose proof (i_out s I) as K. pose proof (i_hold s I) as KH. pose proof (i_lockC s I) as KC.
  destruct Hs; simpl; intros t' b' Hg Hi; pcs; try discriminate; try (rw_state s; simpl in *; discriminate).
  - destruct (get_pc t' (epcs s)) as [[p1 b1]|] eqn:G.
    + inversion Hg; subst. eapply K; eauto. rewrite H; reflexivity.
    + destruct (N.eqb t' t); discriminate.
  - destruct (get_pc t' (epcs s)) as [[p1 b1]|] eqn:G.
    + inversion Hg; subst. eapply K; eauto. rewrite H; reflexivity.
    + destruct (N.eqb t' t); discriminate.
  - eapply K; eauto. rewrite H; reflexivity.
  - eapply K; eauto. rewrite H; reflexivity.
  - eqcase t' t; [discriminate|]. eapply K; eauto.
  - eqcase t' t; [discriminate|]. eapply K; eauto.
  - eqcase t' t; [assumption|]. eapply K; eauto.
  - eqcase t' t; [discriminate|]. eapply K; eauto.
  - (* coll_unlock: the collector held the lock, nobody can be in EOut *)
    assert (lock s = HColl) by (apply KC; split_or; rw_state s; reflexivity).
    specialize (KH _ _ _ Hg eq_refl). congruence.
Qed.

Lemma step_pc_keep s s' t p b :
  step s s' -> get_pc t (epcs s) = Some (p, b) -> exists p', get_pc t (epcs s') = Some (p', b).
Proof.
  intros Hs G. destruct Hs; simpl; pcs; rewrite ?G; eauto.
  all: eqcase t t0; [|eauto].
  all: match goal with G1 : get_pc ?x ?m = Some (?p1, ?b1), H1 : get_pc ?x ?m = Some (?p2, ?b2) |- _ =>
         rewrite G1 in H1; inversion H1; subst; eauto end.
Qed.

Lemma pres_flag s s' : Inv s -> step s s' ->
  forall t e, In (t, e) (places s') -> exists p b, get_pc t (epcs s') = Some (p, b) /\ e = err_of b.
Proof.
  intros I Hs t e Hin. pose proof (i_flag s I) as K.
  destruct (step_places s s' Hs) as [P|(t0 & b0 & Hl & G & He & P)].
  - apply (Permutation_in _ P) in Hin. destruct (K _ _ Hin) as (p & b & G & E).
    destruct (step_pc_keep _ _ _ _ _ Hs G) as (p' & G'). eauto.
  - apply (Permutation_in _ P) in Hin. destruct Hin as [Hin|Hin].
    + inversion Hin; subst. rewrite He. rewrite (get_pc_set _ _ _ _ _ _ G), N.eqb_refl. eauto.
    + destruct (K _ _ Hin) as (p & b & G1 & E).
      destruct (step_pc_keep _ _ _ _ _ Hs G1) as (p' & G'). eauto.
Qed.

(* which tasks count as pushed changes only by the push step *)
Lemma pushed_app s t1 b1 m' :
  get_pc t1 (epcs s) = None -> m' = epcs s ++ [(t1, (ERun, b1))] ->
  forall t, (exists p b, get_pc t m' = Some (p, b) /\ pushedb p = true) <-> pushed s t.
Proof.
  intros G -> t. unfold pushed. rewrite get_pc_app.
  destruct (get_pc t (epcs s)) as [[p0 b0]|] eqn:G0; [tauto|].
  split; intros (p & b & H & Hp); [|discriminate].
  destruct (N.eqb t t1); inversion H; subst; discriminate.
Qed.

Lemma pushed_set s t1 p0 p1 b1 :
  get_pc t1 (epcs s) = Some (p0, b1) ->
  forall t, (exists p b, get_pc t (set_st t1 p1 (epcs s)) = Some (p, b) /\ pushedb p = true) <->
            (if N.eqb t t1 then pushedb p1 = true else pushed s t).
Proof.
  intros G t. rewrite (get_pc_set _ _ _ _ _ _ G). unfold pushed.
  destruct (N.eqb t t1); [|tauto].
  split; [intros (p & b & H & Hp); inversion H; subst; assumption|intros H; eauto].
Qed.

Lemma step_pushed s s' :
  step s s' ->
  (forall t, pushed s' t <-> pushed s t) \/
  (exists t0 b0, get_pc t0 (epcs s) = Some (ELk, b0) /\ epcs s' = set_st t0 ETop (epcs s) /\
                 forall t, pushed s' t <-> t = t0 \/ pushed s t).
Proof.
  intros Hs. destruct Hs; try (left; intros t'; unfold pushed; simpl; tauto).
  - left. eapply pushed_app; [eassumption|reflexivity].
  - left. eapply pushed_app; [eassumption|reflexivity].
  - left. intros t'. unfold pushed at 1; simpl. rewrite (pushed_set _ _ _ _ _ H).
    eqcase t' t; [|tauto]. unfold pushed. rewrite H. split; [discriminate|].
    intros (p & b1 & G & Hp); inversion G; subst; discriminate.
  - right. exists t, b. split; [assumption|]. split; [reflexivity|].
    intros t'. unfold pushed at 1; simpl. rewrite (pushed_set _ _ _ _ _ H0).
    eqcase t' t; [tauto|]. split; [auto|]. intros [?|?]; [congruence|assumption].
  - left. intros t'. unfold pushed at 1; simpl. rewrite (pushed_set _ _ _ _ _ H0).
    eqcase t' t; [|tauto]. unfold pushed. rewrite H0. split; [eauto|reflexivity].
  - left. intros t'. unfold pushed at 1; simpl. rewrite (pushed_set _ _ _ _ _ H0).
    eqcase t' t; [|tauto]. unfold pushed. rewrite H0.
    split; [intros _; exists p, b; split; [reflexivity|destruct H1 as [[-> _]| ->]; reflexivity]|reflexivity].
Qed.


Ltac places_tac s :=
  unfold places; simpl;
  repeat match goal with
         | H : cp s = _ |- _ => rewrite H
         | H : l s = _ |- _ => rewrite H
         | H : done s = _ |- _ => rewrite H
         end; simpl; psolve.

Lemma step_pp s s' :
  step s s' ->
  (Permutation (places s') (places s) /\ forall t, pushed s' t <-> pushed s t) \/
  (exists t0 b0, get_pc t0 (epcs s) = Some (ELk, b0) /\
                 Permutation (places s') ((t0, err_of b0) :: places s) /\
                 forall t, pushed s' t <-> t = t0 \/ pushed s t).
Proof.
  intros Hs. destruct Hs; split_or;
    try (left; split; [places_tac s|intros t'; unfold pushed; simpl; tauto]; fail).
  - left; split; [places_tac s|]. eapply pushed_app; [eassumption|reflexivity].
  - left; split; [places_tac s|]. eapply pushed_app; [eassumption|reflexivity].
  - left; split; [places_tac s|]. intros t'. unfold pushed at 1; simpl. rewrite (pushed_set _ _ _ _ _ H).
    eqcase t' t; [|tauto]. unfold pushed. rewrite H. split; [discriminate|].
    intros (p & b1 & G & Hp); inversion G; subst; discriminate.
  - right. exists t, b. split; [assumption|]. split; [places_tac s|].
    intros t'. unfold pushed at 1; simpl. rewrite (pushed_set _ _ _ _ _ H0).
    eqcase t' t; [tauto|]. split; [auto|]. intros [?|?]; [congruence|assumption].
  - left; split; [places_tac s|]. intros t'. unfold pushed at 1; simpl. rewrite (pushed_set _ _ _ _ _ H0).
    eqcase t' t; [|tauto]. unfold pushed. rewrite H0. split; [eauto|reflexivity].
  - left; split; [places_tac s|]. subst p. intros t'. unfold pushed at 1; simpl. rewrite (pushed_set _ _ _ _ _ H0).
    eqcase t' t; [|tauto]. unfold pushed. rewrite H0. split; [eauto|reflexivity].
  - left; split; [places_tac s|]. subst p. intros t'. unfold pushed at 1; simpl. rewrite (pushed_set _ _ _ _ _ H0).
    eqcase t' t; [|tauto]. unfold pushed. rewrite H0. split; [eauto|reflexivity].
Qed.

Lemma pres_places s s' : Inv s -> step s s' ->
  NoDup (map fst (places s')) /\ (forall t, In t (map fst (places s')) <-> pushed s' t).
Proof.
  intros I Hs. pose proof (i_nodup s I) as KN. pose proof (i_places s I) as KP.
  destruct (step_pp s s' Hs) as [[P Q]|(t0 & b0 & G & P & Q)].
  - split.
    + apply (Permutation_NoDup (l := map fst (places s))); [apply Permutation_map; symmetry; exact P|exact KN].
    + intros t. rewrite Q, <- KP. split; apply Permutation_in; apply Permutation_map; [exact P|symmetry; exact P].
  - assert (Hn : ~ In t0 (map fst (places s))).
    { rewrite KP. intros (p & b & G2 & Hp). rewrite G in G2. inversion G2; subst. discriminate. }
    split.
    + apply (Permutation_NoDup (l := t0 :: map fst (places s))).
      * symmetry. apply (Permutation_map fst) in P. exact P.
      * constructor; assumption.
    + intros t. rewrite Q, <- KP. apply (Permutation_map fst) in P. simpl in P.
      split; intros H.
      * apply (Permutation_in _ P) in H. destruct H; auto.
      * apply (Permutation_in _ (Permutation_sym P)). destruct H; [left; auto|right; auto].
Qed.

Lemma pres_wake s s' : Inv s -> step s s' ->
  idle (cp s') = true -> done s' = None ->
  l s' = [] \/ exists x b, lock s' = HExec x /\ get_pc x (epcs s') = Some (ETop, b) /\ l s' = [(x, err_of b)].
Proof.
  intros I Hs. pose proof (i_wake s I) as K. pose proof (i_out s I) as KO. pose proof (i_full s I) as KF.
  destruct Hs; simpl; intros Hi Hd; try discriminate.
  - (* spawn *) destruct K as [K|(x & b1 & K1 & K2 & K3)]; [rewrite H; reflexivity|assumption|auto|].
    right. exists x, b1. rewrite get_pc_app, K2. auto.
  - destruct K as [K|(x & b1 & K1 & K2 & K3)]; [rewrite H; reflexivity|assumption|auto|].
    right. exists x, b1. rewrite get_pc_app, K2. auto.
  - apply K; [rewrite H; reflexivity|assumption].
  - apply K; [rewrite H; reflexivity|assumption].
  - (* exec_lock *) destruct (K Hi Hd) as [K0|(x & b1 & K1 & _)]; [auto|congruence].
  - (* push *) destruct (K Hi Hd) as [K0|(x & b1 & K1 & K2 & K3)].
    + rewrite K0. simpl. right. exists t, b. rewrite (get_pc_set _ _ _ _ _ _ H0), N.eqb_refl. auto.
    + rewrite H in K1; inversion K1; subst. rewrite H0 in K2; discriminate.
  - (* full *) contradiction.
  - (* unlock *) destruct H1 as [[-> Hl]| ->]; [auto|]. exfalso. eapply KO; eauto.
  - (* coll_unlock *) destruct H as [[_ Hl]|Hc]; [auto|]. exfalso. eapply KF; eauto.
Qed.

Theorem inv_step s s' : Inv s -> step s s' -> Inv s'.
Proof.
  intros I Hs. destruct (pres_places s s' I Hs) as [P1 P2].
  constructor.
  - exact P1.
  - exact P2.
  - exact (pres_hold s s' I Hs).
  - exact (pres_lockE s s' I Hs).
  - exact (pres_lockC s s' I Hs).
  - exact (pres_wake s s' I Hs).
  - exact (pres_full s s' I Hs).
  - exact (pres_out s s' I Hs).
  - exact (pres_count s s' I Hs).
  - exact (pres_flag s s' I Hs).
  - exact (pres_sync s s' I Hs).
  - exact (pres_keys s s' I Hs).
Qed.

Theorem inv_reach s : reach s -> Inv s.
Proof. induction 1; [apply inv_init|eapply inv_step; eassumption]. Qed.

(* ------------------------------------------------------------------ consequences *)

(* C03 "every node execution that was started is collected exactly once": a finished (pushed)
   task sits in exactly one of l / done / the collector's hands / collected, an unfinished one in
   none, and what has been collected stays collected. *)
Lemma NoDup_app_r {A} (a b : list A) : NoDup (a ++ b) -> NoDup b.
Proof. induction a; simpl; [auto|]. intros H; inversion H; auto. Qed.

Lemma exactly_once s :
  reach s ->
  (forall t, pushed s t -> count_occ N.eq_dec (map fst (places s)) t = 1) /\
  (forall t, ~ pushed s t -> count_occ N.eq_dec (map fst (places s)) t = 0) /\
  NoDup (map fst (collected s)) /\
  (forall s', step s s' -> incl (collected s) (collected s')).
Proof.
  intros R. pose proof (inv_reach s R) as I.
  pose proof (i_nodup s I) as KN. pose proof (i_places s I) as KP.
  repeat split.
  - intros t Hp. apply KP in Hp.
    pose proof (proj1 (NoDup_count_occ N.eq_dec _) KN t) as Hle.
    apply (count_occ_In N.eq_dec) in Hp. lia.
  - intros t Hp. apply count_occ_not_In. rewrite KP. exact Hp.
  - unfold places in KN. rewrite !map_app in KN.
    apply NoDup_app_r in KN. apply NoDup_app_r in KN. apply NoDup_app_r in KN. exact KN.
  - intros s' Hs x Hx. destruct Hs; simpl; auto; right; exact Hx.
Qed.

(* C03 "no completion lost": the collector never sleeps on an empty slot while a finished task is
   waiting to be handed over. *)
Lemma no_lost_wakeup s :
  reach s -> cp s = CWait ->
  (exists t b, get_pc t (epcs s) = Some (EDone, b) /\ ~ In t (map fst (collected s))) ->
  done s <> None.
Proof.
  intros R Hc (t & b & G & Hn) Hd. pose proof (inv_reach s R) as I.
  assert (Hp : pushed s t) by (exists EDone, b; auto).
  apply (i_places s I) in Hp. unfold places in Hp. rewrite Hc, Hd in Hp. simpl in Hp.
  rewrite map_app in Hp. apply in_app_or in Hp. destruct Hp as [Hp|Hp]; [|contradiction].
  destruct (i_wake s I) as [K|(x & b1 & K1 & K2 & K3)]; [rewrite Hc; reflexivity|assumption| |].
  - rewrite K in Hp. destruct Hp.
  - rewrite K3 in Hp. simpl in Hp. destruct Hp as [Hp|[]]. subst x. rewrite G in K2. discriminate.
Qed.

(* C03 "a panic in a node body becomes that task's error": whatever is handed over or collected
   for a task whose body panicked (or failed) carries the error flag *)
Lemma panic_is_error s t e p :
  reach s -> In (t, e) (places s) -> get_pc t (epcs s) = Some (p, BPanic) -> e = true.
Proof.
  intros R Hin G. destruct (i_flag s (inv_reach s R) _ _ Hin) as (p1 & b1 & G1 & E).
  rewrite G in G1. inversion G1; subst. reflexivity.
Qed.
