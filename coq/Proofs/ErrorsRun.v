(* Proofs/ErrorsRun.v — property C13, part 2: the run loop.  Which errors a (nested) run may
   return, where they come from, and that a failing node's error is reported. *)
From Eino Require Import Base.Util Model.Errors Proofs.Errors.

(* ------------------------------------------------------------------ one step: stage_fold as a specification *)

Definition real_errors (es : list err) : list err := filter (fun e => negb (is_interrupt_task e)) es.

Definition all_fails (rs : list (string * nres)) : list err :=
  flat_map (fun kr => match snd kr with NErr es => map (wrap_node (fst kr)) (real_errors es) | _ => [] end) rs.
Definition all_items (rs : list (string * nres)) : list item :=
  flat_map (fun kr => match snd kr with NOk it _ => it | _ => [] end) rs.
Definition any_int (rs : list (string * nres)) : bool :=
  existsb (fun kr => match snd kr with NErr es => existsb is_interrupt_task es | _ => false end) rs.
Definition any_canc (rs : list (string * nres)) : bool :=
  existsb (fun kr => match snd kr with NOk _ c => c | _ => false end) rs.
Definition any_fuel (rs : list (string * nres)) : bool :=
  existsb (fun kr => match snd kr with NFuel => true | _ => false end) rs.

Lemma stage_fold_spec : forall rs items canc fails int fo,
  stage_fold rs items canc fails int fo =
    if fo || any_fuel rs then SFuel
    else match fails ++ all_fails rs with
         | [] => if int || any_int rs then SInt (items ++ all_items rs) else SOk (items ++ all_items rs) (canc || any_canc rs)
         | fs => SFail fs
         end.
Proof.
  induction rs as [|[k r] rs IH]; intros items canc fails int fo.
  - cbn. rewrite !orb_false_r, !app_nil_r. destruct fo; [reflexivity|]. destruct fails; reflexivity.
  - cbn [stage_fold]. destruct r as [it c|es|].
    + rewrite IH. cbn [any_fuel any_int any_canc all_fails all_items existsb flat_map snd fst].
      cbn [orb app]. rewrite <- app_assoc, orb_assoc. reflexivity.
    + rewrite IH. cbn [any_fuel any_int any_canc all_fails all_items existsb flat_map snd fst].
      cbn [orb app]. fold (real_errors es). rewrite <- app_assoc, orb_assoc. reflexivity.
    + rewrite IH. cbn [any_fuel existsb snd]. rewrite orb_true_r. reflexivity.
Qed.

Lemma in_all_fails : forall rs e, In e (all_fails rs) <->
  exists k es e', In (k, NErr es) rs /\ In e' es /\ is_interrupt_task e' = false /\ e = wrap_node k e'.
Proof.
  intros rs e. unfold all_fails. rewrite in_flat_map. split.
  - intros [[k r] [Hin He]]. cbn [snd fst] in He. destruct r as [it c|es|]; try contradiction.
    apply in_map_iff in He. destruct He as [e' [<- He']].
    unfold real_errors in He'. apply filter_In in He'. destruct He' as [He' Hni].
    exists k, es, e'. repeat split; auto. apply negb_true_iff. exact Hni.
  - intros [k [es [e' [Hin [He' [Hni ->]]]]]]. exists (k, NErr es). split; [exact Hin|].
    cbn [snd fst]. apply in_map. unfold real_errors. apply filter_In. split; auto.
    apply negb_true_iff. exact Hni.
Qed.

(* ------------------------------------------------------------------ where a returned error comes from *)

Definition is_leaf (n : node) : bool := match n with NSub _ _ => false | _ => true end.

Definition exec_leaf (stream : bool) (items : list item) (n : node) : nres :=
  match n with
  | NLam _ f b => with_post stream b (exec_lambda stream items f b)
  | NTools _ ts => exec_tools stream items ts
  | NSub _ _ => NFuel
  end.

(* the pre-handlers of a step *)
Lemma in_pre_fails : forall stream items st e, In e (pre_fails stream items st) ->
  exists k f u, In (NLam k f (BPreFail u)) st /\ e = wrap_node k (Wrapf (pre_error stream items u)).
Proof.
  intros stream items st o H. unfold pre_fails in H. apply in_flat_map in H.
  destruct H as [n [Hn Ho]]. destruct n as [k f b| |]; try contradiction.
  destruct b; try contradiction. destruct Ho as [<-|[]]. exists k, f, e. split; auto.
Qed.

(* errors a graph's own loop makes: cancelled context, step limit, an error item met while the
   checkpoint of an interrupt is converted, a failing branch condition (or an error item met
   while the branch reads its input) *)
Definition graph_level (e : err) : Prop :=
  e = new_graph_run_error (Wrapf (Leaf id_canceled)) \/
  e = new_graph_run_error (Leaf id_exceed) \/
  (exists it, e = Wrapf (Wrapf it)) \/
  exists u, e = branch_error u.

(* [reported F stream g e p r]: the run of g may return e; p is a real path of nodes of g
   (sub-graph nodes through the forest) down to the place the origin r was produced:
   a failing leaf node (r is one of the errors its task can end with) or, with the last
   sub-graph of p as its source, that sub-graph's own loop (r is graph-level). *)
Inductive reported (F : forest) (stream : bool) : graph -> err -> list string -> err -> Prop :=
| rep_graph : forall g e, graph_level e -> reported F stream g e [] e
| rep_leaf : forall g st n items es r,
    In st (g_stages g) -> In n st -> is_leaf n = true ->
    exec_leaf stream items n = NErr es -> In r es -> is_interrupt_task r = false ->
    reported F stream g (wrap_node (node_key n) r) [node_key n] r
| rep_pre : forall g st k f u items,
    In st (g_stages g) -> In (NLam k f (BPreFail u)) st ->
    reported F stream g (wrap_node k (Wrapf (pre_error stream items u))) [k] (Wrapf (pre_error stream items u))
| rep_sub_panic : forall g st k gi g' i,
    In st (g_stages g) -> In (NSub k gi) st -> nth_error F gi = Some g' ->
    reported F stream g (wrap_node k (PanicErr i)) [k] (PanicErr i)
| rep_sub : forall g st k gi g' e p r,
    In st (g_stages g) -> In (NSub k gi) st -> nth_error F gi = Some g' ->
    reported F stream g' e p r -> is_interrupt_task e = false ->
    reported F stream g (wrap_node k e) (k :: p) r.

Lemma reported_shape : forall F stream g e p r, reported F stream g e p r -> e = wrap_path p r.
Proof.
  intros F stream g e p r H. induction H; cbn [wrap_path fold_right]; try reflexivity.
  fold (wrap_path p r). rewrite <- IHreported. reflexivity.
Qed.

Lemma reported_np : forall F stream g e p r, reported F stream g e p r ->
  is_interrupt_error r = false -> np_of e = p ++ np_of r.
Proof.
  intros F stream g e p r H Hni. rewrite (reported_shape _ _ _ _ _ _ H). apply wrap_path_np. exact Hni.
Qed.

Section RunProofs.
  Variable F : forest.
  Variable stream : bool.

  Definition rec_ok (rec : graph -> list item -> bool -> gres) : Prop :=
    forall g' items canc es e, rec g' items canc = GFail es -> In e es ->
      exists p r, reported F stream g' e p r.

  Lemma steps_reported : forall rec g, rec_ok rec ->
    forall k cur items canc es e,
      incl cur (g_stages g) ->
      steps F stream rec (g_stages g) (g_loop g) (g_br g) k cur items canc = GFail es -> In e es ->
      exists p r, reported F stream g e p r.
  Proof.
    intros rec g Hrec. induction k as [|k IH]; intros cur items canc es e Hincl Hrun Hin.
    - destruct cur as [|st rest]; cbn in Hrun; [discriminate|].
      destruct canc; inversion Hrun; subst; destruct Hin as [<-|[]];
        do 2 eexists; apply rep_graph; unfold graph_level; auto.
    - destruct cur as [|st rest]; cbn [steps] in Hrun; [discriminate|].
      destruct canc.
      { inversion Hrun; subst. destruct Hin as [<-|[]]. do 2 eexists. apply rep_graph. left. reflexivity. }
      destruct (pre_fails stream items st) as [|pf0 pfs] eqn:Epf.
      2:{ cbv beta iota in Hrun. destruct (pre_panic stream items); [discriminate|].
          inversion Hrun; subst es. rewrite <- Epf in Hin.
          apply in_pre_fails in Hin. destruct Hin as [k0 [f0 [u [Hn ->]]]].
          eexists [k0], _. eapply rep_pre; eauto. apply Hincl. left. reflexivity. }
      rewrite stage_fold_spec in Hrun. cbn [orb app] in Hrun.
      set (rs := map (fun n => (node_key n, exec_node F stream rec items false n)) st) in *.
      destruct (any_fuel rs); [discriminate|].
      destruct (all_fails rs) as [|f0 fs] eqn:Ef.
      + destruct (any_int rs).
        * cbn [app] in Hrun. destruct (first_lazy (all_items rs)); [discriminate|].
          destruct (item_errors (all_items rs)) as [|i its] eqn:Eits; [discriminate|].
          inversion Hrun; subst es.
          change (In e (map (fun e => Wrapf (Wrapf e)) (i :: its))) in Hin.
          apply in_map_iff in Hin. destruct Hin as [it [<- _]].
          do 2 eexists. apply rep_graph. right. right. left. eauto.
        * destruct rest as [|st' rest'].
          -- destruct (branch_eval stream (g_br g) _) as [|be|bi]; [| |discriminate].
             ++ destruct (g_loop g); [|discriminate]. eapply IH; [|exact Hrun|exact Hin]. apply incl_refl.
             ++ inversion Hrun; subst es. destruct Hin as [<-|[]].
                do 2 eexists. apply rep_graph. right. right. right. eauto.
          -- eapply IH; [|exact Hrun|exact Hin].
             intros x Hx. apply Hincl. right. exact Hx.
      + inversion Hrun; subst es. rewrite <- Ef in Hin. apply in_all_fails in Hin.
        destruct Hin as [k0 [es' [e' [Hin' [He' [Hni ->]]]]]].
        unfold rs in Hin'. apply in_map_iff in Hin'. destruct Hin' as [n [Heq Hn]].
        inversion Heq; subst k0. clear Heq.
        assert (Hst : In st (g_stages g)) by (apply Hincl; left; reflexivity).
        destruct n as [key fl b|key gi|key ts].
        * exists [key], e'. eapply (rep_leaf F stream g st (NLam key fl b)); eauto.
        * cbn [exec_node] in H1. destruct (nth_error F gi) as [g'|] eqn:Eg; [|discriminate].
          destruct (rec g' items false) as [it c|es''| |i|] eqn:Er; try discriminate.
          -- inversion H1; subst es'. destruct (Hrec _ _ _ _ _ Er He') as [p [r Hr]].
             exists (key :: p), r. eapply rep_sub; eauto.
          -- inversion H1; subst es'. destruct He' as [<-|[]]. discriminate.
          -- inversion H1; subst es'. destruct He' as [<-|[]].
             eexists [key], (PanicErr _). eapply rep_sub_panic; eauto.
        * exists [key], e'. eapply (rep_leaf F stream g st (NTools key ts)); eauto.
  Qed.

  Lemma run_reported : forall d g items canc es e,
    run_graph F stream d g items canc = GFail es -> In e es ->
    exists p r, reported F stream g e p r.
  Proof.
    induction d as [|d IH]; intros g items canc es e Hrun Hin; cbn [run_graph] in Hrun; [discriminate|].
    eapply steps_reported; [|apply incl_refl|exact Hrun|exact Hin].
    intros g' items' canc' es' e' H1 H2. eapply IH; eauto.
  Qed.

  (* completeness of one step: a task that ends with a real error makes the run fail with
     that error wrapped under the node's key among the legal answers *)
  Lemma step_reports_failure : forall rec all loop br k st rest items n es' e',
    In n st -> exec_node F stream rec items false n = NErr es' -> In e' es' ->
    is_interrupt_task e' = false ->
    any_fuel (map (fun n => (node_key n, exec_node F stream rec items false n)) st) = false ->
    pre_fails stream items st = [] ->
    exists es, steps F stream rec all loop br (S k) (st :: rest) items false = GFail es /\
               In (wrap_node (node_key n) e') es.
  Proof.
    intros rec all loop br k st rest items n es' e' Hn Hex He' Hni Hfuel Hpre.
    cbn [steps]. rewrite Hpre. rewrite stage_fold_spec. cbn [orb app]. rewrite Hfuel.
    set (rs := map (fun n => (node_key n, exec_node F stream rec items false n)) st) in *.
    assert (Hin : In (wrap_node (node_key n) e') (all_fails rs)).
    { apply in_all_fails. exists (node_key n), es', e'. repeat split; auto.
      unfold rs. apply in_map_iff. exists n. split; auto. rewrite Hex. reflexivity. }
    destruct (all_fails rs) as [|f fs]; [contradiction|].
    eexists. split; [reflexivity|exact Hin].
  Qed.

  (* a step in which some task asks for an interrupt and none fails ends the run interrupted,
     not failed (stream mode: unless converting the checkpoint meets an error item) *)
  Lemma step_interrupts : forall rec all loop br k st rest items,
    let rs := map (fun n => (node_key n, exec_node F stream rec items false n)) st in
    any_fuel rs = false -> all_fails rs = [] -> any_int rs = true -> all_items rs = [] ->
    pre_fails stream items st = [] ->
    steps F stream rec all loop br (S k) (st :: rest) items false = GInt.
  Proof.
    intros rec all loop br k st rest items rs Hf Hfails Hint Hitems Hpre.
    cbn [steps]. rewrite Hpre. rewrite stage_fold_spec. cbn [orb app]. fold rs.
    rewrite Hf, Hfails, Hint. cbn [app]. rewrite Hitems. reflexivity.
  Qed.

  (* ---------------------------------------------------------------- sentinels *)

  Lemma cancelled_run : forall d g items,
    g_stages g <> [] ->
    run_graph F stream (S d) g items true = GFail [new_graph_run_error (Wrapf (Leaf id_canceled))].
  Proof.
    intros d g items Hne. cbn [run_graph]. destruct (g_stages g) as [|st rest] eqn:E; [contradiction|].
    destruct (effective_max g); reflexivity.
  Qed.

  Definition ok_node (n : node) : bool := match n with NLam _ _ BOk => true | _ => false end.

  Lemma exec_ok_node : forall rec n, ok_node n = true -> exec_node F stream rec [] false n = NOk [] false.
  Proof.
    intros rec n H. destruct n as [k f b| |]; try discriminate. destruct b; try discriminate.
    cbn [exec_node]. unfold exec_lambda. destruct stream, f; reflexivity.
  Qed.

  Lemma ok_pre_fails : forall items st, forallb ok_node st = true -> pre_fails stream items st = [].
  Proof.
    intros items st H. unfold pre_fails. induction st as [|n st IH]; [reflexivity|].
    cbn [forallb] in H. apply andb_true_iff in H. destruct H as [Hn Hst].
    cbn [flat_map]. rewrite (IH Hst), app_nil_r.
    destruct n as [k f b| |]; try discriminate. destruct b; try discriminate. reflexivity.
  Qed.

  Lemma ok_stage_fold : forall rec st, forallb ok_node st = true ->
    stage_fold (map (fun n => (node_key n, exec_node F stream rec [] false n)) st) [] false [] false false = SOk [] false.
  Proof.
    intros rec st H.
    assert (G : forall items, stage_fold (map (fun n => (node_key n, exec_node F stream rec [] false n)) st) items false [] false false = SOk items false).
    { induction st as [|n st IH]; intros items; [reflexivity|].
      cbn [forallb] in H. apply andb_true_iff in H. destruct H as [Hn Hst].
      cbn [map stage_fold]. rewrite (exec_ok_node rec n Hn). rewrite app_nil_r. cbn [orb]. apply IH. exact Hst. }
    apply G.
  Qed.

  Lemma fan_nil : forall m n, fanin m (fanout n []) = [].
  Proof. intros m n. destruct n as [|[|n]]; destruct m as [|[|m]]; reflexivity. Qed.

  Lemma loop_hits_limit : forall rec all, all <> [] -> forallb (forallb ok_node) all = true ->
    forall k cur, cur <> [] -> incl cur all ->
    steps F stream rec all true BrOk k cur [] false = GFail [new_graph_run_error (Leaf id_exceed)].
  Proof.
    intros rec all Hne Hok. induction k as [|k IH]; intros cur Hc Hincl.
    - destruct cur; [contradiction|reflexivity].
    - destruct cur as [|st rest]; [contradiction|]. cbn [steps].
      assert (Hst : forallb ok_node st = true).
      { rewrite forallb_forall in Hok. apply Hok. apply Hincl. left. reflexivity. }
      rewrite (ok_pre_fails [] st Hst). rewrite (ok_stage_fold rec st Hst). rewrite !fan_nil.
      destruct rest as [|st' rest'].
      + apply IH; [exact Hne|apply incl_refl].
      + apply IH; [discriminate|]. intros x Hx. apply Hincl. right. exact Hx.
  Qed.

  Lemma cyclic_run_hits_limit : forall d g,
    g_loop g = true -> g_br g = BrOk -> g_stages g <> [] -> forallb (forallb ok_node) (g_stages g) = true ->
    run_graph F stream (S d) g [] false = GFail [new_graph_run_error (Leaf id_exceed)].
  Proof.
    intros d g Hl Hb Hne Hok. cbn [run_graph]. rewrite Hl, Hb.
    replace (fanout (width_of_first (g_stages g)) []) with (@nil item)
      by (destruct (width_of_first (g_stages g)) as [|[|n]]; reflexivity).
    apply loop_hits_limit; auto. apply incl_refl.
  Qed.
End RunProofs.

(* ------------------------------------------------------------------ panics *)

Lemma lambda_panic_is_error : forall stream f i, exec_lambda stream [] f (BPanic i) = NErr [PanicErr i].
Proof. intros stream f i. unfold exec_lambda. destruct stream, f; reflexivity. Qed.

Lemma lambda_panic_never_ok : forall stream items f i, exists es, exec_lambda stream items f (BPanic i) = NErr es /\ es <> [].
Proof.
  intros stream items f i. unfold exec_lambda.
  destruct stream, f; cbn; try (eexists; split; [reflexivity|discriminate]);
    destruct items; cbn; eexists; split; try reflexivity; discriminate.
Qed.

Lemma first_tool_error_panic : forall stream wrap ts i, In (TPanic i) ts -> first_tool_error stream wrap ts <> None.
Proof.
  intros stream wrap ts i. induction ts as [|t ts IH]; intros H; [contradiction|].
  destruct H as [->|H]; cbn; [discriminate|].
  destruct t; try discriminate; auto. destruct stream; auto. discriminate.
Qed.

Lemma tool_panic_is_error : forall stream ts i, In (TPanic i) ts ->
  exists es, exec_tools stream [] ts = NErr es /\ es <> [].
Proof.
  intros stream ts i H. unfold exec_tools. destruct ts as [|t0 ts']; [contradiction|].
  assert (E : (if stream then @nil item else []) = []) by (destruct stream; reflexivity). rewrite E.
  destruct (tool0_panics stream t0); [eexists; split; [reflexivity|discriminate]|].
  destruct stream; cbn [negb].
  - destruct (first_tool_error true (wrap_stream StreamByInvoke) (t0 :: ts')) eqn:Ef.
    + eexists; split; [reflexivity|discriminate].
    + exfalso. eapply first_tool_error_panic; eauto.
  - destruct (first_tool_error false (fun e => e) (t0 :: ts')) eqn:Ef.
    + eexists; split; [reflexivity|discriminate].
    + exfalso. eapply first_tool_error_panic; eauto.
Qed.

(* ------------------------------------------------------------------ statements as used in Props/C13.v *)

Lemma top_error_is_wrapper : forall par e, exists ws, top_error par e = apply_ws ws e /\ keys_of ws = [].
Proof.
  intros par e. destruct par; cbn [top_error].
  - exists []. split; reflexivity.
  - exists [WStream StreamByTransform]. split; reflexivity.
  - exists [WStream CollectByTransform]. split; reflexivity.
  - exists []. split; reflexivity.
Qed.

Lemma top_error_path : forall par e, np_of (top_error par e) = np_of e.
Proof. intros par e. destruct par; cbn [top_error]; try reflexivity; apply wrap_stream_path. Qed.

Lemma node_error_path_lemma : forall F stream d g items canc es e,
  run_graph F stream d g items canc = GFail es -> In e es ->
  exists p r, reported F stream g e p r /\ e = wrap_path p r /\
              (is_interrupt_error r = false ->
               forall par, np_of (top_error par e) = p ++ np_of r).
Proof.
  intros F stream d g items canc es e Hrun Hin.
  destruct (run_reported F stream d g items canc es e Hrun Hin) as [p [r Hr]].
  exists p, r. split; [exact Hr|]. split; [eapply reported_shape; eauto|].
  intros Hni par. rewrite top_error_path. eapply reported_np; eauto.
Qed.

(* everything errors.Is / errors.As can find in the origin is found in what the caller gets, and
   nothing else *)
Lemma recoverable_lemma : forall ws e,
  (forall t, leaf_target t -> is_ t (apply_ws ws e) = is_ t e) /\
  (forall ty, as_custom ty (apply_ws ws e) = as_custom ty e) /\
  as_panic (apply_ws ws e) = as_panic e /\
  (transparent e = false \/ (exists x, e = Wrapf x) -> is_ e (apply_ws ws e) = true).
Proof.
  intros ws e. repeat split.
  - intros t Ht. apply is_through_wrappers. exact Ht.
  - intros ty. apply as_custom_through_wrappers.
  - apply as_panic_through_wrappers.
  - intros He. unfold is_, is_gen. fold chain. apply existsb_In_refl. apply own_error_on_chain_lemma. exact He.
Qed.

Lemma apply_ws_app : forall ws1 ws2 e, apply_ws (ws1 ++ ws2) e = apply_ws ws1 (apply_ws ws2 e).
Proof. intros. unfold apply_ws. apply fold_right_app. Qed.

Lemma recoverable_run_lemma : forall F stream g e p r ws u par,
  reported F stream g e p r -> r = apply_ws ws u ->
  (forall t, leaf_target t -> is_ t (top_error par e) = is_ t u) /\
  (forall ty, as_custom ty (top_error par e) = as_custom ty u) /\
  as_panic (top_error par e) = as_panic u /\
  (transparent u = false \/ (exists x, u = Wrapf x) -> is_ u (top_error par e) = true).
Proof.
  intros F stream g e p r ws u par Hr ->.
  destruct (top_error_is_wrapper par e) as [wt [-> _]].
  rewrite (reported_shape _ _ _ _ _ _ Hr), wrap_path_is_apply_ws, <- !apply_ws_app.
  apply recoverable_lemma.
Qed.

(* the task error of a failing lambda / tool is the user's error under stream wrappers only *)
Lemma lambda_fail_shape : forall stream f u,
  exists ws, exec_lambda stream [] f (BFail u) = NErr [apply_ws ws u] /\ keys_of ws = [].
Proof.
  intros stream f u. unfold exec_lambda. destruct stream, f; cbn.
  - exists [WStream TransformByInvoke]. split; reflexivity.
  - exists [WStream TransformByStream]. split; reflexivity.
  - exists [WStream TransformByCollect]. split; reflexivity.
  - exists []. split; reflexivity.
  - exists []. split; reflexivity.
  - exists [WStream InvokeByStream]. split; reflexivity.
  - exists [WStream InvokeByCollect]. split; reflexivity.
  - exists [WStream InvokeByTransform]. split; reflexivity.
Qed.

Lemma tool_fail_shape : forall stream u ts,
  exists ws, exec_tools stream [] (TFail u :: ts) = NErr [apply_ws ws u] /\ keys_of ws = [].
Proof.
  intros stream u ts. destruct stream; cbn.
  - exists [WStream TransformByStream; WWrapf; WStream StreamByInvoke]. split; reflexivity.
  - exists [WWrapf]. split; reflexivity.
Qed.

Lemma sentinels_lemma : forall ws,
  is_ (Leaf id_exceed) (apply_ws ws (new_graph_run_error (Leaf id_exceed))) = true /\
  is_ (Leaf id_canceled) (apply_ws ws (new_graph_run_error (Wrapf (Leaf id_canceled)))) = true.
Proof.
  intros ws. split; rewrite is_through_wrappers by reflexivity; reflexivity.
Qed.

Lemma sentinels_run_lemma : forall F stream g e p r par,
  reported F stream g e p r ->
  (r = new_graph_run_error (Leaf id_exceed) -> is_ (Leaf id_exceed) (top_error par e) = true) /\
  (r = new_graph_run_error (Wrapf (Leaf id_canceled)) -> is_ (Leaf id_canceled) (top_error par e) = true).
Proof.
  intros F stream g e p r par Hr.
  destruct (top_error_is_wrapper par e) as [wt [-> _]].
  rewrite (reported_shape _ _ _ _ _ _ Hr), wrap_path_is_apply_ws, <- !apply_ws_app.
  split; intros ->; apply sentinels_lemma.
Qed.

Lemma panicking_node_fails_run : forall F stream rec all loop br k st rest key f i,
  In (NLam key f (BPanic i)) st ->
  any_fuel (map (fun n => (node_key n, exec_node F stream rec [] false n)) st) = false ->
  pre_fails stream [] st = [] ->
  exists es e, steps F stream rec all loop br (S k) (st :: rest) [] false = GFail es /\ In e es /\
               as_panic e = Some i /\ np_of e = [key].
Proof.
  intros F stream rec all loop br k st rest key f i Hin Hfuel Hpre.
  destruct (step_reports_failure F stream rec all loop br k st rest [] (NLam key f (BPanic i)) [PanicErr i] (PanicErr i))
    as [es [Hrun He]]; auto.
  - cbn [exec_node]. apply lambda_panic_is_error.
  - left. reflexivity.
  - exists es, (wrap_node key (PanicErr i)). repeat split; auto.
Qed.

Lemma panicking_tool_fails_run : forall F stream rec all loop br k st rest key ts i,
  In (NTools key ts) st -> In (TPanic i) ts ->
  any_fuel (map (fun n => (node_key n, exec_node F stream rec [] false n)) st) = false ->
  (forall es e, exec_tools stream [] ts = NErr es -> In e es -> is_interrupt_task e = false) ->
  pre_fails stream [] st = [] ->
  exists es, steps F stream rec all loop br (S k) (st :: rest) [] false = GFail es /\ es <> [].
Proof.
  intros F stream rec all loop br k st rest key ts i Hin Hp Hfuel Hni Hpre.
  destruct (tool_panic_is_error stream ts i Hp) as [es' [Hex Hne]].
  destruct es' as [|e' es'']; [contradiction|].
  destruct (step_reports_failure F stream rec all loop br k st rest [] (NTools key ts) (e' :: es'') e')
    as [es [Hrun He]]; auto.
  - left. reflexivity.
  - eapply Hni; eauto. left. reflexivity.
  - exists es. split; auto. intros ->. contradiction.
Qed.
