(* Proofs/TaskMgrSubmit.v — property C03: what the program of taskManager.submit (Model/TaskMgrCode.v
   [model_submit], proved equal to the text of compose/graph_manager.go by the translator tie) does, through the
   interpreter of Model/TaskMgrSubmit.v, for EVERY list of new tasks, every number of outstanding tasks, either mode
   and whatever the rule for the synchronous task is:

     submit_spec     some task has a state pre-handler that fails: submit returns the error, NOTHING has been started
                     and nothing counted; otherwise every task has been started exactly once and counted (num grows by
                     the number of tasks), the pre-handler of every task that has one has run exactly once, in task
                     order, before the first start, and when the rule fires it is the FIRST task that runs on the run
                     loop's goroutine, after all the others have been handed to goroutines of their own;
     submit_is_enter this is the hand-over of the composed system (Model/RunHandoff.v [enter]): the tasks submit
                     starts are, up to order, the tasks [enter] leaves to be handed over ([r_exp]), none when a
                     pre-handler fails (the run then returns the failure). *)
From Eino Require Import Base.Util Model.TaskMgr Model.TaskMgrCode Model.TaskMgrSubmit Model.Confluence Model.RunHandoff.
From Coq Require Import Permutation.

Definition bad (t : stask) : bool := sk_pre t && sk_prefail t.

Definition pre_body : list act := [AIf CHasPre [APre; AIf CErrSet [ARet [RVal]] []; ASetInput] []].
Definition spawn_body : list act := [AInc; ATrace KSpawn; AGo].

Section Spec.
Variable sync_cond : nat -> nat -> bool -> bool.
Variable needAll : bool.

Notation runb := (fun b s' => run sync_cond needAll b s').

(* the inner [run] of [exec] is [run] *)
Lemma exec_each b s :
  x_ret s = None -> exec sync_cond needAll (AEach b) s = each (fun s' => run sync_cond needAll b s') (x_tasks s) s.
Proof. intros H. destruct s; cbn in *; subst; reflexivity. Qed.

Lemma each_ret : forall f ts s b, x_ret s = Some b -> each f ts s = s.
Proof. intros f [|t ts] s b H; cbn; [reflexivity|rewrite H; reflexivity]. Qed.

(* the pre-handler loop *)
Lemma pre_loop : forall ts tk sy cu er n pr,
  let s := each (fun s' => run sync_cond needAll pre_body s') ts (mkxs tk sy cu er n [] pr None) in
  if existsb bad ts
  then x_ret s = Some true /\ x_started s = [] /\ x_num s = n
  else x_ret s = None /\ x_started s = [] /\ x_num s = n /\ x_pre s = pr ++ filter sk_pre ts /\
       x_tasks s = tk /\ x_sync s = sy.
Proof.
  induction ts as [|t ts IH]; intros tk sy cu er n pr.
  - cbn. rewrite app_nil_r. repeat split; reflexivity.
  - cbn [each x_ret existsb filter].
    destruct t as [i p f]. unfold bad at 1. cbn [sk_pre sk_prefail].
    destruct p.
    + destruct f.
      * (* the pre-handler fails: return *)
        cbn [andb orb].
        change (run sync_cond needAll pre_body (set_cur (mkstk i true true) (mkxs tk sy cu er n [] pr None)))
          with (mkxs tk sy (Some (mkstk i true true)) true n [] (pr ++ [mkstk i true true]) (Some true)).
        rewrite (each_ret _ ts _ true) by reflexivity. cbn. repeat split; reflexivity.
      * cbn [andb orb].
        change (run sync_cond needAll pre_body (set_cur (mkstk i true false) (mkxs tk sy cu er n [] pr None)))
          with (mkxs tk sy (Some (mkstk i true false)) false n [] (pr ++ [mkstk i true false]) None).
        specialize (IH tk sy (Some (mkstk i true false)) false n (pr ++ [mkstk i true false])).
        cbn zeta in IH. destruct (existsb bad ts).
        -- exact IH.
        -- rewrite <- app_assoc in IH. exact IH.
    + cbn [andb orb].
      change (run sync_cond needAll pre_body (set_cur (mkstk i false f) (mkxs tk sy cu er n [] pr None)))
        with (mkxs tk sy (Some (mkstk i false f)) er n [] pr None).
      specialize (IH tk sy (Some (mkstk i false f)) er n pr). exact IH.
Qed.

(* the loop that starts the tasks *)
Lemma spawn_loop : forall ts tk sy cu er n st pr,
  each (fun s' => run sync_cond needAll spawn_body s') ts (mkxs tk sy cu er n st pr None)
  = mkxs tk sy (match ts with [] => cu | _ => Some (last ts (mkstk 0 false false)) end) er (n + List.length ts)
         (st ++ map (fun t => (t, false)) ts) pr None.
Proof.
  induction ts as [|t ts IH]; intros tk sy cu er n st pr.
  - cbn. rewrite Nat.add_0_r, app_nil_r. reflexivity.
  - cbn [each x_ret].
    change (run sync_cond needAll spawn_body (set_cur t (mkxs tk sy cu er n st pr None)))
      with (mkxs tk sy (Some t) er (S n) (st ++ [(t, false)]) pr None).
    rewrite IH. cbn [List.length map]. rewrite <- app_assoc. cbn [app].
    rewrite Nat.add_succ_r. destruct ts; reflexivity.
Qed.

Lemma exec_ret : forall a s b, x_ret s = Some b -> exec sync_cond needAll a s = s.
Proof. intros a s b H. destruct a; cbn; rewrite H; reflexivity. Qed.

Lemma run_ret : forall q s b, x_ret s = Some b -> run sync_cond needAll q s = s.
Proof.
  induction q as [|a q IH]; intros s b H; [reflexivity|].
  cbn [run]. rewrite (exec_ret a s b H). apply (IH s b H).
Qed.

Lemma exec_eq : forall a s,
  exec sync_cond needAll a s =
  match x_ret s with
  | Some _ => s
  | None =>
      match a with
      | AIf c th el => run sync_cond needAll (if test sync_cond needAll c s then th else el) s
      | AEach b => each (fun s' => run sync_cond needAll b s') (x_tasks s) s
      | _ => prim a s
      end
  end.
Proof. intros a s. destruct a; destruct s as [? ? ? ? ? ? ? [rb|]]; reflexivity. Qed.

Lemma run_cons : forall a q s, run sync_cond needAll (a :: q) s = run sync_cond needAll q (exec sync_cond needAll a s).
Proof. reflexivity. Qed.
Lemma run_nil : forall s, run sync_cond needAll [] s = s.
Proof. reflexivity. Qed.

Arguments exec : simpl never.
Arguments run : simpl never.
Arguments each : simpl never.

(* one action of the innermost [run]: [run (a :: q) s] with [s] a record whose [x_ret] is [None] *)
Ltac xs a q H :=
  rewrite (run_cons a q) in H; rewrite (exec_eq a) in H;
  cbn [x_ret x_tasks x_sync x_cur x_err x_num x_started x_pre test prim is_nil is_some opt_pre opt_fail hd_error tl
       List.length] in H.

Definition a_none : act := AIf CNoTasks [ARet [RNil]] [].
Definition a_pre : act := AEach [AIf CHasPre [APre; AIf CErrSet [ARet [RVal]] []; ASetInput] []].
Definition a_pick : act := AIf CSyncCond [APickSync; ARest] [].
Definition a_spawn : act := AEach [AInc; ATrace KSpawn; AGo].
Definition a_sync : act := AIf CSyncSet [AInc; ATrace KSync; AExec; ATrace KSyncRet] [].
Definition a_ret : act := ARet [RNil].

(* submit, for EVERY list of new tasks, every number of outstanding tasks, either mode *)
Theorem submit_spec : forall ts num s,
  s = run sync_cond needAll model_submit (x_init ts num) ->
  if existsb bad ts
  then x_ret s = Some true /\ x_started s = [] /\ x_num s = num
  else x_ret s = Some false /\ x_num s = num + List.length ts /\ x_pre s = filter sk_pre ts /\
       x_started s = match ts with
                     | [] => []
                     | t :: r => if sync_cond num (List.length ts) needAll
                                 then map (fun u => (u, false)) r ++ [(t, true)]
                                 else map (fun u => (u, false)) ts
                     end.
Proof.
  intros [|t r] num s Hs.
  - vm_compute in Hs. subst s. cbn. rewrite Nat.add_0_r. repeat split; reflexivity.
  - change model_submit with [a_none; a_pre; a_pick; a_spawn; a_sync; a_ret] in Hs. unfold x_init in Hs.
    set (ts := t :: r) in *.
    (* if len(tasks) == 0 *)
    unfold a_none in Hs. xs (AIf CNoTasks [ARet [RNil]] []) [a_pre; a_pick; a_spawn; a_sync; a_ret] Hs.
    unfold ts at 1 in Hs. cbn [is_nil] in Hs. rewrite run_nil in Hs.
    (* the pre-handlers *)
    unfold a_pre in Hs.
    xs (AEach [AIf CHasPre [APre; AIf CErrSet [ARet [RVal]] []; ASetInput] []]) [a_pick; a_spawn; a_sync; a_ret] Hs.
    pose proof (pre_loop ts ts None None false num []) as HP. unfold pre_body in HP. cbn zeta in HP.
    destruct (existsb bad ts).
    + destruct HP as (Hr & Hst & Hn).
      set (s1 := each _ ts _) in *.
      rewrite (run_ret _ s1 true Hr) in Hs. subst s. auto.
    + destruct HP as (Hr & Hst & Hn & Hp & Ht & Hy).
      set (s1 := each _ ts _) in *.
      destruct s1 as [tk sy cu er n st pr rt].
      cbn [x_ret x_started x_num x_pre x_tasks x_sync app] in Hr, Hst, Hn, Hp, Ht, Hy. subst tk sy n st pr rt.
      cbn [app] in Hs. set (pr0 := filter sk_pre ts) in *.
      (* the synchronous task *)
      unfold a_pick in Hs. xs (AIf CSyncCond [APickSync; ARest] []) [a_spawn; a_sync; a_ret] Hs.
      replace (List.length ts) with (S (List.length r)) in * by reflexivity.
      destruct (sync_cond num (S (List.length r)) needAll) eqn:Eb.
      * xs APickSync [ARest] Hs. xs ARest (@nil act) Hs. rewrite run_nil in Hs.
        unfold ts at 1 2 in Hs. cbn [hd_error tl] in Hs.
        (* the others are started *)
        unfold a_spawn in Hs. xs (AEach [AInc; ATrace KSpawn; AGo]) [a_sync; a_ret] Hs.
        pose proof (spawn_loop r r (Some t) cu er num [] pr0) as HS. unfold spawn_body in HS.
        rewrite HS in Hs.
        (* the synchronous one runs *)
        unfold a_sync in Hs. xs (AIf CSyncSet [AInc; ATrace KSync; AExec; ATrace KSyncRet] []) [a_ret] Hs.
        xs AInc [ATrace KSync; AExec; ATrace KSyncRet] Hs. xs (ATrace KSync) [AExec; ATrace KSyncRet] Hs.
        xs AExec [ATrace KSyncRet] Hs. xs (ATrace KSyncRet) (@nil act) Hs. rewrite run_nil in Hs.
        unfold a_ret in Hs. xs (ARet [RNil]) (@nil act) Hs. rewrite run_nil in Hs.
        subst s. cbn [x_ret x_num x_pre x_started app]. repeat split; try reflexivity. lia.
      * rewrite run_nil in Hs.
        unfold a_spawn in Hs. xs (AEach [AInc; ATrace KSpawn; AGo]) [a_sync; a_ret] Hs.
        pose proof (spawn_loop ts ts None cu er num [] pr0) as HS. unfold spawn_body in HS.
        rewrite HS in Hs.
        unfold a_sync in Hs. xs (AIf CSyncSet [AInc; ATrace KSync; AExec; ATrace KSyncRet] []) [a_ret] Hs.
        rewrite run_nil in Hs.
        unfold a_ret in Hs. xs (ARet [RNil]) (@nil act) Hs. rewrite run_nil in Hs.
        subst s. cbn [x_ret x_num x_pre x_started app]. repeat split; reflexivity.
Qed.

End Spec.

(* ---- the hand-over of the composed system ---- *)

(* a task of the order-side model as submit sees it: [pre_of] says which tasks have a pre-handler that succeeds *)
Definition sk_of (pre_of : node * val -> bool) (x : node * val) : stask :=
  mkstk (N.to_nat (tid x)) (pre_of x || prefail x) (prefail x).

Lemma bad_sk_of pre_of ts : existsb bad (map (sk_of pre_of) ts) = existsb prefail ts.
Proof.
  induction ts as [|x ts IH]; [reflexivity|].
  cbn [map existsb]. rewrite IH. unfold bad, sk_of. cbn [sk_pre sk_prefail].
  destruct (prefail x); [rewrite Bool.orb_true_r|rewrite Bool.andb_false_r]; reflexivity.
Qed.

Lemma enter_exp needAll n ch rest ts col log f :
  r_exp (enter needAll n ch rest ts col log (S f)) = if existsb prefail ts then [] else ts.
Proof. unfold enter. destruct needAll, (existsb prefail ts); reflexivity. Qed.

Theorem submit_is_enter : forall sync_cond needAll pre_of n ch rest ts col log f num s,
  s = run sync_cond needAll model_submit (x_init (map (sk_of pre_of) ts) num) ->
  let r := enter needAll n ch rest ts col log (S f) in
  Permutation (map (fun p => sk_id (fst p)) (x_started s)) (map (fun x => N.to_nat (tid x)) (r_exp r))
  /\ x_num s = num + List.length (r_exp r)
  /\ (x_ret s = Some true <-> r_res r = Some OFail).
Proof.
  intros sync_cond needAll pre_of n ch rest ts col log f num s Hs r.
  pose proof (submit_spec sync_cond needAll _ _ _ Hs) as H.
  unfold r. rewrite enter_exp. rewrite bad_sk_of in H.
  assert (Hres : r_res (enter needAll n ch rest ts col log (S f)) = if existsb prefail ts then Some OFail else None).
  { unfold enter. destruct needAll, (existsb prefail ts); reflexivity. }
  rewrite Hres.
  destruct (existsb prefail ts).
  - destruct H as (Hr & Hst & Hn). rewrite Hst, Hn, Hr. cbn. rewrite Nat.add_0_r.
    split; [constructor|]. split; [reflexivity|]. split; reflexivity.
  - destruct H as (Hr & Hn & _ & Hst). rewrite Hn, Hr, map_length.
    split; [|split; [reflexivity|split; discriminate]].
    rewrite Hst. destruct ts as [|x ts']; [constructor|].
    cbn [map]. destruct (sync_cond num _ needAll).
    + rewrite map_app, !map_map. cbn [map fst sk_id sk_of].
      apply Permutation_sym, Permutation_cons_append.
    + cbn [map fst sk_id sk_of]. rewrite !map_map. cbn [fst sk_id sk_of]. apply Permutation_refl.
Qed.

(* non-vacuity: three tasks, the second one's pre-handler fails / none fails, one task outstanding or none *)
Example submit_spec_nonvacuous :
  let sc := model_sync_cond in
  let ts := [mkstk 3 true false; mkstk 4 true true; mkstk 5 false false] in
  let ok := [mkstk 3 true false; mkstk 4 false false; mkstk 5 true false] in
  x_started (run sc true model_submit (x_init ts 0)) = []
  /\ x_ret (run sc true model_submit (x_init ts 0)) = Some true
  /\ x_pre (run sc true model_submit (x_init ts 0)) = [mkstk 3 true false; mkstk 4 true true]
  /\ x_started (run sc true model_submit (x_init ok 0))
     = [(mkstk 4 false false, false); (mkstk 5 true false, false); (mkstk 3 true false, true)]
  /\ x_started (run sc false model_submit (x_init ok 1))
     = [(mkstk 3 true false, false); (mkstk 4 false false, false); (mkstk 5 true false, false)]
  /\ x_num (run sc false model_submit (x_init ok 1)) = 4.
Proof. vm_compute. repeat split; reflexivity. Qed.
