(* Proofs/GenAgreeC04Merge.v — property C04, translator tie (extractor c04merge, Gen/C04Merge.v):
   compose/utils.go mergeMap, translated statement by statement, is the map case of the model's
   [v_merge] (Model/StreamOps.v) — the fan-in of values that [concat_merge] relates to the
   merged stream: all values must have the type of the first, a top-level key held by two of
   them is the error "duplicated key" (finding F-C04 lives here), otherwise the result holds
   the entries of all of them.

   Hypothesis [grouped]: the entries of one top-level key are consecutive in the flattened
   representation of every map (true of every map of a run: they are sorted by key). *)
From Eino Require Import Base.Util Model.Paradigm Model.StreamOps Model.C04GenLib Proofs.C04Grouped.
From Eino Require Gen.C04Merge.

(* ---- the flattened representation and Go's view of a map as (key, value) entries *)

Lemma range_concat : forall m, List.concat (map snd (go_map_range m)) = m.
Proof.
  induction m as [|e m IH]; [reflexivity|]. simpl.
  destruct (go_map_range m) as [|[k g] r] eqn:E; simpl in *.
  - now rewrite <- IH.
  - destruct (N.eqb (fst (fst e)) k); simpl; now rewrite <- IH.
Qed.

(* every entry of a group carries the group's key *)
Lemma range_heads : forall m k g, In (k, g) (go_map_range m) ->
  g <> [] /\ Forall (fun e => fst (fst e) = k) g.
Proof.
  induction m as [|e m IH]; intros k g Hin; [destruct Hin|]. simpl in Hin.
  destruct (go_map_range m) as [|[k' g'] r] eqn:E.
  - destruct Hin as [Heq|[]]. inversion Heq; subst. split; [discriminate|]. repeat constructor.
  - destruct (N.eqb (fst (fst e)) k') eqn:Ek.
    + apply N.eqb_eq in Ek. destruct Hin as [Heq|Hin].
      * inversion Heq; subst. destruct (IH (fst (fst e)) g' (or_introl eq_refl)) as [_ Hf].
        split; [discriminate|]. constructor; [reflexivity|exact Hf].
      * apply IH. now right.
    + destruct Hin as [Heq|Hin].
      * inversion Heq; subst. split; [discriminate|]. repeat constructor.
      * apply IH. exact Hin.
Qed.

Lemma range_keys : forall m k, In k (map fst (go_map_range m)) <-> In k (mheads m).
Proof.
  induction m as [|e m IH]; intro k; [simpl; tauto|]. simpl.
  destruct (go_map_range m) as [|[k' g'] r] eqn:E; simpl in *.
  - rewrite <- IH. tauto.
  - destruct (N.eqb (fst (fst e)) k') eqn:Ek; simpl.
    + apply N.eqb_eq in Ek. rewrite <- IH. simpl. split; intro H.
      * right. exact H.
      * destruct H as [H|H]; [left; rewrite <- Ek; exact H|exact H].
    + rewrite <- IH. simpl. tauto.
Qed.

(* ---- top-level keys of a map that grows by [ins] *)

Lemma hd_has_ins : forall k kk v m, hd_has k (ins kk v m) = N.eqb k (fst kk) || hd_has k m.
Proof.
  intros k kk v. induction m as [|[k' v'] m IH]; simpl; [reflexivity|].
  destruct (tltb kk k') eqn:E1; simpl; [reflexivity|].
  destruct (teqb kk k') eqn:E2; simpl.
  - unfold teqb, tcmp in E2. destruct (N.compare (fst kk) (fst k')) eqn:Ec; try discriminate.
    apply N.compare_eq in Ec. rewrite Ec. destruct (N.eqb k (fst k')); reflexivity.
  - rewrite IH. destruct (N.eqb k (fst k')), (N.eqb k (fst kk)); reflexivity.
Qed.

Lemma hd_has_ins_all : forall k es m,
  hd_has k (ins_all es m) = existsb (fun e => N.eqb k (fst (fst e))) es || hd_has k m.
Proof.
  intros k es. unfold ins_all. induction es as [|e es IH]; intro m; simpl; [reflexivity|].
  rewrite IH, hd_has_ins.
  rewrite orb_assoc. f_equal. apply orb_comm.
Qed.

Lemma ins_all_app : forall a b m, ins_all (a ++ b) m = ins_all b (ins_all a m).
Proof. intros a b m. unfold ins_all. apply fold_left_app. Qed.

Lemma existsb_head : forall k k' g, Forall (fun e : tkey * string => fst (fst e) = k') g -> g <> [] ->
  existsb (fun e => N.eqb k (fst (fst e))) g = N.eqb k k'.
Proof.
  intros k k' g Hf Hne. induction Hf as [|e g He Hf IH]; [congruence|]. simpl. unfold tkey in *. rewrite He.
  destruct g as [|e' g']; [simpl; now rewrite orb_false_r|].
  rewrite IH by discriminate. now rewrite orb_diag.
Qed.

(* forallb over a list only depends on which elements are in it *)
Lemma forallb_ext_in : forall {A} (f g : A -> bool) l, (forall a, In a l -> f a = g a) -> forallb f l = forallb g l.
Proof.
  intros A f g l H. induction l as [|a l IH]; [reflexivity|]. simpl.
  rewrite (H a (or_introl eq_refl)), IH; [reflexivity|]. intros; apply H; now right.
Qed.

(* ---- the inner loop: the entries of one value *)

Definition inner (merged : amap) (it : N * amap) : res amap :=
  if hd_has (fst it) merged then Err e_dupkey else Ok (go_map_set (fst it) (snd it) merged).

Lemma inner_loop : forall groups merged,
  (forall k g, In (k, g) groups -> g <> [] /\ Forall (fun e => fst (fst e) = k) g) ->
  nodup_N (map fst groups) = true ->
  fold_res inner groups merged =
  if forallb (fun it => negb (hd_has (fst it) merged)) groups
  then Ok (ins_all (List.concat (map snd groups)) merged) else Err e_dupkey.
Proof.
  induction groups as [|[k g] groups IH]; intros merged Hg Hnd; [reflexivity|].
  simpl in Hnd. apply andb_true_iff in Hnd. destruct Hnd as [Hk Hnd].
  cbn [fold_res forallb map List.concat fst snd]. unfold inner at 1. cbn [fst snd].
  destruct (hd_has k merged) eqn:Ehk; [reflexivity|]. cbn [res_bind negb andb].
  unfold go_map_set. rewrite IH; [|intros; apply Hg; now right|exact Hnd].
  rewrite ins_all_app.
  assert (Hsame : forallb (fun it => negb (hd_has (fst it) (ins_all g merged))) groups
                  = forallb (fun it => negb (hd_has (fst it) merged)) groups).
  { apply forallb_ext_in. intros [k' g'] Hin. cbn [fst]. rewrite hd_has_ins_all.
    destruct (Hg k g (or_introl eq_refl)) as [Hne Hf].
    rewrite (existsb_head k' k g Hf Hne).
    replace (N.eqb k' k) with false; [reflexivity|].
    symmetry. apply N.eqb_neq. intro Heq. subst k'.
    apply negb_true_iff in Hk.
    assert (Ht : existsb (N.eqb k) (map fst groups) = true).
    { apply existsb_exists. exists k. split; [|apply N.eqb_refl].
      apply in_map_iff. exists (k, g'). split; [reflexivity|exact Hin]. }
    congruence. }
  now rewrite Hsame.
Qed.


(* ---- the outer loop: one value after the other *)

Definition outer (typ : bool) (merged : amap) (v : val) : res amap :=
  if negb (Bool.eqb (is_map v) typ) then Err e_type
  else do m <- as_map v; fold_res inner (go_map_range m) merged.

Lemma fold_res_ext : forall {S V} (f g : S -> V -> res S) l s,
  (forall s v, f s v = g s v) -> fold_res f l s = fold_res g l s.
Proof.
  intros S V f g l. induction l as [|v l IH]; intros s H; [reflexivity|]. simpl.
  rewrite H. destruct (g s v); simpl; try reflexivity. now apply IH.
Qed.

Lemma bind_ok_id : forall {A} (r : res A), (do a <- r; Ok a) = r.
Proof. intros A []; reflexivity. Qed.

Lemma gen_mergeMap_unfold : forall vs,
  Gen.C04Merge.mergeMap vs =
  do x <- go_idx vs 0; do m0 <- make_map (is_map x);
  do merged <- fold_res (outer (is_map x)) vs m0; Ok (VM merged).
Proof.
  intro vs. unfold Gen.C04Merge.mergeMap. destruct (go_idx vs 0) as [x| |]; simpl; try reflexivity.
  destruct (make_map (is_map x)) as [m0| |]; simpl; try reflexivity.
  f_equal. apply fold_res_ext. intros s v. unfold outer.
  destruct (negb (Bool.eqb (is_map v) (is_map x))); [reflexivity|].
  destruct (as_map v) as [m| |]; simpl; try reflexivity. apply bind_ok_id.
Qed.

Lemma forallb_members : forall (f : N -> bool) l1 l2,
  (forall k, In k l1 <-> In k l2) -> forallb f l1 = forallb f l2.
Proof.
  intros f l1 l2 H. destruct (forallb f l1) eqn:E1; symmetry.
  - apply forallb_forall. intros k Hk. rewrite forallb_forall in E1. apply E1, H, Hk.
  - destruct (forallb f l2) eqn:E2; [|reflexivity]. rewrite forallb_forall in E2.
    assert (forallb f l1 = true) by (apply forallb_forall; intros k Hk; apply E2, H, Hk). congruence.
Qed.

Lemma forallb_map_fst : forall {A B} (f : A -> bool) (l : list (A * B)),
  forallb f (map fst l) = forallb (fun it => f (fst it)) l.
Proof. intros A B f l. induction l as [|a l IH]; [reflexivity|]. simpl. now rewrite IH. Qed.

Lemma existsb_mheads : forall k (m : amap),
  existsb (fun e => N.eqb k (fst (fst e))) m = existsb (N.eqb k) (mheads m).
Proof. intros k m. unfold mheads. induction m as [|e m IH]; [reflexivity|]. simpl. now rewrite IH. Qed.

Lemma outer_loop : forall ms merged seen,
  (forall k, hd_has k merged = existsb (N.eqb k) seen) ->
  Forall (fun m => grouped m = true) ms ->
  fold_res (outer true) (map VM ms) merged =
  if disjoint_keys seen ms then Ok (ins_all (List.concat ms) merged) else Err e_dupkey.
Proof.
  induction ms as [|m ms IH]; intros merged seen Hinv Hg; [reflexivity|].
  inversion Hg as [|? ? Hm Hms]; subst.
  cbn [map fold_res]. unfold outer at 1. cbn [is_map Bool.eqb negb as_map res_bind].
  rewrite inner_loop; [|apply range_heads|exact Hm].
  rewrite range_concat. cbn [disjoint_keys].
  assert (Hcheck : forallb (fun it : N * amap => negb (hd_has (fst it) merged)) (go_map_range m)
                   = forallb (fun k => negb (existsb (N.eqb k) seen)) (mheads m)).
  { rewrite <- (forallb_members _ (map fst (go_map_range m)) (mheads m)) by apply range_keys.
    rewrite forallb_map_fst. apply forallb_ext_in. intros it _. now rewrite Hinv. }
  unfold amap, tkey in *. rewrite Hcheck.
  destruct (forallb (fun k : N => negb (existsb (N.eqb k) seen)) (mheads m)); cbn [andb res_bind]; [|reflexivity].
  rewrite (IH (ins_all m merged) (mheads m ++ seen)); [|intro k|exact Hms].
  - cbn [List.concat]. now rewrite ins_all_app.
  - rewrite hd_has_ins_all, existsb_app, Hinv. f_equal. apply existsb_mheads.
Qed.

Lemma all_map_VM : forall ms, all_map (map VM ms) = Some ms.
Proof. induction ms as [|m ms IH]; [reflexivity|]. simpl. now rewrite IH. Qed.

(* two or more map values whose entries are grouped by key: the translated mergeMap is the
   model's v_merge *)
Theorem gen_mergeMap_agrees : forall m ms,
  ms <> [] -> Forall (fun m => grouped m = true) (m :: ms) ->
  Gen.C04Merge.mergeMap (map VM (m :: ms)) = v_merge (map VM (m :: ms)).
Proof.
  intros m ms Hne Hg. rewrite gen_mergeMap_unfold.
  cbn [map go_idx nth_error res_bind is_map make_map].
  change (VM m :: map VM ms) with (map VM (m :: ms)).
  rewrite (outer_loop (m :: ms) [] []); [|intro k; reflexivity|exact Hg].
  unfold v_merge. destruct ms as [|m2 ms]; [congruence|].
  cbn [map]. change (VM m :: VM m2 :: map VM ms) with (map VM (m :: m2 :: ms)).
  rewrite all_map_VM. destruct (disjoint_keys [] (m :: m2 :: ms)); reflexivity.
Qed.

(* a value of another type after the first map: never a result (v_merge answers e_type; the
   source may meet a duplicated key first; Go's typing excludes the situation) *)
Theorem gen_mergeMap_mistyped : forall m xs y,
  all_map xs = None -> Gen.C04Merge.mergeMap (VM m :: xs) <> Ok y.
Proof.
  intros m xs y Hx. rewrite gen_mergeMap_unfold.
  cbn [go_idx nth_error res_bind is_map make_map].
  assert (H : forall xs merged, all_map xs = None -> forall r, fold_res (outer true) xs merged <> Ok r).
  { clear. induction xs as [|x xs IH]; intros merged Hx r; [discriminate|].
    cbn [fold_res]. destruct x as [s|m']; [unfold outer; simpl; discriminate|].
    simpl in Hx. destruct (all_map xs) eqn:E; [discriminate|].
    destruct (outer true merged (VM m')) as [mg| |]; simpl; try discriminate. now apply IH. }
  cbn [fold_res]. destruct (outer true [] (VM m)) as [mg| |]; simpl; try discriminate.
  destruct (fold_res (outer true) xs mg) eqn:E; simpl; try discriminate.
  exfalso. exact (H xs mg Hx _ E).
Qed.

(* the maps the model builds (by [ins_all] from the empty map: vconcat, v_merge, m_get, v_fmap, the
   harness producers) and a map put under one key are grouped (Proofs/C04Grouped.v): for them the
   hypothesis is discharged *)
Corollary gen_mergeMap_agrees_built : forall es ess,
  ess <> [] ->
  Gen.C04Merge.mergeMap (map VM (map (fun es => ins_all es []) (es :: ess)))
  = v_merge (map VM (map (fun es => ins_all es []) (es :: ess))).
Proof.
  intros es ess Hne. cbn [map]. apply gen_mergeMap_agrees.
  - destruct ess; [congruence|discriminate].
  - change (ins_all es [] :: map (fun es0 => ins_all es0 []) ess) with (map (fun es0 => ins_all es0 []) (es :: ess)).
    apply Forall_forall. intros m Hin. apply in_map_iff in Hin. destruct Hin as [e [<- _]].
    apply ins_all_grouped.
Qed.

(* non-vacuity: {aa:"x"} + {ab:{ac:"y"}} + {ad:"z"} merge; {aa:"x"} + {ab:"y"} + {aa:"z"} do not
   (the third value holds a key of the first: the seeded "checks against the first source only"
   and its mirror image both change this function) *)
Example gen_mergeMap_examples :
  Gen.C04Merge.mergeMap [VM [(kstr 0, "x"%string)]; VM (nest 1 [(kstr 2, "y"%string)]); VM [(kstr 3, "z"%string)]]
    = Ok (VM [(kstr 0, "x"%string); ((1%N, KMap), EmptyString); ((1%N, KSub 2 KStr), "y"%string); (kstr 3, "z"%string)])
  /\ Gen.C04Merge.mergeMap [VM [(kstr 0, "x"%string)]; VM [(kstr 1, "y"%string)]; VM [(kstr 0, "z"%string)]] = Err e_dupkey
  /\ Gen.C04Merge.mergeMap [VM [(kstr 1, "x"%string)]; VM [(kstr 0, "y"%string)]; VM [(kstr 0, "z"%string)]] = Err e_dupkey.
Proof. repeat split; reflexivity. Qed.
