(* Proofs/Options.v — lemmas for property C16 (routing of call options). *)
From Eino Require Import Base.Util Model.Options Model.OptionsSpec.
From Coq Require Import Lia.

(* ------------------------------------------------------------------ res monad *)
Lemma res_bind_ok {A B} (r : res A) (f : A -> res B) b :
  res_bind r f = Ok b -> exists a, r = Ok a /\ f a = Ok b.
Proof. destruct r; simpl; intros H; try discriminate. eauto. Qed.

Lemma res_mapM_ok_forall {A B} (f : A -> res B) l bs :
  res_mapM f l = Ok bs -> Forall2 (fun a b => f a = Ok b) l bs.
Proof.
  revert bs. induction l as [|a l IH]; simpl; intros bs H.
  - inversion H. constructor.
  - apply res_bind_ok in H. destruct H as [b [Hb H]].
    apply res_bind_ok in H. destruct H as [bs' [Hbs H]]. inversion H; subst.
    constructor; auto.
Qed.

Lemma res_mapM_forall_ok {A B} (f : A -> res B) l bs :
  Forall2 (fun a b => f a = Ok b) l bs -> res_mapM f l = Ok bs.
Proof.
  induction 1; simpl; auto. rewrite H. simpl. rewrite IHForall2. reflexivity.
Qed.

Lemma res_mapM_err {A B} (f : A -> res B) l :
  (forall bs, res_mapM f l <> Ok bs) -> exists a, In a l /\ forall b, f a <> Ok b.
Proof.
  induction l as [|a l IH]; simpl; intros H.
  - exfalso. apply (H []). reflexivity.
  - destruct (f a) as [b| |] eqn:Hf; simpl in H.
    + destruct (res_mapM f l) as [bs| |] eqn:Hm; simpl in H.
      * exfalso. apply (H (b :: bs)). reflexivity.
      * destruct IH as [a' [Hin Ha']]; [intros bs; discriminate|]. exists a'. split; auto.
      * destruct IH as [a' [Hin Ha']]; [intros bs; discriminate|]. exists a'. split; auto.
    + exists a. split; auto. intros b; rewrite Hf; discriminate.
    + exists a. split; auto. intros b; rewrite Hf; discriminate.
Qed.

Lemma res_mapM_in_err {A B} (f : A -> res B) l a :
  In a l -> (forall b, f a <> Ok b) -> forall bs, res_mapM f l <> Ok bs.
Proof.
  intros Hin Hf bs H. apply res_mapM_ok_forall in H.
  revert Hin. induction H; simpl; intros Hin; [contradiction|].
  destruct Hin as [Heq|Hin]; subst; eauto. eapply Hf; eauto.
Qed.

(* ------------------------------------------------------------------ option map *)
Lemma nlist_get_set {A} k k' (a : A) l :
  nlist_get k (nlist_set k' a l) = if N.eqb k k' then Some a else nlist_get k l.
Proof.
  induction l as [|[k0 a0] l IH]; simpl.
  - destruct (N.eqb k k'); reflexivity.
  - destruct (N.eqb k' k0) eqn:E0; simpl.
    + apply N.eqb_eq in E0; subst. destruct (N.eqb k k0); reflexivity.
    + rewrite IH. destruct (N.eqb k k') eqn:E; [|reflexivity].
      apply N.eqb_eq in E; subst. rewrite E0. reflexivity.
Qed.

Lemma om_get_append k k' es m :
  om_get k (om_append k' es m) = if N.eqb k k' then om_get k m ++ es else om_get k m.
Proof.
  unfold om_append, om_get at 1. rewrite nlist_get_set.
  destruct (N.eqb k k') eqn:E; [|reflexivity].
  apply N.eqb_eq in E; subst. reflexivity.
Qed.

Lemma om_get_nil k : om_get k [] = [].
Proof. reflexivity. Qed.

(* ------------------------------------------------------------------ find_node *)
Lemma find_node_in k g nd : find_node k g = Some nd -> In nd g /\ n_key nd = k.
Proof.
  induction g as [|n g IH]; simpl; [discriminate|].
  destruct (N.eqb k (n_key n)) eqn:E.
  - intros H; inversion H; subst. apply N.eqb_eq in E. auto.
  - intros H. destruct (IH H). auto.
Qed.

Lemma find_node_unique g nd :
  NoDup (map n_key g) -> In nd g -> find_node (n_key nd) g = Some nd.
Proof.
  induction g as [|n g IH]; simpl; intros Hnd Hin; [contradiction|].
  inversion Hnd as [|? ? Hnotin Hnd']; subst.
  destruct Hin as [Heq|Hin].
  - subst. rewrite N.eqb_refl. reflexivity.
  - destruct (N.eqb (n_key nd) (n_key n)) eqn:E.
    + apply N.eqb_eq in E. exfalso. apply Hnotin. rewrite <- E. apply in_map. exact Hin.
    + auto.
Qed.

Lemma find_node_none k g : find_node k g = None -> forall nd, In nd g -> n_key nd <> k.
Proof.
  induction g as [|n g IH]; simpl; intros H nd Hin; [contradiction|].
  destruct (N.eqb k (n_key n)) eqn:E; [discriminate|].
  destruct Hin as [Heq|Hin]; subst; auto.
  apply N.eqb_neq in E. congruence.
Qed.

(* ------------------------------------------------------------------ one level: extractOption *)
(* what one designated path of option [o] appends to the slice of node [nd] *)
Definition path_entries (nd : node) (o : copt) (q : path) : list entry :=
  match q with
  | [] => []
  | [k'] =>
      if N.eqb k' (n_key nd) then
        match o_items o with
        | [] => []
        | _ :: _ => match n_kind nd with
                    | KSub _ => [EOpt (deep_copy o [])]
                    | KComp _ => map EItem (o_items o)
                    end
        end
      else []
  | k' :: rest =>
      if N.eqb k' (n_key nd) then
        match n_kind nd with KSub _ => [EOpt (deep_copy o [rest])] | KComp _ => [] end
      else []
  end.
Definition common_entries (nd : node) (o : copt) : list entry :=
  match n_kind nd with
  | KSub _ => [EOpt o]
  | KComp ty => if ty_matches o ty then map EItem (o_items o) else []
  end.
Definition one_entries (nd : node) (o : copt) : list entry :=
  match o_paths o with
  | [] => match o_items o with [] => [] | _ :: _ => common_entries nd o end
  | _ :: _ => flat_map (path_entries nd o) (o_paths o)
  end.

Lemma extract_path_get g nd o q m m' :
  NoDup (map n_key g) -> In nd g -> extract_path g o q m = Ok m' ->
  om_get (n_key nd) m' = om_get (n_key nd) m ++ path_entries nd o q.
Proof.
  intros Hnd Hin H. destruct q as [|k rest]; simpl in H; [discriminate|].
  destruct (find_node k g) as [nd'|] eqn:Hf; [|discriminate].
  destruct (find_node_in _ _ _ Hf) as [Hin' Hk'].
  assert (Hsame : N.eqb k (n_key nd) = true -> nd' = nd).
  { intros E. apply N.eqb_eq in E. rewrite E in Hf.
    rewrite (find_node_unique g nd Hnd Hin) in Hf. congruence. }
  clear Hk'.
  destruct rest as [|k2 rest].
  - simpl. destruct (o_items o) as [|it its] eqn:Hits.
    + inversion H; subst. destruct (N.eqb k (n_key nd)); rewrite app_nil_r; reflexivity.
    + destruct (n_kind nd') as [ty|gj] eqn:Hk.
      * destruct (ty_matches o ty) eqn:Hty; [|discriminate]. inversion H; subst.
        rewrite om_get_append. rewrite (N.eqb_sym (n_key nd) k).
        destruct (N.eqb k (n_key nd)) eqn:E.
        -- rewrite <- (Hsame eq_refl). rewrite Hk. reflexivity.
        -- rewrite app_nil_r. reflexivity.
      * inversion H; subst. rewrite om_get_append. rewrite (N.eqb_sym (n_key nd) k).
        destruct (N.eqb k (n_key nd)) eqn:E.
        -- rewrite <- (Hsame eq_refl). rewrite Hk. reflexivity.
        -- rewrite app_nil_r. reflexivity.
  - simpl. destruct (n_kind nd') as [ty|gj] eqn:Hk; [discriminate|]. inversion H; subst.
    rewrite om_get_append. rewrite (N.eqb_sym (n_key nd) k).
    destruct (N.eqb k (n_key nd)) eqn:E.
    + rewrite <- (Hsame eq_refl). rewrite Hk. reflexivity.
    + rewrite app_nil_r. reflexivity.
Qed.

Lemma extract_paths_get g nd o qs m m' :
  NoDup (map n_key g) -> In nd g -> extract_paths g o qs m = Ok m' ->
  om_get (n_key nd) m' = om_get (n_key nd) m ++ flat_map (path_entries nd o) qs.
Proof.
  intros Hnd Hin. revert m. induction qs as [|q qs IH]; simpl; intros m H.
  - inversion H; subst. rewrite app_nil_r. reflexivity.
  - apply res_bind_ok in H. destruct H as [m1 [H1 H2]].
    rewrite (IH _ H2). rewrite (extract_path_get _ _ _ _ _ _ Hnd Hin H1).
    rewrite app_assoc. reflexivity.
Qed.

Lemma common_to_nodes_get o g nd m :
  NoDup (map n_key g) -> In nd g ->
  om_get (n_key nd) (common_to_nodes o g m) = om_get (n_key nd) m ++ common_entries nd o.
Proof.
  unfold common_to_nodes. revert m. induction g as [|n g IH]; simpl; intros m Hnd Hin; [contradiction|].
  inversion Hnd as [|? ? Hnotin Hnd']; subst.
  assert (Hother : forall g' m', ~ In (n_key nd) (map n_key g') ->
            om_get (n_key nd) (fold_left (common_step o) g' m') = om_get (n_key nd) m').
  { induction g' as [|n' g' IH']; simpl; intros m' Hni; [reflexivity|].
    rewrite IH' by tauto. unfold common_step.
    assert (N.eqb (n_key nd) (n_key n') = false) by (apply N.eqb_neq; intros E; apply Hni; auto).
    destruct (n_kind n'); [destruct (ty_matches o ty)|]; try rewrite om_get_append; try rewrite H; reflexivity. }
  destruct Hin as [Heq|Hin].
  - subst n. rewrite Hother by exact Hnotin. unfold common_step, common_entries.
    destruct (n_kind nd); [destruct (ty_matches o ty)|]; try rewrite om_get_append;
      try rewrite N.eqb_refl; try rewrite app_nil_r; reflexivity.
  - rewrite IH by assumption. unfold common_step at 1.
    assert (N.eqb (n_key nd) (n_key n) = false).
    { apply N.eqb_neq; intros E; apply Hnotin. rewrite <- E. apply in_map. exact Hin. }
    destruct (n_kind n); [destruct (ty_matches o ty)|]; try rewrite om_get_append; try rewrite H; reflexivity.
Qed.

Lemma extract_one_get g nd o m m' :
  NoDup (map n_key g) -> In nd g -> extract_one g o m = Ok m' ->
  om_get (n_key nd) m' = om_get (n_key nd) m ++ one_entries nd o.
Proof.
  intros Hnd Hin H. unfold extract_one in H. unfold one_entries.
  destruct (o_paths o) as [|q qs] eqn:Hp.
  - destruct (o_items o) as [|it its]; inversion H; subst.
    + rewrite app_nil_r. reflexivity.
    + apply common_to_nodes_get; assumption.
  - eapply extract_paths_get; eauto.
Qed.

Lemma extract_option_get g nd opts m m' :
  NoDup (map n_key g) -> In nd g -> extract_option g opts m = Ok m' ->
  om_get (n_key nd) m' = om_get (n_key nd) m ++ flat_map (one_entries nd) opts.
Proof.
  intros Hnd Hin. revert m. induction opts as [|o opts IH]; simpl; intros m H.
  - inversion H; subst. rewrite app_nil_r. reflexivity.
  - apply res_bind_ok in H. destruct H as [m1 [H1 H2]].
    rewrite (IH _ H2). rewrite (extract_one_get _ _ _ _ _ Hnd Hin H1). rewrite app_assoc. reflexivity.
Qed.

(* ------------------------------------------------------------------ what a node of each kind gets *)
Definition comp_items (k : key) (ty : N) (o : copt) : list item :=
  match o_paths o with
  | [] => if ty_matches o ty then o_items o else []
  | _ :: _ => flat_map (fun q => match q with
                                 | [k'] => if N.eqb k' k then o_items o else []
                                 | _ => []
                                 end) (o_paths o)
  end.

Definition sub_path_opts (k : key) (o : copt) (q : path) : list copt :=
  match q with
  | [] => []
  | [k'] => if N.eqb k' k then match o_items o with [] => [] | _ :: _ => [deep_copy o []] end else []
  | k' :: rest => if N.eqb k' k then [deep_copy o [rest]] else []
  end.
Definition sub_opts (k : key) (o : copt) : list copt :=
  match o_paths o with
  | [] => match o_items o with [] => [] | _ :: _ => [o] end
  | _ :: _ => flat_map (sub_path_opts k o) (o_paths o)
  end.

Lemma ty_matches_nil o ty : o_items o = [] -> ty_matches o ty = false.
Proof. unfold ty_matches, head_ty. intros ->. reflexivity. Qed.

Lemma map_flat_map {A B C} (f : B -> C) (g : A -> list B) l :
  map f (flat_map g l) = flat_map (fun a => map f (g a)) l.
Proof. induction l; simpl; auto. rewrite map_app, IHl. reflexivity. Qed.

Lemma flat_map_ext' {A B} (f g : A -> list B) l :
  (forall a, In a l -> f a = g a) -> flat_map f l = flat_map g l.
Proof. induction l; simpl; intros H; auto. rewrite H, IHl; auto. Qed.

Lemma comp_one_entries nd ty o :
  n_kind nd = KComp ty -> one_entries nd o = map EItem (comp_items (n_key nd) ty o).
Proof.
  intros Hk. unfold one_entries, comp_items, common_entries. rewrite Hk.
  destruct (o_paths o) as [|q qs].
  - destruct (o_items o) eqn:Hi; [|destruct (ty_matches o ty); reflexivity].
    rewrite (ty_matches_nil o ty Hi). reflexivity.
  - rewrite map_flat_map. apply flat_map_ext'. intros q' _.
    destruct q' as [|k' [|k2 rest]]; simpl; try reflexivity.
    + rewrite Hk. destruct (N.eqb k' (n_key nd)); [|reflexivity]. destruct (o_items o); reflexivity.
    + rewrite Hk. destruct (N.eqb k' (n_key nd)); reflexivity.
Qed.

Lemma sub_one_entries nd gj o :
  n_kind nd = KSub gj -> one_entries nd o = map EOpt (sub_opts (n_key nd) o).
Proof.
  intros Hk. unfold one_entries, sub_opts, common_entries. rewrite Hk.
  destruct (o_paths o) as [|q qs].
  - destruct (o_items o); reflexivity.
  - rewrite map_flat_map. apply flat_map_ext'. intros q' _.
    destruct q' as [|k' [|k2 rest]]; simpl; try reflexivity.
    + rewrite Hk. destruct (N.eqb k' (n_key nd)); [|reflexivity]. destruct (o_items o); reflexivity.
    + rewrite Hk. destruct (N.eqb k' (n_key nd)); reflexivity.
Qed.

Lemma comp_entries nd ty opts :
  n_kind nd = KComp ty ->
  flat_map (one_entries nd) opts = map EItem (flat_map (comp_items (n_key nd) ty) opts).
Proof.
  intros Hk. rewrite map_flat_map. apply flat_map_ext'. intros o _. apply comp_one_entries. exact Hk.
Qed.

Lemma sub_entries nd gj opts :
  n_kind nd = KSub gj ->
  flat_map (one_entries nd) opts = map EOpt (flat_map (sub_opts (n_key nd)) opts).
Proof.
  intros Hk. rewrite map_flat_map. apply flat_map_ext'. intros o _. eapply sub_one_entries. exact Hk.
Qed.

Lemma convert_items_map ty its its' :
  convert_items ty (map EItem its) = Ok its' -> its' = its /\ Forall (fun it => fst it = ty) its.
Proof.
  revert its'. induction its as [|[t x] its IH]; simpl; intros its' H.
  - inversion H. auto.
  - destruct (N.eqb t ty) eqn:E; [|discriminate]. apply N.eqb_eq in E.
    apply res_bind_ok in H. destruct H as [r [Hr H]]. inversion H; subst.
    destruct (IH _ Hr) as [-> Hall]. split; auto.
Qed.

Lemma convert_items_ok ty its :
  Forall (fun it => fst it = ty) its -> convert_items ty (map EItem its) = Ok its.
Proof.
  induction 1 as [|[t x] its Ht Hall IH]; simpl; auto.
  simpl in Ht. subst. rewrite N.eqb_refl. rewrite IH. reflexivity.
Qed.

Lemma convert_opts_map os : convert_opts (map EOpt os) = Ok os.
Proof. induction os; simpl; auto. rewrite IHos. reflexivity. Qed.

(* ------------------------------------------------------------------ paths *)
Lemma path_eqb_refl p : path_eqb p p = true.
Proof. induction p; simpl; auto. rewrite N.eqb_refl. auto. Qed.
Lemma path_eqb_eq a b : path_eqb a b = true <-> a = b.
Proof.
  revert b. induction a as [|x a IH]; destruct b as [|y b]; simpl; split; intros H; try discriminate; auto.
  - apply andb_prop in H. destruct H as [H1 H2]. apply N.eqb_eq in H1. apply IH in H2. congruence.
  - inversion H; subst. rewrite N.eqb_refl. apply IH. reflexivity.
Qed.

(* ------------------------------------------------------------------ composition of levels *)
Lemma spec_delivered_app a b p ty :
  spec_delivered (a ++ b) p ty = spec_delivered a p ty ++ spec_delivered b p ty.
Proof. unfold spec_delivered. apply flat_map_app. Qed.

Lemma ty_matches_deep_copy o ps ty : ty_matches (deep_copy o ps) ty = ty_matches o ty.
Proof. reflexivity. Qed.

Lemma sub_path_step k o q p' ty :
  p' <> [] ->
  spec_delivered (sub_path_opts k o q) p' ty =
  (if path_eqb q (k :: p') then o_items o
   else if proper_prefixb q (k :: p') && ty_matches o ty then o_items o else []).
Proof.
  intros Hp'. destruct p' as [|k1 p1]; [congruence|].
  destruct q as [|k' [|k2 rest]].
  - reflexivity.
  - simpl sub_path_opts. simpl path_eqb. unfold proper_prefixb. simpl prefixb. simpl path_eqb.
    destruct (N.eqb k' k) eqn:E; simpl.
    + destruct (o_items o) as [|it its] eqn:Hi.
      * simpl. rewrite (ty_matches_nil o ty Hi). reflexivity.
      * unfold spec_delivered. simpl. unfold addressed_items. simpl.
        change (ty_matches (deep_copy o []) ty) with (ty_matches o ty).
        rewrite app_nil_r, Hi. reflexivity.
    + reflexivity.
  - simpl sub_path_opts. unfold proper_prefixb. simpl prefixb. simpl path_eqb.
    destruct (N.eqb k' k) eqn:E; simpl.
    + unfold spec_delivered. simpl. unfold addressed_items. simpl.
      change (ty_matches (deep_copy o [k2 :: rest]) ty) with (ty_matches o ty).
      unfold proper_prefixb. simpl. rewrite !app_nil_r. reflexivity.
    + reflexivity.
Qed.

Lemma sub_opts_step k o p' ty :
  p' <> [] ->
  spec_delivered (sub_opts k o) p' ty = addressed_items o (k :: p') ty.
Proof.
  intros Hp'. unfold sub_opts, addressed_items.
  destruct (o_paths o) as [|q qs] eqn:Hp.
  - destruct (o_items o) as [|it its] eqn:Hi.
    + simpl. rewrite (ty_matches_nil o ty Hi). reflexivity.
    + unfold spec_delivered. simpl. unfold addressed_items. rewrite Hp, Hi, app_nil_r. reflexivity.
  - generalize (q :: qs). intros l. induction l as [|q' l IH]; [reflexivity|].
    simpl. rewrite spec_delivered_app, IH, (sub_path_step k o q' p' ty Hp'). reflexivity.
Qed.

Lemma sub_level k opts p' ty :
  p' <> [] ->
  spec_delivered (flat_map (sub_opts k) opts) p' ty = spec_delivered opts (k :: p') ty.
Proof.
  intros Hp'. induction opts as [|o opts IH]; [reflexivity|].
  simpl. rewrite spec_delivered_app, IH, (sub_opts_step k o p' ty Hp'). reflexivity.
Qed.

Lemma comp_level k ty opts :
  flat_map (comp_items k ty) opts = spec_delivered opts [k] ty.
Proof.
  unfold spec_delivered. apply flat_map_ext'. intros o _.
  unfold comp_items, addressed_items. destruct (o_paths o) as [|q qs]; [reflexivity|].
  apply flat_map_ext'. intros q' _.
  destruct q' as [|k' [|k2 rest]]; simpl; try reflexivity.
  - unfold proper_prefixb. simpl. rewrite andb_true_r.
    destruct (N.eqb k' k); reflexivity.
  - unfold proper_prefixb. simpl. destruct (N.eqb k' k); simpl; reflexivity.
Qed.

(* ------------------------------------------------------------------ the run *)
Lemma flat_mapM_ok {A B} (f : A -> res (list B)) l out :
  res_flat_mapM f l = Ok out ->
  exists ls, Forall2 (fun a b => f a = Ok b) l ls /\ out = List.concat ls.
Proof.
  unfold res_flat_mapM. intros H. apply res_bind_ok in H. destruct H as [ls [H1 H2]].
  inversion H2; subst. exists ls. split; auto. apply res_mapM_ok_forall. exact H1.
Qed.

Lemma flat_mapM_in {A B} (f : A -> res (list B)) l out x :
  res_flat_mapM f l = Ok out -> In x out ->
  exists a o, In a l /\ f a = Ok o /\ In x o.
Proof.
  intros H Hin. apply flat_mapM_ok in H. destruct H as [ls [HF ->]].
  apply in_concat in Hin. destruct Hin as [o [Ho Hx]].
  revert Ho. induction HF as [|a b l ls Hab HF IH]; simpl; intros Ho; [contradiction|].
  destruct Ho as [->|Ho].
  - exists a, o. auto.
  - destruct (IH Ho) as [a' [o' [? [? ?]]]]. exists a', o'. auto.
Qed.

Lemma flat_mapM_in_conv {A B} (f : A -> res (list B)) l out a o x :
  res_flat_mapM f l = Ok out -> In a l -> f a = Ok o -> In x o -> In x out.
Proof.
  intros H Hin Hf Hx. apply flat_mapM_ok in H. destruct H as [ls [HF ->]].
  apply in_concat. exists o. split; auto.
  revert Hin. induction HF as [|a' b l ls Hab HF IH]; simpl; intros Hin; [contradiction|].
  destruct Hin as [->|Hin]; auto. left. congruence.
Qed.

Lemma Forall2_in_l {A B} (P : A -> B -> Prop) l ls a :
  Forall2 P l ls -> In a l -> exists b, P a b.
Proof.
  induction 1; simpl; intros Hin; [contradiction|]. destruct Hin as [->|Hin]; eauto.
Qed.

Lemma validate_inv fuel F gi opts m :
  validate fuel F gi opts = Ok m ->
  exists f g, fuel = S f /\ nth_error F gi = Some g /\ extract_option g opts [] = Ok m /\
    forall nd gj, In nd g -> n_kind nd = KSub gj ->
      exists os m', convert_opts (om_get (n_key nd) m) = Ok os /\ validate f F gj os = Ok m'.
Proof.
  destruct fuel as [|f]; simpl; [discriminate|].
  destruct (nth_error F gi) as [g|] eqn:Hg; [|discriminate].
  intros H. apply res_bind_ok in H. destruct H as [m0 [Hm H]].
  apply res_bind_ok in H. destruct H as [us [Hus H]]. inversion H; subst m0.
  exists f, g. repeat split; auto.
  intros nd gj Hin Hk. apply res_mapM_ok_forall in Hus.
  assert (exists u, (match n_kind nd with
                     | KComp _ => Ok tt
                     | KSub gj => do os <- convert_opts (om_get (n_key nd) m); do _ <- validate f F gj os; Ok tt
                     end) = Ok u) as [u Hu].
  { exact (Forall2_in_l _ _ _ _ Hus Hin). }
  rewrite Hk in Hu. apply res_bind_ok in Hu. destruct Hu as [os [Hos Hu]].
  apply res_bind_ok in Hu. destruct Hu as [m' [Hm' _]]. eauto.
Qed.

Lemma node_slice_comp F gi g nd ty opts m :
  keys_unique F -> nth_error F gi = Some g -> In nd g -> n_kind nd = KComp ty ->
  extract_option g opts [] = Ok m ->
  om_get (n_key nd) m = map EItem (spec_delivered opts [n_key nd] ty).
Proof.
  intros HU Hg Hin Hk Hm.
  rewrite (extract_option_get g nd opts [] m (HU _ _ Hg) Hin Hm).
  rewrite om_get_nil. simpl. rewrite (comp_entries nd ty opts Hk), comp_level. reflexivity.
Qed.

Lemma node_slice_sub F gi g nd gj opts m :
  keys_unique F -> nth_error F gi = Some g -> In nd g -> n_kind nd = KSub gj ->
  extract_option g opts [] = Ok m ->
  om_get (n_key nd) m = map EOpt (flat_map (sub_opts (n_key nd)) opts).
Proof.
  intros HU Hg Hin Hk Hm.
  rewrite (extract_option_get g nd opts [] m (HU _ _ Hg) Hin Hm).
  rewrite om_get_nil. simpl. apply (sub_entries nd gj opts Hk).
Qed.

Lemma executes_cons F gi g nd rest :
  nth_error F gi = Some g -> find_node (n_key nd) g = Some nd -> rest <> [] ->
  executes F gi (n_key nd :: rest) =
  n_runs nd && match n_kind nd with KSub gj => executes F gj rest | KComp _ => false end.
Proof.
  intros Hg Hf Hr. simpl. rewrite Hg, Hf. destruct rest; [congruence|reflexivity].
Qed.

Lemma resolve_cons F gi g nd rest :
  nth_error F gi = Some g -> find_node (n_key nd) g = Some nd -> rest <> [] ->
  resolve F gi (n_key nd :: rest) =
  match n_kind nd with KSub gj => resolve F gj rest | KComp _ => None end.
Proof.
  intros Hg Hf Hr. simpl. rewrite Hg, Hf. destruct rest; [congruence|reflexivity].
Qed.

Definition node_run (f : nat) (F : forest) (pre : path) (inh : list N) (opts : list copt)
           (m : optmap) (nd : node) : res (list report) :=
  if negb (n_runs nd) then Ok [] else
  let p := pre ++ [n_key nd] in
  let hs := inh ++ node_handlers (n_key nd) opts in
  match n_kind nd with
  | KComp ty =>
      do its <- convert_items ty (om_get (n_key nd) m);
      Ok [mkRep p (Some its) (if n_cb nd then Some hs else None)]
  | KSub gj =>
      do os <- convert_opts (om_get (n_key nd) m);
      do rs <- run_graph f F gj p hs os;
      Ok (mkRep p None (Some hs) :: rs)
  end.

Lemma run_graph_S f F gi pre inh opts :
  run_graph (S f) F gi pre inh opts =
  match nth_error F gi with
  | None => Err E_GRAPH
  | Some g => do m <- validate (S f) F gi opts; res_flat_mapM (node_run f F pre inh opts m) g
  end.
Proof. reflexivity. Qed.

(* what a report says about the node it belongs to *)
Definition report_ok (F : forest) (gi : nat) (opts : list copt) (p' : path) (r : report) : Prop :=
  p' <> [] /\ executes F gi p' = true /\
  exists nd, resolve F gi p' = Some nd /\
    match r_items r with
    | Some its => exists ty, n_kind nd = KComp ty /\ its = spec_delivered opts p' ty /\
                             Forall (fun it => fst it = ty) its
    | None => exists gj, n_kind nd = KSub gj
    end.

Lemma run_graph_sound fuel : forall F gi pre inh opts rs,
  keys_unique F -> run_graph fuel F gi pre inh opts = Ok rs ->
  forall r, In r rs -> exists p', r_path r = pre ++ p' /\ report_ok F gi opts p' r.
Proof.
  induction fuel as [|f IH]; intros F gi pre inh opts rs HU H r Hr; [discriminate|].
  rewrite run_graph_S in H.
  destruct (nth_error F gi) as [g|] eqn:Hg; [|discriminate].
  apply res_bind_ok in H. destruct H as [m [Hv H]].
  destruct (validate_inv _ _ _ _ _ Hv) as [f' [g' [Hf' [Hg' [Hm _]]]]].
  rewrite Hg in Hg'. inversion Hg'; subst g'. clear Hg' Hf' f'.
  destruct (flat_mapM_in _ _ _ _ H Hr) as [nd [o [Hin [Ho Hro]]]].
  pose proof (find_node_unique g nd (HU _ _ Hg) Hin) as Hfind.
  unfold node_run in Ho.
  destruct (n_runs nd) eqn:Hruns; simpl in Ho; [|inversion Ho; subst; contradiction].
  destruct (n_kind nd) as [ty|gj] eqn:Hk.
  - apply res_bind_ok in Ho. destruct Ho as [its [Hits Ho]]. inversion Ho; subst o. clear Ho.
    destruct Hro as [<-|[]]. simpl. exists [n_key nd]. split; [reflexivity|].
    rewrite (node_slice_comp F gi g nd ty opts m HU Hg Hin Hk Hm) in Hits.
    apply convert_items_map in Hits. destruct Hits as [-> Hall].
    split; [discriminate|]. split.
    + simpl. rewrite Hg, Hfind, Hruns. reflexivity.
    + exists nd. split; [simpl; rewrite Hg, Hfind; reflexivity|].
      simpl. exists ty. auto.
  - apply res_bind_ok in Ho. destruct Ho as [os [Hos Ho]].
    apply res_bind_ok in Ho. destruct Ho as [rs' [Hrs' Ho]]. inversion Ho; subst o. clear Ho.
    rewrite (node_slice_sub F gi g nd gj opts m HU Hg Hin Hk Hm), convert_opts_map in Hos.
    inversion Hos; subst os. clear Hos.
    destruct Hro as [<-|Hro].
    + simpl. exists [n_key nd]. split; [reflexivity|]. split; [discriminate|]. split.
      * simpl. rewrite Hg, Hfind, Hruns. reflexivity.
      * exists nd. split; [simpl; rewrite Hg, Hfind; reflexivity|]. simpl. eauto.
    + destruct (IH _ _ _ _ _ _ HU Hrs' r Hro) as [p' [Hp [Hne [Hex [nd' [Hres Hit]]]]]].
      exists (n_key nd :: p'). split; [rewrite Hp, <- app_assoc; reflexivity|].
      split; [discriminate|]. split.
      * rewrite (executes_cons F gi g nd p' Hg Hfind Hne), Hruns, Hk. exact Hex.
      * exists nd'. split; [rewrite (resolve_cons F gi g nd p' Hg Hfind Hne), Hk; exact Hres|].
        destruct (r_items r) as [its|]; [|exact Hit].
        destruct Hit as [ty [Hk' [Hits Hall]]]. exists ty. split; auto. split; auto.
        rewrite Hits. apply sub_level. exact Hne.
Qed.

Lemma run_graph_complete fuel : forall F gi pre inh opts rs,
  keys_unique F -> run_graph fuel F gi pre inh opts = Ok rs ->
  forall p' nd, resolve F gi p' = Some nd -> executes F gi p' = true ->
  exists r, In r rs /\ r_path r = pre ++ p' /\
            (forall ty, n_kind nd = KComp ty -> r_items r = Some (spec_delivered opts p' ty)) /\
            (forall gj, n_kind nd = KSub gj -> r_items r = None).
Proof.
  induction fuel as [|f IH]; intros F gi pre inh opts rs HU H p' nd Hres Hex; [discriminate|].
  rewrite run_graph_S in H.
  destruct p' as [|k rest]; [discriminate|].
  simpl in Hres, Hex.
  destruct (nth_error F gi) as [g|] eqn:Hg; [|discriminate].
  destruct (find_node k g) as [nd0|] eqn:Hfind; [|discriminate].
  destruct (find_node_in _ _ _ Hfind) as [Hin Hkey]. subst k.
  apply andb_prop in Hex. destruct Hex as [Hruns Hex].
  apply res_bind_ok in H. destruct H as [m [Hv H]].
  destruct (validate_inv _ _ _ _ _ Hv) as [f' [g' [Hf' [Hg' [Hm _]]]]].
  rewrite Hg in Hg'. inversion Hg'; subst g'. clear Hg' Hf' f'.
  pose proof H as H'. apply flat_mapM_ok in H'. destruct H' as [ls [HF _]].
  destruct (Forall2_in_l _ _ _ _ HF Hin) as [o Ho].
  unfold node_run in Ho. rewrite Hruns in Ho. simpl in Ho.
  destruct rest as [|k2 rest].
  - inversion Hres; subst nd0. clear Hres.
    destruct (n_kind nd) as [ty|gj] eqn:Hk.
    + apply res_bind_ok in Ho. destruct Ho as [its [Hits Ho]]. inversion Ho; subst o. clear Ho.
      rewrite (node_slice_comp F gi g nd ty opts m HU Hg Hin Hk Hm) in Hits.
      apply convert_items_map in Hits. destruct Hits as [-> Hall].
      eexists. split.
      * eapply (flat_mapM_in_conv _ _ _ nd _ _ H Hin).
        { unfold node_run. rewrite Hruns, Hk. simpl.
          rewrite (node_slice_comp F gi g nd ty opts m HU Hg Hin Hk Hm).
          rewrite (convert_items_ok ty _ Hall). reflexivity. }
        left. reflexivity.
      * simpl. split; [reflexivity|]. split.
        -- intros ty' Hty'. inversion Hty'; subst. reflexivity.
        -- intros gj Hgj. discriminate.
    + apply res_bind_ok in Ho. destruct Ho as [os [Hos Ho]].
      apply res_bind_ok in Ho. destruct Ho as [rs' [Hrs' Ho]]. inversion Ho; subst o. clear Ho.
      eexists. split.
      * eapply (flat_mapM_in_conv _ _ _ nd _ _ H Hin).
        { unfold node_run. rewrite Hruns, Hk. simpl. rewrite Hos. simpl. rewrite Hrs'. reflexivity. }
        left. reflexivity.
      * simpl. split; [reflexivity|]. split; [intros ty Hty; discriminate|reflexivity].
  - destruct (n_kind nd0) as [ty|gj] eqn:Hk; [discriminate|].
    apply res_bind_ok in Ho. destruct Ho as [os [Hos Ho]].
    apply res_bind_ok in Ho. destruct Ho as [rs' [Hrs' Ho]]. inversion Ho; subst o. clear Ho.
    pose proof Hos as Hos'.
    rewrite (node_slice_sub F gi g nd0 gj opts m HU Hg Hin Hk Hm), convert_opts_map in Hos'.
    inversion Hos'; subst os. clear Hos'.
    destruct (IH _ _ _ _ _ _ HU Hrs' (k2 :: rest) nd Hres Hex) as [r [Hr [Hp [Hc Hs]]]].
    exists r. split.
    + eapply (flat_mapM_in_conv _ _ _ nd0 _ _ H Hin).
      { unfold node_run. rewrite Hruns, Hk. simpl. rewrite Hos. simpl. rewrite Hrs'. reflexivity. }
      right. exact Hr.
    + split; [rewrite Hp, <- app_assoc; reflexivity|]. split; [|exact Hs].
      intros ty Hty. rewrite (Hc ty Hty). f_equal. apply sub_level. discriminate.
Qed.

(* ------------------------------------------------------------------ errors *)
Definition fails {A} (r : res A) : Prop := forall a, r <> Ok a.

Lemma fails_bind {A B} (r : res A) (f : A -> res B) :
  fails (res_bind r f) <-> fails r \/ exists a, r = Ok a /\ fails (f a).
Proof.
  unfold fails. destruct r as [a| |]; simpl; split.
  - intros H. right. exists a. auto.
  - intros [H|[a' [Ha H]]]; [exfalso; eapply H; reflexivity|]. inversion Ha; subst. exact H.
  - intros _. left. intros a; discriminate.
  - intros _ b; discriminate.
  - intros _. left. intros a; discriminate.
  - intros _ b; discriminate.
Qed.

Lemma not_fails_ok {A} (r : res A) : ~ fails r -> exists a, r = Ok a.
Proof.
  unfold fails. destruct r as [a| |]; intros H; eauto; exfalso; apply H; intros a; discriminate.
Qed.

Lemma ok_not_fails {A} (r : res A) a : r = Ok a -> ~ fails r.
Proof. intros -> H. eapply H. reflexivity. Qed.

Lemma fails_dec {A} (r : res A) : fails r \/ exists a, r = Ok a.
Proof. destruct r as [a| |]; [right; eauto|left; intros a; discriminate|left; intros a; discriminate]. Qed.

(* the part of [bad_path] that is detected in the graph the path starts in *)
Definition level_bad (g : graph) (o : copt) (q : path) : bool :=
  match q with
  | [] => true
  | k :: rest =>
    match find_node k g with
    | None => true
    | Some nd =>
      match n_kind nd, rest with
      | KComp ty, [] => match o_items o with [] => false | _ :: _ => negb (ty_matches o ty) end
      | KComp _, _ :: _ => true
      | KSub _, _ => false
      end
    end
  end.

Lemma extract_path_fails g o q m :
  fails (extract_path g o q m) <-> level_bad g o q = true.
Proof.
  unfold fails.
  assert (T : forall (A : Type) (x : A) (b : bool) (r : res A),
             (r = Ok x /\ b = false) \/ ((exists e, r = Err e) /\ b = true) ->
             ((forall a, r <> Ok a) <-> b = true)).
  { intros A x b r [[-> ->]|[[e ->] ->]]; split; intros H; try reflexivity; try discriminate.
    exfalso. eapply H. reflexivity. }
  destruct q as [|k rest]; simpl.
  - apply (T _ m). right. eauto.
  - destruct (find_node k g) as [nd|]; [|apply (T _ m); right; eauto].
    destruct rest as [|k2 rest].
    + destruct (o_items o) as [|it its].
      * destruct (n_kind nd); apply (T _ m); left; auto.
      * destruct (n_kind nd) as [ty|gj].
        -- destruct (ty_matches o ty); simpl.
           ++ eapply T. left. eauto.
           ++ apply (T _ m). right. eauto.
        -- eapply T. left. eauto.
    + destruct (n_kind nd).
      * apply (T _ m). right. eauto.
      * eapply T. left. eauto.
Qed.

Lemma extract_paths_fails g o qs m :
  fails (extract_paths g o qs m) <-> exists q, In q qs /\ level_bad g o q = true.
Proof.
  revert m. induction qs as [|q qs IH]; intros m; simpl.
  - split; [intros H; exfalso; eapply H; reflexivity|intros [q [[] _]]].
  - rewrite fails_bind. split.
    + intros [H|[m' [_ H]]].
      * exists q. split; auto. apply (extract_path_fails g o q m). exact H.
      * apply IH in H. destruct H as [q' [Hin Hb]]. exists q'. auto.
    + intros [q' [[->|Hin] Hb]].
      * left. apply extract_path_fails. exact Hb.
      * destruct (fails_dec (extract_path g o q m)) as [Hf|[m' Hm']]; [left; exact Hf|].
        right. exists m'. split; auto. apply IH. exists q'. auto.
Qed.

Lemma extract_one_fails g o m :
  fails (extract_one g o m) <-> exists q, In q (o_paths o) /\ level_bad g o q = true.
Proof.
  unfold extract_one. destruct (o_paths o) as [|q qs] eqn:Hp.
  - split; [|intros [q [[] _]]].
    destruct (o_items o); intros H; exfalso; eapply H; reflexivity.
  - apply extract_paths_fails.
Qed.

Lemma extract_option_fails g opts m :
  fails (extract_option g opts m) <->
  exists o q, In o opts /\ In q (o_paths o) /\ level_bad g o q = true.
Proof.
  revert m. induction opts as [|o opts IH]; intros m; simpl.
  - split; [intros H; exfalso; eapply H; reflexivity|intros [o [q [[] _]]]].
  - rewrite fails_bind. split.
    + intros [H|[m' [_ H]]].
      * apply extract_one_fails in H. destruct H as [q [Hin Hb]]. exists o, q. auto.
      * apply IH in H. destruct H as [o' [q [Hin [Hq Hb]]]]. exists o', q. auto.
    + intros [o' [q [[->|Hin] [Hq Hb]]]].
      * left. apply extract_one_fails. exists q. auto.
      * destruct (fails_dec (extract_one g o m)) as [Hf|[m' Hm']]; [left; exact Hf|].
        right. exists m'. split; auto. apply IH. exists o', q. auto.
Qed.

Definition sub_check (f : nat) (F : forest) (m : optmap) (nd : node) : res unit :=
  match n_kind nd with
  | KComp _ => Ok tt
  | KSub gj => do os <- convert_opts (om_get (n_key nd) m); do _ <- validate f F gj os; Ok tt
  end.

Lemma validate_S f F gi opts :
  validate (S f) F gi opts =
  match nth_error F gi with
  | None => Err E_GRAPH
  | Some g => do m <- extract_option g opts []; do _ <- res_mapM (sub_check f F m) g; Ok m
  end.
Proof. reflexivity. Qed.

Lemma bad_path_cases F gi g o q :
  nth_error F gi = Some g ->
  (bad_path F o gi q = true <->
   level_bad g o q = true \/
   exists k rest nd gj, q = k :: rest /\ rest <> [] /\ find_node k g = Some nd /\
                        n_kind nd = KSub gj /\ bad_path F o gj rest = true).
Proof.
  intros Hg. destruct q as [|k rest]; simpl.
  - split; auto.
  - rewrite Hg. destruct (find_node k g) as [nd|] eqn:Hf.
    + destruct (n_kind nd) as [ty|gj] eqn:Hk; destruct rest as [|k2 rest].
      * split; auto. intros [H|[k' [rest' [nd' [gj [Hq [Hne _]]]]]]]; auto.
        inversion Hq; subst. congruence.
      * split; auto.
      * split; [discriminate|]. intros [H|[k' [rest' [nd' [gj' [Hq [Hne _]]]]]]]; auto.
        inversion Hq; subst. congruence.
      * split.
        -- intros H. right. exists k, (k2 :: rest), nd, gj. repeat split; auto. discriminate.
        -- intros [H|[k' [rest' [nd' [gj' [Hq [Hne [Hf' [Hk' Hb]]]]]]]]]; [discriminate|].
           inversion Hq; subst. rewrite Hf in Hf'. inversion Hf'; subst. congruence.
    + split; auto.
Qed.

Lemma bad_path_items F o o' : o_items o = o_items o' ->
  forall q gi, bad_path F o gi q = bad_path F o' gi q.
Proof.
  intros Hi. induction q as [|k rest IH]; intros gi; simpl; [reflexivity|].
  destruct (nth_error F gi) as [g|]; [|reflexivity].
  destruct (find_node k g) as [nd|]; [|reflexivity].
  unfold ty_matches, head_ty. rewrite Hi.
  destruct (n_kind nd); destruct rest; try reflexivity. apply IH.
Qed.

Lemma sub_opts_origin k opts o' q' :
  In o' (flat_map (sub_opts k) opts) -> In q' (o_paths o') ->
  exists o, In o opts /\ o_items o' = o_items o /\ In (k :: q') (o_paths o) /\ q' <> [].
Proof.
  intros Hin Hq. apply in_flat_map in Hin. destruct Hin as [o [Ho Hin]].
  exists o. split; auto. unfold sub_opts in Hin.
  destruct (o_paths o) as [|q0 qs] eqn:Hp.
  - destruct (o_items o); [contradiction|]. destruct Hin as [<-|[]]. rewrite Hp in Hq. contradiction.
  - rewrite <- Hp in *. clear Hp. apply in_flat_map in Hin. destruct Hin as [q [Hq0 Hin]].
    destruct q as [|k' [|k2 rest]]; simpl in Hin.
    + contradiction.
    + destruct (N.eqb k' k); [|contradiction]. destruct (o_items o); [contradiction|].
      destruct Hin as [<-|[]]. simpl in Hq. contradiction.
    + destruct (N.eqb k' k) eqn:E; [|contradiction]. apply N.eqb_eq in E. subst k'.
      destruct Hin as [<-|[]]. simpl in Hq. destruct Hq as [<-|[]].
      repeat split; auto. discriminate.
Qed.

Lemma sub_opts_member k opts o rest :
  In o opts -> In (k :: rest) (o_paths o) -> rest <> [] ->
  In (deep_copy o [rest]) (flat_map (sub_opts k) opts).
Proof.
  intros Ho Hq Hne. apply in_flat_map. exists o. split; auto. unfold sub_opts.
  destruct (o_paths o) as [|q0 qs] eqn:Hp; [contradiction|]. rewrite <- Hp in *. clear Hp.
  apply in_flat_map. exists (k :: rest). split; auto.
  destruct rest as [|k2 rest]; [congruence|]. simpl. rewrite N.eqb_refl. left. reflexivity.
Qed.

Lemma validate_fails fuel : forall F gi opts,
  keys_unique F -> well_nested F -> (gi < List.length F)%nat -> (List.length F - gi <= fuel)%nat ->
  (fails (validate fuel F gi opts) <->
   exists o q, In o opts /\ In q (o_paths o) /\ bad_path F o gi q = true).
Proof.
  induction fuel as [|f IH]; intros F gi opts HU HW Hlt Hfuel; [lia|].
  rewrite validate_S.
  destruct (nth_error F gi) as [g|] eqn:Hg; [|apply nth_error_None in Hg; lia].
  assert (Hsub : forall nd gj m, In nd g -> n_kind nd = KSub gj -> extract_option g opts [] = Ok m ->
            convert_opts (om_get (n_key nd) m) = Ok (flat_map (sub_opts (n_key nd)) opts)).
  { intros nd gj m Hin Hk Hm.
    rewrite (node_slice_sub F gi g nd gj opts m HU Hg Hin Hk Hm). apply convert_opts_map. }
  split.
  - intros H. apply fails_bind in H. destruct H as [H|[m [Hm H]]].
    + apply extract_option_fails in H. destruct H as [o [q [Ho [Hq Hb]]]].
      exists o, q. repeat split; auto. apply (bad_path_cases F gi g o q Hg). auto.
    + apply fails_bind in H. destruct H as [H|[us [_ H]]]; [|exfalso; eapply H; reflexivity].
      apply res_mapM_err in H. destruct H as [nd [Hin Hnd]]. unfold sub_check in Hnd.
      destruct (n_kind nd) as [ty|gj] eqn:Hk; [exfalso; eapply Hnd; reflexivity|].
      rewrite (Hsub nd gj m Hin Hk Hm) in Hnd. simpl in Hnd.
      destruct (HW gi g nd gj Hg Hin Hk) as [Hgt Hlt'].
      assert (Hv : fails (validate f F gj (flat_map (sub_opts (n_key nd)) opts))).
      { intros m' Hm'. eapply Hnd. rewrite Hm'. reflexivity. }
      apply IH in Hv; auto; [|lia]. destruct Hv as [o' [q' [Ho' [Hq' Hb]]]].
      destruct (sub_opts_origin _ _ _ _ Ho' Hq') as [o [Ho [Hi [Hq Hne]]]].
      exists o, (n_key nd :: q'). repeat split; auto.
      apply (bad_path_cases F gi g o _ Hg). right.
      exists (n_key nd), q', nd, gj. repeat split; auto.
      * apply find_node_unique; auto. apply (HU _ _ Hg).
      * rewrite <- (bad_path_items F o' o Hi). exact Hb.
  - intros [o [q [Ho [Hq Hb]]]]. apply fails_bind.
    apply (bad_path_cases F gi g o q Hg) in Hb.
    destruct Hb as [Hb|[k [rest [nd [gj [-> [Hne [Hf [Hk Hb]]]]]]]]].
    + left. apply extract_option_fails. exists o, q. auto.
    + destruct (fails_dec (extract_option g opts [])) as [Hfl|[m Hm]]; [left; exact Hfl|].
      right. exists m. split; auto. apply fails_bind. left.
      destruct (find_node_in _ _ _ Hf) as [Hin Hkey]. subst k.
      intros us Hus. eapply (res_mapM_in_err _ _ nd Hin); [|exact Hus].
      intros u Hu. unfold sub_check in Hu. rewrite Hk in Hu.
      rewrite (Hsub nd gj m Hin Hk Hm) in Hu. simpl in Hu.
      destruct (HW gi g nd gj Hg Hin Hk) as [Hgt Hlt'].
      assert (Hv : fails (validate f F gj (flat_map (sub_opts (n_key nd)) opts))).
      { apply IH; auto; [lia|]. exists (deep_copy o [rest]), rest. repeat split.
        - apply sub_opts_member; auto.
        - simpl. auto.
        - rewrite (bad_path_items F (deep_copy o [rest]) o eq_refl). exact Hb. }
      destruct (validate f F gj (flat_map (sub_opts (n_key nd)) opts)) as [m'| |] eqn:Hm';
        try discriminate. eapply Hv. reflexivity.
Qed.

(* ------------------------------------------------------------------ uniform options: no node-level conversion error *)
Lemma sub_opts_items k opts o' :
  In o' (flat_map (sub_opts k) opts) -> exists o, In o opts /\ o_items o' = o_items o.
Proof.
  intros Hin. apply in_flat_map in Hin. destruct Hin as [o [Ho Hin]].
  exists o. split; auto. unfold sub_opts in Hin.
  destruct (o_paths o) as [|q0 qs].
  - destruct (o_items o) eqn:Hi; [contradiction|]. destruct Hin as [<-|[]]. exact Hi.
  - apply in_flat_map in Hin. destruct Hin as [q [_ Hin]].
    destruct q as [|k' [|k2 rest]]; simpl in Hin; try contradiction.
    + destruct (N.eqb k' k); [|contradiction]. destruct (o_items o) eqn:Hi; [contradiction|].
      destruct Hin as [<-|[]]. exact Hi.
    + destruct (N.eqb k' k); [|contradiction]. destruct Hin as [<-|[]]. reflexivity.
Qed.

Lemma uniform_items o o' : o_items o' = o_items o -> uniform o -> uniform o'.
Proof. unfold uniform, head_ty. intros ->. auto. Qed.

Lemma uniform_sub_opts k opts :
  Forall uniform opts -> Forall uniform (flat_map (sub_opts k) opts).
Proof.
  intros H. apply Forall_forall. intros o' Hin.
  destruct (sub_opts_items _ _ _ Hin) as [o [Ho Hi]].
  eapply uniform_items; eauto. eapply Forall_forall in H; eauto.
Qed.

Lemma uniform_matches o ty it :
  uniform o -> ty_matches o ty = true -> In it (o_items o) -> fst it = ty.
Proof.
  unfold ty_matches. intros HU Hm Hin. rewrite (HU it Hin) in Hm.
  apply N.eqb_eq in Hm. exact Hm.
Qed.

Lemma delivered_typed g nd ty opts m :
  NoDup (map n_key g) -> In nd g -> n_kind nd = KComp ty ->
  extract_option g opts [] = Ok m -> Forall uniform opts ->
  Forall (fun it => fst it = ty) (spec_delivered opts [n_key nd] ty).
Proof.
  intros Hnd Hin Hk Hm HU. apply Forall_forall. intros it Hit.
  unfold spec_delivered in Hit. apply in_flat_map in Hit. destruct Hit as [o [Ho Hit]].
  assert (Huo : uniform o) by (eapply Forall_forall in HU; eauto).
  unfold addressed_items in Hit. destruct (o_paths o) as [|q0 qs] eqn:Hp.
  - destruct (ty_matches o ty) eqn:Hty; [|contradiction]. eapply uniform_matches; eauto.
  - rewrite <- Hp in Hit. apply in_flat_map in Hit. destruct Hit as [q [Hq Hit]].
    destruct (path_eqb q [n_key nd]) eqn:Heq.
    + apply path_eqb_eq in Heq. subst q.
      assert (Hnb : level_bad g o [n_key nd] <> true).
      { intros Hb. apply (ok_not_fails _ _ Hm). apply extract_option_fails. exists o, [n_key nd]. auto. }
      simpl in Hnb. rewrite (find_node_unique g nd Hnd Hin), Hk in Hnb.
      destruct (o_items o) as [|i0 its] eqn:Hi; [contradiction|].
      destruct (ty_matches o ty) eqn:Hty; [|exfalso; apply Hnb; reflexivity].
      eapply uniform_matches; eauto. rewrite Hi. exact Hit.
    + destruct (proper_prefixb q [n_key nd] && ty_matches o ty) eqn:Hpp; [|contradiction].
      apply andb_prop in Hpp. destruct Hpp as [_ Hty]. eapply uniform_matches; eauto.
Qed.

Lemma flat_mapM_all_ok {A B} (f : A -> res (list B)) l :
  (forall a, In a l -> exists b, f a = Ok b) -> exists out, res_flat_mapM f l = Ok out.
Proof.
  intros H. unfold res_flat_mapM.
  assert (exists ls, res_mapM f l = Ok ls) as [ls Hls].
  { induction l as [|a l IH]; simpl; [eauto|].
    destruct (H a (or_introl eq_refl)) as [b Hb]. rewrite Hb. simpl.
    destruct IH as [ls Hls]; [intros a' Ha'; apply H; right; exact Ha'|].
    rewrite Hls. simpl. eauto. }
  rewrite Hls. simpl. eauto.
Qed.

Lemma run_graph_ok_of_validate fuel : forall F gi pre inh opts m,
  keys_unique F -> Forall uniform opts -> validate fuel F gi opts = Ok m ->
  exists rs, run_graph fuel F gi pre inh opts = Ok rs.
Proof.
  induction fuel as [|f IH]; intros F gi pre inh opts m HU Huni Hv; [discriminate|].
  rewrite run_graph_S.
  destruct (validate_inv _ _ _ _ _ Hv) as [f' [g [Hf' [Hg [Hm Hnest]]]]].
  inversion Hf'; subst f'. clear Hf'. rewrite Hg, Hv. simpl.
  apply flat_mapM_all_ok. intros nd Hin. unfold node_run.
  destruct (n_runs nd); simpl; [|eauto].
  destruct (n_kind nd) as [ty|gj] eqn:Hk.
  - rewrite (node_slice_comp F gi g nd ty opts m HU Hg Hin Hk Hm).
    rewrite (convert_items_ok ty _ (delivered_typed g nd ty opts m (HU _ _ Hg) Hin Hk Hm Huni)).
    simpl. eauto.
  - destruct (Hnest nd gj Hin Hk) as [os [m' [Hos Hm']]]. rewrite Hos. simpl.
    pose proof Hos as Hos'.
    rewrite (node_slice_sub F gi g nd gj opts m HU Hg Hin Hk Hm), convert_opts_map in Hos'.
    inversion Hos'; subst os.
    destruct (IH F gj (pre ++ [n_key nd]) (inh ++ node_handlers (n_key nd) opts) _ m' HU
                 (uniform_sub_opts _ _ Huni) Hm') as [rs' Hrs'].
    rewrite Hrs'. simpl. eauto.
Qed.

(* ------------------------------------------------------------------ the call *)
Lemma run_call_inv F opts rs :
  run_call F opts = Ok rs ->
  exists rs', run_graph (S (List.length F)) F 0 [] (graph_handlers opts) opts = Ok rs' /\
              rs = mkRep [] None (Some (graph_handlers opts)) :: rs'.
Proof.
  unfold run_call. intros H. apply res_bind_ok in H. destruct H as [rs' [H1 H2]].
  inversion H2; subst. eauto.
Qed.

Lemma run_call_delivered_sound F opts rs r its :
  keys_unique F -> run_call F opts = Ok rs -> In r rs -> r_items r = Some its ->
  exists nd ty, executes F 0 (r_path r) = true /\ resolve F 0 (r_path r) = Some nd /\
                n_kind nd = KComp ty /\ its = spec_delivered opts (r_path r) ty /\
                Forall (fun it => fst it = ty) its.
Proof.
  intros HU H Hin Hits. destruct (run_call_inv _ _ _ H) as [rs' [Hrs' ->]].
  destruct Hin as [<-|Hin]; [discriminate|].
  destruct (run_graph_sound _ _ _ _ _ _ _ HU Hrs' r Hin) as [p' [Hp [Hne [Hex [nd [Hres Hit]]]]]].
  simpl in Hp. rewrite Hits in Hit. destruct Hit as [ty [Hk [-> Hall]]].
  exists nd, ty. rewrite Hp. auto.
Qed.

Lemma run_call_delivered_complete F opts rs p nd ty :
  keys_unique F -> run_call F opts = Ok rs ->
  resolve F 0 p = Some nd -> n_kind nd = KComp ty -> executes F 0 p = true ->
  exists r, In r rs /\ r_path r = p /\ r_items r = Some (spec_delivered opts p ty).
Proof.
  intros HU H Hres Hk Hex. destruct (run_call_inv _ _ _ H) as [rs' [Hrs' ->]].
  destruct (run_graph_complete _ _ _ _ _ _ _ HU Hrs' p nd Hres Hex) as [r [Hr [Hp [Hc _]]]].
  exists r. split; [right; exact Hr|]. split; auto.
Qed.

Lemma spec_delivered_in opts p ty it :
  In it (spec_delivered opts p ty) <->
  exists o, In o opts /\ In it (o_items o) /\ addresses o p ty.
Proof.
  unfold spec_delivered. rewrite in_flat_map. split.
  - intros [o [Ho Hit]]. exists o. split; auto. unfold addressed_items in Hit. unfold addresses.
    destruct (o_paths o) as [|q0 qs] eqn:Hp.
    + destruct (ty_matches o ty) eqn:Hty; [|contradiction]. auto.
    + rewrite <- Hp in *. apply in_flat_map in Hit. destruct Hit as [q [Hq Hit]].
      destruct (path_eqb q p) eqn:Heq.
      * apply path_eqb_eq in Heq. subst q. auto.
      * destruct (proper_prefixb q p && ty_matches o ty) eqn:Hpp; [|contradiction].
        apply andb_prop in Hpp. destruct Hpp as [Hpp Hty]. split; auto. right. right. eauto.
  - intros [o [Ho [Hit Ha]]]. exists o. split; auto. unfold addressed_items.
    destruct Ha as [[Hp Hty]|[Hin|[q [Hq [Hpp Hty]]]]].
    + rewrite Hp, Hty. exact Hit.
    + destruct (o_paths o) as [|q0 qs] eqn:Hp; [contradiction|]. rewrite <- Hp in *.
      apply in_flat_map. exists p. split; auto. rewrite path_eqb_refl. exact Hit.
    + destruct (o_paths o) as [|q0 qs] eqn:Hp; [contradiction|]. rewrite <- Hp in *.
      apply in_flat_map. exists q. split; auto. rewrite Hpp, Hty. simpl.
      destruct (path_eqb q p); exact Hit.
Qed.

Lemma run_call_fails_iff F opts :
  keys_unique F -> well_nested F -> F <> [] -> Forall uniform opts ->
  (fails (run_call F opts) <->
   exists o q, In o opts /\ In q (o_paths o) /\ bad_path F o 0 q = true).
Proof.
  intros HU HW Hne Huni.
  assert (Hlen : (0 < List.length F)%nat) by (destruct F; [congruence|simpl; lia]).
  rewrite <- (validate_fails (S (List.length F)) F 0 opts HU HW Hlen) by lia.
  unfold run_call. rewrite fails_bind. split.
  - intros [H|[rs [_ H]]]; [|exfalso; eapply H; reflexivity].
    intros m Hm.
    destruct (run_graph_ok_of_validate _ F 0 [] (graph_handlers opts) opts m HU Huni Hm) as [rs Hrs].
    eapply H. exact Hrs.
  - intros H. left. intros rs Hrs. rewrite run_graph_S in Hrs.
    destruct (nth_error F 0) as [g|]; [|discriminate].
    apply res_bind_ok in Hrs. destruct Hrs as [m [Hm _]]. eapply H. exact Hm.
Qed.
