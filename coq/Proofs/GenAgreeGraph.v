(* Proofs/GenAgreeGraph.v — the default step limit tools/go2v regenerated from compose/graph.go
   (Gen/StepLimit.v) is the one the any-predecessor model uses ([default_limit_of] /
   [max_steps] of Model/Graph.v).  A changed addend, base expression or guard makes one of
   these stop compiling. *)
From Eino Require Import Base.Util Model.Graph Model.StepLimitTable.
From Eino Require Gen.StepLimit.

Theorem gen_default_step_addend_agrees : Gen.StepLimit.default_step_addend = Model.StepLimitTable.default_step_addend.
Proof. reflexivity. Qed.

Theorem gen_default_step_base_agrees : Gen.StepLimit.default_step_base = Model.StepLimitTable.default_step_base.
Proof. reflexivity. Qed.

Theorem gen_default_step_guard_agrees : Gen.StepLimit.default_step_guard = Model.StepLimitTable.default_step_guard.
Proof. reflexivity. Qed.

(* the model's default limit is "number of nodes + the addend in the source" *)
Theorem default_limit_is_gen : forall n, default_limit_of n = (n + Gen.StepLimit.default_step_addend)%nat.
Proof. intros n. reflexivity. Qed.

(* and it is what an any-predecessor graph without an explicit limit runs under *)
Theorem max_steps_default_is_gen : forall g, g_max g = 0%nat ->
  max_steps g = (List.length (real_nodes g) + Gen.StepLimit.default_step_addend)%nat.
Proof. intros g H. unfold max_steps. rewrite H. reflexivity. Qed.
