(* Proofs/IsolationPool.v — property C09, instance 6 (Model/IsolationPool.v): per-run managers
   recycled through a pool vs. allocated by the run, with a run that returns while one of its
   tasks is still executing. *)
From Eino Require Import Base.Util Model.Isolation Model.IsolationPool Proofs.Isolation.
From Coq Require Import Lia.

(* ---- pooled managers: a healthy run returns the output of ANOTHER run's abandoned task.
   Run 0 faults (its task, output 7, is still running when it returns), run 1 is healthy (output 1).
   Schedule: 0 acquires; 0 returns and releases; 1 acquires (the recycled manager); the abandoned
   task of run 0 completes into it; 1's task completes; 1 collects. *)
Definition pool_sched : list nat := [0; 0; 1; 0; 1; 1]%nat.

Lemma pool_late_completion_is_delivered_to_another_run :
  exists g',
    grun pstep_pool pool_sched (pstore0, [pinit 7 true; pinit 1 false]) = Some g' /\
    all_final pstep_pool g' = true /\
    exists r1' s rs,
      nth_error (snd g') 1 = Some r1' /\
      solo_run pstep_pool 3 pstore0 (pinit 1 false) = Some (s, rs) /\
      p_ret rs = Some (Some 1%N) /\ p_ret r1' = Some (Some 7%N).
Proof.
  eexists. split; [vm_compute; reflexivity|]. split; [vm_compute; reflexivity|].
  do 3 eexists. split; [vm_compute; reflexivity|]. split; [vm_compute; reflexivity|].
  split; vm_compute; reflexivity.
Qed.

(* … and it needs no overlap in time: the faulted call has RETURNED to its caller before the
   healthy call starts (the caller's next call; the schedule above has run 0's return at position 1
   and run 1's first step at position 2) *)
Lemma pool_no_overlap_needed :
  exists g1, grun pstep_pool (firstn 2 pool_sched) (pstore0, [pinit 7 true; pinit 1 false]) = Some g1 /\
             (exists r0, nth_error (snd g1) 0 = Some r0 /\ p_ret r0 = Some None) /\
             (exists r1, nth_error (snd g1) 1 = Some r1 /\ p_pc r1 = 0%N).
Proof.
  eexists. split; [vm_compute; reflexivity|]. split; eexists; split; vm_compute; reflexivity.
Qed.

(* ---- managers allocated by the run: the store is never written and never read *)
Lemma pstep_fresh_store : forall s r s' r', pstep_fresh s r = Some (s', r') -> s' = s.
Proof.
  intros s r s' r' H. unfold pstep_fresh in H.
  destruct (N.eqb (p_pc r) 0); [inversion H; reflexivity|].
  destruct (N.eqb (p_pc r) 1). { destruct (p_fault r); inversion H; reflexivity. }
  destruct (N.eqb (p_pc r) 2); [|discriminate].
  destruct (p_fault r); inversion H; reflexivity.
Qed.

Lemma pstep_fresh_reads_nothing : forall s1 s2 r,
  option_map snd (pstep_fresh s1 r) = option_map snd (pstep_fresh s2 r).
Proof.
  intros s1 s2 r. unfold pstep_fresh.
  destruct (N.eqb (p_pc r) 0); [reflexivity|].
  destruct (N.eqb (p_pc r) 1). { destruct (p_fault r); reflexivity. }
  destruct (N.eqb (p_pc r) 2); [|reflexivity].
  destruct (p_fault r); reflexivity.
Qed.

(* a run of the fresh variant alone, from any store *)
Lemma fresh_solo_healthy : forall s v,
  solo pstep_fresh 3 s (pinit v false) =
    Some (s, {| p_pc := 3; p_val := v; p_fault := false; p_box := None; p_own := [v]; p_ret := Some (Some v) |}).
Proof. intros s v. reflexivity. Qed.

Lemma fresh_solo_faulted : forall s v,
  solo pstep_fresh 3 s (pinit v true) =
    Some (s, {| p_pc := 3; p_val := v; p_fault := true; p_box := None; p_own := [v]; p_ret := Some None |}).
Proof. intros s v. reflexivity. Qed.

(* Any number of runs, faulted and healthy, ANY interleaving: the store is the initial one, and
   a run that has made its three steps has returned what it returns alone — a healthy run its
   own task's output, whatever abandoned tasks complete in the meantime. *)
Theorem fresh_managers_isolated : forall sched g g',
  grun pstep_fresh sched g = Some g' ->
  fst g' = fst g /\
  forall i v fault, nth_error (snd g) i = Some (pinit v fault) -> count i sched = 3%nat ->
    exists r', nth_error (snd g') i = Some r' /\
               p_ret r' = Some (if fault then None else Some v) /\ p_own r' = [v].
Proof.
  intros sched g g' G.
  assert (H1 : forall s r s' r', pstep_fresh s r = Some (s', r') -> (fun x : pstore => x) s' = (fun x : pstore => x) s).
  { intros s r s' r' H. exact (pstep_fresh_store s r s' r' H). }
  split.
  - exact (@grun_view _ _ _ pstep_fresh (fun x : pstore => x) H1 sched g g' G).
  - intros i v fault Hi Hc.
    destruct (@project_run _ _ _ pstep_fresh (fun x : pstore => x) H1
                (fun s1 s2 r _ => pstep_fresh_reads_nothing s1 s2 r) sched g g' G i _ Hi (fst g) eq_refl)
      as (s0' & r' & Hsolo & Hr' & _).
    rewrite Hc in Hsolo. exists r'. split; [exact Hr'|].
    destruct fault.
    + rewrite fresh_solo_faulted in Hsolo. inversion Hsolo; subst. split; reflexivity.
    + rewrite fresh_solo_healthy in Hsolo. inversion Hsolo; subst. split; reflexivity.
Qed.

(* non-vacuity: the schedule that breaks the pooled variant is a schedule of the fresh variant too *)
Lemma fresh_same_schedule :
  exists g', grun pstep_fresh pool_sched (pstore0, [pinit 7 true; pinit 1 false]) = Some g' /\
             map p_ret (snd g') = [Some None; Some (Some 1%N)].
Proof. eexists. split; vm_compute; reflexivity. Qed.
