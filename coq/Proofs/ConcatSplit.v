(* Proofs/ConcatSplit.v — from the prefix law (Proofs/ConcatRechunk.v, ConcatMsg*.v) and the
   suffix law (Proofs/ConcatSuffix*.v): concatenating ANY segment of the chunk list first,
   and more generally cutting the chunk list into consecutive non-empty groups in any way,
   concatenating every group and then the results, gives the same value as concatenating
   everything at once, and fails in the same cases. *)
From Eino Require Import Base.Util Model.Concat Model.ConcatMsg Model.ConcatMsgMap.
From Eino Require Import Proofs.Concat Proofs.ConcatRechunk Proofs.ConcatMsg Proofs.ConcatMsgList.
From Eino Require Import Proofs.ConcatKeyed Proofs.ConcatMsgMap.
From Eino Require Import Proofs.ConcatSuffix Proofs.ConcatSuffixMsg Proofs.ConcatSuffixMap Proofs.ConcatAny.

Section Split.
Context {X : Type}.
Variable F : list X -> res X.
Variable Good : X -> Prop.
Hypothesis P : forall xs ys, xs <> [] -> Forall Good (xs ++ ys) -> rechunk_ok F xs ys.
Hypothesis S : forall xs ys, ys <> [] -> Forall Good (xs ++ ys) -> suffix_ok F xs ys.
Hypothesis G : forall xs c, xs <> [] -> Forall Good xs -> F xs = Ok c -> Good c.

Definition segment_ok (pre seg post : list X) : Prop :=
  match F seg with
  | Ok c => req (F (pre ++ c :: post)) (F (pre ++ seg ++ post))
  | _ => fails (F (pre ++ seg ++ post))
  end.

Theorem segment_law pre seg post :
  seg <> [] -> Forall Good (pre ++ seg ++ post) -> segment_ok pre seg post.
Proof.
  intros Hne HG. unfold segment_ok.
  assert (Gpre : Forall Good pre) by (apply Forall_app in HG; apply HG).
  assert (Gseg : Forall Good seg) by (apply Forall_app in HG; destruct HG as [_ HG]; apply Forall_app in HG; apply HG).
  assert (Gpost : Forall Good post) by (apply Forall_app in HG; destruct HG as [_ HG]; apply Forall_app in HG; apply HG).
  assert (Hps : pre ++ seg <> []) by (destruct pre; [exact Hne|discriminate]).
  pose proof (S pre seg Hne ltac:(apply Forall_app; split; assumption)) as Hs. unfold suffix_ok in Hs.
  pose proof (P (pre ++ seg) post Hps ltac:(rewrite <- app_assoc; exact HG)) as P2. unfold rechunk_ok in P2.
  rewrite <- app_assoc in P2.
  destruct (F seg) as [c| |] eqn:Ec.
  - assert (Gc : Good c) by (apply (G seg c Hne Gseg Ec)).
    assert (Hpc : pre ++ [c] <> []) by (destruct pre; discriminate).
    pose proof (P (pre ++ [c]) post Hpc) as P1. unfold rechunk_ok in P1.
    rewrite <- app_assoc in P1. cbn [app] in P1.
    specialize (P1 ltac:(apply Forall_app; split; [exact Gpre|constructor; assumption])).
    destruct (F (pre ++ [c])) as [d| |], (F (pre ++ seg)) as [d'| |]; cbn [req] in Hs; try contradiction.
    + subst d'. apply (req_trans _ (F (d :: post))); [apply req_sym, P1|exact P2].
    + apply req_both_fail; assumption.
    + apply req_both_fail; assumption.
    + apply req_both_fail; assumption.
    + apply req_both_fail; assumption.
  - destruct (F (pre ++ seg)); [discriminate Hs|exact P2|exact P2].
  - destruct (F (pre ++ seg)); [discriminate Hs|exact P2|exact P2].
Qed.

(* any way of cutting the list into consecutive non-empty groups *)
Lemma split_from pre groups cs :
  Forall2 (fun g c => g <> [] /\ F g = Ok c) groups cs ->
  Forall Good (pre ++ List.concat groups) ->
  req (F (pre ++ cs)) (F (pre ++ List.concat groups)).
Proof.
  intros H. revert pre. induction H as [|g c groups cs [Hg Hc] _ IH]; intros pre HG; [apply req_refl|].
  cbn [List.concat] in *.
  assert (Gpre : Forall Good pre) by (apply Forall_app in HG; apply HG).
  assert (Gg : Forall Good g) by (apply Forall_app in HG; destruct HG as [_ HG]; apply Forall_app in HG; apply HG).
  assert (Grest : Forall Good (List.concat groups)) by (apply Forall_app in HG; destruct HG as [_ HG]; apply Forall_app in HG; apply HG).
  assert (Gc : Good c) by (apply (G g c Hg Gg Hc)).
  pose proof (IH (pre ++ [c])) as H1. rewrite <- !app_assoc in H1. cbn [app] in H1.
  specialize (H1 ltac:(apply Forall_app; split; [exact Gpre|constructor; assumption])).
  pose proof (segment_law pre g (List.concat groups) Hg HG) as H2. unfold segment_ok in H2. rewrite Hc in H2.
  apply (req_trans _ _ _ H1 H2).
Qed.

Theorem split_any groups cs :
  Forall2 (fun g c => g <> [] /\ F g = Ok c) groups cs ->
  Forall Good (List.concat groups) ->
  req (F cs) (F (List.concat groups)).
Proof. intros H HG. apply (split_from [] groups cs H HG). Qed.

Theorem split_fails gs1 g gs2 :
  g <> [] -> fails (F g) -> Forall Good (List.concat (gs1 ++ g :: gs2)) ->
  fails (F (List.concat (gs1 ++ g :: gs2))).
Proof.
  intros Hg Fg HG. rewrite concat_app in *. cbn [List.concat] in *.
  pose proof (segment_law (List.concat gs1) g (List.concat gs2) Hg HG) as H. unfold segment_ok in H.
  unfold fails in Fg. destruct (F g); [discriminate|exact H|exact H].
Qed.

End Split.

(* ------------------------------------------------------------------ instances *)

Section User.
Context {U : UserFn} {L : UserLaw} {LS : UserLawS}.

Definition typed (t : cty) (v : cval) : Prop := dyn_ty v = Some t.

Lemma typed_all t l : Forall (typed t) l -> forall v, In v l -> dyn_ty v = Some t.
Proof. intros H v Hin. apply (proj1 (Forall_forall _ _) H v Hin). Qed.

Lemma stream_P t xs ys : xs <> [] -> Forall (typed t) (xs ++ ys) -> rechunk_ok concat_stream xs ys.
Proof. intros Hne H. apply (concat_stream_rechunk_weak t xs ys Hne (typed_all t _ H)). Qed.

Lemma stream_S t xs ys : ys <> [] -> Forall (typed t) (xs ++ ys) -> suffix_ok concat_stream xs ys.
Proof. intros Hne H. apply (concat_stream_suffix t xs ys Hne (typed_all t _ H)). Qed.

Lemma stream_G t xs c : xs <> [] -> Forall (typed t) xs -> concat_stream xs = Ok c -> typed t c.
Proof.
  intros Hne H E. destruct (concat_stream_rechunk_weak t xs [] Hne) as [_ Hty].
  - rewrite app_nil_r. apply typed_all, H.
  - apply Hty, E.
Qed.

(* generic values: any segment, any grouping *)
Theorem concat_stream_segment t pre seg post :
  seg <> [] -> Forall (typed t) (pre ++ seg ++ post) -> segment_ok concat_stream pre seg post.
Proof. apply (segment_law concat_stream (typed t) (stream_P t) (stream_S t) (stream_G t)). Qed.

Theorem concat_stream_split t groups cs :
  Forall2 (fun g c => g <> [] /\ concat_stream g = Ok c) groups cs ->
  Forall (typed t) (List.concat groups) ->
  req (concat_stream cs) (concat_stream (List.concat groups)).
Proof. apply (split_any concat_stream (typed t) (stream_P t) (stream_S t) (stream_G t)). Qed.

Theorem concat_stream_split_fails t gs1 g gs2 :
  g <> [] -> fails (concat_stream g) -> Forall (typed t) (List.concat (gs1 ++ g :: gs2)) ->
  fails (concat_stream (List.concat (gs1 ++ g :: gs2))).
Proof. apply (split_fails concat_stream (typed t) (stream_P t) (stream_S t) (stream_G t)). Qed.

Definition anyx {X} (x : X) : Prop := True.

(* messages through the stream entry points *)
Theorem msg_stream_split groups cs :
  Forall2 (fun g c => g <> [] /\ msg_stream g = Ok c) groups cs ->
  req (msg_stream cs) (msg_stream (List.concat groups)).
Proof.
  intros H. apply (split_any msg_stream anyx); try exact H.
  - intros xs ys Hne _. apply msg_stream_rechunk_weak, Hne.
  - intros xs ys Hne _. apply msg_stream_suffix, Hne.
  - intros; exact I.
  - apply Forall_forall. intros; exact I.
Qed.

Theorem msg_stream_segment pre seg post : seg <> [] -> segment_ok msg_stream pre seg post.
Proof.
  intros Hne. apply (segment_law msg_stream anyx); try exact Hne.
  - intros xs ys Hx _. apply msg_stream_rechunk_weak, Hx.
  - intros xs ys Hy _. apply msg_stream_suffix, Hy.
  - intros; exact I.
  - apply Forall_forall. intros; exact I.
Qed.

(* message lists *)
Theorem msglist_stream_split groups cs :
  Forall2 (fun g c => g <> [] /\ msglist_stream g = Ok c) groups cs ->
  req (msglist_stream cs) (msglist_stream (List.concat groups)).
Proof.
  intros H. apply (split_any msglist_stream anyx); try exact H.
  - intros xs ys Hne _. apply msglist_stream_rechunk_weak, Hne.
  - intros xs ys Hne _. apply msglist_stream_suffix, Hne.
  - intros; exact I.
  - apply Forall_forall. intros; exact I.
Qed.

Theorem msglist_stream_segment pre seg post : seg <> [] -> segment_ok msglist_stream pre seg post.
Proof.
  intros Hne. apply (segment_law msglist_stream anyx); try exact Hne.
  - intros xs ys Hx _. apply msglist_stream_rechunk_weak, Hx.
  - intros xs ys Hy _. apply msglist_stream_suffix, Hy.
  - intros; exact I.
  - apply Forall_forall. intros; exact I.
Qed.

(* maps of messages *)
Theorem mmap_stream_split groups cs :
  Forall2 (fun g c => g <> [] /\ mmap_stream g = Ok c) groups cs ->
  req (mmap_stream cs) (mmap_stream (List.concat groups)).
Proof.
  intros H. apply (split_any mmap_stream anyx); try exact H.
  - intros xs ys Hne _. apply mmap_stream_rechunk_weak, Hne.
  - intros xs ys Hne _. apply mmap_stream_suffix, Hne.
  - intros; exact I.
  - apply Forall_forall. intros; exact I.
Qed.

Theorem mmap_stream_segment pre seg post : seg <> [] -> segment_ok mmap_stream pre seg post.
Proof.
  intros Hne. apply (segment_law mmap_stream anyx); try exact Hne.
  - intros xs ys Hx _. apply mmap_stream_rechunk_weak, Hx.
  - intros xs ys Hy _. apply mmap_stream_suffix, Hy.
  - intros; exact I.
  - apply Forall_forall. intros; exact I.
Qed.

(* streams of [any] *)
Theorem any_stream_split groups cs :
  Forall2 (fun g c => g <> [] /\ concat_stream_any g = Ok c) groups cs ->
  req (concat_stream_any cs) (concat_stream_any (List.concat groups)).
Proof.
  intros H. apply (split_any concat_stream_any anyx); try exact H.
  - intros xs ys Hne _. apply concat_stream_any_rechunk_weak, Hne.
  - intros xs ys Hne _. apply concat_stream_any_suffix, Hne.
  - intros; exact I.
  - apply Forall_forall. intros; exact I.
Qed.

End User.
