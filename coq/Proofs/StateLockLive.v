(* Proofs/StateLockLive.v — C11: a held lock is always released. In every reachable
   configuration of Model/StateLockLTS.v a node that is inside a critical section is never
   blocked: its next micro-step (load, store, release) is enabled. With [inv_lock] (a lock is
   held exactly by a node inside a critical section on that object) no lock is ever leaked. *)
From Eino Require Import Base.Util Model.StateLock Model.StateLockLTS Proofs.StateLockLTS Proofs.StateLockVal
  Proofs.StateLockOrder.
From Coq Require Import Lia.

Section Live.
  Variables (S X : Type).
  Variable gen : nat -> S.
  Variable hfun : kind -> N -> X -> S -> X * S.
  Variable lout : N -> X -> X.
  Variable mrg : list X -> X.
  Variable f : forest.
  Variable x0 : X.

  Notation config := (config S X).
  Notation inst := (inst S X).
  Notation pstep := (pstep S X gen hfun lout mrg f x0).
  Notation preach := (preach S X gen hfun lout mrg f x0).
  Notation new_inst := (new_inst S X gen).

  Ltac inv H := inversion H; subst; clear H.

  (* a node inside a critical section belongs to the program, sees an existing object, and —
     until its user function has stored — is at a position where that section is due *)
  Definition cs_wf (c : config) : Prop :=
    forall i J n s ph, nth_error (c_insts c) i = Some J -> get_ns S X J n = Some s -> ns_cs s = Some ph ->
      exists G a o r, nth_error f (i_graph J) = Some G /\ find_in_graph n (g_nodes G) = Some a /\
                      i_obj J = Some o /\ nth_error (c_objs c) o = Some r /\
                      (ph <> CsStored -> exists k x, next_cs X a (ns_pos s) = Some k /\ pos_x X (ns_pos s) = Some x).

  (* frame: the objects only grow or are updated in place *)
  Definition objs_kept (c c' : config) : Prop :=
    forall o r, nth_error (c_objs c) o = Some r -> exists r', nth_error (c_objs c') o = Some r'.

  Lemma objs_kept_upd : forall (c : config) objs' o r',
    objs' = upd (c_objs c) o r' -> forall o1 r1, nth_error (c_objs c) o1 = Some r1 -> exists r2, nth_error objs' o1 = Some r2.
  Proof.
    intros c objs' o r' -> o1 r1 H. destruct (Nat.eq_dec o o1).
    - subst o1. exists r'. apply nth_upd_eq. eapply nth_some_lt; eauto.
    - exists r1. rewrite nth_upd_neq; auto.
  Qed.

  Lemma cs_wf_moved : forall (c c' : config) i J G n a s s' q,
    nth_error (c_insts c) i = Some J -> nth_error f (i_graph J) = Some G ->
    find_in_graph n (g_nodes G) = Some a -> get_ns S X J n = Some s ->
    c_insts c' = upd (c_insts c) i (set_doneq S X (set_ns S X J n s') q) ->
    (forall o1 r1, nth_error (c_objs c) o1 = Some r1 -> exists r2, nth_error (c_objs c') o1 = Some r2) ->
    cs_wf c ->
    (forall ph, ns_cs s' = Some ph -> exists o r, i_obj J = Some o /\ nth_error (c_objs c') o = Some r /\
        (ph <> CsStored -> exists k x, next_cs X a (ns_pos s') = Some k /\ pos_x X (ns_pos s') = Some x)) ->
    cs_wf c'.
  Proof.
    intros c c' i J G n a s s' q Ei EG Ef Eg Hc Hobj IH Hnew.
    intros i0 J0 n0 s0 ph Hi Hg Hcs. rewrite Hc in Hi.
    destruct (moved_cases _ _ _ _ _ _ _ _ _ _ _ _ Ei Hi Hg) as [(-> & -> & -> & Hs)|(J1 & H1 & H2 & Hs & Hne)].
    - destruct Hs as (_ & Hgr & _ & Hob & _). destruct (Hnew _ Hcs) as (o & r & Ho & Hr & Hk).
      exists G, a, o, r. rewrite <- Hgr, <- Hob. repeat split; auto.
    - destruct Hs as (_ & Hgr & _ & Hob & _).
      destruct (IH _ _ _ _ _ H1 H2 Hcs) as (G1 & a1 & o & r & HG1 & Hf1 & Ho & Hr & Hk).
      destruct (Hobj _ _ Hr) as (r2 & Hr2).
      exists G1, a1, o, r2. rewrite <- Hgr, <- Hob. repeat split; auto.
  Qed.

  Lemma cs_wf_new_inst : forall (c : config) r g G par inh x, cs_wf c -> cs_wf (new_inst c r g G par inh x).
  Proof.
    intros c r g G par inh x IH i J n s ph Hi Hg Hcs.
    apply new_inst_insts in Hi. destruct Hi as [Hi|[-> ->]].
    - destruct (IH _ _ _ _ _ Hi Hg Hcs) as (G1 & a1 & o & r1 & HG1 & Hf1 & Ho & Hr & Hk).
      exists G1, a1, o, r1. repeat split; auto.
      unfold StateLockLTS.new_inst. destruct (g_state G); simpl; auto. rewrite nth_error_app1; auto. eapply nth_some_lt; eauto.
    - unfold get_ns in Hg; simpl in Hg. apply init_ns_cs in Hg. subst s. discriminate.
  Qed.

  Lemma new_inst_objs_kept : forall (c : config) r g G par inh x o1 r1,
    nth_error (c_objs c) o1 = Some r1 -> exists r2, nth_error (c_objs (new_inst c r g G par inh x)) o1 = Some r2.
  Proof.
    intros. unfold StateLockLTS.new_inst. destruct (g_state G); simpl; eauto.
    exists r1. rewrite nth_error_app1; auto. eapply nth_some_lt; eauto.
  Qed.

  Lemma cs_wf_step : forall c ch c', inv_lock S X c -> cs_wf c -> pstep c ch = Some c' -> cs_wf c'.
  Proof.
    intros c ch c' Hlock IH H. destruct ch as [r|i n|i n|i n|i n|i n|o m].
    - apply pstep_start_inv in H. destruct H as (G0 & _ & ->). apply cs_wf_new_inst; auto.
    - apply pstep_acq_inv in H. destruct H as (J & a & p & k & x & o & r & El & Ek & Ex & Eo & Er & Eh & ->).
      apply lookup_inv in El. destruct El as (Ei & Eg & G1 & EG1 & Ef1).
      eapply (cs_wf_moved c _ i J G1 n a _ _ (i_doneq J) Ei EG1 Ef1 Eg); [reflexivity| |exact IH|].
      + intros o1 r1 H1. simpl. eapply objs_kept_upd; eauto.
      + simpl. intros ph Hph. inv Hph. exists o, (with_holder S r (Some (i, n))). repeat split; auto.
        * apply nth_upd_eq. eapply nth_some_lt; eauto.
        * intros _. eauto.
    - apply pstep_load_inv in H. destruct H as (J & a & p & o & r & El & Eo & Er & ->).
      apply lookup_inv in El. destruct El as (Ei & Eg & G1 & EG1 & Ef1).
      destruct (IH _ _ _ _ _ Ei Eg eq_refl) as (G2 & a2 & o2 & r2 & HG2 & Hf2 & Ho2 & Hr2 & Hk).
      rewrite EG1 in HG2. inv HG2. rewrite Ef1 in Hf2. inv Hf2.
      eapply (cs_wf_moved c _ i J G2 n a2 _ _ (i_doneq J) Ei EG1 Ef1 Eg); [reflexivity| |exact IH|].
      + intros o1 r1 H1. simpl. eauto.
      + simpl. intros ph Hph. inv Hph. exists o, r. repeat split; auto. intros _. apply Hk. discriminate.
    - apply pstep_store_inv in H.
      destruct H as (J & a & p & l & k & x & o & r & x' & s' & El & Ek & Ex & Eo & Er & Eh & ->).
      apply lookup_inv in El. destruct El as (Ei & Eg & G1 & EG1 & Ef1).
      eapply (cs_wf_moved c _ i J G1 n a _ _ (i_doneq J) Ei EG1 Ef1 Eg); [reflexivity| |exact IH|].
      + intros o1 r1 H1. simpl. eapply objs_kept_upd; eauto.
      + simpl. intros ph Hph. inv Hph. exists o, (with_val S r s'). repeat split; auto.
        * apply nth_upd_eq. eapply nth_some_lt; eauto.
        * intros Hne. congruence.
    - apply pstep_rel_inv in H. destruct H as (J & a & p & o & r & q & El & Eo & Er & ->).
      apply lookup_inv in El. destruct El as (Ei & Eg & G1 & EG1 & Ef1).
      eapply (cs_wf_moved c _ i J G1 n a _ _ q Ei EG1 Ef1 Eg); [reflexivity| |exact IH|].
      + intros o1 r1 H1. simpl. eapply objs_kept_upd; eauto.
      + simpl. intros ph Hph. discriminate.
    - apply pstep_adv_inv in H. destruct H as (J & a & p & El & En & [(p' & q & _ & ->)|(x & g & G2 & -> & Es & EG2 & ->)]).
      + apply lookup_inv in El. destruct El as (Ei & Eg & G1 & EG1 & Ef1).
        eapply (cs_wf_moved c _ i J G1 n a _ _ q Ei EG1 Ef1 Eg); [reflexivity| |exact IH|].
        * intros o1 r1 H1. simpl. eauto.
        * simpl. intros ph Hph. discriminate.
      + apply lookup_inv in El. destruct El as (Ei & Eg & G1 & EG1 & Ef1).
        set (c1 := new_inst c (i_run J) g G2 (Some i) (i_obj J) x).
        assert (Ei' : nth_error (c_insts c1) i = Some J).
        { unfold c1, StateLockLTS.new_inst. destruct (g_state G2); simpl; rewrite nth_error_app1; auto; eapply nth_some_lt; eauto. }
        eapply (cs_wf_moved c1 _ i J G1 n a _ _ (i_doneq J) Ei' EG1 Ef1 Eg); [reflexivity| |apply cs_wf_new_inst; exact IH|].
        * intros o1 r1 H1. simpl. eauto.
        * simpl. intros ph Hph. discriminate.
    - apply pstep_resume_inv in H. destruct H as (r & Er & Eh & ->).
      intros i J n s ph Hi Hg Hcs. apply resumed_insts in Hi. destruct Hi as (J1 & Hi & ->).
      destruct (remap_static S X o (List.length (c_objs c)) J1) as (_ & Hgr & _ & _ & Hns & _).
      unfold get_ns in Hg. rewrite Hns in Hg.
      destruct (IH _ _ _ _ _ Hi Hg Hcs) as (G1 & a1 & o1 & r1 & HG1 & Hf1 & Ho1 & Hr1 & Hk).
      exists G1, a1. rewrite Hgr.
      (* the node is inside a critical section on o1, which therefore is held: o1 <> o *)
      assert (Hne : o1 <> o).
      { intro; subst o1. assert (Hh : holder S X c o = Some (i, n)).
        { apply Hlock. unfold cs_of. rewrite Hi. unfold get_ns. rewrite Hg, Hcs. auto. }
        unfold holder in Hh. rewrite Er in Hh. congruence. }
      exists o1, r1. repeat split; auto.
      + unfold remap. rewrite Ho1. destruct (Nat.eqb_spec o1 o); [congruence|auto].
      + unfold resumed; simpl. rewrite nth_error_app1; auto. eapply nth_some_lt; eauto.
  Qed.

  Lemma cs_wf_reach : forall c, preach c -> cs_wf c.
  Proof.
    induction 1.
    - intros i J n s ph H. destruct i; discriminate.
    - eapply cs_wf_step; eauto. eapply inv_lock_reach; eauto.
  Qed.

  Lemma lookup_intro : forall (c : config) i n J G a s,
    nth_error (c_insts c) i = Some J -> nth_error f (i_graph J) = Some G ->
    find_in_graph n (g_nodes G) = Some a -> get_ns S X J n = Some s ->
    lookup S X f c i n = Some (J, a, s).
  Proof. intros. unfold StateLockLTS.lookup. rewrite H, H0, H1, H2. reflexivity. Qed.

  (* whoever is inside a critical section can take its next step: nobody can block the holder
     of a lock, so every lock that is held gets released *)
  Theorem holder_never_blocked_preach : forall c, preach c ->
    forall i J n s ph, nth_error (c_insts c) i = Some J -> get_ns S X J n = Some s -> ns_cs s = Some ph ->
      match ph with
      | CsAcq => exists c', pstep c (ChLoad i n) = Some c'
      | CsLoaded _ => exists c', pstep c (ChStore i n) = Some c'
      | CsStored => exists c', pstep c (ChRel i n) = Some c'
      end.
  Proof.
    intros c Hr i J n s ph Hi Hg Hcs.
    destruct (cs_wf_reach c Hr _ _ _ _ _ Hi Hg Hcs) as (G & a & o & r & HG & Hf & Ho & Hro & Hk).
    destruct s as [p cs]. simpl in Hcs. subst cs.
    pose proof (lookup_intro c i n J G a _ Hi HG Hf Hg) as Hl.
    destruct ph; simpl; rewrite Hl, Ho, Hro.
    - eauto.
    - destruct Hk as (k & x & Hk & Hx); [discriminate|]. simpl in *. rewrite Hk, Hx.
      destruct (hfun k (n_id a) x l). eauto.
    - eauto.
  Qed.

  (* no lock is leaked: a lock that is held is held by a node whose next step is enabled *)
  Theorem held_lock_released_preach : forall c, preach c ->
    forall o r i n, nth_error (c_objs c) o = Some r -> o_holder r = Some (i, n) ->
      exists ch c', (ch = ChLoad i n \/ ch = ChStore i n \/ ch = ChRel i n) /\ pstep c ch = Some c'.
  Proof.
    intros c Hr o r i n Ho Hh.
    assert (Hc : cs_of S X c i n = Some o).
    { apply (inv_lock_reach S X gen hfun lout mrg f x0 c Hr). unfold holder. rewrite Ho. auto. }
    unfold cs_of in Hc. destruct (nth_error (c_insts c) i) as [J|] eqn:Ei; [|discriminate].
    destruct (get_ns S X J n) as [s|] eqn:Eg; [|discriminate].
    destruct (ns_cs s) as [ph|] eqn:Ec; [|discriminate].
    pose proof (holder_never_blocked_preach c Hr _ _ _ _ _ Ei Eg Ec) as H.
    destruct ph; destruct H as (c' & H); eauto 10.
  Qed.
End Live.
