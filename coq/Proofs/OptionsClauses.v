(* Proofs/OptionsClauses.v — property C16: the clauses of the property text read off the closed
   form spec_delivered (what delivered_iff_addressed says every node receives) *)
From Eino Require Import Base.Util Model.Options Model.OptionsSpec Proofs.Options.
Local Open Scope N_scope.

(* an undesignated option reaches a component iff it has the component's option type *)
Lemma undesignated_by_type o p ty :
  o_paths o = [] ->
  addressed_items o p ty = if ty_matches o ty then o_items o else [].
Proof. intros H. unfold addressed_items. rewrite H. reflexivity. Qed.

(* nothing lies below a component: a path that resolves cannot run through one *)
Lemma resolve_not_below_comp F : forall p gi p' nd ty nd',
  resolve F gi p = Some nd -> n_kind nd = KComp ty ->
  resolve F gi p' = Some nd' -> proper_prefixb p p' = false.
Proof.
  induction p as [|k rest IH]; intros gi p' nd ty nd' Hp Hk Hp'; [reflexivity|].
  unfold proper_prefixb.
  destruct (prefixb (k :: rest) p') eqn:Hpre; [|reflexivity]. simpl.
  destruct p' as [|k' rest']; [discriminate|].
  simpl in Hpre. apply andb_prop in Hpre. destruct Hpre as [Hkk Hpre].
  apply N.eqb_eq in Hkk. subst k'.
  simpl in Hp, Hp'. destruct (nth_error F gi) as [g|]; [|discriminate].
  destruct (find_node k g) as [nd0|]; [|discriminate].
  destruct rest as [|k2 rest].
  - inversion Hp; subst nd0. rewrite Hk in Hp'.
    destruct rest' as [|k2' rest'']; [|discriminate].
    simpl. rewrite N.eqb_refl. reflexivity.
  - destruct (n_kind nd0) as [ty0|gj] eqn:Hk0; [discriminate|].
    destruct rest' as [|k2' rest'']; [discriminate|].
    specialize (IH gj (k2' :: rest'') nd ty nd' Hp Hk Hp').
    unfold proper_prefixb in IH. rewrite Hpre in IH. simpl in IH.
    simpl. rewrite N.eqb_refl. simpl. exact IH.
Qed.

(* an option designated to component [p] (and nowhere else) reaches no other node *)
Lemma designated_only_there F o p nd ty p' nd' ty' :
  o_paths o = [p] ->
  resolve F 0 p = Some nd -> n_kind nd = KComp ty ->
  resolve F 0 p' = Some nd' -> p' <> p ->
  addressed_items o p' ty' = [] /\ addressed_items o p ty = o_items o.
Proof.
  intros Hpaths Hp Hk Hp' Hne. unfold addressed_items. rewrite Hpaths. simpl.
  rewrite !app_nil_r. split.
  - destruct (path_eqb p p') eqn:E.
    + apply path_eqb_eq in E. congruence.
    + rewrite (resolve_not_below_comp F p 0 p' nd ty nd' Hp Hk Hp'). reflexivity.
  - rewrite path_eqb_refl. reflexivity.
Qed.

(* an option designated to graph node [p] reaches, inside it, the components of its type and
   nothing outside of it *)
Lemma designated_to_graph o p p' ty' :
  o_paths o = [p] -> p <> [] ->
  addressed_items o p' ty' =
  if path_eqb p p' then o_items o
  else if prefixb p p' && ty_matches o ty' then o_items o else [].
Proof.
  intros Hpaths Hne. unfold addressed_items. rewrite Hpaths. simpl. rewrite app_nil_r.
  destruct (path_eqb p p') eqn:E; [reflexivity|].
  unfold proper_prefixb. destruct p; [congruence|]. rewrite E. simpl.
  rewrite Bool.andb_true_r. reflexivity.
Qed.
