(* Proofs/SerLoud.v — the encoder fails loudly on unregistered types, never panics, and
   succeeds on every well-typed value over registered types whose literals the JSON layer
   accepts; the concrete JSON instance used by the correspondence check satisfies the
   round-trip hypotheses; witnesses for the behaviour before the repairs. *)
From Coq Require Import List Bool Arith NArith ZArith String Ascii Lia.
From Eino Require Import Base.Util Base.Universe Model.Ser Proofs.Ser.
Import ListNotations.
Local Open Scope bool_scope.

Lemma mapM_err {A B} (f : A -> res B) : forall l,
  (forall a, In a l -> f a <> Panic) ->
  (exists a, In a l /\ exists e, f a = Err e) ->
  exists e, mapM f l = Err e.
Proof.
  induction l as [|a l IH]; intros Hnp [a0 [Hin [e He]]]; [contradiction|].
  rewrite mapM_cons. destruct Hin as [Heq|Hin].
  - subst. rewrite He. simpl. eauto.
  - destruct (f a) as [b|e'|] eqn:Efa.
    + simpl. destruct IH as [e'' IH'].
      * intros x Hx. apply Hnp. now right.
      * eauto.
      * rewrite IH'. simpl. eauto.
    + simpl. eauto.
    + exfalso. apply (Hnp a); [now left|assumption].
Qed.

Lemma mapM_no_panic {A B} (f : A -> res B) : forall l,
  (forall a, In a l -> f a <> Panic) -> mapM f l <> Panic.
Proof.
  induction l as [|a l IH]; intros Hnp; [discriminate|].
  rewrite mapM_cons. destruct (f a) eqn:Efa; simpl; try discriminate.
  - destruct (mapM f l) eqn:El; simpl; try discriminate.
    exfalso. apply IH; [|reflexivity]. intros x Hx. apply Hnp. now right.
  - exfalso. apply (Hnp a); [now left|assumption].
Qed.

Lemma mapM_all_ok {A B} (f : A -> res B) : forall l,
  (forall a, In a l -> exists b, f a = Ok b) -> exists bs, mapM f l = Ok bs.
Proof.
  induction l as [|a l IH]; intros H; [exists []; reflexivity|].
  rewrite mapM_cons. destruct (H a (or_introl eq_refl)) as [b Hb]. rewrite Hb. simpl.
  destruct IH as [bs Hbs]; [intros x Hx; apply H; now right|]. rewrite Hbs. simpl. eauto.
Qed.

Section Loud.
  Variables J JK : Type.
  Variable jenc : base -> lit -> res J.
  Variable kenc : base -> lit -> res JK.
  Variable fx : fixes.
  Variable reg : registry.

  (* json.Marshal / sonic.MarshalString return errors, they do not panic *)
  Hypothesis jenc_np : forall b l, jenc b l <> Panic.
  Hypothesis kenc_np : forall b l, kenc b l <> Panic.

  Notation ENC := (enc_at J JK jenc kenc fx reg).

  Lemma lookup_name_np : forall t, lookup_name reg t <> Panic.
  Proof. intro t. unfold lookup_name. destruct (rm_lookup reg t); discriminate. Qed.
  Lemma elem_key_np : forall t, elem_key reg t <> Panic.
  Proof.
    intro t. unfold elem_key. destruct (lookup_name reg (snd (strip_ptr t))) eqn:E; simpl; try discriminate.
    exfalso. eapply lookup_name_np; eauto.
  Qed.
  Lemma lookup_name_none : forall t, rm_lookup reg t = None -> lookup_name reg t = Err E_UNKNOWN_TYPE.
  Proof. intros t H. unfold lookup_name. now rewrite H. Qed.
  Lemma elem_key_none : forall t, rm_lookup reg (stripped t) = None -> elem_key reg t = Err E_UNKNOWN_TYPE.
  Proof. intros t H. unfold elem_key. unfold stripped in H. now rewrite (lookup_name_none _ H). Qed.
  Lemma enc_key_np : forall k, enc_key JK kenc k <> Panic.
  Proof.
    induction k using val_ind'; simpl; try discriminate.
    - destruct (kenc b l) eqn:E; simpl; try discriminate. exfalso. eapply kenc_np; eauto.
    - destruct (kenc b l) eqn:E; simpl; try discriminate. exfalso. eapply kenc_np; eauto.
    - destruct (mapM (fun fv => do j <- enc_key JK kenc (snd fv); Ok (fst fv, j)) fs) eqn:E; simpl; try discriminate.
      exfalso. revert E. apply mapM_no_panic. intros [f w] Hin. rewrite Forall_forall in H.
      specialize (H _ Hin). simpl in *. destruct (enc_key JK kenc w); simpl; try discriminate. congruence.
    - destruct (mapM (enc_key JK kenc) es) eqn:E; simpl; try discriminate.
      exfalso. revert E. apply mapM_no_panic. intros e Hin. rewrite Forall_forall in H. now apply H.
  Qed.

  Ltac bind_np :=
    match goal with
    | |- res_bind ?r _ <> Panic =>
        let E := fresh "E" in destruct r eqn:E; simpl; [|discriminate|exfalso]
    end.

  Lemma enc_no_panic : forall v pn, ENC pn v <> Panic.
  Proof.
    induction v using val_ind'; intro pn; simpl.
    - bind_np; [|eapply lookup_name_np; eauto]. bind_np; [discriminate|eapply jenc_np; eauto].
    - bind_np; [|eapply lookup_name_np; eauto]. bind_np; [discriminate|eapply jenc_np; eauto].
    - bind_np; [|eapply lookup_name_np; eauto].
      bind_np; [discriminate|]. revert E0. apply mapM_no_panic.
      intros [f w] Hin. rewrite Forall_forall in H. specialize (H _ Hin 0%nat). simpl in *.
      destruct (ENC 0 w); simpl; try discriminate. congruence.
    - bind_np; [|eapply lookup_name_np; eauto]. destruct (fix_b fx); discriminate.
    - apply IHv.
    - bind_np; [discriminate|eapply elem_key_np; eauto].
    - bind_np; [|eapply elem_key_np; eauto].
      bind_np; [discriminate|]. revert E0. apply mapM_no_panic.
      intros e Hin. rewrite Forall_forall in H. apply H. exact Hin.
    - bind_np; [|eapply elem_key_np; eauto]. bind_np; [discriminate|eapply elem_key_np; eauto].
    - bind_np; [|eapply elem_key_np; eauto]. bind_np; [|eapply elem_key_np; eauto].
      bind_np; [discriminate|]. revert E1. apply mapM_no_panic.
      intros [ka vb] Hin. rewrite Forall_forall in H. destruct (H _ Hin) as [_ Hb]. simpl in *.
      specialize (Hb 0%nat). destruct (ENC 0 vb); simpl; try congruence.
      destruct (enc_key JK kenc ka) eqn:Ek; simpl; try discriminate.
      exfalso. eapply enc_key_np; eauto.
    - destruct pn; discriminate.
    - destruct pn; [apply IHv|discriminate].
    - bind_np; [|eapply elem_key_np; eauto].
      bind_np; [discriminate|]. revert E0. apply mapM_no_panic.
      intros e Hin. rewrite Forall_forall in H. apply H. exact Hin.
    - destruct (_ && _ && _); [discriminate|].
      bind_np; [discriminate|]. eapply IHv; eauto.
  Qed.

  (* an unregistered type among the looked-up ones makes the encoder return an error *)
  Lemma unsupported_err : forall v pn t,
    In t (looked_up v) -> rm_lookup reg t = None -> exists e, ENC pn v = Err e.
  Proof.
    induction v using val_ind'; intros pn t0 Hin Hnone; simpl in Hin.
    - destruct Hin as [<-|[]]. simpl. rewrite (lookup_name_none _ Hnone). simpl. eauto.
    - destruct Hin as [<-|[]]. simpl. rewrite (lookup_name_none _ Hnone). simpl. eauto.
    - simpl. destruct Hin as [<-|Hin].
      + rewrite (lookup_name_none _ Hnone). simpl. eauto.
      + destruct (lookup_name reg (TStruct n)) eqn:El; simpl; eauto.
        * apply in_flat_map in Hin. destruct Hin as [[f w] [Hfw Hin]].
          rewrite Forall_forall in H. destruct (H _ Hfw 0%nat _ Hin Hnone) as [e He]. simpl in He.
          destruct (mapM_err (fun fv => do i <- ENC 0 (snd fv); Ok (fst fv, i)) fs) as [e' He'].
          { intros [g u] _. simpl. destruct (ENC 0 u) eqn:Eu; simpl; try discriminate.
            exfalso. eapply enc_no_panic; eauto. }
          { exists (f, w). split; [exact Hfw|]. simpl. rewrite He. simpl. eauto. }
          rewrite He'. simpl. eauto.
        * exfalso. eapply lookup_name_np; eauto.
    - destruct Hin as [<-|[]]. simpl. unfold stripped in Hnone. rewrite (lookup_name_none _ Hnone). simpl. eauto.
    - simpl. now apply (IHv (S pn) t0).
    - destruct Hin as [<-|[]]. simpl. rewrite (elem_key_none _ Hnone). simpl. eauto.
    - simpl. destruct Hin as [<-|Hin].
      + rewrite (elem_key_none _ Hnone). simpl. eauto.
      + destruct (elem_key reg t) eqn:El; simpl; eauto.
        * apply in_flat_map in Hin. destruct Hin as [e [He Hin]].
          rewrite Forall_forall in H. destruct (H _ He 0%nat _ Hin Hnone) as [e' He'].
          destruct (mapM_err (ENC 0) es) as [e'' He''].
          { intros x _. apply enc_no_panic. }
          { exists e. split; [exact He|]. eauto. }
          rewrite He''. simpl. eauto.
        * exfalso. eapply elem_key_np; eauto.
    - simpl. destruct Hin as [<-|[<-|[]]].
      + rewrite (elem_key_none _ Hnone). simpl. eauto.
      + destruct (elem_key reg k) eqn:Ek; simpl; eauto.
        * rewrite (elem_key_none _ Hnone). simpl. eauto.
        * exfalso. eapply elem_key_np; eauto.
    - simpl. destruct Hin as [<-|[<-|Hin]].
      + rewrite (elem_key_none _ Hnone). simpl. eauto.
      + destruct (elem_key reg k) eqn:Ek; simpl; eauto.
        * rewrite (elem_key_none _ Hnone). simpl. eauto.
        * exfalso. eapply elem_key_np; eauto.
      + destruct (elem_key reg k) eqn:Ek; simpl; eauto; [|exfalso; eapply elem_key_np; eauto].
        destruct (elem_key reg t) eqn:Et; simpl; eauto; [|exfalso; eapply elem_key_np; eauto].
        apply in_flat_map in Hin. destruct Hin as [[ka vb] [Hab Hin]].
        rewrite Forall_forall in H. destruct (H _ Hab) as [_ Hb]. simpl in Hb, Hin.
        destruct (Hb 0%nat _ Hin Hnone) as [e He].
        destruct (mapM_err (fun kv => do i <- ENC 0 (snd kv); do jk <- enc_key JK kenc (fst kv); Ok (jk, i)) kvs)
          as [e' He'].
        { intros [x y] _. simpl. destruct (ENC 0 y) eqn:Ey; simpl; try discriminate.
          - destruct (enc_key JK kenc x) eqn:Ex; simpl; try discriminate.
            exfalso. eapply enc_key_np; eauto.
          - exfalso. eapply enc_no_panic; eauto. }
        { exists (ka, vb). split; [exact Hab|]. simpl. rewrite He. simpl. eauto. }
        rewrite He'. simpl. eauto.
    - contradiction.
    - simpl. destruct pn; [now apply (IHv 0%nat t0)|eauto].
    - simpl. destruct Hin as [<-|Hin].
      + rewrite (elem_key_none _ Hnone). simpl. eauto.
      + destruct (elem_key reg t) eqn:El; simpl; eauto.
        * apply in_flat_map in Hin. destruct Hin as [e [He Hin]].
          rewrite Forall_forall in H. destruct (H _ He 0%nat _ Hin Hnone) as [e' He'].
          destruct (mapM_err (ENC 0) es) as [e'' He''].
          { intros x _. apply enc_no_panic. }
          { exists e. split; [exact He|]. eauto. }
          rewrite He''. simpl. eauto.
        * exfalso. eapply elem_key_np; eauto.
    - simpl. destruct (IHv pn t0 Hin Hnone) as [e He].
      destruct (_ && _ && _); [eauto|]. rewrite He. simpl. eauto.
  Qed.

  (* a pointer to a value of an unregistered defined container type is refused (F-C12i) *)
  Lemma ptr_to_unregistered_def_err : forall d w pn,
    fix_f fx = true -> fix_i fx = true ->
    rm_lookup reg (TDef d (ty_of w)) = None -> ENC (S pn) (VDef d w) = Err E_UNKNOWN_TYPE.
  Proof. intros d w pn Hf Hi H. simpl. rewrite Hf, Hi, H. reflexivity. Qed.
End Loud.

(* ------------------------------------------------------------------ completeness *)
Section Complete.
  Variables J JK : Type.
  Variable jenc : base -> lit -> res J.
  Variable kenc : base -> lit -> res JK.
  Variable reg : registry.
  Variable env : senv.

  Notation ENC := (enc_at J JK jenc kenc fixed reg).

  Definition encodable (v : val) : Prop :=
    Forall (fun bl => (exists j, jenc (fst bl) (snd bl) = Ok j) /\ (exists j, kenc (fst bl) (snd bl) = Ok j))
           (lits_of v).
  Definition registered (v : val) : Prop :=
    Forall (fun t => rm_lookup reg t <> None) (looked_up v).
  (* every defined container type that occurs in the value is registered *)
  Definition defs_registered (v : val) : Prop :=
    Forall (fun t => rm_lookup reg t <> None) (defs_of v).

  Lemma lookup_name_some : forall t, rm_lookup reg t <> None -> exists k, lookup_name reg t = Ok k.
  Proof. intros t H. unfold lookup_name. destruct (rm_lookup reg t); [eauto|congruence]. Qed.
  Lemma elem_key_some : forall t, rm_lookup reg (stripped t) <> None -> exists kk, elem_key reg t = Ok kk.
  Proof.
    intros t H. unfold elem_key. destruct (lookup_name_some _ H) as [k Hk]. unfold stripped in Hk.
    rewrite Hk. simpl. eauto.
  Qed.

  Lemma enc_key_ok : forall a, kval a = true ->
    Forall (fun bl => (exists j, jenc (fst bl) (snd bl) = Ok j) /\ (exists j, kenc (fst bl) (snd bl) = Ok j))
           (lits_of a) ->
    exists kj, enc_key JK kenc a = Ok kj.
  Proof.
    induction a using val_ind'; intros Hk He; simpl in Hk; try discriminate Hk; simpl in He.
    - inversion He as [|? ? [_ [j Hj]] _]; subst. simpl in Hj. simpl. rewrite Hj. simpl. eauto.
    - inversion He as [|? ? [_ [j Hj]] _]; subst. simpl in Hj. simpl. rewrite Hj. simpl. eauto.
    - apply Forall_flat_map in He.
      destruct (mapM_all_ok (fun fv => do j <- enc_key JK kenc (snd fv); Ok (fst fv, j)) fs) as [l Hl].
      { intros [f w] Hin. rewrite Forall_forall in H, He. rewrite forallb_forall in Hk.
        destruct (H _ Hin (Hk _ Hin) (He _ Hin)) as [kj Hkj]. simpl in *. rewrite Hkj. simpl. eauto. }
      simpl. rewrite Hl. simpl. eauto.
    - apply Forall_flat_map in He.
      destruct (mapM_all_ok (enc_key JK kenc) es) as [l Hl].
      { intros e Hin. rewrite Forall_forall in H, He. rewrite forallb_forall in Hk.
        exact (H _ Hin (Hk _ Hin) (He _ Hin)). }
      simpl. rewrite Hl. simpl. eauto.
  Qed.

  Lemma enc_succeeds_all : forall v,
    wt env v = true -> registered v -> encodable v -> defs_registered v ->
    forall pn, (is_iface (ty_of v) = true -> pn = 0%nat) -> exists oi, ENC pn v = Ok oi.
  Proof.
    induction v using val_ind'; intros Hwt Hr He Hd pn Hpn; unfold registered, encodable, defs_registered in *;
      simpl in Hr, He, Hd.
    - inversion Hr; subst. inversion He as [|? ? [[j Hj] _] _]; subst. simpl in Hj.
      destruct (lookup_name_some _ H1) as [k Hk]. simpl. rewrite Hk. simpl. rewrite Hj. simpl. eauto.
    - inversion Hr; subst. inversion He as [|? ? [[j Hj] _] _]; subst. simpl in Hj.
      destruct (lookup_name_some _ H1) as [k Hk]. simpl. rewrite Hk. simpl. rewrite Hj. simpl. eauto.
    - inversion Hr as [|? ? Hn Hr']; subst.
      destruct (lookup_name_some _ Hn) as [k Hk]. simpl. rewrite Hk. simpl.
      rewrite wt_struct in Hwt. destruct (struct_fields env n) as [ds|]; [|discriminate Hwt].
      assert (Hw : Forall (fun fv => wt env (snd fv) = true) fs).
      { clear -Hwt. revert ds Hwt. induction fs as [|[g w] fs IH]; intros [|[f t] ds] Hwt; simpl in Hwt;
          try discriminate Hwt; constructor.
        - repeat (apply andb_true_iff in Hwt; destruct Hwt as [Hwt ?]). assumption.
        - repeat (apply andb_true_iff in Hwt; destruct Hwt as [Hwt ?]). eapply IH; eauto. }
      apply Forall_flat_map in Hr'. apply Forall_flat_map in He. apply Forall_flat_map in Hd.
      destruct (mapM_all_ok (fun fv => do i <- ENC 0 (snd fv); Ok (fst fv, i)) fs) as [fields Hf].
      { intros [f w] Hin. rewrite Forall_forall in H, Hw, Hr', He, Hd.
        destruct (H _ Hin (Hw _ Hin) (Hr' _ Hin) (He _ Hin) (Hd _ Hin) 0%nat) as [oi Hoi]; [reflexivity|].
        simpl in *. rewrite Hoi. simpl. eauto. }
      rewrite Hf. simpl. eauto.
    - inversion Hr; subst. destruct (lookup_name_some _ H1) as [k Hk]. unfold stripped in Hk.
      simpl. rewrite Hk. simpl. eauto.
    - simpl in Hwt. apply andb_true_iff in Hwt. destruct Hwt as [Hni Hwt]. apply negb_true_iff in Hni.
      simpl. apply IHv; auto. intros Hc. congruence.
    - inversion Hr; subst. destruct (elem_key_some _ H1) as [kk Hk]. simpl. rewrite Hk. simpl. eauto.
    - inversion Hr as [|? ? Hn Hr']; subst. destruct (elem_key_some _ Hn) as [kk Hk].
      simpl. rewrite Hk. simpl.
      rewrite wt_slice in Hwt. apply andb_true_iff in Hwt. destruct Hwt as [_ Hwt].
      assert (Hw : Forall (fun e => wt env e = true) es).
      { clear -Hwt. induction es as [|e es IH]; simpl in Hwt; constructor.
        - repeat (apply andb_true_iff in Hwt; destruct Hwt as [Hwt ?]). assumption.
        - repeat (apply andb_true_iff in Hwt; destruct Hwt as [Hwt ?]). now apply IH. }
      apply Forall_flat_map in Hr'. apply Forall_flat_map in He. apply Forall_flat_map in Hd.
      destruct (mapM_all_ok (ENC 0) es) as [elems Hf].
      { intros e Hin. rewrite Forall_forall in H, Hw, Hr', He, Hd.
        apply (H _ Hin (Hw _ Hin) (Hr' _ Hin) (He _ Hin) (Hd _ Hin) 0%nat). reflexivity. }
      rewrite Hf. simpl. eauto.
    - inversion Hr as [|? ? Hn1 Hr']; subst. inversion Hr' as [|? ? Hn2 _]; subst.
      destruct (elem_key_some _ Hn1) as [kk Hk]. destruct (elem_key_some _ Hn2) as [vk Hv].
      simpl. rewrite Hk. simpl. rewrite Hv. simpl. eauto.
    - inversion Hr as [|? ? Hn1 Hr']; subst. inversion Hr' as [|? ? Hn2 Hr'']; subst.
      destruct (elem_key_some _ Hn1) as [kk Hk]. destruct (elem_key_some _ Hn2) as [vk Hv].
      simpl. rewrite Hk. simpl. rewrite Hv. simpl.
      rewrite wt_map in Hwt. apply andb_true_iff in Hwt. destruct Hwt as [Hkt Hwt].
      apply andb_true_iff in Hkt. destruct Hkt as [Hkt _].
      apply andb_true_iff in Hwt. destruct Hwt as [Hwt Hkn].
      unfold keys_nodup in Hkn. apply andb_true_iff in Hkn. destruct Hkn as [Hkn _].
      rewrite forallb_forall in Hkn.
      assert (Hw : Forall (fun kv => wt env (fst kv) = true /\ wt env (snd kv) = true) kvs).
      { clear -Hwt. induction kvs as [|[a b] kvs IH]; simpl in Hwt; constructor.
        - repeat (apply andb_true_iff in Hwt; destruct Hwt as [Hwt ?]). simpl. auto.
        - repeat (apply andb_true_iff in Hwt; destruct Hwt as [Hwt ?]). now apply IH. }
      apply Forall_flat_map in Hr''. apply Forall_flat_map in He. apply Forall_flat_map in Hd.
      destruct (mapM_all_ok (fun kv => do i <- ENC 0 (snd kv); do jk <- enc_key JK kenc (fst kv); Ok (jk, i)) kvs)
        as [entries Hf].
      { intros [a b] Hin. rewrite Forall_forall in H, Hw, Hr'', He, Hd.
        destruct (H _ Hin) as [_ Hb]. destruct (Hw _ Hin) as [Hwa Hwb]. assert (Hka := Hkn _ Hin).
        specialize (He _ Hin). apply Forall_app in He. destruct He as [Hea Heb].
        specialize (Hd _ Hin). apply Forall_app in Hd. destruct Hd as [_ Hdb]. simpl in *.
        destruct (Hb Hwb (Hr'' _ Hin) Heb Hdb 0%nat) as [oi Hoi]; [reflexivity|].
        rewrite Hoi. simpl.
        destruct (enc_key_ok a Hka Hea) as [kj Hkj]. rewrite Hkj. simpl. eauto. }
      rewrite Hf. simpl. eauto.
    - simpl in Hwt. apply andb_true_iff in Hwt. destruct Hwt as [Hi _].
      rewrite (Hpn Hi). simpl. eauto.
    - simpl in Hwt. apply andb_true_iff in Hwt. destruct Hwt as [Hi Hwt].
      apply andb_true_iff in Hwt. destruct Hwt as [Hni Hwt]. apply negb_true_iff in Hni.
      rewrite (Hpn Hi). simpl. apply IHv; auto; intros Hc; congruence.
    - inversion Hr as [|? ? Hn Hr']; subst. destruct (elem_key_some _ Hn) as [kk Hk].
      simpl. rewrite Hk. simpl.
      rewrite wt_array in Hwt. apply andb_true_iff in Hwt. destruct Hwt as [_ Hwt].
      assert (Hw : Forall (fun e => wt env e = true) es).
      { clear -Hwt. induction es as [|e es IH]; simpl in Hwt; constructor.
        - repeat (apply andb_true_iff in Hwt; destruct Hwt as [Hwt ?]). assumption.
        - repeat (apply andb_true_iff in Hwt; destruct Hwt as [Hwt ?]). now apply IH. }
      apply Forall_flat_map in Hr'. apply Forall_flat_map in He. apply Forall_flat_map in Hd.
      destruct (mapM_all_ok (ENC 0) es) as [elems Hf].
      { intros e Hin. rewrite Forall_forall in H, Hw, Hr', He, Hd.
        apply (H _ Hin (Hw _ Hin) (Hr' _ Hin) (He _ Hin) (Hd _ Hin) 0%nat). reflexivity. }
      rewrite Hf. simpl. eauto.
    - simpl in Hwt. apply andb_true_iff in Hwt. destruct Hwt as [Hct Hwt].
      inversion Hd as [|? ? Hk Hd']; subst.
      destruct (rm_lookup reg (TDef d (ty_of v))) as [k|] eqn:Ek; [|congruence].
      simpl. rewrite Ek, andb_false_r.
      destruct (IHv Hwt Hr He Hd' pn) as [oi Hoi].
      { intro Hc. destruct (ty_of v); discriminate. }
      rewrite Hoi. simpl. eauto.
  Qed.
End Complete.

(* ------------------------------------------------------------------ the concrete JSON layer *)
Lemma jrt_c : forall b l j,
  lit_in_base b l = true -> jsafe l = true -> jenc_c b l = Ok j -> jdec_c b j = Ok l.
Proof.
  intros b l j Hin Hs H. unfold jdec_c. destruct l; simpl in *.
  - inversion H; subst. simpl. now rewrite Hin.
  - inversion H; subst. simpl. now rewrite Hin.
  - destruct (float_finite b bits); inversion H; subst. simpl. now rewrite Hin.
  - discriminate H.
  - unfold valid_utf8 in Hs. apply String.eqb_eq in Hs. rewrite Hs in H. inversion H; subst.
    simpl. now rewrite Hin.
Qed.
Lemma krt_c : forall b l j,
  lit_in_base b l = true -> jsafe l = true -> kenc_c b l = Ok j -> kdec_c b j = Ok l.
Proof.
  intros b l j Hin _ H. unfold kdec_c. destruct l; simpl in *;
    try (destruct (float_finite b bits)); try discriminate H;
    inversion H; subst; simpl; now rewrite Hin.
Qed.
Lemma jenc_c_np : forall b l, jenc_c b l <> Panic.
Proof. intros b l. destruct l; simpl; try discriminate. destruct (float_finite b bits); discriminate. Qed.
Lemma kenc_c_np : forall b l, kenc_c b l <> Panic.
Proof. intros b l. destruct l; simpl; try discriminate. destruct (float_finite b bits); discriminate. Qed.

(* executable check that a list of names has no duplicates *)
Fixpoint str_mem (s : string) (l : list string) : bool :=
  match l with [] => false | x :: r => String.eqb s x || str_mem s r end.
Fixpoint str_nodup (l : list string) : bool :=
  match l with [] => true | x :: r => negb (str_mem x r) && str_nodup r end.
Lemma str_mem_in : forall s l, str_mem s l = false -> ~ In s l.
Proof.
  induction l as [|x r IH]; simpl; intros H Hin; [assumption|].
  apply orb_false_iff in H. destruct H as [H1 H2]. destruct Hin as [->|Hin].
  - rewrite String.eqb_refl in H1. discriminate.
  - now apply IH.
Qed.
Lemma str_nodup_ok : forall l, str_nodup l = true -> NoDup l.
Proof.
  induction l as [|x r IH]; simpl; intro H; constructor.
  - apply andb_true_iff in H. destruct H as [H _]. apply negb_true_iff in H. now apply str_mem_in.
  - apply andb_true_iff in H. destruct H as [_ H]. now apply IH.
Qed.
Definition env_names_ok (env : senv) : bool :=
  forallb (fun d => str_nodup (map fst (snd d))) env.
Lemma env_names_ok_spec : forall env, env_names_ok env = true ->
  forall n ds, struct_fields env n = Some ds -> NoDup (map fst ds).
Proof.
  unfold struct_fields. induction env as [|[m ds0] env IH]; simpl; intros H n ds Hget; [discriminate|].
  apply andb_true_iff in H. destruct H as [H1 H2].
  destruct (N.eqb n m).
  - inversion Hget; subst. now apply str_nodup_ok.
  - eapply IH; eauto.
Qed.
