(* Proofs/GenAgreeC07NodeType.v — property C07, translator tie for compose/graph_node.go
   (tools/go2v extractor "c07_nodetype", Gen/NodeTypeCode.v, translated statement by statement):
   the methods inputType, outputType and getGenericHelper of graphNode -- what AddEdge / AddBranch / Compile read
   as the declared types of a node and where the run-time converters of a node come from.

   The model (and the harness, which renders a node added WithInputKey / WithOutputKey with the
   declared type map[string]any on the keyed side) takes the declared type of a side to be
   [declared_ty]: map[string]any when the side has a key, else the type of the node's runnable
   (a lambda / component) or of its graph (AddGraphNode).  Proved for every combination of keys
   and for both kinds of node; and the node's helper is again (declared input type, declared
   output type) whenever the helper of the runnable / graph is (its input type, its output type):
   the base case of [gh_inv] (Proofs/GenAgreeC07Validate.v) for nodes with keys.  A source that
   forgets a key, gives the key precedence on the wrong side, or derives the helper with
   forMapInput for an output key makes this stop compiling. *)
From Eino Require Import Base.Util Model.Types Model.TypesGenLib Model.TypeBuilder Model.TypeBuilderGenLib Model.TypeBuilderGenLib2.
From Eino Require Gen.NodeTypeCode.
Module NT := Gen.NodeTypeCode.

(* a lambda / component node (cr set, no graph) *)
Theorem gen_node_types_lambda_agree : forall m has_info in_key out_key g_in g_out cr_in cr_out g_gh cr_gh,
  NT.node_input_type m has_info in_key out_key false true g_in g_out cr_in cr_out g_gh cr_gh = declared_ty m (has_info && in_key) cr_in /\
  NT.node_output_type m has_info in_key out_key false true g_in g_out cr_in cr_out g_gh cr_gh = declared_ty m (has_info && out_key) cr_out.
Proof. intros; destruct has_info, in_key, out_key; split; reflexivity. Qed.

(* a graph node (AddGraphNode) *)
Theorem gen_node_types_graph_agree : forall m has_info in_key out_key has_cr g_in g_out cr_in cr_out g_gh cr_gh,
  NT.node_input_type m has_info in_key out_key true has_cr g_in g_out cr_in cr_out g_gh cr_gh = declared_ty m (has_info && in_key) g_in /\
  NT.node_output_type m has_info in_key out_key true has_cr g_in g_out cr_in cr_out g_gh cr_gh = declared_ty m (has_info && out_key) g_out.
Proof. intros; destruct has_info, in_key, out_key; split; reflexivity. Qed.

(* the helper of the node follows its declared types.  [gh_empty] is the value of &genericHelper{} (the
   helper without any instantiated field that getGenericHelper starts from, since the repair 0136457, for a
   passthrough node with a key whose own helper is still nil): nothing is assumed of it, a typed node never
   reaches that statement *)
Theorem gen_node_helper_follows_types : forall m has_info in_key out_key is_graph has_cr g_in g_out cr_in cr_out g_gh cr_gh gh_empty i o,
  (is_graph = true -> g_gh = Some (i, o) /\ g_in = Some i /\ g_out = Some o) ->
  (is_graph = false -> has_cr = true /\ cr_gh = Some (i, o) /\ cr_in = Some i /\ cr_out = Some o) ->
  gh_conv_in (NT.node_generic_helper m has_info in_key out_key is_graph has_cr g_in g_out cr_in cr_out g_gh cr_gh gh_empty) =
    NT.node_input_type m has_info in_key out_key is_graph has_cr g_in g_out cr_in cr_out g_gh cr_gh /\
  gh_conv_out (NT.node_generic_helper m has_info in_key out_key is_graph has_cr g_in g_out cr_in cr_out g_gh cr_gh gh_empty) =
    NT.node_output_type m has_info in_key out_key is_graph has_cr g_in g_out cr_in cr_out g_gh cr_gh.
Proof.
  intros m has_info in_key out_key is_graph has_cr g_in g_out cr_in cr_out g_gh cr_gh gh_empty i o Hg Hc.
  destruct is_graph.
  - destruct (Hg eq_refl) as [A [B C]]. subst. destruct has_info, in_key, out_key; split; reflexivity.
  - destruct (Hc eq_refl) as [A [B [C D]]]. subst. destruct has_info, in_key, out_key; split; reflexivity.
Qed.

(* a node whose runnable has no helper yet (an untyped passthrough node): without a key it has none either; with a
   key the keyed side is derived from the empty helper *)
Theorem gen_node_helper_untyped : forall m has_info in_key out_key g_in g_out cr_in cr_out g_gh gh_empty,
  NT.node_generic_helper m has_info in_key out_key false true g_in g_out cr_in cr_out g_gh None gh_empty =
  if has_info && (in_key || out_key)
  then (if out_key then gh_for_map_out m else fun h => h) ((if in_key then gh_for_map_in m else fun h => h) gh_empty)
  else None.
Proof. intros; destruct has_info, in_key, out_key; reflexivity. Qed.

Example gen_node_types_examples :
  let m := TConc 3 in
  NT.node_input_type m true true false false true None None (Some TAny) (Some TAny) None (gh_new TAny TAny) = Some m /\
  NT.node_output_type m true true false false true None None (Some TAny) (Some TAny) None (gh_new TAny TAny) = Some TAny /\
  NT.node_generic_helper m true true false false true None None (Some TAny) (Some TAny) None (gh_new TAny TAny) None = gh_new m TAny /\
  NT.node_generic_helper m true true true false true None None (Some TAny) (Some TAny) None (gh_new TAny TAny) None = gh_new m m /\
  NT.node_generic_helper m false false false false true None None None None None None (gh_new TAny TAny) = None /\
  NT.node_input_type m false false false false false None None None None None None = None.
Proof. repeat split; reflexivity. Qed.
