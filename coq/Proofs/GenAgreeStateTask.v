(* Proofs/GenAgreeStateTask.v — C11, translator tie: what compose/graph_manager.go does with a node's
   state pre-handler and post-handler, as tools/go2v (extractor "statetask") reads it on every run
   (Gen/StateTask.v: the loop of taskManager.submit that runs the pre-processors, the call of the node in
   taskManager.executor, the treatment of a received task in taskManager.waitOne), is the programs of
   Model/StateTask.v — hence the pipeline proved for them holds for the source: for every pre-processor,
   node and post-processor, the pre-handler is called exactly once, with the task's own context, on the
   task's input, and what it returns is what the node is called with; the post-handler is called exactly
   once on what the node returned and what it returns is the task's output (what the successors
   receive); a skipped pre-handler (node of an interrupted nested graph) and a failed node call neither;
   a failing pre-handler fails the submit before the node is called.  A handler whose result is dropped,
   a handler called on the wrong value or with another context, a post-handler run on a failed task make
   this file stop compiling. *)
From Eino Require Import Base.Util Model.StateLock Model.StateLockLTS Model.StateTask.
From Eino Require Import Proofs.StateTask.
From Eino Require Gen.StateTask.

(* Agreement is agreement of BEHAVIOUR, as far as the rest of the engine can see it ([tobs]): for every task
   record, every pre-processor / node / post-processor and every combination of the flags the source's
   programs and the model's end in the same way (fall through / return / submit fails) with the same log of
   calls, the same error flag, the same task input and - unless the task has failed - the same task output.
   Not compared: the block's local variables (the result and the error of the last runWrapper call: they
   do not outlive the block), the output of a FAILED task (never used: the run fails with the task's
   error, or - interrupts - the interrupt handlers save the task's INPUT), the task record after a failed
   submit (the run fails).  So a source that spells a guard the other way round, merges or splits two
   tests, moves the handler calls into helpers (inlined by the extractor), or returns early from waitOne
   when the post-handler fails (leaving the node's output in a task that has failed anyway) still agrees;
   one that calls a handler on another value, drops its result, or runs it when it must not does not. *)
Definition tobs {X : Type} (r : tres X) : nat * list (tproc * X) * option (bool * X * option X) :=
  let task st := Some (ts_err st, ts_in st, if ts_err st then None else Some (ts_out st)) in
  match r with
  | RRun st => (0%nat, ts_calls st, task st)
  | RRet st => (1%nat, ts_calls st, task st)
  | RFail st => (2%nat, ts_calls st, None)
  end.

Ltac c11_task_agree :=
  intros X has_pre skip has_post proc [i o e t ce calls];
  unfold texec, Gen.StateTask.submit_prog, Gen.StateTask.exec_prog, Gen.StateTask.collect_prog,
    Model.StateTask.submit_prog, Model.StateTask.exec_prog, Model.StateTask.collect_prog;
  destruct has_pre, skip, has_post, e, ce; cbn;
  repeat (match goal with |- context [proc ?p ?x] => destruct (proc p x) as [? []]; cbn end);
  reflexivity.

Lemma gen_submit_agrees : forall X has_pre skip has_post (proc : tproc -> X -> X * bool) st,
  tobs (texec X has_pre skip has_post proc Gen.StateTask.submit_prog st) =
  tobs (texec X has_pre skip has_post proc Model.StateTask.submit_prog st).
Proof. c11_task_agree. Qed.
Lemma gen_exec_agrees : forall X has_pre skip has_post (proc : tproc -> X -> X * bool) st,
  tobs (texec X has_pre skip has_post proc Gen.StateTask.exec_prog st) =
  tobs (texec X has_pre skip has_post proc Model.StateTask.exec_prog st).
Proof. c11_task_agree. Qed.
Lemma gen_collect_agrees : forall X has_pre skip has_post (proc : tproc -> X -> X * bool) st,
  tobs (texec X has_pre skip has_post proc Gen.StateTask.collect_prog st) =
  tobs (texec X has_pre skip has_post proc Model.StateTask.collect_prog st).
Proof. c11_task_agree. Qed.

Theorem gen_task_programs_agree : forall X has_pre skip has_post (proc : tproc -> X -> X * bool) st,
  tobs (texec X has_pre skip has_post proc Gen.StateTask.submit_prog st) =
    tobs (texec X has_pre skip has_post proc Model.StateTask.submit_prog st) /\
  tobs (texec X has_pre skip has_post proc Gen.StateTask.exec_prog st) =
    tobs (texec X has_pre skip has_post proc Model.StateTask.exec_prog st) /\
  tobs (texec X has_pre skip has_post proc Gen.StateTask.collect_prog st) =
    tobs (texec X has_pre skip has_post proc Model.StateTask.collect_prog st).
Proof. intros; split; [apply gen_submit_agrees | split; [apply gen_exec_agrees | apply gen_collect_agrees]]. Qed.

(* the pipeline, for the source's programs (proved on them directly: the three blocks one after the other) *)
Definition gen_run_task (X : Type) (has_pre skip has_post : bool) (proc : tproc -> X -> X * bool) (x d : X) : tres X :=
  match texec X has_pre skip has_post proc Gen.StateTask.submit_prog (mkTS x d false d false []) with
  | RFail st => RFail st
  | RRun st1 | RRet st1 =>
      match texec X has_pre skip has_post proc Gen.StateTask.exec_prog st1 with
      | RFail st => RFail st
      | RRun st2 | RRet st2 => texec X has_pre skip has_post proc Gen.StateTask.collect_prog st2
      end
  end.

(* as Props task_handler_pipeline (the model's programs), except that nothing is said about the output of a
   task that has failed *)
Theorem gen_task_pipeline : forall (X : Type) has_pre skip has_post (proc : tproc -> X -> X * bool) x d,
  let runs := pre_runs has_pre skip in
  let x1 := if runs then fst (proc TPre x) else x in
  let pre_call := if runs then [(TPre, x)] else [] in
  if runs && snd (proc TPre x) then
    exists st, gen_run_task X has_pre skip has_post proc x d = RFail st /\ ts_calls st = [(TPre, x)]
  else
    exists st, gen_run_task X has_pre skip has_post proc x d = RRet st /\ ts_in st = x1 /\
    if snd (proc TAction x1) then
      ts_err st = true /\ ts_calls st = pre_call ++ [(TAction, x1)]
    else if has_post then
      (ts_err st = false -> ts_out st = fst (proc TPost (fst (proc TAction x1)))) /\
      ts_err st = snd (proc TPost (fst (proc TAction x1))) /\
      ts_calls st = pre_call ++ [(TAction, x1); (TPost, fst (proc TAction x1))]
    else
      ts_out st = fst (proc TAction x1) /\ ts_err st = false /\ ts_calls st = pre_call ++ [(TAction, x1)].
Proof.
  intros X has_pre skip has_post proc x d. unfold gen_run_task, pre_runs.
  destruct has_pre, skip, has_post; lazy;
    repeat match goal with
           | |- context [proc ?p ?a] => destruct (proc p a) as [? [|]]; lazy
           end; eexists; repeat split; first [reflexivity | intros; first [reflexivity | discriminate]].
Qed.

(* non-vacuity: handlers that add 1 / double / add 100 *)
Example gen_task_pipeline_example :
  let proc := fun p (x : nat) => match p with TPre => (x + 1, false) | TAction => (2 * x, false) | TPost => (x + 100, false) end%nat in
  match gen_run_task nat true false true proc 5%nat 0%nat with
  | RRet st => ts_out st = 112%nat /\ ts_calls st = [(TPre, 5); (TAction, 6); (TPost, 12)]%nat
  | _ => False
  end /\
  match gen_run_task nat true true false proc 5%nat 0%nat with
  | RRet st => ts_out st = 10%nat /\ ts_calls st = [(TAction, 5%nat)]
  | _ => False
  end.
Proof. split; vm_compute; split; reflexivity. Qed.
