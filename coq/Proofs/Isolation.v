(* Proofs/Isolation.v — non-interference of concurrent runs (property C09).
   Everything is proved for every number of runs, every per-run state, every schedule. *)
From Eino Require Import Base.Util Model.Isolation.
From Coq Require Import Lia.


(* ---------------------------------------------------------------- lists *)

Lemma nth_upd_same : forall (R : Type) (l : list R) i r a,
  nth_error l i = Some a -> nth_error (upd i r l) i = Some r.
Proof.
  induction l as [|x l IH]; intros [|i] r a H; simpl in *; try discriminate; auto.
  eapply IH; eauto.
Qed.

Lemma nth_upd_other : forall (R : Type) (l : list R) i j r,
  i <> j -> nth_error (upd i r l) j = nth_error l j.
Proof.
  induction l as [|x l IH]; intros [|i] [|j] r H; simpl in *; auto; try congruence.
Qed.

Lemma upd_length : forall (R : Type) (l : list R) i r, List.length (upd i r l) = List.length l.
Proof. induction l as [|x l IH]; intros [|i] r; simpl; auto. Qed.

Lemma nth_error_ext_eq : forall (A : Type) (l m : list A),
  (forall i, nth_error l i = nth_error m i) -> l = m.
Proof.
  induction l as [|a l IH]; intros [|b m] H; auto.
  - specialize (H O); discriminate.
  - specialize (H O); discriminate.
  - f_equal.
    + specialize (H O); simpl in H; congruence.
    + apply IH; intro i; exact (H (S i)).
Qed.

(* ---------------------------------------------------------------- the general theorem *)

Section NonInterference.
  Variables Sh R C : Type.
  Variable stepw : Sh -> R -> option (Sh * R).
  (* [view s] is the part of the shared store that runs may read: the compiled record *)
  Variable view : Sh -> C.
  (* H1: no run writes the compiled record *)
  Hypothesis view_preserved : forall s r s' r', stepw s r = Some (s', r') -> view s' = view s.
  (* H2: what a run does next depends only on the compiled record and on its own state *)
  Hypothesis reads_view_only : forall s1 s2 r, view s1 = view s2 ->
      option_map snd (stepw s1 r) = option_map snd (stepw s2 r).

  Lemma gstep_view : forall i g g', gstep stepw i g = Some g' -> view (fst g') = view (fst g).
  Proof.
    unfold gstep; intros i [s rs] g' H; simpl in *.
    destruct (nth_error rs i) as [r|]; try discriminate.
    destruct (stepw s r) as [[s' r']|] eqn:E; try discriminate.
    inversion H; subst; simpl. eapply view_preserved; eauto.
  Qed.

  Lemma grun_view : forall sched g g', grun stepw sched g = Some g' -> view (fst g') = view (fst g).
  Proof.
    induction sched as [|i sc IH]; simpl; intros g g' H.
    - inversion H; auto.
    - destruct (gstep stepw i g) as [g1|] eqn:E; try discriminate.
      rewrite (IH _ _ H). eapply gstep_view; eauto.
  Qed.

  Lemma grun_length : forall sched g g', grun stepw sched g = Some g' -> List.length (snd g') = List.length (snd g).
  Proof.
    induction sched as [|i sc IH]; simpl; intros g g' H.
    - inversion H; auto.
    - destruct (gstep stepw i g) as [g1|] eqn:E; try discriminate.
      rewrite (IH _ _ H). unfold gstep in E. destruct g as [s rs]; simpl in *.
      destruct (nth_error rs i); try discriminate. destruct (stepw s r) as [[s' r']|]; try discriminate.
      inversion E; subst; simpl. apply upd_length.
  Qed.

  Lemma step_transfer : forall s1 s2 r s1' r', view s1 = view s2 -> stepw s1 r = Some (s1', r') ->
      exists s2', stepw s2 r = Some (s2', r').
  Proof.
    intros s1 s2 r s1' r' Hv H. pose proof (reads_view_only _ _ r Hv) as E. rewrite H in E; simpl in E.
    destruct (stepw s2 r) as [[s2' r2]|]; simpl in E; try discriminate. inversion E; subst. eauto.
  Qed.

  (* Main lemma.  Along ANY schedule, run [i] goes through exactly the states it goes through
     when it runs alone from ANY store that shows the same compiled record. *)
  Lemma project_run : forall sched g g', grun stepw sched g = Some g' ->
    forall i r, nth_error (snd g) i = Some r ->
    forall s0, view s0 = view (fst g) ->
      exists s0' r', solo stepw (count i sched) s0 r = Some (s0', r')
                     /\ nth_error (snd g') i = Some r'
                     /\ gproj stepw i sched g = solo_trace stepw (count i sched) s0 r.
  Proof.
    induction sched as [|j sc IH]; simpl; intros g g' H i r Hr s0 Hv.
    - inversion H; subst. exists s0, r; auto.
    - destruct (gstep stepw j g) as [g1|] eqn:E; try discriminate.
      pose proof (gstep_view _ _ _ E) as Hv1.
      unfold gstep in E. destruct g as [s rs]; simpl in *.
      destruct (nth_error rs j) as [rj|] eqn:Ej; try discriminate.
      destruct (stepw s rj) as [[s1 r1]|] eqn:Es; try discriminate.
      inversion E; subst g1; clear E. simpl in *.
      destruct (Nat.eqb j i) eqn:Eji.
      + apply Nat.eqb_eq in Eji; subst j. rewrite Hr in Ej; inversion Ej; subst rj.
        destruct (@step_transfer s s0 r s1 r1 (eq_sym Hv) Es) as [s0' Hs0].
        assert (Hn : nth_error (upd i r1 rs) i = Some r1) by (eapply nth_upd_same; eauto).
        assert (Hv0 : view s0' = view s1).
        { rewrite (view_preserved _ _ _ _ Hs0). rewrite Hv. symmetry. exact Hv1. }
        destruct (IH (s1, upd i r1 rs) g' H i r1 Hn s0' Hv0) as (sf & rf & A & B & Cc).
        exists sf, rf. simpl. rewrite Hs0. rewrite Hn. simpl. rewrite Cc. auto.
      + apply Nat.eqb_neq in Eji.
        assert (Hn : nth_error (upd j r1 rs) i = Some r) by (rewrite nth_upd_other; auto).
        assert (Hv0 : view s0 = view s1) by (rewrite Hv; symmetry; exact Hv1).
        destruct (IH (s1, upd j r1 rs) g' H i r Hn s0 Hv0) as (sf & rf & A & B & Cc).
        exists sf, rf. simpl. auto.
  Qed.
End NonInterference.

(* ---------------------------------------------------------------- the system of the property:
   the compiled record is a parameter of [step], hence never written *)

Section PureTheorems.
  Variables C R : Type.
  Variable step : C -> R -> option R.

  Fixpoint trace (c : C) (n : nat) (r : R) : list R :=
    match n with
    | O => []
    | S n' => match step c r with None => [] | Some r' => r' :: trace c n' r' end
    end.

  Lemma lift_view_preserved : forall (s : C) (r : R) s' r', lift step s r = Some (s', r') -> (fun x : C => x) s' = s.
  Proof. unfold lift; intros s r s' r' H. destruct (step s r); inversion H; auto. Qed.

  Lemma lift_reads_view_only : forall (s1 s2 : C) (r : R), (fun x : C => x) s1 = s2 ->
      option_map snd (lift step s1 r) = option_map snd (lift step s2 r).
  Proof. unfold lift; intros s1 s2 r H; simpl in H; subst. auto. Qed.

  Lemma solo_lift : forall n c r, solo (lift step) n c r = option_map (fun r' => (c, r')) (iter step c n r).
  Proof.
    induction n as [|n IH]; simpl; intros c r; auto.
    unfold lift at 1. destruct (step c r); auto.
  Qed.

  Lemma solo_trace_lift : forall n c r, solo_trace (lift step) n c r = trace c n r.
  Proof.
    induction n as [|n IH]; simpl; intros c r; auto.
    unfold lift at 1. destruct (step c r); auto. rewrite IH; auto.
  Qed.

  (* runs_non_interfering *)
  Theorem runs_non_interfering_pure : forall (c c' : C) (sched : list nat) (rs rs' : list R),
    grun (lift step) sched (c, rs) = Some (c', rs') ->
    c' = c /\ List.length rs' = List.length rs /\
    forall i r, nth_error rs i = Some r ->
      exists r', nth_error rs' i = Some r'
                 /\ iter step c (count i sched) r = Some r'
                 /\ gproj (lift step) i sched (c, rs) = trace c (count i sched) r.
  Proof.
    intros c c' sched rs rs' H. split; [|split].
    - exact (@grun_view _ _ _ (lift step) (fun x : C => x) lift_view_preserved sched (c, rs) (c', rs') H).
    - exact (@grun_length _ _ (lift step) sched (c, rs) (c', rs') H).
    - intros i r Hr.
      destruct (@project_run _ _ _ (lift step) (fun x : C => x) lift_view_preserved lift_reads_view_only
                  sched (c, rs) (c', rs') H i r Hr c eq_refl) as (sf & rf & A & B & Cc).
      exists rf. simpl in B. split; auto. rewrite solo_lift in A. rewrite solo_trace_lift in Cc.
      split; auto. destruct (iter step c (count i sched) r); simpl in A; inversion A; auto.
  Qed.

  Lemma iter_final_unique : forall c n m r r1 r2,
    iter step c n r = Some r1 -> step c r1 = None ->
    iter step c m r = Some r2 -> step c r2 = None -> r1 = r2.
  Proof.
    induction n as [|n IH]; intros [|m] r r1 r2 H1 F1 H2 F2; simpl in *.
    - congruence.
    - inversion H1; subst. rewrite F1 in H2. discriminate.
    - inversion H2; subst. rewrite F2 in H1. discriminate.
    - destruct (step c r) as [r'|]; try discriminate. eapply IH; eauto.
  Qed.

  Lemma iter_run_alone : forall c n r r', iter step c n r = Some r' -> step c r' = None ->
    forall fuel, n <= fuel -> run_alone step c fuel r = Some r'.
  Proof.
    induction n as [|n IH]; simpl; intros r r' H F fuel Hle.
    - inversion H; subst. destruct fuel; simpl; rewrite F; auto.
    - destruct (step c r) as [r1|] eqn:E; try discriminate.
      destruct fuel as [|fuel]; [lia|]. simpl. rewrite E. apply IH; auto. lia.
  Qed.

  Lemma all_final_nth : forall (c : C) (rs : list R) i r,
    all_final (lift step) (c, rs) = true -> nth_error rs i = Some r -> step c r = None.
  Proof.
    unfold all_final; simpl. intros c rs i r H Hn.
    rewrite forallb_forall in H. specialize (H r (nth_error_In _ _ Hn)).
    unfold final, lift in H. destruct (step c r); auto. discriminate.
  Qed.

  (* every run of a complete interleaving returns what it returns when it runs alone *)
  Theorem complete_runs_equal_solo : forall (c c' : C) sched rs rs',
    grun (lift step) sched (c, rs) = Some (c', rs') ->
    all_final (lift step) (c', rs') = true ->
    forall i r, nth_error rs i = Some r ->
      exists r', nth_error rs' i = Some r' /\
                 forall fuel, count i sched <= fuel -> run_alone step c fuel r = Some r'.
  Proof.
    intros c c' sched rs rs' H Hf i r Hr.
    destruct (runs_non_interfering_pure _ _ _ _ _ H) as (Hc & _ & Hall). subst c'.
    destruct (Hall i r Hr) as (r' & A & B & _).
    exists r'; split; auto. intros fuel Hle.
    eapply iter_run_alone; eauto. eapply all_final_nth; eauto.
  Qed.

  (* the outcome does not depend on the schedule *)
  Theorem schedule_independent : forall (c c1 c2 : C) s1 s2 rs rs1 rs2,
    grun (lift step) s1 (c, rs) = Some (c1, rs1) -> all_final (lift step) (c1, rs1) = true ->
    grun (lift step) s2 (c, rs) = Some (c2, rs2) -> all_final (lift step) (c2, rs2) = true ->
    rs1 = rs2.
  Proof.
    intros c c1 c2 s1 s2 rs rs1 rs2 H1 F1 H2 F2.
    destruct (runs_non_interfering_pure _ _ _ _ _ H1) as (E1 & L1 & A1).
    destruct (runs_non_interfering_pure _ _ _ _ _ H2) as (E2 & L2 & A2). subst c1 c2.
    apply nth_error_ext_eq. intro i.
    destruct (nth_error rs i) as [r|] eqn:Er.
    - destruct (A1 i r Er) as (r1 & N1 & I1 & _). destruct (A2 i r Er) as (r2 & N2 & I2 & _).
      rewrite N1, N2. f_equal.
      exact (iter_final_unique c (count i s1) (count i s2) r r1 r2 I1 (all_final_nth c rs1 i r1 F1 N1)
               I2 (all_final_nth c rs2 i r2 F2 N2)).
    - apply nth_error_None in Er.
      assert (nth_error rs1 i = None) as -> by (apply nth_error_None; lia).
      assert (nth_error rs2 i = None) as -> by (apply nth_error_None; lia). auto.
  Qed.

  (* non-vacuity in general: the sequential schedule is a complete schedule whenever every run
     terminates alone *)
  Lemma grun_app : forall (sa sb : list nat) g,
    grun (lift step) (sa ++ sb) g =
    match grun (lift step) sa g with None => None | Some g' => grun (lift step) sb g' end.
  Proof.
    induction sa as [|i sa IH]; simpl; intros sb g; auto.
    destruct (gstep (lift step) i g); auto.
  Qed.

  Lemma grun_repeat : forall n c pre r post r',
    iter step c n r = Some r' ->
    grun (lift step) (repeat (List.length pre) n) (c, pre ++ r :: post) = Some (c, pre ++ r' :: post).
  Proof.
    induction n as [|n IH]; simpl; intros c pre r post r' H.
    - inversion H; auto.
    - destruct (step c r) as [r1|] eqn:E; try discriminate.
      unfold gstep; simpl. rewrite nth_error_app2 by lia. rewrite Nat.sub_diag. simpl.
      unfold lift. rewrite E.
      assert (Hu : upd (List.length pre) r1 (pre ++ r :: post) = pre ++ r1 :: post).
      { clear. induction pre as [|p pre IHp]; simpl; auto. f_equal; auto. }
      rewrite Hu. apply IH; auto.
  Qed.
End PureTheorems.

(* ---------------------------------------------------------------- the two concrete systems *)

(* the repaired ReAct converter (error kept in the run): an instance of the theorem *)
Lemma wstep_local_no_write : forall s r s' r', wstep_local s r = Some (s', r') -> (fun x : option N => x) s' = s.
Proof.
  unfold wstep_local; intros s r s' r' H.
  destruct (N.eqb (w_pc r) 0); [inversion H; auto|].
  destruct (N.eqb (w_pc r) 1); inversion H; auto.
Qed.

Lemma wstep_local_reads_nothing : forall s1 s2 r, (fun _ : option N => tt) s1 = (fun _ : option N => tt) s2 ->
  option_map snd (wstep_local s1 r) = option_map snd (wstep_local s2 r).
Proof.
  unfold wstep_local; intros s1 s2 r _.
  destruct (N.eqb (w_pc r) 0); auto. destruct (N.eqb (w_pc r) 1); auto.
Qed.

Lemma wstep_local_view_tt : forall s r s' r', wstep_local s r = Some (s', r') ->
  (fun _ : option N => tt) s' = (fun _ : option N => tt) s.
Proof. auto. Qed.

(* a run of the repaired converter returns ITS OWN error, whatever the others do *)
Lemma wstep_local_returns_own : forall sched g g',
  grun wstep_local sched g = Some g' ->
  forall i r, nth_error (snd g) i = Some r -> w_pc r = 0%N ->
  forall r', nth_error (snd g') i = Some r' -> final wstep_local (fst g') r' = true ->
  w_ret r' = Some (w_mine r).
Proof.
  intros sched g g' H i r Hr Hpc r' Hr' Hf.
  destruct (@project_run _ _ _ wstep_local (fun _ : option N => tt) wstep_local_view_tt
              wstep_local_reads_nothing sched g g' H i r Hr None eq_refl) as (sf & rf & A & B & _).
  rewrite Hr' in B; inversion B; subst rf; clear B.
  (* r' is reached from r by [count] solo steps and is final: count = 2 *)
  destruct r as [pc mine ret]; simpl in *; subst pc.
  remember (count i sched) as n. destruct n as [|[|[|n]]]; simpl in A.
  - inversion A; subst r'. unfold final, wstep_local in Hf; simpl in Hf. discriminate.
  - unfold wstep_local in A; simpl in A. inversion A; subst r'.
    unfold final, wstep_local in Hf; simpl in Hf. discriminate.
  - unfold wstep_local in A; simpl in A. inversion A; subst r'. reflexivity.
  - unfold wstep_local in A; simpl in A. discriminate.
Qed.

(* ---------------------------------------------------------------- the defect shape: a run writes a shared cell *)

Definition w_ok : wrun := {| w_pc := 0; w_mine := None; w_ret := None |}.          (* ProcessState succeeds  *)
Definition w_err : wrun := {| w_pc := 0; w_mine := Some 7%N; w_ret := None |}.     (* ProcessState fails (7) *)

(* run 0 succeeds alone (returns nil) but returns run 1's error under the schedule 0,1,0,1 *)
Lemma shared_write_foreign_error :
  exists sched g g',
    grun wstep_shared sched g = Some g' /\ all_final wstep_shared g' = true /\
    exists r r' s rs,
      nth_error (snd g) 0 = Some r /\ nth_error (snd g') 0 = Some r' /\
      solo_run wstep_shared 2 (fst g) r = Some (s, rs) /\
      w_ret rs = Some None /\ w_ret r' = Some (Some 7%N).
Proof.
  exists [0; 1; 0; 1]%nat, (None, [w_ok; w_err]). eexists. split; [vm_compute; reflexivity|].
  split; [vm_compute; reflexivity|].
  do 4 eexists. repeat split; vm_compute; reflexivity.
Qed.

(* run 1 fails alone (returns error 7) but returns nil under the schedule 1,0,1,0: its error is swallowed *)
Lemma shared_write_swallowed_error :
  exists sched g g',
    grun wstep_shared sched g = Some g' /\ all_final wstep_shared g' = true /\
    exists r r' s rs,
      nth_error (snd g) 1 = Some r /\ nth_error (snd g') 1 = Some r' /\
      solo_run wstep_shared 2 (fst g) r = Some (s, rs) /\
      w_ret rs = Some (Some 7%N) /\ w_ret r' = Some None.
Proof.
  exists [1; 0; 1; 0]%nat, (None, [w_ok; w_err]). eexists. split; [vm_compute; reflexivity|].
  split; [vm_compute; reflexivity|].
  do 4 eexists. repeat split; vm_compute; reflexivity.
Qed.

(* hence the conclusion of [project_run] is FALSE for this system ... *)
Lemma shared_write_breaks_projection :
  ~ (forall sched g g', grun wstep_shared sched g = Some g' ->
       forall i r, nth_error (snd g) i = Some r ->
       exists s' r', solo wstep_shared (count i sched) (fst g) r = Some (s', r')
                     /\ nth_error (snd g') i = Some r').
Proof.
  intro H.
  assert (E : grun wstep_shared [0; 1; 0; 1]%nat (None, [w_ok; w_err])
              = Some (Some 7%N, [ {| w_pc := 2; w_mine := None; w_ret := Some (Some 7%N) |};
                                  {| w_pc := 2; w_mine := Some 7%N; w_ret := Some (Some 7%N) |} ]))
    by (vm_compute; reflexivity).
  destruct (H _ _ _ E 0%nat w_ok eq_refl) as (s' & r' & A & B).
  vm_compute in A. vm_compute in B. inversion A; subst. inversion B.
Qed.

(* ... although each of the two hypotheses, taken alone, holds for it: *)
(* with view = identity the runs read only the view (trivially), but they write it *)
Lemma shared_write_reads_only_view_id : forall s1 s2 r, (fun x : option N => x) s1 = (fun x : option N => x) s2 ->
  option_map snd (wstep_shared s1 r) = option_map snd (wstep_shared s2 r).
Proof. intros s1 s2 r H; simpl in H; subst; auto. Qed.

(* with the empty view nothing visible is written (trivially), but the runs read outside the view *)
Lemma shared_write_preserves_view_tt : forall s r s' r', wstep_shared s r = Some (s', r') ->
  (fun _ : option N => tt) s' = (fun _ : option N => tt) s.
Proof. auto. Qed.

(* ---------------------------------------------------------------- the small engine: a concrete interleaving *)

(* START(0) -> 1 ; 1 -> 2,3 ; 2 -> 4 ; 3 -> 4 ; 4 -> END(9) *)
Definition mini : crec :=
  {| c_nodes := [(1, 2); (2, 3); (3, 5); (4, 1)]%N;
     c_succ := [(0, [1]); (1, [2; 3]); (2, [4]); (3, [4]); (4, [9])]%N;
     c_end := 9%N; c_max := 10; c_state0 := 100%N |}.

(* 1 <-> 2 for ever: stopped by the step limit *)
Definition mini_loop : crec :=
  {| c_nodes := [(1, 1); (2, 1)]%N;
     c_succ := [(0, [1]); (1, [2]); (2, [1])]%N;
     c_end := 9%N; c_max := 3; c_state0 := 0%N |}.

Definition mini_sched : list nat := [0; 1; 1; 0; 1; 0; 0; 1]%nat.

Lemma mini_interleaved :
  exists a b,
    grun (lift superstep) mini_sched (mini, [rinit mini 5 0; rinit mini 11 3]) = Some (mini, [a; b]) /\
    all_final (lift superstep) (mini, [a; b]) = true /\
    run_alone superstep mini 10 (rinit mini 5 0) = Some a /\
    run_alone superstep mini 10 (rinit mini 11 3) = Some b /\
    r_result a = Some (Ok 97%N) /\ r_result b = Some (Ok 226%N) /\ r_state a <> r_state b.
Proof.
  do 2 eexists. split; [vm_compute; reflexivity|].
  repeat split; try (vm_compute; reflexivity). vm_compute. discriminate.
Qed.

Lemma mini_loop_interleaved :
  exists a b,
    grun (lift superstep) [1; 0; 0; 1; 0; 1; 1; 0]%nat (mini_loop, [rinit mini_loop 1 0; rinit mini_loop 2 0])
      = Some (mini_loop, [a; b]) /\
    all_final (lift superstep) (mini_loop, [a; b]) = true /\
    r_result a = Some (Err 1%N) /\ r_result b = Some (Err 1%N) /\
    run_alone superstep mini_loop 10 (rinit mini_loop 1 0) = Some a.
Proof.
  do 2 eexists. split; [vm_compute; reflexivity|].
  repeat split; vm_compute; reflexivity.
Qed.
