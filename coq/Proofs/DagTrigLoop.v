(* Proofs/DagTrigLoop.v — C02, graph level, part 4: the trigger invariant along the run loop and the
   theorems dag_runs_iff_triggered / dag_routed_when_run / dag_skip_propagates about every state the loop of
   runner.run reaches (batch and eager mode, every schedule, every behaviour of the node bodies). *)
From Eino Require Import Base.Util Model.Graph Proofs.DagChan Proofs.DagInv Proofs.DagLoop Proofs.DagTrig Proofs.DagVals Proofs.DagSkip.
From Coq Require Import Lia Permutation.
Open Scope N_scope.

Section DagTrigLoop.
  Variable V : Type.
  Variable St : Type.
  Variable ops : vops V.
  Variable g : graph.
  Hypothesis Hdag : g_mode g = Dag.
  Hypothesis Hnk : NoDup (map n_key (g_nodes g)).
  Hypothesis Hcd : api_built g.

  Notation chan := (chan V).
  Notation chans := (chans V).
  Notation Inv := (Inv V g).
  Notation skipped := (skipped V).
  Notation ET := (ET V ops g).
  Notation GW := (GW V ops g).
  Notation EV := (EV V ops g).
  Notation input_spec := (input_spec V ops g).
  Notation ES := (ES V ops g).
  Notation EK := (EK V g).

  Definition NR (cs : chans) (G : list key) : Prop :=
    forall t c, alookup t cs = Some c -> ~ In t G -> dag_ready V c = false.

  (* ---------- the initial channel table ---------- *)
  Lemma init_v0_ET : ET (init_chans_v0 V g) [] [] [kSTART] [].
  Proof.
    assert (Hlk := init_v0_lookup V g).
    assert (Hnsk : forall p, ~ skipped (init_chans_v0 V g) p).
    { intros p (c & E & S). rewrite Hlk in E. destruct (memb p (chan_keys g)); [|discriminate].
      injection E as <-. unfold chan_init in S. rewrite Hdag in S. discriminate. }
    constructor.
    - intros t c. rewrite Hlk. destruct (memb t (chan_keys g)); [|discriminate]. intros [= <-] Hne.
      unfold chan_init at 1. rewrite Hdag. simpl.
      destruct (all_skipped (c_ctrl V (chan_init V g t))) eqn:Ea; [|reflexivity]. exfalso.
      destruct (chan_init_ok V g t) as (Hcc & _).
      pose proof (proj1 (all_skipped_iff _ Hcc) Ea) as Hall.
      destruct (cpreds g t) as [|q l] eqn:Ec; [congruence|].
      specialize (Hall q Waiting).
      change (alookup q (c_ctrl V (chan_init V g t))) with (ctrl_st V (chan_init V g t) q) in Hall.
      rewrite (chan_init_dag_ctrl V g t q Hdag), Ec in Hall. simpl in Hall. rewrite N.eqb_refl in Hall. simpl in Hall.
      specialize (Hall eq_refl). discriminate.
    - intros t c p out n _ _ [].
    - intros t c p out n _ _ [].
    - intros t c p _ _ Hs. exfalso. now apply (Hnsk p).
    - intros t c p _ _ [].
    - intros t c p out n _ _ [].
    - intros t c p _ _ Hs. exfalso. now apply (Hnsk p).
    - intros t c p. rewrite Hlk. destruct (memb t (chan_keys g)); [|discriminate]. intros [= <-].
      rewrite (chan_init_dag_ctrl V g t p Hdag). destruct (memb p (cpreds g t)); discriminate.
    - intros t [<-|[]] Hne. congruence.
  Qed.

  Lemma GW_init : GW [] [] [kSTART].
  Proof. constructor; simpl; [constructor|intros ? []|intros ? ? []]. Qed.

  Lemma init_chans_ET cs : init_chans V g = Ok cs -> ET cs [] [] [kSTART] [].
  Proof.
    unfold init_chans. rewrite Hdag. intros Hrb.
    assert (HtG : forall t c, In t (unreachable_nodes g) -> alookup t (init_chans_v0 V g) = Some c -> ~ In t [kSTART]).
    { intros t c _ E [<-|[]]. rewrite (start_no_chan V g _ _ _ _ (init_v0_inv V g Hdag)) in E. discriminate. }
    destruct (report_branch_ET V ops g Hdag Hnk _ [kSTART] [] [] [kSTART] kSTART _ cs
                (init_v0_inv V g Hdag) init_v0_ET GW_init (or_introl eq_refl) (fun H => H) HtG Hrb) as (HE & _).
    exact HE.
  Qed.

  Section Run.
    Variable exec : St -> path -> V -> res V * St.
    Variable sub : nat -> path -> V -> St -> outcome V * St.
    Variable sched : nat -> list key -> nat.
    Variable p : path.
    Hypothesis Hsub : forall i k v s, Forall (fun e : logentry V => fst e <> p) (outcome_log V (fst (sub i (p ++ [k]) v s))).

    Notation LInvR := (LInvR V St g p).
    Notation step_outputs := (step_outputs V St ops g exec sub sched p).
    Notation step := (step V St ops exec sub sched p g).

    (* the loop invariant with the resolution record Rv *)
    Definition LT (ls : loopstate V St) (Rv : list (key * V)) : Prop :=
      exists X G, LInvR ls (akeys Rv) X G
                  /\ ET (ls_chans V St ls) Rv [] G [] /\ GW Rv [] G /\ NR (ls_chans V St ls) G
                  /\ EV (ls_chans V St ls) Rv G
                  /\ (forall t w, alookup t (ls_next V St ls) = Some w -> input_spec Rv t w)
                  /\ ES (ls_chans V St ls) Rv
                  /\ EK (ls_chans V St ls) [].

    Lemma LInvR_equiv_R ls R R' X G : (forall x, In x R <-> In x R') -> LInvR ls R X G -> LInvR ls R' X G.
    Proof.
      intros Hi (HI & Ho & Hnd & Hperm & HndRN & HRuX & HnR & Hlog).
      split; [|split; [assumption|split; [assumption|split; [assumption|split; [assumption|split; [assumption|split; [|assumption]]]]]]].
      - eapply Inv_grow_R; [| |exact HI].
        + intros x Hx. now apply Hi.
        + intros x Hx. apply (inv_RG _ _ _ _ _ _ HI). now apply Hi.
      - intros k Hk HR. apply (HnR k Hk). now apply Hi.
    Qed.

    (* states of the loop, with the record of resolved tasks: exactly the states [iterate] goes through *)
    Inductive reach (x : V) (s0 : St) : loopstate V St -> list (key * V) -> Prop :=
    | reach_init cs0 cs1 ready :
        init_chans V g = Ok cs0 -> calc_next V ops g cs0 [(kSTART, x)] = Ok (cs1, ready) ->
        alookup kEND ready = None -> reach x s0 (init_state V St p cs1 ready s0) [(kSTART, x)]
    | reach_step ls Rv ls' :
        reach x s0 ls Rv -> step ls = Continue ls' -> reach x s0 ls' (Rv ++ step_outputs ls).

    (* one iteration: the state after calc_next (whether or not END became ready) *)
    Lemma LT_step ls Rv results sublog s' completed running' cs' ready :
      LT ls Rv ->
      submit V St ops exec sub p g (ls_next V St ls) (ls_st V St ls) = (results, sublog, s') ->
      wait_tasks V sched g (ls_step V St ls) (ls_running V St ls ++ results) = (completed, running') ->
      calc_next V ops g (ls_chans V St ls) (task_outputs V completed) = Ok (cs', ready) ->
      (alookup kEND ready = None \/ exists q, gpred g kEND q) ->
      LT {| ls_step := S (ls_step V St ls); ls_chans := cs'; ls_next := ready; ls_running := running';
            ls_st := s'; ls_log := ls_log V St ls ++ next_entry V St p ls ++ sublog |}
         (Rv ++ task_outputs V completed).
    Proof.
      intros (X & G & HL & HE & HG & HNR & HV & _ & HS & HK) Es Ew Ecn Hor.
      destruct (step_continue_R V St ops g Hdag exec sub sched p Hsub ls (akeys Rv) X G _ _ _ _ _ _ _ HL Es Ew Ecn Hor)
        as (HL' & HndCo & Hpre).
      pose proof HL as (HI & Ho & Hnd & _).
      destruct (calc_next_ET V ops g Hdag Hnk Hcd _ (akeys Rv) Rv G _ cs' ready HI Ho Hnd HE HG HndCo Hpre Ecn) as (HE1 & HG1 & HNR1).
      destruct (calc_next_EV V ops g Hdag Hnk _ (akeys Rv) Rv G _ cs' ready HI Ho Hnd HE HG HV HndCo Hpre Ecn) as (HV1 & Hin1).
      exists (X ++ akeys (ls_next V St ls)), (G ++ akeys ready).
      assert (HS1 : ES cs' (Rv ++ task_outputs V completed)).
      { eapply (calc_next_ES V ops g Hdag _ (akeys Rv) G (Rv ++ task_outputs V completed) (task_outputs V completed)); [exact HI| | | |exact Ecn].
        - eapply ES_mono_L; [|exact HS]. intros z Hz. apply in_app_iff. now left.
        - intros z Hz. apply in_app_iff. now right.
        - intros k Hk. destruct (Hpre k Hk) as (A & B & _). auto. }
      assert (HK1 : EK cs' []).
      { eapply (calc_next_EK V ops g Hdag Hnk _ (akeys Rv) G (task_outputs V completed)); [exact HI|exact HK| |exact Ecn].
        intros k Hk. destruct (Hpre k Hk) as (A & B & _). auto. }
      split; [|split; [exact HE1|split; [exact HG1|split; [|split; [exact HV1|split; [exact Hin1|split; [exact HS1|exact HK1]]]]]]].
      + eapply LInvR_equiv_R; [|exact HL']. intros z. unfold akeys. rewrite map_app, !in_app_iff. tauto.
      + intros t c E HnG. apply (HNR1 t c E). intros Hin. apply HnG. apply in_app_iff. now right.
    Qed.

    Lemma reach_LT x s0 ls Rv : reach x s0 ls Rv -> LT ls Rv.
    Proof.
      induction 1 as [cs0 cs1 ready Hi Hc Hend|ls Rv ls' Hr IH Hstep].
      - pose proof (init_state_LInvR V St ops g Hdag p cs0 x cs1 ready s0 Hi Hc Hend) as HL.
        destruct (init_chans_inv V g Hdag cs0 Hi) as [HI0 Ho0].
        pose proof (init_chans_ET cs0 Hi) as HE0.
        assert (Hpre : forall k, In k (akeys [(kSTART, x)]) -> In k [kSTART] /\ npred g [kSTART] k /\ ~ In k (akeys (@nil (key * V)))).
        { intros k [<-|[]]. split; [now left|]. split; [|intros []]. intros t [<-|[]] Hne. congruence. }
        assert (Hnd : NoDup [kSTART]) by (constructor; [intros []|constructor]).
        assert (Hnd1 : NoDup (akeys [(kSTART, x)])) by (constructor; [intros []|constructor]).
        destruct (calc_next_ET V ops g Hdag Hnk Hcd cs0 [kSTART] [] [kSTART] [(kSTART, x)] cs1 ready
                    HI0 Ho0 Hnd HE0 GW_init Hnd1 Hpre Hc) as (HE1 & HG1 & HNR).
        destruct (calc_next_EV V ops g Hdag Hnk cs0 [kSTART] [] [kSTART] [(kSTART, x)] cs1 ready
                    HI0 Ho0 Hnd HE0 GW_init (init_chans_EV V ops g Hdag cs0 Hi) Hnd1 Hpre Hc) as (HV1 & Hin1).
        exists [], ([kSTART] ++ akeys ready). split; [exact HL|]. split; [exact HE1|]. split; [exact HG1|].
        assert (HS1 : ES cs1 [(kSTART, x)]).
        { eapply (calc_next_ES V ops g Hdag cs0 [kSTART] [kSTART] [(kSTART, x)] [(kSTART, x)]); [exact HI0| |apply incl_refl| |exact Hc].
          - eapply ES_mono_L; [|exact (init_chans_ES V ops g Hdag cs0 Hi)]. intros z [].
          - intros k Hk. destruct (Hpre k Hk) as (A & B & _). auto. }
        assert (HK1 : EK cs1 []).
        { eapply (calc_next_EK V ops g Hdag Hnk cs0 [kSTART] [kSTART] [(kSTART, x)]); [exact HI0|exact (init_chans_EK V g Hdag Hnk cs0 Hi)| |exact Hc].
          intros k Hk. destruct (Hpre k Hk) as (A & B & _). auto. }
        split; [|split; [exact HV1|split; [exact Hin1|split; [exact HS1|exact HK1]]]].
        intros t c E HnG. apply (HNR t c E). intros Hin. apply HnG. apply in_app_iff. now right.
      - destruct (step_continue_unfold V St ops g Hdag exec sub sched p ls ls' Hstep)
          as (results & sublog & s' & completed & running' & cs' & ready & Es & Ew & Ecn & Eend & Eso & ->).
        rewrite Eso. eapply LT_step; try eassumption. now left.
    Qed.

    (* [iterate] only ever goes through reachable states *)
    Lemma iterate_reach x s0 fuel : forall ls Rv o s,
      reach x s0 ls Rv -> iterate V St ops exec sub sched p g fuel ls = (o, s) ->
      exists ls' Rv', reach x s0 ls' Rv'
        /\ (step ls' = Finish o s \/ (o = Fail [mkerr eLoopFuel] (ls_log V St ls') /\ s = ls_st V St ls')).
    Proof.
      induction fuel as [|fuel IH]; intros ls Rv o s Hr; simpl.
      - intros [= <- <-]. exists ls, Rv. split; [assumption|now right].
      - destruct (step ls) as [ls'|o' s'] eqn:E.
        + apply IH with (Rv := Rv ++ step_outputs ls). now apply reach_step.
        + intros [= <- <-]. exists ls, Rv. split; [assumption|now left].
    Qed.

    (* ================= the theorems, about every reachable loop state ================= *)
    Definition executed (ls : loopstate V St) (t : key) : Prop := In (p ++ [t]) (own_paths V p (ls_log V St ls)).
    Definition scheduled (ls : loopstate V St) (t : key) : Prop := In t (akeys (ls_next V St ls)).
    Definition resolved (Rv : list (key * V)) (q : key) : Prop := In q (@akeys V Rv).
    (* all predecessors of t (control and data) are finished or skipped, and t itself is not skipped *)
    Definition triggered (ls : loopstate V St) (Rv : list (key * V)) (t : key) : Prop :=
      exists c, alookup t (ls_chans V St ls) = Some c /\ c_skipped V c = false
                /\ forall q, gpred g t q -> resolved Rv q \/ skipped (ls_chans V St ls) q.
    Definition routed_c (Rv : list (key * V)) (q t : key) : Prop :=
      exists out n, In (q, out) Rv /\ find_node g q = Some n /\ routes_c V ops n out t.

    Lemma routes_c_dec n out t : {routes_c V ops n out t} + {~ routes_c V ops n out t}.
    Proof.
      unfold routes_c. destruct (in_dec N.eq_dec t (n_csucc n)); [left; now left|].
      destruct (in_dec N.eq_dec t (sel_of V ops n out)); [left; now right|right; tauto].
    Qed.

    Lemma LT_G_iff ls (Rv : list (key * V)) X G t :
      LInvR ls (akeys Rv) X G -> own_paths V p (ls_log V St ls) = map (fun k => p ++ [k]) X ->
      (In t G <-> t = kSTART \/ executed ls t \/ scheduled ls t).
    Proof.
      intros (_ & _ & _ & Hperm & _) Hlog. unfold executed, scheduled. rewrite Hlog.
      assert (Hx : In (p ++ [t]) (map (fun k => p ++ [k]) X) <-> In t X).
      { rewrite in_map_iff. split.
        - intros (k & E & Hk). apply app_inv_head in E. injection E as <-. assumption.
        - intros H. eauto. }
      rewrite Hx. split.
      - intros H. apply (Permutation_in _ Hperm) in H. destruct H as [<-|H]; [now left|].
        apply in_app_iff in H. tauto.
      - intros H. apply (Permutation_in _ (Permutation_sym Hperm)).
        destruct H as [->|[H|H]]; [now left|right; apply in_app_iff; now left|right; apply in_app_iff; now right].
    Qed.

    (* A node has been executed or is scheduled for the coming step EXACTLY WHEN it is triggered: its channel
       is not skipped and every control and data predecessor has been resolved or is skipped. *)
    Lemma runs_iff_triggered_LT ls Rv t :
      LT ls Rv ->
      (executed ls t \/ scheduled ls t) <-> triggered ls Rv t.
    Proof.
      intros Hr. destruct Hr as (X & G & HL & HE & HG & HNR & HV & Hins & HS & HK).
      pose proof HL as (HI & Ho & Hnd & Hperm & _ & _ & _ & Hlog).
      pose proof (LT_G_iff ls Rv X G t HL Hlog) as HGiff.
      assert (HstartG : In kSTART G) by (apply (Permutation_in _ (Permutation_sym Hperm)); now left).
      assert (Hnostart : ~ (executed ls kSTART \/ scheduled ls kSTART)).
      { intros H. pose proof (Permutation_NoDup Hperm Hnd) as Hnd2. inversion Hnd2 as [|? ? Hnot _]; subst.
        apply Hnot. unfold executed, scheduled in H. rewrite Hlog in H. apply in_app_iff.
        destruct H as [H|H]; [left|now right].
        apply in_map_iff in H. destruct H as (k & E & Hk). apply app_inv_head in E. injection E as <-. assumption. }
      split.
      - intros H.
        assert (Hne : t <> kSTART) by (intros ->; contradiction).
        assert (HtG : In t G) by (apply HGiff; tauto).
        destruct (inv_B _ _ _ _ _ _ HI t HtG Hne) as (c & E & S & _ & _ & Q).
        exists c. split; [assumption|]. split; [assumption|].
        intros q Hq. destruct (Q q Hq) as [?|[? _]]; [now left|now right].
      - intros (c & E & S & Q).
        destruct (in_dec N.eq_dec t G) as [HtG|HtnG].
        + apply HGiff in HtG. destruct HtG as [->|H]; [|assumption].
          rewrite (start_no_chan _ _ _ _ _ _ HI) in E. discriminate.
        + exfalso.
          pose proof (inv_wf _ _ _ _ _ _ HI) as (_ & _ & Hall). pose proof (Hall t c E) as Hcwf.
          pose proof Hcwf as (Hok & Hcw & Hdw).
          assert (HLv : live V (ls_chans V St ls) G t c) by (split; [assumption|split; assumption]).
          assert (Hrdy : dag_ready V c = true).
          { apply dag_ready_iff; [assumption|]. split; [assumption|]. split.
            - intros q d Eq Hd. subst d.
              assert (Hq : In q (cpreds g t)) by (apply Hcw; rewrite Eq; discriminate).
              destruct (Q q (or_introl Hq)) as [Hres|Hsk].
              + unfold resolved, akeys in Hres. apply in_map_iff in Hres. destruct Hres as ([q' out] & <- & Hin). simpl in *.
                destruct (gw_node _ _ _ _ _ _ HG q' out (proj2 (in_app_iff _ _ _) (or_introl Hin))) as (n & sel & sk & Hf & _).
                destruct (e_c1 _ _ _ _ _ _ _ _ HE t c q' out n HLv Hq Hin Hf) as [A B].
                destruct (routes_c_dec n out t) as [Hy|Hn]; [rewrite (A Hy) in Eq|rewrite (B Hn) in Eq]; discriminate.
              + rewrite (e_c3 _ _ _ _ _ _ _ _ HE t c q HLv Hq Hsk (fun F => F)) in Eq. discriminate.
            - intros q b Eq.
              assert (Hq : In q (dpreds g t)) by (apply Hdw; rewrite Eq; discriminate).
              destruct (Q q (or_intror Hq)) as [Hres|Hsk].
              + rewrite (e_d1 _ _ _ _ _ _ _ _ HE t c q HLv Hq Hres) in Eq. congruence.
              + rewrite (e_d3 _ _ _ _ _ _ _ _ HE t c q HLv Hq Hsk (fun F => F)) in Eq. congruence. }
          rewrite (HNR t c E HtnG) in Hrdy. discriminate.
    Qed.

    Theorem runs_iff_triggered x s0 ls Rv t :
      reach x s0 ls Rv ->
      (executed ls t \/ scheduled ls t) <-> triggered ls Rv t.
    Proof. intros Hr. pose proof (reach_LT x s0 ls Rv Hr) as HLT. revert HLT. apply runs_iff_triggered_LT. Qed.

    (* ... and then at least one control predecessor actually routed control to it (direct control edge or
       selected by one of its branches) *)
    Lemma routed_when_run_LT ls Rv t :
      LT ls Rv -> (executed ls t \/ scheduled ls t) -> cpreds g t <> [] ->
      exists q, In q (cpreds g t) /\ routed_c Rv q t.
    Proof.
      intros Hr H Hcp. destruct Hr as (X & G & HL & HE & HG & HNR & HV & Hins & HS & HK).
      pose proof HL as (HI & Ho & Hnd & Hperm & _ & _ & _ & Hlog).
      pose proof (LT_G_iff ls Rv X G t HL Hlog) as HGiff.
      assert (HtG : In t G) by (apply HGiff; tauto).
      assert (Hne : t <> kSTART).
      { intros ->. pose proof (Permutation_NoDup Hperm Hnd) as Hnd2. inversion Hnd2 as [|? ? Hnot _]; subst.
        apply Hnot. unfold executed, scheduled in H. rewrite Hlog in H. apply in_app_iff.
        destruct H as [H|H]; [left|now right].
        apply in_map_iff in H. destruct H as (k & E & Hk). apply app_inv_head in E. injection E as <-. assumption. }
      destruct (e_E _ _ _ _ _ _ _ _ HE t HtG Hne Hcp) as (q & out & n & A & B & C & D).
      exists q. split; [assumption|]. exists out, n. auto.
    Qed.

    Theorem routed_when_run x s0 ls Rv t :
      reach x s0 ls Rv -> (executed ls t \/ scheduled ls t) -> cpreds g t <> [] ->
      exists q, In q (cpreds g t) /\ routed_c Rv q t.
    Proof. intros Hr. pose proof (reach_LT x s0 ls Rv Hr) as HLT. revert HLT. apply routed_when_run_LT. Qed.

    (* Otherwise it is skipped: a node with control predecessors, all of them finished or skipped and none
       of them having routed control to it, is skipped. *)
    Lemma skipped_when_none_routed_LT ls Rv t c :
      LT ls Rv -> alookup t (ls_chans V St ls) = Some c -> cpreds g t <> [] ->
      (forall q, In q (cpreds g t) -> resolved Rv q \/ skipped (ls_chans V St ls) q) ->
      (forall q, In q (cpreds g t) -> ~ routed_c Rv q t) ->
      c_skipped V c = true.
    Proof.
      intros Hr E Hcp Hall Hnone. destruct Hr as (X & G & HL & HE & HG & HNR & HV & Hins & HS & HK).
      pose proof HL as (HI & Ho & Hnd & Hperm & _ & _ & _ & Hlog).
      destruct (c_skipped V c) eqn:S; [reflexivity|]. exfalso.
      assert (Hne : t <> kSTART) by (intros ->; rewrite (start_no_chan _ _ _ _ _ _ HI) in E; discriminate).
      destruct (in_dec N.eq_dec t G) as [HtG|HtnG].
      - destruct (e_E _ _ _ _ _ _ _ _ HE t HtG Hne Hcp) as (q & out & n & A & B & C & D).
        apply (Hnone q A). exists out, n. auto.
      - pose proof (inv_wf _ _ _ _ _ _ HI) as (_ & _ & Hwf). pose proof (Hwf t c E) as ((Hcc & _) & Hcw & _).
        assert (HLv : live V (ls_chans V St ls) G t c) by (split; [assumption|split; assumption]).
        pose proof (e_sk _ _ _ _ _ _ _ _ HE t c E Hcp) as Hsk. rewrite S in Hsk. symmetry in Hsk.
        destruct (all_skipped_false_ex _ Hcc Hsk) as (q & d & El & Hd).
        change (alookup q (c_ctrl V c)) with (ctrl_st V c q) in El.
        assert (Hq : In q (cpreds g t)) by (apply Hcw; rewrite El; discriminate).
        destruct (Hall q Hq) as [Hres|Hs].
        + unfold resolved, akeys in Hres. apply in_map_iff in Hres. destruct Hres as ([q' out] & <- & Hin). simpl in *.
          destruct (gw_node _ _ _ _ _ _ HG q' out (proj2 (in_app_iff _ _ _) (or_introl Hin))) as (n & sel & sk & Hf & _).
          destruct (e_c1 _ _ _ _ _ _ _ _ HE t c q' out n HLv Hq Hin Hf) as [_ B].
          assert (Hnr : ~ routes_c V ops n out t).
          { intros Hy. apply (Hnone q' Hq). exists out, n. auto. }
          rewrite (B Hnr) in El. congruence.
        + rewrite (e_c3 _ _ _ _ _ _ _ _ HE t c q HLv Hq Hs (fun F => F)) in El. congruence.
    Qed.

    Theorem skipped_when_none_routed x s0 ls Rv t c :
      reach x s0 ls Rv -> alookup t (ls_chans V St ls) = Some c -> cpreds g t <> [] ->
      (forall q, In q (cpreds g t) -> resolved Rv q \/ skipped (ls_chans V St ls) q) ->
      (forall q, In q (cpreds g t) -> ~ routed_c Rv q t) ->
      c_skipped V c = true.
    Proof. intros Hr. pose proof (reach_LT x s0 ls Rv Hr) as HLT. revert HLT. apply skipped_when_none_routed_LT. Qed.

    (* the skip propagates: a node all of whose control predecessors are skipped is skipped *)
    Lemma skip_propagates_LT ls Rv t c :
      LT ls Rv -> alookup t (ls_chans V St ls) = Some c -> cpreds g t <> [] ->
      (forall q, In q (cpreds g t) -> skipped (ls_chans V St ls) q) ->
      c_skipped V c = true.
    Proof.
      intros Hr E Hcp Hall. eapply skipped_when_none_routed_LT; try eassumption.
      - intros q Hq. right. now apply Hall.
      - intros q Hq (out & n & Hin & _).
        destruct Hr as (X & G & HL & HE & HG & HNR & HV & Hins & HS & HK). pose proof HL as (HI & _).
        eapply skipped_not_resolved; [exact HI|exact HG|exact (Hall q Hq)|].
        unfold akeys. now apply (in_map fst) in Hin.
    Qed.

    Theorem skip_propagates x s0 ls Rv t c :
      reach x s0 ls Rv -> alookup t (ls_chans V St ls) = Some c -> cpreds g t <> [] ->
      (forall q, In q (cpreds g t) -> skipped (ls_chans V St ls) q) ->
      c_skipped V c = true.
    Proof. intros Hr. pose proof (reach_LT x s0 ls Rv Hr) as HLT. revert HLT. apply skip_propagates_LT. Qed.

    (* a skipped node has not run and is not scheduled *)
    Lemma skipped_never_runs_LT ls Rv t :
      LT ls Rv -> skipped (ls_chans V St ls) t -> ~ (executed ls t \/ scheduled ls t).
    Proof.
      intros Hr Hs H. destruct Hr as (X & G & HL & HE & HG & HNR & HV & Hins & HS & HK).
      pose proof HL as (HI & Ho & Hnd & Hperm & _ & _ & _ & Hlog).
      apply (gotten_not_skipped _ _ _ _ _ _ t HI); [|assumption].
      apply (LT_G_iff ls Rv X G t HL Hlog). tauto.
    Qed.

    Theorem skipped_never_runs x s0 ls Rv t :
      reach x s0 ls Rv -> skipped (ls_chans V St ls) t -> ~ (executed ls t \/ scheduled ls t).
    Proof. intros Hr. pose proof (reach_LT x s0 ls Rv Hr) as HLT. revert HLT. apply skipped_never_runs_LT. Qed.

    (* a node without any predecessor (no edge or branch leads to it) is skipped from the start: F-C02 *)
    Lemma orphan_skipped_LT ls Rv t c :
      LT ls Rv -> alookup t (ls_chans V St ls) = Some c -> t <> kEND ->
      cpreds g t = [] -> dpreds g t = [] -> c_skipped V c = true.
    Proof.
      intros Hr E Hne Hc Hd. destruct Hr as (X & G & HL & _).
      destruct HL as (_ & Ho & _). apply (Ho t c Hne E). intros q [Hq|Hq]; [rewrite Hc in Hq|rewrite Hd in Hq]; destruct Hq.
    Qed.

    Theorem orphan_skipped x s0 ls Rv t c :
      reach x s0 ls Rv -> alookup t (ls_chans V St ls) = Some c -> t <> kEND ->
      cpreds g t = [] -> dpreds g t = [] -> c_skipped V c = true.
    Proof. intros Hr. pose proof (reach_LT x s0 ls Rv Hr) as HLT. revert HLT. apply orphan_skipped_LT. Qed.

    (* Soundness of skips: a skipped node with control predecessors was routed to by none of them (each is
       skipped itself, or was resolved with an output that leaves the node unselected and has no direct
       control edge to it) *)
    Lemma skipped_none_routed_LT ls Rv t c :
      LT ls Rv -> alookup t (ls_chans V St ls) = Some c -> c_skipped V c = true -> cpreds g t <> [] ->
      forall q, In q (cpreds g t) -> ~ routed_c Rv q t.
    Proof.
      intros Hr E S Hcp q Hq (out' & n' & Hin' & Hf' & Hrt).
      destruct Hr as (X & G & HL & HE & HG & HNR & HV & Hins & HS & HK).
      pose proof HL as (HI & _).
      pose proof (inv_wf _ _ _ _ _ _ HI) as (_ & _ & Hwf). destruct (Hwf t c E) as ((Hcc & _) & Hcw & _).
      pose proof (inv_skc _ _ _ _ _ _ HI t c E S) as Hall. rewrite (all_skipped_iff _ Hcc) in Hall.
      assert (Hent : ctrl_st V c q = Some Skipped).
      { apply Hcw in Hq. destruct (ctrl_st V c q) as [d|] eqn:Ed; [|congruence]. f_equal. eapply Hall. exact Ed. }
      destruct (s_c _ _ _ _ _ HS t c q E Hent) as [Hs|(out & n & Hin & Hf & Hskl)].
      - eapply skipped_not_resolved; [exact HI|exact HG|exact Hs|]. unfold akeys. now apply (in_map fst) in Hin'.
      - assert (out' = out) by (eapply GW_unique; [exact HG| |]; apply in_app_iff; left; eassumption).
        subst out'. rewrite Hf in Hf'. injection Hf' as <-.
        destruct (gw_node _ _ _ _ _ _ HG q out (proj2 (in_app_iff _ _ _) (or_introl Hin))) as (n2 & sel & sk & Hf2 & Hev).
        rewrite Hf in Hf2. injection Hf2 as <-.
        destruct (sel_skl_of V ops n out sel sk Hev) as [Es Ek]. rewrite Ek in Hskl.
        destruct Hrt as [Hc|Hs].
        + eapply eval_branches_skipped_csucc; eassumption.
        + rewrite Es in Hs. destruct (eval_branches_skipped V ops n out sel sk t Hev Hskl) as [_ Hns]. contradiction.
    Qed.

    Theorem skipped_none_routed x s0 ls Rv t c :
      reach x s0 ls Rv -> alookup t (ls_chans V St ls) = Some c -> c_skipped V c = true -> cpreds g t <> [] ->
      forall q, In q (cpreds g t) -> ~ routed_c Rv q t.
    Proof. intros Hr. pose proof (reach_LT x s0 ls Rv Hr) as HLT. revert HLT. apply skipped_none_routed_LT. Qed.

    (* a skipped node without control predecessors has no predecessor at all or a skipped data predecessor *)
    Lemma skipped_data_only_LT ls Rv t c :
      LT ls Rv -> alookup t (ls_chans V St ls) = Some c -> c_skipped V c = true -> cpreds g t = [] ->
      dpreds g t = [] \/ exists q, In q (dpreds g t) /\ skipped (ls_chans V St ls) q.
    Proof.
      intros Hr E S Hcp. destruct Hr as (X & G & HL & HE & HG & HNR & HV & Hins & HS & HK).
      exact (s_k _ _ _ _ _ HS t c E S Hcp).
    Qed.

    Theorem skipped_data_only x s0 ls Rv t c :
      reach x s0 ls Rv -> alookup t (ls_chans V St ls) = Some c -> c_skipped V c = true -> cpreds g t = [] ->
      dpreds g t = [] \/ exists q, In q (dpreds g t) /\ skipped (ls_chans V St ls) q.
    Proof. intros Hr. pose proof (reach_LT x s0 ls Rv Hr) as HLT. revert HLT. apply skipped_data_only_LT. Qed.

    (* ... and conversely a skipped data predecessor skips a node that has no control predecessor *)
    Lemma skip_propagates_data_LT ls Rv t c q :
      LT ls Rv -> alookup t (ls_chans V St ls) = Some c -> cpreds g t = [] -> In q (dpreds g t) ->
      skipped (ls_chans V St ls) q -> c_skipped V c = true.
    Proof.
      intros Hr E Hc Hq Hs. destruct Hr as (X & G & HL & HE & HG & HNR & HV & Hins & HS & HK).
      exact (HK t c q E Hc Hq Hs (fun F => F)).
    Qed.

    Theorem skip_propagates_data x s0 ls Rv t c q :
      reach x s0 ls Rv -> alookup t (ls_chans V St ls) = Some c -> cpreds g t = [] -> In q (dpreds g t) ->
      skipped (ls_chans V St ls) q -> c_skipped V c = true.
    Proof. intros Hr. pose proof (reach_LT x s0 ls Rv Hr) as HLT. revert HLT. apply skip_propagates_data_LT. Qed.

    (* once all control predecessors are finished or skipped: skipped <=> none of them routed to the node *)
    Lemma skipped_iff_none_routed_LT ls Rv t c :
      LT ls Rv -> alookup t (ls_chans V St ls) = Some c -> cpreds g t <> [] ->
      (forall q, In q (cpreds g t) -> resolved Rv q \/ skipped (ls_chans V St ls) q) ->
      (c_skipped V c = true <-> forall q, In q (cpreds g t) -> ~ routed_c Rv q t).
    Proof.
      intros Hr E Hcp Hall. split.
      - intros S. eapply skipped_none_routed_LT; eassumption.
      - intros Hnone. eapply skipped_when_none_routed_LT; eassumption.
    Qed.

    Theorem skipped_iff_none_routed x s0 ls Rv t c :
      reach x s0 ls Rv -> alookup t (ls_chans V St ls) = Some c -> cpreds g t <> [] ->
      (forall q, In q (cpreds g t) -> resolved Rv q \/ skipped (ls_chans V St ls) q) ->
      (c_skipped V c = true <-> forall q, In q (cpreds g t) -> ~ routed_c Rv q t).
    Proof. intros Hr. pose proof (reach_LT x s0 ls Rv Hr) as HLT. revert HLT. apply skipped_iff_none_routed_LT. Qed.

    (* ================= the input of a node, and the result ================= *)
    Definition own_events (l : log V) : list (path * V) := List.concat (log_steps_at V p l).

    Lemma own_events_app l1 l2 : own_events (l1 ++ l2) = own_events l1 ++ own_events l2.
    Proof. unfold own_events, log_steps_at. now rewrite filter_app, map_app, concat_app. Qed.

    Lemma own_events_foreign l : Forall (fun e : logentry V => fst e <> p) l -> own_events l = [].
    Proof.
      unfold own_events, log_steps_at. induction 1 as [|e l He _ IH]; simpl; [reflexivity|].
      match goal with |- context [list_eq_dec ?a ?b ?c] => destruct (list_eq_dec a b c) end; [contradiction|exact IH].
    Qed.

    Lemma own_events_next ls :
      own_events (next_entry V St p ls) = map (fun kv => (p ++ [fst kv], snd kv)) (ls_next V St ls).
    Proof.
      unfold next_entry. destruct (ls_next V St ls) as [|a l] eqn:En; [reflexivity|].
      unfold own_events, log_steps_at, step_entry. simpl.
      match goal with |- context [list_eq_dec ?a ?b ?c] => destruct (list_eq_dec a b c) end; [|contradiction].
      simpl. now rewrite app_nil_r.
    Qed.

    (* the tasks the next iteration submits: each gets the merge of the outputs of exactly those data
       predecessors that were resolved and routed data to it (the zero value when there are none), passed
       through the field-mapping converter when the node has mapped inputs *)
    Lemma scheduled_input_LT ls Rv t w :
      LT ls Rv -> alookup t (ls_next V St ls) = Some w -> input_spec Rv t w.
    Proof.
      intros Hr. destruct Hr as (X & G & _ & _ & _ & _ & _ & Hins & _). apply Hins.
    Qed.

    Theorem scheduled_input x s0 ls Rv t w :
      reach x s0 ls Rv -> alookup t (ls_next V St ls) = Some w -> input_spec Rv t w.
    Proof. intros Hr. pose proof (reach_LT x s0 ls Rv Hr) as HLT. revert HLT. apply scheduled_input_LT. Qed.

    Lemma ls_next_sorted x s0 ls Rv : reach x s0 ls Rv -> NoDup (akeys (ls_next V St ls)).
    Proof.
      intros Hr. destruct (reach_LT x s0 ls Rv Hr) as (X & G & HL & _).
      destruct HL as (_ & _ & _ & _ & Hnd & _). now apply NoDup_app_inv in Hnd.
    Qed.

    Lemma nodup_in_alookup {A} (l : list (key * A)) k a : NoDup (akeys l) -> In (k, a) l -> alookup k l = Some a.
    Proof.
      unfold akeys. induction l as [|[k0 a0] l IH]; simpl; [intros _ []|].
      intros Hnd [[= -> ->]|Hin]; [now rewrite N.eqb_refl|].
      inversion Hnd as [|? ? Hn Hnd']; subst.
      destruct (N.eqb k k0) eqn:E; [|now apply IH].
      apply N.eqb_eq in E. subst. exfalso. apply Hn. now apply (in_map fst) in Hin.
    Qed.

    (* every execution recorded in the log of the instance was given such an input, with respect to the
       record of the tasks resolved up to the moment it was scheduled *)
    Theorem executed_input x s0 ls Rv :
      reach x s0 ls Rv ->
      forall t w, In (p ++ [t], w) (own_events (ls_log V St ls)) ->
      exists Rv' more, Rv = Rv' ++ more /\ input_spec Rv' t w.
    Proof.
      induction 1 as [cs0 cs1 ready Hi Hc Hend|ls Rv ls' Hr IH Hstep]; intros t w Hin.
      - exfalso. cbn [init_state ls_log] in Hin. unfold own_events, log_steps_at, run_marker in Hin. simpl in Hin.
        match type of Hin with context [list_eq_dec ?a ?b ?c] => destruct (list_eq_dec a b c) end; simpl in Hin; exact Hin.
      - destruct (step_continue_unfold V St ops g Hdag exec sub sched p ls ls' Hstep)
          as (results & sublog & s' & completed & running' & cs' & ready & Es & Ew & Ecn & Eend & Eso & ->).
        destruct (submit_spec V St ops g exec sub p _ Hsub _ _ _ _ _ Es) as [_ Hsl].
        cbn [ls_log] in Hin. rewrite !own_events_app, (own_events_foreign sublog Hsl), app_nil_r, own_events_next in Hin.
        apply in_app_iff in Hin. destruct Hin as [Hin|Hin].
        + destruct (IH t w Hin) as (Rv' & more & -> & Hsp).
          exists Rv', (more ++ step_outputs ls). split; [now rewrite app_assoc|assumption].
        + apply in_map_iff in Hin. destruct Hin as ([k v] & E & Hkv). simpl in E.
          injection E as E1 E2. apply app_inv_head in E1. injection E1 as <-. subst v.
          exists Rv, (step_outputs ls). split; [reflexivity|].
          eapply scheduled_input; [exact Hr|]. apply nodup_in_alookup; [eapply ls_next_sorted; eassumption|assumption].
    Qed.

    (* the value assembled for END is the result of the run *)
    Theorem done_result x s0 ls Rv v lg s' :
      reach x s0 ls Rv -> step ls = Finish (Done v lg) s' ->
      input_spec (Rv ++ step_outputs ls) kEND v.
    Proof.
      intros Hr Hstep. destruct (reach_LT x s0 ls Rv Hr) as (X & G & HL & HE & HG & HNR & HV & _ & _ & _).
      destruct (step_done_unfold V St ops g Hdag exec sub sched p ls v lg s' Hstep)
        as (results & sublog & completed & running' & cs' & ready & Es & Ew & Ecn & Eend & Eso & _).
      destruct (step_completed_pre V St ops g exec sub sched p Hsub ls (akeys Rv) X G _ _ _ _ _ HL Es Ew) as (HndCo & Hpre).
      pose proof HL as (HI & Ho & Hnd & _).
      destruct (calc_next_EV V ops g Hdag Hnk _ (akeys Rv) Rv G _ cs' ready HI Ho Hnd HE HG HV HndCo Hpre Ecn) as (_ & Hin1).
      rewrite Eso. now apply Hin1.
    Qed.

    (* the state after the last calc_next of a successful run satisfies the same invariant (END has a
       predecessor, as in every graph that compiles), so every theorem above also holds of it *)
    Lemma done_LT x s0 ls Rv v lg s' :
      (exists q, gpred g kEND q) -> reach x s0 ls Rv -> step ls = Finish (Done v lg) s' ->
      exists ls', LT ls' (Rv ++ step_outputs ls) /\ alookup kEND (ls_next V St ls') = Some v.
    Proof.
      intros Hend Hr Hstep.
      destruct (step_done_unfold V St ops g Hdag exec sub sched p ls v lg s' Hstep)
        as (results & sublog & completed & running' & cs' & ready & Es & Ew & Ecn & Eend & Eso & _).
      eexists. split; [rewrite Eso; eapply LT_step; [exact (reach_LT x s0 ls Rv Hr)|exact Es|exact Ew|exact Ecn|now right]|].
      exact Eend.
    Qed.

    (* the outcome of run_flat is produced by a reachable state (or the run ends before the loop starts) *)
    Lemma run_flat_reach x s cs0 cs1 ready o s' :
      init_chans V g = Ok cs0 -> calc_next V ops g cs0 [(kSTART, x)] = Ok (cs1, ready) -> alookup kEND ready = None ->
      run_flat V St ops exec sub sched p g x s = (o, s') ->
      exists ls Rv, reach x s ls Rv
        /\ (step ls = Finish o s' \/ (o = Fail [mkerr eLoopFuel] (ls_log V St ls) /\ s' = ls_st V St ls)).
    Proof.
      intros Hi Hc Hend. unfold run_flat. rewrite Hi, Hc, Hend. intros Hit.
      eapply iterate_reach; [|exact Hit]. eapply reach_init; eassumption.
    Qed.
  End Run.
End DagTrigLoop.
