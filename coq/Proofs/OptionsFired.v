(* Proofs/OptionsFired.v — property C16: the exact handler list of every node *)
From Eino Require Import Base.Util Model.Options Model.OptionsSpec Proofs.Options.
Local Open Scope N_scope.

(* the handler list of the node at path [p] below a graph entered with handlers [inh] and options
   [opts]: a function of the options and the path alone *)
Fixpoint spec_fired (inh : list N) (opts : list copt) (p : path) : list N :=
  match p with
  | [] => inh
  | k :: rest => spec_fired (inh ++ node_handlers k opts) (flat_map (sub_opts k) opts) rest
  end.

Lemma run_graph_fired_exact fuel : forall F gi pre inh opts rs,
  keys_unique F -> run_graph fuel F gi pre inh opts = Ok rs ->
  forall r, In r rs ->
  exists p', p' <> [] /\ r_path r = pre ++ p' /\
    forall hs, r_fired r = Some hs -> hs = spec_fired inh opts p'.
Proof.
  induction fuel as [|f IH]; intros F gi pre inh opts rs HU H r Hr; [discriminate|].
  rewrite run_graph_S in H.
  destruct (nth_error F gi) as [g|] eqn:Hg; [|discriminate].
  apply res_bind_ok in H. destruct H as [m [Hv H]].
  destruct (validate_inv _ _ _ _ _ Hv) as [f' [g' [Hf' [Hg' [Hm _]]]]].
  rewrite Hg in Hg'. inversion Hg'; subst g'. clear Hg' Hf' f'.
  destruct (flat_mapM_in _ _ _ _ H Hr) as [nd [o [Hin [Ho Hro]]]].
  unfold node_run in Ho.
  destruct (n_runs nd) eqn:Hruns; simpl in Ho; [|inversion Ho; subst; contradiction].
  destruct (n_kind nd) as [ty|gj] eqn:Hk.
  - apply res_bind_ok in Ho. destruct Ho as [its [Hits Ho]]. inversion Ho; subst o. clear Ho.
    destruct Hro as [<-|[]]. simpl. exists [n_key nd]. split; [discriminate|]. split; [reflexivity|].
    intros hs Hhs. destruct (n_cb nd); [|discriminate]. inversion Hhs; subst hs. reflexivity.
  - apply res_bind_ok in Ho. destruct Ho as [os [Hos Ho]].
    apply res_bind_ok in Ho. destruct Ho as [rs' [Hrs' Ho]]. inversion Ho; subst o. clear Ho.
    rewrite (node_slice_sub F gi g nd gj opts m HU Hg Hin Hk Hm), convert_opts_map in Hos.
    inversion Hos; subst os. clear Hos.
    destruct Hro as [<-|Hro].
    + simpl. exists [n_key nd]. split; [discriminate|]. split; [reflexivity|].
      intros hs Hhs. inversion Hhs; subst hs. reflexivity.
    + destruct (IH _ _ _ _ _ _ HU Hrs' r Hro) as [p'' [Hne [Hp Hfired]]].
      exists (n_key nd :: p''). split; [discriminate|]. split; [rewrite Hp, <- app_assoc; reflexivity|].
      intros hs Hhs. simpl. apply Hfired. exact Hhs.
Qed.

Lemma run_call_fired_exact F opts rs r hs :
  keys_unique F -> run_call F opts = Ok rs -> In r rs -> r_fired r = Some hs ->
  hs = spec_fired (graph_handlers opts) opts (r_path r).
Proof.
  intros HU H Hr Hhs. destruct (run_call_inv _ _ _ H) as [rs' [Hrs' ->]].
  destruct Hr as [<-|Hr].
  - simpl in *. inversion Hhs. reflexivity.
  - destruct (run_graph_fired_exact _ _ _ _ _ _ _ HU Hrs' r Hr) as [p' [_ [Hp Hf]]].
    simpl in Hp. rewrite Hp. apply Hf. exact Hhs.
Qed.
