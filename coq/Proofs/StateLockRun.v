(* Proofs/StateLockRun.v — C11: a handler never works on another run's state, at any time in
   the past: all critical sections ever logged on one state object were performed by graph
   instances of one and the same run (the run of the instance the object was made for).
   fresh_state_per_run_and_nesting says who sees an object NOW; this is the statement about
   the whole log, across resumes. For every interleaving of Model/StateLockLTS.v. *)
From Eino Require Import Base.Util Model.StateLock Model.StateLockLTS
  Proofs.StateLockLTS Proofs.StateLockVal Proofs.StateLockOwn.
From Coq Require Import Lia.

Section RunIsolation.
  Variables (S X : Type).
  Variable gen : nat -> S.
  Variable hfun : kind -> N -> X -> S -> X * S.
  Variable lout : N -> X -> X.
  Variable mrg : list X -> X.
  Variable f : forest.
  Variable x0 : X.

  Notation config := (config S X).
  Notation inst := (inst S X).
  Notation pstep := (pstep S X gen hfun lout mrg f x0).
  Notation preach := (preach S X gen hfun lout mrg f x0).
  Notation new_inst := (new_inst S X gen).

  Ltac inv H := inversion H; subst; clear H.

  Definition runs_of (c : config) : list N := map (@i_run S X) (c_insts c).
  Definition owners_of (c : config) : list nat := map (@o_inst S) (c_objs c).
  Definition pairs_of (c : config) : list (nat * nat) := map (fun e => (t_obj e, t_inst e)) (c_trace c).

  (* every logged (object, instance): the instance the object was made for and the instance
     that performed the section belong to the same run *)
  Definition trs (R : list N) (O : list nat) (T : list (nat * nat)) : Prop :=
    forall o i, In (o, i) T -> exists k r, nth_error O o = Some k /\ nth_error R k = Some r /\ nth_error R i = Some r.

  Definition trs_inv (c : config) : Prop := trs (runs_of c) (owners_of c) (pairs_of c).

  Lemma trs_grow : forall R O T R' O', trs R O T -> trs (R ++ R') (O ++ O') T.
  Proof.
    intros R O T R' O' H o i Hin. destruct (H o i Hin) as (k & r & H1 & H2 & H3).
    exists k, r. repeat split.
    - rewrite nth_error_app1; auto. eapply nth_some_lt; eauto.
    - rewrite nth_error_app1; auto. eapply nth_some_lt; eauto.
    - rewrite nth_error_app1; auto. eapply nth_some_lt; eauto.
  Qed.

  Lemma runs_moved : forall (c : config) i J J', nth_error (c_insts c) i = Some J -> i_run J' = i_run J ->
    map (@i_run S X) (upd (c_insts c) i J') = runs_of c.
  Proof. intros. unfold runs_of. eapply map_upd_same; eauto. Qed.

  Lemma owners_upd : forall (c : config) o r r', nth_error (c_objs c) o = Some r -> o_inst r' = o_inst r ->
    map (@o_inst S) (upd (c_objs c) o r') = owners_of c.
  Proof. intros. unfold owners_of. eapply map_upd_same; eauto. Qed.

  Lemma runs_new_inst : forall c r g G par inh x,
    runs_of (new_inst c r g G par inh x) = runs_of c ++ [r].
  Proof.
    intros. unfold runs_of, StateLockLTS.new_inst. destruct (g_state G); simpl; rewrite map_app; reflexivity.
  Qed.

  Lemma owners_new_inst : forall c r g G par inh x,
    owners_of (new_inst c r g G par inh x) =
    owners_of c ++ (if g_state G then [List.length (c_insts c)] else []).
  Proof.
    intros. unfold owners_of, StateLockLTS.new_inst. destruct (g_state G); simpl.
    - rewrite map_app. reflexivity.
    - rewrite app_nil_r. reflexivity.
  Qed.

  Lemma pairs_new_inst : forall c r g G par inh x, pairs_of (new_inst c r g G par inh x) = pairs_of c.
  Proof. intros. unfold pairs_of. rewrite new_inst_trace. reflexivity. Qed.

  Lemma trs_new_inst : forall c r g G par inh x, trs_inv c -> trs_inv (new_inst c r g G par inh x).
  Proof.
    intros. unfold trs_inv. rewrite runs_new_inst, owners_new_inst, pairs_new_inst. apply trs_grow. auto.
  Qed.

  Lemma trs_step : forall c ch c', obj_bound S X c -> own_inv S X f c -> trs_inv c -> pstep c ch = Some c' -> trs_inv c'.
  Proof.
    intros c ch c' Hb Hown IH H. destruct ch as [r|i n|i n|i n|i n|i n|o m].
    - apply pstep_start_inv in H. destruct H as (G & HG & ->). apply trs_new_inst; auto.
    - apply pstep_acq_inv in H. destruct H as (J & a & p & k & x & o & r & El & Ek & Ex & Eo & Er & Eh & ->).
      apply lookup_inv in El. destruct El as (Ei & _).
      unfold trs_inv, runs_of, owners_of, pairs_of. simpl.
      rewrite (runs_moved c i J _ Ei) by reflexivity. rewrite (owners_upd c o r) by auto. exact IH.
    - apply pstep_load_inv in H. destruct H as (J & a & p & o & r & El & Eo & Er & ->).
      apply lookup_inv in El. destruct El as (Ei & _).
      unfold trs_inv, runs_of, owners_of, pairs_of. simpl.
      rewrite (runs_moved c i J _ Ei) by reflexivity. exact IH.
    - apply pstep_store_inv in H.
      destruct H as (J & a & p & l & k & x & o & r & x' & s' & El & Ek & Ex & Eo & Er & Eh & ->).
      apply lookup_inv in El. destruct El as (Ei & _).
      unfold trs_inv, runs_of, owners_of, pairs_of. simpl.
      rewrite (runs_moved c i J _ Ei) by reflexivity. rewrite (owners_upd c o r) by auto.
      rewrite map_app. simpl. intros o1 i1 Hin. apply in_app_or in Hin. destruct Hin as [Hin|[Hin|[]]].
      + apply IH. exact Hin.
      + inv Hin.
        destruct Hown as (_ & _ & _ & H4 & _).
        pose proof (iskel_nth S X c i1 J Ei) as Hsk. unfold static_of in Hsk. rewrite Eo in Hsk.
        destruct (H4 _ _ _ _ _ Hsk) as (k1 & gk & pk & HO & HI & _).
        exists k1, (i_run J). repeat split.
        * exact HO.
        * destruct (iskel_inv S X c k1 _ HI) as (K & HK & Hst). unfold static_of in Hst. inv Hst.
          unfold runs_of. rewrite nth_error_map, HK. simpl. congruence.
        * unfold runs_of. rewrite nth_error_map, Ei. reflexivity.
    - apply pstep_rel_inv in H. destruct H as (J & a & p & o & r & q & El & Eo & Er & ->).
      apply lookup_inv in El. destruct El as (Ei & _).
      unfold trs_inv, runs_of, owners_of, pairs_of. simpl.
      rewrite (runs_moved c i J _ Ei) by reflexivity. rewrite (owners_upd c o r) by auto. exact IH.
    - apply pstep_adv_inv in H. destruct H as (J & a & p & El & En & [(p' & q & _ & ->)|(x & g & G & -> & Es & EG & ->)]).
      + apply lookup_inv in El. destruct El as (Ei & _).
        unfold trs_inv, runs_of, owners_of, pairs_of. simpl.
        rewrite (runs_moved c i J _ Ei) by reflexivity. exact IH.
      + apply lookup_inv in El. destruct El as (Ei & _).
        set (c1 := new_inst c (i_run J) g G (Some i) (i_obj J) x).
        assert (Ei' : nth_error (c_insts c1) i = Some J).
        { unfold c1, StateLockLTS.new_inst. destruct (g_state G); simpl; rewrite nth_error_app1; auto; eapply nth_some_lt; eauto. }
        assert (H1 : trs_inv c1) by (apply trs_new_inst; auto).
        unfold trs_inv, runs_of, owners_of, pairs_of. simpl.
        rewrite (runs_moved c1 i J _ Ei') by reflexivity. exact H1.
    - apply pstep_resume_inv in H. destruct H as (r & Er & Eh & ->).
      unfold trs_inv, runs_of, owners_of, pairs_of, resumed. simpl.
      rewrite map_map.
      rewrite (map_ext _ (@i_run S X)) by (intro J; destruct (remap_static S X o (List.length (c_objs c)) J) as (H1 & _); exact H1).
      rewrite map_app. simpl.
      replace (map (@i_run S X) (c_insts c)) with (runs_of c ++ []) by (rewrite app_nil_r; reflexivity).
      apply trs_grow. exact IH.
  Qed.

  Lemma trs_reach : forall c, preach c -> trs_inv c.
  Proof.
    induction 1.
    - intros o i Hin. inversion Hin.
    - eapply trs_step; eauto.
      + apply (inv_val_reach S X gen hfun lout mrg f x0 c H).
      + apply (own_reach S X gen hfun lout mrg f x0 c H).
  Qed.

  Theorem one_run_per_object_preach : forall c, preach c ->
    forall e1 e2, In e1 (c_trace c) -> In e2 (c_trace c) -> t_obj e1 = t_obj e2 ->
      exists J1 J2, nth_error (c_insts c) (t_inst e1) = Some J1 /\ nth_error (c_insts c) (t_inst e2) = Some J2 /\
                    i_run J1 = i_run J2.
  Proof.
    intros c Hr e1 e2 H1 H2 Ho. pose proof (trs_reach c Hr) as Ht.
    assert (Hp : forall e, In e (c_trace c) -> In (t_obj e, t_inst e) (pairs_of c)).
    { intros e He. unfold pairs_of. apply (in_map (fun e => (t_obj e, t_inst e))). exact He. }
    destruct (Ht _ _ (Hp _ H1)) as (k1 & r1 & HO1 & HR1 & HI1).
    destruct (Ht _ _ (Hp _ H2)) as (k2 & r2 & HO2 & HR2 & HI2).
    rewrite Ho in HO1. rewrite HO1 in HO2. inv HO2. rewrite HR1 in HR2. inv HR2.
    unfold runs_of in HI1, HI2. rewrite nth_error_map in HI1, HI2.
    destruct (nth_error (c_insts c) (t_inst e1)) as [J1|]; [|discriminate].
    destruct (nth_error (c_insts c) (t_inst e2)) as [J2|]; [|discriminate].
    simpl in HI1, HI2. exists J1, J2. repeat split; congruence.
  Qed.
End RunIsolation.
