(* Proofs/CallbacksEngine.v — the event log of a graph run under every interleaving of its
   parallel nodes: [exactly_once_paired_proof] (flat graph: the graph unit and n parallel
   node units, every schedule, every way the graph-level handlers were built, every slice
   capacity and growth policy) and the counting lemmas.  (The stream copies are in
   Proofs/CallbacksStream.v, the nested engine in Proofs/CallbacksSched.v.) *)
From Coq Require Import List Arith Lia Bool NArith Permutation.
From Eino Require Import Base.Util Base.GoSlice Model.Callbacks Proofs.CallbacksSlice Proofs.Callbacks.
Import ListNotations.

(* ---------------------------------------------------------------- interleavings *)

(* [l] is an interleaving of the programs [ps]: repeatedly some program performs its next step *)
Inductive Interleave {A : Type} : list (list A) -> list A -> Prop :=
| IL_done : forall ps, Forall (fun p => p = []) ps -> Interleave ps []
| IL_step : forall ps i a p l,
    nth_error ps i = Some (a :: p) -> Interleave (set_nth ps i p) l -> Interleave ps (a :: l).

Lemma set_nth_nth_error_same {A} (l : list A) i a b :
  nth_error l i = Some b -> nth_error (set_nth l i a) i = Some a.
Proof.
  revert i; induction l as [|x l IH]; intros [|i] H; simpl in *; try discriminate; auto.
Qed.

Lemma set_nth_nth_error_other {A} (l : list A) i j a :
  i <> j -> nth_error (set_nth l i a) j = nth_error l j.
Proof.
  revert i j; induction l as [|x l IH]; intros [|i] [|j] H; simpl; auto; try congruence.
Qed.

Lemma set_nth_same_value {A} (l : list A) i a : nth_error l i = Some a -> set_nth l i a = l.
Proof.
  revert i; induction l as [|x l IH]; intros [|i] H; simpl in *; try discriminate; auto.
  - now injection H as ->.
  - now rewrite IH.
Qed.

Lemma map_set_nth {A B} (f : A -> B) (l : list A) i a : map f (set_nth l i a) = set_nth (map f l) i (f a).
Proof.
  revert i; induction l as [|x l IH]; intros [|i]; simpl; auto. now rewrite IH.
Qed.

Lemma interleave_filter {A} (f : A -> bool) ps l :
  Interleave ps l -> Interleave (map (filter f) ps) (filter f l).
Proof.
  induction 1 as [ps F | ps i a p l Hn Hi IH]; simpl.
  - apply IL_done. induction F as [|q qs Hq F IH]; simpl; constructor; auto. now subst q.
  - assert (Hm : nth_error (map (filter f) ps) i = Some (filter f (a :: p))).
    { rewrite nth_error_map, Hn. reflexivity. }
    rewrite map_set_nth in IH. simpl in Hm.
    destruct (f a).
    + eapply IL_step; eauto.
    + rewrite set_nth_same_value in IH; auto.
Qed.

Lemma interleave_one {A} (ps : list (list A)) l :
  Interleave ps l -> forall i p, nth_error ps i = Some p ->
  (forall j q, j <> i -> nth_error ps j = Some q -> q = []) -> l = p.
Proof.
  induction 1 as [ps F | ps k a q l Hn Hi IH]; intros i p Hp Ho.
  - rewrite Forall_forall in F. symmetry. apply F. eapply nth_error_In; eauto.
  - destruct (Nat.eq_dec k i) as [->|Hk].
    + rewrite Hp in Hn. injection Hn as ->. f_equal.
      apply (IH i q).
      * eapply set_nth_nth_error_same; eauto.
      * intros j r Hj Hr. rewrite set_nth_nth_error_other in Hr by auto. eapply Ho; eauto.
    + specialize (Ho k (a :: q) Hk Hn). discriminate.
Qed.

Lemma interleave_in {A} (ps : list (list A)) l :
  Interleave ps l -> forall x, In x l -> exists p, In p ps /\ In x p.
Proof.
  induction 1 as [ps F | ps k a q l Hn Hi IH]; intros x Hx; [contradiction|].
  destruct Hx as [<-|Hx].
  - exists (a :: q). split; [eapply nth_error_In; eauto | left; auto].
  - destruct (IH x Hx) as (p & Hp & Hxp).
    apply In_nth_error in Hp. destruct Hp as [j Hj].
    destruct (Nat.eq_dec k j) as [->|Hk].
    + rewrite (set_nth_nth_error_same ps j q (a :: q) Hn) in Hj. injection Hj as <-.
      exists (a :: q). split; [eapply nth_error_In; eauto | right; auto].
    + rewrite set_nth_nth_error_other in Hj by auto.
      exists p. split; [eapply nth_error_In; eauto | auto].
Qed.

Lemma filter_split {A} (f : A -> bool) l : forall a rest,
  filter f l = a :: rest ->
  exists l1 l2, l = l1 ++ a :: l2 /\ filter f l1 = [] /\ filter f l2 = rest.
Proof.
  induction l as [|x l IH]; intros a rest H; simpl in H; [discriminate|].
  destruct (f x) eqn:E.
  - injection H as -> Hr. exists [], l. repeat split; auto.
  - destruct (IH a rest H) as (l1 & l2 & -> & F1 & F2).
    exists (x :: l1), l2. repeat split; auto. simpl. now rewrite E.
Qed.

(* the sequential schedule is one of the interleavings (non-vacuity) *)
Lemma interleave_concat {A} (ps : list (list A)) : Interleave ps (List.concat ps).
Proof.
  remember (List.length (List.concat ps)) as n eqn:Hn. revert ps Hn.
  induction n as [|n IH]; intros ps Hn.
  - assert (List.concat ps = []) as E by (destruct (List.concat ps); simpl in *; auto; lia).
    rewrite E. apply IL_done.
    clear Hn. induction ps as [|p ps IHp]; constructor; simpl in E; apply app_eq_nil in E; tauto.
  - (* the first non-empty program steps *)
    assert (exists i a p, nth_error ps i = Some (a :: p) /\
                          (forall j q, j < i -> nth_error ps j = Some q -> q = []) /\
                          List.concat ps = a :: List.concat (set_nth ps i p)) as (i & a & p & Hi & _ & Hc).
    { clear IH. induction ps as [|[|a p] ps IHp]; simpl in *; [lia| |].
      - destruct (IHp Hn) as (i & a & p & Hi & Hlt & Hc).
        exists (S i), a, p. simpl. repeat split; auto.
        intros [|j] q Hj Hq; simpl in Hq; [now injection Hq as <-|]. eapply Hlt; eauto. lia.
      - exists 0, a, p. simpl. repeat split; auto. intros j q Hj; lia. }
    rewrite Hc. eapply IL_step; eauto. apply IH.
    rewrite Hc in Hn. simpl in Hn. lia.
Qed.

(* ---------------------------------------------------------------- a flat graph *)

(* one parallel node of a flat graph: its context name, run info, the handler lists of the
   options designated to it, the timing of its start and of its end (end / stream end / error) *)
Record fnode := { fn_key : ukey; fn_info : info; fn_opts : list (list handler);
                  fn_start : timing; fn_end : timing }.

(* taskManager.executor for the node: initNodeCallbacks on the graph's context, then the
   wrapped runnable: On(start); body; On(end or error) *)
Definition fprog (g : ukey) (n : fnode) : list op :=
  [OAppend (Some g) (fn_key n) (fn_info n) (fn_opts n); OOn (fn_key n) (fn_start n); OOn (fn_key n) (fn_end n)].


Lemma mentions_creates u o : creates o = Some u -> mentions u o = true.
Proof. destruct o; simpl; intros H; try discriminate; injection H as ->; apply N.eqb_refl. Qed.

Lemma ons_of_filter u l : ons_of u l = ons_of u (filter (mentions u) l).
Proof.
  unfold ons_of. induction l as [|o l IH]; simpl; auto.
  destruct o as [new inf o0 hs spare | parent new inf opts | p new inf | v t | src new inf lo hi]; simpl.
  - destruct (N.eqb new u); simpl; auto.
  - destruct (N.eqb new u); simpl; auto.
  - destruct (N.eqb new u); simpl; auto.
  - destruct (N.eqb v u) eqn:E; simpl; [rewrite E; simpl; now rewrite IH | auto].
  - destruct (N.eqb new u); simpl; auto.
Qed.

Lemma ons_of_app u a b : ons_of u (a ++ b) = ons_of u a ++ ons_of u b.
Proof. unfold ons_of. apply flat_map_app. Qed.

Lemma ons_of_none u l : (forall o, In o l -> mentions u o = false) -> ons_of u l = [].
Proof.
  intros H. rewrite ons_of_filter.
  replace (filter (mentions u) l) with (@nil op); auto.
  symmetry. induction l as [|o l IH]; simpl; auto.
  rewrite (H o) by (left; auto). apply IH. intros o' Ho'. apply H. right; auto.
Qed.

Lemma filter_none {A} (f : A -> bool) l : filter f l = [] -> forall x, In x l -> f x = false.
Proof.
  intros H x Hx. destruct (f x) eqn:E; auto.
  assert (In x (filter f l)) by (apply filter_In; auto). rewrite H in H0. contradiction.
Qed.

Lemma sevents_served w u inf l t :
  sevents w u (snew w inf l) t = served w u inf l t.
Proof.
  unfold snew, served. destruct (_ =? 0)%nat eqn:E; simpl; auto.
  apply Nat.eqb_eq in E.
  assert (l = [] /\ w_globals w = []) as [-> G].
  { destruct l; simpl in E; [|lia]. destruct (w_globals w); simpl in E; [auto|lia]. }
  rewrite G. unfold events_of, select, invoke_order. simpl. destruct (is_start t); reflexivity.
Qed.

Section FlatGraph.
  Variable w : world.                   (* every growth policy, global handler list, timing table *)
  Variable pre : list op.               (* whatever created the graph's context (any capacities) *)
  Variable g : ukey.                    (* the graph unit *)
  Variable Lg : list handler.           (* the graph's handler list *)
  Variable nodes : list fnode.
  Variable body : list op.              (* the schedule *)
  Variables sg eg : timing.

  Hypothesis Hg : observed_list (run_script true w pre) g = Some Lg.
  Hypothesis Hnodup : NoDup (map fn_key nodes).
  Hypothesis Hgn : ~ In g (map fn_key nodes).
  Hypothesis Hfresh : forall n o, In n nodes -> In o pre -> mentions (fn_key n) o = false.
  Hypothesis Hbody : Interleave (map (fprog g) nodes) body.

  Definition flat_trace : list op := pre ++ OOn g sg :: body ++ [OOn g eg].
  Definition flat_log : list event := st_log (run_script true w flat_trace).

  Lemma body_ops o : In o body -> exists n, In n nodes /\ In o (fprog g n).
  Proof.
    intros Ho. destruct (interleave_in _ _ Hbody o Ho) as (p & Hp & Hop).
    apply in_map_iff in Hp. destruct Hp as (n & <- & Hn). eauto.
  Qed.

  Lemma key_neq_g n : In n nodes -> fn_key n <> g.
  Proof. intros Hn E. apply Hgn. rewrite <- E. now apply in_map. Qed.

  Lemma body_not_g o : In o body -> mentions g o = false.
  Proof.
    intros Ho. destruct (body_ops o Ho) as (n & Hn & Hin).
    pose proof (key_neq_g n Hn) as Hk.
    simpl in Hin. destruct Hin as [<-|[<-|[<-|[]]]]; simpl; apply N.eqb_neq; auto.
  Qed.

  Lemma body_filter n : In n nodes -> filter (mentions (fn_key n)) body = fprog g n.
  Proof.
    intros Hn.
    apply In_nth_error in Hn. destruct Hn as [i Hi].
    pose proof (interleave_filter (mentions (fn_key n)) _ _ Hbody) as IL.
    apply (interleave_one _ _ IL i).
    - rewrite !nth_error_map, Hi. simpl. rewrite !N.eqb_refl. reflexivity.
    - intros j q Hj Hq. rewrite !nth_error_map in Hq.
      destruct (nth_error nodes j) as [m|] eqn:Hm; simpl in Hq; [|discriminate].
      injection Hq as <-.
      assert (Hk : fn_key m <> fn_key n).
      { intros E. apply Hj.
        assert (Hi' : nth_error (map fn_key nodes) i = Some (fn_key n)) by (rewrite nth_error_map, Hi; auto).
        assert (Hm' : nth_error (map fn_key nodes) j = Some (fn_key n)) by (rewrite nth_error_map, Hm; simpl; now rewrite E).
        apply (proj1 (NoDup_nth_error (map fn_key nodes)) Hnodup j i).
        - apply nth_error_Some. rewrite Hm'. discriminate.
        - now rewrite Hm', Hi'. }
      apply N.eqb_neq in Hk. simpl. rewrite !Hk. reflexivity.
  Qed.

  (* the graph's own list is what it was when the body started, at any point of the body *)
  Lemma g_stable b1 : (forall o, In o b1 -> In o body) ->
    sobserved (run_spec w (pre ++ OOn g sg :: b1)) g = Some Lg.
  Proof.
    intros Hb.
    pose proof (script_refines_spec w pre) as R1.
    rewrite (observed_rel w _ _ g R1) in Hg.
    unfold sobserved in *.
    rewrite run_spec_app_cons.
    rewrite spec_lookup_stable.
    - rewrite sstep_lookup_other; auto. simpl. discriminate.
    - intros o Ho Hc. apply Hb in Ho. apply mentions_creates in Hc.
      rewrite body_not_g in Hc; auto. discriminate.
  Qed.

  (* every node unit: exactly its start events followed by exactly its end events, each for
     the handlers of (graph list ++ designated ++ global) that ask for the timing, carrying
     the node's run info — in every interleaving *)
  Theorem node_events n : In n nodes ->
    filter (of_unit (fn_key n)) flat_log =
      served w (fn_key n) (fn_info n) (Lg ++ List.concat (fn_opts n)) (fn_start n) ++
      served w (fn_key n) (fn_info n) (Lg ++ List.concat (fn_opts n)) (fn_end n).
  Proof.
    intros Hn.
    pose proof (body_filter n Hn) as Hf. unfold fprog in Hf.
    destruct (filter_split _ _ _ _ Hf) as (b1 & b2 & Eb & F1 & F2).
    unfold flat_log, flat_trace. rewrite script_log_spec.
    rewrite Eb.
    replace (pre ++ OOn g sg :: (b1 ++ OAppend (Some g) (fn_key n) (fn_info n) (fn_opts n) :: b2) ++ [OOn g eg])
      with ((pre ++ OOn g sg :: b1) ++ OAppend (Some g) (fn_key n) (fn_info n) (fn_opts n) :: (b2 ++ [OOn g eg])).
    2:{ rewrite <- !app_assoc. simpl. reflexivity. }
    rewrite run_spec_app_cons.
    set (T1 := pre ++ OOn g sg :: b1).
    assert (HT1 : forall o, In o T1 -> creates o <> Some (fn_key n)).
    { intros o Ho Hc. apply mentions_creates in Hc.
      unfold T1 in Ho. apply in_app_or in Ho. destruct Ho as [Ho|[<-|Ho]].
      - rewrite (Hfresh n o Hn Ho) in Hc. discriminate.
      - simpl in Hc. apply N.eqb_eq in Hc. symmetry in Hc. now apply (key_neq_g n Hn).
      - rewrite (filter_none _ _ F1 o Ho) in Hc. discriminate. }
    destruct (spec_no_events_before w T1 sstate0 (fn_key n) eq_refl HT1) as [F0 _].
    fold (run_spec w T1) in F0.
    assert (Hgl : sobserved (run_spec w T1) g = Some Lg).
    { apply g_stable. intros o Ho. rewrite Eb. apply in_or_app. left; auto. }
    set (s1 := sstep w (run_spec w T1) (OAppend (Some g) (fn_key n) (fn_info n) (fn_opts n))).
    assert (Hs1 : lookup (fn_key n) (ss_ctxs s1) = Some (snew w (fn_info n) (Lg ++ List.concat (fn_opts n))) /\
                  ss_log s1 = ss_log (run_spec w T1)).
    { unfold s1, sobserved in *. simpl.
      destruct (lookup g (ss_ctxs (run_spec w T1))) as [c0|]; [|discriminate].
      injection Hgl as <-. simpl. rewrite N.eqb_refl. auto. }
    destruct Hs1 as [Lk Lg1].
    assert (NR : no_rebind (fn_key n) (b2 ++ [OOn g eg])).
    { intros o Ho Hc. apply in_app_or in Ho. destruct Ho as [Ho|[<-|[]]]; [|discriminate].
      assert (In o (filter (mentions (fn_key n)) b2)) by (apply filter_In; split; auto; now apply mentions_creates).
      rewrite F2 in H. simpl in H. destruct H as [<-|[<-|[]]]; discriminate. }
    rewrite (spec_unit_log w _ s1 (fn_key n) _ Lk NR).
    rewrite Lg1, F0. simpl filter. simpl app.
    rewrite ons_of_app, (ons_of_filter (fn_key n) b2). rewrite F2.
    simpl. rewrite !N.eqb_refl.
    assert (Hgu : N.eqb g (fn_key n) = false) by (apply N.eqb_neq; intros E; now apply (key_neq_g n Hn)).
    rewrite Hgu. simpl. rewrite app_nil_r.
    rewrite !sevents_served. reflexivity.
  Qed.

  (* the graph unit itself: what it had before, then its start events, then its end events *)
  Theorem graph_events :
    filter (of_unit g) flat_log =
      filter (of_unit g) (st_log (run_script true w pre)) ++
      match lookup g (ss_ctxs (run_spec w pre)) with
      | Some c => sevents w g c sg ++ sevents w g c eg
      | None => []
      end.
  Proof.
    unfold flat_log, flat_trace. rewrite !script_log_spec.
    unfold run_spec at 1. unfold run_spec_from. rewrite fold_left_app.
    change (fold_left (sstep w) pre sstate0) with (run_spec w pre).
    change (fold_left (sstep w) (OOn g sg :: body ++ [OOn g eg]) (run_spec w pre))
      with (run_spec_from w (run_spec w pre) (OOn g sg :: body ++ [OOn g eg])).
    pose proof (script_refines_spec w pre) as R1.
    rewrite (observed_rel w _ _ g R1) in Hg. unfold sobserved in Hg.
    destruct (lookup g (ss_ctxs (run_spec w pre))) as [c|] eqn:Lk; [|discriminate].
    rewrite (spec_unit_log w _ _ g c Lk).
    - f_equal. simpl. rewrite N.eqb_refl. rewrite ons_of_app.
      rewrite (ons_of_none g body) by (apply body_not_g).
      simpl. rewrite N.eqb_refl. simpl. now rewrite app_nil_r.
    - intros o [<-|Ho] Hc; [discriminate|].
      apply in_app_or in Ho. destruct Ho as [Ho|[<-|[]]]; [|discriminate].
      apply mentions_creates in Hc. rewrite body_not_g in Hc; auto. discriminate.
  Qed.
End FlatGraph.

(* ---------------------------------------------------------------- exactly once *)

Definition is_ev (u : ukey) (x : handler) (t : timing) (i : info) (e : event) : bool :=
  match e with Ev u' x' t' i' => N.eqb u' u && N.eqb x' x && timing_eqb t' t && N.eqb i' i end.

Lemma count_served w u inf l t x :
  List.length (filter (is_ev u x t inf) (served w u inf l t)) =
  count_occ N.eq_dec (select w t (l ++ w_globals w)) x.
Proof.
  unfold served, events_of.
  assert (H : forall l0, List.length (filter (is_ev u x t inf) (map (fun y => Ev u y t inf) l0)) = count_occ N.eq_dec l0 x).
  { induction l0 as [|y l0 IH]; simpl; auto.
    rewrite !N.eqb_refl. unfold timing_eqb. rewrite N.eqb_refl. simpl.
    destruct (N.eq_dec y x) as [->|Hne].
    - rewrite N.eqb_refl. simpl. now rewrite IH.
    - apply N.eqb_neq in Hne. rewrite Hne. simpl. auto. }
  rewrite H. unfold invoke_order. destruct (is_start t); auto.
  symmetry. apply Permutation_count_occ. apply Permutation_rev.
Qed.

Lemma count_served_other_timing w u inf l t t' x :
  timing_eqb t' t = false -> filter (is_ev u x t inf) (served w u inf l t') = [].
Proof.
  intros H. unfold served, events_of.
  induction (invoke_order t' (select w t' (l ++ w_globals w))) as [|y l0 IH]; simpl; auto.
  rewrite H. rewrite !andb_false_r. simpl. auto.
Qed.

