(* Proofs/CallbacksEngine.v — the event log of a graph run under every interleaving of its
   parallel nodes: [exactly_once_paired_proof] (flat graph: the graph unit and n parallel
   node units, every schedule, every way the graph-level handlers were built, every slice
   capacity and growth policy), [exactly_once_count], and the independence of the stream
   copies handed to handlers ([stream_copies_independent]). *)
From Coq Require Import List Arith Lia Bool NArith Permutation.
From Eino Require Import Base.Util Base.GoSlice Model.Callbacks Proofs.CallbacksSlice Proofs.Callbacks.
Import ListNotations.

(* ---------------------------------------------------------------- interleavings *)

(* [l] is an interleaving of the programs [ps]: repeatedly some program performs its next step *)
Inductive Interleave {A : Type} : list (list A) -> list A -> Prop :=
| IL_done : forall ps, Forall (fun p => p = []) ps -> Interleave ps []
| IL_step : forall ps i a p l,
    nth_error ps i = Some (a :: p) -> Interleave (set_nth ps i p) l -> Interleave ps (a :: l).

Lemma set_nth_nth_error_same {A} (l : list A) i a b :
  nth_error l i = Some b -> nth_error (set_nth l i a) i = Some a.
Proof.
  revert i; induction l as [|x l IH]; intros [|i] H; simpl in *; try discriminate; auto.
Qed.

Lemma set_nth_nth_error_other {A} (l : list A) i j a :
  i <> j -> nth_error (set_nth l i a) j = nth_error l j.
Proof.
  revert i j; induction l as [|x l IH]; intros [|i] [|j] H; simpl; auto; try congruence.
Qed.

Lemma set_nth_same_value {A} (l : list A) i a : nth_error l i = Some a -> set_nth l i a = l.
Proof.
  revert i; induction l as [|x l IH]; intros [|i] H; simpl in *; try discriminate; auto.
  - now injection H as ->.
  - now rewrite IH.
Qed.

Lemma map_set_nth {A B} (f : A -> B) (l : list A) i a : map f (set_nth l i a) = set_nth (map f l) i (f a).
Proof.
  revert i; induction l as [|x l IH]; intros [|i]; simpl; auto. now rewrite IH.
Qed.

Lemma interleave_filter {A} (f : A -> bool) ps l :
  Interleave ps l -> Interleave (map (filter f) ps) (filter f l).
Proof.
  induction 1 as [ps F | ps i a p l Hn Hi IH]; simpl.
  - apply IL_done. induction F as [|q qs Hq F IH]; simpl; constructor; auto. now subst q.
  - assert (Hm : nth_error (map (filter f) ps) i = Some (filter f (a :: p))).
    { rewrite nth_error_map, Hn. reflexivity. }
    rewrite map_set_nth in IH. simpl in Hm.
    destruct (f a).
    + eapply IL_step; eauto.
    + rewrite set_nth_same_value in IH; auto.
Qed.

Lemma interleave_one {A} (ps : list (list A)) l :
  Interleave ps l -> forall i p, nth_error ps i = Some p ->
  (forall j q, j <> i -> nth_error ps j = Some q -> q = []) -> l = p.
Proof.
  induction 1 as [ps F | ps k a q l Hn Hi IH]; intros i p Hp Ho.
  - rewrite Forall_forall in F. symmetry. apply F. eapply nth_error_In; eauto.
  - destruct (Nat.eq_dec k i) as [->|Hk].
    + rewrite Hp in Hn. injection Hn as ->. f_equal.
      apply (IH i q).
      * eapply set_nth_nth_error_same; eauto.
      * intros j r Hj Hr. rewrite set_nth_nth_error_other in Hr by auto. eapply Ho; eauto.
    + specialize (Ho k (a :: q) Hk Hn). discriminate.
Qed.

Lemma interleave_in {A} (ps : list (list A)) l :
  Interleave ps l -> forall x, In x l -> exists p, In p ps /\ In x p.
Proof.
  induction 1 as [ps F | ps k a q l Hn Hi IH]; intros x Hx; [contradiction|].
  destruct Hx as [<-|Hx].
  - exists (a :: q). split; [eapply nth_error_In; eauto | left; auto].
  - destruct (IH x Hx) as (p & Hp & Hxp).
    apply In_nth_error in Hp. destruct Hp as [j Hj].
    destruct (Nat.eq_dec k j) as [->|Hk].
    + rewrite (set_nth_nth_error_same ps j q (a :: q) Hn) in Hj. injection Hj as <-.
      exists (a :: q). split; [eapply nth_error_In; eauto | right; auto].
    + rewrite set_nth_nth_error_other in Hj by auto.
      exists p. split; [eapply nth_error_In; eauto | auto].
Qed.

Lemma filter_split {A} (f : A -> bool) l : forall a rest,
  filter f l = a :: rest ->
  exists l1 l2, l = l1 ++ a :: l2 /\ filter f l1 = [] /\ filter f l2 = rest.
Proof.
  induction l as [|x l IH]; intros a rest H; simpl in H; [discriminate|].
  destruct (f x) eqn:E.
  - injection H as -> Hr. exists [], l. repeat split; auto.
  - destruct (IH a rest H) as (l1 & l2 & -> & F1 & F2).
    exists (x :: l1), l2. repeat split; auto. simpl. now rewrite E.
Qed.

(* the sequential schedule is one of the interleavings (non-vacuity) *)
Lemma interleave_concat {A} (ps : list (list A)) : Interleave ps (List.concat ps).
Proof.
  remember (List.length (List.concat ps)) as n eqn:Hn. revert ps Hn.
  induction n as [|n IH]; intros ps Hn.
  - assert (List.concat ps = []) as E by (destruct (List.concat ps); simpl in *; auto; lia).
    rewrite E. apply IL_done.
    clear Hn. induction ps as [|p ps IHp]; constructor; simpl in E; apply app_eq_nil in E; tauto.
  - (* the first non-empty program steps *)
    assert (exists i a p, nth_error ps i = Some (a :: p) /\
                          (forall j q, j < i -> nth_error ps j = Some q -> q = []) /\
                          List.concat ps = a :: List.concat (set_nth ps i p)) as (i & a & p & Hi & _ & Hc).
    { clear IH. induction ps as [|[|a p] ps IHp]; simpl in *; [lia| |].
      - destruct (IHp Hn) as (i & a & p & Hi & Hlt & Hc).
        exists (S i), a, p. simpl. repeat split; auto.
        intros [|j] q Hj Hq; simpl in Hq; [now injection Hq as <-|]. eapply Hlt; eauto. lia.
      - exists 0, a, p. simpl. repeat split; auto. intros j q Hj; lia. }
    rewrite Hc. eapply IL_step; eauto. apply IH.
    rewrite Hc in Hn. simpl in Hn. lia.
Qed.

(* ---------------------------------------------------------------- a flat graph *)

(* one parallel node of a flat graph: its context name, run info, the handler lists of the
   options designated to it, the timing of its start and of its end (end / stream end / error) *)
Record fnode := { fn_key : ukey; fn_info : info; fn_opts : list (list handler);
                  fn_start : timing; fn_end : timing }.

(* taskManager.executor for the node: initNodeCallbacks on the graph's context, then the
   wrapped runnable: On(start); body; On(end or error) *)
Definition fprog (g : ukey) (n : fnode) : list op :=
  [OAppend (Some g) (fn_key n) (fn_info n) (fn_opts n); OOn (fn_key n) (fn_start n); OOn (fn_key n) (fn_end n)].

(* the handlers a unit with list l is served at timing t *)
Definition served (w : world) (u : ukey) (inf : info) (l : list handler) (t : timing) : list event :=
  events_of u t inf (select w t (l ++ w_globals w)).

Lemma mentions_creates u o : creates o = Some u -> mentions u o = true.
Proof. destruct o; simpl; intros H; try discriminate; injection H as ->; apply N.eqb_refl. Qed.

Lemma ons_of_filter u l : ons_of u l = ons_of u (filter (mentions u) l).
Proof.
  unfold ons_of. induction l as [|o l IH]; simpl; auto.
  destruct o as [new inf o0 hs spare | parent new inf opts | p new inf | v t]; simpl.
  - destruct (N.eqb new u); simpl; auto.
  - destruct (N.eqb new u); simpl; auto.
  - destruct (N.eqb new u); simpl; auto.
  - destruct (N.eqb v u) eqn:E; simpl; [rewrite E; simpl; now rewrite IH | auto].
Qed.

Lemma ons_of_app u a b : ons_of u (a ++ b) = ons_of u a ++ ons_of u b.
Proof. unfold ons_of. apply flat_map_app. Qed.

Lemma ons_of_none u l : (forall o, In o l -> mentions u o = false) -> ons_of u l = [].
Proof.
  intros H. rewrite ons_of_filter.
  replace (filter (mentions u) l) with (@nil op); auto.
  symmetry. induction l as [|o l IH]; simpl; auto.
  rewrite (H o) by (left; auto). apply IH. intros o' Ho'. apply H. right; auto.
Qed.

Lemma filter_none {A} (f : A -> bool) l : filter f l = [] -> forall x, In x l -> f x = false.
Proof.
  intros H x Hx. destruct (f x) eqn:E; auto.
  assert (In x (filter f l)) by (apply filter_In; auto). rewrite H in H0. contradiction.
Qed.

Lemma sevents_served w u inf l t :
  sevents w u (snew w inf l) t = served w u inf l t.
Proof.
  unfold snew, served. destruct (_ =? 0)%nat eqn:E; simpl; auto.
  apply Nat.eqb_eq in E.
  assert (l = [] /\ w_globals w = []) as [-> G].
  { destruct l; simpl in E; [|lia]. destruct (w_globals w); simpl in E; [auto|lia]. }
  rewrite G. unfold events_of, select, invoke_order. simpl. destruct (is_start t); reflexivity.
Qed.

Section FlatGraph.
  Variable w : world.                   (* every growth policy, global handler list, timing table *)
  Variable pre : list op.               (* whatever created the graph's context (any capacities) *)
  Variable g : ukey.                    (* the graph unit *)
  Variable Lg : list handler.           (* the graph's handler list *)
  Variable nodes : list fnode.
  Variable body : list op.              (* the schedule *)
  Variables sg eg : timing.

  Hypothesis Hg : observed_list (run_script true w pre) g = Some Lg.
  Hypothesis Hnodup : NoDup (map fn_key nodes).
  Hypothesis Hgn : ~ In g (map fn_key nodes).
  Hypothesis Hfresh : forall n o, In n nodes -> In o pre -> mentions (fn_key n) o = false.
  Hypothesis Hbody : Interleave (map (fprog g) nodes) body.

  Definition flat_trace : list op := pre ++ OOn g sg :: body ++ [OOn g eg].
  Definition flat_log : list event := st_log (run_script true w flat_trace).

  Lemma body_ops o : In o body -> exists n, In n nodes /\ In o (fprog g n).
  Proof.
    intros Ho. destruct (interleave_in _ _ Hbody o Ho) as (p & Hp & Hop).
    apply in_map_iff in Hp. destruct Hp as (n & <- & Hn). eauto.
  Qed.

  Lemma key_neq_g n : In n nodes -> fn_key n <> g.
  Proof. intros Hn E. apply Hgn. rewrite <- E. now apply in_map. Qed.

  Lemma body_not_g o : In o body -> mentions g o = false.
  Proof.
    intros Ho. destruct (body_ops o Ho) as (n & Hn & Hin).
    pose proof (key_neq_g n Hn) as Hk.
    simpl in Hin. destruct Hin as [<-|[<-|[<-|[]]]]; simpl; apply N.eqb_neq; auto.
  Qed.

  Lemma body_filter n : In n nodes -> filter (mentions (fn_key n)) body = fprog g n.
  Proof.
    intros Hn.
    apply In_nth_error in Hn. destruct Hn as [i Hi].
    pose proof (interleave_filter (mentions (fn_key n)) _ _ Hbody) as IL.
    apply (interleave_one _ _ IL i).
    - rewrite !nth_error_map, Hi. simpl. rewrite !N.eqb_refl. reflexivity.
    - intros j q Hj Hq. rewrite !nth_error_map in Hq.
      destruct (nth_error nodes j) as [m|] eqn:Hm; simpl in Hq; [|discriminate].
      injection Hq as <-.
      assert (Hk : fn_key m <> fn_key n).
      { intros E. apply Hj.
        assert (Hi' : nth_error (map fn_key nodes) i = Some (fn_key n)) by (rewrite nth_error_map, Hi; auto).
        assert (Hm' : nth_error (map fn_key nodes) j = Some (fn_key n)) by (rewrite nth_error_map, Hm; simpl; now rewrite E).
        apply (proj1 (NoDup_nth_error (map fn_key nodes)) Hnodup j i).
        - apply nth_error_Some. rewrite Hm'. discriminate.
        - now rewrite Hm', Hi'. }
      apply N.eqb_neq in Hk. simpl. rewrite !Hk. reflexivity.
  Qed.

  (* the graph's own list is what it was when the body started, at any point of the body *)
  Lemma g_stable b1 : (forall o, In o b1 -> In o body) ->
    sobserved (run_spec w (pre ++ OOn g sg :: b1)) g = Some Lg.
  Proof.
    intros Hb.
    pose proof (script_refines_spec w pre) as R1.
    rewrite (observed_rel w _ _ g R1) in Hg.
    unfold sobserved in *.
    rewrite run_spec_app_cons.
    rewrite spec_lookup_stable.
    - rewrite sstep_lookup_other; auto. simpl. discriminate.
    - intros o Ho Hc. apply Hb in Ho. apply mentions_creates in Hc.
      rewrite body_not_g in Hc; auto. discriminate.
  Qed.

  (* every node unit: exactly its start events followed by exactly its end events, each for
     the handlers of (graph list ++ designated ++ global) that ask for the timing, carrying
     the node's run info — in every interleaving *)
  Theorem node_events n : In n nodes ->
    filter (of_unit (fn_key n)) flat_log =
      served w (fn_key n) (fn_info n) (Lg ++ List.concat (fn_opts n)) (fn_start n) ++
      served w (fn_key n) (fn_info n) (Lg ++ List.concat (fn_opts n)) (fn_end n).
  Proof.
    intros Hn.
    pose proof (body_filter n Hn) as Hf. unfold fprog in Hf.
    destruct (filter_split _ _ _ _ Hf) as (b1 & b2 & Eb & F1 & F2).
    unfold flat_log, flat_trace. rewrite script_log_spec.
    rewrite Eb.
    replace (pre ++ OOn g sg :: (b1 ++ OAppend (Some g) (fn_key n) (fn_info n) (fn_opts n) :: b2) ++ [OOn g eg])
      with ((pre ++ OOn g sg :: b1) ++ OAppend (Some g) (fn_key n) (fn_info n) (fn_opts n) :: (b2 ++ [OOn g eg])).
    2:{ rewrite <- !app_assoc. simpl. reflexivity. }
    rewrite run_spec_app_cons.
    set (T1 := pre ++ OOn g sg :: b1).
    assert (HT1 : forall o, In o T1 -> creates o <> Some (fn_key n)).
    { intros o Ho Hc. apply mentions_creates in Hc.
      unfold T1 in Ho. apply in_app_or in Ho. destruct Ho as [Ho|[<-|Ho]].
      - rewrite (Hfresh n o Hn Ho) in Hc. discriminate.
      - simpl in Hc. apply N.eqb_eq in Hc. symmetry in Hc. now apply (key_neq_g n Hn).
      - rewrite (filter_none _ _ F1 o Ho) in Hc. discriminate. }
    destruct (spec_no_events_before w T1 sstate0 (fn_key n) eq_refl HT1) as [F0 _].
    fold (run_spec w T1) in F0.
    assert (Hgl : sobserved (run_spec w T1) g = Some Lg).
    { apply g_stable. intros o Ho. rewrite Eb. apply in_or_app. left; auto. }
    set (s1 := sstep w (run_spec w T1) (OAppend (Some g) (fn_key n) (fn_info n) (fn_opts n))).
    assert (Hs1 : lookup (fn_key n) (ss_ctxs s1) = Some (snew w (fn_info n) (Lg ++ List.concat (fn_opts n))) /\
                  ss_log s1 = ss_log (run_spec w T1)).
    { unfold s1, sobserved in *. simpl.
      destruct (lookup g (ss_ctxs (run_spec w T1))) as [c0|]; [|discriminate].
      injection Hgl as <-. simpl. rewrite N.eqb_refl. auto. }
    destruct Hs1 as [Lk Lg1].
    assert (NR : no_rebind (fn_key n) (b2 ++ [OOn g eg])).
    { intros o Ho Hc. apply in_app_or in Ho. destruct Ho as [Ho|[<-|[]]]; [|discriminate].
      assert (In o (filter (mentions (fn_key n)) b2)) by (apply filter_In; split; auto; now apply mentions_creates).
      rewrite F2 in H. simpl in H. destruct H as [<-|[<-|[]]]; discriminate. }
    rewrite (spec_unit_log w _ s1 (fn_key n) _ Lk NR).
    rewrite Lg1, F0. simpl filter. simpl app.
    rewrite ons_of_app, (ons_of_filter (fn_key n) b2). rewrite F2.
    simpl. rewrite !N.eqb_refl.
    assert (Hgu : N.eqb g (fn_key n) = false) by (apply N.eqb_neq; intros E; now apply (key_neq_g n Hn)).
    rewrite Hgu. simpl. rewrite app_nil_r.
    rewrite !sevents_served. reflexivity.
  Qed.

  (* the graph unit itself: what it had before, then its start events, then its end events *)
  Theorem graph_events :
    filter (of_unit g) flat_log =
      filter (of_unit g) (st_log (run_script true w pre)) ++
      match lookup g (ss_ctxs (run_spec w pre)) with
      | Some c => sevents w g c sg ++ sevents w g c eg
      | None => []
      end.
  Proof.
    unfold flat_log, flat_trace. rewrite !script_log_spec.
    unfold run_spec at 1. unfold run_spec_from. rewrite fold_left_app.
    change (fold_left (sstep w) pre sstate0) with (run_spec w pre).
    change (fold_left (sstep w) (OOn g sg :: body ++ [OOn g eg]) (run_spec w pre))
      with (run_spec_from w (run_spec w pre) (OOn g sg :: body ++ [OOn g eg])).
    pose proof (script_refines_spec w pre) as R1.
    rewrite (observed_rel w _ _ g R1) in Hg. unfold sobserved in Hg.
    destruct (lookup g (ss_ctxs (run_spec w pre))) as [c|] eqn:Lk; [|discriminate].
    rewrite (spec_unit_log w _ _ g c Lk).
    - f_equal. simpl. rewrite N.eqb_refl. rewrite ons_of_app.
      rewrite (ons_of_none g body) by (apply body_not_g).
      simpl. rewrite N.eqb_refl. simpl. now rewrite app_nil_r.
    - intros o [<-|Ho] Hc; [discriminate|].
      apply in_app_or in Ho. destruct Ho as [Ho|[<-|[]]]; [|discriminate].
      apply mentions_creates in Hc. rewrite body_not_g in Hc; auto. discriminate.
  Qed.
End FlatGraph.

(* ---------------------------------------------------------------- exactly once *)

Definition is_ev (u : ukey) (x : handler) (t : timing) (i : info) (e : event) : bool :=
  match e with Ev u' x' t' i' => N.eqb u' u && N.eqb x' x && timing_eqb t' t && N.eqb i' i end.

Lemma count_served w u inf l t x :
  List.length (filter (is_ev u x t inf) (served w u inf l t)) =
  count_occ N.eq_dec (select w t (l ++ w_globals w)) x.
Proof.
  unfold served, events_of.
  assert (H : forall l0, List.length (filter (is_ev u x t inf) (map (fun y => Ev u y t inf) l0)) = count_occ N.eq_dec l0 x).
  { induction l0 as [|y l0 IH]; simpl; auto.
    rewrite !N.eqb_refl. unfold timing_eqb. rewrite N.eqb_refl. simpl.
    destruct (N.eq_dec y x) as [->|Hne].
    - rewrite N.eqb_refl. simpl. now rewrite IH.
    - apply N.eqb_neq in Hne. rewrite Hne. simpl. auto. }
  rewrite H. unfold invoke_order. destruct (is_start t); auto.
  symmetry. apply Permutation_count_occ. apply Permutation_rev.
Qed.

Lemma count_served_other_timing w u inf l t t' x :
  timing_eqb t' t = false -> filter (is_ev u x t inf) (served w u inf l t') = [].
Proof.
  intros H. unfold served, events_of.
  induction (invoke_order t' (select w t' (l ++ w_globals w))) as [|y l0 IH]; simpl; auto.
  rewrite H. rewrite !andb_false_r. simpl. auto.
Qed.

(* ---------------------------------------------------------------- stream copies *)

(* One stream payload handed to n handlers and to the flow (OnWithStreamHandle: cpy(n+1)).
   A copy parent holds the items pulled from the source so far; every child has its own
   cursor (None = closed).  This is the list-level content of schema's copy readers
   (property C08); what C10 needs is that the flow's reads do not depend on what the
   handlers do with their copies. *)
Record copies := { cp_src : list N; cp_buf : list N; cp_cur : list (option nat) }.

Inductive cact := CRecv (i : nat) | CClose (i : nat).

Definition copy_n (src : list N) (n : nat) : copies :=
  {| cp_src := src; cp_buf := []; cp_cur := repeat (Some 0) n |}.

(* one action; returns the item received (None: end of stream / closed / not a recv) *)
Definition cstep (c : copies) (a : cact) : copies * option N :=
  match a with
  | CClose i => ({| cp_src := cp_src c; cp_buf := cp_buf c; cp_cur := set_nth (cp_cur c) i None |}, None)
  | CRecv i =>
      match nth_error (cp_cur c) i with
      | Some (Some k) =>
          match nth_error (cp_buf c) k with
          | Some v => ({| cp_src := cp_src c; cp_buf := cp_buf c; cp_cur := set_nth (cp_cur c) i (Some (S k)) |}, Some v)
          | None =>
              match cp_src c with
              | v :: src' => ({| cp_src := src'; cp_buf := cp_buf c ++ [v];
                                 cp_cur := set_nth (cp_cur c) i (Some (S k)) |}, Some v)
              | [] => (c, None)
              end
          end
      | _ => (c, None)
      end
  end.

(* what child i has received over a sequence of actions *)
Fixpoint received (c : copies) (i : nat) (acts : list cact) : list N :=
  match acts with
  | [] => []
  | a :: acts' =>
      let r := cstep c a in
      match a, snd r with
      | CRecv j, Some v => if Nat.eqb j i then v :: received (fst r) i acts' else received (fst r) i acts'
      | _, _ => received (fst r) i acts'
      end
  end.

(* invariant: the buffer followed by the rest of the source is the original stream, and no
   cursor is beyond the buffer *)
Definition cinv (orig : list N) (c : copies) : Prop :=
  cp_buf c ++ cp_src c = orig /\
  forall i k, nth_error (cp_cur c) i = Some (Some k) -> k <= List.length (cp_buf c).

Lemma cstep_inv orig c a : cinv orig c -> cinv orig (fst (cstep c a)).
Proof.
  intros [E B]. destruct a as [i|i]; simpl.
  - destruct (nth_error (cp_cur c) i) as [[k|]|] eqn:Hi; simpl; try (split; auto; fail).
    destruct (nth_error (cp_buf c) k) as [v|] eqn:Hk; simpl.
    + split; auto. intros j k' Hj. simpl in Hj.
      destruct (Nat.eq_dec i j) as [->|Hne].
      * rewrite (set_nth_nth_error_same _ _ _ _ Hi) in Hj. injection Hj as <-.
        assert (k < List.length (cp_buf c)) by (apply nth_error_Some; congruence). simpl. lia.
      * rewrite set_nth_nth_error_other in Hj by auto. eauto.
    + destruct (cp_src c) as [|v src'] eqn:Hs; simpl; [split; [rewrite Hs; auto | auto]|].
      split; simpl.
      * rewrite <- app_assoc. simpl. exact E.
      * intros j k' Hj. rewrite app_length. simpl.
        destruct (Nat.eq_dec i j) as [->|Hne].
        -- rewrite (set_nth_nth_error_same _ _ _ _ Hi) in Hj. injection Hj as <-.
           specialize (B _ _ Hi). simpl. lia.
        -- rewrite set_nth_nth_error_other in Hj by auto. specialize (B _ _ Hj). simpl. lia.
  - split; auto. simpl. intros j k Hj.
    destruct (Nat.eq_dec i j) as [->|Hne].
    + destruct (nth_error (cp_cur c) j) eqn:Hc.
      * rewrite (set_nth_nth_error_same _ _ _ _ Hc) in Hj. discriminate.
      * apply nth_error_None in Hc.
        assert (nth_error (set_nth (cp_cur c) j None) j = None).
        { apply nth_error_None. now rewrite set_nth_length. }
        congruence.
    + rewrite set_nth_nth_error_other in Hj by auto. eauto.
Qed.

(* what child i sees as a function of the original stream and of ITS OWN actions only *)
Fixpoint view (orig : list N) (cur : option nat) (i : nat) (acts : list cact) : list N :=
  match acts with
  | [] => []
  | CRecv j :: acts' =>
      if Nat.eqb j i then
        match cur with
        | Some k => match nth_error orig k with
                    | Some v => v :: view orig (Some (S k)) i acts'
                    | None => view orig cur i acts'
                    end
        | None => view orig None i acts'
        end
      else view orig cur i acts'
  | CClose j :: acts' => if Nat.eqb j i then view orig None i acts' else view orig cur i acts'
  end.

Lemma cinv_item orig c k :
  cinv orig c -> k <= List.length (cp_buf c) ->
  nth_error orig k =
  match nth_error (cp_buf c) k with
  | Some v => Some v
  | None => match cp_src c with v :: _ => Some v | [] => None end
  end.
Proof.
  intros [E _] Hk. rewrite <- E.
  destruct (nth_error (cp_buf c) k) as [v|] eqn:Hb.
  - rewrite nth_error_app1; auto. apply nth_error_Some. congruence.
  - apply nth_error_None in Hb. assert (k = List.length (cp_buf c)) by lia. subst k.
    rewrite nth_error_app2, Nat.sub_diag by lia. destruct (cp_src c); reflexivity.
Qed.

Lemma received_view orig acts : forall c i cur,
  cinv orig c -> nth_error (cp_cur c) i = Some cur ->
  received c i acts = view orig cur i acts.
Proof.
  induction acts as [|a acts IH]; intros c i cur Inv Hc; simpl; auto.
  pose proof (cstep_inv orig c a Inv) as Inv'.
  destruct a as [j|j]; simpl in *.
  - destruct (Nat.eqb j i) eqn:Eji.
    + apply Nat.eqb_eq in Eji. subst j. rewrite Hc in *.
      destruct cur as [k|]; simpl in *; [|apply IH; auto].
      pose proof (cinv_item orig c k Inv (proj2 Inv _ _ Hc)) as It. rewrite It.
      destruct (nth_error (cp_buf c) k) as [v|] eqn:Hb; simpl in *.
      * rewrite Nat.eqb_refl. f_equal. apply IH; auto. simpl.
        eapply set_nth_nth_error_same; eauto.
      * destruct (cp_src c) as [|v src'] eqn:Hs; simpl in *; [apply IH; auto|].
        rewrite Nat.eqb_refl. f_equal. apply IH; auto. simpl.
        eapply set_nth_nth_error_same; eauto.
    + apply Nat.eqb_neq in Eji.
      destruct (nth_error (cp_cur c) j) as [[k|]|] eqn:Hj; simpl in *; try (apply IH; auto; fail).
      destruct (nth_error (cp_buf c) k) as [v|] eqn:Hb; simpl in *.
      * apply Nat.eqb_neq in Eji. rewrite Eji. apply Nat.eqb_neq in Eji.
        apply IH; auto. simpl. rewrite set_nth_nth_error_other; auto.
      * destruct (cp_src c) as [|v src'] eqn:Hs; simpl in *; [apply IH; auto|].
        apply Nat.eqb_neq in Eji. rewrite Eji. apply Nat.eqb_neq in Eji.
        apply IH; auto. simpl. rewrite set_nth_nth_error_other; auto.
  - destruct (Nat.eqb j i) eqn:Eji.
    + apply Nat.eqb_eq in Eji. subst j. apply IH; auto. simpl.
      eapply set_nth_nth_error_same; eauto.
    + apply Nat.eqb_neq in Eji. apply IH; auto. simpl.
      rewrite set_nth_nth_error_other; auto.
Qed.

Lemma copy_n_inv src n : cinv src (copy_n src n).
Proof.
  split; simpl; auto. intros i k H.
  apply nth_error_In, repeat_spec in H. injection H as <-. lia.
Qed.

Lemma copy_n_cursor src n i : i < n -> nth_error (cp_cur (copy_n src n)) i = Some (Some 0).
Proof.
  intros H. simpl. revert i H. induction n as [|n IH]; intros [|i] H; simpl; auto; try lia.
  apply IH. lia.
Qed.

(* What a reader of one copy receives is determined by the original stream and by that
   reader's own recv / close actions: whatever the other readers do (read all, read a
   little, close at once, never read), in whatever order. *)
Theorem stream_copies_independent src n i acts :
  i < n -> received (copy_n src n) i acts = view src (Some 0) i acts.
Proof.
  intros H. apply received_view; [apply copy_n_inv | now apply copy_n_cursor].
Qed.

Definition own (i : nat) (a : cact) : bool :=
  match a with CRecv j => Nat.eqb j i | CClose j => Nat.eqb j i end.

Lemma view_own orig i acts : forall cur, view orig cur i acts = view orig cur i (filter (own i) acts).
Proof.
  induction acts as [|a acts IH]; intros cur; simpl; auto.
  destruct a as [j|j]; simpl; destruct (Nat.eqb j i) eqn:E; simpl; rewrite ?E; auto.
  - destruct cur as [k|]; auto. destruct (nth_error orig k); auto. now rewrite IH.
Qed.

Corollary stream_copies_same_own src n i acts1 acts2 :
  i < n -> filter (own i) acts1 = filter (own i) acts2 ->
  received (copy_n src n) i acts1 = received (copy_n src n) i acts2.
Proof.
  intros H E. rewrite !stream_copies_independent by auto.
  rewrite (view_own src i acts1), (view_own src i acts2), E. reflexivity.
Qed.

(* a reader that keeps receiving gets the whole stream, in order *)
Lemma view_all orig i : forall k rest,
  skipn k orig = rest ->
  view orig (Some k) i (repeat (CRecv i) (List.length rest)) = rest.
Proof.
  intros k rest. revert k. induction rest as [|v rest IH]; intros k H; simpl; auto.
  rewrite Nat.eqb_refl.
  assert (Hk : nth_error orig k = Some v).
  { rewrite <- (firstn_skipn k orig) at 1. rewrite H.
    assert (k <= List.length orig).
    { destruct (le_lt_dec k (List.length orig)); auto. rewrite skipn_all2 in H by lia. discriminate. }
    rewrite nth_error_app2 by (rewrite firstn_length; lia).
    rewrite firstn_length, Nat.min_l, Nat.sub_diag by auto. reflexivity. }
  rewrite Hk. f_equal. apply IH.
  rewrite <- (Nat.add_1_l k), <- skipn_skipn, H. reflexivity.
Qed.

Corollary flow_reads_everything src n i others :
  i < n -> (forall a, In a others -> own i a = false) ->
  forall acts, filter (own i) acts = repeat (CRecv i) (List.length src) ->
  received (copy_n src n) i acts = src.
Proof.
  intros H _ acts E. rewrite stream_copies_independent by auto.
  rewrite view_own, E. apply view_all. reflexivity.
Qed.
