(* Proofs/GenAgreeC07Small.v — property C07, two small translator ties.

   (1) compose/utils.go assertType[T] (tools/go2v extractor "c07_asserttype", Gen/AssertTypeCode.v,
       translated statement by statement: the plain Go assertion v.(T), then "nil is accepted when T
       is an interface type") is the model's [assert_type] of Model/Types.v -- the assertion every
       node entry, branch condition, state handler and run-time converter makes -- for every
       universe, every dynamic value and every type.  A source that accepts nil for every kind,
       only for the empty interface, or drops the nil clause (F-C07b) makes this stop compiling.

   (2) compose/generic_helper.go (extractor "c07_helper", Gen/HelperTable.v): newGenericHelper[I, O]
       instantiates every input* field at I and every output* field at O, and the helper derived
       forPredecessorPassthrough / forSuccessorPassthrough copies EVERY field from the input side /
       from the output side of its receiver -- so that, field by field, it is the helper
       [gh_for_pred] / [gh_for_succ] of Model/TypeBuilderGenLib.v (the pair (I, I) / (O, O)) that the
       translated builder code (Gen/ValidateCode.v, Gen/BranchCode.v) is proved correct with.
       One field copied from the wrong side (a converter or stream pair of the other type) makes
       this stop compiling. *)
From Eino Require Import Base.Util Model.Types Model.TypesGenLib Model.TypeBuilder Model.TypeBuilderGenLib.
From Eino Require Gen.AssertTypeCode Gen.HelperTable.
Module A := Gen.AssertTypeCode.
Module H := Gen.HelperTable.
Local Open Scope string_scope.

(* ------------------------------------------------------------------ assertType *)

Theorem gen_assert_type_agrees : forall u d t, A.assert_type u d t = Model.Types.assert_type u d t.
Proof.
  intros u d t. unfold A.assert_type, go_assert, assert_type, assert_type_v0, rt_kind_is, dyn_is_nil.
  destruct d as [|c]; destruct t as [c'|i|]; simpl; try reflexivity;
    repeat match goal with
           | |- context [N.eqb ?a ?b] => destruct (N.eqb a b)
           | |- context [implements ?a ?b ?c] => destruct (implements a b c)
           end; reflexivity.
Qed.

Example gen_assert_type_examples :
  let u := {| u_conc := [(0, [2]); (1, [])]%N; u_iface := [(1, [2])]%N |} in
  A.assert_type u DNil TAny = true /\ A.assert_type u DNil (TIface 1) = true /\ A.assert_type u DNil (TConc 0) = false /\
  A.assert_type u (DVal 0) (TIface 1) = true /\ A.assert_type u (DVal 1) (TIface 1) = false /\
  A.assert_type u (DVal 0) (TConc 0) = true /\ A.assert_type u (DVal 0) (TConc 1) = false.
Proof. repeat split; reflexivity. Qed.

(* ------------------------------------------------------------------ genericHelper *)

Definition is_prefix (p s : string) : bool := String.eqb p (substring 0 (String.length p) s).

(* every field of the struct is set by all three literals; newGenericHelper instantiates the input*
   fields at I and the output* fields at O *)
Theorem gen_helper_tables_complete :
  map fst H.new_helper_table = H.helper_fields /\
  map fst H.pred_table = H.helper_fields /\
  map fst H.succ_table = H.helper_fields /\
  forallb (fun p => (is_prefix "input" (fst p) && String.eqb (snd p) "I") ||
                    (is_prefix "output" (fst p) && String.eqb (snd p) "O")) H.new_helper_table = true.
Proof. repeat split; reflexivity. Qed.

Ltac fields H := simpl in H; repeat (destruct H as [H|H]; [subst; reflexivity|]); destruct H.

(* field by field, forPredecessorPassthrough of a helper (i, o) is the helper (i, i) ... *)
Theorem gen_for_pred_agrees : forall i o h', gh_for_pred (Some (i, o)) = Some h' ->
  forall f, In f H.helper_fields ->
    derived_field_ty H.new_helper_table H.pred_table (i, o) f = field_ty H.new_helper_table h' f.
Proof. intros i o h' E f Hf. inversion E; subst h'. fields Hf. Qed.

(* ... and forSuccessorPassthrough the helper (o, o) *)
Theorem gen_for_succ_agrees : forall i o h', gh_for_succ (Some (i, o)) = Some h' ->
  forall f, In f H.helper_fields ->
    derived_field_ty H.new_helper_table H.succ_table (i, o) f = field_ty H.new_helper_table h' f.
Proof. intros i o h' E f Hf. inversion E; subst h'. fields Hf. Qed.

(* the converters the builder code takes from a helper check the I side / the O side *)
Theorem gen_converter_fields : forall h,
  field_ty H.new_helper_table h "inputConverter" = gh_conv_in (Some h) /\
  field_ty H.new_helper_table h "outputConverter" = gh_conv_out (Some h).
Proof. intros [i o]; split; reflexivity. Qed.

(* WithInputKey / WithOutputKey (graphNode.getGenericHelper): every field of the keyed side is a new
   instantiation at map[string]any, every field of the other side is the receiver's own: field by
   field the helper (map[string]any, o) / (i, map[string]any) *)
Theorem gen_for_map_input_agrees : forall m i o h', gh_for_map_in m (Some (i, o)) = Some h' ->
  map fst H.map_input_table = (filter (fun f => is_prefix "output" f) H.helper_fields ++ filter (fun f => is_prefix "input" f) H.helper_fields)%list /\
  forall f, In f H.helper_fields ->
    keyed_field_ty H.new_helper_table H.map_input_table m (i, o) f = field_ty H.new_helper_table h' f.
Proof. intros m i o h' E. inversion E; subst h'. split; [reflexivity|]. intros f Hf. fields Hf. Qed.

Theorem gen_for_map_output_agrees : forall m i o h', gh_for_map_out m (Some (i, o)) = Some h' ->
  map fst H.map_output_table = (filter (fun f => is_prefix "input" f) H.helper_fields ++ filter (fun f => is_prefix "output" f) H.helper_fields)%list /\
  forall f, In f H.helper_fields ->
    keyed_field_ty H.new_helper_table H.map_output_table m (i, o) f = field_ty H.new_helper_table h' f.
Proof. intros m i o h' E. inversion E; subst h'. split; [reflexivity|]. intros f Hf. fields Hf. Qed.
