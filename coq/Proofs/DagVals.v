(* Proofs/DagVals.v — C02, graph level, part 5: the VALUES stored in a channel.
   Invariant EV: for a channel t that has not been read and is not skipped, a value is stored for source p
   exactly when p is a declared data predecessor of t that has been resolved with an output out for which it
   routes data to t (data edge, or selected by one of its branches), and the value is that output as it
   travels over the edge p -> t (field mapping applied). Hence the input handed to a node is the merge of
   the outputs of exactly the data predecessors that ran and routed to it. *)
From Eino Require Import Base.Util Model.Graph Proofs.DagChan Proofs.DagInv Proofs.DagLoop Proofs.DagTrig.
From Coq Require Import Lia Permutation.
Open Scope N_scope.

Section DagVals.
  Variable V : Type.
  Variable ops : vops V.
  Variable g : graph.
  Hypothesis Hdag : g_mode g = Dag.
  Hypothesis Hnk : NoDup (map n_key (g_nodes g)).

  Notation chan := (chan V).
  Notation chans := (chans V).
  Notation Inv := (Inv V g).
  Notation skipped := (skipped V).
  Notation sk_mono := (sk_mono V).
  Notation GW := (GW V ops g).
  Notation live := (live V).

  Definition val_spec (Rv : list (key * V)) (t p : key) (v : V) : Prop :=
    In p (dpreds g t)
    /\ exists out n, In (p, out) Rv /\ find_node g p = Some n /\ routes_d V ops n out t /\ v = edge_value V ops n t out.

  Definition EV (cs : chans) (Rv : list (key * V)) (G : list key) : Prop :=
    forall t c, live cs G t c -> forall p v, alookup p (c_vals V c) = Some v <-> val_spec Rv t p v.

  Lemma val_spec_mono Rv Rv' t p v : incl Rv Rv' -> val_spec Rv t p v -> val_spec Rv' t p v.
  Proof. intros Hi (Hd & out & n & Hin & H). split; [assumption|]. exists out, n. split; [now apply Hi|assumption]. Qed.

  (* ---------- skip reports never touch the values ---------- *)
  Definition vals_frame (cs cs' : chans) : Prop :=
    akeys cs' = akeys cs
    /\ forall t c c', alookup t cs = Some c -> alookup t cs' = Some c' -> c_vals V c' = c_vals V c.

  Lemma vals_frame_refl cs : vals_frame cs cs.
  Proof. split; [reflexivity|]. intros t c c' E E'. congruence. Qed.

  Lemma vals_frame_trans a b c : vals_frame a b -> vals_frame b c -> vals_frame a c.
  Proof.
    intros [E1 H1] [E2 H2]. split; [congruence|].
    intros t ca cc Ea Ec. destruct (alookup t b) as [cb|] eqn:Eb.
    - rewrite (H2 t cb cc Eb Ec). now apply (H1 t ca cb).
    - apply (alookup_same_keys b a t E1) in Eb. congruence.
  Qed.

  Lemma EV_frame cs cs' Rv G : EV cs Rv G -> vals_frame cs cs' -> sk_mono cs cs' -> EV cs' Rv G.
  Proof.
    intros HE [Ek Hf] [_ Hm] t c' (E' & HnG & S') p v.
    destruct (alookup t cs) as [c|] eqn:E.
    2:{ apply (alookup_same_keys cs cs' t (eq_sym Ek)) in E. congruence. }
    rewrite (Hf t c c' E E').
    apply HE. split; [assumption|]. split; [assumption|].
    destruct (c_skipped V c) eqn:S; [|reflexivity].
    assert (Hs : skipped cs' t) by (apply Hm; exists c; auto).
    destruct Hs as (c2 & E2 & S2). congruence.
  Qed.

  Lemma dag_report_skip_vals (c : chan) ks : c_vals V (fst (dag_report_skip V c ks)) = c_vals V c.
  Proof. rewrite dag_report_skip_eq. simpl. apply skip_steps_vals. Qed.

  Lemma rst_body_frame from cs0 nw0 t cs1 nw1 :
    rst_body V from (cs0, nw0) t = (cs1, nw1) -> vals_frame cs0 cs1.
  Proof.
    unfold rst_body. destruct (alookup t cs0) as [c|] eqn:Et; [|intros [= <- <-]; apply vals_frame_refl].
    destruct (dag_report_skip V c [from]) as [c' sk] eqn:Esk. intros [= <- <-].
    split; [apply akeys_upd_chan|].
    intros t' c0 c1 E0. rewrite alookup_upd_chan. destruct (N.eqb_spec t' t) as [->|].
    - rewrite E0. simpl. intros [= <-]. rewrite Et in E0. injection E0 as <-.
      change c' with (fst (c', sk)). rewrite <- Esk. apply dag_report_skip_vals.
    - intros E1. congruence.
  Qed.

  Lemma rst_fold_frame from targets : forall cs0 nw0 cs1 nw1,
    fold_left (rst_body V from) targets (cs0, nw0) = (cs1, nw1) -> vals_frame cs0 cs1.
  Proof.
    induction targets as [|t targets IH]; intros cs0 nw0 cs1 nw1 H; cbn [fold_left] in H.
    - injection H as <- <-. apply vals_frame_refl.
    - destruct (rst_body V from (cs0, nw0) t) as [csm nwm] eqn:Eb.
      eapply vals_frame_trans; [eapply rst_body_frame; eassumption|eapply IH; eassumption].
  Qed.

  Lemma propagate_frame fuel : forall work cs cs', propagate V g fuel work cs = Ok cs' -> vals_frame cs cs'.
  Proof.
    induction fuel as [|fuel IH]; intros work cs cs'; destruct work as [|k work]; simpl.
    - intros [= <-]. apply vals_frame_refl.
    - discriminate.
    - intros [= <-]. apply vals_frame_refl.
    - destruct (find_node g k) as [n|]; [|discriminate].
      destruct (report_skip_to V cs k (succs n)) as [cs1 newly] eqn:Er. intros Hp.
      rewrite report_skip_to_eq in Er.
      eapply vals_frame_trans; [eapply rst_fold_frame; eassumption|eapply IH; eassumption].
  Qed.

  Lemma report_branch_frame from sk cs cs' : report_branch V g from sk cs = Ok cs' -> vals_frame cs cs'.
  Proof.
    unfold report_branch. rewrite Hdag.
    destruct (report_skip_to V cs from sk) as [cs1 newly] eqn:Er. intros Hp.
    rewrite report_skip_to_eq in Er.
    eapply vals_frame_trans; [eapply rst_fold_frame; eassumption|eapply propagate_frame; eassumption].
  Qed.

  Lemma resolve_all_frame completed : forall cs cs' ws ds,
    resolve_all V ops g completed cs = Ok (cs', ws, ds) -> vals_frame cs cs'.
  Proof.
    induction completed as [|[k out] completed IH]; intros cs cs' ws ds; cbn [resolve_all].
    - intros [= <- _ _]. apply vals_frame_refl.
    - destruct (find_node g k) as [n|]; [|discriminate].
      destruct (resolve_one V ops g n out cs) as [[[cs1 w1] d1]|e|] eqn:E1; simpl; [|discriminate..].
      destruct (resolve_all V ops g completed cs1) as [[[cs2 w2] d2]|e|] eqn:E2; simpl; [|discriminate..].
      intros [= <- _ _].
      eapply vals_frame_trans; [|eapply IH; eassumption].
      unfold resolve_one in E1. destruct (eval_branches V ops n out) as [[sel sk]|e|]; simpl in E1; [|discriminate..].
      destruct (report_branch V g (n_key n) sk cs) as [cs1'|e|] eqn:Er; simpl in E1; [|discriminate..].
      injection E1 as <- _ _. eapply report_branch_frame; eassumption.
  Qed.

  (* ---------- update_chans ---------- *)
  Lemma upd1_vals ws ds t (c : chan) :
    c_vals V (upd1 V g ws ds t c) = c_vals V (dag_report_values V c (incoming_vals V g t ws)).
  Proof. unfold upd1. now destruct (dag_report_deps_rest V (dag_report_values V c (incoming_vals V g t ws)) (incoming_deps g t ds)) as (_ & _ & ->). Qed.

  Lemma update_chans_EV cs R Rv Cp G ws ds cs' :
    Inv cs R G [] -> EV cs Rv G -> GW Rv Cp G -> ws_spec V ops g Cp ws ->
    update_chans V g ws ds cs = Ok cs' -> EV cs' (Rv ++ Cp) G.
  Proof.
    intros HI HE HG Hws. unfold update_chans. destruct (targets_exist V cs ws ds); [|discriminate].
    intros [= <-]. rewrite (update_chans_eq V g Hdag).
    set (cs' := map (fun kv : N * chan => (fst kv, upd1 V g ws ds (fst kv) (snd kv))) cs).
    assert (Hlk : forall t, alookup t cs' = option_map (upd1 V g ws ds t) (alookup t cs)).
    { intros t. unfold cs'. exact (alookup_map_snd (fun kv => upd1 V g ws ds (fst kv) (snd kv)) t cs). }
    pose proof (inv_wf _ _ _ _ _ _ HI) as (_ & _ & Hall).
    intros t c' (E' & HnG & S') p v.
    rewrite Hlk in E'. destruct (alookup t cs) as [c|] eqn:E; [|discriminate]. simpl in E'. injection E' as <-.
    rewrite upd1_skipped in S'.
    assert (HL : live cs G t c) by (split; [assumption|split; assumption]).
    destruct (Hall t c E) as (Hok & _ & Hdw).
    rewrite upd1_vals, dag_report_values_eq, S'.
    set (ins := incoming_vals V g t ws).
    destruct (in_dec N.eq_dec p (akeys ins)) as [Hin|Hnin].
    - (* p writes to t in this batch *)
      pose proof (proj1 (in_incoming_vals_keys V g t ws p) Hin) as (Hdp & v0 & Hw0).
      destruct (proj1 (Hws t p v0) Hw0) as (out & n & HCp & Hf & Hr & ->).
      assert (Hsame : forall w, In (p, w) ins -> w = edge_value V ops n t out).
      { intros w Hw. apply in_incoming_vals_iff in Hw. destruct Hw as (_ & Hw).
        destruct (proj1 (Hws t p w) Hw) as (out' & n' & HCp' & Hf' & _ & ->).
        rewrite Hf in Hf'. injection Hf' as <-.
        assert (out' = out) by (eapply GW_unique; [exact HG| |]; apply in_app_iff; right; eassumption).
        now subst. }
      assert (Hd : data_st V c p <> None) by now apply Hdw.
      rewrite (val_steps_vals_in V c ins p (edge_value V ops n t out) Hd Hin Hsame).
      split.
      + intros [= <-]. split; [assumption|]. exists out, n. split; [apply in_app_iff; now right|auto].
      + intros (_ & out' & n' & Hin' & Hf' & _ & ->). rewrite Hf in Hf'. injection Hf' as <-.
        assert (out' = out).
        { eapply GW_unique; [exact HG|exact Hin'|apply in_app_iff; now right]. }
        now subst.
    - rewrite (val_steps_vals_other V c ins p Hnin). rewrite (HE t c HL p v). split.
      + apply val_spec_mono. intros x Hx. apply in_app_iff. now left.
      + intros (Hdp & out & n & Hin' & Hf & Hr & ->). apply in_app_iff in Hin'. destruct Hin' as [HRv|HCp].
        * split; [assumption|]. exists out, n. auto.
        * exfalso. apply Hnin. apply in_incoming_vals_keys. split; [assumption|].
          exists (edge_value V ops n t out). apply Hws. exists out, n. auto.
  Qed.

  (* ---------- get_all ---------- *)
  Lemma get_all_EV cs R Rv G cs' ready :
    Inv cs R G [] -> EV cs Rv G -> get_all V ops g cs = Ok (cs', ready) -> EV cs' Rv (G ++ akeys ready).
  Proof.
    intros HI HE Hg.
    pose proof (inv_wf _ _ _ _ _ _ HI) as (Hks & _ & _).
    destruct (get_all_spec V ops g Hdag cs cs' ready Hks Hg) as (_ & _ & _ & Hspec).
    intros t c' (E' & HnG & S'). specialize (Hspec t).
    destruct (alookup t cs) as [c|] eqn:E.
    - destruct Hspec as (ov & c2 & G1 & G2 & G3). rewrite E' in G2. injection G2 as <-.
      destruct (dag_get_cases V ops c ov c' G1) as [(-> & -> & _)|(v & -> & _ & _ & _)].
      + apply HE. split; [assumption|]. split; [|assumption]. intros Hin. apply HnG. apply in_app_iff. now left.
      + exfalso. apply HnG. apply in_app_iff. right. simpl in G3. eapply alookup_some_key; eassumption.
    - destruct Hspec as [En _]. congruence.
  Qed.

  (* what a ready channel delivers *)
  Definition input_spec (Rv : list (key * V)) (t : key) (w : V) : Prop :=
    exists vals v, ksorted vals
      /\ (forall p u, alookup p vals = Some u <-> val_spec Rv t p u)
      /\ get_merge V ops vals = Ok v /\ w = pre_node V ops g t v.

  Lemma get_all_inputs cs R Rv G cs' ready :
    Inv cs R G [] -> EV cs Rv G -> get_all V ops g cs = Ok (cs', ready) ->
    forall t w, alookup t ready = Some w -> input_spec Rv t w.
  Proof.
    intros HI HE Hg t w Hr.
    pose proof (inv_wf _ _ _ _ _ _ HI) as (Hks & Hst & Hall).
    destruct (get_all_spec V ops g Hdag cs cs' ready Hks Hg) as (_ & _ & _ & Hspec).
    specialize (Hspec t). destruct (alookup t cs) as [c|] eqn:E.
    2:{ destruct Hspec as [_ En]. congruence. }
    destruct Hspec as (ov & c2 & G1 & _ & G3). rewrite Hr in G3.
    destruct (dag_get_cases V ops c ov c2 G1) as [(-> & _ & _)|(v & -> & _ & Hrdy & Hm)]; [discriminate|].
    simpl in G3. injection G3 as ->.
    pose proof (Hall t c E) as Hcwf. pose proof Hcwf as ((_ & _ & Hvs) & _).
    assert (Hns : c_skipped V c = false).
    { apply dag_ready_iff in Hrdy; [|apply Hcwf]. tauto. }
    assert (HnG : ~ In t G).
    { intros HtG. assert (Hne : t <> kSTART) by (intros ->; congruence).
      destruct (inv_B _ _ _ _ _ _ HI t HtG Hne) as (c0 & E0 & _ & F0 & P0 & _).
      rewrite E in E0. injection E0 as <-.
      rewrite (fresh_not_ready V g t c Hcwf F0 P0) in Hrdy. discriminate. }
    exists (c_vals V c), v. split; [assumption|]. split; [|split; [assumption|reflexivity]].
    apply HE. split; [assumption|split; assumption].
  Qed.

  (* ---------- calc_next ---------- *)
  Lemma calc_next_EV cs R Rv G completed cs' ready :
    Inv cs R G [] -> orph V g cs -> NoDup G -> ET V ops g cs Rv [] G [] -> GW Rv [] G -> EV cs Rv G ->
    NoDup (akeys completed) ->
    (forall k, In k (akeys completed) -> In k G /\ npred g G k /\ ~ In k (akeys Rv)) ->
    calc_next V ops g cs completed = Ok (cs', ready) ->
    EV cs' (Rv ++ completed) (G ++ akeys ready)
    /\ forall t w, alookup t ready = Some w -> input_spec (Rv ++ completed) t w.
  Proof.
    intros HI Ho Hnd HE HG HV HndC Hc. unfold calc_next.
    destruct (resolve_all V ops g completed cs) as [[[cs1 ws] ds]|e|] eqn:E1; simpl; [|discriminate..].
    destruct (update_chans V g ws ds cs1) as [cs2|e|] eqn:E2; simpl; [|discriminate..].
    intros E3.
    set (R' := akeys completed ++ R).
    assert (HR' : incl R' G).
    { intros x Hx. apply in_app_iff in Hx. destruct Hx as [Hx|Hx]; [exact (proj1 (Hc x Hx))|now apply (inv_RG _ _ _ _ _ _ HI)]. }
    assert (HI' : Inv cs R' G []).
    { apply Inv_grow_R with R; [|assumption..]. intros x Hx. apply in_app_iff. now right. }
    assert (Hnp : forall k, In k (akeys completed) -> In k R' /\ npred g G k).
    { intros k Hk. split; [apply in_app_iff; now left|]. exact (proj1 (proj2 (Hc k Hk))). }
    assert (Hc' : forall k, In k (akeys completed) -> In k R' /\ In k G /\ npred g G k /\ ~ In k (akeys (Rv ++ []))).
    { intros k Hk. destruct (Hc k Hk) as (A & B & C). rewrite app_nil_r. repeat split; try assumption. apply in_app_iff. now left. }
    destruct (resolve_all_inv V ops g Hdag completed cs R' G cs1 ws ds HI' Hnp E1) as (HI1 & Hm1 & Hws & Hds).
    destruct (resolve_all_ET V ops g Hdag Hnk completed cs R' Rv [] G cs1 ws ds HI' HE HG HndC Hc' E1) as (_ & HG1 & _ & Hwsp).
    simpl in HG1.
    assert (HV1 : EV cs1 Rv G).
    { eapply EV_frame; [exact HV|eapply resolve_all_frame; eassumption|exact Hm1]. }
    destruct (update_chans_inv V g Hdag cs1 R' G ws ds cs2 HI1
                (fun w Hw => Hnp _ (Hws w Hw)) (fun d Hd => Hnp _ (Hds d Hd)) E2) as (HI2 & Hm2).
    pose proof (update_chans_EV cs1 R' Rv completed G ws ds cs2 HI1 HV1 HG1 Hwsp E2) as HV2.
    split.
    - eapply get_all_EV; eassumption.
    - eapply get_all_inputs; eassumption.
  Qed.

  (* ---------- the initial table ---------- *)
  Lemma init_v0_EV : EV (init_chans_v0 V g) [] [kSTART].
  Proof.
    intros t c (E & _ & _) p v. rewrite (init_v0_lookup V g) in E. destruct (memb t (chan_keys g)); [|discriminate].
    injection E as <-. unfold chan_init. rewrite Hdag. simpl. split; [discriminate|].
    intros (_ & out & n & [] & _).
  Qed.

  Lemma init_chans_EV cs : init_chans V g = Ok cs -> EV cs [] [kSTART].
  Proof.
    unfold init_chans. rewrite Hdag. intros Hrb.
    assert (HtG : forall t c, In t (unreachable_nodes g) -> alookup t (init_chans_v0 V g) = Some c -> ~ In t [kSTART]).
    { intros t c _ E [<-|[]]. rewrite (start_no_chan V g _ _ _ _ (init_v0_inv V g Hdag)) in E. discriminate. }
    destruct (report_branch_inv V g Hdag _ [kSTART] [kSTART] kSTART _ cs (init_v0_inv V g Hdag) (or_introl eq_refl) HtG Hrb)
      as (_ & Hm & _).
    eapply EV_frame; [exact init_v0_EV|eapply report_branch_frame; eassumption|exact Hm].
  Qed.
End DagVals.
