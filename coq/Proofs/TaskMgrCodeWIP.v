(* WIP: nothing imports this file *)
From Eino Require Import Base.Util Model.TaskMgr Model.TaskMgrCode Proofs.TaskMgr Proofs.TaskMgrCode.

(* the executor goes through lock, push, unlock in the order of the deferred function's text *)
Definition spos (o : option (stage * bres)) : option nat :=
  match o with
  | Some (ERun, _) => Some 0 | Some (ELk, _) => Some 1 | Some (ETop, _) | Some (EOut, _) => Some 2
  | Some (EDone, _) => Some 3 | None => None
  end.

Definition ev_task (e : ev) : option task :=
  match e with EvLockE t | EvPush t _ | EvUnlockE t => Some t | _ => None end.

Lemma executor_cycle : forall s e s' i t,
  exec_ev s e = Some s' -> ev_task e = Some t -> nth_error exec_cycle i = Some (tk_of e) ->
  spos (get_pc t (epcs s)) = Some i /\ spos (get_pc t (epcs s')) = Some (S i).
Proof.
  intros s e s' i t H Ht Hi. rewrite exec_cycle_is in Hi.
  destruct i as [|[|[|i]]]; cbn in Hi; try (destruct i; discriminate Hi);
    injection Hi as Hk; destruct e; try discriminate Hk; clear Hk;
    cbn in Ht; injection Ht as <-; unfold exec_ev in H.
  - destruct (get_pc t0 (epcs s)) as [[[] b]|] eqn:Ep; try discriminate H.
    destruct (lock s); try discriminate H. injection H as <-. cbn [epcs].
    rewrite (get_pc_set t0 t0 ELk ERun b _ Ep), N.eqb_refl. split; reflexivity.
  - destruct (lock s) as [|h|]; try discriminate H.
    destruct (get_pc t0 (epcs s)) as [[[] b]|] eqn:Ep; try discriminate H.
    destruct (N.eqb t0 h && Bool.eqb e (err_of b)); try discriminate H. injection H as <-. cbn [epcs].
    rewrite (get_pc_set t0 t0 ETop ELk b _ Ep), N.eqb_refl. split; reflexivity.
  - destruct (lock s) as [|h|]; try discriminate H.
    destruct (get_pc t0 (epcs s)) as [[p b]|] eqn:Ep; try discriminate H.
    destruct (N.eqb t0 h && match p with ETop => is_nil (l s) | EOut => true | _ => false end) eqn:Eg; try discriminate H.
    injection H as <-. cbn [epcs].
    rewrite (get_pc_set t0 t0 EDone p b _ Ep), N.eqb_refl.
    destruct p; try (rewrite Bool.andb_false_r in Eg; discriminate Eg); split; reflexivity.
Qed.
