(* Proofs/Graph.v — lemmas about the shared engine model (Model/Graph.v). *)
From Eino Require Import Base.Util Model.Graph.
From Coq Require Import Lia Permutation.
Open Scope N_scope.

Lemma max_steps_default : forall g, g_max g = 0%nat -> max_steps g = (List.length (real_nodes g) + 10)%nat.
Proof. intros g H. unfold max_steps, default_limit_of. rewrite H. reflexivity. Qed.
