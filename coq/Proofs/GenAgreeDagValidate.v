(* Proofs/GenAgreeDagValidate.v — property C02, translator tie for the cycle check of all-predecessor graphs.

   Gen/DagTablesCode.v is regenerated on every run by tools/go2v (extractor "dagtables") from compose/graph.go;
   [validateDAG] is the statement-by-statement translation of the Go function validateDAG: the in-degree map
   (m[node] = len(controlPredecessors[node]) minus the entries equal to START), the loop `for hasChanged` that ranges
   over the map and, for every node whose counter is 0, decrements the counters of its control successors and of
   the end nodes of its branches IN PLACE and marks it -1, and the final test "some counter > 0".  Go ranges over
   the map in arbitrary order; the translation uses key order.  The model (Model/DagValidate.v, [validate_dag]) is
   Kahn's algorithm in rounds on the list of nodes.  This file proves

     gen_validateDAG_agrees : for every graph g with wf_dag g = true (distinct node keys; every control successor
        and branch end other than END is a node; a branch lists an end node once; END is not a node key), fed with
        the predecessor table that the translated compile step computes ([gen_tables], Proofs/GenAgreeDagTables.v)
        and with fuel >= |nodes| + 2 for the translated `for hasChanged` loop:
          validateDAG = if validate_dag g then Ok tt else Err eDagLoop
        — the Go function accepts exactly the graphs the model accepts (which are exactly the graphs whose control
        dependencies have a topological order: validateDAG_iff_acyclic), and its unbounded loop ends.

   Proof: invariant of the in-place loop — a counter is -1 (the node was removed: all its control predecessors
   were removed before it, by a ghost rank) or equals the number of control dependencies from nodes not yet
   removed; a pass that removes nothing leaves no counter 0; acceptance gives a rank (validate_dag_complete),
   rejection contradicts a rank at a not-removed node of minimal rank (validate_dag_sound). *)
From Eino Require Import Base.Util Model.Graph Model.DagValidate Model.DagGenLib Proofs.DagChan Proofs.DagValidate Proofs.GenAgreeDagTables.
From Eino Require Gen.DagTablesCode.
From Coq Require Import Lia.
Open Scope N_scope.

Module GT := Gen.DagTablesCode.

(* checkable well-formedness of a graph of the model (what graph.AddEdge / AddBranch / addNode guarantee) *)
Fixpoint nodupb (l : list key) : bool := match l with [] => true | a :: l' => negb (memb a l') && nodupb l' end.

Lemma nodupb_NoDup : forall l, nodupb l = true -> NoDup l.
Proof.
  intros l. induction l as [|a l IH]; simpl; intros H; [constructor|].
  apply andb_true_iff in H. destruct H as [H1 H2]. constructor; [|apply IH, H2].
  apply negb_true_iff in H1. apply memb_false in H1. exact H1.
Qed.

Definition wf_dag (g : graph) : bool :=
  let rn := real_nodes g in let ks := map n_key rn in
  nodupb ks
  && forallb (fun n => forallb (fun t => N.eqb t kEND || memb t ks) (n_csucc n ++ branch_ends_of n false)) rn
  && forallb (fun n => forallb (fun b => nodupb (b_ends b)) (n_branches n)) (g_nodes g)
  && negb (memb kEND ks).

(* ---------------------------------------------------------------- map[string]int *)
Lemma im_get_set_eq : forall k v m, im_get k (im_set k v m) = v.
Proof. intros. unfold im_get, im_set. rewrite alookup_ainsert_eq. reflexivity. Qed.
Lemma im_get_set_neq : forall k k' v m, k' <> k -> im_get k' (im_set k v m) = im_get k' m.
Proof. intros. unfold im_get, im_set. rewrite alookup_ainsert_neq by assumption. reflexivity. Qed.
Lemma im_keys_set : forall k k' v m, In k' (akeys (im_set k v m)) <-> k' = k \/ In k' (akeys m).
Proof. intros. unfold im_set. apply akeys_ainsert. Qed.
Lemma im_sorted_set : forall k v m, ksorted m -> ksorted (im_set k v m).
Proof. intros. unfold im_set. apply ksorted_ainsert. assumption. Qed.

(* the two decrement loops of one removed node, in the shape the translator emits them *)
Definition dec_step := fun (st_ : list (key * Z)) (x_ : key) =>
  let m := st_ in let subNode := x_ in
  if (N.eqb subNode kEND) then m else (let m := im_set subNode (Z.sub (im_get subNode m) (1)%Z) m in m).

Lemma dec_loop_get : forall l m t, t <> kEND ->
  im_get t (fold_left dec_step l m) = (im_get t m - Z.of_nat (count_occ N.eq_dec l t))%Z.
Proof.
  intros l. induction l as [|s l IH]; intros m t Ht; simpl; [lia|].
  rewrite IH by exact Ht. unfold dec_step. destruct (N.eqb_spec s kEND) as [->|Hs].
  - destruct (N.eq_dec kEND t); [congruence|lia].
  - destruct (N.eq_dec s t) as [->|Hne].
    + rewrite im_get_set_eq. lia.
    + rewrite im_get_set_neq by congruence. lia.
Qed.

Lemma dec_loop_keys : forall l m k,
  In k (akeys (fold_left dec_step l m)) <-> In k (akeys m) \/ (In k l /\ k <> kEND).
Proof.
  intros l. induction l as [|s l IH]; intros m k; simpl; [tauto|].
  rewrite IH. unfold dec_step. destruct (N.eqb_spec s kEND) as [->|Hs].
  - intuition congruence.
  - rewrite im_keys_set. intuition congruence.
Qed.

Lemma dec_loop_sorted : forall l m, ksorted m -> ksorted (fold_left dec_step l m).
Proof.
  intros l. induction l as [|s l IH]; intros m H; simpl; [exact H|]. apply IH. unfold dec_step.
  destruct (N.eqb s kEND); [exact H|apply im_sorted_set, H].
Qed.

Definition bdec_step := fun (st_ : list (key * Z)) (x_ : branch) =>
  let m := st_ in let subBranch := x_ in
  let m := fold_left dec_step (b_ends subBranch) m in m.

Lemma bdec_loop_get : forall bs m t, t <> kEND ->
  im_get t (fold_left bdec_step bs m)
  = (im_get t m - Z.of_nat (List.length (flat_map (fun b => repeat t (count_occ N.eq_dec (b_ends b) t)) bs)))%Z.
Proof.
  intros bs. induction bs as [|b bs IH]; intros m t Ht; simpl; [lia|].
  rewrite IH by exact Ht. unfold bdec_step. rewrite dec_loop_get by exact Ht. rewrite app_length, repeat_length. lia.
Qed.

Lemma bdec_loop_keys : forall bs m k,
  In k (akeys (fold_left bdec_step bs m)) <-> In k (akeys m) \/ (In k (flat_map b_ends bs) /\ k <> kEND).
Proof.
  intros bs. induction bs as [|b bs IH]; intros m k; simpl; [tauto|].
  rewrite IH. unfold bdec_step. rewrite dec_loop_keys, in_app_iff. tauto.
Qed.

Lemma bdec_loop_sorted : forall bs m, ksorted m -> ksorted (fold_left bdec_step bs m).
Proof.
  intros bs. induction bs as [|b bs IH]; intros m H; simpl; [exact H|]. apply IH. unfold bdec_step. apply dec_loop_sorted, H.
Qed.

(* removing node n: every successor loses cmult n t *)
Definition remove_node (n : node) (m : list (key * Z)) : list (key * Z) :=
  im_set (n_key n) (-1)%Z (fold_left bdec_step (n_branches n) (fold_left dec_step (n_csucc n) m)).

Lemma remove_node_get : forall n m t, t <> kEND -> t <> n_key n ->
  (forall b, In b (n_branches n) -> NoDup (b_ends b)) ->
  im_get t (remove_node n m) = (im_get t m - Z.of_nat (cmult n t))%Z.
Proof.
  intros n m t Ht Hn Hnd. unfold remove_node. rewrite im_get_set_neq by exact Hn.
  rewrite bdec_loop_get, dec_loop_get by exact Ht. unfold cmult.
  rewrite (length_flat_repeat_branches t t (n_branches n) Hnd). lia.
Qed.

Lemma remove_node_self : forall n m, im_get (n_key n) (remove_node n m) = (-1)%Z.
Proof. intros. unfold remove_node. apply im_get_set_eq. Qed.

Lemma remove_node_keys : forall n m k,
  In k (akeys (remove_node n m)) <-> k = n_key n \/ In k (akeys m) \/ ((In k (n_csucc n) \/ In k (flat_map b_ends (n_branches n))) /\ k <> kEND).
Proof.
  intros n m k. unfold remove_node. rewrite im_keys_set, bdec_loop_keys, dec_loop_keys. tauto.
Qed.

Lemma remove_node_sorted : forall n m, ksorted m -> ksorted (remove_node n m).
Proof. intros. unfold remove_node. apply im_sorted_set, bdec_loop_sorted, dec_loop_sorted. assumption. Qed.

(* ---------------------------------------------------------------- the invariant of the removal loop *)

Lemma NoDup_map_inj : forall {A B} (f : A -> B) l a b, NoDup (map f l) -> In a l -> In b l -> f a = f b -> a = b.
Proof.
  intros A B f l. induction l as [|x l IH]; intros a b H Ha Hb E; [destruct Ha|].
  simpl in H. inversion H as [|? ? Hx Hl]; subst.
  destruct Ha as [->|Ha], Hb as [->|Hb]; [reflexivity| | |apply IH; assumption].
  - elim Hx. rewrite E. apply in_map, Hb.
  - elim Hx. rewrite <- E. apply in_map, Ha.
Qed.

Lemma indeg_remove : forall (l : list node) n t,
  NoDup (map n_key l) -> In n l ->
  (indeg (filter (fun q => negb (N.eqb (n_key q) (n_key n))) l) t + cmult n t)%nat = indeg l t.
Proof.
  intros l n t. induction l as [|a l IH]; intros H Hin; [destruct Hin|].
  simpl in H. inversion H as [|? ? Ha Hl]; subst. simpl. destruct Hin as [->|Hin].
  - rewrite N.eqb_refl. simpl.
    assert (E : filter (fun q => negb (N.eqb (n_key q) (n_key n))) l = l).
    { clear IH H Hl. induction l as [|b l IHl]; simpl; [reflexivity|].
      destruct (N.eqb_spec (n_key b) (n_key n)) as [Eq|Ne]; simpl.
      - elim Ha. rewrite <- Eq. left. reflexivity.
      - rewrite IHl; [reflexivity|]. intros Hx. apply Ha. right. exact Hx. }
    rewrite E. unfold indeg. lia.
  - destruct (N.eqb_spec (n_key a) (n_key n)) as [Eq|Ne]; simpl.
    + elim Ha. rewrite Eq. apply in_map, Hin.
    + specialize (IH Hl Hin). unfold indeg in *. simpl. lia.
Qed.

Lemma alookup_keyed : forall (l : list node) n,
  NoDup (map n_key l) -> In n l -> alookup (n_key n) (map (fun n => (n_key n, n)) l) = Some n.
Proof.
  intros l n. induction l as [|a l IH]; intros H Hn; [destruct Hn|]. simpl in H. inversion H as [|? ? Ha Hl]; subst. simpl.
  destruct Hn as [->|Hn]; [rewrite N.eqb_refl; reflexivity|].
  destruct (N.eqb_spec (n_key n) (n_key a)) as [E|_]; [|apply IH; assumption].
  elim Ha. rewrite <- E. apply in_map, Hn.
Qed.

Lemma NoDup_map_filter : forall {A B} (f : A -> B) (p : A -> bool) l, NoDup (map f l) -> NoDup (map f (filter p l)).
Proof.
  intros A B f p l. induction l as [|a l IH]; intros H; simpl; [constructor|].
  simpl in H. inversion H as [|? ? Ha Hl]; subst.
  destruct (p a); simpl; [constructor|]; try (apply IH; exact Hl).
  intros Hx. apply Ha. apply in_map_iff in Hx. destruct Hx as [x [E Hx]]. apply filter_In in Hx.
  rewrite <- E. apply in_map. tauto.
Qed.

Lemma filter_and : forall {A} (a b : A -> bool) l, filter (fun x => a x && b x) l = filter b (filter a l).
Proof.
  intros A a b l. induction l as [|x l IH]; simpl; [reflexivity|].
  destruct (a x); simpl; [destruct (b x); rewrite IH; reflexivity|exact IH].
Qed.

Section VD.
  Variable g : graph.
  Variable nil_node : node.
  Definition RN := real_nodes g.
  Definition K := map n_key RN.
  Definition ccmap := map (fun n => (n_key n, n)) RN.

  Hypothesis W1 : NoDup K.
  Hypothesis W2 : forall n t, In n RN -> is_cpred n t = true -> t <> kEND -> In t K.
  Hypothesis W3 : forall n b, In n (g_nodes g) -> In b (n_branches n) -> NoDup (b_ends b).
  Hypothesis W4 : ~ In kEND K.

  Lemma RN_in_nodes : forall n, In n RN -> In n (g_nodes g).
  Proof. intros n H. unfold RN, real_nodes in H. apply filter_In in H. tauto. Qed.

  Lemma W3' : forall n b, In n RN -> In b (n_branches n) -> NoDup (b_ends b).
  Proof. intros n b Hn. apply W3, RN_in_nodes, Hn. Qed.

  Lemma cc_at_node : forall n, In n RN -> GT.cc_at node nil_node (n_key n) ccmap = n.
  Proof. intros n Hn. unfold GT.cc_at, ccmap. rewrite (alookup_keyed RN n W1 Hn). reflexivity. Qed.

  Lemma key_inj : forall a b, In a RN -> In b RN -> n_key a = n_key b -> a = b.
  Proof. intros a b. apply NoDup_map_inj. exact W1. Qed.

  Lemma succ_in_K : forall n t, In n RN -> (cmult n t > 0)%nat -> t <> kEND -> In t K.
  Proof. intros n t Hn Hc Ht. apply (W2 n t Hn); [apply cmult_is_cpred, Hc|exact Ht]. Qed.

  Lemma key_not_end : forall n, In n RN -> n_key n <> kEND.
  Proof. intros n Hn E. apply W4. rewrite <- E. apply in_map, Hn. Qed.

  Definition is_undone (m : list (key * Z)) (n : node) : bool := negb (Z.eqb (im_get (n_key n) m) (-1)%Z).
  Definition undone (m : list (key * Z)) : list node := filter (is_undone m) RN.

  Record Inv (m : list (key * Z)) (rk : key -> nat) (c : nat) : Prop := {
    inv_sorted : ksorted m;
    inv_keys : forall k, In k (akeys m) <-> In k K;
    inv_done : forall n, In n RN -> im_get (n_key n) m = (-1)%Z ->
      (rk (n_key n) < c)%nat
      /\ forall p, In p RN -> (cmult p (n_key n) > 0)%nat ->
           im_get (n_key p) m = (-1)%Z /\ (rk (n_key p) < rk (n_key n))%nat;
    inv_undone : forall n, In n RN -> im_get (n_key n) m <> (-1)%Z ->
      im_get (n_key n) m = Z.of_nat (indeg (undone m) (n_key n));
  }.

  Lemma undone_in : forall m n, In n (undone m) <-> In n RN /\ im_get (n_key n) m <> (-1)%Z.
  Proof.
    intros m n. unfold undone, is_undone. rewrite filter_In, negb_true_iff, Z.eqb_neq. tauto.
  Qed.

  Lemma undone_nodup : forall m, NoDup (map n_key (undone m)).
  Proof. intros m. unfold undone. apply NoDup_map_filter. exact W1. Qed.

  (* removing a node whose counter is 0 *)
  Lemma remove_step : forall m rk c n,
    Inv m rk c -> In n RN -> im_get (n_key n) m = 0%Z ->
    Inv (remove_node n m) (fun k => if N.eqb k (n_key n) then c else rk k) (S c)
    /\ (List.length (undone (remove_node n m)) < List.length (undone m))%nat.
  Proof.
    intros m rk c n HI Hn H0.
    assert (Hund : In n (undone m)) by (apply undone_in; split; [exact Hn|lia]).
    assert (Hz : forall p, In p (undone m) -> cmult p (n_key n) = O).
    { apply indeg_zero. pose proof (inv_undone _ _ _ HI n Hn ltac:(lia)) as E. lia. }
    (* a done node has no edge from n *)
    assert (Hdone0 : forall t, In t RN -> im_get (n_key t) m = (-1)%Z -> cmult n (n_key t) = O).
    { intros t Ht Hd. destruct (cmult n (n_key t)) eqn:E; [reflexivity|].
      destruct (inv_done _ _ _ HI t Ht Hd) as [_ Hp]. destruct (Hp n Hn ltac:(lia)) as [Hx _]. lia. }
    assert (Hget : forall t, In t RN -> n_key t <> n_key n ->
                   im_get (n_key t) (remove_node n m) = (im_get (n_key t) m - Z.of_nat (cmult n (n_key t)))%Z).
    { intros t Ht Hne. apply remove_node_get; [apply key_not_end, Ht|exact Hne|intros b Hb; apply (W3' n b Hn Hb)]. }
    assert (Hnonneg : forall t, In t RN -> im_get (n_key t) m <> (-1)%Z ->
                      (Z.of_nat (cmult n (n_key t)) <= im_get (n_key t) m)%Z).
    { intros t Ht Hu. rewrite (inv_undone _ _ _ HI t Ht Hu). apply inj_le.
      rewrite <- (indeg_remove (undone m) n (n_key t) (undone_nodup m) Hund). lia. }
    (* the undone nodes afterwards: the same without n *)
    assert (Hpred : forall q, In q RN ->
              is_undone (remove_node n m) q = is_undone m q && negb (N.eqb (n_key q) (n_key n))).
    { intros q Hq. unfold is_undone. destruct (N.eqb_spec (n_key q) (n_key n)) as [E|Ne].
      - rewrite E, remove_node_self. simpl. rewrite andb_false_r. reflexivity.
      - rewrite (Hget q Hq Ne), andb_true_r. destruct (Z.eqb_spec (im_get (n_key q) m) (-1)%Z) as [Ed|Eu].
        + rewrite (Hdone0 q Hq Ed), Ed. reflexivity.
        + pose proof (Hnonneg q Hq Eu). simpl. apply negb_true_iff, Z.eqb_neq. lia. }
    assert (Hundone' : undone (remove_node n m) = filter (fun q => negb (N.eqb (n_key q) (n_key n))) (undone m)).
    { unfold undone. rewrite <- filter_and. apply filter_ext_in. intros q Hq. apply (Hpred q Hq). }
    split; [constructor|].
    - apply remove_node_sorted, (inv_sorted _ _ _ HI).
    - intros k. rewrite remove_node_keys, (inv_keys _ _ _ HI). split; [|tauto].
      intros [->|[H|[[H|H] Hk]]]; [apply in_map, Hn|exact H| |].
      + apply (W2 n k Hn); [|exact Hk]. unfold is_cpred. apply orb_true_iff. left. apply memb_in, H.
      + apply (W2 n k Hn); [|exact Hk]. unfold is_cpred. apply orb_true_iff. right. apply memb_in. exact H.
    - intros t Ht Hd. destruct (N.eqb_spec (n_key t) (n_key n)) as [E|Ne].
      + assert (t = n) by (apply key_inj; assumption). subst t. split; [lia|].
        intros p Hp Hc. assert (Hpd : im_get (n_key p) m = (-1)%Z).
        { destruct (Z.eq_dec (im_get (n_key p) m) (-1)%Z) as [E1|E1]; [exact E1|].
          assert (In p (undone m)) by (apply undone_in; tauto). rewrite (Hz p H) in Hc. lia. }
        assert (Hpn : n_key p <> n_key n) by (intros E2; rewrite E2 in Hpd; lia).
        split.
        * rewrite (Hget p Hp Hpn), (Hdone0 p Hp Hpd), Hpd. reflexivity.
        * apply N.eqb_neq in Hpn. rewrite Hpn. apply (inv_done _ _ _ HI p Hp Hpd).
      + assert (Hdm : im_get (n_key t) m = (-1)%Z).
        { destruct (Z.eq_dec (im_get (n_key t) m) (-1)%Z) as [E1|E1]; [exact E1|].
          pose proof (Hnonneg t Ht E1). rewrite (Hget t Ht Ne) in Hd. lia. }
        destruct (inv_done _ _ _ HI t Ht Hdm) as [Hr Hp]. split; [lia|].
        intros p Hpin Hc. destruct (Hp p Hpin Hc) as [Hpd Hpr].
        assert (Hpn : n_key p <> n_key n) by (intros E2; rewrite E2 in Hpd; lia).
        split.
        * rewrite (Hget p Hpin Hpn), (Hdone0 p Hpin Hpd), Hpd. reflexivity.
        * apply N.eqb_neq in Hpn. rewrite Hpn. exact Hpr.
    - intros t Ht Hu. destruct (N.eqb_spec (n_key t) (n_key n)) as [E|Ne].
      + rewrite E, remove_node_self in Hu. congruence.
      + assert (Hum : im_get (n_key t) m <> (-1)%Z).
        { intros Ed. apply Hu. rewrite (Hget t Ht Ne), (Hdone0 t Ht Ed), Ed. reflexivity. }
        rewrite (Hget t Ht Ne), (inv_undone _ _ _ HI t Ht Hum), Hundone'.
        rewrite <- (indeg_remove (undone m) n (n_key t) (undone_nodup m) Hund). lia.
    - rewrite Hundone'. apply filter_length_lt with (a := n); [exact Hund|]. rewrite N.eqb_refl. reflexivity.
  Qed.

  (* ---------------------------------------------------------------- one pass over the keys *)
  Definition pass_step := fun (st_ : (list (key * Z) * bool)) (x_ : key) =>
    let '(m, hasChanged) := st_ in let node := x_ in
    let '(m, hasChanged) := (if (Z.eqb (im_get node m) (0)%Z) then (let hasChanged := true in
        let m := fold_left dec_step (n_csucc (GT.cc_at Graph.node nil_node node ccmap)) m in
        let m := fold_left bdec_step (n_branches (GT.cc_at Graph.node nil_node node ccmap)) m in
        let m := im_set node (-1)%Z m in
        (m, hasChanged))
      else (m, hasChanged)) in
    (m, hasChanged).

  Lemma pass_step_node : forall n m f, In n RN ->
    pass_step (m, f) (n_key n) = if Z.eqb (im_get (n_key n) m) 0%Z then (remove_node n m, true) else (m, f).
  Proof.
    intros n m f Hn. unfold pass_step. rewrite (cc_at_node n Hn).
    destruct (Z.eqb (im_get (n_key n) m) 0%Z); reflexivity.
  Qed.

  Lemma pass_loop : forall ks m f rk c,
    (forall k, In k ks -> In k K) -> Inv m rk c ->
    exists m' f' rk' c', fold_left pass_step ks (m, f) = (m', f') /\ Inv m' rk' c'
      /\ ((f' = f /\ m' = m /\ forall k, In k ks -> im_get k m <> 0%Z)
          \/ (f' = true /\ (List.length (undone m') < List.length (undone m))%nat)).
  Proof.
    intros ks. induction ks as [|k ks IH]; intros m f rk c Hks HI; cbn [fold_left].
    - exists m, f, rk, c. split; [reflexivity|]. split; [exact HI|]. left. split; [reflexivity|]. split; [reflexivity|]. intros k [].
    - assert (Hk : In k K) by (apply Hks; left; reflexivity).
      apply in_map_iff in Hk. destruct Hk as [n [<- Hn]].
      rewrite (pass_step_node n m f Hn). destruct (Z.eqb_spec (im_get (n_key n) m) 0%Z) as [E0|E0].
      + destruct (remove_step m rk c n HI Hn E0) as [HI1 Hlt].
        destruct (IH (remove_node n m) true _ _ (fun k Hk => Hks k (or_intror Hk)) HI1) as [m' [f' [rk' [c' [Hf [HI' Hd]]]]]].
        exists m', f', rk', c'. split; [exact Hf|]. split; [exact HI'|]. right.
        destruct Hd as [[-> [-> _]]|[-> Hlt']]; split; try reflexivity; lia.
      + destruct (IH m f rk c (fun k Hk => Hks k (or_intror Hk)) HI) as [m' [f' [rk' [c' [Hf [HI' Hd]]]]]].
        exists m', f', rk', c'. split; [exact Hf|]. split; [exact HI'|].
        destruct Hd as [[-> [-> Hnz]]|Hd]; [left|right; exact Hd].
        split; [reflexivity|]. split; [reflexivity|]. intros k [<-|Hk]; [exact E0|apply Hnz, Hk].
  Qed.

  (* ---------------------------------------------------------------- the loop `for hasChanged` *)
  Definition loop_cond := fun (st_ : (list (key * Z) * bool)) => let '(m, hasChanged) := st_ in hasChanged.
  Definition loop_body := fun (st_ : (list (key * Z) * bool)) => let '(m, hasChanged) := st_ in
    let hasChanged := false in
    let '(m, hasChanged) := fold_left pass_step (map fst m) (m, hasChanged) in
    Ok (m, hasChanged).

  Lemma loop_terminates : forall fuel m rk c,
    Inv m rk c -> (List.length (undone m) + 1 < fuel)%nat ->
    exists m' rk' c', loop_fuel fuel loop_cond loop_body (m, true) = Ok (m', false)
      /\ Inv m' rk' c' /\ forall k, In k K -> im_get k m' <> 0%Z.
  Proof.
    intros fuel. induction fuel as [|fuel IH]; intros m rk c HI Hf; [lia|].
    simpl. unfold loop_body at 1.
    destruct (pass_loop (map fst m) m false rk c (fun k Hk => proj1 (inv_keys _ _ _ HI k) Hk) HI)
      as [m1 [f1 [rk1 [c1 [Hp [HI1 Hd]]]]]].
    rewrite Hp. simpl. destruct Hd as [[-> [-> Hnz]]|[-> Hlt]].
    - destruct fuel as [|fuel]; [lia|]. simpl. exists m, rk, c. split; [reflexivity|]. split; [exact HI|].
      intros k Hk. apply Hnz. apply (inv_keys _ _ _ HI). exact Hk.
    - apply (IH m1 rk1 c1 HI1). lia.
  Qed.

  (* ---------------------------------------------------------------- the final test *)
  Definition check_step := fun (st_ : unit) (x_ : (key * Z)) =>
    let _ := st_ in let k := fst x_ in let v := snd x_ in
    if (Z.ltb (0)%Z v) then (@Err unit eDagLoop) else (Ok tt).

  Lemma check_loop : forall m,
    fold_res check_step m tt = if existsb (fun kv : key * Z => Z.ltb 0%Z (snd kv)) m then Err eDagLoop else Ok tt.
  Proof.
    intros m. induction m as [|[k v] m IH]; simpl; [reflexivity|]. unfold check_step at 1. simpl.
    destruct (Z.ltb 0 v); simpl; [reflexivity|exact IH].
  Qed.

  (* ---------------------------------------------------------------- the initial in-degrees *)
  Definition start_step (node : key) := fun (st_ : list (key * Z)) (x_ : key) =>
    let m := st_ in let pre := x_ in
    let m := (if (N.eqb pre kSTART) then (let m := im_set node (Z.sub (im_get node m) (1)%Z) m in m) else m) in
    m.

  Definition init_step (cp : list (key * list key)) := fun (st_ : list (key * Z)) (x_ : key) =>
    let m := st_ in let node := x_ in
    let m := (match km_get node cp with
              | Some edges => (let m := im_set node (Z.of_nat (List.length edges)) m in
                               let m := fold_left (start_step node) edges m in m)
              | None => (let m := im_set node (0)%Z m in m)
              end) in
    m.

  Lemma start_step_eq : forall node m p,
    start_step node m p = if N.eqb p kSTART then im_set node (im_get node m - 1)%Z m else m.
  Proof. reflexivity. Qed.

  Lemma start_loop : forall node l m,
    im_get node (fold_left (start_step node) l m) = (im_get node m - Z.of_nat (count_occ N.eq_dec l kSTART))%Z
    /\ (forall k, k <> node -> im_get k (fold_left (start_step node) l m) = im_get k m)
    /\ (In node (akeys m) -> forall k, In k (akeys (fold_left (start_step node) l m)) <-> In k (akeys m))
    /\ (ksorted m -> ksorted (fold_left (start_step node) l m)).
  Proof.
    intros node l. induction l as [|p l IH]; intros m; cbn [fold_left count_occ].
    - split; [simpl; lia|]. split; [reflexivity|]. split; [tauto|auto].
    - destruct (IH (start_step node m p)) as [H1 [H2 [H3 H4]]]. rewrite start_step_eq in *.
      destruct (N.eqb_spec p kSTART) as [->|Hp].
      + destruct (N.eq_dec kSTART kSTART) as [_|Hx]; [|congruence].
        split; [rewrite H1, im_get_set_eq; lia|]. split; [intros k Hk; rewrite (H2 k Hk), im_get_set_neq by exact Hk; reflexivity|].
        split; [|intros Hs; apply H4, im_sorted_set, Hs].
        intros Hin k. rewrite H3 by (apply im_keys_set; right; exact Hin). rewrite im_keys_set. intuition congruence.
      + destruct (N.eq_dec p kSTART) as [Hx|_]; [congruence|]. split; [rewrite H1; lia|]. split; [exact H2|]. split; assumption.
  Qed.

  Lemma init_step_spec : forall cp m node,
    im_get node (init_step cp m node)
      = (Z.of_nat (List.length (km_at node cp)) - Z.of_nat (count_occ N.eq_dec (km_at node cp) kSTART))%Z
    /\ (forall k, k <> node -> im_get k (init_step cp m node) = im_get k m)
    /\ (forall k, In k (akeys (init_step cp m node)) <-> k = node \/ In k (akeys m))
    /\ (ksorted m -> ksorted (init_step cp m node)).
  Proof.
    intros cp m node. unfold init_step, km_at, km_get. destruct (alookup node cp) as [edges|]; simpl.
    - destruct (start_loop node edges (im_set node (Z.of_nat (List.length edges)) m)) as [H1 [H2 [H3 H4]]].
      split; [rewrite H1, im_get_set_eq; reflexivity|].
      split; [intros k Hk; rewrite (H2 k Hk), im_get_set_neq by exact Hk; reflexivity|].
      split; [|intros Hs; apply H4, im_sorted_set, Hs].
      intros k. rewrite H3 by (apply im_keys_set; left; reflexivity). apply im_keys_set.
    - split; [apply im_get_set_eq|]. split; [intros k Hk; apply im_get_set_neq, Hk|]. split; [intros k; apply im_keys_set|apply im_sorted_set].
  Qed.

  Lemma init_loop : forall cp ks m,
    NoDup ks ->
    (forall k, In k ks -> im_get k (fold_left (init_step cp) ks m)
       = (Z.of_nat (List.length (km_at k cp)) - Z.of_nat (count_occ N.eq_dec (km_at k cp) kSTART))%Z)
    /\ (forall k, ~ In k ks -> im_get k (fold_left (init_step cp) ks m) = im_get k m)
    /\ (forall k, In k (akeys (fold_left (init_step cp) ks m)) <-> In k ks \/ In k (akeys m))
    /\ (ksorted m -> ksorted (fold_left (init_step cp) ks m)).
  Proof.
    intros cp ks. induction ks as [|a ks IH]; intros m Hnd; simpl.
    - split; [intros k []|]. split; [reflexivity|]. split; [tauto|auto].
    - inversion Hnd as [|? ? Ha Hl]; subst. destruct (IH (init_step cp m a) Hl) as [H1 [H2 [H3 H4]]].
      destruct (init_step_spec cp m a) as [S1 [S2 [S3 S4]]].
      split; [|split; [|split]].
      + intros k [<-|Hk]; [rewrite (H2 a Ha); exact S1|apply H1, Hk].
      + intros k Hk. rewrite H2 by tauto. apply S2. intros ->. apply Hk. left. reflexivity.
      + intros k. rewrite H3, S3. intuition congruence.
      + intros Hs. apply H4, S4, Hs.
  Qed.

  (* the table of the compile step gives the in-degree among the real nodes *)
  Lemma flat_repeat_same : forall {A} (x : key) (h : A -> nat) (l : list A),
    flat_map (fun a => repeat x (h a)) l = repeat x (fold_right (fun a acc => (h a + acc)%nat) O l).
  Proof. intros A x h l. induction l as [|a l IH]; simpl; [reflexivity|]. rewrite IH, repeat_app. reflexivity. Qed.

  Lemma count_occ_repeat : forall (x y : key) k, count_occ N.eq_dec (repeat x k) y = if N.eqb x y then k else O.
  Proof.
    intros x y k. induction k as [|k IH]; simpl; [destruct (N.eqb x y); reflexivity|].
    destruct (N.eq_dec x y) as [->|Hne]; [rewrite N.eqb_refl in *; lia|].
    apply N.eqb_neq in Hne. rewrite Hne in *. exact IH.
  Qed.

  Lemma branch_part : forall (k : key) t (bs : list branch),
    (forall b, In b bs -> NoDup (b_ends b)) ->
    flat_map (fun b => repeat k (count_occ N.eq_dec (b_ends b) t)) bs
    = repeat k (List.length (filter (fun b => memb t (b_ends b)) bs)).
  Proof.
    intros k t bs H. rewrite flat_repeat_same. f_equal.
    rewrite <- (length_flat_repeat_branches t t bs H), flat_repeat_same, repeat_length. reflexivity.
  Qed.

  Lemma table_indeg_list : forall t (l : list node),
    (forall n b, In n l -> In b (n_branches n) -> NoDup (b_ends b)) ->
    (List.length (flat_map (fun n => repeat (n_key n) (count_occ N.eq_dec (n_csucc n) t)) l)
     + List.length (flat_map (fun n => flat_map (fun b => repeat (n_key n) (count_occ N.eq_dec (b_ends b) t)) (n_branches n)) l)
     = indeg (filter (fun n => negb (N.eqb (n_key n) kSTART)) l) t
       + (count_occ N.eq_dec (flat_map (fun n => repeat (n_key n) (count_occ N.eq_dec (n_csucc n) t)) l) kSTART
          + count_occ N.eq_dec (flat_map (fun n => flat_map (fun b => repeat (n_key n) (count_occ N.eq_dec (b_ends b) t)) (n_branches n)) l) kSTART))%nat.
  Proof.
    intros t l. induction l as [|n l IH]; intros Hnd; [reflexivity|].
    assert (IH' := IH (fun n' b Hn' Hb' => Hnd n' b (or_intror Hn') Hb')). clear IH.
    cbn [flat_map filter]. rewrite (branch_part (n_key n) t (n_branches n)) by (intros b Hb; apply (Hnd n b); [left; reflexivity|exact Hb]).
    rewrite !app_length, !count_occ_app, !repeat_length, !count_occ_repeat.
    destruct (N.eqb (n_key n) kSTART); cbn [negb indeg fold_right]; unfold indeg, cmult, key in *; lia.
  Qed.

  Lemma table_indeg : forall t,
    (List.length (control_spec g t) = indeg RN t + count_occ N.eq_dec (control_spec g t) kSTART)%nat.
  Proof.
    intros t. unfold control_spec, RN, real_nodes. rewrite app_length, count_occ_app. apply table_indeg_list. exact W3.
  Qed.

  (* ---------------------------------------------------------------- validateDAG *)
  Definition the_tables := fst (gen_tables g).

  Lemma init_inv : exists m0,
    fold_left (init_step the_tables) (map fst ccmap) (@nil (key * Z)) = m0 /\ Inv m0 (fun _ => O) O /\ undone m0 = RN.
  Proof.
    eexists. split; [reflexivity|].
    assert (EK : map fst ccmap = K). { unfold ccmap, K. rewrite map_map. reflexivity. }
    rewrite EK. destruct (init_loop the_tables K (@nil (key * Z)) W1) as [H1 [H2 [H3 H4]]].
    set (m0 := fold_left (init_step the_tables) K []) in *.
    assert (Hv : forall n, In n RN -> im_get (n_key n) m0 = Z.of_nat (indeg RN (n_key n))).
    { intros n Hn. rewrite H1 by (apply in_map, Hn). unfold the_tables. rewrite gen_control_table.
      pose proof (table_indeg (n_key n)). lia. }
    assert (Hu : undone m0 = RN).
    { unfold undone. rewrite <- (filter_ext_in (fun _ => true)).
      - clear. induction RN as [|a l IH]; simpl; [reflexivity|]. rewrite IH. reflexivity.
      - intros n Hn. unfold is_undone. rewrite (Hv n Hn). symmetry. apply negb_true_iff, Z.eqb_neq. lia. }
    split; [|exact Hu]. constructor.
    - apply H4. exact I.
    - intros k. rewrite H3. simpl. tauto.
    - intros n Hn Hd. rewrite (Hv n Hn) in Hd. lia.
    - intros n Hn _. rewrite Hu. apply Hv, Hn.
  Qed.

  Lemma all_done_accepts : forall m rk c,
    Inv m rk c -> undone m = [] ->
    existsb (fun kv : key * Z => Z.ltb 0%Z (snd kv)) m = false /\ validate_dag g = true.
  Proof.
    intros m rk c HI Hu.
    assert (Hd : forall n, In n RN -> im_get (n_key n) m = (-1)%Z).
    { intros n Hn. destruct (Z.eq_dec (im_get (n_key n) m) (-1)%Z) as [E|E]; [exact E|].
      assert (H : In n (undone m)) by (apply undone_in; tauto). rewrite Hu in H. destruct H. }
    split.
    - destruct (existsb _ m) eqn:E; [|reflexivity]. apply existsb_exists in E. destruct E as [[k v] [Hin Hv]]. simpl in Hv.
      assert (Hk : In k K). { apply (inv_keys _ _ _ HI). unfold akeys. apply in_map_iff. exists (k, v). split; [reflexivity|exact Hin]. }
      apply in_map_iff in Hk. destruct Hk as [n [<- Hn]].
      pose proof (ksorted_in_alookup _ _ _ (inv_sorted _ _ _ HI) Hin) as Ha.
      specialize (Hd n Hn). unfold im_get in Hd. rewrite Ha in Hd. subst v. discriminate.
    - apply (validate_dag_complete g rk). intros n n' Hn Hn' Hc.
      destruct (inv_done _ _ _ HI n' Hn' (Hd n' Hn')) as [_ Hp]. apply (Hp n Hn). apply is_cpred_cmult, Hc.
  Qed.

  Lemma some_undone_rejects : forall m rk c u,
    Inv m rk c -> (forall k, In k K -> im_get k m <> 0%Z) -> In u (undone m) ->
    existsb (fun kv : key * Z => Z.ltb 0%Z (snd kv)) m = true /\ validate_dag g = false.
  Proof.
    intros m rk c u HI Hnz Hu. split.
    - apply undone_in in Hu. destruct Hu as [Hn Hne].
      pose proof (inv_undone _ _ _ HI u Hn Hne) as Hv. pose proof (Hnz (n_key u) (in_map n_key _ _ Hn)) as H0.
      apply existsb_exists. exists (n_key u, im_get (n_key u) m). split; [|simpl; apply Z.ltb_lt; lia].
      unfold im_get in *. destruct (alookup (n_key u) m) as [v|] eqn:Ea; [apply alookup_in, Ea|congruence].
    - destruct (validate_dag g) eqn:Ev; [|reflexivity]. exfalso.
      destruct (validate_dag_sound g Ev) as [rank Hr].
      assert (Hne : undone m <> []) by (intros E; rewrite E in Hu; destruct Hu).
      destruct (min_rank rank (undone m) Hne) as [t [Ht Hmin]].
      pose proof Ht as Ht'. apply undone_in in Ht'. destruct Ht' as [Htn Htne].
      assert (Hz : indeg (undone m) (n_key t) = O).
      { apply indeg_all_zero. intros p Hp. destruct (cmult p (n_key t)) eqn:Ec; [reflexivity|]. exfalso.
        pose proof Hp as Hp'. apply undone_in in Hp'. destruct Hp' as [Hpn _].
        assert (Hlt : (rank (n_key p) < rank (n_key t))%nat) by (apply Hr; [exact Hpn|exact Htn|apply cmult_is_cpred; lia]).
        specialize (Hmin p Hp). lia. }
      apply (Hnz (n_key t) (in_map n_key _ _ Htn)). rewrite (inv_undone _ _ _ HI t Htn Htne), Hz. reflexivity.
  Qed.

  Theorem gen_validateDAG_agrees : forall fuel,
    (List.length RN + 2 <= fuel)%nat ->
    GT.validateDAG branch node nil_node b_ends n_csucc n_branches fuel ccmap the_tables
    = if validate_dag g then Ok tt else Err eDagLoop.
  Proof.
    intros fuel Hfuel. unfold GT.validateDAG.
    change (fold_left _ (map fst ccmap) (@nil (key * Z))) with (fold_left (init_step the_tables) (map fst ccmap) (@nil (key * Z))).
    destruct init_inv as [m0 [-> [HI0 Hu0]]].
    change (loop_fuel fuel _ _ (m0, true)) with (loop_fuel fuel loop_cond loop_body (m0, true)).
    destruct (loop_terminates fuel m0 _ _ HI0 ltac:(rewrite Hu0; lia)) as [m1 [rk1 [c1 [Hl [HI1 Hnz]]]]].
    rewrite Hl. cbn [res_bind].
    change (fold_res _ m1 tt) with (fold_res check_step m1 tt). rewrite check_loop.
    destruct (undone m1) as [|u us] eqn:Eu.
    - destruct (all_done_accepts m1 rk1 c1 HI1 Eu) as [-> ->]. reflexivity.
    - destruct (some_undone_rejects m1 rk1 c1 u HI1 Hnz ltac:(rewrite Eu; left; reflexivity)) as [-> ->]. reflexivity.
  Qed.
End VD.

Theorem gen_validateDAG_agrees_wf : forall (g : graph) (nil_node : node) (fuel : nat),
  wf_dag g = true -> (List.length (real_nodes g) + 2 <= fuel)%nat ->
  GT.validateDAG branch node nil_node b_ends n_csucc n_branches fuel (ccmap g) (the_tables g)
  = if validate_dag g then Ok tt else Err eDagLoop.
Proof.
  intros g nil_node fuel Hwf Hfuel. unfold wf_dag in Hwf.
  apply andb_true_iff in Hwf. destruct Hwf as [Hwf H4]. apply andb_true_iff in Hwf. destruct Hwf as [Hwf H3].
  apply andb_true_iff in Hwf. destruct Hwf as [H1 H2].
  apply gen_validateDAG_agrees; [| | | |exact Hfuel].
  - apply nodupb_NoDup, H1.
  - intros n t Hn Hc Ht. rewrite forallb_forall in H2. specialize (H2 n Hn). rewrite forallb_forall in H2.
    assert (Hin : In t (n_csucc n ++ branch_ends_of n false)).
    { unfold is_cpred in Hc. apply orb_true_iff in Hc. apply in_app_iff. destruct Hc as [Hc|Hc]; apply memb_in in Hc; tauto. }
    specialize (H2 t Hin). apply orb_true_iff in H2. destruct H2 as [H2|H2]; [apply N.eqb_eq in H2; congruence|apply memb_in, H2].
  - intros n b Hn Hb. rewrite forallb_forall in H3. specialize (H3 n Hn). rewrite forallb_forall in H3. apply nodupb_NoDup, (H3 b Hb).
  - apply negb_true_iff in H4. apply memb_false in H4. exact H4.
Qed.
Print Assumptions gen_validateDAG_agrees_wf.

(* non-vacuity: an accepted graph (a diamond behind a two-way branch) and a rejected one (2 -> 3 -> 2), both well formed;
   the translated function, evaluated, says the same *)
Definition vd_node (k : key) (ds cs : list key) (bs : list branch) : node :=
  {| n_key := k; n_kind := KLambda; n_outkey := None; n_dsucc := ds; n_csucc := cs; n_dmap := []; n_branches := bs |}.
Definition vd_ok : graph :=
  {| g_nodes := [vd_node kSTART [2] [2] []; vd_node 2 [] [] [{| b_ends := [3; 4]; b_nodata := false; b_table := [[3]; [4]] |}];
                 vd_node 3 [5] [5] []; vd_node 4 [5] [5] []; vd_node 5 [kEND] [kEND] []];
     g_mode := Dag; g_eager := false; g_max := O |}.
Definition vd_cyc : graph :=
  {| g_nodes := [vd_node kSTART [2] [2] []; vd_node 2 [3] [3] []; vd_node 3 [2; kEND] [2; kEND] []];
     g_mode := Dag; g_eager := false; g_max := O |}.
Example gen_validateDAG_nonvacuous :
  wf_dag vd_ok = true /\ wf_dag vd_cyc = true
  /\ validate_dag vd_ok = true /\ validate_dag vd_cyc = false
  /\ GT.validateDAG branch node (vd_node 0 [] [] []) b_ends n_csucc n_branches 6 (ccmap vd_ok) (the_tables vd_ok) = Ok tt
  /\ GT.validateDAG branch node (vd_node 0 [] [] []) b_ends n_csucc n_branches 4 (ccmap vd_cyc) (the_tables vd_cyc) = Err eDagLoop.
Proof. vm_compute. repeat split; reflexivity. Qed.
