(* Proofs/InterruptEagerSerial.v — non-vacuity of the serial fragment of the eager-mode equivalence
   (Proofs/RunLoopEagerSerial.v) on the model of Model/Interrupt.v: a linear Workflow START -> 2 -> 3 -> END with
   interrupt-after 2 and interrupt-before 3, all-predecessor channels, eager loop, a collection order that names
   the nodes backwards. Evaluated by the kernel. *)
From Eino Require Import Base.Util Model.Graph Model.RunLoop Model.Interrupt Proofs.RunLoop Proofs.RunLoopEagerSerial.
Open Scope N_scope.

Definition ws_x : value := VMap [(0, VAtom 1)].
Definition ws_cfg : gspec :=
  Build_gspec (Build_graph [Build_node 0 KLambda None [2] [2] [] [];
                            Build_node 2 KLambda None [3] [3] [] [];
                            Build_node 3 KLambda None [1] [1] [] []] Dag true 0%nat)
              false [] [] [3] [2] [] [].
Definition ws_gr := gs_graph ws_cfg.
Definition ws_ex := node_exec 1 [ws_cfg] ws_cfg.
Definition ws_sched (_ : env) : list N := [3; 2].

Lemma ws_serial : exists cs0,
  init_chans value ws_gr = Ok cs0 /\
  drive_serial VNil (ifold ws_gr) (igetr ws_gr) (pre_fn ws_cfg) ws_ex [3] [2] (fun c : cpt => c) (fun c => Some c)
               6 cs0 (gs0 ws_cfg) ws_x (fun _ e => e) true 2 0 (fun _ s => s) None (env0 []).
Proof.
  eexists. split; [vm_compute; reflexivity|].
  cbv. repeat split; repeat constructor.
Qed.

Lemma ws_eager_run : exists cs0 co1 co2 e,
  init_chans value ws_gr = Ok cs0 /\
  drive (fun c : cpt => c) (fun c => Some c)
        (freshE VNil (ifold ws_gr) (igetr ws_gr) (pre_fn ws_cfg) ws_ex [3] [2] 6 cs0 (gs0 ws_cfg) ws_x ws_sched)
        (resumedE VNil (ifold ws_gr) (igetr ws_gr) (pre_fn ws_cfg) ws_ex [3] [2] 6 ws_sched)
        (fun _ e => e) true 2 0 (fun _ s => s) None (env0 []) = ([co1; co2], e) /\
  co_written co1 = true /\ (exists v, co_out co2 = ODone v) /\ List.length (co_log co1 ++ co_log co2) = 2%nat.
Proof.
  do 4 eexists. split; [vm_compute; reflexivity|]. split; [vm_compute; reflexivity|].
  repeat split; try (vm_compute; reflexivity). eexists; vm_compute; reflexivity.
Qed.
