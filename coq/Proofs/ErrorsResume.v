(* Proofs/ErrorsResume.v — property C13: runs resumed from their checkpoint (Model/ErrorsResume.v).
   A resumed run is a run: its legal answers are the answers of the forest after k resumes
   ([round] applied k times), and when fewer resumes than allowed were needed the answer is not an
   interrupt — so every theorem of Props/C13.v about [answers] of an arbitrary forest speaks about
   resumed runs too.  A resume changes no key, no shape, no flavour, no error value: only rerun
   requests of one stage per graph become successes, so the node paths named after a resume are
   paths of the original forest. *)
From Coq Require Import Arith.
From Eino Require Import Base.Util Model.Errors Model.ErrorsResume.

Lemma iter_shift : forall (k : nat) (F : forest), Nat.iter k round (round F) = Nat.iter (S k) round F.
Proof.
  induction k as [|k IH]; intros F; [reflexivity|].
  change (Nat.iter (S k) round (round F)) with (round (Nat.iter k round (round F))).
  rewrite IH. reflexivity.
Qed.

Lemma resumed_is_answers : forall n F p cb ii,
  exists k, (k <= n)%nat /\
    resumed_answers_n n F p cb ii = answers (Nat.iter k round F) p cb ii /\
    ((k < n)%nat -> is_interrupt_answer (answers (Nat.iter k round F) p cb ii) = false).
Proof.
  induction n as [|n IH]; intros F p cb ii.
  - exists O. repeat split; [apply Nat.le_refl | intros H; inversion H].
  - cbn [resumed_answers_n].
    destruct (is_interrupt_answer (answers F p cb ii)) eqn:Hi.
    + destruct (IH (round F) p cb ii) as [k [Hk [Heq Hno]]].
      exists (S k). split; [apply le_n_S; exact Hk|]. split.
      * rewrite Heq, iter_shift. reflexivity.
      * intros Hlt. apply Nat.succ_lt_mono in Hlt. specialize (Hno Hlt).
        rewrite <- iter_shift. exact Hno.
    + exists O. split; [apply Nat.le_0_l|]. split; [reflexivity|]. intros _. exact Hi.
Qed.

(* what a resume leaves alone *)
Definition node_shape (n : node) : string * option flavour * option nat :=
  match n with
  | NLam k f _ => (k, Some f, None)
  | NSub k gi => (k, None, Some gi)
  | NTools k _ => (k, None, None)
  end.

Definition graph_shape (g : graph) := (g_dag g, map (map node_shape) (g_stages g), g_loop g, g_max g, g_br g).

Lemma derun_node_shape : forall n, node_shape (derun_node n) = node_shape n.
Proof. intros [k f b|k gi|k ts]; try reflexivity. destruct b; reflexivity. Qed.

Lemma map_at_shape : forall k sts,
  map (map node_shape) (map_at (map derun_node) k sts) = map (map node_shape) sts.
Proof.
  induction k as [|k IH]; intros [|st sts]; try reflexivity.
  - cbn [map_at map]. f_equal. rewrite map_map. apply map_ext. apply derun_node_shape.
  - cbn [map_at map]. f_equal. apply IH.
Qed.

Lemma round_from_shape : forall ms F gi, map graph_shape (round_from ms gi F) = map graph_shape F.
Proof.
  intros ms F. induction F as [|g F IH]; intros gi; [reflexivity|].
  cbn [round_from map]. f_equal; [|apply IH].
  destruct (is_marked ms gi) as [k|]; [|reflexivity].
  unfold graph_shape. cbn [g_dag g_stages g_loop g_max g_br]. rewrite map_at_shape. reflexivity.
Qed.

Lemma round_shape : forall F, map graph_shape (round F) = map graph_shape F.
Proof. intros F. unfold round. apply round_from_shape. Qed.

Lemma iter_round_shape : forall k F, map graph_shape (Nat.iter k round F) = map graph_shape F.
Proof.
  induction k as [|k IH]; intros F; [reflexivity|].
  change (Nat.iter (S k) round F) with (round (Nat.iter k round F)). rewrite round_shape. apply IH.
Qed.

(* a node of the forest after a resume is the node it was, or the success a rerun request became *)
Lemma derun_node_cases : forall n, derun_node n = n \/ exists k f, n = NLam k f BRerun /\ derun_node n = NLam k f BOk.
Proof.
  intros [k f b|k gi|k ts]; try (left; reflexivity).
  destruct b; try (left; reflexivity). right. exists k, f. split; reflexivity.
Qed.
