(* Proofs/DagTrig.v — C02, graph level, part 3: what the entries of the channels MEAN in terms of the
   history of the run (who was resolved with which output, who is skipped).

   Ghost state:  Rv = resolved tasks with their outputs whose writes/dependencies have been applied,
                 Cp = tasks of the batch being resolved whose skip reports are done but whose writes and
                      dependencies are still pending (between resolve_all and update_chans),
                 G, W as in Proofs/DagInv.v.
   Invariant ET ("trigger"): for a channel t that has not been read and is not skipped, and a control
   predecessor p:  p applied  -> entry = Ready if p routed control to t, Skipped otherwise;
                   p skipped (and propagated) -> Skipped;  the data flag is set in both cases;
   a Ready entry always stems from an applied predecessor that routed to t; a channel with control
   predecessors is skipped iff all its entries are Skipped; every channel that has been read had a control
   predecessor that routed to it. *)
From Eino Require Import Base.Util Model.Graph Proofs.DagChan Proofs.DagInv.
From Coq Require Import Lia Permutation.
Open Scope N_scope.

(* a control edge parallel to a data-carrying branch end is a data edge too: true of every graph built
   through the public API (Graph.AddEdge is always data + control; Workflow branches carry no data) *)
Definition api_built (g : graph) : Prop :=
  forall n t, In n (g_nodes g) -> In t (n_csucc n) -> In t (branch_ends_of n true) -> In t (n_dsucc n).

Section DagTrig.
  Variable V : Type.
  Variable ops : vops V.
  Variable g : graph.
  Hypothesis Hdag : g_mode g = Dag.
  Hypothesis Hnk : NoDup (map n_key (g_nodes g)).
  (* a control edge parallel to a data-carrying branch end is a data edge too: true of every graph built
     through the public API (Graph.AddEdge is always data + control; Workflow branches carry no data) *)
  Hypothesis Hcd : api_built g.

  Notation chan := (chan V).
  Notation chans := (chans V).
  Notation ctrl_st := (ctrl_st V).
  Notation data_st := (data_st V).
  Notation Inv := (Inv V g).
  Notation skipped := (skipped V).
  Notation sk_mono := (sk_mono V).
  Notation chan_wf := (chan_wf V g).
  Notation gpred := (gpred g).

  (* ================= routing of one resolved node ================= *)
  Definition sel_of (n : node) (out : V) : list key :=
    match eval_branches V ops n out with Ok (s, _) => s | _ => [] end.
  Definition skl_of (n : node) (out : V) : list key :=
    match eval_branches V ops n out with Ok (_, k) => k | _ => [] end.
  Definition routes_c (n : node) (out : V) (t : key) : Prop := In t (n_csucc n) \/ In t (sel_of n out).
  Definition routes_d (n : node) (out : V) (t : key) : Prop := In t (n_dsucc n) \/ In t (sel_of n out).

  Lemma find_node_unique n : In n (g_nodes g) -> find_node g (n_key n) = Some n.
  Proof.
    clear Hcd. unfold find_node. revert Hnk. induction (g_nodes g) as [|m l IH]; simpl; [intros _ []|].
    intros Hnd [<-|Hin].
    - now rewrite N.eqb_refl.
    - inversion Hnd as [|? ? Hnot Hnd']; subst.
      destruct (N.eqb (n_key m) (n_key n)) eqn:E.
      + apply N.eqb_eq in E. exfalso. apply Hnot. rewrite E. now apply in_map.
      + now apply IH.
  Qed.

  Lemma cpred_cases k n t :
    find_node g k = Some n -> In k (cpreds g t) -> In t (n_csucc n) \/ In t (branch_ends_of n false).
  Proof.
    intros Hf Hin. unfold cpreds in Hin. apply in_map_iff in Hin. destruct Hin as (m & Hk & Hm).
    apply filter_In in Hm. destruct Hm as [Hm Hc].
    assert (m = n).
    { apply find_node_unique in Hm. rewrite Hk in Hm. congruence. }
    subst m. unfold is_cpred in Hc. apply orb_true_iff in Hc. rewrite !memb_in in Hc. exact Hc.
  Qed.

  Lemma branch_ends_true_false n t : In t (branch_ends_of n true) -> In t (branch_ends_of n false).
  Proof.
    unfold branch_ends_of. rewrite !in_flat_map. intros (b & Hb & Ht). exists b. split; [assumption|].
    simpl. destruct (b_nodata b); simpl in Ht; [destruct Ht|assumption].
  Qed.

  Lemma dpred_cases_true k n t :
    find_node g k = Some n -> In k (dpreds g t) -> In t (n_dsucc n) \/ In t (branch_ends_of n true).
  Proof.
    intros Hf Hin. unfold dpreds in Hin. apply in_map_iff in Hin. destruct Hin as (m & Hk & Hm).
    apply filter_In in Hm. destruct Hm as [Hm Hc].
    assert (m = n).
    { apply find_node_unique in Hm. rewrite Hk in Hm. congruence. }
    subst m. unfold is_dpred in Hc. apply orb_true_iff in Hc. rewrite !memb_in in Hc. exact Hc.
  Qed.

  Lemma dpred_cases k n t :
    find_node g k = Some n -> In k (dpreds g t) -> In t (n_dsucc n) \/ In t (branch_ends_of n false).
  Proof.
    intros Hf Hin. destruct (dpred_cases_true k n t Hf Hin) as [?|Hc]; [now left|right; now apply branch_ends_true_false].
  Qed.

  (* an end node of a branch is selected, a direct control successor, or reported as skipped *)
  Lemma branch_end_sel_or_skl n out sel sk t :
    eval_branches V ops n out = Ok (sel, sk) -> In t (branch_ends_of n false) ->
    In t sel \/ In t (n_csucc n) \/ In t sk.
  Proof.
    unfold eval_branches. destruct (forallb _ _); [|discriminate]. intros [= <- <-] Hin.
    destruct (in_dec N.eq_dec t (flat_map snd (map (fun b => (b, choose V ops b out)) (n_branches n)))) as [Hs|Hns];
      [now left|right].
    destruct (in_dec N.eq_dec t (n_csucc n)) as [Hc|Hnc]; [now left|right].
    apply nodup_In. apply filter_In. split.
    2:{ apply andb_true_iff. split; apply negb_true_iff; now apply memb_false. }
    rewrite branch_ends_false in Hin. apply in_flat_map in Hin. destruct Hin as (b & Hb & Ht).
    apply in_flat_map. exists (b, choose V ops b out). split; [apply in_map_iff; eauto|]. simpl.
    apply filter_In. split; [assumption|]. apply negb_true_iff. apply memb_false. intros Hc. apply Hns.
    apply in_flat_map. exists (b, choose V ops b out). split; [apply in_map_iff; eauto|assumption].
  Qed.

  Lemma sel_skl_of n out sel sk : eval_branches V ops n out = Ok (sel, sk) -> sel_of n out = sel /\ skl_of n out = sk.
  Proof. intros E. unfold sel_of, skl_of. now rewrite E. Qed.

  (* a control successor that the node did not route to is in its skipped list *)
  Lemma not_routed_c_skl k n out sel sk t :
    find_node g k = Some n -> eval_branches V ops n out = Ok (sel, sk) -> In k (cpreds g t) ->
    ~ routes_c n out t -> In t (skl_of n out).
  Proof.
    intros Hf He Hin Hnr. destruct (sel_skl_of n out sel sk He) as [Es Ek]. rewrite Ek.
    destruct (cpred_cases k n t Hf Hin) as [Hc|Hb]; [exfalso; apply Hnr; now left|].
    destruct (branch_end_sel_or_skl n out sel sk t He Hb) as [Hs|[Hc|?]]; [| |assumption].
    - exfalso. apply Hnr. right. now rewrite Es.
    - exfalso. apply Hnr. now left.
  Qed.

  Lemma not_routed_d_skl k n out sel sk t :
    find_node g k = Some n -> eval_branches V ops n out = Ok (sel, sk) -> In k (dpreds g t) ->
    ~ routes_d n out t -> In t (skl_of n out).
  Proof.
    intros Hf He Hin Hnr. destruct (sel_skl_of n out sel sk He) as [Es Ek]. rewrite Ek.
    destruct (dpred_cases_true k n t Hf Hin) as [Hc|Hb]; [exfalso; apply Hnr; now left|].
    destruct (branch_end_sel_or_skl n out sel sk t He (branch_ends_true_false n t Hb)) as [Hs|[Hc|?]]; [| |assumption].
    - exfalso. apply Hnr. right. now rewrite Es.
    - exfalso. apply Hnr. left. apply Hcd; [|assumption..]. now destruct (find_node_in g k n Hf).
  Qed.

  (* every node that has k among its predecessors is a successor of k *)
  Lemma gpred_succs k n t : find_node g k = Some n -> gpred t k -> In t (succs n).
  Proof.
    intros Hf [Hc|Hd]; unfold succs; rewrite !in_app_iff.
    - destruct (cpred_cases k n t Hf Hc); tauto.
    - destruct (dpred_cases k n t Hf Hd); tauto.
  Qed.

  (* ================= ghost well-formedness ================= *)
  Record GW (Rv Cp : list (key * V)) (G : list key) : Prop := {
    gw_keys : NoDup (akeys (Rv ++ Cp));
    gw_inG  : forall p, In p (akeys (Rv ++ Cp)) -> In p G;
    gw_node : forall p out, In (p, out) (Rv ++ Cp) ->
              exists n sel sk, find_node g p = Some n /\ eval_branches V ops n out = Ok (sel, sk);
  }.

  Lemma GW_unique Rv Cp G p o1 o2 : GW Rv Cp G -> In (p, o1) (Rv ++ Cp) -> In (p, o2) (Rv ++ Cp) -> o1 = o2.
  Proof.
    intros [Hnd _ _]. unfold akeys in Hnd. induction (Rv ++ Cp) as [|[k o] l IH]; simpl; [intros []|].
    inversion Hnd as [|? ? Hnot Hnd']; subst. intros [[= -> ->]|H1] [[= ->]|H2]; try reflexivity.
    - exfalso. apply Hnot. now apply (in_map fst) in H2.
    - subst. exfalso. apply Hnot. now apply (in_map fst) in H1.
    - now apply IH.
  Qed.

  (* ================= the trigger invariant ================= *)
  Definition live (cs : chans) (G : list key) (t : key) (c : chan) : Prop :=
    alookup t cs = Some c /\ ~ In t G /\ c_skipped V c = false.

  Record ET (cs : chans) (Rv Cp : list (key * V)) (G W : list key) : Prop := {
    e_sk : forall t c, alookup t cs = Some c -> cpreds g t <> [] -> c_skipped V c = all_skipped (c_ctrl V c);
    e_c1 : forall t c p out n, live cs G t c -> In p (cpreds g t) -> In (p, out) Rv -> find_node g p = Some n ->
           (routes_c n out t -> ctrl_st c p = Some Ready) /\ (~ routes_c n out t -> ctrl_st c p = Some Skipped);
    e_c2 : forall t c p out n, live cs G t c -> In p (cpreds g t) -> In (p, out) Cp -> find_node g p = Some n ->
           In t (skl_of n out) -> ctrl_st c p = Some Skipped;
    e_c3 : forall t c p, live cs G t c -> In p (cpreds g t) -> skipped cs p -> ~ In p W -> ctrl_st c p = Some Skipped;
    e_d1 : forall t c p, live cs G t c -> In p (dpreds g t) -> In p (akeys Rv) -> data_st c p = Some true;
    e_d2 : forall t c p out n, live cs G t c -> In p (dpreds g t) -> In (p, out) Cp -> find_node g p = Some n ->
           In t (skl_of n out) -> data_st c p = Some true;
    e_d3 : forall t c p, live cs G t c -> In p (dpreds g t) -> skipped cs p -> ~ In p W -> data_st c p = Some true;
    e_6  : forall t c p, alookup t cs = Some c -> ctrl_st c p = Some Ready ->
           exists out n, In (p, out) Rv /\ find_node g p = Some n /\ routes_c n out t;
    e_E  : forall t, In t G -> t <> kSTART -> cpreds g t <> [] ->
           exists p out n, In p (cpreds g t) /\ In (p, out) Rv /\ find_node g p = Some n /\ routes_c n out t;
  }.

  (* ---------- what one step of report_skip_to does, in look-ups ---------- *)
  Lemma rst_body_spec from cs0 nw0 t cs1 nw1 :
    chans_wf V g cs0 ->
    rst_body V from (cs0, nw0) t = (cs1, nw1) ->
    (alookup t cs0 = None /\ cs1 = cs0 /\ nw1 = nw0)
    \/ (exists c c', alookup t cs0 = Some c
          /\ (forall t', alookup t' cs1 = if N.eqb t' t then Some c' else alookup t' cs0)
          /\ (forall p, ctrl_st c' p = if N.eqb p from then option_map (fun _ => Skipped) (ctrl_st c p) else ctrl_st c p)
          /\ (forall p, data_st c' p = if N.eqb p from then option_map (fun _ => true) (data_st c p) else data_st c p)
          /\ c_vals V c' = c_vals V c
          /\ c_skipped V c' = all_skipped (c_ctrl V c')
          /\ chan_wf t c'
          /\ nw1 = nw0 ++ (if (c_skipped V c' && negb (c_skipped V c))%bool then [t] else [])).
  Proof.
    intros (Hks & Hst & Hall). unfold rst_body.
    destruct (alookup t cs0) as [c|] eqn:Et; [|intros [= <- <-]; now left].
    destruct (dag_report_skip V c [from]) as [c' sk] eqn:Esk.
    intros Hres. injection Hres as Hcs1 Hnw1. right. exists c, c'.
    pose proof (Hall t c Et) as Hcwf. pose proof Hcwf as (Hok & _ & _).
    destruct (dag_skip_iff_all_skipped V c [from] c' sk Hok Esk) as (Hb & Hiff & Hctrl & Hdata & Hvals).
    assert (Hc'wf : chan_wf t c').
    { change c' with (fst (c', sk)). rewrite <- Esk. now apply chan_wf_skip. }
    split; [reflexivity|]. split.
    { intros t'. rewrite <- Hcs1, alookup_upd_chan. destruct (N.eqb_spec t' t) as [->|]; [now rewrite Et|reflexivity]. }
    split.
    { intros p. rewrite Hctrl. simpl. now destruct (N.eqb p from). }
    split.
    { intros p. rewrite Hdata. simpl. now destruct (N.eqb p from). }
    split; [assumption|]. split.
    { rewrite Hb. destruct Hc'wf as ((Hc'c & _) & _).
      destruct sk.
      - symmetry. apply all_skipped_iff; [assumption|]. now apply Hiff.
      - destruct (all_skipped (c_ctrl V c')) eqn:Ea; [|reflexivity].
        pose proof (proj1 (all_skipped_iff _ Hc'c) Ea) as Ea2. apply Hiff in Ea2. discriminate. }
    split; [assumption|].
    rewrite <- Hnw1, Hb. destruct (sk && negb (c_skipped V c))%bool; [reflexivity|now rewrite app_nil_r].
  Qed.

  (* entries only move towards Skipped / reported under skip reports *)
  Definition ent_mono (cs cs' : chans) : Prop :=
    forall t c, alookup t cs = Some c ->
      exists c', alookup t cs' = Some c'
        /\ (forall p, ctrl_st c p = Some Skipped -> ctrl_st c' p = Some Skipped)
        /\ (forall p, data_st c p = Some true -> data_st c' p = Some true).

  Lemma ent_mono_refl cs : ent_mono cs cs.
  Proof. intros t c E. exists c. auto. Qed.

  Lemma ent_mono_trans a b c : ent_mono a b -> ent_mono b c -> ent_mono a c.
  Proof.
    intros H1 H2 t c0 E. destruct (H1 t c0 E) as (c1 & E1 & A1 & B1). destruct (H2 t c1 E1) as (c2 & E2 & A2 & B2).
    exists c2. split; [assumption|]. split; auto.
  Qed.

  (* the mark left by a skip report from [from] on a channel *)
  Definition marked (c : chan) (from : key) : Prop :=
    (ctrl_st c from <> None -> ctrl_st c from = Some Skipped) /\ (data_st c from <> None -> data_st c from = Some true).

  Lemma marked_mono cs cs' t c c' from :
    ent_mono cs cs' -> alookup t cs = Some c -> alookup t cs' = Some c' ->
    chan_wf t c -> chan_wf t c' -> marked c from -> marked c' from.
  Proof.
    intros Hm E E' (_ & Hc & Hd) (_ & Hc' & Hd') [M1 M2].
    destruct (Hm t c E) as (c2 & E2 & A & B). rewrite E' in E2. injection E2 as <-.
    split; intros Hne.
    - apply A. apply M1. apply Hc. now apply Hc'.
    - apply B. apply M2. apply Hd. now apply Hd'.
  Qed.

  Lemma rst_body_ET from cs0 R Rv Cp G W t cs1 nw0 nw1 :
    Inv cs0 R G (W ++ nw0) -> ET cs0 Rv Cp G (W ++ nw0) ->
    ~ In from (akeys Rv) ->
    (forall c, alookup t cs0 = Some c -> ~ In t G) ->
    rst_body V from (cs0, nw0) t = (cs1, nw1) ->
    ET cs1 Rv Cp G (W ++ nw1) /\ ent_mono cs0 cs1
    /\ (forall c', alookup t cs1 = Some c' -> marked c' from).
  Proof.
    intros HI HE HfR HtG Hb.
    pose proof (inv_wf _ _ _ _ _ _ HI) as Hwf.
    destruct (rst_body_spec from cs0 nw0 t cs1 nw1 Hwf Hb) as [(En & -> & ->)|(c & c' & Et & Hlk & Hctrl & Hdata & Hvals & Hskc' & Hc'wf & ->)].
    { split; [assumption|]. split; [apply ent_mono_refl|]. intros c' E. congruence. }
    specialize (HtG c Et).
    assert (Hskm : forall q, skipped cs0 q -> skipped cs1 q).
    { assert (Hfrom_dummy : True) by exact I.
      intros q (c0 & E0 & S0). unfold DagInv.skipped. rewrite Hlk. destruct (N.eqb_spec q t) as [->|]; [|eauto].
      exists c'. split; [reflexivity|]. rewrite Et in E0. injection E0 as <-.
      rewrite Hskc'. destruct Hc'wf as ((Hc'c & _) & _). apply all_skipped_iff; [assumption|].
      intros p d. change (ctrl_st c' p = Some d -> d = Skipped). rewrite Hctrl.
      pose proof (inv_skc _ _ _ _ _ _ HI t c Et S0) as Hall0.
      destruct Hwf as (_ & _ & Hall). destruct (Hall t c Et) as ((Hcc & _) & _).
      rewrite (all_skipped_iff _ Hcc) in Hall0.
      destruct (N.eqb p from).
      - destruct (ctrl_st c p); simpl; congruence.
      - apply Hall0. }
    set (ex := if (c_skipped V c' && negb (c_skipped V c))%bool then [t] else @nil key).
    assert (Hex : forall q, In q ex -> q = t /\ ~ skipped cs0 q).
    { unfold ex. intros q. destruct (c_skipped V c' && negb (c_skipped V c))%bool eqn:Eb; [|intros []].
      intros [<-|[]]. split; [reflexivity|]. apply andb_true_iff in Eb. destruct Eb as [_ Eb]. apply negb_true_iff in Eb.
      intros (c0 & E0 & S0). congruence. }
    assert (Hnewsk : forall q, skipped cs1 q -> ~ In q (W ++ nw0 ++ ex) -> skipped cs0 q).
    { intros q (c1 & E1 & S1) Hnin. rewrite Hlk in E1. destruct (N.eqb_spec q t) as [->|]; [|exists c1; auto].
      injection E1 as <-. destruct (c_skipped V c) eqn:Sc; [exists c; auto|].
      exfalso. apply Hnin. rewrite !in_app_iff. right. right. unfold ex. rewrite S1. simpl. now left. }
    assert (Hlive : forall t' c1, live cs1 G t' c1 ->
              (t' <> t /\ live cs0 G t' c1) \/ (t' = t /\ c1 = c' /\ live cs0 G t c)).
    { intros t' c1 (E1 & HnG & S1). rewrite Hlk in E1. destruct (N.eqb_spec t' t) as [->|Hne].
      - right. injection E1 as <-. split; [reflexivity|]. split; [reflexivity|]. split; [assumption|]. split; [assumption|].
        destruct (c_skipped V c) eqn:Sc; [|reflexivity].
        assert (Hs : skipped cs1 t) by (apply Hskm; exists c; auto).
        destruct Hs as (c2 & E2 & S2). rewrite Hlk, N.eqb_refl in E2. injection E2 as <-. congruence.
      - left. split; [assumption|]. split; [assumption|]. split; assumption. }
    destruct HE as [Hsk Hc1 Hc2 Hc3 Hd1 Hd2 Hd3 H6 HEE].
    split; [|split].
    2:{ intros t' c0 E0. destruct (N.eqb_spec t' t) as [->|Hne].
        - exists c'. rewrite Hlk, N.eqb_refl. split; [reflexivity|]. rewrite Et in E0. injection E0 as <-. split.
          + intros p Hp. rewrite Hctrl. destruct (N.eqb p from); [now rewrite Hp|assumption].
          + intros p Hp. rewrite Hdata. destruct (N.eqb p from); [now rewrite Hp|assumption].
        - exists c0. rewrite Hlk. destruct (N.eqb_spec t' t); [contradiction|]. auto. }
    2:{ intros c1 E1. rewrite Hlk, N.eqb_refl in E1. injection E1 as <-. split; intros Hne.
        - rewrite Hctrl, N.eqb_refl in *. destruct (ctrl_st c from); simpl in *; congruence.
        - rewrite Hdata, N.eqb_refl in *. destruct (data_st c from); simpl in *; congruence. }
    constructor.
    - intros t' c1. rewrite Hlk. destruct (N.eqb_spec t' t) as [->|]; [intros [= <-] _; assumption|apply Hsk].
    - intros t' c1 p out n HL Hp HRv Hf.
      destruct (Hlive t' c1 HL) as [(Hne & HL0)|(-> & -> & HL0)]; [eapply Hc1; eassumption|].
      assert (Hpf : p <> from) by (intros ->; apply HfR; unfold akeys; now apply (in_map fst) in HRv).
      rewrite Hctrl. destruct (N.eqb_spec p from); [contradiction|]. eapply Hc1; eassumption.
    - intros t' c1 p out n HL Hp HCp Hf Hskl.
      destruct (Hlive t' c1 HL) as [(Hne & HL0)|(-> & -> & HL0)]; [eapply Hc2; eassumption|].
      rewrite Hctrl. destruct (N.eqb_spec p from) as [->|].
      + destruct Hc'wf as (_ & Hcw & _). destruct HL0 as (E0 & _).
        destruct Hwf as (_ & _ & Hall). destruct (Hall t c E0) as (_ & Hcw0 & _).
        apply Hcw0 in Hp. destruct (ctrl_st c from); [reflexivity|congruence].
      + eapply Hc2; eassumption.
    - intros t' c1 p HL Hp Hs Hnin. rewrite app_assoc in Hnin.
      assert (Hs0 : skipped cs0 p).
      { apply Hnewsk; [assumption|]. now rewrite app_assoc. }
      assert (Hnin0 : ~ In p (W ++ nw0)) by (intros Hin; apply Hnin; apply in_app_iff; now left).
      destruct (Hlive t' c1 HL) as [(Hne & HL0)|(-> & -> & HL0)]; [eapply Hc3; eassumption|].
      rewrite Hctrl. destruct (N.eqb_spec p from) as [->|].
      + destruct HL0 as (E0 & _). destruct Hwf as (_ & _ & Hall). destruct (Hall t c E0) as (_ & Hcw0 & _).
        apply Hcw0 in Hp. destruct (ctrl_st c from); [reflexivity|congruence].
      + eapply Hc3; eassumption.
    - intros t' c1 p HL Hp HRv.
      destruct (Hlive t' c1 HL) as [(Hne & HL0)|(-> & -> & HL0)]; [eapply Hd1; eassumption|].
      rewrite Hdata. destruct (N.eqb_spec p from) as [->|]; [contradiction|]. eapply Hd1; eassumption.
    - intros t' c1 p out n HL Hp HCp Hf Hskl.
      destruct (Hlive t' c1 HL) as [(Hne & HL0)|(-> & -> & HL0)]; [eapply Hd2; eassumption|].
      rewrite Hdata. destruct (N.eqb_spec p from) as [->|].
      + destruct HL0 as (E0 & _). destruct Hwf as (_ & _ & Hall). destruct (Hall t c E0) as (_ & _ & Hdw0).
        apply Hdw0 in Hp. destruct (data_st c from); [reflexivity|congruence].
      + eapply Hd2; eassumption.
    - intros t' c1 p HL Hp Hs Hnin. rewrite app_assoc in Hnin.
      assert (Hs0 : skipped cs0 p).
      { apply Hnewsk; [assumption|]. now rewrite app_assoc. }
      assert (Hnin0 : ~ In p (W ++ nw0)) by (intros Hin; apply Hnin; apply in_app_iff; now left).
      destruct (Hlive t' c1 HL) as [(Hne & HL0)|(-> & -> & HL0)]; [eapply Hd3; eassumption|].
      rewrite Hdata. destruct (N.eqb_spec p from) as [->|].
      + destruct HL0 as (E0 & _). destruct Hwf as (_ & _ & Hall). destruct (Hall t c E0) as (_ & _ & Hdw0).
        apply Hdw0 in Hp. destruct (data_st c from); [reflexivity|congruence].
      + eapply Hd3; eassumption.
    - intros t' c1 p. rewrite Hlk. destruct (N.eqb_spec t' t) as [->|]; [|apply H6].
      intros [= <-]. rewrite Hctrl. destruct (N.eqb_spec p from) as [->|].
      + destruct (ctrl_st c from); simpl; discriminate.
      + intros Hr. eapply H6; eassumption.
    - assumption.
  Qed.

  (* ---------- report_skip_to / propagate / report_branch ---------- *)
  Lemma same_keys_lookup (cs cs' : chans) t c :
    akeys cs' = akeys cs -> alookup t cs = Some c -> exists c', alookup t cs' = Some c'.
  Proof.
    intros Ek E. destruct (alookup t cs') eqn:E'; [eauto|].
    apply (alookup_same_keys cs' cs t Ek) in E'. congruence.
  Qed.

  Lemma rst_fold_ET from targets : forall cs0 nw0 R Rv Cp G W cs1 nw1,
    Inv cs0 R G (W ++ nw0) -> ET cs0 Rv Cp G (W ++ nw0) ->
    (In from R \/ skipped cs0 from) -> ~ In from (akeys Rv) ->
    (forall t c, In t targets -> alookup t cs0 = Some c -> ~ In t G) ->
    fold_left (rst_body V from) targets (cs0, nw0) = (cs1, nw1) ->
    ET cs1 Rv Cp G (W ++ nw1) /\ ent_mono cs0 cs1
    /\ (forall t c', In t targets -> alookup t cs1 = Some c' -> marked c' from).
  Proof.
    induction targets as [|t targets IH]; intros cs0 nw0 R Rv Cp G W cs1 nw1 HI HE Hfrom HfR HtG Hfold; cbn [fold_left] in Hfold.
    - injection Hfold as <- <-. split; [assumption|]. split; [apply ent_mono_refl|intros ? ? []].
    - destruct (rst_body V from (cs0, nw0) t) as [csm nwm] eqn:Eb.
      destruct (rst_body_inv V g from cs0 R G W t csm nw0 nwm HI Hfrom (fun c E => HtG t c (or_introl eq_refl) E) Eb)
        as (HIm & Hmono & _ & _).
      destruct (rst_body_ET from cs0 R Rv Cp G W t csm nw0 nwm HI HE HfR (fun c E => HtG t c (or_introl eq_refl) E) Eb)
        as (HEm & Hem & Hmk).
      assert (Hfrom' : In from R \/ skipped csm from).
      { destruct Hfrom as [?|Hs]; [now left|right]. destruct Hmono as [_ Hm]. now apply Hm. }
      assert (HtG' : forall t' c, In t' targets -> alookup t' csm = Some c -> ~ In t' G).
      { intros t' c Hin E. destruct (alookup t' cs0) as [c0|] eqn:E0.
        - eapply HtG; [right; eassumption|eassumption].
        - destruct Hmono as [Ek _]. apply (alookup_same_keys csm cs0 t' Ek) in E0. congruence. }
      destruct (IH csm nwm R Rv Cp G W cs1 nw1 HIm HEm Hfrom' HfR HtG' Hfold) as (HE1 & Hem1 & Hmk1).
      destruct (report_skip_to_inv_gen V g from targets csm nwm R G W cs1 nw1 HIm Hfrom' HtG' Hfold) as (HI1 & Hmono1 & _).
      split; [assumption|]. split; [eapply ent_mono_trans; eassumption|].
      intros t' c' [<-|Hin] E'; [|eapply Hmk1; eassumption].
      destruct Hmono1 as [Ek1 _].
      destruct (alookup t csm) as [cm|] eqn:Em.
      + pose proof (inv_wf _ _ _ _ _ _ HIm) as (_ & _ & Hallm). pose proof (inv_wf _ _ _ _ _ _ HI1) as (_ & _ & Hall1).
        eapply marked_mono; [exact Hem1|exact Em|exact E'|now apply Hallm|now apply Hall1|now apply Hmk].
      + apply (alookup_same_keys cs1 csm t Ek1) in Em. congruence.
  Qed.

  Lemma ET_grow_W cs Rv Cp G W W' : incl W W' -> ET cs Rv Cp G W -> ET cs Rv Cp G W'.
  Proof.
    intros Hi [H1 H2 H3 H4 H5 H6 H7 H8 H9]. constructor; auto.
    - intros t c p HL Hp Hs Hn. eapply H4; eauto.
    - intros t c p HL Hp Hs Hn. eapply H7; eauto.
  Qed.

  Lemma ET_pop cs R Rv Cp G k n work :
    Inv cs R G work -> ET cs Rv Cp G (k :: work) -> find_node g k = Some n ->
    (forall t c', In t (succs n) -> alookup t cs = Some c' -> marked c' k) ->
    ET cs Rv Cp G work.
  Proof.
    intros HI [H1 H2 H3 H4 H5 H6 H7 H8 H9] Hf Hmk.
    pose proof (inv_wf _ _ _ _ _ _ HI) as (_ & _ & Hall).
    constructor; auto.
    - intros t c p HL Hp Hs Hn. destruct (N.eq_dec p k) as [->|Hne].
      + destruct HL as (E & _). destruct (Hall t c E) as (_ & Hcw & _).
        assert (Hin : In t (succs n)) by (eapply gpred_succs; [eassumption|now left]).
        destruct (Hmk t c Hin E) as [M _]. apply M. now apply Hcw.
      + eapply H4; eauto. intros [?|?]; [congruence|contradiction].
    - intros t c p HL Hp Hs Hn. destruct (N.eq_dec p k) as [->|Hne].
      + destruct HL as (E & _). destruct (Hall t c E) as (_ & _ & Hdw).
        assert (Hin : In t (succs n)) by (eapply gpred_succs; [eassumption|now right]).
        destruct (Hmk t c Hin E) as [_ M]. apply M. now apply Hdw.
      + eapply H7; eauto. intros [?|?]; [congruence|contradiction].
  Qed.

  Lemma skipped_not_resolved cs R Rv Cp G W k : Inv cs R G W -> GW Rv Cp G -> skipped cs k -> ~ In k (akeys Rv).
  Proof.
    intros HI HG Hs Hin. eapply gotten_not_skipped; [exact HI| |exact Hs].
    apply (gw_inG _ _ _ HG). unfold akeys in *. rewrite map_app. apply in_app_iff. now left.
  Qed.

  Lemma propagate_ET fuel : forall work cs R Rv Cp G cs',
    Inv cs R G work -> ET cs Rv Cp G work -> GW Rv Cp G ->
    propagate V g fuel work cs = Ok cs' -> ET cs' Rv Cp G [] /\ ent_mono cs cs'.
  Proof.
    induction fuel as [|fuel IH]; intros work cs R Rv Cp G cs' HI HE HG; destruct work as [|k work]; simpl.
    - intros [= <-]. split; [assumption|apply ent_mono_refl].
    - discriminate.
    - intros [= <-]. split; [assumption|apply ent_mono_refl].
    - destruct (find_node g k) as [n|] eqn:Ef; [|discriminate].
      destruct (report_skip_to V cs k (succs n)) as [cs1 newly] eqn:Er.
      intros Hp.
      assert (Hk : skipped cs k) by (apply (inv_W _ _ _ _ _ _ HI); now left).
      assert (HtG : forall t c, In t (succs n) -> alookup t cs = Some c -> ~ In t G).
      { intros t c Hin Et HinG.
        assert (Hne : t <> kSTART) by (intros ->; rewrite (start_no_chan _ _ _ _ _ _ HI) in Et; discriminate).
        destruct (inv_B _ _ _ _ _ _ HI t HinG Hne) as (c0 & _ & _ & _ & _ & Q).
        destruct (Q k (succs_gpred g k n t Ef Hin)) as [HR|[_ Hn]].
        - apply (gotten_not_skipped _ _ _ _ _ _ k HI); [|assumption]. now apply (inv_RG _ _ _ _ _ _ HI).
        - apply Hn. now left. }
      assert (HkR : ~ In k (akeys Rv)) by (eapply skipped_not_resolved; eassumption).
      destruct (report_skip_to_inv V g cs R G (k :: work) k (succs n) cs1 newly HI (or_intror Hk) HtG Er) as (HI1 & Hm1 & _).
      rewrite report_skip_to_eq in Er.
      assert (HI0 : Inv cs R G ((k :: work) ++ [])) by now rewrite app_nil_r.
      assert (HE0 : ET cs Rv Cp G ((k :: work) ++ [])) by now rewrite app_nil_r.
      destruct (rst_fold_ET k (succs n) cs [] R Rv Cp G (k :: work) cs1 newly HI0 HE0 (or_intror Hk) HkR HtG Er) as (HE1 & Hem1 & Hmk1).
      assert (HI1' : Inv cs1 R G (work ++ newly)).
      { eapply Inv_weaken_W; [|exact HI1]. intros x Hx. simpl. now right. }
      assert (HE1' : ET cs1 Rv Cp G (work ++ newly)).
      { eapply ET_pop; [exact HI1'|exact HE1|exact Ef|exact Hmk1]. }
      destruct (IH _ _ _ _ _ _ _ HI1' HE1' HG Hp) as (HE2 & Hem2).
      split; [assumption|eapply ent_mono_trans; eassumption].
  Qed.

  Lemma report_branch_ET cs R Rv Cp G from sk cs' :
    Inv cs R G [] -> ET cs Rv Cp G [] -> GW Rv Cp G -> In from R -> ~ In from (akeys Rv) ->
    (forall t c, In t sk -> alookup t cs = Some c -> ~ In t G) ->
    report_branch V g from sk cs = Ok cs' ->
    ET cs' Rv Cp G [] /\ (forall t c', In t sk -> alookup t cs' = Some c' -> marked c' from).
  Proof.
    intros HI HE HG HR HfR HtG. unfold report_branch. rewrite Hdag.
    destruct (report_skip_to V cs from sk) as [cs1 newly] eqn:Er. intros Hp.
    destruct (report_skip_to_inv V g cs R G [] from sk cs1 newly HI (or_introl HR) HtG Er) as (HI1 & Hm1 & _).
    rewrite report_skip_to_eq in Er.
    destruct (rst_fold_ET from sk cs [] R Rv Cp G [] cs1 newly HI HE (or_introl HR) HfR HtG Er) as (HE1 & Hem1 & Hmk1).
    simpl in HI1, HE1.
    destruct (propagate_ET _ _ _ _ _ _ _ _ HI1 HE1 HG Hp) as (HE2 & Hem2).
    destruct (propagate_inv V g _ _ _ _ _ _ HI1 Hp) as (HI2 & Hm2).
    split; [assumption|].
    intros t c' Hin E'. destruct Hm2 as [Ek2 _].
    destruct (alookup t cs1) as [c1|] eqn:E1.
    - pose proof (inv_wf _ _ _ _ _ _ HI1) as (_ & _ & Hall1). pose proof (inv_wf _ _ _ _ _ _ HI2) as (_ & _ & Hall2).
      eapply marked_mono; [exact Hem2|exact E1|exact E'|now apply Hall1|now apply Hall2|eapply Hmk1; eassumption].
    - apply (alookup_same_keys cs' cs1 t Ek2) in E1. congruence.
  Qed.

  (* ---------- resolve_one / resolve_all ---------- *)
  Definition ds_spec (completed : list (key * V)) (ds : deps_t) : Prop :=
    forall t p, In (t, p) ds <-> exists out n, In (p, out) completed /\ find_node g p = Some n /\ routes_c n out t.
  Definition ws_spec (completed : list (key * V)) (ws : writes_t V) : Prop :=
    forall t p v, In (t, (p, v)) ws <->
      exists out n, In (p, out) completed /\ find_node g p = Some n /\ routes_d n out t /\ v = edge_value V ops n t out.

  Lemma GW_snoc Rv Cp G k out n sel sk :
    GW Rv Cp G -> ~ In k (akeys (Rv ++ Cp)) -> In k G ->
    find_node g k = Some n -> eval_branches V ops n out = Ok (sel, sk) ->
    GW Rv (Cp ++ [(k, out)]) G.
  Proof.
    intros [H1 H2 H3] Hnin HkG Hf He. constructor.
    - rewrite app_assoc. unfold akeys in *. rewrite map_app. simpl.
      apply NoDup_app_intro; [assumption|constructor; [intros []|constructor]|].
      intros x Hx [<-|[]]. contradiction.
    - intros p Hp. rewrite app_assoc in Hp. unfold akeys in *. rewrite map_app in Hp. apply in_app_iff in Hp.
      destruct Hp as [Hp|[<-|[]]]; [now apply H2|assumption].
    - intros p o Hp. rewrite app_assoc in Hp. apply in_app_iff in Hp. destruct Hp as [Hp|[[= <- <-]|[]]]; [now apply H3|eauto].
  Qed.

  Lemma resolve_one_ET cs R Rv Cp G k n out cs' ws ds :
    Inv cs R G [] -> ET cs Rv Cp G [] -> GW Rv Cp G ->
    find_node g k = Some n -> In k R -> In k G -> npred g G k -> ~ In k (akeys (Rv ++ Cp)) ->
    resolve_one V ops g n out cs = Ok (cs', ws, ds) ->
    ET cs' Rv (Cp ++ [(k, out)]) G [] /\ GW Rv (Cp ++ [(k, out)]) G
    /\ ds_spec [(k, out)] ds /\ ws_spec [(k, out)] ws.
  Proof.
    intros HI HE HG Ef HR HkG Hnp Hnin. unfold resolve_one.
    destruct (eval_branches V ops n out) as [[sel sk]|e|] eqn:Eb; simpl; [|discriminate..].
    destruct (find_node_in g k n Ef) as [Hn Hk]. rewrite Hk.
    destruct (report_branch V g k sk cs) as [cs1|e|] eqn:Er; simpl; [|discriminate..].
    intros [= <- <- <-].
    destruct (sel_skl_of n out sel sk Eb) as [Esel Eskl].
    assert (HtG : forall t c, In t sk -> alookup t cs = Some c -> ~ In t G).
    { intros t c Hin Et HinG.
      assert (Hne : t <> kSTART) by (intros ->; rewrite (start_no_chan _ _ _ _ _ _ HI) in Et; discriminate).
      apply (Hnp t HinG Hne). left. eapply branch_end_cpred; [eassumption|].
      eapply eval_branches_skipped; eassumption. }
    assert (HkRv : ~ In k (akeys Rv)).
    { intros Hin. apply Hnin. unfold akeys in *. rewrite map_app. apply in_app_iff. now left. }
    destruct (report_branch_ET cs R Rv Cp G k sk cs1 HI HE HG HR HkRv HtG Er) as (HE1 & Hmk).
    destruct (report_branch_inv V g Hdag cs R G k sk cs1 HI HR HtG Er) as (HI1 & Hm1 & _).
    pose proof (inv_wf _ _ _ _ _ _ HI1) as (_ & _ & Hall1).
    split; [|split; [eapply GW_snoc; eassumption|split]].
    - destruct HE1 as [H1 H2 H3 H4 H5 H6 H7 H8 H9]. constructor; auto.
      + intros t c p o m HL Hp HCp Hf Hskl. apply in_app_iff in HCp. destruct HCp as [HCp|[[= -> ->]|[]]]; [eapply H3; eassumption|].
        rewrite Ef in Hf. injection Hf as <-. rewrite Eskl in Hskl.
        destruct HL as (E & _). destruct (Hall1 t c E) as (_ & Hcw & _).
        destruct (Hmk t c Hskl E) as [M _]. apply M. now apply Hcw.
      + intros t c p o m HL Hp HCp Hf Hskl. apply in_app_iff in HCp. destruct HCp as [HCp|[[= -> ->]|[]]]; [eapply H6; eassumption|].
        rewrite Ef in Hf. injection Hf as <-. rewrite Eskl in Hskl.
        destruct HL as (E & _). destruct (Hall1 t c E) as (_ & _ & Hdw).
        destruct (Hmk t c Hskl E) as [_ M]. apply M. now apply Hdw.
    - intros t p. split.
      + intros Hin. apply in_map_iff in Hin. destruct Hin as (t' & [= <- <-] & Ht').
        exists out, n. split; [now left|]. split; [assumption|]. unfold routes_c. rewrite Esel. apply in_app_iff in Ht'. tauto.
      + intros (o & m & [[= <- <-]|[]] & Hf & Hr). rewrite Ef in Hf. injection Hf as <-.
        apply in_map_iff. exists t. split; [reflexivity|]. unfold routes_c in Hr. rewrite Esel in Hr. apply in_app_iff. tauto.
    - intros t p v. split.
      + intros Hin. apply in_map_iff in Hin. destruct Hin as (t' & [= <- <- <-] & Ht').
        exists out, n. split; [now left|]. split; [assumption|]. split; [|reflexivity].
        unfold routes_d. rewrite Esel. apply in_app_iff in Ht'. tauto.
      + intros (o & m & [[= <- <-]|[]] & Hf & Hr & ->). rewrite Ef in Hf. injection Hf as <-.
        apply in_map_iff. exists t. split; [reflexivity|]. unfold routes_d in Hr. rewrite Esel in Hr. apply in_app_iff. tauto.
  Qed.

  Lemma ds_spec_app c1 c2 d1 d2 : ds_spec c1 d1 -> ds_spec c2 d2 -> ds_spec (c1 ++ c2) (d1 ++ d2).
  Proof.
    intros H1 H2 t p. rewrite in_app_iff, (H1 t p), (H2 t p). split.
    - intros [(o & n & Hin & H)|(o & n & Hin & H)]; exists o, n; (split; [apply in_app_iff; tauto|assumption]).
    - intros (o & n & Hin & H). apply in_app_iff in Hin. destruct Hin; [left|right]; eauto.
  Qed.

  Lemma ws_spec_app c1 c2 w1 w2 : ws_spec c1 w1 -> ws_spec c2 w2 -> ws_spec (c1 ++ c2) (w1 ++ w2).
  Proof.
    intros H1 H2 t p v. rewrite in_app_iff, (H1 t p v), (H2 t p v). split.
    - intros [(o & n & Hin & H)|(o & n & Hin & H)]; exists o, n; (split; [apply in_app_iff; tauto|assumption]).
    - intros (o & n & Hin & H). apply in_app_iff in Hin. destruct Hin; [left|right]; eauto.
  Qed.

  Lemma resolve_all_ET completed : forall cs R Rv Cp G cs' ws ds,
    Inv cs R G [] -> ET cs Rv Cp G [] -> GW Rv Cp G ->
    NoDup (akeys completed) ->
    (forall k, In k (akeys completed) -> In k R /\ In k G /\ npred g G k /\ ~ In k (akeys (Rv ++ Cp))) ->
    resolve_all V ops g completed cs = Ok (cs', ws, ds) ->
    ET cs' Rv (Cp ++ completed) G [] /\ GW Rv (Cp ++ completed) G /\ ds_spec completed ds /\ ws_spec completed ws.
  Proof.
    induction completed as [|[k out] completed IH]; intros cs R Rv Cp G cs' ws ds HI HE HG Hnd Hc; cbn [resolve_all].
    - intros [= <- <- <-]. rewrite app_nil_r. split; [assumption|]. split; [assumption|].
      split; intros t p; [|intros v]; (split; [intros []|intros (o & n & [] & _)]).
    - destruct (find_node g k) as [n|] eqn:Ef; [|discriminate].
      destruct (resolve_one V ops g n out cs) as [[[cs1 w1] d1]|e|] eqn:E1; simpl; [|discriminate..].
      destruct (resolve_all V ops g completed cs1) as [[[cs2 w2] d2]|e|] eqn:E2; simpl; [|discriminate..].
      intros [= <- <- <-].
      destruct (Hc k (or_introl eq_refl)) as (HkR & HkG & Hknp & Hknin).
      destruct (resolve_one_inv V ops g Hdag cs R G k n out cs1 w1 d1 HI Ef HkR Hknp E1) as (HI1 & _).
      destruct (resolve_one_ET cs R Rv Cp G k n out cs1 w1 d1 HI HE HG Ef HkR HkG Hknp Hknin E1) as (HE1 & HG1 & Hd1 & Hw1).
      unfold akeys in Hnd. simpl in Hnd. inversion Hnd as [|? ? Hknot Hnd']; subst.
      assert (Hc' : forall k', In k' (akeys completed) -> In k' R /\ In k' G /\ npred g G k' /\ ~ In k' (akeys (Rv ++ Cp ++ [(k, out)]))).
      { intros k' Hk'. destruct (Hc k' (or_intror Hk')) as (A & B & C & D). repeat split; try assumption.
        intros Hin. rewrite app_assoc in Hin. unfold akeys in Hin. rewrite map_app in Hin. apply in_app_iff in Hin.
        destruct Hin as [Hin|[<-|[]]]; [now apply D|]. now apply Hknot. }
      destruct (IH cs1 R Rv (Cp ++ [(k, out)]) G cs2 w2 d2 HI1 HE1 HG1 Hnd' Hc' E2) as (HE2 & HG2 & Hd2 & Hw2).
      rewrite <- app_assoc in HE2, HG2. simpl in HE2, HG2.
      split; [assumption|]. split; [assumption|]. split.
      + exact (ds_spec_app [(k, out)] completed d1 d2 Hd1 Hd2).
      + exact (ws_spec_app [(k, out)] completed w1 w2 Hw1 Hw2).
  Qed.

  (* ---------- update_chans ---------- *)
  Lemma in_incoming_deps_iff t ds p : In p (incoming_deps g t ds) <-> In p (cpreds g t) /\ In (t, p) ds.
  Proof.
    unfold incoming_deps. rewrite in_map_iff. split.
    - intros ([t' p'] & <- & Hd). apply filter_In in Hd. destruct Hd as [Hd Hf]. simpl in *.
      apply andb_true_iff in Hf. destruct Hf as [Hf1 Hf2]. apply N.eqb_eq in Hf1. apply memb_in in Hf2. subst. auto.
    - intros [Hc Hd]. exists (t, p). split; [reflexivity|]. apply filter_In. split; [assumption|]. simpl.
      rewrite N.eqb_refl. simpl. now apply memb_in.
  Qed.

  Lemma in_incoming_vals_iff t ws p v :
    In (p, v) (incoming_vals V g t ws) <-> In p (dpreds g t) /\ In (t, (p, v)) ws.
  Proof.
    unfold incoming_vals. rewrite in_map_iff. split.
    - intros ([t' [p' v']] & [= <- <-] & Hd). apply filter_In in Hd. destruct Hd as [Hd Hf]. simpl in *.
      apply andb_true_iff in Hf. destruct Hf as [Hf1 Hf2]. apply N.eqb_eq in Hf1. apply memb_in in Hf2. subst. auto.
    - intros [Hc Hd]. exists (t, (p, v)). split; [reflexivity|]. apply filter_In. split; [assumption|]. simpl.
      rewrite N.eqb_refl. simpl. now apply memb_in.
  Qed.

  Lemma in_incoming_vals_keys t ws p :
    In p (akeys (incoming_vals V g t ws)) <-> In p (dpreds g t) /\ exists v, In (t, (p, v)) ws.
  Proof.
    unfold akeys. rewrite in_map_iff. split.
    - intros ([p' v] & <- & Hin). apply in_incoming_vals_iff in Hin. simpl. destruct Hin; eauto.
    - intros (Hd & v & Hin). exists (p, v). split; [reflexivity|]. apply in_incoming_vals_iff. auto.
  Qed.

  Lemma all_skipped_false_ex (l : list (key * dep)) :
    ksorted l -> all_skipped l = false -> exists p d, alookup p l = Some d /\ d <> Skipped.
  Proof.
    intros Hs. unfold all_skipped. induction l as [|[k d] l IH]; simpl; [discriminate|].
    destruct Hs as [Hlt Hs]. destruct (dep_eqb d Skipped) eqn:E; simpl.
    - intros H. destruct (IH Hs H) as (p & d' & El & Hne). exists p, d'. split; [|assumption].
      destruct (N.eqb p k) eqn:Ek; [|assumption]. apply N.eqb_eq in Ek. subst.
      apply alookup_some_key in El. specialize (Hlt _ El). simpl in Hlt. lia.
    - intros _. exists k, d. rewrite N.eqb_refl. split; [reflexivity|]. intros ->. discriminate.
  Qed.

  Lemma update_chans_ET cs R Rv Cp G ws ds cs' :
    Inv cs R G [] -> ET cs Rv Cp G [] -> GW Rv Cp G -> ds_spec Cp ds -> ws_spec Cp ws ->
    update_chans V g ws ds cs = Ok cs' ->
    ET cs' (Rv ++ Cp) [] G [] /\ GW (Rv ++ Cp) [] G.
  Proof.
    intros HI HE HG Hds Hws. unfold update_chans. destruct (targets_exist V cs ws ds); [|discriminate].
    intros [= <-]. rewrite (update_chans_eq V g Hdag).
    set (cs' := map (fun kv : N * chan => (fst kv, upd1 V g ws ds (fst kv) (snd kv))) cs).
    assert (Hlk : forall t, alookup t cs' = option_map (upd1 V g ws ds t) (alookup t cs)).
    { intros t. unfold cs'. exact (alookup_map_snd (fun kv => upd1 V g ws ds (fst kv) (snd kv)) t cs). }
    assert (Hsk : forall p, skipped cs p <-> skipped cs' p).
    { intros p. unfold DagInv.skipped. rewrite Hlk. split.
      - intros (c & E & S). exists (upd1 V g ws ds p c). rewrite E. simpl. split; [reflexivity|now rewrite upd1_skipped].
      - intros (c' & E & S). destruct (alookup p cs) as [c|]; [|discriminate]. simpl in E. injection E as <-.
        exists c. split; [reflexivity|now rewrite upd1_skipped in S]. }
    pose proof (inv_wf _ _ _ _ _ _ HI) as (_ & _ & Hall).
    assert (HGW' : GW (Rv ++ Cp) [] G).
    { destruct HG as [A B C]. constructor; rewrite app_nil_r; assumption. }
    split; [|assumption].
    assert (Hlive : forall t c', live cs' G t c' -> exists c, c' = upd1 V g ws ds t c /\ live cs G t c).
    { intros t c' (E & HnG & S). rewrite Hlk in E. destruct (alookup t cs) as [c|] eqn:E0; [|discriminate].
      simpl in E. injection E as <-. exists c. split; [reflexivity|]. split; [assumption|]. split; [assumption|].
      now rewrite upd1_skipped in S. }
    assert (Hctrl : forall t c p, c_skipped V c = false ->
              ctrl_st (upd1 V g ws ds t c) p = if memb p (incoming_deps g t ds) then option_map (fun _ => Ready) (ctrl_st c p) else ctrl_st c p).
    { intros t c p S. rewrite (upd1_ctrl V g). now rewrite S. }
    assert (Hdata : forall t c p, c_skipped V c = false ->
              data_st (upd1 V g ws ds t c) p = if memb p (akeys (incoming_vals V g t ws)) then option_map (fun _ => true) (data_st c p) else data_st c p).
    { intros t c p S. rewrite (upd1_data V g). now rewrite S. }
    assert (Hdtrue : forall t c p, data_st c p = Some true -> data_st (upd1 V g ws ds t c) p = Some true).
    { intros t c p E. rewrite (upd1_data V g). destruct (_ && _)%bool; [now rewrite E|assumption]. }
    (* a source of a pending dependency / write is a pending node *)
    assert (Fdep : forall t p, In p (incoming_deps g t ds) ->
              In p (cpreds g t) /\ exists out n, In (p, out) Cp /\ find_node g p = Some n /\ routes_c n out t).
    { intros t p Hin. apply in_incoming_deps_iff in Hin. destruct Hin as [Hc Hd]. split; [assumption|]. now apply Hds. }
    assert (HCpRv : forall p out, In (p, out) Cp -> ~ In p (akeys Rv)).
    { intros p out Hin HRv. destruct HG as [Hnd _ _]. unfold akeys in *. rewrite map_app in Hnd.
      destruct (NoDup_app_inv _ _ Hnd) as (_ & _ & Hd). apply (Hd p HRv). now apply (in_map fst) in Hin. }
    assert (HCpns : forall p out, In (p, out) Cp -> ~ skipped cs p).
    { intros p out Hin. apply (gotten_not_skipped _ _ _ _ _ _ p HI). apply (gw_inG _ _ _ HG).
      unfold akeys. rewrite map_app. apply in_app_iff. right. now apply (in_map fst) in Hin. }
    destruct HE as [Hesk Hc1 Hc2 Hc3 Hd1 Hd2 Hd3 H6 HEE].
    constructor.
    - (* e_sk *)
      intros t c'. rewrite Hlk. destruct (alookup t cs) as [c|] eqn:E; [|discriminate]. simpl. intros [= <-] Hne.
      rewrite upd1_skipped. destruct (c_skipped V c) eqn:S.
      + rewrite (upd1_ctrl_list_skipped V g ws ds t c S). rewrite <- S. exact (Hesk t c E Hne).
      + pose proof (Hesk t c E Hne) as Ha. rewrite S in Ha. symmetry in Ha.
        destruct (Hall t c E) as ((Hcc & _) & _).
        destruct (upd1_wf V g ws ds t c (Hall t c E)) as ((Hcc' & _) & _).
        destruct (all_skipped (c_ctrl V (upd1 V g ws ds t c))) eqn:Ea; [|reflexivity].
        exfalso. pose proof (proj1 (all_skipped_iff _ Hcc') Ea) as Hall'.
        destruct (all_skipped_false_ex _ Hcc Ha) as (p & d & El & Hne').
        specialize (Hall' p). change (alookup p (c_ctrl V (upd1 V g ws ds t c))) with (ctrl_st (upd1 V g ws ds t c) p) in Hall'.
        rewrite Hctrl in Hall' by assumption. change (alookup p (c_ctrl V c)) with (ctrl_st c p) in El.
        rewrite El in Hall'. simpl in Hall'. destruct (memb p (incoming_deps g t ds)).
        * specialize (Hall' Ready eq_refl). discriminate.
        * specialize (Hall' d eq_refl). contradiction.
    - (* e_c1 *)
      intros t c' p out n HL Hp HRv Hf. destruct (Hlive t c' HL) as (c & -> & HL0).
      pose proof HL0 as (E0 & _ & S0). rewrite Hctrl by assumption.
      destruct (Hall t c E0) as (_ & Hcw & _).
      apply in_app_iff in HRv. destruct HRv as [HRv|HCp].
      + destruct (memb p (incoming_deps g t ds)) eqn:Em.
        * exfalso. apply memb_in in Em. destruct (Fdep t p Em) as (_ & o' & n' & HCp' & _).
          apply (HCpRv p o' HCp'). unfold akeys. now apply (in_map fst) in HRv.
        * eapply Hc1; eassumption.
      + destruct (gw_node _ _ _ HG p out (proj2 (in_app_iff _ _ _) (or_intror HCp))) as (n' & sel & sk & Hf' & Hev).
        rewrite Hf in Hf'. injection Hf' as <-.
        split.
        * intros Hr. assert (Em : memb p (incoming_deps g t ds) = true).
          { apply memb_in. apply in_incoming_deps_iff. split; [assumption|]. apply Hds. eauto. }
          rewrite Em. apply Hcw in Hp. destruct (ctrl_st c p); [reflexivity|congruence].
        * intros Hnr. destruct (memb p (incoming_deps g t ds)) eqn:Em.
          -- exfalso. apply memb_in in Em. destruct (Fdep t p Em) as (_ & o' & n' & HCp' & Hf' & Hr').
             assert (o' = out).
             { eapply GW_unique; [exact HG| |]; apply in_app_iff; right; eassumption. }
             subst o'. rewrite Hf in Hf'. injection Hf' as <-. contradiction.
          -- eapply Hc2; try eassumption. eapply not_routed_c_skl; eassumption.
    - (* e_c2 *) intros t c p out n _ _ [].
    - (* e_c3 *)
      intros t c' p HL Hp Hs Hn. destruct (Hlive t c' HL) as (c & -> & HL0).
      pose proof HL0 as (E0 & _ & S0). rewrite Hctrl by assumption. apply Hsk in Hs.
      destruct (memb p (incoming_deps g t ds)) eqn:Em.
      + exfalso. apply memb_in in Em. destruct (Fdep t p Em) as (_ & o' & n' & HCp' & _). now apply (HCpns p o' HCp').
      + eapply Hc3; eassumption.
    - (* e_d1 *)
      intros t c' p HL Hp HRv. destruct (Hlive t c' HL) as (c & -> & HL0).
      pose proof HL0 as (E0 & _ & S0).
      destruct (Hall t c E0) as (_ & _ & Hdw).
      unfold akeys in HRv. rewrite map_app in HRv. apply in_app_iff in HRv. destruct HRv as [HRv|HCp].
      + apply Hdtrue. eapply Hd1; eassumption.
      + apply in_map_iff in HCp. destruct HCp as ([p' out] & <- & HCp). simpl in *.
        destruct (gw_node _ _ _ HG p' out (proj2 (in_app_iff _ _ _) (or_intror HCp))) as (n & sel & sk & Hf & Hev).
        destruct (in_dec N.eq_dec p' (akeys (incoming_vals V g t ws))) as [Hin|Hnin].
        * rewrite Hdata by assumption. apply memb_in in Hin. rewrite Hin. apply Hdw in Hp.
          destruct (data_st c p'); [reflexivity|congruence].
        * apply Hdtrue. eapply Hd2; try eassumption. eapply not_routed_d_skl; try eassumption.
          intros Hr. apply Hnin. apply in_incoming_vals_keys. split; [assumption|].
          exists (edge_value V ops n t out). apply Hws. exists out, n. auto.
    - (* e_d2 *) intros t c p out n _ _ [].
    - (* e_d3 *)
      intros t c' p HL Hp Hs Hn. destruct (Hlive t c' HL) as (c & -> & HL0).
      apply Hdtrue. apply Hsk in Hs. eapply Hd3; eassumption.
    - (* e_6 *)
      intros t c' p. rewrite Hlk. destruct (alookup t cs) as [c|] eqn:E; [|discriminate]. simpl. intros [= <-].
      destruct (c_skipped V c) eqn:S.
      + rewrite (upd1_ctrl_list_skipped V g ws ds t c S). intros Hr. destruct (H6 t c p E Hr) as (o & n & Hin & H).
        exists o, n. split; [apply in_app_iff; now left|assumption].
      + rewrite Hctrl by assumption. destruct (memb p (incoming_deps g t ds)) eqn:Em.
        * intros _. apply memb_in in Em. destruct (Fdep t p Em) as (_ & o & n & Hin & H).
          exists o, n. split; [apply in_app_iff; now right|assumption].
        * intros Hr. destruct (H6 t c p E Hr) as (o & n & Hin & H).
          exists o, n. split; [apply in_app_iff; now left|assumption].
    - (* e_E *)
      intros t Ht Hne Hcp. destruct (HEE t Ht Hne Hcp) as (p & o & n & A & B & C).
      exists p, o, n. split; [assumption|]. split; [apply in_app_iff; now left|assumption].
  Qed.

  (* ---------- get_all ---------- *)
  Lemma get_all_ET cs R Rv G cs' ready :
    Inv cs R G [] -> ET cs Rv [] G [] -> get_all V ops g cs = Ok (cs', ready) ->
    ET cs' Rv [] (G ++ akeys ready) [].
  Proof.
    intros HI HE Hg.
    pose proof (inv_wf _ _ _ _ _ _ HI) as (Hks & Hst & Hall).
    destruct (get_all_spec V ops g Hdag cs cs' ready Hks Hg) as (Hkeys & Hsr & Hsub & Hspec).
    assert (Hch : forall t c, alookup t cs = Some c ->
              (dag_ready V c = false /\ alookup t cs' = Some c /\ alookup t ready = None)
              \/ (dag_ready V c = true /\ alookup t cs' = Some (dag_reset V c) /\ In t (akeys ready))).
    { intros t c E. specialize (Hspec t). rewrite E in Hspec. destruct Hspec as (ov & c' & E1 & E2 & E3).
      destruct (dag_get_cases V ops c ov c' E1) as [(-> & -> & Hr)|(v & -> & -> & Hr & _)].
      - left. auto.
      - right. split; [assumption|]. split; [assumption|]. simpl in E3. eapply alookup_some_key; eassumption. }
    assert (Hnone : forall t, alookup t cs = None -> alookup t cs' = None).
    { intros t E. specialize (Hspec t). rewrite E in Hspec. tauto. }
    assert (Hsk : forall p, skipped cs' p -> skipped cs p).
    { intros p (c' & E' & S'). destruct (alookup p cs) as [c|] eqn:E.
      - destruct (Hch p c E) as [(_ & E2 & _)|(_ & E2 & _)]; rewrite E2 in E'; injection E' as <-; exists c; auto.
      - rewrite (Hnone p E) in E'. discriminate. }
    assert (Hlive : forall t c', live cs' (G ++ akeys ready) t c' -> live cs G t c').
    { intros t c' (E' & HnG & S'). destruct (alookup t cs) as [c|] eqn:E.
      - destruct (Hch t c E) as [(_ & E2 & _)|(_ & _ & Hin)].
        + rewrite E2 in E'. injection E' as <-. split; [assumption|]. split; [|assumption].
          intros Hin. apply HnG. apply in_app_iff. now left.
        + exfalso. apply HnG. apply in_app_iff. now right.
      - rewrite (Hnone t E) in E'. discriminate. }
    destruct HE as [Hesk Hc1 Hc2 Hc3 Hd1 Hd2 Hd3 H6 HEE].
    constructor.
    - intros t c' E' Hne. destruct (alookup t cs) as [c|] eqn:E.
      + destruct (Hch t c E) as [(_ & E2 & _)|(Hr & E2 & _)]; rewrite E2 in E'; injection E' as <-; [now apply (Hesk t)|].
        change (c_skipped V (dag_reset V c)) with (c_skipped V c).
        apply dag_ready_iff in Hr; [|apply (Hall t c E)]. destruct Hr as (Hr & _). rewrite Hr.
        destruct (Hall t c E) as (_ & Hcw & _).
        destruct (cpreds g t) as [|p l] eqn:Ec; [congruence|].
        assert (Hp : ctrl_st c p <> None) by (apply Hcw; try rewrite Ec; now left).
        destruct (reset_wf V g t c (Hall t c E)) as ((Hcc' & _) & _).
        destruct (all_skipped (c_ctrl V (dag_reset V c))) eqn:Ea; [|reflexivity].
        pose proof (proj1 (all_skipped_iff _ Hcc') Ea p) as Hx.
        change (alookup p (c_ctrl V (dag_reset V c))) with (ctrl_st (dag_reset V c) p) in Hx.
        rewrite dag_reset_ctrl in Hx. destruct (ctrl_st c p); [|congruence]. specialize (Hx Waiting eq_refl). discriminate.
      + rewrite (Hnone t E) in E'. discriminate.
    - intros t c p out n HL. eapply Hc1. now apply Hlive.
    - intros t c p out n _ _ [].
    - intros t c p HL Hp Hs Hn. eapply Hc3; eauto.
    - intros t c p HL. eapply Hd1. now apply Hlive.
    - intros t c p out n _ _ [].
    - intros t c p HL Hp Hs Hn. eapply Hd3; eauto.
    - intros t c' p E' Hr. destruct (alookup t cs) as [c|] eqn:E.
      + destruct (Hch t c E) as [(_ & E2 & _)|(_ & E2 & _)]; rewrite E2 in E'; injection E' as <-; [eapply H6; eassumption|].
        rewrite dag_reset_ctrl in Hr. destruct (ctrl_st c p); discriminate.
      + rewrite (Hnone t E) in E'. discriminate.
    - intros t Ht Hne Hcp. apply in_app_iff in Ht. destruct Ht as [Ht|Ht]; [now apply HEE|].
      destruct (alookup t cs) as [c|] eqn:E.
      2:{ exfalso. apply Hsub in Ht. apply alookup_none in E. contradiction. }
      destruct (Hch t c E) as [(_ & _ & En)|(Hr & _ & _)].
      { apply alookup_none in En. contradiction. }
      pose proof (Hall t c E) as Hcwf. pose proof Hcwf as ((Hcc & _) & Hcw & _).
      apply dag_ready_iff in Hr; [|apply Hcwf]. destruct Hr as (Hns & Hw & _).
      pose proof (Hesk t c E Hcp) as Ha. rewrite Hns in Ha. symmetry in Ha.
      destruct (all_skipped_false_ex _ Hcc Ha) as (p & d & El & Hnsk).
      change (alookup p (c_ctrl V c)) with (ctrl_st c p) in El.
      assert (Hd : d = Ready).
      { pose proof (Hw p d El). destruct d; congruence. }
      subst d. destruct (H6 t c p E El) as (o & n & A & B & C).
      exists p, o, n. split; [|auto]. apply Hcw. congruence.
  Qed.

  (* ---------- calc_next ---------- *)
  Lemma calc_next_ET cs R Rv G completed cs' ready :
    Inv cs R G [] -> orph V g cs -> NoDup G -> ET cs Rv [] G [] -> GW Rv [] G ->
    NoDup (akeys completed) ->
    (forall k, In k (akeys completed) -> In k G /\ npred g G k /\ ~ In k (akeys Rv)) ->
    calc_next V ops g cs completed = Ok (cs', ready) ->
    ET cs' (Rv ++ completed) [] (G ++ akeys ready) [] /\ GW (Rv ++ completed) [] (G ++ akeys ready)
    /\ (forall t c, alookup t cs' = Some c -> ~ In t (akeys ready) -> dag_ready V c = false).
  Proof.
    intros HI Ho Hnd HE HG HndC Hc. unfold calc_next.
    destruct (resolve_all V ops g completed cs) as [[[cs1 ws] ds]|e|] eqn:E1; simpl; [|discriminate..].
    destruct (update_chans V g ws ds cs1) as [cs2|e|] eqn:E2; simpl; [|discriminate..].
    intros E3.
    set (R' := akeys completed ++ R).
    assert (HR' : incl R' G).
    { intros x Hx. apply in_app_iff in Hx. destruct Hx as [Hx|Hx]; [exact (proj1 (Hc x Hx))|now apply (inv_RG _ _ _ _ _ _ HI)]. }
    assert (HI' : Inv cs R' G []).
    { apply Inv_grow_R with R; [|assumption..]. intros x Hx. apply in_app_iff. now right. }
    assert (Hnp : forall k, In k (akeys completed) -> In k R' /\ npred g G k).
    { intros k Hk. split; [apply in_app_iff; now left|]. exact (proj1 (proj2 (Hc k Hk))). }
    assert (Hc' : forall k, In k (akeys completed) -> In k R' /\ In k G /\ npred g G k /\ ~ In k (akeys (Rv ++ []))).
    { intros k Hk. destruct (Hc k Hk) as (A & B & C). rewrite app_nil_r. repeat split; try assumption. apply in_app_iff. now left. }
    destruct (resolve_all_inv V ops g Hdag completed cs R' G cs1 ws ds HI' Hnp E1) as (HI1 & Hm1 & Hws & Hds).
    destruct (resolve_all_ET completed cs R' Rv [] G cs1 ws ds HI' HE HG HndC Hc' E1) as (HE1 & HG1 & Hdsp & Hwsp).
    simpl in HE1, HG1.
    destruct (update_chans_inv V g Hdag cs1 R' G ws ds cs2 HI1
                (fun w Hw => Hnp _ (Hws w Hw)) (fun d Hd => Hnp _ (Hds d Hd)) E2) as (HI2 & Hm2).
    destruct (update_chans_ET cs1 R' Rv completed G ws ds cs2 HI1 HE1 HG1 Hdsp Hwsp E2) as (HE2 & HG2).
    split; [|split].
    - eapply get_all_ET; eassumption.
    - destruct HG2 as [A B C]. constructor; try assumption.
      intros p Hp. apply in_app_iff. left. now apply B.
    - pose proof (inv_wf _ _ _ _ _ _ HI2) as (Hks & _ & _).
      destruct (get_all_spec V ops g Hdag cs2 cs' ready Hks E3) as (_ & _ & _ & Hspec).
      intros t c E Hnin. specialize (Hspec t). destruct (alookup t cs2) as [c2|] eqn:E2'.
      + destruct Hspec as (ov & c' & G1 & G2 & G3). rewrite E in G2. injection G2 as <-.
        destruct (dag_get_cases V ops c2 ov c G1) as [(-> & -> & Hr)|(v & -> & _ & _ & _)]; [assumption|].
        exfalso. apply Hnin. simpl in G3. eapply alookup_some_key; eassumption.
      + destruct Hspec as [En _]. congruence.
  Qed.
End DagTrig.
