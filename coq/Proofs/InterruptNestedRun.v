(* Proofs/InterruptNestedRun.v — property C06, first clause, at run level, for the executions at EVERY nesting
   level (owner: C06).

   The flat execution log of the model ([e_log]: one entry per execution of a lambda body, at whatever depth of
   nested graphs; cut at the call markers it is [call_logs], which the correspondence check compares with the
   executions the implementation performed in each call) contains an execution of a node that is configured
   interrupt-before in the graph declaring it only in a call j > 0 whose predecessor returned an interrupt, wrote
   its checkpoint, and whose information TREE reports the node ([tree_reports]: before / rerun / nested list of
   the information itself or of a nested information, at any depth).

   How: (1) a generic statement about which calls of node bodies a run segment makes ([Calls]: an invariant of
   the environment preserved by the calls [exec k cpo v] allowed by [Q] is preserved by the segment, when [Q]
   holds of the restored tasks and of every fresh task of a node that is not interrupt-before — the loop submits
   nothing else); (2) by induction on the nesting depth, [node_exec_grows]: what a call of a node body adds to the
   flat log is justified by the information tree that the nested checkpoint handed down belongs with ([paired]);
   (3) call by call along [drive] ([drive_logs]); (4) the cut of the flat log at the call markers. *)
From Coq Require Import Lia.
From Eino Require Import Base.Util Model.Graph Model.RunLoop Model.Interrupt
     Proofs.RunLoop Proofs.RunLoopEager Proofs.RunLoopDrive Proofs.Interrupt Proofs.InterruptDrive.
Open Scope N_scope.

(* ---------- which calls of node bodies a run segment makes (generic loop) ----------
   Whatever invariant [P] of the environment is preserved by the calls [exec k cpo v] with [Q k cpo] is
   preserved by a run segment whose pending tasks satisfy [Q], provided [Q] holds of every freshly
   created task of a node that is not interrupt-before: the loop submits nothing else. *)
Section Calls.
  Context {V CS GS ENV SCP SINFO : Type}.
  Variable zero : V.
  Variable fold : CS -> list (N * V) -> res CS.
  Variable getr : CS -> res (CS * list (N * V)).
  Variable pre : N -> V -> GS -> V * GS.
  Variable exec : N -> option SCP -> V -> ENV -> @texec V SCP SINFO * ENV.
  Variable before after : list N.

  Variable P : ENV -> Prop.
  Variable Q : N -> option SCP -> Prop.
  Hypothesis H_exec : forall k cpo v e r e', Q k cpo -> P e -> exec k cpo v e = (r, e') -> P e'.
  Hypothesis H_fresh : forall k, memN k before = false -> Q k None.

  Notation taskT := (@task V SCP).
  Definition tasks_ok (ts : list taskT) : Prop := forall t, In t ts -> Q (t_key t) (t_cp t).

  Lemma exec_all_preserves : forall (ts : list taskT) env rs env',
    tasks_ok ts -> exec_all exec ts env = (rs, env') -> P env -> P env'.
  Proof.
    induction ts as [|t ts IH]; intros env rs env' Hok H HP; simpl in H.
    - inversion H; subst; assumption.
    - destruct (exec (t_key t) (t_cp t) (t_in t) env) as [r env1] eqn:He.
      destruct (exec_all exec ts env1) as [rest env2] eqn:Ha. inversion H; subst.
      eapply IH; [|exact Ha|].
      + intros t' Ht'; apply Hok; right; assumption.
      + eapply H_exec; [|exact HP|exact He]. apply Hok; left; reflexivity.
  Qed.

  Lemma run_pres_tasks_ok : forall (ts : list taskT) gs, tasks_ok ts -> tasks_ok (fst (run_pres pre ts gs)).
  Proof.
    induction ts as [|t ts IH]; intros gs Hok; simpl; [intros t []|].
    destruct (if t_skip t then (t_in t, gs) else pre (t_key t) (t_in t) gs) as [v gs1].
    specialize (IH gs1 (fun t' Ht' => Hok t' (or_intror Ht'))).
    destruct (run_pres pre ts gs1) as [rest gs2]; simpl in *.
    intros t' [<-|Ht']; simpl; [apply (Hok t); left; reflexivity | apply IH; assumption].
  Qed.

  Lemma fresh_tasks_ok : forall ready : list (N * V),
    (forall k, In k (map fst ready) -> memN k before = false) -> tasks_ok (map (@mk_task V SCP) ready).
  Proof.
    intros ready H t Ht. apply in_map_iff in Ht as [kv [<- Hkv]]. simpl. apply H_fresh, H.
    apply in_map; assumption.
  Qed.

  (* batch *)
  Lemma iterate_preserves : forall fuel (s : @lstate V CS GS SCP) env log o log' env',
    tasks_ok (ls_next s) ->
    iterate zero fold getr pre exec before after fuel s env log = (o, log', env') -> P env -> P env'.
  Proof.
    induction fuel as [|f IH]; intros s env log o log' env' Hok H HP; simpl in H; [inversion H; subst; assumption|].
    destruct (step zero fold getr pre exec before after s env) as [[r evs] env1] eqn:Hs.
    assert (HP1 : P env1).
    { unfold step in Hs. pose proof (run_pres_tasks_ok (ls_next s) (ls_gs s) Hok) as Hok'.
      destruct (run_pres pre (ls_next s) (ls_gs s)) as [ts gs1]; simpl in Hok'.
      destruct (exec_all exec ts env) as [rs env2] eqn:Ha. inversion Hs; subst.
      eapply exec_all_preserves; eauto. }
    destruct r as [s'|v|i c|e]; try (inversion H; subst; assumption).
    eapply IH; [|exact H|exact HP1].
    intros t Ht.
    pose proof (step_continue_fresh zero fold getr pre exec before after _ _ _ _ _ Hs) as Hf.
    pose proof (step_continue_no_before zero fold getr pre exec before after _ _ _ _ _ Hs (t_key t) (in_map _ _ _ Ht)) as Hb.
    unfold fresh_state in Hf. rewrite Forall_forall in Hf. destruct (Hf t Ht) as [_ ->]. apply H_fresh; assumption.
  Qed.

  Lemma start_preserves : forall fuel cs0 (gs0 : GS) x env o log env',
    start zero fold getr pre exec before after fuel cs0 gs0 x env = (o, log, env') -> P env -> P env'.
  Proof.
    unfold start, start_gen, init_gen; intros fuel cs0 gs0 x env o log env' H HP.
    destruct (calc fold getr cs0 [(kStart, x)]) as [[cs1 ready]| |]; simpl in H; try (inversion H; subst; assumption).
    destruct (nlist_get kEnd ready); simpl in H; try (inversion H; subst; assumption).
    destruct (is_nil (hits before ready)) eqn:Hh; simpl in H; try (inversion H; subst; assumption).
    eapply iterate_preserves; [|exact H|exact HP]. simpl. apply fresh_tasks_ok.
    intros k Hk. destruct (memN k before) eqn:Hm; auto.
    assert (In k (hits before ready)) by (unfold hits; apply filter_In; auto).
    destruct (hits before ready); [destruct H0|discriminate].
  Qed.

  Lemma resume_preserves : forall fuel sm (c : @checkpoint V CS GS SCP) env o log env',
    (forall k, In k (map fst (cp_inputs c)) -> Q k (nlist_get k (cp_subs c))) ->
    resume zero fold getr pre exec before after fuel sm c env = (o, log, env') -> P env -> P env'.
  Proof.
    unfold resume; intros fuel sm c env o log env' HQ H HP.
    eapply iterate_preserves; [|exact H|exact HP]. simpl.
    intros t Ht. apply in_map_iff in Ht as [kv [<- Hkv]]. simpl. apply HQ. apply in_map; assumption.
  Qed.

  (* eager *)
  Lemma eiterate_preserves : forall fuel (s : @estate V CS GS SCP SINFO) sched env log o log' env',
    tasks_ok (es_next s) ->
    eiterate zero fold getr pre exec before after false fuel s sched env log = (o, log', env') -> P env -> P env'.
  Proof.
    induction fuel as [|f IH]; intros s sched env log o log' env' Hok H HP; simpl in H; [inversion H; subst; assumption|].
    destruct (estep_gen zero fold getr pre exec before after false s sched env) as [[r evs] env1] eqn:Hs.
    assert (HP1 : P env1).
    { unfold estep_gen in Hs. pose proof (run_pres_tasks_ok (es_next s) (es_gs s) Hok) as Hok'.
      destruct (run_pres pre (es_next s) (es_gs s)) as [ts gs1]; simpl in Hok'.
      destruct (exec_all exec ts env) as [rs env2] eqn:Ha. inversion Hs; subst.
      eapply exec_all_preserves; eauto. }
    destruct r as [s' sched'|r]; [|inversion H; subst; assumption].
    eapply IH; [|exact H|exact HP1].
    intros t Ht.
    pose proof (estep_continue_no_before zero fold getr pre exec before after _ _ _ _ _ _ _ Hs (t_key t) (in_map _ _ _ Ht)) as Hb.
    assert (Hc : t_cp t = None).
    { unfold estep_gen in Hs.
      destruct (run_pres pre (es_next s) (es_gs s)) as [ts gs1].
      destruct (exec_all exec ts env) as [rs env2].
      destruct (pick (es_running s ++ rs) sched) as [[[c rest] sc]|]; [|inversion Hs].
      inversion Hs as [[Hd He Hv]].
      apply edecide_continue in Hd as (cs2 & ready & _ & _ & _ & _ & _ & -> & _).
      simpl in Ht. apply in_map_iff in Ht as [kv [<- _]]. reflexivity. }
    rewrite Hc. apply H_fresh; assumption.
  Qed.

  Lemma estart_preserves : forall fuel cs0 (gs0 : GS) x sched env o log env',
    estart zero fold getr pre exec before after false fuel cs0 gs0 x sched env = (o, log, env') -> P env -> P env'.
  Proof.
    unfold estart, init, init_gen; intros fuel cs0 gs0 x sched env o log env' H HP.
    destruct (calc fold getr cs0 [(kStart, x)]) as [[cs1 ready]| |]; simpl in H; try (inversion H; subst; assumption).
    destruct (nlist_get kEnd ready); simpl in H; try (inversion H; subst; assumption).
    destruct (is_nil (hits before ready)) eqn:Hh; simpl in H; try (inversion H; subst; assumption).
    eapply eiterate_preserves; [|exact H|exact HP]. simpl. apply fresh_tasks_ok.
    intros k Hk. destruct (memN k before) eqn:Hm; auto.
    assert (In k (hits before ready)) by (unfold hits; apply filter_In; auto).
    destruct (hits before ready); [destruct H0|discriminate].
  Qed.

  Lemma eresume_preserves : forall fuel sm (c : @checkpoint V CS GS SCP) sched env o log env',
    (forall k, In k (map fst (cp_inputs c)) -> Q k (nlist_get k (cp_subs c))) ->
    eresume zero fold getr pre exec before after false fuel sm c sched env = (o, log, env') -> P env -> P env'.
  Proof.
    unfold eresume; intros fuel sm c sched env o log env' HQ H HP.
    eapply eiterate_preserves; [|exact H|exact HP]. simpl.
    intros t Ht. apply in_map_iff in Ht as [kv [<- Hkv]]. simpl. apply HQ. apply in_map; assumption.
  Qed.
End Calls.

(* ---------- the segments of the model (Model/Interrupt.v) ---------- *)
Section SegCalls.
  Variable ex : N -> option ncp -> value -> env -> tex * env.
  Variable gi : N.
  Variable g : gspec.
  Variable P : env -> Prop.
  Variable Q : N -> option ncp -> Prop.
  Hypothesis P_log : forall e e', e_log e = e_log e' -> P e -> P e'.
  Hypothesis H_exec : forall k cpo v e r e', Q k cpo -> P e -> ex k cpo v e = (r, e') -> P e'.
  Hypothesis H_fresh : forall k, memN k (gs_before g) = false -> Q k None.
  Let gr := gs_graph g.

  Lemma pop_sched_log : forall e s e1, pop_sched gi e = (s, e1) -> e_log e1 = e_log e.
  Proof.
    unfold pop_sched; intros e s e1 H.
    destruct (nlist_get gi (e_sched e)) as [[|x rest]|]; inversion H; subst; reflexivity.
  Qed.

  Lemma enter_preserves : forall s e o l e',
    tasks_ok Q (ls_next s) -> enter ex gi g s e = (o, l, e') -> P e -> P e'.
  Proof.
    intros s e o l e' Hok H HP. unfold enter in H. fold gr in H.
    destruct (g_eager gr).
    - destruct (match ls_next s with [] => ([], e) | _ :: _ => pop_sched gi e end) as [sched e1] eqn:Hp.
      assert (HP1 : P e1).
      { destruct (ls_next s); [inversion Hp; subst; assumption|].
        eapply P_log; [|exact HP]. symmetry; eapply pop_sched_log; eauto. }
      eapply (eiterate_preserves VNil (ifold gr) (igetr gr) (pre_fn g) ex (gs_before g) (gs_after g) P Q H_exec H_fresh);
        [|exact H|exact HP1]. exact Hok.
    - eapply (iterate_preserves VNil (ifold gr) (igetr gr) (pre_fn g) ex (gs_before g) (gs_after g) P Q H_exec H_fresh);
        [|exact H|exact HP]. exact Hok.
  Qed.

  Lemma seg_fresh_preserves : forall x e o l e',
    seg_fresh ex gi g x e = (o, l, e') -> P e -> P e'.
  Proof.
    intros x e o l e' H HP. unfold seg_fresh in H. fold gr in H.
    destruct (init_chans value gr) as [cs0| |]; try (inversion H; subst; assumption).
    destruct (init (ifold gr) (igetr gr) (gs_before g) cs0 (gs0 g) x) as [s|v|i0 c0|err] eqn:Hi;
      simpl in H; try (inversion H; subst; assumption).
    eapply enter_preserves; [|exact H|exact HP].
    unfold init, init_gen in Hi.
    destruct (calc (ifold gr) (igetr gr) cs0 [(kStart, x)]) as [[cs1 ready]| |]; try discriminate.
    destruct (nlist_get kEnd ready); try discriminate.
    destruct (is_nil (hits (gs_before g) ready)) eqn:Hh; simpl in Hi; try discriminate.
    inversion Hi; subst; simpl. apply (fresh_tasks_ok (gs_before g) Q H_fresh).
    intros k Hk. destruct (memN k (gs_before g)) eqn:Hm; auto.
    assert (In k (hits (gs_before g) ready)) by (unfold hits; apply filter_In; auto).
    destruct (hits (gs_before g) ready); [destruct H0|discriminate].
  Qed.

  Lemma seg_resumed_preserves : forall sm (c : cpt) e o l e',
    (forall k, In k (map fst (cp_inputs c)) -> Q k (nlist_get k (cp_subs c))) ->
    seg_resumed ex gi g sm c e = (o, l, e') -> P e -> P e'.
  Proof.
    intros sm c e o l e' HQ H HP. unfold seg_resumed in H.
    eapply enter_preserves; [|exact H|exact HP]. simpl.
    intros t Ht. apply in_map_iff in Ht as [kv [<- Hkv]]. simpl. apply HQ. apply in_map; assumption.
  Qed.
End SegCalls.

(* ---------- the flat execution log and the information tree ---------- *)
(* the information tree of an interrupt reports node k, at some nesting level *)
Inductive tree_reports : inf -> N -> Prop :=
| tr_here : forall (i : inf) k, reported i k -> tree_reports i k
| tr_sub : forall (i : inf) k0 si k, In (k0, si) (ii_subs i) -> tree_reports (un_info si) k -> tree_reports i k.

Definition opt_reports (I : option inf) (k : N) : Prop :=
  match I with Some i => tree_reports i k | None => False end.

(* one graph of the forest declares node k *)
Definition unique_owner (F : list gspec) (k : N) : Prop :=
  forall g g' n n', In g F -> In g' F ->
    find_node (gs_graph g) k = Some n -> find_node (gs_graph g') k = Some n' -> g = g'.

(* k is configured interrupt-before in the graph that declares it *)
Definition before_in (F : list gspec) (k : N) : Prop :=
  unique_owner F k /\ exists g n, In g F /\ find_node (gs_graph g) k = Some n /\ memN k (gs_before g) = true.

(* log entries added by a call: lambda executions and pre-handler runs only; every execution of a node that is
   interrupt-before in its graph is reported by the information tree [I] *)
Definition justified (F : list gspec) (I : option inf) (added : list lentry) : Prop :=
  (forall en, In en added -> en <> LCall) /\
  (forall k v ab, In (LExec k v ab) added -> before_in F k -> opt_reports I k).

Definition grows (F : list gspec) (I : option inf) (L0 : list lentry) (e : env) : Prop :=
  exists added, e_log e = L0 ++ added /\ justified F I added.

Lemma grows_log : forall F I L0 e e', e_log e = e_log e' -> grows F I L0 e -> grows F I L0 e'.
Proof. intros F I L0 e e' E [a [H J]]. exists a. split; [rewrite <- E; exact H|exact J]. Qed.

Lemma justified_app : forall F I a b, justified F I a -> justified F I b -> justified F I (a ++ b).
Proof.
  intros F I a b [A1 A2] [B1 B2]. split.
  - intros en H; apply in_app_or in H as [H|H]; auto.
  - intros k v ab H; apply in_app_or in H as [H|H]; eauto.
Qed.

Lemma grows_append : forall F I L0 e e' b,
  grows F I L0 e -> e_log e' = e_log e ++ b -> justified F I b -> grows F I L0 e'.
Proof.
  intros F I L0 e e' b [a [H J]] E Jb. exists (a ++ b). split; [rewrite E, H, app_assoc; reflexivity|].
  apply justified_app; assumption.
Qed.

Lemma justified_pres : forall F I (ks : list N), justified F I (map LPre ks).
Proof.
  intros F I ks. split.
  - intros en H; apply in_map_iff in H as [k [<- _]]; discriminate.
  - intros k v ab H; apply in_map_iff in H as [k' [E _]]; discriminate.
Qed.

Lemma nlist_get_In' : forall A (k : N) (a : A) l, nlist_get k l = Some a -> In (k, a) l.
Proof.
  intros A k a l; induction l as [|[k' b] l IH]; simpl; intros H; [discriminate|].
  destruct (N.eqb k k') eqn:E.
  - apply N.eqb_eq in E; subst. inversion H; subst. left; reflexivity.
  - right; apply IH; assumption.
Qed.

(* ---------- node bodies: what a call adds to the flat log is justified by the information tree the nested
   checkpoint handed down belongs with ---------- *)
Lemma lambda_exec_grows : forall F g k v e r e' I L0,
  In g F -> (exists n, find_node (gs_graph g) k = Some n) ->
  lambda_exec g k v e = (r, e') ->
  grows F I L0 e ->
  (memN k (gs_before g) = true -> opt_reports I k) ->
  grows F I L0 e'.
Proof.
  intros F g k v e r e' I L0 HgF [n Hn] H HG Hown. unfold lambda_exec in H. inversion H; subst; clear H.
  eapply grows_append; [exact HG|simpl; reflexivity|]. split.
  - intros en [<-|[]]; discriminate.
  - intros k' v' ab' [E|[]] [Hu (g1 & n1 & Hg1 & Hn1 & Hb1)]. inversion E; subst.
    assert (g1 = g) by (eapply Hu; eauto). subst g1. auto.
Qed.

Lemma node_exec_grows : forall d F g k cpo v e r e' I L0,
  In g F ->
  node_exec d F g k cpo v e = (r, e') ->
  grows F I L0 e ->
  (memN k (gs_before g) = true -> opt_reports I k) ->
  (forall c', cpo = Some (NCP c') -> forall n j sub,
      find_node (gs_graph g) k = Some n -> n_kind n = KSub j -> nth_error F j = Some sub ->
      exists si : inf, paired F sub si c' /\ (forall k', tree_reports si k' -> opt_reports I k')) ->
  grows F I L0 e'.
Proof.
  induction d as [|d IH]; intros F g k cpo v e r e' I L0 HgF H HG Hown Hcp; simpl in H.
  - destruct (find_node (gs_graph g) k) as [n|] eqn:Hn; [|inversion H; subst; assumption].
    destruct (key_input g k cpo v) as [v'| |]; try (inversion H; subst; assumption).
    destruct (n_kind n); try (inversion H; subst; assumption);
      eapply lambda_exec_grows; eauto.
  - destruct (find_node (gs_graph g) k) as [n|] eqn:Hn; [|inversion H; subst; assumption].
    destruct (key_input g k cpo v) as [v'| |]; try (inversion H; subst; assumption).
    destruct (n_kind n) as [| |j] eqn:Hk; try (eapply lambda_exec_grows; eauto; fail).
    destruct (nth_error F j) as [sub|] eqn:Hj; [|inversion H; subst; assumption].
    assert (HsF : In sub F) by (eapply nth_error_In; eauto).
    destruct cpo as [[c0]|].
    + destruct (seg_resumed (node_exec d F sub) (N.of_nat j) sub (sm_of e) c0 e) as [[o l] e1] eqn:Hs.
      assert (e' = log_pres sub l e1) by (destruct o; inversion H; reflexivity). subst e'. clear H.
      destruct (Hcp c0 eq_refl n j sub eq_refl Hk Hj) as (si & Hp & Hsub).
      assert (HG1 : grows F I L0 e1).
      { eapply (seg_resumed_preserves (node_exec d F sub) (N.of_nat j) sub (grows F I L0)
                  (fun k' cpo' => (cpo' = None \/ cpo' = nlist_get k' (cp_subs c0)) /\
                                  (memN k' (gs_before sub) = true -> In k' (map fst (cp_inputs c0)))));
          [| | | |exact Hs|exact HG].
        - intros; eapply grows_log; eauto.
        - intros k' cpo' v1 e2 r2 e2' [Hq1 Hq2] HP2 He2.
          eapply IH; [exact HsF|exact He2|exact HP2| |].
          + intros Hm. apply Hsub. apply tr_here.
            inversion Hp as [g' i' c' Hrep _]; subst. apply Hrep; auto.
          + intros c'' Ec n' j' sub' Hn' Hk' Hj'. subst cpo'.
            destruct Hq1 as [Hq1|Hq1]; [discriminate|].
            symmetry in Hq1. apply nlist_get_In' in Hq1.
            destruct (paired_descends F sub si c0 Hp k' (NCP c'') Hq1) as (si' & n2 & j2 & sub2 & Hi & Hn2 & Hk2 & Hj2 & Hp2).
            rewrite Hn' in Hn2. inversion Hn2; subst n2. rewrite Hk' in Hk2. inversion Hk2; subst j2.
            rewrite Hj' in Hj2. inversion Hj2; subst sub2.
            exists (un_info si'). split; [exact Hp2|].
            intros k'' Ht. apply Hsub. eapply tr_sub; eauto.
        - intros k' Hm. split; [left; reflexivity|]. rewrite Hm; discriminate.
        - intros k' Hin. split; [right; reflexivity|]. intros _; exact Hin. }
      eapply grows_append; [exact HG1|unfold log_pres; simpl; reflexivity|apply justified_pres].
    + destruct (seg_fresh (node_exec d F sub) (N.of_nat j) sub v' e) as [[o l] e1] eqn:Hs.
      assert (e' = log_pres sub l e1) by (destruct o; inversion H; reflexivity). subst e'. clear H.
      assert (HG1 : grows F I L0 e1).
      { eapply (seg_fresh_preserves (node_exec d F sub) (N.of_nat j) sub (grows F I L0)
                  (fun k' cpo' => cpo' = None /\ memN k' (gs_before sub) = false));
          [| | |exact Hs|exact HG].
        - intros; eapply grows_log; eauto.
        - intros k' cpo' v1 e2 r2 e2' [Hq1 Hq2] HP2 He2.
          eapply IH; [exact HsF|exact He2|exact HP2| |].
          + rewrite Hq2; discriminate.
          + intros c'' Ec; subst cpo'; discriminate.
        - intros k' Hm. split; auto. }
      eapply grows_append; [exact HG1|unfold log_pres; simpl; reflexivity|apply justified_pres].
Qed.

(* ---------- run segments of a graph of the forest whose node bodies are the model's ---------- *)
Lemma seg_resumed_grows : forall d F sub gi sm (c : cpt) e o l e1 I L0 (si : inf),
  In sub F -> paired F sub si c -> (forall k', tree_reports si k' -> opt_reports I k') ->
  seg_resumed (node_exec d F sub) gi sub sm c e = (o, l, e1) ->
  grows F I L0 e -> grows F I L0 e1.
Proof.
  intros d F sub gi sm c e o l e1 I L0 si HsF Hp Hsub Hs HG.
  eapply (seg_resumed_preserves (node_exec d F sub) gi sub (grows F I L0)
            (fun k' cpo' => (cpo' = None \/ cpo' = nlist_get k' (cp_subs c)) /\
                            (memN k' (gs_before sub) = true -> In k' (map fst (cp_inputs c)))));
    [| | | |exact Hs|exact HG].
  - intros; eapply grows_log; eauto.
  - intros k' cpo' v1 e2 r2 e2' [Hq1 Hq2] HP2 He2.
    eapply node_exec_grows; [exact HsF|exact He2|exact HP2| |].
    + intros Hm. apply Hsub. apply tr_here.
      inversion Hp as [g' i' c' Hrep _]; subst. apply Hrep; auto.
    + intros c'' Ec n' j' sub' Hn' Hk' Hj'. subst cpo'.
      destruct Hq1 as [Hq1|Hq1]; [discriminate|].
      symmetry in Hq1. apply nlist_get_In' in Hq1.
      destruct (paired_descends F sub si c Hp k' (NCP c'') Hq1) as (si' & n2 & j2 & sub2 & Hi & Hn2 & Hk2 & Hj2 & Hp2).
      rewrite Hn' in Hn2. inversion Hn2; subst n2. rewrite Hk' in Hk2. inversion Hk2; subst j2.
      rewrite Hj' in Hj2. inversion Hj2; subst sub2.
      exists (un_info si'). split; [exact Hp2|].
      intros k'' Ht. apply Hsub. eapply tr_sub; eauto.
  - intros k' Hm. split; [left; reflexivity|]. rewrite Hm; discriminate.
  - intros k' Hin. split; [right; reflexivity|]. intros _; exact Hin.
Qed.

Lemma seg_fresh_grows : forall d F sub gi x e o l e1 I L0,
  In sub F ->
  seg_fresh (node_exec d F sub) gi sub x e = (o, l, e1) ->
  grows F I L0 e -> grows F I L0 e1.
Proof.
  intros d F sub gi x e o l e1 I L0 HsF Hs HG.
  eapply (seg_fresh_preserves (node_exec d F sub) gi sub (grows F I L0)
            (fun k' cpo' => cpo' = None /\ memN k' (gs_before sub) = false));
    [| | |exact Hs|exact HG].
  - intros; eapply grows_log; eauto.
  - intros k' cpo' v1 e2 r2 e2' [Hq1 Hq2] HP2 He2.
    eapply node_exec_grows; [exact HsF|exact He2|exact HP2| |].
    + rewrite Hq2; discriminate.
    + intros c'' Ec; subst cpo'; discriminate.
  - intros k' Hm. split; auto.
Qed.

(* ---------- the run driven through the store ---------- *)
(* the information the next call is resumed from: the interrupt of this call, if its checkpoint was written *)
Definition next_prev (co : cobs) : option inf :=
  match co_out co with OInterrupted i _ => if co_written co then Some i else None | _ => None end.

(* call by call: what the call added to the flat log is justified by the previous call's information *)
Fixpoint chain (F : list gspec) (prev : option inf) (cos : list cobs) (addeds : list (list lentry)) : Prop :=
  match cos, addeds with
  | [], [] => True
  | co :: cos', a :: addeds' => justified F prev a /\ chain F (next_prev co) cos' addeds'
  | _, _ => False
  end.

Definition marked (addeds : list (list lentry)) : list lentry := List.concat (map (cons LCall) addeds).

Section DriveLogs.
  Variable F : list gspec.
  Variable g0 : gspec.
  Hypothesis Hg0 : In g0 F.
  Variable x : value.
  Variable mods : list bool.
  Let ex := node_exec (List.length F) F g0.
  Notation driveM := (drive (fun c : cpt => c) (fun c => Some c) (seg_fresh ex 0 g0 x) (seg_resumed ex 0 g0) (tick_of mods)).

  Definition store_ok (with_id : bool) (prev : option inf) (store : option cpt) : Prop :=
    match (if with_id then store else None) with
    | Some c => exists i, prev = Some i /\ paired F g0 i c
    | None => True
    end.

  Lemma Hex_sub : forall k cpo v e cp info e', ex k cpo v e = (TSub cp info, e') -> sub_ok F g0 k cp info.
  Proof. intros; eapply node_exec_sub_ok; eauto. Qed.

  (* one call *)
  Lemma call_logs_step : forall with_id store sm prev e co store' e',
    store_ok with_id prev store ->
    call (fun c : cpt => c) (fun c => Some c) (seg_fresh ex 0 g0 x) (seg_resumed ex 0 g0) with_id store sm e = (co, store', e') ->
    (exists a, e_log e' = e_log e ++ a /\ justified F prev a) /\
    match co_out co with OInterrupted _ _ => store_ok with_id (next_prev co) store' | _ => True end.
  Proof.
    intros with_id store sm prev e co store' e' Hst H. unfold call in H. unfold store_ok in Hst.
    assert (G0 : grows F prev (e_log e) e) by (exists []; split; [rewrite app_nil_r; reflexivity|split; [intros en []|intros k v ab []]]).
    destruct (if with_id then store else None) as [c|] eqn:Hs.
    - destruct Hst as (i & -> & Hp).
      destruct (seg_resumed ex 0 g0 sm c e) as [[o l] e1] eqn:Hr.
      assert (G1 : grows F (Some i) (e_log e) e1).
      { eapply (seg_resumed_grows (List.length F) F g0 0 sm c e o l e1 (Some i) (e_log e) i); eauto. }
      destruct G1 as [a [Ha Ja]].
      assert (Hpo : forall i1 c1, o = OInterrupted i1 c1 -> paired F g0 i1 c1)
        by (intros i1 c1 ->; eapply (seg_resumed_paired F ex 0 g0 Hex_sub); eauto).
      destruct o as [v|i1 c1|err|]; destruct with_id; inversion H; subst; simpl;
        (split; [exists a; auto|]); unfold store_ok, next_prev; simpl; auto.
      exists i1; split; auto.
    - destruct (seg_fresh ex 0 g0 x e) as [[o l] e1] eqn:Hr.
      assert (G1 : grows F prev (e_log e) e1).
      { eapply (seg_fresh_grows (List.length F) F g0 0 x e o l e1 prev (e_log e)); eauto. }
      destruct G1 as [a [Ha Ja]].
      assert (Hpo : forall i1 c1, o = OInterrupted i1 c1 -> paired F g0 i1 c1)
        by (intros i1 c1 ->; eapply (seg_fresh_paired F ex 0 g0 Hex_sub); eauto).
      destruct o as [v|i1 c1|err|]; destruct with_id; inversion H; subst; simpl;
        (split; [exists a; auto|]); unfold store_ok, next_prev; simpl; auto.
      exists i1; split; auto.
  Qed.

  Lemma tick_log : forall k e, e_log (tick_of mods k e) = e_log e ++ [LCall].
  Proof. reflexivity. Qed.

  (* the whole run *)
  Lemma drive_logs : forall with_id n k store prev e cos e',
    store_ok with_id prev store ->
    driveM with_id n k (mods_of mods) store e = (cos, e') ->
    exists addeds, e_log e' = e_log e ++ marked addeds /\ chain F prev cos addeds.
  Proof.
    intros with_id. induction n as [|n IH]; intros k store prev e cos e' Hst H; simpl in H.
    - destruct (call (fun c : cpt => c) (fun c => Some c) (seg_fresh ex 0 g0 x) (seg_resumed ex 0 g0) with_id store
                     (mods_of mods k) (tick_of mods k e)) as [[co st'] e1] eqn:Hc.
      destruct (call_logs_step _ _ _ _ _ _ _ _ Hst Hc) as [[a [Ha Ja]] _].
      assert (cos = [co] /\ e' = e1) as [-> ->] by (destruct (co_out co); inversion H; auto).
      exists [a]. split; [unfold marked; simpl; rewrite Ha, tick_log, <- app_assoc, app_nil_r; reflexivity|].
      simpl; auto.
    - destruct (call (fun c : cpt => c) (fun c => Some c) (seg_fresh ex 0 g0 x) (seg_resumed ex 0 g0) with_id store
                     (mods_of mods k) (tick_of mods k e)) as [[co st'] e1] eqn:Hc.
      destruct (call_logs_step _ _ _ _ _ _ _ _ Hst Hc) as [[a [Ha Ja]] Hst'].
      destruct (co_out co) as [v|i c|err|] eqn:Ho;
        try (inversion H; subst; exists [a]; split;
             [unfold marked; simpl; rewrite Ha, tick_log, <- app_assoc, app_nil_r; reflexivity|simpl; auto]).
      destruct with_id.
      + destruct (driveM true n (S k) (mods_of mods) st' e1) as [rest e2] eqn:Hd.
        inversion H; subst.
        destruct (IH _ _ _ _ _ _ Hst' Hd) as [addeds [Hl Hch]].
        exists (a :: addeds). split.
        * unfold marked in *; simpl. rewrite Hl, Ha, tick_log, <- !app_assoc. reflexivity.
        * simpl. split; [exact Ja|exact Hch].
      + inversion H; subst. exists [a]. split;
          [unfold marked; simpl; rewrite Ha, tick_log, <- app_assoc, app_nil_r; reflexivity|simpl; auto].
  Qed.
End DriveLogs.

(* ---------- the flat log cut at the call markers ---------- *)
Lemma split_log_block : forall (a rest cur : list lentry) st,
  (forall en, In en a -> en <> LCall) ->
  split_log (a ++ rest) cur st = split_log rest (rev a ++ cur) st.
Proof.
  induction a as [|en a IH]; intros rest cur st Hn; simpl; [reflexivity|].
  destruct en; try (rewrite IH by (intros; apply Hn; right; assumption); rewrite <- app_assoc; reflexivity).
  exfalso; apply (Hn LCall); [left; reflexivity|reflexivity].
Qed.

Lemma split_log_marked_started : forall addeds cur,
  Forall (fun a => forall en, In en a -> en <> LCall) addeds ->
  split_log (marked addeds) cur true = rev cur :: addeds.
Proof.
  induction addeds as [|a addeds IH]; intros cur Hn; unfold marked in *; simpl; [reflexivity|].
  inversion Hn as [|? ? Ha Hn']; subst. f_equal.
  rewrite split_log_block by assumption. rewrite IH by assumption.
  rewrite app_nil_r, rev_involutive. reflexivity.
Qed.

Lemma split_log_marked : forall addeds,
  Forall (fun a => forall en, In en a -> en <> LCall) addeds ->
  split_log (marked addeds) [] false = addeds.
Proof.
  intros [|a addeds] Hn; unfold marked; simpl; [reflexivity|].
  inversion Hn as [|? ? Ha Hn']; subst.
  rewrite split_log_block by assumption.
  change (List.concat (map (cons LCall) addeds)) with (marked addeds).
  rewrite split_log_marked_started by assumption.
  rewrite app_nil_r, rev_involutive. reflexivity.
Qed.

Lemma chain_unmarked : forall F prev cos addeds,
  chain F prev cos addeds -> Forall (fun a => forall en, In en a -> en <> LCall) addeds.
Proof.
  intros F prev cos; revert prev; induction cos as [|co cos IH]; intros prev [|a addeds] H; simpl in H; try tauto.
  - constructor.
  - destruct H as [[Hn _] H]. constructor; [exact Hn|eapply IH; eauto].
Qed.

Lemma chain_length : forall F prev cos addeds, chain F prev cos addeds -> List.length addeds = List.length cos.
Proof.
  intros F prev cos; revert prev; induction cos as [|co cos IH]; intros prev [|a addeds] H; simpl in H; try tauto.
  destruct H as [_ H]. simpl. f_equal. eapply IH; eauto.
Qed.

Lemma chain_nth : forall F cos prev addeds j a k v ab,
  chain F prev cos addeds -> nth_error addeds j = Some a -> In (LExec k v ab) a -> before_in F k ->
  (j = O /\ opt_reports prev k) \/
  exists j' co' i c, j = S j' /\ nth_error cos j' = Some co' /\
                     co_out co' = OInterrupted i c /\ co_written co' = true /\ tree_reports i k.
Proof.
  intros F cos; induction cos as [|co cos IH]; intros prev [|a0 addeds] j a k v ab H Hn Hin Hb; simpl in H; try tauto.
  - destruct j; discriminate.
  - destruct H as [[_ Hj] Hch]. destruct j as [|j]; simpl in Hn.
    + inversion Hn; subst. left. split; auto. eapply Hj; eauto.
    + right. destruct (IH _ _ _ _ _ _ _ Hch Hn Hin Hb) as [[-> Hr]|(j' & co' & i & c & -> & Hn' & Ho & Hw & Ht)].
      * exists O, co. unfold next_prev in Hr.
        destruct (co_out co) as [?|i c|?|] eqn:Ho; try (destruct Hr).
        destruct (co_written co) eqn:Hw; [|destruct Hr].
        exists i, c. repeat split; auto.
      * exists (S j'), co', i, c. repeat split; auto.
Qed.

(* ---------- THE FIRST CLAUSE, at run level, for the executions at EVERY nesting level ---------- *)
Theorem run_drive_nested_before_needs_report : forall (F : list gspec) g0 with_id mods x scheds cos e',
  nth_error F 0 = Some g0 ->
  run_drive F with_id mods x (env0 scheds) = (cos, e') ->
  List.length (call_logs e') = List.length cos /\
  forall j entries k v ab,
    nth_error (call_logs e') j = Some entries -> In (LExec k v ab) entries -> before_in F k ->
    exists j' co' i c, j = S j' /\ nth_error cos j' = Some co' /\
                       co_out co' = OInterrupted i c /\ co_written co' = true /\ tree_reports i k.
Proof.
  intros F g0 with_id mods x scheds cos e' HF H.
  destruct F as [|g1 rest]; [discriminate|]. simpl in HF. inversion HF; subst g1.
  unfold run_drive in H.
  destruct (drive_logs (g0 :: rest) g0 (or_introl eq_refl) x mods with_id max_resumes O None None (env0 scheds) cos e')
    as [addeds [Hl Hch]]; [unfold store_ok; destruct with_id; exact I|exact H|].
  simpl in Hl.
  assert (Hcl : call_logs e' = addeds).
  { unfold call_logs. rewrite Hl. apply split_log_marked. eapply chain_unmarked; eauto. }
  rewrite Hcl. split; [eapply chain_length; eauto|].
  intros j entries k v ab Hn Hin Hb.
  destruct (chain_nth _ _ _ _ _ _ _ _ _ Hch Hn Hin Hb) as [[_ []]|Hx]. exact Hx.
Qed.

(* ---------- witness: [wd_top] / [wd_sub] of Proofs/InterruptDrive.v: node 5 of the nested graph is
   interrupt-before; the first call is interrupted inside the nested graph and reports it in the nested
   information under node 2; the second call executes it ---------- *)
Lemma wd_nested_unique5 : unique_owner [wd_top; wd_sub] 5.
Proof.
  intros g g' n n' Hg Hg' Hn Hn'.
  destruct Hg as [<-|[<-|[]]]; destruct Hg' as [<-|[<-|[]]]; try reflexivity; vm_compute in Hn, Hn'; discriminate.
Qed.

Lemma wd_nested_second_call : exists cos e' entries v,
  run_drive [wd_top; wd_sub] true [] wd_x (env0 []) = (cos, e') /\
  nth_error (call_logs e') 1 = Some entries /\ In (LExec 5 v false) entries /\ before_in [wd_top; wd_sub] 5 /\
  (exists co i c si, nth_error cos 0 = Some co /\ co_out co = OInterrupted i c /\ co_written co = true /\
                     ii_subs i = [(2, NInfo si)] /\ ii_before si = [5]).
Proof.
  do 4 eexists. split; [vm_compute; reflexivity|].
  split; [vm_compute; reflexivity|]. split; [vm_compute; auto|].
  split.
  - split; [exact wd_nested_unique5|]. exists wd_sub. eexists. split; [right; left; reflexivity|].
    split; vm_compute; reflexivity.
  - do 4 eexists. split; [reflexivity|]. split; [reflexivity|]. split; [reflexivity|]. split; reflexivity.
Qed.
