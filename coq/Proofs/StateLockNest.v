(* Proofs/StateLockNest.v — C11: order across nodes. When a critical section of a node is
   logged, all critical sections of its predecessors have been logged and none follows; when
   a critical section of a nested graph instance is logged, the enclosing graph node has
   performed exactly its pre-handler (so: pre-handler < everything inside the nested graph <
   post-handler). For every interleaving of Model/StateLockLTS.v. *)
From Eino Require Import Base.Util Model.StateLock Model.StateLockLTS Proofs.StateLockLTS Proofs.StateLockOrder
  Proofs.StateLockFlow.
From Coq Require Import Lia.

Section Nest.
  Variables (S X : Type).
  Variable gen : nat -> S.
  Variable hfun : kind -> N -> X -> S -> X * S.
  Variable lout : N -> X -> X.
  Variable mrg : list X -> X.
  Variable f : forest.
  Variable x0 : X.

  Notation config := (config S X).
  Notation inst := (inst S X).
  Notation pstep := (pstep S X gen hfun lout mrg f x0).
  Notation preach := (preach S X gen hfun lout mrg f x0).
  Notation new_inst := (new_inst S X gen).
  Notation node_tr := (node_tr S X).
  Notation ext := (ext S X).
  Notation is_stored := (is_stored S).

  Ltac inv H := inversion H; subst; clear H.

  (* ---------------------------------------------------------------- history *)

  (* every logged section was logged by a reachable configuration, in which the node was
     inside that critical section, and of which the present configuration is an extension *)
  Lemma history : forall c, preach c ->
    forall t1 e t2, c_trace c = t1 ++ e :: t2 ->
    exists c0 J s, preach c0 /\ c_trace c0 = t1 ++ [e] /\ ext c0 c /\
                   nth_error (c_insts c0) (t_inst e) = Some J /\
                   get_ns S X J (n_id (t_node e)) = Some s /\ ns_cs s = Some CsStored.
  Proof.
    induction 1 as [|c ch c' Hc IH Hs]; intros t1 e t2 Ht.
    - destruct t1; discriminate.
    - pose proof (pstep_ext S X gen hfun lout mrg f x0 _ _ _ Hs) as He.
      assert (Hold : c_trace c' = c_trace c ->
                exists c0 J s, preach c0 /\ c_trace c0 = t1 ++ [e] /\ ext c0 c' /\
                   nth_error (c_insts c0) (t_inst e) = Some J /\
                   get_ns S X J (n_id (t_node e)) = Some s /\ ns_cs s = Some CsStored).
      { intros Heq. rewrite Heq in Ht. destruct (IH _ _ _ Ht) as (c0 & J & s & H1 & H2 & H3 & H4 & H5 & H6).
        exists c0, J, s. split; auto. split; auto. split; [eapply ext_trans; eauto|]. auto. }
      destruct ch as [r|i n|i n|i n|i n|i n|o m].
      + apply Hold. apply pstep_start_inv in Hs. destruct Hs as (G & _ & ->). apply new_inst_trace.
      + apply Hold. apply pstep_acq_inv in Hs.
        destruct Hs as (J & a & p & k & x & o & r & El & Ek & Ex & Eo & Er & Eh & ->). reflexivity.
      + apply Hold. apply pstep_load_inv in Hs. destruct Hs as (J & a & p & o & r & El & Eo & Er & ->). reflexivity.
      + pose proof Hs as Hs0. apply pstep_store_inv in Hs.
        destruct Hs as (J & a & p & l & k & x & o & r & x' & s' & El & Ek & Ex & Eo & Er & Eh & Hc').
        apply lookup_inv in El. destruct El as (Ei & Eg & G1 & EG1 & Ef1).
        assert (Htr : c_trace c' = c_trace c ++ [mkT o i a k x l x']) by (subst c'; reflexivity).
        rewrite Htr in Ht.
        destruct t2 as [|e2 t2'] using rev_ind.
        * (* e is the entry just logged *)
          apply app_inj_tail in Ht. destruct Ht as (Ht1 & He1). subst e.
          exists c', (set_ns S X J n (mkNs (set_x X p x') (Some CsStored))), (mkNs (set_x X p x') (Some CsStored)).
          split; [econstructor; eauto|]. split; [rewrite Htr, Ht1; reflexivity|].
          split; [split; [exists []; rewrite app_nil_r; reflexivity|]|].
          -- intros i0 J0 H0. exists J0. repeat split; auto.
          -- simpl. rewrite (find_in_graph_id _ _ _ Ef1). subst c'. simpl. split.
             ++ apply nth_upd_eq. eapply nth_some_lt; eauto.
             ++ rewrite get_set_ns, N.eqb_refl. auto.
        * clear IHt2'. rewrite app_comm_cons, app_assoc in Ht. apply app_inj_tail in Ht. destruct Ht as (Ht1 & _).
          destruct (IH _ _ _ Ht1) as (c0 & J0 & s0 & H1 & H2 & H3 & H4 & H5 & H6).
          exists c0, J0, s0. split; auto. split; auto. split; [eapply ext_trans; eauto|]. auto.
      + apply Hold. apply pstep_rel_inv in Hs. destruct Hs as (J & a & p & o & r & q & El & Eo & Er & ->). reflexivity.
      + apply Hold. apply pstep_adv_inv in Hs.
        destruct Hs as (J & a & p & El & En & [(p' & q & _ & ->)|(x & g & G & -> & Es & EG & ->)]); [reflexivity|].
        simpl. apply new_inst_trace.
      + apply Hold. apply pstep_resume_inv in Hs. destruct Hs as (r & Er & Eh & ->). reflexivity.
  Qed.

  (* ---------------------------------------------------------------- a started node has final predecessors *)

  Definition preds_final (c : config) : Prop :=
    forall i J G n a s,
      nth_error (c_insts c) i = Some J -> nth_error f (i_graph J) = Some G ->
      find_in_graph n (g_nodes G) = Some a -> get_ns S X J n = Some s ->
      ns_pos s <> PWait -> forall p, In p (n_preds a) -> exists y, final_of S X J p = Some y.

  Lemma ext_final : forall c c' i J J' p y,
    ext c c' -> nth_error (c_insts c) i = Some J -> nth_error (c_insts c') i = Some J' ->
    final_of S X J p = Some y -> final_of S X J' p = Some y.
  Proof.
    intros c c' i J J' p y (_ & He) HJ HJ' Hf. destruct (He _ _ HJ) as (J2 & HJ2 & _ & _ & _ & _ & Hff).
    rewrite HJ' in HJ2. inv HJ2. auto.
  Qed.

  Lemma omapM_all : forall (J : inst) ps ys, omapM (final_of S X J) ps = Some ys ->
    forall p, In p ps -> exists y, final_of S X J p = Some y.
  Proof.
    induction ps as [|q ps IH]; simpl; intros ys H p Hp; [contradiction|].
    destruct (final_of S X J q) eqn:E1; [|discriminate].
    destruct (omapM (final_of S X J) ps) eqn:E2; [|discriminate].
    destruct Hp as [->|Hp]; eauto.
  Qed.

  (* preservation for a move of one node: the moved node's new status is handled by [Hnew] *)
  Lemma preds_final_moved : forall (c c' : config) i J G n a s s' q,
    ext c c' ->
    nth_error (c_insts c) i = Some J -> nth_error f (i_graph J) = Some G ->
    find_in_graph n (g_nodes G) = Some a -> get_ns S X J n = Some s ->
    c_insts c' = upd (c_insts c) i (set_doneq S X (set_ns S X J n s') q) ->
    preds_final c ->
    (ns_pos s' <> PWait -> forall p, In p (n_preds a) -> exists y, final_of S X J p = Some y) ->
    preds_final c'.
  Proof.
    intros c c' i J G n a s s' q He Ei EG Ef Eg Hc IH Hnew.
    intros i0 J0 G0 n0 a0 s0 Hi HG Hf Hg Hpos p Hp. pose proof Hi as Hi0. rewrite Hc in Hi.
    destruct (moved_cases _ _ _ _ _ _ _ _ _ _ _ _ Ei Hi Hg) as [(-> & -> & -> & Hs)|(J1 & H1 & H2 & Hs & Hne)].
    - destruct Hs as (_ & Hgr & _). rewrite <- Hgr in HG. rewrite EG in HG. inv HG.
      rewrite Ef in Hf. inv Hf. destruct (Hnew Hpos p Hp) as (y & Hy). exists y. eapply ext_final; eauto.
    - destruct Hs as (_ & Hgr & _). rewrite <- Hgr in HG.
      destruct (IH _ _ _ _ _ _ H1 HG Hf H2 Hpos p Hp) as (y & Hy). exists y. eapply ext_final; eauto.
  Qed.

  Lemma preds_final_new_inst : forall (c : config) r g G par inh x,
    preds_final c -> preds_final (new_inst c r g G par inh x).
  Proof.
    intros c r g G par inh x IH i J G0 n a s Hi HG Hf Hg Hpos p Hp.
    apply new_inst_insts in Hi. destruct Hi as [Hi|[-> ->]].
    - eapply IH; eauto.
    - unfold get_ns in Hg; simpl in Hg. apply init_ns_cs in Hg. subst s. simpl in Hpos. congruence.
  Qed.

  Lemma preds_final_step : forall c ch c', preds_final c -> pstep c ch = Some c' -> preds_final c'.
  Proof.
    intros c ch c' IH H. pose proof (pstep_ext S X gen hfun lout mrg f x0 _ _ _ H) as He.
    destruct ch as [r|i n|i n|i n|i n|i n|o m].
    - apply pstep_start_inv in H. destruct H as (G0 & _ & ->). apply preds_final_new_inst; auto.
    - apply pstep_acq_inv in H. destruct H as (J & a & p & k & x & o & r & El & Ek & Ex & Eo & Er & Eh & ->).
      apply lookup_inv in El. destruct El as (Ei & Eg & G1 & EG1 & Ef1).
      apply (preds_final_moved c _ i J G1 n a _ _ (i_doneq J) He Ei EG1 Ef1 Eg eq_refl IH). simpl.
      intros Hp. eapply IH; eauto.
    - apply pstep_load_inv in H. destruct H as (J & a & p & o & r & El & Eo & Er & ->).
      apply lookup_inv in El. destruct El as (Ei & Eg & G1 & EG1 & Ef1).
      apply (preds_final_moved c _ i J G1 n a _ _ (i_doneq J) He Ei EG1 Ef1 Eg eq_refl IH). simpl.
      intros Hp. eapply IH; eauto.
    - apply pstep_store_inv in H.
      destruct H as (J & a & p & l & k & x & o & r & x' & s' & El & Ek & Ex & Eo & Er & Eh & ->).
      apply lookup_inv in El. destruct El as (Ei & Eg & G1 & EG1 & Ef1).
      apply (preds_final_moved c _ i J G1 n a _ _ (i_doneq J) He Ei EG1 Ef1 Eg eq_refl IH). simpl.
      intros Hp. eapply IH; eauto. simpl. apply next_cs_some_cases in Ek. destruct p; simpl in *; try contradiction; discriminate.
    - apply pstep_rel_inv in H. destruct H as (J & a & p & o & r & q & El & Eo & Er & ->).
      apply lookup_inv in El. destruct El as (Ei & Eg & G1 & EG1 & Ef1).
      apply (preds_final_moved c _ i J G1 n a _ _ q He Ei EG1 Ef1 Eg eq_refl IH). simpl.
      intros Hp. eapply IH; eauto. simpl. destruct p; simpl in *; congruence.
    - apply pstep_adv_inv in H. destruct H as (J & a & p & El & En & [(p' & q & Hadv & ->)|(x & g & G2 & -> & Es & EG2 & ->)]).
      + apply lookup_inv in El. destruct El as (Ei & Eg & G1 & EG1 & Ef1).
        apply (preds_final_moved c _ i J G1 n a _ _ q He Ei EG1 Ef1 Eg eq_refl IH). simpl.
        intros Hp. inv Hadv; try (eapply IH; eauto; simpl; congruence).
        * rewrite H. intros p0 [].
        * eapply omapM_all; eauto.
      + apply lookup_inv in El. destruct El as (Ei & Eg & G1 & EG1 & Ef1).
        set (c1 := new_inst c (i_run J) g G2 (Some i) (i_obj J) x).
        assert (Ei' : nth_error (c_insts c1) i = Some J).
        { unfold c1, StateLockLTS.new_inst. destruct (g_state G2); simpl; rewrite nth_error_app1; auto; eapply nth_some_lt; eauto. }
        assert (He1 : ext c1 (set_inst S X c1 i (set_ns S X J n (mkNs (PSub (List.length (c_insts c))) None)))).
        { eapply (ext_moved S X _ _ i J n _ _ (i_doneq J)); eauto.
          - apply nil_ext. reflexivity.
          - intros y Hy. inv Hy.
          - reflexivity. }
        apply (preds_final_moved c1 _ i J G1 n a _ _ (i_doneq J) He1 Ei' EG1 Ef1 Eg eq_refl (preds_final_new_inst _ _ _ _ _ _ _ IH)).
        simpl. intros Hp. eapply IH; eauto. simpl. congruence.
    - apply pstep_resume_inv in H. destruct H as (r & Er & Eh & ->).
      intros i J G n a s Hi HG Hf Hg Hpos p Hp.
      apply resumed_insts in Hi. destruct Hi as (J1 & Hi & ->).
      destruct (remap_static S X o (List.length (c_objs c)) J1) as (_ & Hgr & _ & _ & Hns & _).
      rewrite Hgr in HG. unfold get_ns in Hg. rewrite Hns in Hg.
      destruct (IH _ _ _ _ _ _ Hi HG Hf Hg Hpos p Hp) as (y & Hy). exists y.
      unfold final_of, get_ns in *. rewrite Hns. auto.
  Qed.

  Lemma preds_final_reach : forall c, preach c -> preds_final c.
  Proof.
    induction 1; [|eapply preds_final_step; eauto].
    intros i J G n a s H. destruct i; discriminate.
  Qed.

  Notation kinds_in := (kinds_in S X).

  Lemma kinds_in_app : forall i n (t t' : list (tentry S X)),
    kinds_in i n (t ++ t') = kinds_in i n t ++ kinds_in i n t'.
  Proof. intros. unfold StateLockLTS.kinds_in. rewrite filter_app, map_app. reflexivity. Qed.

  Lemma ext_inst : forall c c' i J J', ext c c' ->
    nth_error (c_insts c) i = Some J -> nth_error (c_insts c') i = Some J' ->
    i_graph J' = i_graph J /\ i_parent J' = i_parent J /\ i_run J' = i_run J.
  Proof.
    intros c c' i J J' (_ & He) HJ HJ'. destruct (He _ _ HJ) as (J2 & HJ2 & ? & ? & ? & _).
    rewrite HJ' in HJ2. inv HJ2. auto.
  Qed.

  Lemma ext_inst_ex : forall c c' i J, ext c c' -> nth_error (c_insts c) i = Some J ->
    exists J', nth_error (c_insts c') i = Some J'.
  Proof. intros c c' i J (_ & He) HJ. destruct (He _ _ HJ) as (J2 & HJ2 & _). eauto. Qed.

  (* when a critical section of node b is logged, every predecessor of b has performed all
     its critical sections, and performs none afterwards *)
  Theorem preds_before_succs_preach : forall c, preach c ->
    forall t1 eb t2, c_trace c = t1 ++ eb :: t2 ->
    forall J G b, nth_error (c_insts c) (t_inst eb) = Some J -> nth_error f (i_graph J) = Some G ->
      find_in_graph (n_id (t_node eb)) (g_nodes G) = Some b ->
    forall p a, In p (n_preds b) -> find_in_graph p (g_nodes G) = Some a ->
      kinds_in (t_inst eb) p t1 = full_kinds a /\ kinds_in (t_inst eb) p (eb :: t2) = [].
  Proof.
    intros c Hr t1 eb t2 Ht J G b HJ HG Hb p a Hp Ha.
    destruct (history c Hr _ _ _ Ht) as (c0 & J0 & s0 & Hr0 & Ht0 & He & HJ0 & Hg0 & Hcs0).
    destruct (ext_inst _ _ _ _ _ He HJ0 HJ) as (Hgr & _).
    assert (HG0 : nth_error f (i_graph J0) = Some G) by (rewrite <- Hgr; auto).
    destruct (order_reach S X gen hfun lout mrg f x0 c0 Hr0) as (_ & Ho0).
    destruct (order_reach S X gen hfun lout mrg f x0 c Hr) as (_ & Ho).
    (* b is not waiting *)
    destruct (Ho0 _ _ _ _ _ _ HJ0 HG0 Hb Hg0) as (_ & Hwf).
    assert (Hpos : ns_pos s0 <> PWait).
    { intro E. rewrite E in Hwf. simpl in Hwf. congruence. }
    destruct (preds_final_reach c0 Hr0 _ _ _ _ _ _ HJ0 HG0 Hb Hg0 Hpos p Hp) as (y & Hy).
    (* status of the predecessor in c0 and in c *)
    assert (Hst0 : get_ns S X J0 p = Some (mkNs (PFin y) None)).
    { unfold final_of in Hy. destruct (get_ns S X J0 p) as [[[] [|]]|]; try discriminate. inv Hy. reflexivity. }
    pose proof (ext_final _ _ _ _ _ _ _ He HJ0 HJ Hy) as Hyc.
    assert (Hst : get_ns S X J p = Some (mkNs (PFin y) None)).
    { unfold final_of in Hyc. destruct (get_ns S X J p) as [[[] [|]]|]; try discriminate. inv Hyc. reflexivity. }
    destruct (Ho0 _ _ _ _ _ _ HJ0 HG0 Ha Hst0) as (Htr0 & _).
    destruct (Ho _ _ _ _ _ _ HJ HG Ha Hst) as (Htr & _). simpl in Htr0, Htr.
    unfold StateLockLTS.node_tr in Htr0, Htr. rewrite Ht0 in Htr0.
    replace (t1 ++ eb :: t2) with ((t1 ++ [eb]) ++ t2) in Ht by (rewrite <- app_assoc; reflexivity).
    rewrite Ht in Htr. rewrite kinds_in_app in Htr. rewrite Htr0 in Htr.
    assert (Ht2 : kinds_in (t_inst eb) p t2 = []).
    { apply (app_inv_head (full_kinds a)). rewrite app_nil_r. exact Htr. }
    assert (Hne : N.eqb (n_id (t_node eb)) p = false).
    { destruct (N.eqb_spec (n_id (t_node eb)) p); auto. subst p. rewrite Hg0 in Hst0. inv Hst0. discriminate. }
    assert (Heb : kinds_in (t_inst eb) p [eb] = []).
    { unfold StateLockLTS.kinds_in. simpl. rewrite Hne, andb_false_r. reflexivity. }
    rewrite kinds_in_app, Heb, app_nil_r in Htr0. split; auto.
    change (eb :: t2) with ([eb] ++ t2). rewrite kinds_in_app, Heb, Ht2. reflexivity.
  Qed.

  (* ---------------------------------------------------------------- nested instances and their enclosing node *)

  Definition sinks_final (c : config) (ci : nat) : Prop :=
    exists CI G, nth_error (c_insts c) ci = Some CI /\ nth_error f (i_graph CI) = Some G /\
                 forall s, In s (sinks G) -> exists y, final_of S X CI (n_id s) = Some y.

  Lemma sinks_final_mono : forall c c' ci, ext c c' -> sinks_final c ci -> sinks_final c' ci.
  Proof.
    intros c c' ci He (CI & G & HC & HG & Hs). destruct (ext_inst_ex _ _ _ _ He HC) as (CI' & HC').
    destruct (ext_inst _ _ _ _ _ He HC HC') as (Hgr & _).
    exists CI', G. rewrite Hgr. repeat split; auto. intros s0 Hin. destruct (Hs _ Hin) as (y & Hy).
    exists y. eapply ext_final; eauto.
  Qed.

  Definition done_pos (p : pos X) : Prop := exists y, p = PDone y \/ p = PFin y.

  (* every nested instance hangs below a graph node of its parent instance that is running
     it, or has finished running it (then the sinks of the nested instance are final) *)
  Definition parent_link (c : config) : Prop :=
    forall ci CI i, nth_error (c_insts c) ci = Some CI -> i_parent CI = Some i ->
      exists J G n a s, nth_error (c_insts c) i = Some J /\ nth_error f (i_graph J) = Some G /\
        find_in_graph n (g_nodes G) = Some a /\ n_sub a = Some (i_graph CI) /\ get_ns S X J n = Some s /\
        (ns_pos s = PSub ci \/ (done_pos (ns_pos s) /\ sinks_final c ci)).

  Lemma parent_link_moved : forall (c c' : config) i J n s s' q,
    ext c c' ->
    nth_error (c_insts c) i = Some J -> get_ns S X J n = Some s ->
    c_insts c' = upd (c_insts c) i (set_doneq S X (set_ns S X J n s') q) ->
    (forall ci, ns_pos s = PSub ci -> ns_pos s' = PSub ci \/ (done_pos (ns_pos s') /\ sinks_final c' ci)) ->
    (done_pos (ns_pos s) -> done_pos (ns_pos s')) ->
    parent_link c -> parent_link c'.
  Proof.
    intros c c' i J n s s' q He Ei Eg Hc H1 H2 IH ci CI' i0 HC Hp.
    (* the nested instance before the move *)
    assert (HCold : exists CI, nth_error (c_insts c) ci = Some CI /\ i_parent CI = Some i0 /\ i_graph CI = i_graph CI').
    { rewrite Hc in HC. apply upd_cases in HC. destruct HC as [(-> & -> & _)|(_ & HC)]; eauto. }
    destruct HCold as (CI & HCo & Hpo & Hgo).
    destruct (IH _ _ _ HCo Hpo) as (J0 & G & n0 & a & s0 & HJ0 & HG & Hf & Hsub & Hg0 & Hpos).
    rewrite Hgo in Hsub.
    destruct (Nat.eq_dec i0 i) as [->|Hne].
    - rewrite Ei in HJ0. inv HJ0.
      exists (set_doneq S X (set_ns S X J0 n s') q), G. 
      destruct (N.eq_dec n0 n) as [->|Hnn].
      + rewrite Eg in Hg0. inv Hg0. exists n, a, s'. repeat split; auto.
        * rewrite Hc. apply nth_upd_eq. eapply nth_some_lt; eauto.
        * change (get_ns S X (set_ns S X J0 n s') n = Some s'). rewrite get_set_ns, N.eqb_refl. auto.
        * destruct Hpos as [Hpos|(Hd & Hsf)]; [apply H1; auto|].
          right. split; [apply H2; auto|eapply sinks_final_mono; eauto].
      + exists n0, a, s0. repeat split; auto.
        * rewrite Hc. apply nth_upd_eq. eapply nth_some_lt; eauto.
        * change (get_ns S X (set_ns S X J0 n s') n0 = Some s0). rewrite get_set_ns.
          destruct (N.eqb_spec n0 n); [congruence|auto].
        * destruct Hpos as [Hpos|(Hd & Hsf)]; auto. right. split; auto. eapply sinks_final_mono; eauto.
    - exists J0, G, n0, a, s0. repeat split; auto.
      + rewrite Hc. rewrite nth_upd_neq; auto.
      + destruct Hpos as [Hpos|(Hd & Hsf)]; auto. right. split; auto. eapply sinks_final_mono; eauto.
  Qed.

  Lemma omapM_all_map : forall (J : inst) (l : list node) ys,
    omapM (fun s => final_of S X J (n_id s)) l = Some ys ->
    forall s, In s l -> exists y, final_of S X J (n_id s) = Some y.
  Proof.
    induction l as [|q l IH]; simpl; intros ys H s0 Hs; [contradiction|].
    destruct (final_of S X J (n_id q)) eqn:E1; [|discriminate].
    destruct (omapM (fun s => final_of S X J (n_id s)) l) eqn:E2; [|discriminate].
    destruct Hs as [->|Hs]; eauto.
  Qed.

  Lemma parent_link_step : forall c ch c', parent_link c -> pstep c ch = Some c' -> parent_link c'.
  Proof.
    intros c ch c' IH H. pose proof (pstep_ext S X gen hfun lout mrg f x0 _ _ _ H) as He.
    destruct ch as [r|i n|i n|i n|i n|i n|o m].
    - (* start *)
      apply pstep_start_inv in H. destruct H as (G0 & _ & ->).
      intros ci CI i HC Hp. apply new_inst_insts in HC. destruct HC as [HC|[-> ->]]; [|discriminate].
      destruct (IH _ _ _ HC Hp) as (J0 & G & n0 & a & s0 & HJ0 & HG & Hf & Hsub & Hg0 & Hpos).
      exists J0, G, n0, a, s0. repeat split; auto.
      + unfold StateLockLTS.new_inst. destruct (g_state G0); simpl; rewrite nth_error_app1; auto; eapply nth_some_lt; eauto.
      + destruct Hpos as [Hpos|(Hd & Hsf)]; auto. right. split; auto. eapply sinks_final_mono; eauto.
    - apply pstep_acq_inv in H. destruct H as (J & a & p & k & x & o & r & El & Ek & Ex & Eo & Er & Eh & ->).
      apply lookup_inv in El. destruct El as (Ei & Eg & _).
      apply (parent_link_moved c _ i J n _ _ (i_doneq J) He Ei Eg eq_refl); auto.
    - apply pstep_load_inv in H. destruct H as (J & a & p & o & r & El & Eo & Er & ->).
      apply lookup_inv in El. destruct El as (Ei & Eg & _).
      apply (parent_link_moved c _ i J n _ _ (i_doneq J) He Ei Eg eq_refl); auto.
    - apply pstep_store_inv in H.
      destruct H as (J & a & p & l & k & x & o & r & x' & s' & El & Ek & Ex & Eo & Er & Eh & ->).
      apply lookup_inv in El. destruct El as (Ei & Eg & _).
      apply next_cs_some_cases in Ek.
      apply (parent_link_moved c _ i J n _ _ (i_doneq J) He Ei Eg eq_refl); auto; simpl.
      + intros ci E. rewrite E in Ek. contradiction.
      + intros (y & [E|E]); rewrite E in *; simpl; [exists x'; auto|contradiction].
    - apply pstep_rel_inv in H. destruct H as (J & a & p & o & r & q & El & Eo & Er & ->).
      apply lookup_inv in El. destruct El as (Ei & Eg & G1 & EG1 & Ef1).
      apply (parent_link_moved c _ i J n _ _ q He Ei Eg eq_refl); auto; simpl.
      + intros ci E. rewrite E. simpl. auto.
      + intros (y & [E|E]); rewrite E; simpl; exists y; auto.
    - apply pstep_adv_inv in H. destruct H as (J & a & p & El & En & [(p' & q & Hadv & ->)|(x & g & G2 & -> & Es & EG2 & ->)]).
      + apply lookup_inv in El. destruct El as (Ei & Eg & G1 & EG1 & Ef1).
        apply (parent_link_moved c _ i J n _ _ q He Ei Eg eq_refl); auto; simpl.
        * intros ci E. subst p. inv Hadv. right. split; [eexists; eauto|].
          eapply sinks_final_mono; [exact He|]. exists CI, CG. repeat split; auto.
          eapply omapM_all_map; eauto.
        * intros (y & [E|E]); subst p; inv Hadv. eexists; eauto.
      + apply lookup_inv in El. destruct El as (Ei & Eg & G1 & EG1 & Ef1).
        set (c1 := new_inst c (i_run J) g G2 (Some i) (i_obj J) x).
        assert (Hlen : (i < List.length (c_insts c))%nat) by (eapply nth_some_lt; eauto).
        assert (Hold : forall k K, nth_error (c_insts c) k = Some K -> k <> i ->
                  nth_error (c_insts (set_inst S X c1 i (set_ns S X J n (mkNs (PSub (List.length (c_insts c))) None)))) k = Some K).
        { intros k K HK Hk. simpl. rewrite nth_upd_neq by auto.
          unfold c1, StateLockLTS.new_inst. destruct (g_state G2); simpl; rewrite nth_error_app1; auto; eapply nth_some_lt; eauto. }
        assert (Hnew : nth_error (c_insts (set_inst S X c1 i (set_ns S X J n (mkNs (PSub (List.length (c_insts c))) None)))) i
                       = Some (set_ns S X J n (mkNs (PSub (List.length (c_insts c))) None))).
        { simpl. apply nth_upd_eq. unfold c1. rewrite new_inst_insts_len. lia. }
        intros ci CI i0 HC Hp. simpl in HC. apply upd_cases in HC.
        assert (HCold : (ci = List.length (c_insts c) /\ i0 = i /\ i_graph CI = g) \/
                        (exists CI0, nth_error (c_insts c) ci = Some CI0 /\ i_parent CI0 = Some i0 /\ i_graph CI0 = i_graph CI)).
        { destruct HC as [(-> & -> & _)|(_ & HC)].
          - right. exists J. auto.
          - apply new_inst_insts in HC. destruct HC as [HC|[-> ->]]; [right; eauto|].
            left. simpl in Hp. inv Hp. auto. }
        destruct HCold as [(-> & -> & Hg)|(CI0 & HC0 & Hp0 & Hg0)].
        * exists (set_ns S X J n (mkNs (PSub (List.length (c_insts c))) None)), G1, n, a, (mkNs (PSub (List.length (c_insts c))) None).
          repeat split; auto.
          -- rewrite Hg. auto.
          -- rewrite get_set_ns, N.eqb_refl. auto.
        * destruct (IH _ _ _ HC0 Hp0) as (J0 & G & n0 & a0 & s0 & HJ0 & HG & Hf & Hsub & Hgs & Hpos).
          rewrite Hg0 in Hsub.
          assert (Hne : i0 <> i \/ n0 <> n).
          { destruct (Nat.eq_dec i0 i); auto. destruct (N.eq_dec n0 n); auto. subst. exfalso.
            rewrite Ei in HJ0. inv HJ0. rewrite Eg in Hgs. inv Hgs. simpl in Hpos.
            destruct Hpos as [Hpos|((y & [E|E]) & _)]; discriminate. }
          destruct (Nat.eq_dec i0 i) as [->|Hni].
          -- rewrite Ei in HJ0. inv HJ0. destruct Hne as [Hne|Hne]; [congruence|].
             exists (set_ns S X J0 n (mkNs (PSub (List.length (c_insts c))) None)), G, n0, a0, s0. repeat split; auto.
             ++ rewrite get_set_ns. destruct (N.eqb_spec n0 n); [congruence|auto].
             ++ destruct Hpos as [Hpos|(Hd & Hsf)]; auto. right. split; auto. eapply sinks_final_mono; eauto.
          -- exists J0, G, n0, a0, s0. repeat split; auto.
             destruct Hpos as [Hpos|(Hd & Hsf)]; auto. right. split; auto. eapply sinks_final_mono; eauto.
    - (* resume *)
      apply pstep_resume_inv in H. destruct H as (r & Er & Eh & ->).
      intros ci CI i HC Hp. apply resumed_insts in HC. destruct HC as (CI1 & HC & ->).
      destruct (remap_static S X o (List.length (c_objs c)) CI1) as (_ & Hgr & Hpar & _ & _ & _).
      rewrite Hpar in Hp. destruct (IH _ _ _ HC Hp) as (J0 & G & n0 & a & s0 & HJ0 & HG & Hf & Hsub & Hg0 & Hpos).
      destruct (remap_static S X o (List.length (c_objs c)) J0) as (_ & Hgr0 & _ & _ & Hns0 & _).
      exists (remap S X o (List.length (c_objs c)) J0), G, n0, a, s0. rewrite Hgr, Hgr0. repeat split; auto.
      + unfold resumed; simpl. apply map_nth_error. auto.
      + unfold get_ns. rewrite Hns0. auto.
      + destruct Hpos as [Hpos|(Hd & Hsf)]; auto. right. split; auto. eapply sinks_final_mono; eauto.
  Qed.

  Lemma parent_link_reach : forall c, preach c -> parent_link c.
  Proof.
    induction 1; [|eapply parent_link_step; eauto].
    intros ci CI i H. destruct ci; discriminate.
  Qed.

  (* ---------------------------------------------------------------- sinks final => every node final *)

  Lemma preds_earlier_spec : forall l seen l1 b l3,
    preds_earlier seen l = true -> l = l1 ++ b :: l3 ->
    forall p, In p (n_preds b) -> In p seen \/ In p (map n_id l1).
  Proof.
    induction l as [|a l IH]; intros seen l1 b l3 H Hl p Hp.
    - destruct l1; discriminate.
    - simpl in H. apply andb_true_iff in H. destruct H as (H1 & H2).
      destruct l1 as [|a1 l1]; simpl in Hl; inv Hl.
      + left. rewrite forallb_forall in H1. specialize (H1 _ Hp). apply existsb_exists in H1.
        destruct H1 as (x & Hx & Hxe). apply N.eqb_eq in Hxe. subst. auto.
      + destruct (IH _ _ _ _ H2 eq_refl p Hp) as [[<-|Hs]|Hs]; simpl; auto.
  Qed.

  Lemma ids_unique_spec : forall l l1 a l2, ids_unique l = true -> l = l1 ++ a :: l2 ->
    ~ In (n_id a) (map n_id l1) /\ ~ In (n_id a) (map n_id l2).
  Proof.
    induction l as [|b l IH]; intros l1 a l2 H Hl.
    - destruct l1; discriminate.
    - simpl in H. apply andb_true_iff in H. destruct H as (H1 & H2). apply negb_true_iff in H1.
      destruct l1 as [|a1 l1]; simpl in Hl; inv Hl.
      + split; [intros []|]. intro Hin. apply in_map_iff in Hin. destruct Hin as (x & Hx & Hxin).
        assert (existsb (fun b0 => N.eqb (n_id a) (n_id b0)) l2 = true).
        { apply existsb_exists. exists x. split; auto. apply N.eqb_eq. auto. }
        congruence.
      + destruct (IH _ _ _ H2 eq_refl) as (Ha & Hb). split; auto. simpl. intros [E|Hin]; auto.
        assert (existsb (fun b0 => N.eqb (n_id a1) (n_id b0)) (l1 ++ a :: l2) = true).
        { apply existsb_exists. exists a. split; [apply in_or_app; right; left; auto|]. apply N.eqb_eq. auto. }
        congruence.
  Qed.

  Lemma find_in_graph_unique : forall l l1 a l2, ids_unique l = true -> l = l1 ++ a :: l2 ->
    find_in_graph (n_id a) l = Some a.
  Proof.
    induction l as [|b l IH]; intros l1 a l2 H Hl.
    - destruct l1; discriminate.
    - destruct l1 as [|a1 l1]; simpl in Hl; inv Hl.
      + simpl. rewrite N.eqb_refl. auto.
      + pose proof (ids_unique_spec _ (a1 :: l1) a l2 H eq_refl) as (Hn & _).
        simpl in H. apply andb_true_iff in H. destruct H as (_ & H2).
        simpl. destruct (N.eqb_spec (n_id a1) (n_id a)).
        * exfalso. apply Hn. simpl. auto.
        * eapply IH; eauto.
  Qed.

  Lemma find_in_graph_in : forall n l a, find_in_graph n l = Some a -> In a l.
  Proof.
    induction l; simpl; intros; [discriminate|]. destruct (N.eqb (n_id a) n); [inv H; auto|auto].
  Qed.

  (* in a well-formed graph, once the last nodes are final every node is *)
  Lemma sinks_all_final : forall (G : graph) (J : inst),
    preds_earlier [] (g_nodes G) = true -> ids_unique (g_nodes G) = true ->
    (forall n a s, find_in_graph n (g_nodes G) = Some a -> get_ns S X J n = Some s -> ns_pos s <> PWait ->
                   forall p, In p (n_preds a) -> exists y, final_of S X J p = Some y) ->
    (forall s, In s (sinks G) -> exists y, final_of S X J (n_id s) = Some y) ->
    forall a, In a (g_nodes G) -> exists y, final_of S X J (n_id a) = Some y.
  Proof.
    intros G J Htopo Huniq HQ Hsinks.
    assert (Hsuf : forall l2 l1, g_nodes G = l1 ++ l2 -> forall a, In a l2 -> exists y, final_of S X J (n_id a) = Some y).
    { induction l2 as [|a l2 IH]; intros l1 Hl b Hb; [contradiction|].
      assert (Hl' : g_nodes G = (l1 ++ [a]) ++ l2) by (rewrite <- app_assoc; auto).
      destruct Hb as [<-|Hb]; [|eapply IH; eauto].
      (* a itself: a sink, or a predecessor of a later (final) node *)
      destruct (existsb (is_pred_of (n_id a)) (g_nodes G)) eqn:Ep.
      - apply existsb_exists in Ep. destruct Ep as (b & Hbin & Hpred).
        unfold is_pred_of in Hpred. apply existsb_exists in Hpred. destruct Hpred as (p & Hp & Hpe).
        apply N.eqb_eq in Hpe. subst p.
        (* b lies after a *)
        apply in_split in Hbin. destruct Hbin as (m1 & m3 & Hm).
        destruct (preds_earlier_spec _ _ _ _ _ Htopo Hm _ Hp) as [[]|Hin1].
        (* n_id a is among the ids before b: so a is before b, i.e. b is in l2 *)
        assert (Hbl2 : In b l2).
        { rewrite Hl in Hm.
          (* compare the two decompositions by position of a *)
          destruct (ids_unique_spec _ _ _ _ Huniq Hl) as (Hna1 & Hna2).
          (* b <> a and b not in l1 *)
          assert (Hb_in : In b (l1 ++ a :: l2)) by (rewrite Hm; apply in_or_app; right; left; auto).
          apply in_app_or in Hb_in. destruct Hb_in as [Hb1|[Hba|Hb2]]; auto.
          - (* b in l1: then ids before b are ids of a prefix of l1, which cannot contain n_id a *)
            exfalso. apply in_split in Hb1. destruct Hb1 as (k1 & k3 & Hk).
            assert (Hm' : l1 ++ a :: l2 = k1 ++ b :: (k3 ++ a :: l2)) by (rewrite Hk, <- app_assoc; reflexivity).
            rewrite <- Hl in Hm'.
            destruct (preds_earlier_spec _ _ _ _ _ Htopo Hm' _ Hp) as [[]|Hin2].
            apply Hna1. rewrite Hk, map_app. apply in_or_app. left. auto.
          - (* b = a: a would be its own predecessor, listed before itself *)
            exfalso. subst b.
            destruct (preds_earlier_spec _ _ _ _ _ Htopo Hl _ Hp) as [[]|Hin2]. apply Hna1. auto. }
        destruct (IH _ Hl' _ Hbl2) as (yb & Hyb).
        assert (Hfb : find_in_graph (n_id b) (g_nodes G) = Some b).
        { rewrite Hl in Hm |- *. eapply find_in_graph_unique; [rewrite <- Hl; auto|exact Hm]. }
        assert (Hstb : get_ns S X J (n_id b) = Some (mkNs (PFin yb) None)).
        { unfold final_of in Hyb. destruct (get_ns S X J (n_id b)) as [[[] [|]]|]; try discriminate. inv Hyb. reflexivity. }
        eapply (HQ _ _ _ Hfb Hstb); [simpl; discriminate|exact Hp].
      - apply Hsinks. unfold sinks. apply filter_In. split.
        + rewrite Hl. apply in_or_app. right. left. auto.
        + rewrite Ep. reflexivity. }
    intros a Ha. eapply (Hsuf (g_nodes G) []); eauto.
  Qed.

  (* when a critical section of a nested graph instance is logged, the graph node that runs the
     instance has performed exactly its pre-handler (if it has one): pre-handler before
     everything inside the nested graph, post-handler after everything inside it *)
  Theorem nested_between_preach : forall c, preach c -> topo_ok f = true ->
    forall t1 ec t2, c_trace c = t1 ++ ec :: t2 ->
    forall CI i, nth_error (c_insts c) (t_inst ec) = Some CI -> i_parent CI = Some i ->
    exists J G n a, nth_error (c_insts c) i = Some J /\ nth_error f (i_graph J) = Some G /\
      find_in_graph n (g_nodes G) = Some a /\ n_sub a = Some (i_graph CI) /\
      kinds_in i n (t1 ++ [ec]) = pre_k a.
  Proof.
    intros c Hr Htopo t1 ec t2 Ht CI i HCI Hpar.
    destruct (history c Hr _ _ _ Ht) as (c0 & CI0 & s0 & Hr0 & Ht0 & He & HCI0 & Hg0 & Hcs0).
    destruct (ext_inst _ _ _ _ _ He HCI0 HCI) as (Hgr & Hp & _).
    assert (Hpar0 : i_parent CI0 = Some i) by congruence.
    destruct (parent_link_reach c0 Hr0 _ _ _ HCI0 Hpar0) as (J0 & G & n & a & s & HJ0 & HG & Hf & Hsub & Hgs & Hpos).
    destruct (ext_inst_ex _ _ _ _ He HJ0) as (J & HJ).
    destruct (ext_inst _ _ _ _ _ He HJ0 HJ) as (HgrJ & _).
    exists J, G, n, a. rewrite HgrJ, Hgr. repeat split; auto.
    destruct (order_reach S X gen hfun lout mrg f x0 c0 Hr0) as (_ & Ho0).
    destruct (Ho0 _ _ _ _ _ _ HJ0 HG Hf Hgs) as (Htr & Hwf).
    unfold StateLockLTS.node_tr in Htr. rewrite Ht0 in Htr.
    destruct Hpos as [Hpos|(Hd & Hsf)].
    - rewrite Hpos in Htr. simpl in Htr. exact Htr.
    - (* the enclosing node has finished: every node of the nested instance would be final *)
      exfalso. destruct Hsf as (CI1 & G1 & HC1 & HG1 & Hs1). rewrite HCI0 in HC1. inv HC1.
      destruct (flow_reach S X gen hfun lout mrg f x0 c0 Hr0) as (Hent & _).
      assert (Hin : In ec (c_trace c0)) by (rewrite Ht0; apply in_or_app; right; left; auto).
      destruct (Hent _ Hin) as ((J2 & G2 & HJ2 & HG2 & Hf2) & _).
      rewrite HCI0 in HJ2. inv HJ2. rewrite HG1 in HG2. inv HG2.
      unfold topo_ok in Htopo. rewrite forallb_forall in Htopo.
      assert (HinG : In G2 f) by (eapply nth_error_In; eauto).
      specialize (Htopo _ HinG). apply andb_true_iff in Htopo. destruct Htopo as (Hpe & Hiu).
      assert (Hall : exists y, final_of S X J2 (n_id (t_node ec)) = Some y).
      { eapply (sinks_all_final G2 J2 Hpe Hiu); eauto.
        - intros n1 a1 s1 Hf1 Hg1 Hp1 p1 Hin1.
          eapply (preds_final_reach c0 Hr0 _ _ _ _ _ _ HCI0 HG1 Hf1 Hg1 Hp1); eauto.
        - eapply find_in_graph_in; eauto. }
      destruct Hall as (y & Hy). unfold final_of in Hy. rewrite Hg0 in Hy.
      destruct s0 as [[] [|]]; discriminate.
  Qed.
End Nest.
